"""Shared driver of all checks (see /verif/check)."""
import fcntl, hashlib, json, os, re, subprocess, sys, time

VERIF = os.path.dirname(os.path.dirname(os.path.abspath(__file__)))
REPO = os.environ.get("VERIF_REPO", "/repo")
BUILD = os.path.join(VERIF, "build")
LEAN = os.path.join(VERIF, "lean")
DRIVER = os.path.join(LEAN, ".lake", "build", "bin", "driver")
ENV = dict(os.environ, GOFLAGS="-mod=mod", GOPROXY="off", GOSUMDB="off", GOTOOLCHAIN="local",
           CGO_ENABLED=os.environ.get("CGO_ENABLED", "0"))
ALLOWED_AXIOMS = {"propext", "Classical.choice", "Quot.sound"}
FORBIDDEN = re.compile(r"\b(sorry|admit|native_decide|bv_decide|implemented_by|unsafe)\b|^\s*axiom\s|maxHeartbeats\s+0\b")

TRUSTED_BASE = [
    "Lean 4.33.0 kernel (lake build; leanchecker re-check in the thorough tier)",
    "axioms allowed in property theorems: propext, Classical.choice, Quot.sound (audited by #print axioms on every run)",
    "tools/go2lean: translator of the leaf functions/constants/decision code (Generated/Leaf.lean is regenerated on every run)",
    "tools/gofacts: extractor of synchronisation skeletons and structural facts (Generated/Facts.lean)",
    "tools/go2deep + Deep/Interp.lean: printer of the go/ast of the cache-layer method bodies (Generated/Deep.lean, regenerated on every run) and the definitional interpreter that gives the Go subset its meaning (closures capturing by reference, named results, evaluation order, type assertions); Proofs/DeepCache*.lean prove interpreter(generated syntax) = hand-written M2 for every state and call; go2deep -ctor prints the goroutine and the finalizer of the two constructors (Generated/DeepCtor.lean; meaning: Deep/Janitor.lean) and go2deep -wrappers what the writing methods of Map / MapOf pass to doCompute (Generated/Wrappers.lean; meaning: Deep/Wrapper.lean); go2deep -table prints the bodies of (*MapOf).Load, (*Map).Load, sumSize of both tables and appendToBucketOf (Generated/TableLoad.lean; meaning: Deep/TInterp.lean, the sequential reading of the lookup path over a heap of buckets with their meta words)",
    "tools/rewrite + harness/vshim: build-time selector substitution (virtual clock, cooperative scheduler) through go build -overlay",
    "hand-written models (modelled, not verified): cache-layer method bodies, doCompute/Load/resize/Range/copyBucket/appendToBucket, constructor plumbing; validated only by the correspondence runs counted below",
    "Go compiler/runtime, sync/atomic sequential consistency, monotone clock, pure total user functions",
]


def sh(cmd, cwd=None, timeout=None, stdin=None, env=None):
    # own process group: on a time-out the whole tree (lake -> lean, harness -> goroutines) is killed
    p = subprocess.Popen(cmd, cwd=cwd, env=env or ENV, stdout=subprocess.PIPE, stderr=subprocess.PIPE,
                         stdin=subprocess.PIPE if stdin is not None else None, shell=isinstance(cmd, str), start_new_session=True)
    try:
        out, err = p.communicate(input=stdin, timeout=timeout)
    except subprocess.TimeoutExpired:
        import signal
        try:
            os.killpg(p.pid, signal.SIGKILL)
        except ProcessLookupError:
            pass
        out, err = p.communicate()
        # a command that does not finish is reported by the callers as a failure (exit 124), never as a Python error
        return 124, out.decode(errors="replace"), err.decode(errors="replace") + "\nTIMEOUT after %ss: %s" % (timeout, cmd if isinstance(cmd, str) else " ".join(map(str, cmd[:6])))
    return p.returncode, out.decode(errors="replace"), err.decode(errors="replace")


class Lock:
    def __init__(self, name):
        os.makedirs(BUILD, exist_ok=True)
        self.path = os.path.join(BUILD, name + ".lock")

    def __enter__(self):
        self.f = open(self.path, "w")
        fcntl.flock(self.f, fcntl.LOCK_EX)

    def __exit__(self, *a):
        fcntl.flock(self.f, fcntl.LOCK_UN)
        self.f.close()


class Run:
    """state of one check run"""

    def __init__(self, pid, tier, seed):
        self.pid, self.tier, self.seed = pid, tier, seed
        self.req_tier = tier       # tier asked for; `tier` becomes "deep" while an escalated search runs
        self.escalated = False
        self.t0 = time.time()
        self.violations = []  # (signature, replay_path, found_input: bool, text)
        self.known = []
        self.obligations = []  # (name, ok, detail)
        self.cov = {"evaluations": 0, "distinct_nontrivial": 0, "samples": [], "traces_validated_against_impl": 0,
                    "op_histogram": {}, "runs": []}
        self.assumptions = []
        self.work = os.path.join(BUILD, "run_%s_%d" % (pid, os.getpid()))
        os.makedirs(self.work, exist_ok=True)
        self.replay_dir = os.path.join(VERIF, "replays")
        os.makedirs(self.replay_dir, exist_ok=True)

    def oblige(self, name, ok, detail=""):
        # the same obligation checked again (escalated second pass): keep one entry, broken if it ever broke
        for i, o in enumerate(self.obligations):
            if o[0] == name:
                if o[1] and not ok:
                    self.obligations[i] = (name, False, detail)
                return
        self.obligations.append((name, bool(ok), detail))

    def broken(self):
        return [o for o in self.obligations if not o[1]]

    def found_input(self):
        # a listed known finding is not the failing input of whatever else broke
        known = load_known().get("known", [])
        def is_known(sig):
            return any(k.get("property") == self.pid and re.search(k["signature"], sig) for k in known)
        return any(v[2] and not is_known(v[0]) for v in self.violations)

    def log(self, *a):
        print("[%s %5.1fs]" % (self.pid, time.time() - self.t0), *a, flush=True)


# --------------------------------------------------------------------------------------------------
# build steps

def build_tools(run):
    os.makedirs(BUILD, exist_ok=True)
    with Lock("tools"):
        for t in ("go2lean", "gofacts", "go2deep", "rewrite"):
            if not os.path.isdir(os.path.join(VERIF, "tools", t)):
                continue
            rc, out, err = sh(["go", "build", "-o", os.path.join(BUILD, t), "./" + t], cwd=os.path.join(VERIF, "tools"))
            if rc != 0:
                raise SystemExit("internal error: cannot build tool %s:\n%s" % (t, err))


def regenerate(run):
    """Generated/*.lean from the current working tree; a translator failure is a broken obligation."""
    ok = True
    with Lock("lake"):
        rc, out, err = sh([os.path.join(BUILD, "go2lean"), REPO, os.path.join(LEAN, "CacheVerif", "Generated", "Leaf.lean")])
        run.oblige("go2lean: leaf code of the working tree is inside the translated subset", rc == 0, err.strip())
        ok &= rc == 0
        if os.path.exists(os.path.join(BUILD, "gofacts")):
            rc, out, err = sh([os.path.join(BUILD, "gofacts"), REPO, os.path.join(LEAN, "CacheVerif", "Generated", "Facts.lean")])
            run.oblige("gofacts: structural facts extracted from the working tree", rc == 0, err.strip())
            ok &= rc == 0
        if os.path.exists(os.path.join(BUILD, "go2deep")):
            rc, out, err = sh([os.path.join(BUILD, "go2deep"), REPO, os.path.join(LEAN, "CacheVerif", "Generated", "Deep.lean")])
            run.oblige("go2deep: every method body of xsync_map.go / xsync_mapof.go is inside the Go subset of the deep embedding", rc == 0, err.strip())
            # the goroutine and the finalizer of the two constructors: a separate generated file, an obligation of C15 only
            rc2, out2, err2 = sh([os.path.join(BUILD, "go2deep"), "-ctor", REPO, os.path.join(LEAN, "CacheVerif", "Generated", "DeepCtor.lean")])
            if run.pid == "C15":
                run.oblige("go2deep -ctor: the goroutine newXsyncMap / newXsyncMapOf start and the finalizer they register have the shape the deep embedding interprets (if guard { go func() { ticker; defer Stop; for { select {...} } }() }; SetFinalizer(x, func(m) { close(m.f) }))", rc2 == 0, err2.strip())
            # what the writing methods of Map / MapOf pass to doCompute: an obligation of the table-level properties
            rc3, out3, err3 = sh([os.path.join(BUILD, "go2deep"), "-wrappers", REPO, os.path.join(LEAN, "CacheVerif", "Generated", "Wrappers.lean")])
            if run.pid in ("C03", "C04", "C05", "C11"):
                run.oblige("go2deep -wrappers: Store, LoadOrStore, LoadAndStore, LoadOrCompute, Compute, LoadAndDelete, Delete of map.go / mapof.go are one call of doCompute each (function argument and flags printed)", rc3 == 0, err3.strip())
            # the lookup path of MapOf (Load), printed for the deep embedding of the table layer
            rc4, out4, err4 = sh([os.path.join(BUILD, "go2deep"), "-table", REPO, os.path.join(LEAN, "CacheVerif", "Generated", "TableLoad.lean")])
            if run.pid in ("C03", "C04", "C08", "C10", "C11", "C12", "C16"):
                run.oblige("go2deep -table: the bodies of (*MapOf).Load, (*Map).Load, sumSize of both tables and appendToBucketOf are inside the Go subset of the table-layer deep embedding (locals, leaf functions and constants of internal/xsync, atomic loads, the three forms of for and for-range over the stripes, continue, a label with goto, named results, stores through a bucket pointer and new(bucketOfPadded))", rc4 == 0, err4.strip())
            if rc != 0:
                # keep the Lean project buildable for the other obligations: the generated files stay as they were
                pass
    return ok


def lake_build(run, targets, label=None, timeout=3000):
    with Lock("lake"):
        rc, out, err = sh(["lake", "build"] + targets, cwd=LEAN, timeout=timeout)
    txt = out + err
    if rc == 124:
        return False, "lake build %s did not finish within %d s (a proof script that no longer terminates on the regenerated syntax is a broken obligation)\n" % (" ".join(targets), timeout) + txt[-3000:]
    if rc != 0:
        # keep only error lines for the replay file
        errs = [l for l in txt.splitlines() if "error" in l.lower()][:40]
        return False, "\n".join(errs) + "\n---- full log tail ----\n" + txt[-6000:]
    return True, ""


def prop_theorems(pid):
    """names of all theorems in Props/<pid>.lean (namespace-qualified)"""
    path = os.path.join(LEAN, "CacheVerif", "Props", pid + ".lean")
    names, ns = [], []
    if not os.path.exists(path):
        return names
    for line in open(path):
        m = re.match(r"\s*namespace\s+(\S+)", line)
        if m:
            ns.append(m.group(1))
            continue
        m = re.match(r"\s*end\s+(\S+)", line)
        if m and ns and ns[-1] == m.group(1):
            ns.pop()
            continue
        m = re.match(r"\s*(?:@\[[^\]]*\]\s*)?theorem\s+(\S+)", line)
        if m:
            names.append(".".join(ns + [m.group(1)]))
    return names


def lean_sources_for(pid):
    """all hand-written Lean sources (the audit greps every one of them)"""
    res = []
    for root, _, files in os.walk(LEAN):
        if ".lake" in root:
            continue
        for f in files:
            if f.endswith(".lean"):
                res.append(os.path.join(root, f))
    return res


def strip_comments(text):
    text = re.sub(r"/-.*?-/", "", text, flags=re.S)
    return "\n".join(l.split("--")[0] for l in text.splitlines())


def audit(run, pid, modules):
    bad = []
    for f in lean_sources_for(pid):
        for i, l in enumerate(strip_comments(open(f).read()).splitlines()):
            if FORBIDDEN.search(l):
                bad.append("%s:%d: %s" % (os.path.relpath(f, VERIF), i + 1, l.strip()))
    run.oblige("audit: no sorry/admit/axiom/native_decide/bv_decide/implemented_by/unsafe/maxHeartbeats 0 in any Lean source",
               not bad, "\n".join(bad))
    thms = prop_theorems(pid)
    if not thms:
        run.oblige("Props/%s.lean states at least one theorem" % pid, False, "no theorem found")
        return {}
    src = "".join("import %s\n" % m for m in modules) + "".join("#print axioms %s\n" % t for t in thms)
    path = os.path.join(run.work, "Audit.lean")
    open(path, "w").write(src)
    with Lock("lake"):
        rc, out, err = sh(["lake", "env", "lean", path], cwd=LEAN, timeout=900)
    axioms = {}
    txt = (out + err).replace("\n  ", " ")
    for t in thms:
        m = re.search(r"'%s' depends on axioms: \[([^\]]*)\]" % re.escape(t), txt)
        if m:
            axioms[t] = [a.strip() for a in m.group(1).replace("\n", " ").split(",") if a.strip()]
        elif re.search(r"'%s' does not depend on any axioms" % re.escape(t), txt):
            axioms[t] = []
        else:
            axioms[t] = None
    for t, ax in axioms.items():
        ok = ax is not None and set(ax) <= ALLOWED_AXIOMS
        run.oblige("theorem %s (kernel-checked; axioms ⊆ {propext, Classical.choice, Quot.sound})" % t, ok,
                   "axioms: %s" % ax if ax is not None else "not found: " + txt[-800:])
    return axioms


_harness_built = {}


def build_harness(run, mode):
    """go build -overlay from the working tree; mode = clock | sched"""
    out = os.path.join(BUILD, "vharness_" + mode)
    with Lock("harness_" + mode):
        ov = os.path.join(BUILD, "ov_" + mode)
        rc, o, e = sh([os.path.join(BUILD, "rewrite"), REPO, ov, mode, os.path.join(VERIF, "harness")])
        if rc != 0:
            return None, "rewrite failed: " + e
        if os.path.exists(out):
            os.remove(out)
        rc, o, e = sh(["go", "build", "-overlay", os.path.join(ov, "overlay.json"), "-o", out, "./internal/vharness"], cwd=REPO, timeout=600)
        if rc != 0:
            return None, "go build failed:\n" + e[-3000:]
        # private copy so that a concurrent check cannot swap it under us
        mine = os.path.join(run.work, "vharness_" + mode)
        sh(["cp", out, mine])
    return mine, ""


# --------------------------------------------------------------------------------------------------
# correspondence

def split_seqs(ops, *cols):
    """split parallel line lists into sequences starting at 'new ' lines"""
    seqs, cur = [], None
    for i, o in enumerate(ops):
        if o.startswith("new "):
            cur = []
            seqs.append(cur)
        if cur is None:
            cur = []
            seqs.append(cur)
        cur.append((o,) + tuple(c[i] if i < len(c) else "<missing>" for c in cols))
    return seqs


def strip_for_spec(line):
    return line.split(" || ")[0].split(" | cbs=")[0]


def run_driver(ops_path, out_path, spec=False):
    args = [DRIVER] + (["--spec"] if spec else [])
    with open(ops_path, "rb") as fin, open(out_path, "wb") as fout:
        p = subprocess.run(args, stdin=fin, stdout=fout, stderr=subprocess.PIPE, timeout=3000)
    nts = [int(l.split()[1]) for l in p.stderr.decode().splitlines() if l.startswith("SEQ ")]
    return p.returncode, nts


def read_lines(p):
    with open(p) as f:
        return f.read().splitlines()


def first_diff_seq(seqs, cmp):
    """first sequence with a differing line; returns (seq_index, op_index) or None"""
    for si, s in enumerate(seqs):
        for oi, row in enumerate(s):
            if not cmp(row):
                return si, oi
    return None


def replay_seq(run, harness, mode, lines, extra):
    """run a single op list on the real code (replay mode) and on model and spec; returns (impl, model, spec)"""
    d = os.path.join(run.work, "rp")
    os.makedirs(d, exist_ok=True)
    rp = os.path.join(d, "in.txt")
    open(rp, "w").write("\n".join(lines) + "\n")
    rc, o, e = sh([harness, mode, "replay=" + rp, "out=" + d] + extra, timeout=600)
    impl = read_lines(os.path.join(d, "impl.txt")) if rc == 0 else ["HARNESS-CRASH " + e[-300:]] * len(lines)
    run_driver(rp, os.path.join(d, "model.txt"))
    run_driver(rp, os.path.join(d, "spec.txt"), spec=True)
    return impl, read_lines(os.path.join(d, "model.txt")), read_lines(os.path.join(d, "spec.txt"))


def spec_ok(impl_line, spec_line):
    return spec_line == "?" or strip_for_spec(impl_line) == spec_line


def shrink(run, harness, mode, lines, extra, bad):
    """delta debugging on the op list (keeps line 0 = constructor); `bad(impl, model, spec)` -> bool"""
    cur = lines[:]
    n = 2
    budget = 120
    while len(cur) > 2 and budget > 0:
        chunk = max(1, (len(cur) - 1) // n)
        removed = False
        i = 1
        while i < len(cur) and budget > 0:
            cand = cur[:i] + cur[i + chunk:]
            budget -= 1
            if len(cand) >= 2 and bad(*replay_seq(run, harness, mode, cand, extra)):
                cur = cand
                removed = True
            else:
                i += chunk
        if not removed:
            if chunk == 1:
                break
            n = min(n * 2, len(cur) - 1)
    return cur


def write_replay(run, name, payload):
    path = os.path.join(run.replay_dir, "%s_%s.json" % (run.pid, name))
    with open(path, "w") as f:
        json.dump(payload, f, indent=1)
    return path


def seq_correspondence(run, harness, mode, label, args, corpus_files=(), overlay="clock"):
    """model <-> implementation on generated sequences (plus corpus), with spec <-> implementation as the
    search for a real violation.  Returns True when everything agreed."""
    d = os.path.join(run.work, label)
    os.makedirs(d, exist_ok=True)
    extra = [a for a in args if a.startswith("twin=") or a.startswith("kind=")]
    all_ok = True
    jobs = [("corpus:" + os.path.basename(c), ["replay=" + c]) for c in corpus_files] + [("generated", [])]
    for jname, jargs in jobs:
        rc, o, e = sh([harness, mode, "out=" + d] + args + jargs, timeout=3000)
        if rc != 0:
            sig = "%s: harness crashed (%s)" % (label, e.strip().splitlines()[-1] if e.strip() else rc)
            path = write_replay(run, label + "_crash", {"kind": "harness-crash", "cmd": [mode] + args + jargs, "stderr": e[-4000:]})
            run.violations.append((sig, path, True, sig))
            return False
        ops = read_lines(os.path.join(d, "ops.txt"))
        impl = read_lines(os.path.join(d, "impl.txt"))
        rcm, nts = run_driver(os.path.join(d, "ops.txt"), os.path.join(d, "model.txt"))
        run_driver(os.path.join(d, "ops.txt"), os.path.join(d, "spec.txt"), spec=True)
        model = read_lines(os.path.join(d, "model.txt"))
        spec = read_lines(os.path.join(d, "spec.txt"))
        seqs = split_seqs(ops, impl, model, spec)
        # coverage bookkeeping
        run.cov["evaluations"] += len(ops)
        seen = run.cov.setdefault("_seen", set())
        for si, s in enumerate(seqs):
            h = hashlib.sha1("\n".join(r[0] for r in s).encode()).hexdigest()
            if si < len(nts) and nts[si] > 0 and h not in seen:
                seen.add(h)
        run.cov["traces_validated_against_impl"] += len(seqs)
        for o_ in ops:
            k = o_.split()[0] if o_.split() else "?"
            run.cov["op_histogram"][k] = run.cov["op_histogram"].get(k, 0) + 1
        if jname == "generated" and seqs and len(run.cov["samples"]) < 4:
            s = seqs[min(1, len(seqs) - 1)]
            run.cov["samples"].append({"run": label, "ops": [r[0] for r in s[:12]], "impl": [r[1] for r in s[:12]]})
        run.cov["runs"].append({"label": label, "job": jname, "ops": len(ops), "sequences": len(seqs),
                                "sequences_nontrivial": sum(1 for x in nts if x > 0)})

        def report(kind, si, oi, cmpf):
            nonlocal all_ok
            all_ok = False
            lines = [r[0] for r in seqs[si][:oi + 1]]
            small = shrink(run, harness, mode, lines, extra, cmpf)
            im, mo, sp = replay_seq(run, harness, mode, small, extra)
            for _ in range(8):
                # black-box runs draw a fresh hash seed per process: keep a replay that shows the failure
                if cmpf(im, mo, sp):
                    break
                im, mo, sp = replay_seq(run, harness, mode, small, extra)
            # first line that still differs in the final replay (black-box runs use the real, per-process
            # random hash seed, so a layout-dependent failure may move between replays)
            idx = len(small) - 1
            for j in range(len(small)):
                a, b, c = im[j] if j < len(im) else "", mo[j] if j < len(mo) else "", sp[j] if j < len(sp) else ""
                if (kind == "spec" and not spec_ok(a, c)) or (kind == "model" and a != b):
                    idx = j
                    break
            small, im, mo, sp = small[:idx + 1], im[:idx + 1], mo[:idx + 1], sp[:idx + 1]
            last = small[-1].split()[0]
            found = kind == "spec"
            what_model = "hand-written model and real code disagree (correspondence broken) and no call sequence was found on which the real code contradicts the reference semantics"
            if kind == "model" and im and mo and im[-1].split(" | cbs=")[0] == mo[-1].split(" | cbs=")[0]:
                # same result, different callback ledger.  Spec.TTL has no callbacks; the reference for the ledger is
                # the model's, which the C06 theorems prove to be exactly the entries the call removed, once each,
                # with the callback in force: a ledger that differs from it on an equal state is a failing input
                found = True
                what_model = ("the real code's evicted-callback ledger for this call differs from the ledger the C06 theorems "
                              "prove correct (exactly the entries the call physically removed, once each, callback in force)")
            # a corpus sequence is identified by its file, a generated one by the run it came from
            sig = "%s:%s:%s" % (jname if jname.startswith("corpus:") else label, kind, last)
            payload = {"kind": "sequential-differential", "what": {
                "spec": "the real code contradicts the property's reference semantics (Spec) on this call sequence",
                "model": what_model}[kind],
                "mode": mode, "overlay": overlay, "args": extra, "ops": small, "impl": im, "model": mo, "spec": sp,
                "replay_cmd": "./check %s --replay <this file>" % run.pid}
            path = write_replay(run, "%s_%s_%s" % (label, kind, last), payload)
            run.violations.append((sig, path, found, "%s op=%s impl=%r model=%r spec=%r" % (kind, small[-1], im[-1], mo[-1], sp[-1])))

        # 1. real violations: spec <-> implementation
        bad_spec = first_diff_seq(seqs, lambda r: spec_ok(r[1], r[3]))
        if bad_spec:
            report("spec", bad_spec[0], bad_spec[1],
                   lambda im, mo, sp: any(not spec_ok(a, b) for a, b in zip(im, sp)))
        # 2. correspondence: model <-> implementation
        bad_model = first_diff_seq(seqs, lambda r: r[1] == r[2])
        if bad_model and not bad_spec:
            report("model", bad_model[0], bad_model[1],
                   lambda im, mo, sp: any(a != b for a, b in zip(im, mo)))
    return all_ok


def twin_differential(run, harness, mode, label, args_a, args_b, canon=lambda l: l):
    """run the same generated call sequences on both twins of the real code and compare their outputs directly"""
    outs = []
    for tag, args in (("a", args_a), ("b", args_b)):
        d = os.path.join(run.work, label + "_" + tag)
        os.makedirs(d, exist_ok=True)
        rc, o, e = sh([harness, mode, "out=" + d] + args, timeout=3000)
        if rc != 0:
            path = write_replay(run, label + "_crash", {"kind": "harness-crash", "cmd": [mode] + args, "stderr": e[-4000:]})
            run.violations.append(("%s: harness crashed" % label, path, True, e[-300:]))
            return False
        outs.append((read_lines(os.path.join(d, "ops.txt")), read_lines(os.path.join(d, "impl.txt"))))
    (ops_a, im_a), (ops_b, im_b) = outs
    run.cov["evaluations"] += len(ops_a)
    run.cov["runs"].append({"label": label, "ops": len(ops_a)})
    for i, (x, y) in enumerate(zip(im_a, im_b)):
        if canon(x) != canon(y):
            lo = i
            while lo > 0 and not ops_a[lo].startswith("new"):
                lo -= 1
            path = write_replay(run, label + "_twins", {
                "kind": "twin-differential", "what": "the twins answer the same call sequence differently",
                "ops_twin_a": ops_a[lo:i + 1], "ops_twin_b": ops_b[lo:i + 1], "impl_twin_a": im_a[lo:i + 1], "impl_twin_b": im_b[lo:i + 1]})
            run.violations.append(("%s:twins:%s" % (label, ops_a[i].split()[0]), path, True,
                                   "twins differ at %r: %r vs %r" % (ops_a[i], x, y)))
            return False
    return True


# --------------------------------------------------------------------------------------------------
# native harness modes: key-type catalogue (C10), race detector (C14), janitor (C15)

def build_keys_harness(run):
    out = os.path.join(run.work, "keysharness")
    with Lock("harness_clock"):
        ov = os.path.join(BUILD, "ov_clock")
        rc, o, e = sh([os.path.join(BUILD, "rewrite"), REPO, ov, "clock", os.path.join(VERIF, "harness")])
        if rc != 0:
            return None, "rewrite failed: " + e
        rc, o, e = sh(["go", "build", "-overlay", os.path.join(ov, "overlay.json"), "-o", out, "."],
                      cwd=os.path.join(VERIF, "harness", "keysmod"), timeout=900)
    if rc != 0:
        return None, "go build failed:\n" + e[-3000:]
    return out, ""


def build_race_harness(run):
    out = os.path.join(run.work, "vharness_race")
    with Lock("harness_clock"):
        ov = os.path.join(BUILD, "ov_clock")
        rc, o, e = sh([os.path.join(BUILD, "rewrite"), REPO, ov, "clock", os.path.join(VERIF, "harness")])
        if rc != 0:
            return None, "rewrite failed: " + e
        env = dict(ENV, CGO_ENABLED="1")
        rc, o, e = sh(["go", "build", "-race", "-overlay", os.path.join(ov, "overlay.json"), "-o", out, "./internal/vharness"],
                      cwd=REPO, timeout=900, env=env)
    if rc != 0:
        return None, "go build -race failed:\n" + e[-3000:]
    return out, ""


def native_run(run, label, cmd, bad_markers, env=None, timeout=1800):
    """run a native harness; any line containing one of bad_markers (or a non-zero exit) is a violation"""
    try:
        rc, o, e = sh(cmd, timeout=timeout, env=env)
    except subprocess.TimeoutExpired:
        rc, o, e = 124, "", "TIMEOUT: the native harness did not finish (hang)"
    txt = o + "\n" + e
    lines = [l for l in txt.splitlines() if any(m in l for m in bad_markers)]
    run.cov["evaluations"] += max(1, len([l for l in o.splitlines() if l.strip()]))
    run.cov["runs"].append({"label": label, "exit": rc, "output_lines": len(o.splitlines())})
    if len(run.cov["samples"]) < 4:
        run.cov["samples"].append({"run": label, "output_tail": o.splitlines()[-6:]})
    if rc != 0 or lines:
        first = lines[0] if lines else ("exit %d: %s" % (rc, (e.strip().splitlines() or ["?"])[-1]))
        tag = re.sub(r"[^A-Za-z0-9_-]+", "_", first.split(":")[0])[:40]
        path = write_replay(run, "%s_%s" % (label, tag), {
            "kind": "native", "what": "the real code, run natively by the harness, violates the property",
            "cmd": cmd, "problems": lines[:20], "output_tail": txt[-6000:],
            "replay_cmd": "./check %s --replay <this file>" % run.pid})
        run.violations.append(("%s:%s" % (label, first[:80]), path, True, "%s: %s" % (label, first[:300])))
        return False
    return True


# --------------------------------------------------------------------------------------------------
# controlled-scheduler exploration (real code under the cooperative scheduler; linearizability decided by
# the Lean driver against Spec; other monitors in the Go harness)

def parse_hists(path):
    """hist.txt -> {id: [lines]}"""
    hs, cur, cid = {}, None, None
    for l in read_lines(path):
        if l.startswith("hist "):
            cid = l.split()[1]
            cur = [l]
        elif cur is not None:
            cur.append(l)
            if l == "end":
                hs[cid] = cur
                cur = None
    return hs


def overlapping(lines):
    ivs = []
    for l in lines:
        if l.startswith("op "):
            f = l.split()
            ivs.append((int(f[2]), int(f[3]), f[1]))
    for i in range(len(ivs)):
        for j in range(i + 1, len(ivs)):
            a, b = ivs[i], ivs[j]
            if a[2] != b[2] and a[0] < b[1] and b[0] < a[1]:
                return True
    return False


def sched_exploration(run, harness, label, args, tags, lin=True):
    """returns True if nothing relevant was found.  tags: monitor prefixes that belong to this property."""
    d = os.path.join(run.work, label)
    os.makedirs(d, exist_ok=True)
    if args and args[0].startswith("file="):
        rc, o, e = sh([harness, "schedreplay", "out=" + d] + args, timeout=900)
    else:
        rc, o, e = sh([harness, "sched", "out=" + d] + args, timeout=1500)
    if rc != 0:
        sig = "%s: scheduler harness crashed" % label
        path = write_replay(run, label + "_crash", {"kind": "harness-crash", "cmd": ["sched"] + args, "stderr": e[-4000:]})
        run.violations.append((sig, path, True, sig + ": " + (e.strip().splitlines()[-1] if e.strip() else str(rc))))
        return False
    hists = parse_hists(os.path.join(d, "hist.txt"))
    verdict = {}
    if lin:
        with open(os.path.join(d, "hist.txt"), "rb") as fin:
            p = subprocess.run([DRIVER, "--lin"], stdin=fin, stdout=subprocess.PIPE, stderr=subprocess.PIPE, timeout=3000)
        for l in p.stdout.decode().splitlines():
            f = l.split(None, 2)
            if len(f) >= 2:
                verdict[f[0]] = " ".join(f[1:])
    mons = {}
    steps = 0
    for l in read_lines(os.path.join(d, "monitors.txt")):
        if l.startswith("#"):
            m = re.search(r"(\d+) scheduled steps", l)
            if m:
                steps = int(m.group(1))
            m = re.search(r"exhaustive-one-preemption schedules: (\d+)", l)
            if m:
                run.cov["exhaustive_one_preemption_schedules"] = run.cov.get("exhaustive_one_preemption_schedules", 0) + int(m.group(1))
            continue
        hid, msg = l.split(" ", 1)
        mons.setdefault(hid, []).append(msg)
    run.cov["evaluations"] += len(hists)
    run.cov["transitions_scheduled"] = run.cov.get("transitions_scheduled", 0) + steps
    run.cov["traces_validated_against_impl"] += len(hists)
    seen = run.cov.setdefault("_seen", set())
    for hid, lines in hists.items():
        if overlapping(lines):
            seen.add(hashlib.sha1("\n".join(l for l in lines[1:] if not l.startswith("final")).encode()).hexdigest())
        for l in lines:
            if l.startswith("op "):
                k = l.split(" | ")[1].split()[0]
                run.cov["op_histogram"][k] = run.cov["op_histogram"].get(k, 0) + 1
    if hists and len(run.cov["samples"]) < 4:
        k = sorted(hists, key=int)[min(3, len(hists) - 1)]
        run.cov["samples"].append({"run": label, "history": hists[k][:14]})
    run.cov["runs"].append({"label": label, "schedules": len(hists), "scheduled_steps": steps,
                            "nonlinearizable": sum(1 for v in verdict.values() if not v.startswith("OK"))})
    ok = True
    reported = set()
    for hid in sorted(hists, key=int):
        probs = []
        if lin and "NONLIN" in tags and not verdict.get(hid, "OK").startswith("OK"):
            probs.append(verdict[hid])
        for m in mons.get(hid, []):
            if any(m.startswith(t) for t in tags):
                probs.append(m)
        if not probs:
            continue
        ok = False
        tag = probs[0].split(":")[0].split()[0]
        # one report per (label, tag, first op kinds) is enough
        ops = sorted(set(l.split(" | ")[1].split()[0] for l in hists[hid] if l.startswith("op ")))
        sig = "%s:%s:%s" % (label.rsplit("_s", 1)[0], tag, "+".join(ops))
        if (label, tag) in reported:
            continue
        reported.add((label, tag))
        path = write_replay(run, "%s_%s" % (label, tag), {
            "kind": "schedule", "what": "history of the real code under the controlled scheduler that violates the property",
            "problems": probs, "history": hists[hid], "harness_args": args, "history_id": hid, "overlay": "sched",
            "replay_cmd": "./check %s --replay <this file>" % run.pid})
        run.violations.append((sig, path, True, "%s %s" % (label, "; ".join(probs)[:300])))
    return ok


def trace_correspondence(run, harness, label, args, flag="--trace-proto", model="Model.Proto (M4a)"):
    """M4a <-> real code at atomic-step granularity: the protocol-level trace of every explored schedule of the
    real Map/MapOf must be a run of the Lean model `Model.Proto` (commit points, thresholds, counters, lock and
    resize protocol, call results).  A mismatch is a broken correspondence (not by itself a failing input).
    With flag="--trace-cache": the same for the cache layer and `Model.ConcCache` (M5): map calls, clock and
    setting reads, Range visits, callbacks, results."""
    d = os.path.join(run.work, label)
    os.makedirs(d, exist_ok=True)
    rc, o, e = sh([harness, "sched", "out=" + d, "trace=1"] + args, timeout=3000)
    if rc != 0:
        run.oblige("trace correspondence %s: harness ran" % label, False, e[-2000:])
        return False
    with open(os.path.join(d, "trace.txt"), "rb") as fin:
        p = subprocess.run([DRIVER, flag], stdin=fin, stdout=subprocess.PIPE, stderr=subprocess.PIPE, timeout=3000)
    lines = p.stdout.decode().splitlines()
    skipped = [l for l in lines if " SKIP " in l]
    lines = [l for l in lines if " SKIP " not in l]
    bad = [l for l in lines if " MISMATCH " in l]
    n_events = sum(int(l.split()[2]) for l in lines if " OK " in l and len(l.split()) > 2)
    run.cov["traces_validated_against_impl"] += len(lines)
    run.cov["evaluations"] += len(lines)
    run.cov["transitions_scheduled"] = run.cov.get("transitions_scheduled", 0) + n_events
    run.cov["runs"].append({"label": label, "traces": len(lines), "trace_events_accepted_by_model": n_events, "mismatches": len(bad), "skipped_not_modelled": len(skipped)})
    detail = ""
    if bad:
        # keep the first mismatching trace as the replay of the broken correspondence
        tid = bad[0].split()[0]
        tr, keep = [], False
        for l in read_lines(os.path.join(d, "trace.txt")):
            if l.startswith("trace "):
                keep = l.split()[1] == tid
            if keep:
                tr.append(l)
        path = write_replay(run, label + "_trace", {"kind": "trace-correspondence", "what": "the Lean model %s cannot follow this trace of the real code" % model, "mismatch": bad[0], "trace": tr, "harness_args": args})
        detail = "%d of %d traces rejected by the model; first: %s (trace in %s)" % (len(bad), len(lines), bad[0], path)
    run.oblige("trace correspondence %s: every step-level trace of the real code is a run of %s (%d traces)" % (label, model, len(lines)), not bad, detail)
    return not bad


# --------------------------------------------------------------------------------------------------
# known findings, evidence, reporting

def load_known():
    p = os.path.join(VERIF, "known_findings.json")
    if os.path.exists(p):
        return json.load(open(p))
    return {"known": [], "fixed": []}


ESCALATE = "escalate"


def finish(run, level_note_gaps=()):
    if run.req_tier == "quick" and not run.escalated and run.broken() and not run.found_input():
        # a proof obligation / the correspondence broke and the quick search has no failing input: search deeper
        return ESCALATE
    known = load_known()
    remaining = []
    printed = set()
    for sig, path, found, text in run.violations:
        hit = None
        for k in known.get("known", []):
            if k.get("property") == run.pid and re.search(k["signature"], sig):
                hit = k
                break
        if hit:
            if hit.get("id", hit["signature"]) not in printed:
                printed.add(hit.get("id", hit["signature"]))
                print("KNOWN-FINDING: property=%s %s" % (run.pid, hit.get("what", sig)))
            run.known.append(sig)
        else:
            remaining.append((sig, path, found, text))
    n_ob = len(run.obligations)
    n_ok = sum(1 for o in run.obligations if o[1])
    broken = [o for o in run.obligations if not o[1]]
    if broken and not any(v[2] for v in remaining):
        # obligations broken, no concrete failing input: still a violation (property no longer shown to hold)
        path = write_replay(run, "broken_obligations", {
            "kind": "broken-proof-obligation",
            "what": "these obligations no longer check against the current working tree; the search found no failing input",
            "obligations": [{"name": o[0], "detail": o[2]} for o in broken]})
        remaining.append(("obligations", path, False, "; ".join(o[0] for o in broken)))
    seen = run.cov.pop("_seen", set())
    run.cov["distinct_nontrivial"] = len(seen)
    cov = dict(run.cov)
    cov.update({
        "obligations": n_ob, "discharged": n_ok,
        "obligation_list": [{"name": o[0], "ok": o[1]} for o in run.obligations],
        "checker_cmd": "cd /verif/lean && lake build CacheVerif.Props.%s && lake env lean <audit file with #print axioms>" % run.pid,
        "trusted_base": TRUSTED_BASE,
        "rule": "evaluations = protocol lines (API calls / schedule steps) executed on the real code and on the Lean model; "
                "a sequence/schedule is non-trivial when the model reports at least one call on an expired-but-uncleaned entry, "
                "a resize, or a contended step; distinct = distinct op-sequence text (sha1)",
        "partial_gaps": list(level_note_gaps),
    })
    cov["escalated_search"] = run.escalated
    ev = {"property_id": run.pid, "tier": run.req_tier, "seed": run.seed, "level": "proof", "coverage": cov,
          "assumptions": run.assumptions, "wall_s": round(time.time() - run.t0, 2), "violations": len(remaining)}
    os.makedirs(os.path.join(VERIF, "evidence"), exist_ok=True)
    with open(os.path.join(VERIF, "evidence", run.pid + ".json"), "w") as f:
        json.dump(ev, f, indent=1)
    sh(["rm", "-rf", run.work])
    for sig, path, found, text in remaining:
        print("  detail: " + text)
        print("VIOLATION property=%s replay=%s%s" % (run.pid, path, "" if found else " no-failing-input-found"))
    if remaining:
        return 1
    print("OK property=%s obligations=%d/%d evaluations=%d wall=%.0fs" % (run.pid, n_ok, n_ob, cov["evaluations"], time.time() - run.t0))
    return 0


def main(argv):
    import props
    if not argv:
        print(__doc__)
        return 2
    pid = argv[0]
    tier = os.environ.get("VERIF_TIER", "quick")
    replay = None
    i = 1
    while i < len(argv):
        if argv[i] == "--tier":
            tier = argv[i + 1]; i += 2
        elif argv[i] == "--replay":
            replay = argv[i + 1]; i += 2
        else:
            i += 1
    seed = int(os.environ.get("VERIF_SEED", "1"))
    if pid == "setup":
        return props.setup()
    if pid not in props.PROPS:
        print("unknown property", pid)
        return 2
    run = Run(pid, tier, seed)
    if replay:
        return props.replay(run, replay)
    rc = props.PROPS[pid](run)
    if rc == ESCALATE:
        run.escalated = True
        run.tier = "deep"
        print("[%s] %d obligation(s) broken, no failing input yet: escalated search" % (pid, len(run.broken())), flush=True)
        rc = props.PROPS[pid](run)
    return rc
