"""Per-property check recipes."""
import glob, os
import runner as R

Q = lambda run, q, t: q if run.tier == "quick" else t

GAPS = {
    "C01": ["Go time arithmetic beyond int64 nanoseconds (year 2262) is outside the model (Int, no overflow)",
            "closures execute at one clock instant in the model"],
}


def common(run, modules):
    """steps 1-3: tools, regeneration, proofs, audit.  Returns True when the driver is usable."""
    R.build_tools(run)
    R.regenerate(run)
    ok, log = R.lake_build(run, modules)
    run.oblige("lake build %s (all proof obligations of the property's modules)" % " ".join(modules), ok, log)
    if ok:
        R.audit(run, run.pid, modules)
    dok, dlog = R.lake_build(run, ["driver"])
    run.oblige("lake build driver (executable models used by the correspondence)", dok, dlog)
    if run.tier == "thorough" and ok:
        with R.Lock("lake"):
            rc, o, e = R.sh(["lake", "env", "leanchecker"] + modules, cwd=R.LEAN, timeout=3000)
        run.oblige("leanchecker re-check of %s" % " ".join(modules), rc == 0, (o + e)[-2000:])
    return dok


def corpus(pid, kind):
    return sorted(glob.glob(os.path.join(R.VERIF, "corpus", kind, "*.txt")))


def seq_cache_runs(run, harness, twins=("cache", "cacheof"), quick=(1200, 40), thorough=(40000, 60)):
    nseq, nops = Q(run, quick, thorough)
    seeds = [run.seed] if run.tier == "quick" else [run.seed, run.seed + 1, run.seed + 2, run.seed + 3]
    for twin in twins:
        for sd in seeds:
            R.seq_correspondence(run, harness, "seqcache", "seq_%s_s%d" % (twin, sd),
                                 ["twin=" + twin, "seed=%d" % sd, "nseq=%d" % nseq, "nops=%d" % nops],
                                 corpus_files=corpus(run.pid, "seqcache") if sd == seeds[0] else ())


def c01(run):
    usable = common(run, ["CacheVerif.Props.C01"])
    harness, err = R.build_harness(run, "clock")
    run.oblige("go build -overlay of the harness from the working tree (clock mode)", harness is not None, err)
    if usable and harness:
        seq_cache_runs(run, harness)
    return R.finish(run, GAPS["C01"])


def seq_map_runs(run, layout_h, clock_h, kinds=("map", "mapof"), quick=(14, 300), thorough=(300, 500)):
    nseq, nops = Q(run, quick, thorough)
    seeds = [run.seed] if run.tier == "quick" else [run.seed, run.seed + 1, run.seed + 2]
    for kind in kinds:
        for sd in seeds:
            first = sd == seeds[0]
            if layout_h:
                R.seq_correspondence(run, layout_h, "seqmap", "layout_%s_s%d" % (kind, sd),
                                     ["kind=" + kind, "wb=1", "seed=%d" % sd, "nseq=%d" % nseq, "nops=%d" % nops],
                                     corpus_files=corpus(run.pid, "seqmap") if first else (), overlay="layout")
            if clock_h:
                R.seq_correspondence(run, clock_h, "seqmap", "blackbox_%s_s%d" % (kind, sd),
                                     ["kind=" + kind, "wb=0", "seed=%d" % (sd + 100), "nseq=%d" % nseq, "nops=%d" % nops])


def c11(run):
    usable = common(run, ["CacheVerif.Props.C11"])
    lh, err = R.build_harness(run, "layout")
    run.oblige("go build -overlay of the harness from the working tree (layout mode)", lh is not None, err)
    ch, err = R.build_harness(run, "clock")
    run.oblige("go build -overlay of the harness from the working tree (clock mode)", ch is not None, err)
    if usable and lh and ch:
        seq_map_runs(run, lh, ch)
    return R.finish(run, GAPS.get("C11", []))


def sched_runs(run, harness, kinds, focus, tags, quick=(60, 6), thorough=(1500, 10), lin=True, label=""):
    nprog, nsched = Q(run, quick, thorough)
    seeds = [run.seed] if run.tier == "quick" else [run.seed, run.seed + 1]
    for kind in kinds:
        for sd in seeds:
            args = ["kind=" + kind, "seed=%d" % sd, "nprog=%d" % nprog, "nsched=%d" % nsched]
            if focus:
                args.append("focus=" + focus)
            R.sched_exploration(run, harness, "sched_%s%s_%s_s%d" % (label, focus or "mix", kind, sd), args, tags, lin=lin)


def c02(run):
    usable = common(run, ["CacheVerif.Props.C02"])
    h, err = R.build_harness(run, "sched")
    run.oblige("go build -overlay of the harness from the working tree (sched mode)", h is not None, err)
    if usable and h:
        sched_runs(run, h, ("cache", "cacheof"), "", ("NONLIN", "PREFILL"))
    return R.finish(run, GAPS.get("C02", []))


def c03(run):
    usable = common(run, ["CacheVerif.Props.C03"])
    h, err = R.build_harness(run, "sched")
    run.oblige("go build -overlay of the harness from the working tree (sched mode)", h is not None, err)
    if usable and h:
        sched_runs(run, h, ("map",), "", ("NONLIN", "PREFILL"), quick=(150, 6))
    return R.finish(run, GAPS.get("C03", []))


def c04(run):
    usable = common(run, ["CacheVerif.Props.C04"])
    h, err = R.build_harness(run, "sched")
    run.oblige("go build -overlay of the harness from the working tree (sched mode)", h is not None, err)
    if usable and h:
        sched_runs(run, h, ("mapof",), "", ("NONLIN", "PREFILL"), quick=(150, 6))
    return R.finish(run, GAPS.get("C04", []))


PROPS = {
    "C03": c03,
    "C04": c04,
    "C02": c02,
    "C11": c11,
    "C01": c01,
}


def setup():
    run = R.Run("setup", "quick", 1)
    R.build_tools(run)
    R.regenerate(run)
    ok, log = R.lake_build(run, ["CacheVerif", "driver"])
    if not ok:
        print(log)
        return 1
    for mode in ("clock",):
        h, err = R.build_harness(run, mode)
        if h is None:
            print(err)
            return 1
    R.sh(["rm", "-rf", run.work])
    print("setup ok")
    return 0


def replay(run, path):
    import json
    p = json.load(open(path))
    if p.get("kind") == "sequential-differential":
        R.build_tools(run)
        harness, err = R.build_harness(run, p.get("overlay", "clock"))
        if harness is None:
            print(err)
            return 2
        im, mo, sp = R.replay_seq(run, harness, p["mode"], p["ops"], p.get("args", []))
        bad = False
        for o, a, b, c in zip(p["ops"], im, mo, sp):
            flag = "" if R.spec_ok(a, c) else "   <-- contradicts the reference semantics"
            bad |= bool(flag)
            print("%-40s impl: %-30s model: %-30s spec: %s%s" % (o, a, b, c, flag))
        R.sh(["rm", "-rf", run.work])
        return 1 if bad else 0
    if p.get("kind") == "schedule":
        R.build_tools(run)
        harness, err = R.build_harness(run, "sched")
        if harness is None:
            print(err)
            return 2
        d = run.work
        R.sh([harness, "sched", "out=" + d] + p["harness_args"], timeout=3000)
        hs = R.parse_hists(os.path.join(d, "hist.txt"))
        lines = hs.get(p["history_id"], [])
        print("\n".join(lines))
        open(os.path.join(d, "one.txt"), "w").write("\n".join(lines) + "\n")
        import subprocess
        with open(os.path.join(d, "one.txt"), "rb") as fin:
            q = subprocess.run([R.DRIVER, "--lin"], stdin=fin, stdout=subprocess.PIPE)
        print("linearizability (Lean, against Spec):", q.stdout.decode().strip())
        bad = "OK" not in q.stdout.decode()
        for l in R.read_lines(os.path.join(d, "monitors.txt")):
            if l.startswith(p["history_id"] + " "):
                print("monitor:", l)
                bad = True
        R.sh(["rm", "-rf", run.work])
        return 1 if bad else 0
    print(json.dumps(p, indent=1))
    return 0
