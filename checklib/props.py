"""Per-property check recipes."""
import glob, os
import runner as R

def Q(run, q, t):
    """sizes per tier; "deep" = the escalated search of a quick run whose obligations broke (about 10x quick)"""
    if run.tier == "quick":
        return q
    if run.tier == "deep":
        if isinstance(q, tuple):
            return (min(t[0], q[0] * 10),) + tuple(t[1:])
        return min(t, q * 10)
    return t

GAPS = {
    "C01": ["Go time arithmetic beyond int64 nanoseconds (year 2262) is outside the model (Int, no overflow)",
            "closures execute at one clock instant in the model"],
}


COMMON_ASSUME = [
    "Lean 4.33 kernel; axioms of every property theorem ⊆ {propext, Classical.choice, Quot.sound} (audited on this run)",
    "the hand-written models (M2, M3, M4a, M4b, M5) represent the code: validated on this run by the correspondence / trace acceptance counted in coverage.runs, and by the pinned structural facts (Expect/*.lean) compared with the facts gofacts extracted from the working tree",
    "go2lean, gofacts, go2deep (+ the interpreter Deep/Interp.lean), rewrite + vshim (cooperative scheduler, virtual clock) are trusted tools",
]
ATOMIC_MAP = "premise of the cache-level concurrent model M5: the underlying Map/MapOf behaves atomically (that is C03/C04; the substitution of a linearizable object for an atomic one is not mechanised)"
ASSUME = {
    "C01": [ATOMIC_MAP, "time as unbounded Int: instants beyond int64 nanoseconds are outside the model (probed by corpus/seqcache/ttl_overflow_live.txt)"],
    "C02": [ATOMIC_MAP], "C05": [ATOMIC_MAP, "0 < minLen (every table has at least one bucket)"], "C06": [ATOMIC_MAP], "C07": [ATOMIC_MAP],
    "C08": [ATOMIC_MAP, "0 < minLen; every table has at least one counter stripe"],
    "C09": [ATOMIC_MAP, "time as unbounded Int: the code departs from the property beyond int64 nanoseconds (known finding F6)"],
    "C03": ["0 < minLen (every table has at least one bucket)", "M4a reads a bucket chain in one step; the multi-load read is M4b's business (composition not mechanised)"],
    "C04": ["0 < minLen (every table has at least one bucket)", "M4a reads a bucket chain in one step; the multi-load read is M4b's business (composition not mechanised)"],
    "C10": ["H(K): the Go runtime hasher is a function of the ==-class of the key and does not panic (checked by the key-type catalogue, not proved)"],
    "C11": ["presize hints whose nextPowOf2 argument exceeds 2^31 are outside the theorem"],
    "C12": [ATOMIC_MAP], "C13": ["fair scheduling of runnable goroutines (a blocked-forever claim is about the model's enabledness)"],
    "C14": ["Go memory model (DRF-SC), sync/atomic and the compiler are trusted; the race detector's silence is observed, not proved"],
    "C15": ["the Go runtime runs finalizers of unreachable objects and fires tickers (observed by the janitor harness, not proved)"],
    "C16": ["0 < number of counter stripes"],
}


E = lambda *names: ["CacheVerif.Expect." + n for n in names]
# The call structure of the cache-layer methods (Expect.Cache: a pinned, purely syntactic token stream) used to be an
# obligation of every cache-level property.  It is superseded there by the semantic ties - interpreter on the generated
# syntax = sequential model (DEEP), steps of M5 = traced atomic actions (TRACE) - which say the same thing about
# behaviour and survive behaviour-preserving rewrites (renamed locals, a helper method, an inverted if).  It stays an
# obligation of C14, whose footprint argument is about the syntactic list of plain accesses.  The same goes for the
# pin of the constructors (Expect.Ctor): what C09 / C12 / C15 need from the constructors is machine-translated by go2lean
# (plumbing, shape-checked) and printed by go2deep -ctor (goroutine, finalizer) on every run.
EXPECT = {
    "C03": E("Load", "DoCompute", "Resize", "Lock"), "C04": E("Load", "DoCompute", "Resize"),
    "C05": E("DoCompute"), "C07": E("Range"), "C08": E("DoCompute", "Resize"),
    "C10": E("Load", "DoCompute"), "C11": E("DoCompute", "Resize", "Alloc"),
    "C13": E("DoCompute", "Resize", "Range", "Lock"), "C14": E("Load", "DoCompute", "Resize", "Range", "Lock", "Cache", "Ctor"),
    "C16": E("Load"),
}


# cache-level properties are proved over an *atomic* map (M5); that premise is M4a/M4b, i.e. the xsync protocol
# skeletons: a change there breaks the premise of these properties too
# the cache-layer models M2 are tied to the source text by the deep embedding: interpreter(generated syntax) = M2
DEEP = {p: ["CacheVerif.Proofs.DeepCache", "CacheVerif.Proofs.DeepCacheOf", "CacheVerif.Proofs.DeepSource"] for p in ("C01", "C02", "C05", "C06", "C07", "C08", "C09", "C12", "C15")}
# the janitor goroutine and the finalizer, printed from the two constructors: a tick = one DeleteExpired pass of the model
DEEP["C15"] = DEEP["C15"] + ["CacheVerif.Proofs.DeepJanitor"]
# what the writing methods of Map / MapOf pass to doCompute (go2deep -wrappers): M3 makes exactly those calls, and with
# doCompute = specDc they are the builtin-map methods of their names
WRAP = {p: ["CacheVerif.Proofs.Wrappers"] for p in ("C03", "C04", "C05", "C11")}
# the lookup path of MapOf printed from the source (go2deep -table): interpreter(printed Load) = word-filtered search =
# key search of M3 = M3's load step, for every heap and key
LOAD = {p: ["CacheVerif.Proofs.Words", "CacheVerif.Proofs.WordsInv", "CacheVerif.Proofs.DeepLoad", "CacheVerif.Proofs.DeepLoadM"] for p in ("C03", "C04", "C10", "C11", "C12", "C16")}

# the concurrent cache model M5 is tied to the source text by: solo run of M5 = sequential step (ConcCacheSolo), and
# steps of M5 = atomic actions the tracing interpreter records on the generated syntax (DeepTrace, both twins)
TRACE = {p: ["CacheVerif.Proofs.ConcCacheSolo", "CacheVerif.Proofs.DeepTrace", "CacheVerif.Proofs.DeepTraceOf"]
         for p in ("C01", "C02", "C05", "C06", "C09", "C12", "C13", "C15", "C16")}

PREMISE = {p: E("Load", "DoCompute", "Resize", "Range", "Lock") for p in ("C01", "C02", "C05", "C06", "C07", "C08", "C09", "C12", "C15")}


def SEEDS(run, n):
    """seeds per tier: quick 1, deep (escalated search) 2, thorough n"""
    if run.tier == "quick":
        return [run.seed]
    return [run.seed + i for i in range(2 if run.tier == "deep" else n)]


def common(run, modules):
    """steps 1-3: tools, regeneration, proofs, audit.  Returns True when the driver is usable."""
    run.assumptions = COMMON_ASSUME + ASSUME.get(run.pid, [])
    R.build_tools(run)
    R.regenerate(run)
    # pinned structural facts (skeletons extracted by gofacts = the ones the hand-written models were written from)
    for em in EXPECT.get(run.pid, []):
        eok, elog = R.lake_build(run, [em])
        run.oblige("lake build %s (extracted skeleton / call structure / capture facts equal the pinned ones)" % em, eok, elog)
    for em in PREMISE.get(run.pid, []):
        if em not in EXPECT.get(run.pid, []):
            eok, elog = R.lake_build(run, [em])
            run.oblige("premise (atomic map of the cache-level model = xsync protocol skeleton): lake build %s" % em, eok, elog)
    # one parallel build of all source-tie proof modules first (the twins' files are independent of each other); the
    # per-module calls below then only report
    tie = DEEP.get(run.pid, []) + [m for m in TRACE.get(run.pid, []) if m not in DEEP.get(run.pid, [])]
    if tie:
        R.lake_build(run, tie, timeout=900)
    for dm in DEEP.get(run.pid, []):
        dok_, dlog_ = R.lake_build(run, [dm], timeout=900)
        run.oblige("lake build %s (for every state and call, the interpreter of the Go subset run on the method bodies printed from the working tree computes exactly the hand-written model's step)" % dm, dok_, dlog_)
    for wm in WRAP.get(run.pid, []):
        wok_, wlog_ = R.lake_build(run, [wm], timeout=900)
        run.oblige("lake build %s (the sequential table model makes the calls of doCompute the methods printed from the working tree make; with doCompute = specDc each is the builtin-map method of its name)" % wm, wok_, wlog_)
    for lm in LOAD.get(run.pid, []):
        lok_, llog_ = R.lake_build(run, [lm], timeout=900)
        run.oblige("lake build %s (the word-filtered search over the machine-translated leaf functions is the key search of the table model; the interpreter on the bodies of MapOf.Load / Map.Load printed from the working tree computes it, for every heap and key)" % lm, lok_, llog_)
    if run.pid in ("C11", "C04", "C10"):
        aok_, alog_ = R.lake_build(run, ["CacheVerif.Proofs.DeepAppend", "CacheVerif.Proofs.CopyRep", "CacheVerif.Proofs.StoreSpec"], timeout=900)
        run.oblige("lake build CacheVerif.Proofs.DeepAppend (the interpreter on the body of appendToBucketOf printed from the working tree fills the first free slot of the chain or links a fresh bucket at its end - M3's place - and keeps the meta words representative, for every heap; folded over the entries a resize moves it is M3's copyAll)", aok_, alog_)
    if run.pid == "C08":
        sok_, slog_ = R.lake_build(run, ["CacheVerif.Proofs.DeepSize"], timeout=900)
        run.oblige("lake build CacheVerif.Proofs.DeepSize (the interpreter on the bodies of sumSize of both tables, printed from the working tree, returns the sum of the counter stripes, for every heap)", sok_, slog_)
    for tm in TRACE.get(run.pid, []):
        tok_, tlog_ = R.lake_build(run, [tm], timeout=900)
        run.oblige("lake build %s (the concurrent cache model M5, run by one thread, computes the sequential step and takes exactly the atomic actions the tracing interpreter records on the method bodies printed from the working tree)" % tm, tok_, tlog_)
    ok, log = R.lake_build(run, modules)
    run.oblige("lake build %s (all proof obligations of the property's modules)" % " ".join(modules), ok, log)
    if ok:
        R.audit(run, run.pid, modules)
    dok, dlog = R.lake_build(run, ["driver"])
    run.oblige("lake build driver (executable models used by the correspondence)", dok, dlog)
    if run.tier == "thorough" and ok:
        # every module of the library the property's theorems rest on (transitive imports inside CacheVerif), not only
        # the file that states them
        closure = import_closure(modules + tie + WRAP.get(run.pid, []))
        with R.Lock("lake"):
            rc, o, e = R.sh(["lake", "env", "leanchecker"] + closure, cwd=R.LEAN, timeout=3000)
        run.oblige("leanchecker re-check of %s and the %d library modules they import" % (" ".join(modules), len(closure) - len(modules)), rc == 0, (o + e)[-2000:])
    return dok


def import_closure(mods):
    """the modules of the library reachable from `mods` through `import CacheVerif.…` lines, `mods` first"""
    seen, todo = [], list(mods)
    while todo:
        m = todo.pop(0)
        if m in seen or not m.startswith("CacheVerif"):
            continue
        path = os.path.join(R.LEAN, *m.split(".")) + ".lean"
        if not os.path.exists(path):
            continue
        seen.append(m)
        for line in open(path):
            line = line.strip()
            if line.startswith("import CacheVerif"):
                todo.append(line.split()[1])
            elif line and not line.startswith(("import", "--", "/-")) and not line.startswith("set_option"):
                if not line.startswith(("-", "#")) and "import" not in line:
                    break
    return seen


def corpus(pid, kind):
    """minimised past failures and boundary sequences, run before the generated ones; `x.only-Cnn.txt` runs for
    that property only"""
    fs = sorted(glob.glob(os.path.join(R.VERIF, "corpus", kind, "*.txt")))
    return [f for f in fs if ".only-" not in os.path.basename(f) or (".only-%s." % pid) in os.path.basename(f)]


def seq_cache_runs(run, harness, twins=("cache", "cacheof"), quick=(1200, 40), thorough=(40000, 60)):
    nseq, nops = Q(run, quick, thorough)
    seeds = SEEDS(run, 4)
    for twin in twins:
        for sd in seeds:
            R.seq_correspondence(run, harness, "seqcache", "seq_%s_s%d" % (twin, sd),
                                 ["twin=" + twin, "seed=%d" % sd, "nseq=%d" % nseq, "nops=%d" % nops],
                                 corpus_files=corpus(run.pid, "seqcache") if sd == seeds[0] else ())


def c01(run):
    usable = common(run, ["CacheVerif.Props.C01"])
    harness, err = R.build_harness(run, "clock")
    run.oblige("go build -overlay of the harness from the working tree (clock mode)", harness is not None, err)
    if usable and harness:
        seq_cache_runs(run, harness)
    h = with_harness(run, "sched")
    if usable and h:
        # "never dropped by lazy deletion on read / DeleteExpired": reads of expired-uncleaned keys racing writers
        sched_runs(run, h, ("cache", "cacheof"), "lazy", ("NONLIN", "PREFILL"), quick=(150, 6))
        # entries that expire between two steps of a call (the clock advances during the concurrent phase)
        sched_runs(run, h, ("cache", "cacheof"), "ticks", ("NONLIN", "PREFILL"), quick=(150, 6))
        trace_cache_runs(run, h, quick=(40, 4), focuses=("", "lazy"))
        if run.tier != "quick":
            sched_runs(run, h, ("cache", "cacheof"), "", ("NONLIN", "PREFILL"), quick=(200, 6))
    race_premise(run)
    return R.finish(run, GAPS["C01"])


def seq_map_runs(run, layout_h, clock_h, kinds=("map", "mapof"), quick=(14, 300), thorough=(300, 500)):
    nseq, nops = Q(run, quick, thorough)
    seeds = SEEDS(run, 3)
    for kind in kinds:
        for sd in seeds:
            first = sd == seeds[0]
            if layout_h:
                R.seq_correspondence(run, layout_h, "seqmap", "layout_%s_s%d" % (kind, sd),
                                     ["kind=" + kind, "wb=1", "seed=%d" % sd, "nseq=%d" % nseq, "nops=%d" % nops],
                                     corpus_files=corpus(run.pid, "seqmap") if first else (), overlay="layout")
            if clock_h:
                R.seq_correspondence(run, clock_h, "seqmap", "blackbox_%s_s%d" % (kind, sd),
                                     ["kind=" + kind, "wb=0", "seed=%d" % (sd + 100), "nseq=%d" % nseq, "nops=%d" % nops])


def c11(run):
    usable = common(run, ["CacheVerif.Props.C11"])
    lh, err = R.build_harness(run, "layout")
    run.oblige("go build -overlay of the harness from the working tree (layout mode)", lh is not None, err)
    ch, err = R.build_harness(run, "clock")
    run.oblige("go build -overlay of the harness from the working tree (clock mode)", ch is not None, err)
    if usable and lh and ch:
        seq_map_runs(run, lh, ch)
    if run.tier != "quick":
        # deeper tiers (and the escalated search of a quick run whose obligations broke): "no entry lost, duplicated
        # or resurrected by a grow, a shrink or a Clear" with writers in flight while the table is copied
        h = with_harness(run, "sched")
        if usable and h:
            sched_runs(run, h, ("map", "mapof"), "", ("NONLIN", "PREFILL", "SIZE"), quick=(60, 6))
            sched_runs(run, h, ("map", "mapof"), "racers", ("NONLIN", "PREFILL", "SIZE", "FN"), quick=(30, 6))
            sched_runs(run, h, ("map", "mapof"), "shrink", ("NONLIN", "PREFILL", "SIZE"), quick=(30, 8))
    return R.finish(run, GAPS.get("C11", []))


def sched_runs(run, harness, kinds, focus, tags, quick=(60, 6), thorough=(1500, 10), lin=True, label=""):
    nprog, nsched = Q(run, quick, thorough)
    seeds = SEEDS(run, 2)
    for kind in kinds:
        # corpus first: exact schedules of past failures (F4, F5) for this container kind
        for cf in sorted(glob.glob(os.path.join(R.VERIF, "corpus", "sched", "*_%s.txt" % kind))):
            R.sched_exploration(run, harness, "corpus_%s" % os.path.basename(cf)[:-4], ["file=" + cf], tags, lin=lin)
        for sd in seeds:
            # besides the random / pre-emption-bounded schedules: every one-pre-emption schedule of the first programs
            args = ["kind=" + kind, "seed=%d" % sd, "nprog=%d" % nprog, "nsched=%d" % nsched, "exh=%d" % Q(run, 4, 40)]
            if focus:
                args.append("focus=" + focus)
            R.sched_exploration(run, harness, "sched_%s%s_%s_s%d" % (label, focus or "mix", kind, sd), args, tags, lin=lin)


def c02(run):
    usable = common(run, ["CacheVerif.Props.C02"])
    h, err = R.build_harness(run, "sched")
    run.oblige("go build -overlay of the harness from the working tree (sched mode)", h is not None, err)
    if usable and h:
        sched_runs(run, h, ("cache", "cacheof"), "", ("NONLIN", "PREFILL"), quick=(400, 6))
        sched_runs(run, h, ("cache", "cacheof"), "lazy", ("NONLIN", "PREFILL"), quick=(200, 6))
        sched_runs(run, h, ("cache", "cacheof"), "ticks", ("NONLIN", "PREFILL"), quick=(200, 6))
        trace_cache_runs(run, h)
    race_premise(run)
    return R.finish(run, GAPS.get("C02", []))


def trace_runs(run, h, kinds, quick=(60, 4), thorough=(1500, 6)):
    nprog, nsched = Q(run, quick, thorough)
    for kind in kinds:
        for focus in ("", "racers", "reader"):
            args = ["kind=" + kind, "seed=%d" % (run.seed + 50), "nprog=%d" % nprog, "nsched=%d" % nsched] + (["focus=" + focus] if focus else [])
            R.trace_correspondence(run, h, "trace_%s_%s" % (kind, focus or "mix"), args)


def trace_cache_runs(run, h, quick=(60, 4), thorough=(1500, 6), focuses=("", "lazy", "racers")):
    """M5 <-> real cache layer at the granularity of M5 (one step per map call / clock read / setting access)"""
    nprog, nsched = Q(run, quick, thorough)
    for kind in ("cache", "cacheof"):
        for focus in focuses:
            args = ["kind=" + kind, "seed=%d" % (run.seed + 70), "nprog=%d" % nprog, "nsched=%d" % nsched] + (["focus=" + focus] if focus else [])
            R.trace_correspondence(run, h, "tracem5_%s_%s" % (kind, focus or "mix"), args, flag="--trace-cache", model="Model.ConcCache (M5)")


def c03(run):
    usable = common(run, ["CacheVerif.Props.C03"])
    h, err = R.build_harness(run, "sched")
    run.oblige("go build -overlay of the harness from the working tree (sched mode)", h is not None, err)
    if usable and h:
        sched_runs(run, h, ("map",), "", ("NONLIN", "PREFILL"), quick=(600, 6))
        sched_runs(run, h, ("map",), "shrink", ("NONLIN", "PREFILL"), quick=(150, 8))
        trace_runs(run, h, ("map",))
    lh = with_harness(run, "layout")
    if usable and lh:
        seq_map_runs(run, lh, None, kinds=("map",), quick=(16, 300))
    race_premise(run)
    return R.finish(run, GAPS.get("C03", []))


def c04(run):
    usable = common(run, ["CacheVerif.Props.C04"])
    h, err = R.build_harness(run, "sched")
    run.oblige("go build -overlay of the harness from the working tree (sched mode)", h is not None, err)
    if usable and h:
        sched_runs(run, h, ("mapof",), "", ("NONLIN", "PREFILL"), quick=(600, 6))
        sched_runs(run, h, ("mapof",), "shrink", ("NONLIN", "PREFILL"), quick=(150, 8))
        trace_runs(run, h, ("mapof",))
    lh = with_harness(run, "layout")
    if usable and lh:
        seq_map_runs(run, lh, None, kinds=("mapof",), quick=(16, 300))
    # "for any comparable key type": the linearizability theorems are about a hash *function* of the key; that the
    # default hasher is one (equal keys hash equally, whatever memory they come from) is the premise H(K) the
    # key-type catalogue checks against a builtin map, sequential histories included (C10 runs it deeper)
    kh, err = R.build_keys_harness(run)
    run.oblige("go build of the key-type catalogue (external module, go 1.23, replace => /repo)", kh is not None, err)
    if kh:
        for sd in SEEDS(run, 3):
            R.native_run(run, "keys_s%d" % sd, [kh, "seed=%d" % sd, "nops=%d" % Q(run, 2000, 12000)], ["BAD", "PANIC", "panic:"])
    race_premise(run)
    return R.finish(run, GAPS.get("C04", []))


def c10(run):
    usable = common(run, ["CacheVerif.Props.C10", "CacheVerif.Proofs.LeafBits"])
    lh, err = R.build_harness(run, "layout")
    run.oblige("go build -overlay of the harness from the working tree (layout mode)", lh is not None, err)
    kh, err = R.build_keys_harness(run)
    run.oblige("go build of the key-type catalogue (external module, go 1.23, replace => /repo)", kh is not None, err)
    if usable and lh:
        # forced collisions in bucket index, top-hash / h2, and everything (hash modes 1-4 are drawn by the generator)
        seq_map_runs(run, lh, None, quick=(24, 200), thorough=(400, 300))
    if kh:
        seeds = SEEDS(run, 6)
        for sd in seeds:
            R.native_run(run, "keys_s%d" % sd, [kh, "seed=%d" % sd, "nops=%d" % Q(run, 3000, 12000)], ["BAD", "PANIC", "panic:"])
    return R.finish(run, GAPS.get("C10", []))


def with_harness(run, mode):
    h, err = R.build_harness(run, mode)
    run.oblige("go build -overlay of the harness from the working tree (%s mode)" % mode, h is not None, err)
    return h


ALL_KINDS = ("map", "mapof", "cache", "cacheof")


def c05(run):
    usable = common(run, ["CacheVerif.Props.C05"])
    h = with_harness(run, "sched")
    lh = with_harness(run, "layout")
    ch = with_harness(run, "clock")
    if usable and h:
        sched_runs(run, h, ALL_KINDS, "racers", ("FN", "NONLIN", "PREFILL"), quick=(50, 6))
        sched_runs(run, h, ("cache", "cacheof"), "", ("FN",), quick=(40, 6), lin=False)
        # the general mix on the tables, judged for linearizability too: "no lost update", "one winner" are statements
        # about every interleaving with grows, shrinks and Clear
        sched_runs(run, h, ("map", "mapof"), "", ("FN", "NONLIN", "PREFILL"), quick=(400, 6))
        # get-or-create and compute calls while the table shrinks or is cleared (no lost update, one winner)
        sched_runs(run, h, ("map", "mapof"), "shrink", ("FN", "NONLIN", "PREFILL"), quick=(80, 8))
        trace_runs(run, h, ("map", "mapof"), quick=(40, 4))
    if usable and lh:
        seq_map_runs(run, lh, None, quick=(10, 300))
    if usable and ch:
        seq_cache_runs(run, ch, quick=(400, 40))
    race_premise(run)
    return R.finish(run, GAPS.get("C05", []))


def c06(run):
    usable = common(run, ["CacheVerif.Props.C06"])
    h = with_harness(run, "sched")
    ch = with_harness(run, "clock")
    if usable and ch:
        seq_cache_runs(run, ch, quick=(800, 40))
    if usable and h:
        sched_runs(run, h, ("cache", "cacheof"), "", ("CALLBACK", "NONLIN", "PREFILL"), quick=(120, 6))
        sched_runs(run, h, ("cache", "cacheof"), "range", ("CALLBACK",), quick=(40, 6), lin=False)
        sched_runs(run, h, ("cache", "cacheof"), "lazy", ("CALLBACK", "NONLIN"), quick=(80, 6))
        # overlapping / nested cleanup passes after a warm-up pass (callback may start another pass)
        sched_runs(run, h, ("cache", "cacheof"), "sweeps", ("CALLBACK", "PANIC", "DEADLOCK", "STEP-BUDGET", "HANG"), quick=(60, 6), lin=False)
        trace_cache_runs(run, h, quick=(40, 4))
    if ch:
        R.native_run(run, "janitor_callbacks", [ch, "janitor"], ["BAD", "panic:"])
    race_premise(run)
    return R.finish(run, GAPS.get("C06", []))


def c07(run):
    usable = common(run, ["CacheVerif.Props.C07"])
    h = with_harness(run, "sched")
    lh = with_harness(run, "layout")
    ch = with_harness(run, "clock")
    if usable and lh:
        seq_map_runs(run, lh, None, quick=(10, 300))
    if usable and ch:
        seq_cache_runs(run, ch, quick=(400, 40))
    if usable and h:
        sched_runs(run, h, ALL_KINDS, "range", ("RANGE",), quick=(300, 6), lin=False)
    race_premise(run)
    return R.finish(run, GAPS.get("C07", []))


def c08(run):
    usable = common(run, ["CacheVerif.Props.C08"])
    h = with_harness(run, "sched")
    lh = with_harness(run, "layout")
    ch = with_harness(run, "clock")
    if usable and lh:
        # black-box runs include tables presized to 16 / 32 counter stripes
        seq_map_runs(run, lh, ch, quick=(10, 300))
    if usable and ch:
        seq_cache_runs(run, ch, quick=(400, 40))
    if usable and h:
        sched_runs(run, h, ALL_KINDS, "", ("SIZE", "COUNT", "CLEAR"), quick=(100, 6), lin=False)
        sched_runs(run, h, ALL_KINDS, "range", ("SIZE", "COUNT", "CLEAR"), quick=(30, 6), lin=False)
        sched_runs(run, h, ALL_KINDS, "shrink", ("SIZE", "COUNT", "CLEAR"), quick=(40, 8), lin=False)
        trace_runs(run, h, ("map", "mapof"), quick=(40, 4))
    race_premise(run)
    return R.finish(run, GAPS.get("C08", []))


def race_premise(run):
    """deeper tiers and escalated searches of the cache / table properties: the models read a stored value in one step;
    that is only sound for data-race-free code, so a broken obligation is also looked for with the race detector
    (GetWithExpiration / GetWithTTL racing writers that re-arm the same key, resizes, Range, settings)"""
    if run.tier == "quick":
        return
    rh, err = R.build_race_harness(run)
    run.oblige("go build -race -overlay of the harness from the working tree", rh is not None, err)
    if rh:
        env = dict(R.ENV, GORACE="halt_on_error=1 exitcode=66")
        for sd in SEEDS(run, 2):
            R.native_run(run, "race_s%d" % sd, [rh, "race", "seed=%d" % sd, "rounds=%d" % Q(run, 3, 8), "ms=%d" % Q(run, 350, 1000), "minops=%d" % Q(run, 350, 1000)],
                         ["DATA RACE", "BAD", "panic:", "fatal error"], env=env, timeout=3000)


def c09(run):
    usable = common(run, ["CacheVerif.Props.C09"])
    ch = with_harness(run, "clock")
    if usable and ch:
        seq_cache_runs(run, ch, quick=(1500, 40))
    h = with_harness(run, "sched")
    if usable and h:
        # reported instants under concurrency: GetWithExpiration / GetWithTTL racing writers that re-arm the key
        sched_runs(run, h, ("cache", "cacheof"), "lazy", ("NONLIN", "PREFILL"), quick=(200, 6))
        # the clock advances in the middle of calls: a reported instant must be the stored one, not one recomputed
        # from two clock readings
        sched_runs(run, h, ("cache", "cacheof"), "ticks", ("NONLIN", "PREFILL"), quick=(150, 6))
        # the default TTL is replaced while calls that use it are in flight
        sched_runs(run, h, ("cache", "cacheof"), "settings", ("EXPIRY",), quick=(150, 6), lin=False)
        sched_runs(run, h, ("cache", "cacheof"), "knobs", ("NONLIN",), quick=(100, 6))
        trace_cache_runs(run, h, quick=(40, 4), focuses=("", "lazy"))
        if run.tier != "quick":
            # deeper tiers: writers racing resizes as well (re-armed instants must survive a table copy)
            sched_runs(run, h, ("cache", "cacheof"), "", ("NONLIN", "PREFILL"), quick=(200, 6))
    race_premise(run)
    return R.finish(run, GAPS.get("C09", []))


def strip_layout(l):
    return l.split(" || ")[0]


def c12(run):
    usable = common(run, ["CacheVerif.Props.C12"])
    ch = with_harness(run, "clock")
    if usable and ch:
        seq_cache_runs(run, ch, quick=(600, 40))
        seq_map_runs(run, None, ch, quick=(10, 300))
        nseq, nops = Q(run, (1500, 40), (40000, 60))
        for sd in SEEDS(run, 3):
            R.twin_differential(run, ch, "seqcache", "twins_cache_s%d" % sd,
                                ["twin=cache", "seed=%d" % sd, "nseq=%d" % nseq, "nops=%d" % nops, "cb7=1"],
                                ["twin=cacheof", "seed=%d" % sd, "nseq=%d" % nseq, "nops=%d" % nops, "cb7=1"])
            R.twin_differential(run, ch, "seqmap", "twins_map_s%d" % sd,
                                ["kind=map", "wb=0", "seed=%d" % sd, "nseq=%d" % Q(run, 20, 300), "nops=400"],
                                ["kind=mapof", "wb=0", "seed=%d" % sd, "nseq=%d" % Q(run, 20, 300), "nops=400"])
    lh = with_harness(run, "layout")
    if usable and lh:
        seq_map_runs(run, lh, None, quick=(16, 300))
    if ch:
        # the janitor is part of the behaviour the twins must share: every constructor variant of both, with per-item
        # TTLs under a default that never expires, must clean up (or not) alike
        R.native_run(run, "janitor_twins", [ch, "janitor"], ["BAD", "panic:"])
    h = with_harness(run, "sched")
    if usable and h:
        # both members of each pair must be linearizable against the same builtin-map / TTL semantics
        sched_runs(run, h, ("map", "mapof"), "racers", ("NONLIN", "FN", "PREFILL"), quick=(100, 6))
        sched_runs(run, h, ALL_KINDS, "", ("NONLIN", "PREFILL"), quick=(150, 6))
    race_premise(run)
    return R.finish(run, GAPS.get("C12", []))


def c13(run):
    usable = common(run, ["CacheVerif.Props.C13"])
    h = with_harness(run, "sched")
    if usable and h:
        tags = ("DEADLOCK", "STEP-BUDGET", "HANG", "PANIC")
        for focus in ("", "range", "racers"):
            sched_runs(run, h, ALL_KINDS, focus, tags, quick=(50, 6), lin=False)
        # the evicted callback calls Get / Set / Count of the same cache
        sched_runs(run, h, ("cache", "cacheof"), "reenter", tags, quick=(60, 6), lin=False)
        # stale shrink requests: the give-up branch of resize must still wake the waiters
        sched_runs(run, h, ALL_KINDS, "shrink", tags, quick=(60, 8), lin=False)
        # cleanup passes whose callback starts another cleanup pass, overlapping passes
        sched_runs(run, h, ("cache", "cacheof"), "sweeps", tags, quick=(40, 6), lin=False)
        trace_runs(run, h, ("map", "mapof"))
    return R.finish(run, GAPS.get("C13", []))


def c14(run):
    usable = common(run, ["CacheVerif.Props.C14"])
    rh, err = R.build_race_harness(run)
    run.oblige("go build -race -overlay of the harness from the working tree", rh is not None, err)
    if rh:
        env = dict(R.ENV, GORACE="halt_on_error=1 exitcode=66")
        seeds = SEEDS(run, 4)
        for sd in seeds:
            R.native_run(run, "race_s%d" % sd, [rh, "race", "seed=%d" % sd, "rounds=%d" % Q(run, 3, 12), "ms=%d" % Q(run, 350, 1500), "minops=%d" % Q(run, 350, 1500)],
                         ["DATA RACE", "BAD", "panic:", "fatal error"], env=env, timeout=3000)
    return R.finish(run, GAPS.get("C14", []))


def c15(run):
    usable = common(run, ["CacheVerif.Props.C15"])
    ch = with_harness(run, "clock")
    if usable and ch:
        seq_cache_runs(run, ch, quick=(300, 30))
    if ch:
        for i in range(Q(run, 1, 4)):
            R.native_run(run, "janitor_%d" % i, [ch, "janitor"], ["BAD", "panic:"])
    return R.finish(run, GAPS.get("C15", []))


def c16(run):
    usable = common(run, ["CacheVerif.Props.C16"])
    h = with_harness(run, "sched")
    if usable and h:
        sched_runs(run, h, ALL_KINDS, "reader", ("SOLO-STUCK",), quick=(150, 6), lin=False)
        trace_runs(run, h, ("map", "mapof"), quick=(40, 4))
    return R.finish(run, GAPS.get("C16", []))


PROPS = {
    "C05": c05, "C06": c06, "C07": c07, "C08": c08, "C09": c09, "C12": c12, "C13": c13, "C14": c14, "C15": c15, "C16": c16,
    "C10": c10,
    "C03": c03,
    "C04": c04,
    "C02": c02,
    "C11": c11,
    "C01": c01,
}


def setup():
    """MANIFEST.setup_cmd: build everything from files on disk (offline)."""
    run = R.Run("setup", "quick", 1)
    R.build_tools(run)
    if not R.regenerate(run):
        print([o for o in run.obligations if not o[1]])
        return 1
    ok, log = R.lake_build(run, ["CacheVerif", "driver"])
    if not ok:
        print(log)
        return 1
    for mode in ("clock", "layout", "sched"):
        h, err = R.build_harness(run, mode)
        if h is None:
            print(err)
            return 1
    for name, fn in (("keys", R.build_keys_harness), ("race", R.build_race_harness)):
        h, err = fn(run)
        if h is None:
            print(name, err)
            return 1
    R.sh(["rm", "-rf", run.work])
    print("setup ok")
    return 0


def replay(run, path):
    import json
    p = json.load(open(path))
    if p.get("kind") == "sequential-differential":
        R.build_tools(run)
        harness, err = R.build_harness(run, p.get("overlay", "clock"))
        if harness is None:
            print(err)
            return 2
        im, mo, sp = R.replay_seq(run, harness, p["mode"], p["ops"], p.get("args", []))
        bad = False
        for o, a, b, c in zip(p["ops"], im, mo, sp):
            flag = "" if R.spec_ok(a, c) else "   <-- contradicts the reference semantics"
            bad |= bool(flag)
            print("%-40s impl: %-30s model: %-30s spec: %s%s" % (o, a, b, c, flag))
        R.sh(["rm", "-rf", run.work])
        return 1 if bad else 0
    if p.get("kind") == "schedule":
        R.build_tools(run)
        harness, err = R.build_harness(run, "sched")
        if harness is None:
            print(err)
            return 2
        d = run.work
        # exact replay: the recorded program with its recorded schedule (thread id per step)
        open(os.path.join(d, "replay_hist.txt"), "w").write("\n".join(p["history"]) + "\n")
        R.sh([harness, "schedreplay", "out=" + d, "file=" + os.path.join(d, "replay_hist.txt")], timeout=3000)
        hs = R.parse_hists(os.path.join(d, "hist.txt"))
        lines = hs.get("1", [])
        p["history_id"] = "1"
        print("\n".join(lines))
        open(os.path.join(d, "one.txt"), "w").write("\n".join(lines) + "\n")
        import subprocess
        with open(os.path.join(d, "one.txt"), "rb") as fin:
            q = subprocess.run([R.DRIVER, "--lin"], stdin=fin, stdout=subprocess.PIPE)
        print("linearizability (Lean, against Spec):", q.stdout.decode().strip())
        bad = "OK" not in q.stdout.decode()
        for l in R.read_lines(os.path.join(d, "monitors.txt")):
            if l.startswith(p["history_id"] + " "):
                print("monitor:", l)
                bad = True
        R.sh(["rm", "-rf", run.work])
        return 1 if bad else 0
    print(json.dumps(p, indent=1))
    return 0
