#!/usr/bin/env python3
"""pin_expect.py: write CacheVerif/Expect/*.lean from the CURRENT Generated/Facts.lean (run by hand after the
extracted skeletons have been reviewed against the hand-written models; the result is committed).  Each pinned
fact becomes `theorem <name> : Gen.Facts.<name> = [...] := rfl`, so that any change of a synchronisation
skeleton, call structure, plain shared access or closure capture in /repo stops `lake build`."""
import re, os
L = "/verif/lean/CacheVerif"
facts = open(L + "/Generated/Facts.lean").read()
defs = [d for d in re.findall(r"^def (\S+) : (List String|String) := (.*)$", facts, re.M)]
groups = {"Load": [], "DoCompute": [], "Resize": [], "Range": [], "Lock": [], "Alloc": [], "XsyncOther": [], "Cache": [], "Ctor": []}
def xgroup(name):
    fn = name.split("_")[-1]
    if fn in ("Load",): return "Load"
    if fn in ("doCompute", "Store", "LoadOrStore", "LoadAndStore", "LoadOrCompute", "Compute", "LoadAndDelete", "Delete",
              "addSize", "sumSize", "Size", "newerTableExists", "resizeInProgress"): return "DoCompute"
    if fn in ("resize", "waitForResize", "copyBucket", "copyBucketOf", "appendToBucket", "appendToBucketOf", "Clear", "addSizePlain", "isEmptyBucket"): return "Resize"
    if fn in ("Range",): return "Range"
    if fn in ("lockBucket", "unlockBucket"): return "Lock"
    if fn in ("NewMap", "NewMapOf", "NewMapOfWithHasher", "NewMapPresized", "NewMapOfPresized", "newMapTable", "newMapOfTable", "WithPresize", "WithGrowOnly"): return "Alloc"
    return "XsyncOther"
for name, ty, val in defs:
    if name.startswith("xsync_"):
        g = xgroup(name)
    elif re.match(r"cache_xsync_map(of)?_xsyncMap(Of)?_", name):
        g = "Cache"
    else:
        g = "Ctor"
    groups[g].append((name, ty, val))
os.makedirs(L + "/Expect", exist_ok=True)
doc = {"Load": "the lock-free read path of Map/MapOf (no lock, no wait; read order of the atomic snapshot): M4a reader pcs, M4b",
       "DoCompute": "the write path of Map/MapOf (lock, the two re-checks, valueFn position, store order, unlock before addSize, retry edges): M4a dc pcs, M3",
       "Resize": "resize / waitForResize / copyBucket / Clear (flag CAS, per-bucket locked copy, publish, clear flag and broadcast under resizeMu): M4a rz/wf pcs, M3",
       "Range": "Range (table struct copied once; lock, copy, unlock, then visit): M4a rg pcs",
       "Lock": "the bucket spin lock of Map",
       "Alloc": "table allocation and presizing: M3 `new`",
       "XsyncOther": "remaining functions of internal/xsync",
       "Cache": "call structure of the cache-layer methods (xsync_map.go, xsync_mapof.go): basis of M2, M5",
       "Ctor": "constructors, options, janitor goroutine and finalizer closures (capture facts): basis of M6 and of the constructor plumbing of M2"}
for g, items in groups.items():
    if not items: continue
    with open(L + "/Expect/%s.lean" % g, "w") as f:
        f.write("import CacheVerif.Generated.Facts\n/-!\nPinned structural facts: %s.\nRegenerate with tools/pin_expect.py only after reviewing the change against the hand-written models.\n-/\nnamespace Expect.%s\n\n" % (doc[g], g))
        for name, ty, val in items:
            f.write("theorem %s : Gen.Facts.%s = %s := rfl\n" % (name, name, val))
        f.write("\nend Expect.%s\n" % g)
print({g: len(v) for g, v in groups.items()})
