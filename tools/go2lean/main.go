// go2lean: translate the pure "leaf" code of fufuok/cache (bit arithmetic, constants, expiry and
// configuration decision code) from the CURRENT working tree into Lean 4 definitions.
//
// Supported Go subset (anything else aborts with a non-zero exit, which the check treats as a
// broken obligation): const/var declarations with integer / duration / float-rational values,
// functions whose bodies consist of assignments, op-assignments, ++/--, `if` with returns or with
// plain assignments, and a final return; integer and bit operators; conversions between fixed-width
// unsigned integers; indexing a fixed array literal; bits.TrailingZeros64; and a small table of
// "external call = parameter" patterns (time.Now().UnixNano() -> now, c.DefaultExpiration() -> dflt,
// time.Now().Add(d).UnixNano() -> now + d).
//
// Usage: go2lean <repo> <out.lean>
package main

import (
	"fmt"
	"go/ast"
	"go/parser"
	"go/printer"
	"go/token"
	"math/big"
	"os"
	"path/filepath"
	"sort"
	"strings"
)

type ty string

const (
	tU64  ty = "BitVec 64"
	tU32  ty = "BitVec 32"
	tU8   ty = "BitVec 8"
	tNat  ty = "Nat" // Go int used only as index / shift amount / table length
	tInt  ty = "Int" // int64 nanoseconds, time.Duration
	tBool ty = "Bool"
	tNone ty = ""
)

func goType(e ast.Expr) ty {
	switch t := e.(type) {
	case *ast.Ident:
		switch t.Name {
		case "uint64":
			return tU64
		case "uint32":
			return tU32
		case "uint8":
			return tU8
		case "int":
			return tNat
		case "int64":
			return tInt
		case "bool":
			return tBool
		}
	case *ast.SelectorExpr:
		if x, ok := t.X.(*ast.Ident); ok && x.Name == "time" && t.Sel.Name == "Duration" {
			return tInt
		}
	}
	return tNone
}

func die(format string, a ...interface{}) {
	fmt.Fprintf(os.Stderr, "go2lean: "+format+"\n", a...)
	os.Exit(2)
}

type tr struct {
	fset   *token.FileSet
	env    map[string]ty     // variable -> type
	ren    map[string]string // Go identifier -> Lean term
	consts map[string]ty     // package-level constants (typed as used)
	suffix string
}

func (t *tr) pos(n ast.Node) string { return t.fset.Position(n.Pos()).String() }

func lit(v string, want ty) string {
	n := new(big.Int)
	if _, ok := n.SetString(v, 0); !ok {
		die("bad literal %s", v)
	}
	switch want {
	case tU64:
		return fmt.Sprintf("0x%x#64", n)
	case tU32:
		return fmt.Sprintf("0x%x#32", n)
	case tU8:
		return fmt.Sprintf("0x%x#8", n)
	case tNat:
		return n.String()
	case tInt:
		return fmt.Sprintf("(%s : Int)", n.String())
	}
	die("literal %s needs a type", v)
	return ""
}

// typeOf infers the type of an expression without a context; tNone for untyped constants.
func (t *tr) typeOf(e ast.Expr) ty {
	switch x := e.(type) {
	case *ast.BasicLit:
		return tNone
	case *ast.Ident:
		if ty, ok := t.env[x.Name]; ok {
			return ty
		}
		if ty, ok := t.consts[x.Name]; ok {
			return ty
		}
		if x.Name == "true" || x.Name == "false" {
			return tBool
		}
		die("%s: unknown identifier %s", t.pos(e), x.Name)
	case *ast.ParenExpr:
		return t.typeOf(x.X)
	case *ast.UnaryExpr:
		if x.Op == token.NOT {
			return tBool
		}
		return t.typeOf(x.X)
	case *ast.BinaryExpr:
		switch x.Op {
		case token.EQL, token.NEQ, token.LSS, token.GTR, token.LEQ, token.GEQ, token.LAND, token.LOR:
			return tBool
		case token.SHL, token.SHR:
			return t.typeOf(x.X)
		}
		if a := t.typeOf(x.X); a != tNone {
			return a
		}
		return t.typeOf(x.Y)
	case *ast.CallExpr:
		if ty := goType(x.Fun); ty != tNone {
			return ty
		}
		if s := t.special(x); s != "" {
			return tInt
		}
		if sel, ok := x.Fun.(*ast.SelectorExpr); ok {
			if p, ok := sel.X.(*ast.Ident); ok && p.Name == "bits" && sel.Sel.Name == "TrailingZeros64" {
				return tNat
			}
		}
		die("%s: unsupported call", t.pos(e))
	case *ast.IndexExpr:
		return tU64
	case *ast.SelectorExpr:
		if n := t.selName(x); n != "" {
			if ty, ok := t.env[n]; ok {
				return ty
			}
		}
		die("%s: unsupported selector", t.pos(e))
	}
	die("%s: unsupported expression %T", t.pos(e), e)
	return tNone
}

// selName maps `i.e` / `cfg.DefaultExpiration` to a flat variable name known in env.
func (t *tr) selName(x *ast.SelectorExpr) string {
	if id, ok := x.X.(*ast.Ident); ok {
		n := id.Name + "_" + x.Sel.Name
		if _, ok := t.env[n]; ok {
			return n
		}
	}
	return ""
}

// special recognises the "external call = parameter" patterns.
func (t *tr) special(c *ast.CallExpr) string {
	s := exprString(c)
	switch s {
	case "time.Now().UnixNano()":
		return "now"
	case "c.DefaultExpiration()":
		return "dflt"
	}
	if strings.HasPrefix(s, "time.Now().Add(") && strings.HasSuffix(s, ").UnixNano()") {
		inner := c.Fun.(*ast.SelectorExpr).X.(*ast.CallExpr).Args[0]
		return "(now + " + t.expr(inner, tInt) + ")"
	}
	return ""
}

func exprString(e ast.Expr) string {
	switch x := e.(type) {
	case *ast.Ident:
		return x.Name
	case *ast.SelectorExpr:
		return exprString(x.X) + "." + x.Sel.Name
	case *ast.CallExpr:
		var a []string
		for _, y := range x.Args {
			a = append(a, exprString(y))
		}
		return exprString(x.Fun) + "(" + strings.Join(a, ",") + ")"
	case *ast.BasicLit:
		return x.Value
	case *ast.ParenExpr:
		return "(" + exprString(x.X) + ")"
	case *ast.BinaryExpr:
		return exprString(x.X) + x.Op.String() + exprString(x.Y)
	case *ast.UnaryExpr:
		return x.Op.String() + exprString(x.X)
	case *ast.IndexExpr:
		return exprString(x.X) + "[" + exprString(x.Index) + "]"
	case *ast.IndexListExpr:
		return exprString(x.X) + "[...]"
	}
	return fmt.Sprintf("<%T>", e)
}

func (t *tr) expr(e ast.Expr, want ty) string {
	switch x := e.(type) {
	case *ast.BasicLit:
		if x.Kind != token.INT {
			die("%s: non-integer literal", t.pos(e))
		}
		return lit(x.Value, want)
	case *ast.Ident:
		if x.Name == "true" || x.Name == "false" {
			return x.Name
		}
		if r, ok := t.ren[x.Name]; ok {
			return r
		}
		if _, ok := t.consts[x.Name]; ok {
			return x.Name
		}
		die("%s: unknown identifier %s", t.pos(e), x.Name)
	case *ast.ParenExpr:
		return "(" + t.expr(x.X, want) + ")"
	case *ast.SelectorExpr:
		if n := t.selName(x); n != "" {
			return t.ren[n]
		}
		die("%s: unsupported selector %s", t.pos(e), exprString(e))
	case *ast.UnaryExpr:
		switch x.Op {
		case token.NOT:
			return "(!" + t.expr(x.X, tBool) + ")"
		case token.XOR:
			return "(~~~" + t.expr(x.X, want) + ")"
		case token.SUB:
			if want == tInt || want == tNone {
				return "(-" + t.expr(x.X, tInt) + ")"
			}
		}
		die("%s: unsupported unary %s", t.pos(e), x.Op)
	case *ast.IndexExpr:
		id, ok := x.X.(*ast.Ident)
		if !ok {
			die("%s: unsupported index", t.pos(e))
		}
		return fmt.Sprintf("(%s.getD %s 0#64)", id.Name, t.expr(x.Index, tNat))
	case *ast.CallExpr:
		if to := goType(x.Fun); to != tNone {
			from := t.typeOf(x.Args[0])
			if from == tNone {
				return t.expr(x.Args[0], to)
			}
			a := t.expr(x.Args[0], from)
			if from == to {
				return a
			}
			w := map[ty]string{tU64: "64", tU32: "32", tU8: "8"}
			if w[from] != "" && w[to] != "" {
				return fmt.Sprintf("(BitVec.setWidth %s %s)", w[to], a)
			}
			die("%s: unsupported conversion %s -> %s", t.pos(e), from, to)
		}
		if s := t.special(x); s != "" {
			return s
		}
		if sel, ok := x.Fun.(*ast.SelectorExpr); ok {
			if p, ok := sel.X.(*ast.Ident); ok && p.Name == "bits" && sel.Sel.Name == "TrailingZeros64" {
				return "(GoPrelude.trailingZeros64 " + t.expr(x.Args[0], tU64) + ")"
			}
		}
		die("%s: unsupported call %s", t.pos(e), exprString(e))
	case *ast.BinaryExpr:
		switch x.Op {
		case token.LAND:
			return "(" + t.expr(x.X, tBool) + " && " + t.expr(x.Y, tBool) + ")"
		case token.LOR:
			return "(" + t.expr(x.X, tBool) + " || " + t.expr(x.Y, tBool) + ")"
		case token.EQL, token.NEQ, token.LSS, token.GTR, token.LEQ, token.GEQ:
			ot := t.typeOf(x.X)
			if ot == tNone {
				ot = t.typeOf(x.Y)
			}
			if ot == tNone {
				die("%s: comparison of two untyped constants", t.pos(e))
			}
			a, b := t.expr(x.X, ot), t.expr(x.Y, ot)
			if ot == tInt || ot == tNat {
				return fmt.Sprintf("(decide (%s %s %s))", a, map[token.Token]string{token.EQL: "=", token.NEQ: "≠",
					token.LSS: "<", token.GTR: ">", token.LEQ: "≤", token.GEQ: "≥"}[x.Op], b)
			}
			switch x.Op {
			case token.EQL:
				return fmt.Sprintf("(%s == %s)", a, b)
			case token.NEQ:
				return fmt.Sprintf("(%s != %s)", a, b)
			}
			die("%s: ordered comparison on bit vectors not supported", t.pos(e))
		case token.SHL, token.SHR:
			lt := t.typeOf(x.X)
			if lt == tNone {
				lt = want
			}
			op := "<<<"
			if x.Op == token.SHR {
				op = ">>>"
			}
			return fmt.Sprintf("(%s %s %s)", t.expr(x.X, lt), op, t.expr(x.Y, tNat))
		}
		ot := t.typeOf(e)
		if ot == tNone {
			ot = want
		}
		a, b := t.expr(x.X, ot), t.expr(x.Y, ot)
		switch x.Op {
		case token.AND:
			return fmt.Sprintf("(%s &&& %s)", a, b)
		case token.OR:
			return fmt.Sprintf("(%s ||| %s)", a, b)
		case token.XOR:
			return fmt.Sprintf("(%s ^^^ %s)", a, b)
		case token.AND_NOT:
			return fmt.Sprintf("(%s &&& ~~~%s)", a, b)
		case token.ADD:
			return fmt.Sprintf("(%s + %s)", a, b)
		case token.SUB:
			if ot == tNat {
				die("%s: subtraction on int-as-Nat is outside the subset", t.pos(e))
			}
			return fmt.Sprintf("(%s - %s)", a, b)
		case token.MUL:
			return fmt.Sprintf("(%s * %s)", a, b)
		case token.QUO:
			if ot == tNat {
				return fmt.Sprintf("(%s / %s)", a, b)
			}
		}
		die("%s: unsupported operator %s", t.pos(e), x.Op)
	}
	die("%s: unsupported expression %T", t.pos(e), e)
	return ""
}

// stmts translates a statement list into a Lean term of type `ret` (using shadowing lets).
func (t *tr) stmts(ss []ast.Stmt, ret ty, named string, ind string) string {
	if len(ss) == 0 {
		if named != "" {
			return t.ren[named]
		}
		die("fell off the end of a function without a named result")
	}
	s, rest := ss[0], ss[1:]
	assign := func(name string, rhs string) string {
		return fmt.Sprintf("let %s := %s\n%s%s", t.ren[name], rhs, ind, t.stmts(rest, ret, named, ind))
	}
	switch x := s.(type) {
	case *ast.ReturnStmt:
		if len(x.Results) == 0 {
			return t.ren[named]
		}
		if len(x.Results) != 1 {
			die("%s: multi-value return", t.pos(s))
		}
		return t.expr(x.Results[0], ret)
	case *ast.IncDecStmt:
		id := x.X.(*ast.Ident)
		op := "+"
		if x.Tok == token.DEC {
			op = "-"
		}
		return assign(id.Name, fmt.Sprintf("%s %s %s", t.ren[id.Name], op, lit("1", t.env[id.Name])))
	case *ast.AssignStmt:
		if len(x.Lhs) != 1 {
			die("%s: multi-assign", t.pos(s))
		}
		name := ""
		switch l := x.Lhs[0].(type) {
		case *ast.Ident:
			name = l.Name
		case *ast.SelectorExpr:
			name = t.selName(l)
		}
		if name == "" {
			die("%s: unsupported assignment target", t.pos(s))
		}
		if x.Tok == token.DEFINE {
			ty := t.typeOf(x.Rhs[0])
			if ty == tNone {
				die("%s: cannot type := of constant", t.pos(s))
			}
			t.env[name] = ty
			t.ren[name] = name
			return assign(name, t.expr(x.Rhs[0], ty))
		}
		ty, ok := t.env[name]
		if !ok {
			die("%s: assignment to unknown %s", t.pos(s), name)
		}
		if x.Tok == token.ASSIGN {
			return assign(name, t.expr(x.Rhs[0], ty))
		}
		bop := map[token.Token]token.Token{token.OR_ASSIGN: token.OR, token.AND_ASSIGN: token.AND, token.ADD_ASSIGN: token.ADD,
			token.SUB_ASSIGN: token.SUB, token.SHL_ASSIGN: token.SHL, token.SHR_ASSIGN: token.SHR, token.XOR_ASSIGN: token.XOR,
			token.AND_NOT_ASSIGN: token.AND_NOT}[x.Tok]
		if bop == token.ILLEGAL {
			die("%s: unsupported assignment operator", t.pos(s))
		}
		return assign(name, t.expr(&ast.BinaryExpr{X: x.Lhs[0], Op: bop, Y: x.Rhs[0], OpPos: x.Pos()}, ty))
	case *ast.IfStmt:
		if x.Init != nil || x.Else != nil {
			die("%s: if with init/else is outside the subset", t.pos(s))
		}
		cond := t.expr(x.Cond, tBool)
		body := x.Body.List
		endsInReturn := false
		if n := len(body); n > 0 {
			_, endsInReturn = body[n-1].(*ast.ReturnStmt)
		}
		if endsInReturn {
			saveEnv, saveRen := copyMap(t.env), copyMapS(t.ren)
			th := t.stmts(body, ret, named, ind+"  ")
			t.env, t.ren = saveEnv, saveRen
			el := t.stmts(rest, ret, named, ind+"  ")
			return fmt.Sprintf("if %s then\n%s  %s\n%selse\n%s  %s", cond, ind, th, ind, ind, el)
		}
		// conditional assignments only: x = e  ==>  let x := if c then e else x
		out := ""
		for _, b := range body {
			as, ok := b.(*ast.AssignStmt)
			if !ok || as.Tok != token.ASSIGN || len(as.Lhs) != 1 {
				die("%s: if-body must be plain assignments or end in return", t.pos(b))
			}
			name := ""
			switch l := as.Lhs[0].(type) {
			case *ast.Ident:
				name = l.Name
			case *ast.SelectorExpr:
				name = t.selName(l)
			}
			ty, ok := t.env[name]
			if !ok {
				die("%s: assignment to unknown %s", t.pos(b), exprString(as.Lhs[0]))
			}
			out += fmt.Sprintf("let %s := if %s then %s else %s\n%s", t.ren[name], cond, t.expr(as.Rhs[0], ty), t.ren[name], ind)
		}
		return out + t.stmts(rest, ret, named, ind)
	}
	die("%s: unsupported statement %T", t.pos(s), s)
	return ""
}

func copyMap(m map[string]ty) map[string]ty {
	r := map[string]ty{}
	for k, v := range m {
		r[k] = v
	}
	return r
}
func copyMapS(m map[string]string) map[string]string {
	r := map[string]string{}
	for k, v := range m {
		r[k] = v
	}
	return r
}

type pkg struct {
	fset  *token.FileSet
	files map[string]*ast.File
}

func load(dir string, names ...string) *pkg {
	p := &pkg{fset: token.NewFileSet(), files: map[string]*ast.File{}}
	for _, n := range names {
		f, err := parser.ParseFile(p.fset, filepath.Join(dir, n), nil, 0)
		if err != nil {
			die("%v", err)
		}
		p.files[n] = f
	}
	return p
}

func (p *pkg) fn(file, name, recv string) *ast.FuncDecl {
	for _, d := range p.files[file].Decls {
		if f, ok := d.(*ast.FuncDecl); ok && f.Name.Name == name {
			r := ""
			if f.Recv != nil && len(f.Recv.List) == 1 {
				r = recvName(f.Recv.List[0].Type)
			}
			if r == recv {
				return f
			}
		}
	}
	die("function %s.%s not found in %s", recv, name, file)
	return nil
}

func recvName(e ast.Expr) string {
	switch x := e.(type) {
	case *ast.StarExpr:
		return recvName(x.X)
	case *ast.Ident:
		return x.Name
	case *ast.IndexExpr:
		return recvName(x.X)
	case *ast.IndexListExpr:
		return recvName(x.X)
	}
	return ""
}

// value spec lookup (const or var) in a file
func (p *pkg) value(file, name string) ast.Expr {
	var res ast.Expr
	var last ast.Expr
	for _, d := range p.files[file].Decls {
		g, ok := d.(*ast.GenDecl)
		if !ok || (g.Tok != token.CONST && g.Tok != token.VAR) {
			continue
		}
		for _, s := range g.Specs {
			vs := s.(*ast.ValueSpec)
			for i, n := range vs.Names {
				if len(vs.Values) > i {
					last = vs.Values[i]
				}
				if n.Name == name {
					if len(vs.Values) > i {
						res = vs.Values[i]
					} else {
						res = last
					}
				}
			}
		}
	}
	if res == nil {
		die("constant %s not found in %s", name, file)
	}
	return res
}

var out strings.Builder

func emit(format string, a ...interface{}) { fmt.Fprintf(&out, format, a...) }

// natConst evaluates an integer constant expression over already-known Nat constants.
var natConsts = map[string]*big.Int{}

func evalNat(e ast.Expr) *big.Int {
	switch x := e.(type) {
	case *ast.BasicLit:
		n := new(big.Int)
		if _, ok := n.SetString(x.Value, 0); !ok {
			die("bad int literal %s", x.Value)
		}
		return n
	case *ast.Ident:
		if v, ok := natConsts[x.Name]; ok {
			return v
		}
		die("unknown constant %s", x.Name)
	case *ast.ParenExpr:
		return evalNat(x.X)
	case *ast.CallExpr: // uint64(...) etc.
		if goType(x.Fun) != tNone {
			return evalNat(x.Args[0])
		}
	case *ast.BinaryExpr:
		a, b := evalNat(x.X), evalNat(x.Y)
		r := new(big.Int)
		switch x.Op {
		case token.ADD:
			return r.Add(a, b)
		case token.SUB:
			return r.Sub(a, b)
		case token.MUL:
			return r.Mul(a, b)
		case token.SHL:
			return r.Lsh(a, uint(b.Uint64()))
		case token.SHR:
			return r.Rsh(a, uint(b.Uint64()))
		case token.AND:
			return r.And(a, b)
		case token.OR:
			return r.Or(a, b)
		}
	}
	die("unsupported constant expression %s", exprString(e))
	return nil
}

// durConst evaluates e.g. -2 * time.Second to nanoseconds.
func evalDur(e ast.Expr) *big.Int {
	switch x := e.(type) {
	case *ast.BasicLit:
		return evalNat(x)
	case *ast.UnaryExpr:
		if x.Op == token.SUB {
			return new(big.Int).Neg(evalDur(x.X))
		}
	case *ast.ParenExpr:
		return evalDur(x.X)
	case *ast.SelectorExpr:
		if exprString(x) == "time.Second" {
			return big.NewInt(1_000_000_000)
		}
		if exprString(x) == "time.Millisecond" {
			return big.NewInt(1_000_000)
		}
		if exprString(x) == "time.Minute" {
			return big.NewInt(60_000_000_000)
		}
		if exprString(x) == "time.Nanosecond" {
			return big.NewInt(1)
		}
	case *ast.BinaryExpr:
		a, b := evalDur(x.X), evalDur(x.Y)
		switch x.Op {
		case token.MUL:
			return new(big.Int).Mul(a, b)
		case token.ADD:
			return new(big.Int).Add(a, b)
		case token.SUB:
			return new(big.Int).Sub(a, b)
		}
	case *ast.Ident:
		if v, ok := natConsts[x.Name]; ok {
			return v
		}
	}
	die("unsupported duration constant %s", exprString(e))
	return nil
}

func (p *pkg) natConst(file, name string) {
	v := evalNat(p.value(file, name))
	natConsts[name] = v
	emit("def %s : Nat := %s\n", name, v)
}

func (p *pkg) bvConst(file, name string, w int) {
	v := evalNat(p.value(file, name))
	natConsts[name] = v
	emit("def %s : BitVec %d := 0x%x#%d\n", name, w, v, w)
}

func (p *pkg) durConst(file, name string) {
	v := evalDur(p.value(file, name))
	natConsts[name] = v
	emit("def %s : Int := %s\n", name, v)
}

// ratConst: float literal -> numerator / denominator
func (p *pkg) ratConst(file, name string) {
	e := p.value(file, name)
	l, ok := e.(*ast.BasicLit)
	if !ok || l.Kind != token.FLOAT {
		die("%s is not a float literal", name)
	}
	r, ok := new(big.Rat).SetString(l.Value)
	if !ok {
		die("bad float %s", l.Value)
	}
	emit("def %sNum : Nat := %s\ndef %sDen : Nat := %s\n", name, r.Num(), name, r.Denom())
}

// function translation -------------------------------------------------------------

type param struct {
	name string
	ty   ty
}

func (p *pkg) function(file, name, recv, leanName string, extra []param, flatten map[string][]param, consts map[string]ty) {
	f := p.fn(file, name, recv)
	t := &tr{fset: p.fset, env: map[string]ty{}, ren: map[string]string{}, consts: consts}
	var ps []param
	if f.Recv != nil {
		rn := f.Recv.List[0].Names[0].Name
		for _, fp := range flatten[rn] {
			n := rn + "_" + fp.name
			t.env[n] = fp.ty
			t.ren[n] = fp.name
			ps = append(ps, param{fp.name, fp.ty})
		}
	}
	for _, fl := range f.Type.Params.List {
		ty := goType(fl.Type)
		if ty == tNone {
			die("%s: unsupported parameter type in %s", p.fset.Position(fl.Pos()), name)
		}
		for _, n := range fl.Names {
			t.env[n.Name] = ty
			t.ren[n.Name] = n.Name
			ps = append(ps, param{n.Name, ty})
		}
	}
	for _, e := range extra {
		t.env[e.name] = e.ty
		t.ren[e.name] = e.name
		ps = append(ps, e)
	}
	if f.Type.Results == nil || len(f.Type.Results.List) != 1 {
		die("%s must have exactly one result", name)
	}
	res := f.Type.Results.List[0]
	ret := goType(res.Type)
	named := ""
	pre := ""
	if len(res.Names) == 1 {
		named = res.Names[0].Name
		t.env[named] = ret
		t.ren[named] = named
		pre = fmt.Sprintf("let %s := %s\n  ", named, lit("0", ret))
	}
	body := t.stmts(f.Body.List, ret, named, "  ")
	emit("def %s", leanName)
	for _, q := range ps {
		emit(" (%s : %s)", q.name, q.ty)
	}
	emit(" : %s :=\n  %s%s\n\n", ret, pre, body)
}

// configDefault: struct-valued, handled by flattening cfg.* into three Int/Nat fields.
func (p *pkg) configDefault(file, name, defName, leanName string) {
	// DefaultConfig(): read the composite literal
	df := p.fn(file, defName, "")
	var cl *ast.CompositeLit
	ast.Inspect(df, func(n ast.Node) bool {
		if c, ok := n.(*ast.CompositeLit); ok && cl == nil {
			cl = c
		}
		return true
	})
	if cl == nil {
		die("%s: no composite literal", defName)
	}
	fields := map[string]string{}
	for _, el := range cl.Elts {
		kv := el.(*ast.KeyValueExpr)
		fields[kv.Key.(*ast.Ident).Name] = exprString(kv.Value)
	}
	for _, k := range []string{"DefaultExpiration", "CleanupInterval", "MinCapacity"} {
		if _, ok := natConsts[fields[k]]; !ok {
			die("%s: field %s is not a known constant (%s)", defName, k, fields[k])
		}
	}
	if fields["EvictedCallback"] != "nil" {
		die("%s: EvictedCallback default must be nil", defName)
	}
	emit("def %s : Config := { defaultExpiration := %s, cleanupInterval := %s, minCapacity := %s, hasCallback := false }\n\n",
		defName+"_", fields["DefaultExpiration"], fields["CleanupInterval"], "("+fields["MinCapacity"]+" : Int)")

	f := p.fn(file, name, "")
	body := f.Body.List
	// expected shape: if len(config) < 1 { return DefaultConfigX() } ; cfg := config[0] ; ifs ; return cfg
	if len(body) < 3 {
		die("%s: unexpected shape", name)
	}
	first, ok := body[0].(*ast.IfStmt)
	if !ok || exprString(first.Cond) != "len(config)<1" {
		die("%s: first statement must be `if len(config) < 1`", name)
	}
	rs, ok := first.Body.List[0].(*ast.ReturnStmt)
	if !ok || !strings.HasPrefix(exprString(rs.Results[0]), defName) {
		die("%s: empty-config branch must return %s()", name, defName)
	}
	as, ok := body[1].(*ast.AssignStmt)
	if !ok || exprString(as.Lhs[0]) != "cfg" || exprString(as.Rhs[0]) != "config[0]" {
		die("%s: second statement must be cfg := config[0]", name)
	}
	last, ok := body[len(body)-1].(*ast.ReturnStmt)
	if !ok || exprString(last.Results[0]) != "cfg" {
		die("%s: must end in return cfg", name)
	}
	t := &tr{fset: p.fset, env: map[string]ty{}, ren: map[string]string{}, consts: map[string]ty{
		"NoExpiration": tInt, "DefaultExpiration": tInt, "DefaultCleanupInterval": tInt, "DefaultMinCapacity": tInt}}
	for _, fld := range []string{"DefaultExpiration", "CleanupInterval", "MinCapacity"} {
		t.env["cfg_"+fld] = tInt
		t.ren["cfg_"+fld] = "c" + fld
	}
	// a synthetic final "return" that rebuilds the structure
	mid := body[2 : len(body)-1]
	var sb strings.Builder
	for _, s := range mid {
		ifs, ok := s.(*ast.IfStmt)
		if !ok {
			die("%s: only if-statements allowed between cfg := config[0] and return", name)
		}
		if ifs.Init != nil || ifs.Else != nil {
			die("%s: if with init/else", name)
		}
		cond := t.expr(ifs.Cond, tBool)
		for _, b := range ifs.Body.List {
			a, ok := b.(*ast.AssignStmt)
			if !ok || a.Tok != token.ASSIGN {
				die("%s: if-body must be plain field assignments", name)
			}
			n := t.selName(a.Lhs[0].(*ast.SelectorExpr))
			if n == "" {
				die("%s: assignment to unknown field %s", name, exprString(a.Lhs[0]))
			}
			fmt.Fprintf(&sb, "    let %s := if %s then %s else %s\n", t.ren[n], cond, t.expr(a.Rhs[0], tInt), t.ren[n])
		}
	}
	emit("def %s (config : Option Config) : Config :=\n  match config with\n  | none => %s_\n  | some cfg =>\n", leanName, defName)
	emit("    let cDefaultExpiration := cfg.defaultExpiration\n    let cCleanupInterval := cfg.cleanupInterval\n    let cMinCapacity := cfg.minCapacity\n")
	emit("%s", sb.String())
	emit("    { defaultExpiration := cDefaultExpiration, cleanupInterval := cCleanupInterval, minCapacity := cMinCapacity, hasCallback := cfg.hasCallback }\n\n")
}

var cfgField = map[string]string{"DefaultExpiration": "defaultExpiration", "CleanupInterval": "cleanupInterval", "MinCapacity": "minCapacity"}

// ctorPlumbing translates the constructor plumbing of one twin: the four option constructors, New / NewDefault, the
// helper newXsyncMap*Default and what newXsyncMap* does with the normalised configuration (the value stored as the
// default TTL, whether a callback is installed, the presize hint, and the condition under which the janitor
// goroutine is started).  Everything is shape-checked; an unexpected shape is a translation failure.
func (p *pkg) ctorPlumbing(sfx, optFile, cacheFile, xsFile, newFn, newDefaultFn, xsNew, xsNewDefault, cfgDefault, defCfg, presizeFn string) {
	// --- options: func WithX(v T) Option { return func(config *Config) { config.F = v } }
	for _, o := range []struct{ name, field string }{{"WithDefaultExpiration", "DefaultExpiration"}, {"WithCleanupInterval", "CleanupInterval"},
		{"WithEvictedCallback", "EvictedCallback"}, {"WithMinCapacity", "MinCapacity"}} {
		f := p.fn(optFile, o.name+sfx, "")
		if len(f.Type.Params.List) != 1 || len(f.Type.Params.List[0].Names) != 1 || len(f.Body.List) != 1 {
			die("%s: unexpected shape", o.name+sfx)
		}
		par := f.Type.Params.List[0].Names[0].Name
		rs, ok := f.Body.List[0].(*ast.ReturnStmt)
		if !ok || len(rs.Results) != 1 {
			die("%s: must return a function literal", o.name+sfx)
		}
		fl, ok := rs.Results[0].(*ast.FuncLit)
		if !ok || len(fl.Type.Params.List) != 1 || len(fl.Body.List) != 1 {
			die("%s: must return func(config *Config) { config.F = v }", o.name+sfx)
		}
		cp := fl.Type.Params.List[0].Names[0].Name
		as, ok := fl.Body.List[0].(*ast.AssignStmt)
		if !ok || as.Tok != token.ASSIGN || exprString(as.Lhs[0]) != cp+"."+o.field || exprString(as.Rhs[0]) != par {
			die("%s: the option must assign its argument to config.%s (found `%s = %s`)", o.name+sfx, o.field, exprString(as.Lhs[0]), exprString(as.Rhs[0]))
		}
		if o.field == "EvictedCallback" {
			emit("/-- `%s(ec)`; the callback itself is carried beside the configuration (`hasCallback` = ec is not nil) -/\n", o.name+sfx)
			emit("def %s (hasCb : Bool) (cfg : Config) : Config := { cfg with hasCallback := hasCb }\n\n", o.name+sfx)
		} else {
			emit("def %s (v : Int) (cfg : Config) : Config := { cfg with %s := v }\n\n", o.name+sfx, cfgField[o.field])
		}
	}
	// --- New(opts...): cfg := DefaultConfig(); for _, opt := range opts { opt(&cfg) }; return newXsyncMap(cfg)
	nf := p.fn(cacheFile, newFn, "")
	want := []string{"cfg:=" + defCfg + "()", "", "return" + xsNew + "(cfg)"}
	if len(nf.Body.List) != 3 {
		die("%s: unexpected shape", newFn)
	}
	got0 := stmtString(nf.Body.List[0])
	got2 := stmtString(nf.Body.List[2])
	if !strings.HasPrefix(got0, "cfg:="+defCfg) || !strings.HasPrefix(strings.ReplaceAll(got2, " ", ""), "return"+xsNew) || !strings.HasSuffix(got2, "(cfg)") {
		die("%s: expected `cfg := %s()` ... `return %s(cfg)`, found `%s` / `%s` (%v)", newFn, defCfg, xsNew, got0, got2, want)
	}
	rg, ok := nf.Body.List[1].(*ast.RangeStmt)
	if !ok || exprString(rg.X) != "opts" || len(rg.Body.List) != 1 || stmtString(rg.Body.List[0]) != exprString(rg.Value)+"(&cfg)" {
		die("%s: expected `for _, opt := range opts { opt(&cfg) }`", newFn)
	}
	emit("/-- `%s(opts...)`: the configuration handed to `%s` -/\ndef %s_cfg (opts : List (Config → Config)) : Config := opts.foldl (fun c o => o c) %s_\n\n", newFn, xsNew, newFn, defCfg)
	// --- NewDefault(de, ci, ec...) = newXsyncMapDefault(de, ci, ec...)
	nd := p.fn(cacheFile, newDefaultFn, "")
	if len(nd.Body.List) != 1 || !strings.HasPrefix(strings.ReplaceAll(stmtString(nd.Body.List[0]), " ", ""), "return"+xsNewDefault) ||
		!strings.HasSuffix(stmtString(nd.Body.List[0]), "(defaultExpiration,cleanupInterval,evictedCallback...)") {
		die("%s: expected `return %s(defaultExpiration, cleanupInterval, evictedCallback...)`, found `%s`", newDefaultFn, xsNewDefault, stmtString(nd.Body.List[0]))
	}
	xd := p.fn(xsFile, xsNewDefault, "")
	if len(xd.Body.List) != 3 {
		die("%s: unexpected shape", xsNewDefault)
	}
	as, ok := xd.Body.List[0].(*ast.AssignStmt)
	var lit *ast.CompositeLit
	if ok && len(as.Rhs) == 1 {
		lit, _ = as.Rhs[0].(*ast.CompositeLit)
	}
	if lit == nil || exprString(as.Lhs[0]) != "cfg" {
		die("%s: first statement must be cfg := Config{...}", xsNewDefault)
	}
	fields := map[string]string{"DefaultExpiration": "0", "CleanupInterval": "0", "MinCapacity": "0"}
	for _, el := range lit.Elts {
		kv, ok := el.(*ast.KeyValueExpr)
		if !ok {
			die("%s: positional Config literal", xsNewDefault)
		}
		k := kv.Key.(*ast.Ident).Name
		v := exprString(kv.Value)
		if _, known := fields[k]; !known || (v != "defaultExpiration" && v != "cleanupInterval") {
			die("%s: Config literal field %s: %s outside the translated shape", xsNewDefault, k, v)
		}
		fields[k] = map[string]string{"defaultExpiration": "de", "cleanupInterval": "ci"}[v]
	}
	ifs, ok := xd.Body.List[1].(*ast.IfStmt)
	if !ok || exprString(ifs.Cond) != "len(evictedCallback)>0" || len(ifs.Body.List) != 1 || stmtString(ifs.Body.List[0]) != "cfg.EvictedCallback=evictedCallback[0]" {
		die("%s: expected `if len(evictedCallback) > 0 { cfg.EvictedCallback = evictedCallback[0] }`", xsNewDefault)
	}
	if !strings.HasPrefix(strings.ReplaceAll(stmtString(xd.Body.List[2]), " ", ""), "return"+xsNew) || !strings.HasSuffix(stmtString(xd.Body.List[2]), "(cfg)") {
		die("%s: must end in return %s(cfg)", xsNewDefault, xsNew)
	}
	emit("/-- `%s(de, ci, ec...)` = `%s`: the configuration handed to `%s` -/\n", newDefaultFn, xsNewDefault, xsNew)
	emit("def %s_cfg (de ci : Int) (hasCb : Bool) : Config := { defaultExpiration := %s, cleanupInterval := %s, minCapacity := %s, hasCallback := hasCb }\n\n",
		newDefaultFn, fields["DefaultExpiration"], fields["CleanupInterval"], fields["MinCapacity"])
	// --- newXsyncMap(config...): what it does with cfg := configDefault(config...)
	xn := p.fn(xsFile, xsNew, "")
	if len(xn.Body.List) < 4 || !strings.HasPrefix(stmtString(xn.Body.List[0]), "cfg:="+cfgDefault+"(config...)") {
		die("%s: first statement must be cfg := %s(config...)", xsNew, cfgDefault)
	}
	var stored = map[string]string{}
	var presize, janitor string
	nGo := 0
	ast.Inspect(xn.Body, func(n ast.Node) bool {
		switch x := n.(type) {
		case *ast.CallExpr:
			s := exprString(x)
			if strings.HasPrefix(s, "c.defaultExpiration.Store(") && len(x.Args) == 1 {
				stored["defaultExpiration"] = exprString(x.Args[0])
			}
			if strings.HasPrefix(s, "c.evictedCallback.Store(") && len(x.Args) == 1 {
				stored["evictedCallback"] = exprString(x.Args[0])
			}
			if strings.HasPrefix(s, presizeFn) && len(x.Args) == 1 {
				presize = exprString(x.Args[0])
			}
		case *ast.IfStmt:
			for _, b := range x.Body.List {
				if _, ok := b.(*ast.GoStmt); ok {
					nGo++
					t := &tr{fset: p.fset, env: map[string]ty{}, ren: map[string]string{}, consts: map[string]ty{
						"NoExpiration": tInt, "DefaultExpiration": tInt, "DefaultCleanupInterval": tInt, "DefaultMinCapacity": tInt}}
					for fld, ln := range cfgField {
						t.env["cfg_"+fld] = tInt
						t.ren["cfg_"+fld] = "cfg." + ln
					}
					janitor = t.expr(x.Cond, tBool)
				}
			}
		case *ast.GoStmt:
		}
		return true
	})
	nGoAll := 0
	ast.Inspect(xn.Body, func(n ast.Node) bool {
		if _, ok := n.(*ast.GoStmt); ok {
			nGoAll++
		}
		return true
	})
	if stored["defaultExpiration"] != "cfg.DefaultExpiration" || stored["evictedCallback"] != "cfg.EvictedCallback" || presize != "cfg.MinCapacity" {
		die("%s: expected Store(cfg.DefaultExpiration), Store(cfg.EvictedCallback), %s(cfg.MinCapacity); found %v / %s", xsNew, presizeFn, stored, presize)
	}
	if nGo != 1 || nGoAll != 1 {
		die("%s: expected exactly one go statement, guarded by one if (found %d guarded, %d in all)", xsNew, nGo, nGoAll)
	}
	emit("/-- `%s`: the janitor goroutine is started iff this holds of the normalised configuration -/\n", xsNew)
	emit("def %s_janitor (cfg : Config) : Bool := %s\n\n", xsNew, janitor)
	emit("/-- `%s`: the default TTL it installs, whether it installs a callback, the presize hint -/\n", xsNew)
	emit("def %s_dflt (cfg : Config) : Int := cfg.defaultExpiration\ndef %s_hasCb (cfg : Config) : Bool := cfg.hasCallback\ndef %s_presize (cfg : Config) : Int := cfg.minCapacity\n\n", xsNew, xsNew, xsNew)
}

func stmtString(s ast.Stmt) string {
	var b strings.Builder
	printer.Fprint(&b, token.NewFileSet(), s)
	return strings.Join(strings.Fields(strings.ReplaceAll(strings.ReplaceAll(b.String(), " := ", ":="), " = ", "=")), "")
}

// exprIn extracts the right-hand side of `lhs := ...` / `lhs = ...` inside function fn.
func (p *pkg) assignedExpr(file, fn, recv, lhs string, nth int) ast.Expr {
	f := p.fn(file, fn, recv)
	var found []ast.Expr
	ast.Inspect(f, func(n ast.Node) bool {
		if a, ok := n.(*ast.AssignStmt); ok && len(a.Lhs) == 1 && exprString(a.Lhs[0]) == lhs {
			found = append(found, a.Rhs[0])
		}
		return true
	})
	if len(found) <= nth {
		die("no assignment #%d to %s in %s", nth, lhs, fn)
	}
	return found[nth]
}

// threshold arithmetic: product/quotient of ints, float64(int) and float constants, truncated by
// int64(...): emitted as floor((vars * num) / den) over Nat. Only *, / are accepted.
type ratExpr struct {
	vars []string
	num  *big.Int
	den  *big.Int
	// integer division nodes must be kept exact: we only allow them at the outermost integer level
}

var ratConsts = map[string]*big.Rat{}

func (p *pkg) rat(e ast.Expr, isFloat *bool) ratExpr {
	one := func() ratExpr { return ratExpr{num: big.NewInt(1), den: big.NewInt(1)} }
	switch x := e.(type) {
	case *ast.ParenExpr:
		return p.rat(x.X, isFloat)
	case *ast.BasicLit:
		r := one()
		r.num = evalNat(x)
		return r
	case *ast.Ident:
		if v, ok := ratConsts[x.Name]; ok {
			*isFloat = true
			return ratExpr{num: new(big.Int).Set(v.Num()), den: new(big.Int).Set(v.Denom())}
		}
		if v, ok := natConsts[x.Name]; ok {
			r := one()
			r.num = v
			return r
		}
		r := one()
		r.vars = []string{x.Name}
		return r
	case *ast.SelectorExpr:
		r := one()
		r.vars = []string{strings.ReplaceAll(exprString(x), ".", "_")}
		return r
	case *ast.CallExpr:
		fn := exprString(x.Fun)
		if fn == "float64" {
			*isFloat = true
			return p.rat(x.Args[0], isFloat)
		}
		if fn == "int64" || fn == "uint32" || fn == "int" {
			return p.rat(x.Args[0], isFloat)
		}
	case *ast.BinaryExpr:
		a, b := p.rat(x.X, isFloat), p.rat(x.Y, isFloat)
		switch x.Op {
		case token.MUL:
			return ratExpr{vars: append(a.vars, b.vars...), num: new(big.Int).Mul(a.num, b.num), den: new(big.Int).Mul(a.den, b.den)}
		case token.QUO:
			if len(b.vars) != 0 {
				die("division by a variable in threshold expression")
			}
			return ratExpr{vars: a.vars, num: new(big.Int).Mul(a.num, b.den), den: new(big.Int).Mul(a.den, b.num)}
		}
	}
	die("unsupported threshold expression %s", exprString(e))
	return ratExpr{}
}

func (p *pkg) threshold(leanName string, e ast.Expr) {
	fl := false
	r := p.rat(e, &fl)
	g := new(big.Int).GCD(nil, nil, r.num, r.den)
	r.num.Div(r.num, g)
	r.den.Div(r.den, g)
	if len(r.vars) != 1 {
		die("threshold %s: expected exactly one variable, got %v", leanName, r.vars)
	}
	emit("/-- from `%s` -/\ndef %s (%s : Nat) : Nat := (%s * %s) / %s\n\n", exprString(e), leanName, "n", "n", r.num, r.den)
}

func main() {
	if len(os.Args) != 3 {
		die("usage: go2lean <repo> <out.lean>")
	}
	repo := os.Args[1]
	x := load(filepath.Join(repo, "internal/xsync"), "map.go", "mapof.go", "util.go")
	c := load(repo, "item.go", "itemof.go", "config.go", "configof.go", "xsync_map.go", "xsync_mapof.go", "options.go", "optionsof.go", "cache.go", "cacheof.go")

	emit("-- GENERATED by /verif/tools/go2lean from the working tree of /repo. Do not edit.\n")
	emit("import CacheVerif.GoPrelude\nset_option linter.unusedVariables false\nnamespace Gen\n\n")

	emit("-- internal/xsync constants\n")
	x.natConst("map.go", "entriesPerMapBucket")
	x.natConst("map.go", "mapShrinkFraction")
	x.ratConst("map.go", "mapLoadFactor")
	{
		l := x.value("map.go", "mapLoadFactor").(*ast.BasicLit)
		r, _ := new(big.Rat).SetString(l.Value)
		ratConsts["mapLoadFactor"] = r
	}
	x.natConst("map.go", "defaultMinMapTableLen")
	x.natConst("map.go", "minMapCounterLen")
	x.natConst("map.go", "maxMapCounterLen")
	x.natConst("map.go", "mapGrowHint")
	x.natConst("map.go", "mapShrinkHint")
	x.natConst("map.go", "mapClearHint")
	x.natConst("mapof.go", "entriesPerMapOfBucket")
	x.bvConst("mapof.go", "defaultMeta", 64)
	x.bvConst("mapof.go", "metaMask", 64)
	x.bvConst("mapof.go", "defaultMetaMasked", 64)
	x.bvConst("mapof.go", "emptyMetaSlot", 8)
	x.bvConst("map.go", "topHashMask", 64)
	{
		cl, ok := x.value("map.go", "topHashEntryMasks").(*ast.CompositeLit)
		if !ok {
			die("topHashEntryMasks is not an array literal")
		}
		var vs []string
		for _, el := range cl.Elts {
			vs = append(vs, fmt.Sprintf("0x%x#64", evalNat(el)))
		}
		emit("def topHashEntryMasks : List (BitVec 64) := [%s]\n", strings.Join(vs, ", "))
	}
	emit("\n-- internal/xsync leaf functions\n")
	xc := map[string]ty{"topHashMask": tU64, "defaultMeta": tU64, "metaMask": tU64, "emptyMetaSlot": tU8}
	x.function("util.go", "nextPowOf2", "", "nextPowOf2", nil, nil, xc)
	x.function("util.go", "broadcast", "", "broadcast", nil, nil, xc)
	x.function("util.go", "firstMarkedByteIndex", "", "firstMarkedByteIndex", nil, nil, xc)
	x.function("util.go", "markZeroBytes", "", "markZeroBytes", nil, nil, xc)
	x.function("util.go", "setByte", "", "setByte", nil, nil, xc)
	x.function("mapof.go", "h1", "", "h1", nil, nil, xc)
	x.function("mapof.go", "h2", "", "h2", nil, nil, xc)
	x.function("map.go", "topHashMatch", "", "topHashMatch", nil, nil, xc)
	x.function("map.go", "storeTopHash", "", "storeTopHash", nil, nil, xc)
	x.function("map.go", "eraseTopHash", "", "eraseTopHash", nil, nil, xc)

	emit("-- threshold / sizing arithmetic (expressions lifted out of doCompute, resize, NewMap*)\n")
	x.threshold("growThresholdMap", x.assignedExpr("map.go", "doCompute", "Map", "growThreshold", 0))
	x.threshold("growThresholdMapOf", x.assignedExpr("mapof.go", "doCompute", "MapOf", "growThreshold", 0))
	x.threshold("shrinkThresholdMap", x.assignedExpr("map.go", "resize", "Map", "shrinkThreshold", 0))
	x.threshold("shrinkThresholdMapOf", x.assignedExpr("mapof.go", "resize", "MapOf", "shrinkThreshold", 0))
	{
		// presize: tableLen := nextPowOf2(uint32((float64(c.sizeHint) / entriesPerMapBucket) / mapLoadFactor))
		for _, v := range []struct{ file, fn, lean string }{{"map.go", "NewMap", "presizeArgMap"}, {"mapof.go", "NewMapOfWithHasher", "presizeArgMapOf"}} {
			e := x.assignedExpr(v.file, v.fn, "", "tableLen", 0)
			call, ok := e.(*ast.CallExpr)
			if !ok || exprString(call.Fun) != "nextPowOf2" {
				die("%s: tableLen must be nextPowOf2(...)", v.fn)
			}
			x.threshold(v.lean, call.Args[0])
		}
		// fast-path shrink test inside resize: knownTable.sumSize() > int64((knownTableLen*entries)/mapShrinkFraction)
	}

	emit("-- package cache constants\n")
	c.durConst("config.go", "NoExpiration")
	c.durConst("config.go", "DefaultExpiration")
	c.durConst("config.go", "DefaultCleanupInterval")
	c.durConst("config.go", "DefaultMinCapacity")
	emit("\n-- package cache decision code\n")
	cc := map[string]ty{"NoExpiration": tInt, "DefaultExpiration": tInt}
	itemFlat := map[string][]param{"i": {{"e", tInt}}}
	c.function("item.go", "expired", "item", "item_expired", []param{{"now", tInt}}, itemFlat, cc)
	c.function("item.go", "expiredWithNow", "item", "item_expiredWithNow", nil, itemFlat, cc)
	c.function("itemof.go", "expired", "itemOf", "itemOf_expired", []param{{"now", tInt}}, itemFlat, cc)
	c.function("itemof.go", "expiredWithNow", "itemOf", "itemOf_expiredWithNow", nil, itemFlat, cc)
	c.function("xsync_map.go", "expiration", "xsyncMap", "expiration", []param{{"dflt", tInt}, {"now", tInt}}, nil, cc)
	c.function("xsync_mapof.go", "expiration", "xsyncMapOf", "expirationOf", []param{{"dflt", tInt}, {"now", tInt}}, nil, cc)
	emit("structure Config where\n  defaultExpiration : Int\n  cleanupInterval : Int\n  minCapacity : Int\n  hasCallback : Bool\n  deriving Repr, DecidableEq\n\n")
	c.configDefault("config.go", "configDefault", "DefaultConfig", "configDefault")
	c.configDefault("configof.go", "configDefaultOf", "DefaultConfigOf", "configDefaultOf")
	emit("-- constructor plumbing (options, New / NewDefault, what newXsyncMap* does with the configuration)\n")
	c.ctorPlumbing("", "options.go", "cache.go", "xsync_map.go", "New", "NewDefault", "newXsyncMap", "newXsyncMapDefault", "configDefault", "DefaultConfig", "NewMapPresized")
	c.ctorPlumbing("Of", "optionsof.go", "cacheof.go", "xsync_mapof.go", "NewOf", "NewOfDefault", "newXsyncMapOf", "newXsyncMapOfDefault", "configDefaultOf", "DefaultConfigOf", "NewMapOfPresized")

	emit("end Gen\n")

	_ = sort.Strings
	old, _ := os.ReadFile(os.Args[2])
	if string(old) == out.String() {
		return // unchanged: keep the mtime so that lake does not rebuild
	}
	if err := os.MkdirAll(filepath.Dir(os.Args[2]), 0o755); err != nil {
		die("%v", err)
	}
	if err := os.WriteFile(os.Args[2], []byte(out.String()), 0o644); err != nil {
		die("%v", err)
	}
}
