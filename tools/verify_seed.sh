#!/bin/bash
# verify_seed.sh <Cxx> <mi>: confirm a seeded change in a scratch worktree of /repo's HEAD:
# patch applies, library test suite passes with it, demo fails with it and passes without it.
export GOFLAGS=-mod=mod GOPROXY=off GOSUMDB=off GOTOOLCHAIN=local
id=$1; m=$2; src=${SRCROOT:-/tmp/seed_out}/$id/$m; wt=/tmp/mv/${id}_$m
rm -rf $wt; git -C /repo worktree prune; git -C /repo worktree add -q --detach $wt HEAD || exit 9
cd $wt
res="id=$id m=$m"
if ! git apply --check $src/patch.diff 2>/dev/null; then echo "$res APPLY=FAIL"; cd /; git -C /repo worktree remove --force $wt; exit 1; fi
run_demo() {
  if [ -f $src/demo_test.go ]; then
    cp $src/demo_test.go $wt/zz_demo_test.go
    names=$(grep -o '^func Test[A-Za-z0-9_]*' $src/demo_test.go | sed 's/func //' | paste -sd'|')
    race=""; grep -q -- "-race" $src/NOTES.md 2>/dev/null && [ "$id" = "C14" ] && race="-race"
    CGO_ENABLED=$([ -n "$race" ] && echo 1 || echo 0) timeout 600 go test $race -vet=off -count=1 -run "^($names)\$" . >/tmp/mv/${id}_$m.demo.$1.log 2>&1; rc=$?
    rm -f $wt/zz_demo_test.go
    return $rc
  fi
  return 99
}
run_demo clean; clean_rc=$?
git apply $src/patch.diff
timeout 900 go test -vet=off -count=1 ./... >/tmp/mv/${id}_$m.suite.log 2>&1; suite_rc=$?
run_demo mut; mut_rc=$?
echo "$res APPLY=ok suite_rc=$suite_rc demo_clean_rc=$clean_rc demo_mut_rc=$mut_rc"
cd /; git -C /repo worktree remove --force $wt
