// gofacts: extract structural facts ("synchronisation skeletons") from the CURRENT working tree of /repo and
// emit them as Lean data (CacheVerif/Generated/Facts.lean).  For each function of interest the skeleton is the
// sequence, in source order, of: control structure markers (if/else/for/switch/case/label/goto/return/go/func),
// calls that matter for synchronisation or for the call structure (sync/atomic operations with the field they
// touch, lock/unlock, cond ops, the user callbacks, the helpers of the table, the map-interface calls of the
// cache layer, clock reads, expiry predicates, ...) and PLAIN (non-atomic) reads/writes of shared fields.
// Names of locals, comments, formatting and statements that touch none of the above do not appear.
//
// Usage: gofacts <repo> <out.lean>
package main

import (
	"fmt"
	"go/ast"
	"go/parser"
	"go/token"
	"os"
	"path/filepath"
	"sort"
	"strings"
)

func die(f string, a ...interface{}) { fmt.Fprintf(os.Stderr, "gofacts: "+f+"\n", a...); os.Exit(2) }

// shared fields whose plain accesses are recorded
var sharedFields = map[string]bool{
	"keys": true, "values": true, "next": true, "meta": true, "entries": true, "topHashMutex": true,
	"buckets": true, "size": true, "seed": true, "minTableLen": true, "growOnly": true, "hasher": true,
	"c": true, "table": true, "resizing": true, "totalGrowths": true, "totalShrinks": true,
	"defaultExpiration": true, "evictedCallback": true, "items": true, "stop": true,
}

// plain function calls that are recorded
var plainCalls = map[string]bool{
	"lockBucket": true, "unlockBucket": true, "valueFn": true, "f": true, "ec": true, "copyBucket": true,
	"copyBucketOf": true, "appendToBucket": true, "appendToBucketOf": true, "isEmptyBucket": true,
	"newMapTable": true, "newMapOfTable": true, "hashString": true, "topHashMatch": true, "storeTopHash": true,
	"eraseTopHash": true, "setByte": true, "markZeroBytes": true, "firstMarkedByteIndex": true, "broadcast": true,
	"h1": true, "h2": true, "nextPowOf2": true, "close": true, "panic": true, "makeSeed": true, "hasher": true,
	"configDefault": true, "configDefaultOf": true, "newXsyncMapDefault": true, "newXsyncMapOfDefault": true, "DefaultConfig": true, "DefaultConfigOf": true, "newXsyncMap": true, "newXsyncMapOf": true,
	"NewMapPresized": true, "NewMapOfPresized": true, "opt": true, "derefKey": true, "derefValue": true,
}

// method names that are recorded (with the class of their receiver)
var methodCalls = map[string]bool{
	"Lock": true, "Unlock": true, "Wait": true, "Broadcast": true, "Signal": true, "Load": true, "Store": true,
	"LoadOrStore": true, "LoadAndStore": true, "LoadOrCompute": true, "Compute": true, "LoadAndDelete": true,
	"Delete": true, "Range": true, "Clear": true, "Size": true, "addSize": true, "addSizePlain": true,
	"sumSize": true, "resize": true, "waitForResize": true, "resizeInProgress": true, "newerTableExists": true,
	"doCompute": true, "expired": true, "expiredWithNow": true, "expiration": true, "EvictedCallback": true,
	"DefaultExpiration": true, "DeleteExpired": true, "GetAndDelete": true, "Set": true, "get": true,
	"Stop": true, "UnixNano": true, "Add": true,
}

type walker struct {
	toks   []string
	inAtom int // depth inside the address argument of a sync/atomic call
}

func (w *walker) emit(s string) { w.toks = append(w.toks, s) }

func lastName(e ast.Expr) string {
	switch x := e.(type) {
	case *ast.Ident:
		return x.Name
	case *ast.SelectorExpr:
		return x.Sel.Name
	case *ast.IndexExpr:
		return lastName(x.X)
	case *ast.IndexListExpr:
		return lastName(x.X)
	case *ast.StarExpr:
		return lastName(x.X)
	case *ast.UnaryExpr:
		return lastName(x.X)
	case *ast.ParenExpr:
		return lastName(x.X)
	case *ast.CallExpr:
		return lastName(x.Fun) + "()"
	case *ast.TypeAssertExpr:
		return lastName(x.X)
	}
	return "?"
}

// field path of an address expression like &b.values[i] / &m.table / &table.size[cidx].c
func fieldOf(e ast.Expr) string {
	switch x := e.(type) {
	case *ast.UnaryExpr:
		return fieldOf(x.X)
	case *ast.IndexExpr:
		return fieldOf(x.X)
	case *ast.SelectorExpr:
		if inner, ok := x.X.(*ast.IndexExpr); ok {
			return fieldOf(inner) + "." + x.Sel.Name
		}
		return x.Sel.Name
	case *ast.Ident:
		return x.Name
	case *ast.ParenExpr:
		return fieldOf(x.X)
	}
	return "?"
}

func (w *walker) expr(e ast.Expr, write bool) {
	if e == nil {
		return
	}
	switch x := e.(type) {
	case *ast.CallExpr:
		w.call(x)
	case *ast.SelectorExpr:
		w.expr(x.X, false)
		if sharedFields[x.Sel.Name] && w.inAtom == 0 {
			if _, isPkg := x.X.(*ast.Ident); isPkg && (x.X.(*ast.Ident).Name == "atomic" || x.X.(*ast.Ident).Name == "time" || x.X.(*ast.Ident).Name == "xsync") {
				return
			}
			if write {
				w.emit("W:" + x.Sel.Name)
			} else {
				w.emit("R:" + x.Sel.Name)
			}
		}
	case *ast.IndexExpr:
		w.expr(x.X, write)
		w.expr(x.Index, false)
	case *ast.StarExpr:
		w.expr(x.X, write)
	case *ast.ParenExpr:
		w.expr(x.X, write)
	case *ast.UnaryExpr:
		if x.Op == token.AND {
			// taking an address is not an access: do not record the addressed field itself
			w.inAtom++
			w.expr(x.X, false)
			w.inAtom--
			return
		}
		w.expr(x.X, write)
	case *ast.BinaryExpr:
		w.expr(x.X, false)
		if x.Op == token.LAND {
			w.emit("&&")
		}
		if x.Op == token.LOR {
			w.emit("||")
		}
		w.expr(x.Y, false)
	case *ast.KeyValueExpr:
		w.expr(x.Value, false)
	case *ast.CompositeLit:
		for _, el := range x.Elts {
			w.expr(el, false)
		}
	case *ast.FuncLit:
		w.emit("func{")
		w.block(x.Body)
		w.emit("}")
	case *ast.TypeAssertExpr:
		w.expr(x.X, false)
	case *ast.SliceExpr:
		w.expr(x.X, false)
	}
}

func (w *walker) call(c *ast.CallExpr) {
	switch fn := c.Fun.(type) {
	case *ast.SelectorExpr:
		if pk, ok := fn.X.(*ast.Ident); ok && pk.Name == "atomic" {
			// sync/atomic operation on a field
			for _, a := range c.Args[1:] {
				w.expr(a, false)
			}
			w.emit("atomic." + fn.Sel.Name + "(" + fieldOf(c.Args[0]) + ")")
			return
		}
		if pk, ok := fn.X.(*ast.Ident); ok && (pk.Name == "runtime" || pk.Name == "time") {
			for _, a := range c.Args {
				w.expr(a, false)
			}
			w.emit(pk.Name + "." + fn.Sel.Name)
			return
		}
		// method call
		w.expr(fn.X, false)
		for _, a := range c.Args {
			w.expr(a, false)
		}
		if methodCalls[fn.Sel.Name] {
			w.emit(lastName(fn.X) + "." + fn.Sel.Name)
		}
	case *ast.Ident:
		for _, a := range c.Args {
			w.expr(a, false)
		}
		if plainCalls[fn.Name] {
			w.emit(fn.Name)
		}
	case *ast.IndexExpr, *ast.IndexListExpr: // generic instantiation f[T](...)
		for _, a := range c.Args {
			w.expr(a, false)
		}
		n := lastName(fn)
		if plainCalls[n] {
			w.emit(n)
		}
	default:
		w.expr(c.Fun, false)
		for _, a := range c.Args {
			w.expr(a, false)
		}
	}
}

func (w *walker) stmt(s ast.Stmt) {
	switch x := s.(type) {
	case *ast.ExprStmt:
		w.expr(x.X, false)
	case *ast.AssignStmt:
		for _, r := range x.Rhs {
			w.expr(r, false)
		}
		for _, l := range x.Lhs {
			if _, ok := l.(*ast.Ident); ok {
				continue
			}
			w.expr(l, true)
		}
	case *ast.IncDecStmt:
		w.expr(x.X, true)
	case *ast.DeclStmt:
		if gd, ok := x.Decl.(*ast.GenDecl); ok {
			for _, sp := range gd.Specs {
				if vs, ok := sp.(*ast.ValueSpec); ok {
					for _, v := range vs.Values {
						w.expr(v, false)
					}
				}
			}
		}
	case *ast.ReturnStmt:
		for _, r := range x.Results {
			w.expr(r, false)
		}
		w.emit("return")
	case *ast.BranchStmt:
		if x.Label != nil {
			w.emit(x.Tok.String() + " " + x.Label.Name)
		} else {
			w.emit(x.Tok.String())
		}
	case *ast.LabeledStmt:
		w.emit("label " + x.Label.Name)
		w.stmt(x.Stmt)
	case *ast.BlockStmt:
		w.block(x)
	case *ast.IfStmt:
		if x.Init != nil {
			w.stmt(x.Init)
		}
		w.emit("if(")
		w.expr(x.Cond, false)
		w.emit("){")
		w.block(x.Body)
		if x.Else != nil {
			w.emit("}else{")
			w.stmt(x.Else)
		}
		w.emit("}")
	case *ast.ForStmt:
		if x.Init != nil {
			w.stmt(x.Init)
		}
		w.emit("for(")
		if x.Cond != nil {
			w.expr(x.Cond, false)
		}
		w.emit("){")
		w.block(x.Body)
		if x.Post != nil {
			w.stmt(x.Post)
		}
		w.emit("}")
	case *ast.RangeStmt:
		w.expr(x.X, false)
		w.emit("range{")
		w.block(x.Body)
		w.emit("}")
	case *ast.SwitchStmt:
		if x.Init != nil {
			w.stmt(x.Init)
		}
		if x.Tag != nil {
			w.expr(x.Tag, false)
		}
		w.emit("switch{")
		for _, cc := range x.Body.List {
			c := cc.(*ast.CaseClause)
			w.emit("case:")
			for _, e := range c.List {
				w.expr(e, false)
			}
			for _, b := range c.Body {
				w.stmt(b)
			}
		}
		w.emit("}")
	case *ast.SelectStmt:
		w.emit("select{")
		for _, cc := range x.Body.List {
			c := cc.(*ast.CommClause)
			w.emit("case:")
			if c.Comm != nil {
				w.stmt(c.Comm)
			}
			for _, b := range c.Body {
				w.stmt(b)
			}
		}
		w.emit("}")
	case *ast.GoStmt:
		w.emit("go{")
		w.expr(x.Call.Fun, false)
		for _, a := range x.Call.Args {
			w.expr(a, false)
		}
		w.emit("}")
	case *ast.DeferStmt:
		w.emit("defer{")
		w.call(x.Call)
		w.emit("}")
	case *ast.SendStmt:
		w.expr(x.Chan, false)
		w.expr(x.Value, false)
		w.emit("send")
	}
}

func (w *walker) block(b *ast.BlockStmt) {
	if b == nil {
		return
	}
	for _, s := range b.List {
		w.stmt(s)
	}
}

func recvName(e ast.Expr) string {
	switch x := e.(type) {
	case *ast.StarExpr:
		return recvName(x.X)
	case *ast.Ident:
		return x.Name
	case *ast.IndexExpr:
		return recvName(x.X)
	case *ast.IndexListExpr:
		return recvName(x.X)
	}
	return ""
}

// free identifiers of a function literal that refer to enclosing-function locals (capture facts for C15)
func captures(fl *ast.FuncLit, outer map[string]bool) []string {
	local := map[string]bool{}
	for _, p := range fl.Type.Params.List {
		for _, n := range p.Names {
			local[n.Name] = true
		}
	}
	seen := map[string]bool{}
	ast.Inspect(fl.Body, func(n ast.Node) bool {
		switch x := n.(type) {
		case *ast.AssignStmt:
			if x.Tok == token.DEFINE {
				for _, l := range x.Lhs {
					if id, ok := l.(*ast.Ident); ok {
						local[id.Name] = true
					}
				}
			}
		case *ast.Ident:
			if outer[x.Name] && !local[x.Name] {
				seen[x.Name] = true
			}
		}
		return true
	})
	var r []string
	for k := range seen {
		r = append(r, k)
	}
	sort.Strings(r)
	return r
}

func main() {
	if len(os.Args) != 3 {
		die("usage: gofacts <repo> <out.lean>")
	}
	repo := os.Args[1]
	type target struct{ dir, file string }
	files := []target{
		{"internal/xsync", "map.go"}, {"internal/xsync", "mapof.go"},
		{".", "xsync_map.go"}, {".", "xsync_mapof.go"}, {".", "cache.go"}, {".", "cacheof.go"}, {".", "map.go"}, {".", "mapof.go"},
		{".", "options.go"}, {".", "optionsof.go"},
	}
	skip := map[string]bool{"Stats": true, "ToString": true}
	var out strings.Builder
	out.WriteString("-- GENERATED by /verif/tools/gofacts from the working tree of /repo. Do not edit.\nnamespace Gen.Facts\n\n")
	var names []string
	for _, t := range files {
		fset := token.NewFileSet()
		f, err := parser.ParseFile(fset, filepath.Join(repo, t.dir, t.file), nil, 0)
		if err != nil {
			die("%v", err)
		}
		for _, d := range f.Decls {
			fd, ok := d.(*ast.FuncDecl)
			if !ok || fd.Body == nil || skip[fd.Name.Name] {
				continue
			}
			name := strings.TrimSuffix(t.file, ".go")
			if t.dir != "." {
				name = "xsync_" + name
			} else {
				name = "cache_" + name
			}
			if fd.Recv != nil && len(fd.Recv.List) == 1 {
				name += "_" + recvName(fd.Recv.List[0].Type)
			}
			name += "_" + fd.Name.Name
			w := &walker{}
			w.block(fd.Body)
			fmt.Fprintf(&out, "def %s : List String := [", name)
			for i, tk := range w.toks {
				if i > 0 {
					out.WriteString(", ")
				}
				fmt.Fprintf(&out, "%q", tk)
			}
			out.WriteString("]\n")
			// the same stream with every token split into (kind, argument), so that analyses in Lean need string
			// equality only: R/W field, atomic.<Op> field, call <name>, ctl <marker>
			fmt.Fprintf(&out, "def %s_t : List (String × String) := [", name)
			for i, tk := range w.toks {
				if i > 0 {
					out.WriteString(", ")
				}
				k, a := splitTok(tk)
				fmt.Fprintf(&out, "(%q, %q)", k, a)
			}
			out.WriteString("]\n")
			names = append(names, name)
			// closure capture facts
			outer := map[string]bool{}
			for _, p := range fd.Type.Params.List {
				for _, n := range p.Names {
					outer[n.Name] = true
				}
			}
			ast.Inspect(fd.Body, func(n ast.Node) bool {
				if a, ok := n.(*ast.AssignStmt); ok && a.Tok == token.DEFINE {
					for _, l := range a.Lhs {
						if id, ok := l.(*ast.Ident); ok {
							outer[id.Name] = true
						}
					}
				}
				return true
			})
			idx := 0
			ast.Inspect(fd.Body, func(n ast.Node) bool {
				switch x := n.(type) {
				case *ast.GoStmt:
					if fl, ok := x.Call.Fun.(*ast.FuncLit); ok {
						fmt.Fprintf(&out, "def %s_go%d_captures : List String := [%s]\n", name, idx, quoteAll(captures(fl, outer)))
						idx++
					}
				case *ast.CallExpr:
					if se, ok := x.Fun.(*ast.SelectorExpr); ok && se.Sel.Name == "SetFinalizer" && len(x.Args) == 2 {
						if fl, ok := x.Args[1].(*ast.FuncLit); ok {
							fmt.Fprintf(&out, "def %s_finalizer_captures : List String := [%s]\n", name, quoteAll(captures(fl, outer)))
							fmt.Fprintf(&out, "def %s_finalizer_target : String := %q\n", name, lastName(x.Args[0]))
						}
					}
				}
				return true
			})
		}
	}
	out.WriteString("\nend Gen.Facts\n")
	old, _ := os.ReadFile(os.Args[2])
	if string(old) == out.String() {
		return
	}
	if err := os.MkdirAll(filepath.Dir(os.Args[2]), 0o755); err != nil {
		die("%v", err)
	}
	if err := os.WriteFile(os.Args[2], []byte(out.String()), 0o644); err != nil {
		die("%v", err)
	}
}

func splitTok(t string) (string, string) {
	switch {
	case strings.HasPrefix(t, "R:"):
		return "R", t[2:]
	case strings.HasPrefix(t, "W:"):
		return "W", t[2:]
	case strings.HasPrefix(t, "atomic."):
		i := strings.Index(t, "(")
		return t[:i], strings.TrimSuffix(t[i+1:], ")")
	case strings.HasPrefix(t, "label "), strings.HasPrefix(t, "goto "):
		i := strings.Index(t, " ")
		return t[:i], t[i+1:]
	}
	switch t {
	case "if(", "){", "}else{", "}", "for(", "func{", "range{", "switch{", "select{", "case:", "go{", "defer{", "return", "break", "continue", "&&", "||", "send":
		return "ctl", t
	}
	return "call", t
}

func quoteAll(l []string) string {
	var q []string
	for _, s := range l {
		q = append(q, fmt.Sprintf("%q", s))
	}
	return strings.Join(q, ", ")
}
