#!/usr/bin/env python3
"""run_seeded.py [ids...]: apply each seeded change to /repo, run the check of the property it breaks (quick
tier), undo the change, and record which checks caught it in /verif/seeded/RESULTS.json."""
import json, os, subprocess, sys, time
V = os.environ.get("VERIF_DIR", "/verif")
REPO = os.environ.get("VERIF_REPO", "/repo")
ids = sys.argv[1:] or sorted(d for d in os.listdir(V + "/seeded") if os.path.isdir(V + "/seeded/" + d))
extra = {}  # extra checks to try when the property's own check misses
res = json.load(open(V + "/seeded/RESULTS.json")) if os.path.exists(V + "/seeded/RESULTS.json") else {}
for sid in ids:
    d = V + "/seeded/" + sid
    prop = sid.split("_")[0]
    assert subprocess.run(["git", "-C", REPO, "status", "--porcelain"], capture_output=True).stdout == b"", REPO + " not clean"
    subprocess.run(["git", "-C", REPO, "apply", d + "/patch.diff"], check=True)
    try:
        caught = {}
        for chk in [prop] + [c for c in os.environ.get("ALSO", "").split(",") if c]:
            t0 = time.time()
            p = subprocess.run([V + "/check", chk, "--tier", "quick"], capture_output=True, text=True, cwd=V)
            viol = [l for l in p.stdout.splitlines() if l.startswith("VIOLATION")]
            det = [l.strip() for l in p.stdout.splitlines() if l.strip().startswith("detail:")]
            caught[chk] = {"exit": p.returncode, "violations": viol[:3], "detail": det[:2], "wall_s": round(time.time() - t0, 1)}
        res[sid] = caught
        print(sid, {k: (v["exit"], (v["detail"] or [""])[0][:110]) for k, v in caught.items()}, flush=True)
    finally:
        subprocess.run(["git", "-C", REPO, "checkout", "--", "."], check=True)
        subprocess.run(["git", "-C", REPO, "clean", "-fdq"], check=True)
    json.dump(res, open(V + "/seeded/RESULTS.json", "w"), indent=1)
