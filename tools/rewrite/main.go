// rewrite: produce instrumented copies of the CURRENT /repo sources for `go build -overlay`.
// Nothing is written under /repo.  Selector substitution only (go/ast):
//   mode "clock": time.Now/Until/Since -> vshim.Now/Until/Since                  (package cache)
//   mode "layout": clock + makeSeed() -> vshim.Seed(), hashString(s, seed) -> vshim.HashString(s, seed)
//   mode "sched": additionally sync/atomic functions, atomic.Value, sync.Mutex, sync.Cond, sync.NewCond,
//                 runtime.Gosched -> vshim.*; makeSeed() body -> vshim.Seed()    (cache + internal/xsync)
// Usage: rewrite <repo> <outdir> <mode> <harnessdir>   -> writes <outdir>/overlay.json
package main

import (
	"encoding/json"
	"fmt"
	"go/ast"
	"go/parser"
	"go/printer"
	"go/token"
	"os"
	"path/filepath"
	"strings"
)

var clockSubst = map[string]bool{"time.Now": true, "time.Until": true, "time.Since": true, "time.NewTicker": true, "time.AfterFunc": true, "time.NewTimer": true}
var schedSubst = map[string]bool{
	"atomic.LoadPointer": true, "atomic.StorePointer": true, "atomic.LoadUint64": true, "atomic.StoreUint64": true,
	"atomic.LoadInt64": true, "atomic.StoreInt64": true, "atomic.AddInt64": true, "atomic.CompareAndSwapUint64": true,
	"atomic.CompareAndSwapInt64": true, "atomic.Value": true, "sync.Mutex": true, "sync.Cond": true, "sync.NewCond": true,
	"runtime.Gosched": true,
}

const vshimPath = "github.com/fufuok/cache/internal/vshim"

func main() {
	if len(os.Args) != 5 {
		fmt.Fprintln(os.Stderr, "usage: rewrite <repo> <outdir> <clock|sched> <harnessdir>")
		os.Exit(2)
	}
	repo, outdir, mode, hdir := os.Args[1], os.Args[2], os.Args[3], os.Args[4]
	outdir, _ = filepath.Abs(outdir)
	hdir, _ = filepath.Abs(hdir)
	repo, _ = filepath.Abs(repo)
	overlay := map[string]string{}
	must(os.MkdirAll(outdir, 0o755))
	for _, dir := range []string{".", "internal/xsync"} {
		ents, err := os.ReadDir(filepath.Join(repo, dir))
		must(err)
		for _, e := range ents {
			n := e.Name()
			if e.IsDir() || !strings.HasSuffix(n, ".go") || strings.HasSuffix(n, "_test.go") {
				continue
			}
			src := filepath.Join(repo, dir, n)
			fset := token.NewFileSet()
			f, err := parser.ParseFile(fset, src, nil, parser.ParseComments)
			must(err)
			changed := false
			ast.Inspect(f, func(nd ast.Node) bool {
				sel, ok := nd.(*ast.SelectorExpr)
				if !ok {
					return true
				}
				id, ok := sel.X.(*ast.Ident)
				if !ok {
					return true
				}
				key := id.Name + "." + sel.Sel.Name
				if clockSubst[key] || (mode == "sched" && schedSubst[key]) {
					id.Name = "vshim"
					changed = true
				}
				return true
			})
			if mode == "sched" || mode == "layout" {
				for _, d := range f.Decls {
					fd, ok := d.(*ast.FuncDecl)
					if ok && fd.Name.Name == "makeSeed" && fd.Recv == nil {
						fd.Body = &ast.BlockStmt{List: []ast.Stmt{&ast.ReturnStmt{Results: []ast.Expr{
							&ast.CallExpr{Fun: &ast.SelectorExpr{X: ast.NewIdent("vshim"), Sel: ast.NewIdent("Seed")}}}}}}
						changed = true
					}
					// deterministic, model-computable string hash (the real hashString is exercised by the
					// black-box runs, which are built without this substitution)
					if ok && fd.Name.Name == "hashString" && fd.Recv == nil && len(fd.Type.Params.List) == 2 {
						fd.Body = &ast.BlockStmt{List: []ast.Stmt{&ast.ReturnStmt{Results: []ast.Expr{
							&ast.CallExpr{Fun: &ast.SelectorExpr{X: ast.NewIdent("vshim"), Sel: ast.NewIdent("HashString")},
								Args: []ast.Expr{ast.NewIdent(fd.Type.Params.List[0].Names[0].Name), ast.NewIdent(fd.Type.Params.List[1].Names[0].Name)}}}}}}
						changed = true
					}
				}
			}
			if !changed {
				continue
			}
			// add the import and keep the original imports "used"
			var keep []string
			for _, im := range f.Imports {
				p := strings.Trim(im.Path.Value, `"`)
				if im.Name != nil {
					continue
				}
				switch p {
				case "time":
					keep = append(keep, "var _ time.Duration")
				case "sync/atomic":
					keep = append(keep, "var _ atomic.Int64")
				case "sync":
					keep = append(keep, "var _ sync.Once")
				case "runtime":
					keep = append(keep, "var _ = runtime.NumCPU")
				case "reflect":
					keep = append(keep, "var _ reflect.Kind")
				}
			}
			var sb strings.Builder
			must(printer.Fprint(&sb, fset, f))
			text := sb.String()
			// insert the vshim import right after the package clause
			idx := strings.Index(text, "\npackage ")
			if strings.HasPrefix(text, "package ") {
				idx = -1
			}
			pkgLineEnd := strings.Index(text[idx+1:], "\n") + idx + 1
			text = text[:pkgLineEnd+1] + "\nimport vshim \"" + vshimPath + "\"\n" + text[pkgLineEnd+1:]
			text += "\n" + strings.Join(keep, "\n") + "\n"
			dst := filepath.Join(outdir, strings.ReplaceAll(filepath.Join(dir, n), "/", "__"))
			must(os.WriteFile(dst, []byte(text), 0o644))
			overlay[src] = dst
		}
	}
	// harness files: <hdir>/vshim/*.go -> internal/vshim ; <hdir>/vharness/*.go -> internal/vharness ;
	// <hdir>/xsyncx/*.go -> internal/xsync (white-box additions) ; <hdir>/cachex/*.go -> package cache
	for sub, target := range map[string]string{"vshim": "internal/vshim", "vharness": "internal/vharness", "xsyncx": "internal/xsync", "cachex": "."} {
		ents, err := os.ReadDir(filepath.Join(hdir, sub))
		if err != nil {
			continue
		}
		for _, e := range ents {
			if strings.HasSuffix(e.Name(), ".go") {
				overlay[filepath.Join(repo, target, "zz_verif_"+e.Name())] = filepath.Join(hdir, sub, e.Name())
			}
		}
	}
	b, _ := json.MarshalIndent(map[string]interface{}{"Replace": overlay}, "", " ")
	must(os.WriteFile(filepath.Join(outdir, "overlay.json"), b, 0o644))
}

func must(err error) {
	if err != nil {
		fmt.Fprintln(os.Stderr, "rewrite:", err)
		os.Exit(2)
	}
}
