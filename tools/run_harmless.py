#!/usr/bin/env python3
"""run_harmless.py <patch.diff> [checks...]: apply a BEHAVIOUR-PRESERVING change to the scratch worktree, run the quick
checks, undo it.  Acceptable outcomes per check: exit 0, or VIOLATION lines that all end in no-failing-input-found (a
proof obligation / correspondence broke on a harmless rewrite: reported, but no failing input may be claimed).  A
VIOLATION line without that suffix is a FALSE ALARM of the machinery.  Prints one line per check."""
import json, os, subprocess, sys
V = os.environ.get("VERIF_DIR", "/verif")
REPO = os.environ.get("VERIF_REPO", "/repo")
patch = sys.argv[1]
checks = sys.argv[2:] or ["C%02d" % i for i in range(1, 17)]
assert subprocess.run(["git", "-C", REPO, "status", "--porcelain"], capture_output=True).stdout == b"", REPO + " not clean"
subprocess.run(["git", "-C", REPO, "apply", patch], check=True)
res = {}
try:
    for chk in checks:
        p = subprocess.run([V + "/check", chk, "--tier", "quick"], capture_output=True, text=True, cwd=V)
        viol = [l for l in p.stdout.splitlines() if l.startswith("VIOLATION")]
        det = [l.strip() for l in p.stdout.splitlines() if l.strip().startswith("detail:")]
        false_alarm = [l for l in viol if not l.rstrip().endswith("no-failing-input-found")]
        status = "ok" if p.returncode == 0 else ("broken-obligation-only" if viol and not false_alarm else "FALSE-ALARM")
        res[chk] = {"exit": p.returncode, "status": status, "violations": viol[:3], "detail": det[:2]}
        print(os.path.basename(os.path.dirname(patch)), chk, status, (det or [""])[0][:160], flush=True)
finally:
    subprocess.run(["git", "-C", REPO, "checkout", "--", "."], check=True)
    subprocess.run(["git", "-C", REPO, "clean", "-fdq"], check=True)
out = os.path.join(os.path.dirname(patch), "harmless_result.json")
json.dump(res, open(out, "w"), indent=1)
