#!/usr/bin/env python3
"""import_seed2.py <Cxx> <src-m> <dst-m>: copy a confirmed round-2 seeded change from /tmp/seed_out2 into /verif/seeded"""
import json, os, shutil, subprocess, sys
pid, sm, dm = sys.argv[1:4]
src = "%s/%s/%s" % (os.environ.get("SRCROOT", "/tmp/seed_out2"), pid, sm)
dst = "/verif/seeded/%s_%s" % (pid, dm)
os.makedirs(dst, exist_ok=True)
shutil.copy(src + "/patch.diff", dst + "/patch.diff")
shutil.copy(src + "/demo_test.go", dst + "/demo_test.go.txt")
if os.path.exists(src + "/NOTES.md"):
    shutil.copy(src + "/NOTES.md", dst + "/NOTES.md")
files = [l[6:].strip() for l in open(dst + "/patch.diff") if l.startswith("+++ b/")]
head = subprocess.run(["git", "-C", "/repo", "rev-parse", "--short", "HEAD"], capture_output=True, text=True).stdout.strip()
json.dump({"property": pid, "mutant": dm, "round": int(os.environ.get("ROUND", "2")), "files_touched": files,
           "needs_to_manifest": "see NOTES.md (written by the independent sub-agent that produced the change)",
           "confirmed_by": "SRCROOT=%s tools/verify_seed.sh" % os.environ.get("SRCROOT", "/tmp/seed_out2") + "  %s %s in a scratch worktree of /repo HEAD: patch applies; `go test -vet=off -count=1 ./...` passes with the patch; the demonstration (demo_test.go.txt, copied in as zz_demo_test.go; C14 under -race) fails with the patch and passes without it" % (pid, sm),
           "base_commit": head + " (after the five fix: commits)", "rebased": False}, open(dst + "/meta.json", "w"), indent=1)
print(dst, files)
