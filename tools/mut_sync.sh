#!/bin/bash
# mut_sync.sh [suffix]: refresh a mutation sandbox (/tmp/verif_mut<suffix> = copy of /verif, /tmp/repo_mut<suffix> = scratch
# worktree of /repo), used by tools/run_seeded.py with VERIF_DIR=/tmp/verif_mut<suffix> VERIF_REPO=/tmp/repo_mut<suffix>,
# so that /repo is never patched while other checks run.
set -e
S=$1
if [ ! -d /tmp/repo_mut$S ]; then git -C /repo worktree prune; git -C /repo worktree add -q --detach /tmp/repo_mut$S HEAD; fi
git -C /tmp/repo_mut$S checkout -q -- . ; git -C /tmp/repo_mut$S clean -fdq
rsync -a --delete --exclude .git --exclude 'build/run_*' --exclude replays /verif/ /tmp/verif_mut$S/
sed -i "s#=> /repo#=> /tmp/repo_mut$S#" /tmp/verif_mut$S/harness/keysmod/go.mod
