#!/bin/bash
# mut_sync.sh: refresh the mutation sandbox (/tmp/verif_mut = copy of /verif, /tmp/repo_mut = scratch worktree of /repo)
# used by tools/run_seeded.py with VERIF_DIR=/tmp/verif_mut VERIF_REPO=/tmp/repo_mut, so that /repo is never patched
# while other checks run.
set -e
if [ ! -d /tmp/repo_mut ]; then git -C /repo worktree prune; git -C /repo worktree add -q --detach /tmp/repo_mut HEAD; fi
git -C /tmp/repo_mut checkout -q -- . ; git -C /tmp/repo_mut clean -fdq
rsync -a --delete --exclude .git --exclude 'build/run_*' --exclude replays /verif/ /tmp/verif_mut/
sed -i 's#=> /repo#=> /tmp/repo_mut#' /tmp/verif_mut/harness/keysmod/go.mod
