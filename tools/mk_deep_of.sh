#!/bin/bash
# Derive the generic twin's proof files from the string twin's: the proof scripts are the same, only the twin, its
# model and its leaves differ.  Run after editing DeepCache.lean / DeepTrace.lean.
cd /verif/lean
sed -e 's/namespace DeepCache/namespace DeepCacheOf/; s/end DeepCache/end DeepCacheOf/; s/twinMapHanded/twinMapOfHanded/g; s/twinMap\b/twinMapOf/g; s/Model\.Cache\./Model.CacheOf./g; s/Gen\.item_/Gen.itemOf_/g; s/Gen\.expiration\b/Gen.expirationOf/g; s/xsync_map\.go/xsync_mapof.go/g; s/import CacheVerif.Model.Cache$/import CacheVerif.Model.CacheOf/; s/`Model.Cache`/`Model.CacheOf`/' CacheVerif/Proofs/DeepCache.lean > CacheVerif/Proofs/DeepCacheOf.lean
# the trace theorems of the generic twin: the model M5 is written with the leaves of xsync_map.go, so the generic leaves
# are rewritten to them (the two sets of machine-translated leaves are equal: ofx, ofxw, ofe)
sed -e 's/namespace DeepTrace/namespace DeepTraceOf/; s/\bAgrees\b/AgreesOf/g; s/end DeepTrace/end DeepTraceOf/; s/twinMapTr/twinMapOfTr/g; s/twinMap\b/twinMapOf/g; s/xsync_map\.go/xsync_mapof.go/g; s/deep_simp, \*\]/deep_simp, DeepTraceOf.ofx, DeepTraceOf.ofxw, DeepTraceOf.ofe, *]/; s/simp \[deep_simp, twinMapOfTr, twinMapOf, hide/simp [deep_simp, DeepTraceOf.ofx, DeepTraceOf.ofxw, DeepTraceOf.ofe, twinMapOfTr, twinMapOf, hide/g; s/dummy_never/dummy_never/' CacheVerif/Proofs/DeepTrace.lean > CacheVerif/Proofs/DeepTraceOf.lean
python3 - <<'P'
p='CacheVerif/Proofs/DeepTraceOf.lean'; s=open(p).read()
s=s.replace("/-- the model's side and the code's side of one call", '''theorem ofx (e now : Int) : Gen.itemOf_expired e now = Gen.item_expired e now := by
  simp [Gen.itemOf_expired, Gen.item_expired]
theorem ofxw (e now : Int) : Gen.itemOf_expiredWithNow e now = Gen.item_expiredWithNow e now := by
  simp [Gen.itemOf_expiredWithNow, Gen.item_expiredWithNow]
theorem ofe (d dflt now : Int) : Gen.expirationOf d dflt now = Gen.expiration d dflt now := by
  simp [Gen.expirationOf, Gen.expiration]

/-- the model's side and the code's side of one call''', 1)
open(p,'w').write(s)
P
