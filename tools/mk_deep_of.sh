#!/bin/bash
# Derive lean/CacheVerif/Proofs/DeepCacheOf.lean (generic twin) from DeepCache.lean: the proof scripts are the same,
# only the twin, its model and its leaves differ.  Run after editing DeepCache.lean.
cd /verif/lean
sed -e 's/namespace DeepCache/namespace DeepCacheOf/; s/end DeepCache/end DeepCacheOf/; s/twinMap/twinMapOf/g; s/Model\.Cache\./Model.CacheOf./g; s/Gen\.item_/Gen.itemOf_/g; s/Gen\.expiration\b/Gen.expirationOf/g; s/xsync_map\.go/xsync_mapof.go/g; s/import CacheVerif.Model.Cache$/import CacheVerif.Model.CacheOf/; s/`Model.Cache`/`Model.CacheOf`/' CacheVerif/Proofs/DeepCache.lean > CacheVerif/Proofs/DeepCacheOf.lean
python3 - <<'P'
p='CacheVerif/Proofs/DeepCacheOf.lean'; s=open(p).read()
a=s.index("attribute [deep_simp] deepStep"); b=s.index("/-- definitions of the hand-written model")
s=s[:a]+s[b:]
s=s.replace("import CacheVerif.Model.CacheOf\n","import CacheVerif.Model.CacheOf\nimport CacheVerif.Proofs.DeepCache\n")
s=s.replace("AMap.store AMap.load AMap.compute Model.CacheOf.getOrSetFn","Model.CacheOf.getOrSetFn").replace("\n  Model.CacheOf.getAndDelete AMap.size","\n  Model.CacheOf.getAndDelete")
open(p,'w').write(s)
P
