#!/bin/bash
# Derive lean/CacheVerif/Proofs/DeepCacheOf.lean (generic twin) from DeepCache.lean: the proof scripts are the same,
# only the twin, its model and its leaves differ.  Run after editing DeepCache.lean.
cd /verif/lean
sed -e 's/namespace DeepCache/namespace DeepCacheOf/; s/end DeepCache/end DeepCacheOf/; s/twinMap/twinMapOf/g; s/Model\.Cache\./Model.CacheOf./g; s/Gen\.item_/Gen.itemOf_/g; s/Gen\.expiration\b/Gen.expirationOf/g; s/xsync_map\.go/xsync_mapof.go/g; s/import CacheVerif.Model.Cache$/import CacheVerif.Model.CacheOf/; s/`Model.Cache`/`Model.CacheOf`/' CacheVerif/Proofs/DeepCache.lean > CacheVerif/Proofs/DeepCacheOf.lean
python3 - <<'P'
p='CacheVerif/Proofs/DeepCacheOf.lean'; s=open(p).read()
a=s.index("attribute [deep_simp] deepStep"); b=s.index("/-- definitions of the hand-written model")
s=s[:a]+s[b:]
s=s.replace("import CacheVerif.Model.CacheOf\n","import CacheVerif.Model.CacheOf\nimport CacheVerif.Proofs.DeepCache\n")
s=s.replace("AMap.store AMap.load AMap.compute Model.CacheOf.getOrSetFn","Model.CacheOf.getOrSetFn").replace("\n  Model.CacheOf.getAndDelete AMap.size","\n  Model.CacheOf.getAndDelete")
open(p,'w').write(s)
P
# the trace theorems of the generic twin: same scripts; the model M5 is written with the leaves of xsync_map.go, so the
# generic leaves are rewritten to them (Proofs.Twin: the two sets of machine-translated leaves are equal)
sed -e 's/namespace DeepTrace/namespace DeepTraceOf/; s/\bAgrees\b/AgreesOf/g; s/end DeepTrace/end DeepTraceOf/; s/twinMapTr/twinMapOfTr/g; s/twinMap\b/twinMapOf/g; s/xsync_map\.go/xsync_mapof.go/g; s/deep_simp, \*\]/deep_simp, DeepTraceOf.ofx, DeepTraceOf.ofxw, DeepTraceOf.ofe, *]/; s/simp \[deep_simp, twinMapOfTr, twinMapOf, hide/simp [deep_simp, DeepTraceOf.ofx, DeepTraceOf.ofxw, DeepTraceOf.ofe, twinMapOfTr, twinMapOf, hide/g' CacheVerif/Proofs/DeepTrace.lean > CacheVerif/Proofs/DeepTraceOf.lean
python3 - <<'P'
p='CacheVerif/Proofs/DeepTraceOf.lean'; s=open(p).read()
s=s.replace("import CacheVerif.Proofs.DeepCache\n","import CacheVerif.Proofs.DeepCacheOf\nimport CacheVerif.Proofs.DeepTrace\n")
import re
s=re.sub(r"-- <shared>\n.*?-- </shared>\n", "", s, flags=re.S)
s=s.replace("/-- the model's side and the code's side of one call", '''open DeepTrace

theorem ofx (e now : Int) : Gen.itemOf_expired e now = Gen.item_expired e now := by
  simp [Gen.itemOf_expired, Gen.item_expired]
theorem ofxw (e now : Int) : Gen.itemOf_expiredWithNow e now = Gen.item_expiredWithNow e now := by
  simp [Gen.itemOf_expiredWithNow, Gen.item_expiredWithNow]
theorem ofe (d dflt now : Int) : Gen.expirationOf d dflt now = Gen.expiration d dflt now := by
  simp [Gen.expirationOf, Gen.expiration]

/-- the model's side and the code's side of one call''', 1)
open(p,'w').write(s)
P
