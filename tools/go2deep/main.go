// go2deep: print the go/ast of every method of *xsyncMap (xsync_map.go) and *xsyncMapOf[K,V] (xsync_mapof.go)
// in the CURRENT working tree of /repo as terms of the Lean types Deep.Expr / Deep.Stmt / Deep.FuncDecl
// (CacheVerif/Deep/Syntax.lean).  The printer interprets nothing: one Lean constructor per Go syntactic form of
// the subset the two files use.  Anything outside the subset makes it fail (exit 2) - that is a broken
// obligation of the checks, not something to be papered over.
//
// Usage: go2deep <repo> <out.lean>
package main

import (
	"fmt"
	"go/ast"
	"go/parser"
	"go/token"
	"os"
	"path/filepath"
	"strconv"
	"strings"
)

func die(f string, a ...interface{}) { fmt.Fprintf(os.Stderr, "go2deep: "+f+"\n", a...); os.Exit(2) }

var fset = token.NewFileSet()

func pos(n ast.Node) string { return fset.Position(n.Pos()).String() }

func typeString(e ast.Expr) string {
	switch t := e.(type) {
	case *ast.Ident:
		return t.Name
	case *ast.SelectorExpr:
		return typeString(t.X) + "." + t.Sel.Name
	case *ast.InterfaceType:
		if t.Methods == nil || len(t.Methods.List) == 0 {
			return "interface{}"
		}
	case *ast.ArrayType:
		if t.Len == nil {
			return "[]" + typeString(t.Elt)
		}
	case *ast.MapType:
		return "map[" + typeString(t.Key) + "]" + typeString(t.Value)
	case *ast.IndexExpr:
		return typeString(t.X) + "[" + typeString(t.Index) + "]"
	case *ast.IndexListExpr:
		var xs []string
		for _, i := range t.Indices {
			xs = append(xs, typeString(i))
		}
		return typeString(t.X) + "[" + strings.Join(xs, ", ") + "]"
	case *ast.StarExpr:
		return "*" + typeString(t.X)
	case *ast.FuncType:
		return "func"
	}
	die("%s: unsupported type expression %T", pos(e), e)
	return ""
}

var tyNames = map[string]string{
	"interface{}": ".iface", "any": ".iface", "V": ".userV", "string": ".key", "K": ".key",
	"item": ".item", "itemOf[V]": ".itemOf", "bool": ".bool", "int": ".int", "int64": ".int",
	"time.Duration": ".int", "time.Time": ".time", "[]kv": ".kvs", "[]kvOf[K, V]": ".kvs",
	"map[string]interface{}": ".gomap", "map[K]V": ".gomap",
	"EvictedCallback": ".ecb", "EvictedCallbackOf[K, V]": ".ecb",
}

func ty(e ast.Expr) string {
	s := typeString(e)
	if t, ok := tyNames[s]; ok {
		return t
	}
	die("%s: type %q is outside the translated subset", pos(e), s)
	return ""
}

var itemsOps = map[string]bool{"Load": true, "Store": true, "LoadOrStore": true, "LoadAndStore": true, "LoadOrCompute": true,
	"Compute": true, "LoadAndDelete": true, "Delete": true, "Range": true, "Clear": true, "Size": true}

var binOps = map[token.Token]string{token.GTR: ".gt", token.LSS: ".lt", token.GEQ: ".ge", token.LEQ: ".le", token.EQL: ".eq",
	token.NEQ: ".ne", token.LAND: ".land", token.LOR: ".lor", token.ADD: ".add", token.SUB: ".sub"}

// package-level constants of package cache that the method bodies mention (their values come from Gen, i.e. from
// go2lean's translation of the same working tree)
var consts = map[string]string{"DefaultExpiration": "Gen.DefaultExpiration", "NoExpiration": "Gen.NoExpiration"}

type tr struct {
	recv   string            // receiver name
	scopes []map[string]bool // lexical scopes of local names (to decide whether := declares or re-uses)
}

func (t *tr) push()           { t.scopes = append(t.scopes, map[string]bool{}) }
func (t *tr) pop()            { t.scopes = t.scopes[:len(t.scopes)-1] }
func (t *tr) declare(x string) { t.scopes[len(t.scopes)-1][x] = true }
func (t *tr) inTop(x string) bool {
	return t.scopes[len(t.scopes)-1][x]
}
func (t *tr) isLocal(x string) bool {
	for _, s := range t.scopes {
		if s[x] {
			return true
		}
	}
	return false
}

func str(s string) string { return strconv.Quote(s) }

func list(xs []string) string { return "[" + strings.Join(xs, ", ") + "]" }

func (t *tr) exprs(es []ast.Expr) string {
	var xs []string
	for _, e := range es {
		xs = append(xs, t.expr(e))
	}
	return list(xs)
}

// isRecvField: c.<field>
func (t *tr) isRecvField(e ast.Expr) (string, bool) {
	if s, ok := e.(*ast.SelectorExpr); ok {
		if id, ok := s.X.(*ast.Ident); ok && id.Name == t.recv && !t.isLocalShadow(id.Name) {
			return s.Sel.Name, true
		}
	}
	return "", false
}

func (t *tr) isLocalShadow(string) bool { return false }

func (t *tr) expr(e ast.Expr) string {
	switch x := e.(type) {
	case *ast.ParenExpr:
		return t.expr(x.X)
	case *ast.Ident:
		switch x.Name {
		case "nil":
			return ".nil"
		case "true":
			return "(.bool true)"
		case "false":
			return "(.bool false)"
		}
		if t.isLocal(x.Name) {
			return "(.var " + str(x.Name) + ")"
		}
		if c, ok := consts[x.Name]; ok {
			return "(.int " + c + ")"
		}
		die("%s: identifier %q is neither a local variable nor a known constant", pos(e), x.Name)
	case *ast.BasicLit:
		if x.Kind == token.INT {
			return "(.int " + x.Value + ")"
		}
		die("%s: literal %s outside the subset", pos(e), x.Value)
	case *ast.UnaryExpr:
		if x.Op == token.NOT {
			return "(.not " + t.expr(x.X) + ")"
		}
		die("%s: unary operator %s outside the subset", pos(e), x.Op)
	case *ast.BinaryExpr:
		op, ok := binOps[x.Op]
		if !ok {
			die("%s: binary operator %s outside the subset", pos(e), x.Op)
		}
		return "(.bin " + op + " " + t.expr(x.X) + " " + t.expr(x.Y) + ")"
	case *ast.TypeAssertExpr:
		return "(.assertT " + t.expr(x.X) + " " + ty(x.Type) + ")"
	case *ast.SelectorExpr:
		if _, ok := t.isRecvField(x); ok {
			die("%s: bare use of receiver field %s", pos(e), x.Sel.Name)
		}
		return "(.sel " + t.expr(x.X) + " " + str(x.Sel.Name) + ")"
	case *ast.IndexExpr:
		return "(.index " + t.expr(x.X) + " " + t.expr(x.Index) + ")"
	case *ast.CompositeLit:
		tn := typeString(x.Type)
		switch tn {
		case "time.Time":
			if len(x.Elts) == 0 {
				return "(.zero .time)"
			}
		case "kv", "kvOf[K, V]":
			if len(x.Elts) == 2 {
				if _, keyed := x.Elts[0].(*ast.KeyValueExpr); !keyed {
					return "(.mkKv " + t.expr(x.Elts[0]) + " " + t.expr(x.Elts[1]) + ")"
				}
			}
		case "item", "itemOf[V]":
			var fs []string
			for _, el := range x.Elts {
				kvx, ok := el.(*ast.KeyValueExpr)
				if !ok {
					die("%s: positional %s literal outside the subset", pos(e), tn)
				}
				fs = append(fs, "("+str(kvx.Key.(*ast.Ident).Name)+", "+t.expr(kvx.Value)+")")
			}
			return "(.lit " + ty(x.Type) + " " + list(fs) + ")"
		}
		die("%s: composite literal of type %s outside the subset", pos(e), tn)
	case *ast.FuncLit:
		return "(.func " + t.funcDecl(x.Type, x.Body) + ")"
	case *ast.CallExpr:
		return t.call(x)
	}
	die("%s: expression %T outside the subset", pos(e), e)
	return ""
}

func (t *tr) call(x *ast.CallExpr) string {
	if x.Ellipsis.IsValid() {
		die("%s: variadic call outside the subset", pos(x))
	}
	switch f := x.Fun.(type) {
	case *ast.Ident:
		switch f.Name {
		case "append":
			if len(x.Args) == 2 && !t.isLocal("append") {
				return "(.append " + t.expr(x.Args[0]) + " " + t.expr(x.Args[1]) + ")"
			}
		case "make":
			if len(x.Args) == 2 && !t.isLocal("make") {
				if _, ok := x.Args[0].(*ast.MapType); ok {
					return "(.makeMap " + t.expr(x.Args[1]) + ")"
				}
			}
		}
		if t.isLocal(f.Name) {
			return "(.callVar " + str(f.Name) + " " + t.exprs(x.Args) + ")"
		}
		die("%s: call of %s outside the subset", pos(x), f.Name)
	case *ast.SelectorExpr:
		m := f.Sel.Name
		// c.items.Op(args) / c.<setting>.Load() / c.<setting>.Store(v)
		if inner, ok := f.X.(*ast.SelectorExpr); ok {
			if fld, ok := t.isRecvField(inner); ok {
				if fld == "items" {
					if !itemsOps[m] {
						die("%s: c.items.%s is not a method of the Map interface", pos(x), m)
					}
					return "(.items ." + m + " " + t.exprs(x.Args) + ")"
				}
				if m == "Load" && len(x.Args) == 0 {
					return "(.settingLoad " + str(fld) + ")"
				}
				if m == "Store" && len(x.Args) == 1 {
					return "(.settingStore " + str(fld) + " " + t.expr(x.Args[0]) + ")"
				}
				die("%s: c.%s.%s outside the subset", pos(x), fld, m)
			}
		}
		if id, ok := f.X.(*ast.Ident); ok {
			if id.Name == t.recv && !t.isLocal(id.Name) {
				return "(.self " + str(m) + " " + t.exprs(x.Args) + ")"
			}
			if id.Name == "time" && !t.isLocal("time") {
				switch {
				case m == "Now" && len(x.Args) == 0:
					return ".timeNow"
				case m == "Unix" && len(x.Args) == 2:
					return "(.timeUnix " + t.expr(x.Args[0]) + " " + t.expr(x.Args[1]) + ")"
				case m == "Until" && len(x.Args) == 1:
					return "(.timeUntil " + t.expr(x.Args[0]) + ")"
				}
				die("%s: time.%s outside the subset", pos(x), m)
			}
		}
		switch {
		case (m == "expired" || m == "expiredWithNow"):
			return "(.itemMeth " + str(m) + " " + t.expr(f.X) + " " + t.exprs(x.Args) + ")"
		case m == "UnixNano" && len(x.Args) == 0:
			return "(.unixNano " + t.expr(f.X) + ")"
		case m == "Add" && len(x.Args) == 1:
			return "(.timeAdd " + t.expr(f.X) + " " + t.expr(x.Args[0]) + ")"
		}
		die("%s: method call .%s outside the subset", pos(x), m)
	}
	die("%s: call outside the subset", pos(x))
	return ""
}

func (t *tr) funcDecl(ft *ast.FuncType, body *ast.BlockStmt) string {
	t.push()
	defer t.pop()
	var params, results []string
	if ft.Params != nil {
		for _, p := range ft.Params.List {
			if len(p.Names) == 0 {
				die("%s: unnamed parameter", pos(p))
			}
			for _, n := range p.Names {
				t.declare(n.Name)
				params = append(params, str(n.Name))
			}
		}
	}
	if ft.Results != nil {
		for _, r := range ft.Results.List {
			for _, n := range r.Names {
				t.declare(n.Name)
				results = append(results, "("+str(n.Name)+", "+ty(r.Type)+")")
			}
		}
	}
	return "(.mk " + list(params) + " " + list(results) + " " + t.block(body.List, false) + ")"
}

func (t *tr) block(ss []ast.Stmt, scope bool) string {
	if scope {
		t.push()
		defer t.pop()
	}
	var xs []string
	for _, s := range ss {
		xs = append(xs, t.stmt(s)...)
	}
	return list(xs)
}

func (t *tr) stmt(s ast.Stmt) []string {
	switch x := s.(type) {
	case *ast.DeclStmt:
		gd, ok := x.Decl.(*ast.GenDecl)
		if !ok || gd.Tok != token.VAR {
			die("%s: declaration outside the subset", pos(s))
		}
		var out []string
		for _, sp := range gd.Specs {
			vs := sp.(*ast.ValueSpec)
			if len(vs.Values) != 0 || vs.Type == nil {
				die("%s: var with initialiser outside the subset", pos(s))
			}
			for _, n := range vs.Names {
				t.declare(n.Name)
				out = append(out, "(.varDecl "+str(n.Name)+" "+ty(vs.Type)+")")
			}
		}
		return out
	case *ast.AssignStmt:
		if len(x.Rhs) != 1 {
			die("%s: assignment with %d right-hand sides outside the subset", pos(s), len(x.Rhs))
		}
		rhs := t.expr(x.Rhs[0])
		switch x.Tok {
		case token.DEFINE:
			var lhs []string
			for _, l := range x.Lhs {
				id, ok := l.(*ast.Ident)
				if !ok {
					die("%s: := with a non-identifier", pos(s))
				}
				isNew := id.Name == "_" || !t.inTop(id.Name)
				lhs = append(lhs, "("+str(id.Name)+", "+strconv.FormatBool(isNew)+")")
			}
			for _, l := range x.Lhs {
				if n := l.(*ast.Ident).Name; n != "_" {
					t.declare(n)
				}
			}
			return []string{"(.define " + list(lhs) + " " + rhs + ")"}
		case token.ASSIGN:
			var lhs []string
			for _, l := range x.Lhs {
				if id, ok := l.(*ast.Ident); ok && id.Name == "_" {
					lhs = append(lhs, "(.var \"_\")")
					continue
				}
				lhs = append(lhs, t.expr(l))
			}
			return []string{"(.assign " + list(lhs) + " " + rhs + ")"}
		}
		die("%s: assignment operator %s outside the subset", pos(s), x.Tok)
	case *ast.IfStmt:
		t.push()
		defer t.pop()
		init := "[]"
		if x.Init != nil {
			init = list(t.stmt(x.Init))
		}
		cond := t.expr(x.Cond)
		thn := t.block(x.Body.List, true)
		els := "[]"
		if x.Else != nil {
			switch e := x.Else.(type) {
			case *ast.BlockStmt:
				els = t.block(e.List, true)
			case *ast.IfStmt:
				els = list(t.stmt(e))
			}
		}
		return []string{"(.ifThen " + init + " " + cond + " " + thn + " " + els + ")"}
	case *ast.ReturnStmt:
		return []string{"(.ret " + t.exprs(x.Results) + ")"}
	case *ast.ExprStmt:
		return []string{"(.exprS " + t.expr(x.X) + ")"}
	case *ast.RangeStmt:
		if x.Tok != token.DEFINE || x.Value == nil {
			die("%s: range form outside the subset", pos(s))
		}
		if k, ok := x.Key.(*ast.Ident); !ok || k.Name != "_" {
			die("%s: range with an index variable outside the subset", pos(s))
		}
		xs := t.expr(x.X)
		t.push()
		defer t.pop()
		v := x.Value.(*ast.Ident).Name
		t.declare(v)
		return []string{"(.rangeOver " + str(v) + " " + xs + " " + t.block(x.Body.List, true) + ")"}
	case *ast.BlockStmt:
		die("%s: bare block outside the subset", pos(s))
	}
	die("%s: statement %T outside the subset", pos(s), s)
	return nil
}

func recvTypeName(fd *ast.FuncDecl) (string, string) {
	if fd.Recv == nil || len(fd.Recv.List) != 1 || len(fd.Recv.List[0].Names) != 1 {
		return "", ""
	}
	te := fd.Recv.List[0].Type
	if st, ok := te.(*ast.StarExpr); ok {
		te = st.X
	}
	switch b := te.(type) {
	case *ast.Ident:
		return b.Name, fd.Recv.List[0].Names[0].Name
	case *ast.IndexListExpr:
		return typeString(b.X), fd.Recv.List[0].Names[0].Name
	case *ast.IndexExpr:
		return typeString(b.X), fd.Recv.List[0].Names[0].Name
	}
	return "", ""
}

// ---------------------------------------------------------------------------------------------------------------------
// the goroutine a constructor starts (the janitor) and the finalizer it registers

// captured: identifiers used in the function literal that are declared in the enclosing function (in order of first use)
func captured(fl *ast.FuncLit, outer map[string]bool) []string {
	var out []string
	seen := map[string]bool{}
	own := map[string]bool{}
	ast.Inspect(fl.Body, func(n ast.Node) bool {
		switch x := n.(type) {
		case *ast.AssignStmt:
			if x.Tok == token.DEFINE {
				for _, l := range x.Lhs {
					if id, ok := l.(*ast.Ident); ok {
						own[id.Name] = true
					}
				}
			}
		case *ast.SelectorExpr:
			// only the operand can be a variable
			ast.Inspect(x.X, func(m ast.Node) bool {
				if id, ok := m.(*ast.Ident); ok && outer[id.Name] && !own[id.Name] && !seen[id.Name] {
					seen[id.Name] = true
					out = append(out, id.Name)
				}
				return true
			})
			return false
		case *ast.Ident:
			if outer[x.Name] && !own[x.Name] && !seen[x.Name] {
				seen[x.Name] = true
				out = append(out, x.Name)
			}
		}
		return true
	})
	return out
}

// goLoop prints `if guard { go func() { x := time.NewTicker(iv); defer x.Stop(); for { select { case <-ch: body … } } }() }`
func goLoop(ifs *ast.IfStmt, gs *ast.GoStmt, obj string, outer map[string]bool) string {
	fl := gs.Call.Fun.(*ast.FuncLit)
	if len(gs.Call.Args) != 0 || (fl.Type.Params != nil && len(fl.Type.Params.List) != 0) {
		die("%s: goroutine with arguments outside the subset", pos(gs))
	}
	t := &tr{recv: obj}
	t.push()
	for n := range outer {
		if n != obj {
			t.declare(n)
		}
	}
	if ifs.Init != nil || ifs.Else != nil {
		die("%s: guard of the goroutine outside the subset", pos(ifs))
	}
	guard := t.expr(ifs.Cond)
	b := fl.Body.List
	if len(b) != 3 {
		die("%s: goroutine body outside the subset (want: ticker := time.NewTicker(d); defer ticker.Stop(); for { select {…} })", pos(fl))
	}
	as, ok := b[0].(*ast.AssignStmt)
	if !ok || as.Tok != token.DEFINE || len(as.Lhs) != 1 || len(as.Rhs) != 1 {
		die("%s: goroutine statement 1 outside the subset", pos(b[0]))
	}
	tick := as.Lhs[0].(*ast.Ident).Name
	call, ok := as.Rhs[0].(*ast.CallExpr)
	if !ok || typeString(call.Fun) != "time.NewTicker" || len(call.Args) != 1 {
		die("%s: ticker construction outside the subset (time.NewTicker only)", pos(b[0]))
	}
	interval := t.expr(call.Args[0])
	ds, ok := b[1].(*ast.DeferStmt)
	if !ok || typeString(ds.Call.Fun) != tick+".Stop" || len(ds.Call.Args) != 0 {
		die("%s: goroutine statement 2 outside the subset (defer %s.Stop())", pos(b[1]), tick)
	}
	fs, ok := b[2].(*ast.ForStmt)
	if !ok || fs.Init != nil || fs.Cond != nil || fs.Post != nil || len(fs.Body.List) != 1 {
		die("%s: goroutine statement 3 outside the subset (for { select {…} })", pos(b[2]))
	}
	sel, ok := fs.Body.List[0].(*ast.SelectStmt)
	if !ok {
		die("%s: loop body outside the subset (select only)", pos(fs.Body))
	}
	t.declare(tick)
	var cases []string
	for _, cc := range sel.Body.List {
		c := cc.(*ast.CommClause)
		es, ok := c.Comm.(*ast.ExprStmt)
		if !ok {
			die("%s: select clause outside the subset (plain receive only)", pos(c))
		}
		ue, ok := es.X.(*ast.UnaryExpr)
		if !ok || ue.Op != token.ARROW {
			die("%s: select clause outside the subset (plain receive only)", pos(c))
		}
		var ch string
		if f, ok := t.isRecvField(ue.X); ok {
			ch = "(.field " + str(f) + ")"
		} else if typeString(ue.X) == tick+".C" {
			ch = "(.tickerC " + str(tick) + ")"
		} else {
			die("%s: channel %s outside the subset", pos(c), typeString(ue.X))
		}
		cases = append(cases, "("+ch+", "+t.block(c.Body, true)+")")
	}
	var caps []string
	for _, c := range captured(fl, outer) {
		caps = append(caps, str(c))
	}
	return "{ guard := " + guard + ", ticker := " + str(tick) + ", interval := " + interval + ", deferStop := true,\n    cases := " + list(cases) + ",\n    captures := " + list(caps) + " }"
}

// finalizer prints `runtime.SetFinalizer(x, func(m *T) { close(m.f) })` as (x, f)
func finalizer(call *ast.CallExpr) string {
	if len(call.Args) != 2 {
		die("%s: SetFinalizer outside the subset", pos(call))
	}
	target, ok := call.Args[0].(*ast.Ident)
	fl, ok2 := call.Args[1].(*ast.FuncLit)
	if !ok || !ok2 || len(fl.Type.Params.List) != 1 || len(fl.Type.Params.List[0].Names) != 1 || len(fl.Body.List) != 1 {
		die("%s: SetFinalizer outside the subset", pos(call))
	}
	pn := fl.Type.Params.List[0].Names[0].Name
	es, ok := fl.Body.List[0].(*ast.ExprStmt)
	if !ok {
		die("%s: finalizer body outside the subset (close(m.f))", pos(fl))
	}
	cl, ok := es.X.(*ast.CallExpr)
	if !ok || typeString(cl.Fun) != "close" || len(cl.Args) != 1 {
		die("%s: finalizer body outside the subset (close(m.f))", pos(fl))
	}
	se, ok := cl.Args[0].(*ast.SelectorExpr)
	if !ok || typeString(se.X) != pn {
		die("%s: finalizer body outside the subset (close(m.f))", pos(fl))
	}
	return "{ target := " + str(target.Name) + ", closes := " + str(se.Sel.Name) + " }"
}

// ctorGoroutine: the constructor `name` of `file`: its goroutine and its finalizer
func ctorGoroutine(b *strings.Builder, f *ast.File, file, name, prefix string) {
	for _, d := range f.Decls {
		fd, ok := d.(*ast.FuncDecl)
		if !ok || fd.Recv != nil || fd.Name.Name != name {
			continue
		}
		outer := map[string]bool{}
		if fd.Type.Params != nil {
			for _, p := range fd.Type.Params.List {
				for _, n := range p.Names {
					outer[n.Name] = true
				}
			}
		}
		obj, wrapper := "", ""
		var loops, fins []string
		for _, s := range fd.Body.List {
			switch x := s.(type) {
			case *ast.AssignStmt:
				if x.Tok == token.DEFINE {
					for _, l := range x.Lhs {
						if id, ok := l.(*ast.Ident); ok {
							outer[id.Name] = true
							// the object is the first variable defined as &T{…}; the wrapper the second
							if ue, ok := x.Rhs[0].(*ast.UnaryExpr); ok && ue.Op == token.AND {
								if obj == "" {
									obj = id.Name
								} else if wrapper == "" {
									wrapper = id.Name
								}
							}
						}
					}
				}
			case *ast.IfStmt:
				for _, bs := range x.Body.List {
					if gs, ok := bs.(*ast.GoStmt); ok {
						if _, ok := gs.Call.Fun.(*ast.FuncLit); !ok || len(x.Body.List) != 1 || obj == "" {
							die("%s: go statement outside the subset", pos(gs))
						}
						loops = append(loops, goLoop(x, gs, obj, outer))
					}
				}
			case *ast.GoStmt:
				die("%s: unguarded go statement outside the subset", pos(x))
			case *ast.ExprStmt:
				if c, ok := x.X.(*ast.CallExpr); ok && typeString(c.Fun) == "runtime.SetFinalizer" {
					fins = append(fins, finalizer(c))
				}
			}
		}
		if len(loops) != 1 || len(fins) != 1 {
			die("%s: %s: want exactly one guarded goroutine and one finalizer, found %d and %d", file, name, len(loops), len(fins))
		}
		fmt.Fprintf(b, "/-- the goroutine `%s` starts (%s): the janitor -/\ndef %s_janitor : GoLoop :=\n  %s\n\n", name, file, prefix, loops[0])
		fmt.Fprintf(b, "/-- the finalizer `%s` registers -/\ndef %s_finalizer : Finalizer :=\n  %s\n\n", name, prefix, fins[0])
		return
	}
	die("%s: constructor %s not found", file, name)
}

// ctorMain: `go2deep -ctor <repo> <out.lean>` prints the goroutine and the finalizer of the two constructors
func ctorMain(repo, out string) {
	var b strings.Builder
	b.WriteString("-- GENERATED by /verif/tools/go2deep -ctor from the working tree of /repo. Do not edit.\n")
	b.WriteString("import CacheVerif.Deep.Syntax\nimport CacheVerif.Generated.Leaf\nnamespace Gen.Deep\nopen _root_.Deep\n\n")
	for _, spec := range []struct{ file, recvType string }{{"xsync_map.go", "xsyncMap"}, {"xsync_mapof.go", "xsyncMapOf"}} {
		f, err := parser.ParseFile(fset, filepath.Join(repo, spec.file), nil, 0)
		if err != nil {
			die("%v", err)
		}
		ctorGoroutine(&b, f, spec.file, "new"+strings.ToUpper(spec.recvType[:1])+spec.recvType[1:], spec.recvType)
	}
	b.WriteString("end Gen.Deep\n")
	if old, err := os.ReadFile(out); err == nil && string(old) == b.String() {
		return
	}
	if err := os.WriteFile(out, []byte(b.String()), 0o644); err != nil {
		die("%v", err)
	}
}

// ---------------------------------------------------------------------------------------------------------------------
// `go2deep -wrappers`: the writing methods of Map / MapOf are one call of doCompute each; print what they pass

func boolLit(e ast.Expr) (bool, bool) {
	if id, ok := e.(*ast.Ident); ok {
		switch id.Name {
		case "true":
			return true, true
		case "false":
			return false, true
		}
	}
	return false, false
}

// wrapper prints `[return] m.doCompute(key, fn, loadIfExists, computeOnly)` as a Wrapper
func wrapper(fd *ast.FuncDecl, recv string) string {
	if len(fd.Body.List) != 1 {
		die("%s: %s: body outside the subset (one call of doCompute)", pos(fd), fd.Name.Name)
	}
	var call *ast.CallExpr
	returns := false
	switch x := fd.Body.List[0].(type) {
	case *ast.ExprStmt:
		call, _ = x.X.(*ast.CallExpr)
	case *ast.ReturnStmt:
		if len(x.Results) == 1 {
			call, _ = x.Results[0].(*ast.CallExpr)
			returns = true
		}
	}
	if call == nil || typeString(call.Fun) != recv+".doCompute" || len(call.Args) != 4 {
		die("%s: %s: body outside the subset (one call of %s.doCompute with four arguments)", pos(fd), fd.Name.Name, recv)
	}
	// parameters of the wrapper: the key first
	var params []string
	for _, p := range fd.Type.Params.List {
		for _, n := range p.Names {
			params = append(params, n.Name)
		}
	}
	if len(params) == 0 || typeString(call.Args[0]) != params[0] {
		die("%s: %s: the first argument of doCompute is not the key parameter", pos(fd), fd.Name.Name)
	}
	lie, ok1 := boolLit(call.Args[2])
	co, ok2 := boolLit(call.Args[3])
	if !ok1 || !ok2 {
		die("%s: %s: flags of doCompute are not literals", pos(fd), fd.Name.Name)
	}
	shape := ""
	switch f := call.Args[1].(type) {
	case *ast.Ident:
		if len(params) == 2 && f.Name == params[1] {
			shape = ".pass"
		}
	case *ast.FuncLit:
		var own []string
		for _, p := range f.Type.Params.List {
			for _, n := range p.Names {
				own = append(own, n.Name)
			}
		}
		if len(f.Body.List) == 1 {
			if rs, ok := f.Body.List[0].(*ast.ReturnStmt); ok && len(rs.Results) == 2 {
				if del, ok := boolLit(rs.Results[1]); ok {
					d := fmt.Sprintf("%v", del)
					switch r := rs.Results[0].(type) {
					case *ast.Ident:
						if len(own) > 0 && r.Name == own[0] {
							shape = "(.old " + d + ")"
						} else if len(params) == 2 && r.Name == params[1] && !contains(own, r.Name) {
							shape = "(.arg " + d + ")"
						}
					case *ast.CallExpr:
						if len(r.Args) == 0 && len(params) == 2 && typeString(r.Fun) == params[1] && !contains(own, params[1]) {
							shape = "(.callArg " + d + ")"
						}
					}
				}
			}
		}
	}
	if shape == "" {
		die("%s: %s: function argument of doCompute outside the subset", pos(fd), fd.Name.Name)
	}
	return fmt.Sprintf("{ fn := %s, lie := %v, co := %v, returns := %v }", shape, lie, co, returns)
}

func contains(xs []string, x string) bool {
	for _, y := range xs {
		if x == y {
			return true
		}
	}
	return false
}

func wrappersMain(repo, out string) {
	var b strings.Builder
	b.WriteString("-- GENERATED by /verif/tools/go2deep -wrappers from the working tree of /repo. Do not edit.\n")
	b.WriteString("import CacheVerif.Deep.Wrapper\nnamespace Gen.Deep\nopen _root_.Deep\n\n")
	want := []string{"Store", "LoadOrStore", "LoadAndStore", "LoadOrCompute", "Compute", "LoadAndDelete", "Delete"}
	for _, spec := range []struct{ file, recvType string }{{"internal/xsync/map.go", "Map"}, {"internal/xsync/mapof.go", "MapOf"}} {
		f, err := parser.ParseFile(fset, filepath.Join(repo, spec.file), nil, 0)
		if err != nil {
			die("%v", err)
		}
		found := map[string]string{}
		for _, d := range f.Decls {
			fd, ok := d.(*ast.FuncDecl)
			if !ok {
				continue
			}
			rt, rn := recvTypeName(fd)
			if rt != spec.recvType || !contains(want, fd.Name.Name) {
				continue
			}
			found[fd.Name.Name] = wrapper(fd, rn)
		}
		for _, n := range want {
			w, ok := found[n]
			if !ok {
				die("%s: method %s.%s not found", spec.file, spec.recvType, n)
			}
			fmt.Fprintf(&b, "/-- `%s.%s` (%s) -/\ndef %s_%s : Wrapper := %s\n", spec.recvType, n, spec.file, spec.recvType, n, w)
		}
		b.WriteString("\n")
	}
	b.WriteString("end Gen.Deep\n")
	if old, err := os.ReadFile(out); err == nil && string(old) == b.String() {
		return
	}
	if err := os.WriteFile(out, []byte(b.String()), 0o644); err != nil {
		die("%v", err)
	}
}

func main() {
	if len(os.Args) == 4 && os.Args[1] == "-wrappers" {
		wrappersMain(os.Args[2], os.Args[3])
		return
	}
	if len(os.Args) == 4 && os.Args[1] == "-table" {
		tableMain(os.Args[2], os.Args[3])
		return
	}
	if len(os.Args) == 4 && os.Args[1] == "-ctor" {
		ctorMain(os.Args[2], os.Args[3])
		return
	}
	if len(os.Args) != 3 {
		die("usage: go2deep [-ctor] <repo> <out.lean>")
	}
	repo, out := os.Args[1], os.Args[2]
	var b strings.Builder
	var simpNames []string
	b.WriteString("-- GENERATED by /verif/tools/go2deep from the working tree of /repo. Do not edit.\n")
	b.WriteString("import CacheVerif.Deep.Syntax\nimport CacheVerif.Generated.Leaf\nset_option maxRecDepth 4096\nnamespace Gen.Deep\nopen _root_.Deep\n\n")
	for _, spec := range []struct{ file, recvType string }{{"xsync_map.go", "xsyncMap"}, {"xsync_mapof.go", "xsyncMapOf"}} {
		f, err := parser.ParseFile(fset, filepath.Join(repo, spec.file), nil, 0)
		if err != nil {
			die("%v", err)
		}
		var names []string
		for _, d := range f.Decls {
			fd, ok := d.(*ast.FuncDecl)
			if !ok {
				continue
			}
			rt, rn := recvTypeName(fd)
			if rt != spec.recvType {
				continue
			}
			t := &tr{recv: rn}
			t.push()
			decl := t.funcDecl(fd.Type, fd.Body)
			fmt.Fprintf(&b, "/-- `%s.%s` (%s) -/\ndef %s_%s : FuncDecl :=\n  %s\n\n", spec.recvType, fd.Name.Name, spec.file, spec.recvType, fd.Name.Name, decl[1:len(decl)-1])
			names = append(names, fd.Name.Name)
		}
		if len(names) == 0 {
			die("%s: no method of %s found", spec.file, spec.recvType)
		}
		fmt.Fprintf(&b, "/-- method table of `%s` -/\ndef %s : List (String × FuncDecl) := [\n", spec.recvType, spec.recvType)
		for i, n := range names {
			sep := ","
			if i == len(names)-1 {
				sep = ""
			}
			fmt.Fprintf(&b, "  (%s, %s_%s)%s\n", str(n), spec.recvType, n, sep)
		}
		b.WriteString("]\n\n")
		for _, n := range names {
			simpNames = append(simpNames, fmt.Sprintf("Gen.Deep.%s_lookup_%s Gen.Deep.%s_%s", spec.recvType, n, spec.recvType, n))
			fmt.Fprintf(&b, "theorem %s_lookup_%s : List.lookup %s %s = some %s_%s := by rfl\n", spec.recvType, n, str(n), spec.recvType, spec.recvType, n)
		}
		b.WriteString("\n")
	}
	b.WriteString("end Gen.Deep\n")
	// companion file: the generated definitions and lookup lemmas join the simp set used for symbolic evaluation
	simpOut := strings.TrimSuffix(out, ".lean") + "Simp.lean"
	sb := "-- GENERATED by /verif/tools/go2deep. Do not edit.\nimport CacheVerif.Generated.Deep\nimport CacheVerif.Deep.SimpAttr\n\nattribute [deep_simp]\n  " + strings.Join(simpNames, "\n  ") + "\n"
	if old, err := os.ReadFile(simpOut); err != nil || string(old) != sb {
		if err := os.WriteFile(simpOut, []byte(sb), 0o644); err != nil {
			die("%v", err)
		}
	}
	if err := os.MkdirAll(filepath.Dir(out), 0o755); err != nil {
		die("%v", err)
	}
	tmp := out + ".tmp"
	if err := os.WriteFile(tmp, []byte(b.String()), 0o644); err != nil {
		die("%v", err)
	}
	// do not touch the file when nothing changed (keeps lake's incremental build)
	if old, err := os.ReadFile(out); err == nil && string(old) == b.String() {
		os.Remove(tmp)
		return
	}
	if err := os.Rename(tmp, out); err != nil {
		die("%v", err)
	}
}
