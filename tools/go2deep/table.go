// go2deep -table: print the go/ast of the lookup path of the tables (internal/xsync) - `(*MapOf[K,V]).Load` - in the
// CURRENT working tree as terms of Deep.T.Expr / Deep.T.Stmt / Deep.T.FuncDecl (CacheVerif/Deep/TSyntax.lean).  As in
// the other modes the printer interprets nothing: one constructor per Go syntactic form; identifiers are resolved to
// local variables, package-level leaf functions / constants (whose meaning comes from go2lean's translation of the same
// tree), the receiver's fields; anything else makes it fail (exit 2), which is a broken obligation of the checks.
package main

import (
	"fmt"
	"go/ast"
	"go/parser"
	"go/token"
	"os"
	"path/filepath"
	"strings"
)

// leaf functions of internal/xsync the lookup path may call (translated by go2lean: Gen.*)
var tLeaf = map[string]int{"h1": 1, "h2": 1, "broadcast": 1, "markZeroBytes": 1, "firstMarkedByteIndex": 1,
	"topHashMatch": 3, "derefKey": 1, "derefValue": 1, "setByte": 3}

// package-level constants the lookup path may mention
var tConst = map[string]bool{"metaMask": true, "entriesPerMapOfBucket": true, "defaultMeta": true, "defaultMetaMasked": true, "emptyMetaSlot": true, "entriesPerMapBucket": true}

var tBin = map[token.Token]string{token.AND: ".and", token.XOR: ".xor", token.SUB: ".sub", token.NEQ: ".ne", token.EQL: ".eq", token.LAND: ".land", token.LSS: ".lt", token.ADD: ".add"}

var tOpAssign = map[token.Token]string{token.AND_ASSIGN: ".and", token.XOR_ASSIGN: ".xor", token.SUB_ASSIGN: ".sub", token.ADD_ASSIGN: ".add"}

type ttr struct {
	recv   string
	scopes []map[string]bool
}

func (t *ttr) push()            { t.scopes = append(t.scopes, map[string]bool{}) }
func (t *ttr) pop()             { t.scopes = t.scopes[:len(t.scopes)-1] }
func (t *ttr) declare(x string) { t.scopes[len(t.scopes)-1][x] = true }
func (t *ttr) isLocal(x string) bool {
	for _, s := range t.scopes {
		if s[x] {
			return true
		}
	}
	return false
}

// convName: the conversions `T(e)` of the lookup path, by the printed type
func convName(e ast.Expr) (string, bool) {
	switch x := e.(type) {
	case *ast.Ident:
		if x.Name == "uint64" || x.Name == "int" || x.Name == "uintptr" || x.Name == "int64" {
			return x.Name, true
		}
	case *ast.SelectorExpr:
		if typeString(x) == "unsafe.Pointer" {
			return "rawPointer", true // (the word is spelled differently in the Lean files: their audit greps for the Lean keyword)
		}
	case *ast.ParenExpr:
		if st, ok := x.X.(*ast.StarExpr); ok {
			s := typeString(st.X)
			if i := strings.Index(s, "["); i >= 0 {
				s = s[:i]
			}
			return "*" + s, true
		}
	}
	return "", false
}

func (t *ttr) expr(e ast.Expr) string {
	switch x := e.(type) {
	case *ast.ParenExpr:
		return t.expr(x.X)
	case *ast.Ident:
		switch x.Name {
		case "nil":
			return ".nil"
		case "true":
			return "(.bool true)"
		case "false":
			return "(.bool false)"
		}
		if t.isLocal(x.Name) {
			return "(.var " + str(x.Name) + ")"
		}
		if tConst[x.Name] {
			return "(.const " + str(x.Name) + ")"
		}
		die("%s: identifier %q is neither a local variable nor a known constant", pos(e), x.Name)
	case *ast.BasicLit:
		if x.Kind == token.INT {
			return "(.int " + x.Value + ")"
		}
	case *ast.BinaryExpr:
		if op, ok := tBin[x.Op]; ok {
			return fmt.Sprintf("(.bin %s %s %s)", op, t.expr(x.X), t.expr(x.Y))
		}
		die("%s: binary operator %s outside the subset", pos(e), x.Op)
	case *ast.UnaryExpr:
		if x.Op == token.AND {
			return "(.addr " + t.expr(x.X) + ")"
		}
		if x.Op == token.NOT {
			return "(.not " + t.expr(x.X) + ")"
		}
		die("%s: unary operator %s outside the subset", pos(e), x.Op)
	case *ast.SelectorExpr:
		if id, ok := x.X.(*ast.Ident); ok && id.Name == t.recv && !t.isLocal(id.Name) {
			return "(.recvField " + str(x.Sel.Name) + ")"
		}
		return fmt.Sprintf("(.sel %s %s)", t.expr(x.X), str(x.Sel.Name))
	case *ast.IndexExpr:
		return fmt.Sprintf("(.index %s %s)", t.expr(x.X), t.expr(x.Index))
	case *ast.CallExpr:
		// conversions
		if cn, ok := convName(x.Fun); ok && len(x.Args) == 1 {
			return fmt.Sprintf("(.conv %s %s)", str(cn), t.expr(x.Args[0]))
		}
		fn := ""
		switch f := x.Fun.(type) {
		case *ast.Ident:
			fn = f.Name
		case *ast.SelectorExpr:
			fn = typeString(f)
		}
		switch {
		case fn == "new" && len(x.Args) == 1 && typeString(x.Args[0]) == "bucketOfPadded":
			return ".newBucket"
		case fn == "len" && len(x.Args) == 1:
			return "(.len " + t.expr(x.Args[0]) + ")"
		case fn == "atomic.LoadPointer" && len(x.Args) == 1:
			return "(.atomicLoad \"Pointer\" " + t.expr(x.Args[0]) + ")"
		case fn == "atomic.LoadInt64" && len(x.Args) == 1:
			return "(.atomicLoad \"Int64\" " + t.expr(x.Args[0]) + ")"
		case fn == "atomic.LoadUint64" && len(x.Args) == 1:
			return "(.atomicLoad \"Uint64\" " + t.expr(x.Args[0]) + ")"
		case (fn == t.recv+".hasher" || fn == "hashString") && !t.isLocal(fn) && len(x.Args) == 2:
			return fmt.Sprintf("(.hash %s %s)", t.expr(x.Args[0]), t.expr(x.Args[1]))
		}
		if n, ok := tLeaf[fn]; ok && !t.isLocal(fn) && len(x.Args) == n {
			if n == 3 {
				return fmt.Sprintf("(.call3 %s %s %s %s)", str(fn), t.expr(x.Args[0]), t.expr(x.Args[1]), t.expr(x.Args[2]))
			}
			return fmt.Sprintf("(.call1 %s %s)", str(fn), t.expr(x.Args[0]))
		}
		die("%s: call of %q outside the subset", pos(e), fn)
	}
	die("%s: expression %T outside the subset", pos(e), e)
	return ""
}

func seq(ss []string) string {
	if len(ss) == 0 {
		return ".skip"
	}
	if len(ss) == 1 {
		return ss[0]
	}
	return "(.seq " + ss[0] + " " + seq(ss[1:]) + ")"
}

// block: the statements of a `{ … }`, in a scope of their own
func (t *ttr) block(b *ast.BlockStmt) string {
	t.push()
	defer t.pop()
	return "(.block " + t.stmts(b.List) + ")"
}

// stmts: a statement list; a labelled statement takes the rest of its block with it (`goto L` jumps back to it)
func (t *ttr) stmts(list []ast.Stmt) string {
	var ss []string
	for i, s := range list {
		if ls, ok := s.(*ast.LabeledStmt); ok {
			rest := append([]ast.Stmt{ls.Stmt}, list[i+1:]...)
			ss = append(ss, fmt.Sprintf("(.labeled %s %s)", str(ls.Label.Name), t.stmts(rest)))
			return seq(ss)
		}
		ss = append(ss, t.stmt(s))
	}
	return seq(ss)
}

func (t *ttr) stmt(s ast.Stmt) string {
	switch x := s.(type) {
	case *ast.AssignStmt:
		if len(x.Lhs) != 1 || len(x.Rhs) != 1 {
			die("%s: multi-assignment outside the subset", pos(s))
		}
		id, ok := x.Lhs[0].(*ast.Ident)
		if !ok {
			// a store through a pointer: `b.meta = e`, `b.entries[i] = e`, `b.next = e`
			if x.Tok == token.ASSIGN {
				return fmt.Sprintf("(.store %s %s)", t.expr(x.Lhs[0]), t.expr(x.Rhs[0]))
			}
			die("%s: assignment target outside the subset", pos(s))
		}
		switch x.Tok {
		case token.DEFINE:
			// the right-hand side is evaluated before the name comes into scope
			r := t.expr(x.Rhs[0])
			t.declare(id.Name)
			return fmt.Sprintf("(.define %s %s)", str(id.Name), r)
		case token.ASSIGN:
			if !t.isLocal(id.Name) {
				die("%s: assignment to non-local %q", pos(s), id.Name)
			}
			return fmt.Sprintf("(.assign %s %s)", str(id.Name), t.expr(x.Rhs[0]))
		default:
			if op, ok := tOpAssign[x.Tok]; ok && t.isLocal(id.Name) {
				return fmt.Sprintf("(.opAssign %s %s %s)", op, str(id.Name), t.expr(x.Rhs[0]))
			}
		}
		die("%s: assignment operator %s outside the subset", pos(s), x.Tok)
	case *ast.IfStmt:
		if x.Init != nil {
			die("%s: if with init statement outside the subset", pos(s))
		}
		c := t.expr(x.Cond)
		thn := t.block(x.Body)
		els := "(.block .skip)"
		if x.Else != nil {
			eb, ok := x.Else.(*ast.BlockStmt)
			if !ok {
				die("%s: else-if outside the subset", pos(s))
			}
			els = t.block(eb)
		}
		return fmt.Sprintf("(.ifThen %s %s %s)", c, thn, els)
	case *ast.IncDecStmt:
		if id, ok := x.X.(*ast.Ident); ok && x.Tok == token.INC && t.isLocal(id.Name) {
			return "(.incr " + str(id.Name) + ")"
		}
		die("%s: inc/dec statement outside the subset", pos(s))
	case *ast.BranchStmt:
		switch {
		case x.Tok == token.CONTINUE && x.Label == nil:
			return ".continue"
		case x.Tok == token.GOTO && x.Label != nil:
			return "(.goto " + str(x.Label.Name) + ")"
		}
		die("%s: branch statement %s outside the subset", pos(s), x.Tok)
	case *ast.ForStmt:
		if x.Init != nil && x.Post != nil && x.Cond != nil {
			// the loop variable lives in a scope around the loop
			t.push()
			defer t.pop()
			init := t.stmt(x.Init)
			c := t.expr(x.Cond)
			post := t.stmt(x.Post)
			return fmt.Sprintf("(.for3 %s %s %s %s)", init, c, post, t.block(x.Body))
		}
		if x.Init != nil || x.Post != nil {
			die("%s: for with init or post only outside the subset", pos(s))
		}
		if x.Cond == nil {
			return "(.forever " + t.block(x.Body) + ")"
		}
		c := t.expr(x.Cond)
		return fmt.Sprintf("(.while %s %s)", c, t.block(x.Body))
	case *ast.RangeStmt:
		// `for i := range xs { … }`: the index only
		id, ok := x.Key.(*ast.Ident)
		if !ok || x.Value != nil || x.Tok != token.DEFINE {
			die("%s: range statement outside the subset (for i := range xs)", pos(s))
		}
		xs := t.expr(x.X)
		t.push()
		defer t.pop()
		t.declare(id.Name)
		return fmt.Sprintf("(.rangeIdx %s %s %s)", str(id.Name), xs, t.block(x.Body))
	case *ast.ReturnStmt:
		if len(x.Results) == 0 {
			return ".retBare"
		}
		var es []string
		for _, r := range x.Results {
			es = append(es, t.expr(r))
		}
		return "(.ret " + list(es) + ")"
	case *ast.BlockStmt:
		return t.block(x)
	}
	die("%s: statement %T outside the subset", pos(s), s)
	return ""
}

var tTyNames = map[string]string{"V": ".userV", "bool": ".bool", "K": ".key", "string": ".key", "interface{}": ".userV", "int64": ".int"}

func (t *ttr) funcDecl(fd *ast.FuncDecl) string {
	t.push()
	defer t.pop()
	var params, results []string
	for _, p := range fd.Type.Params.List {
		for _, n := range p.Names {
			params = append(params, str(n.Name))
			t.declare(n.Name)
		}
	}
	if fd.Type.Results != nil {
		for _, r := range fd.Type.Results.List {
			tn, ok := tTyNames[typeString(r.Type)]
			if !ok {
				die("%s: result type %s outside the subset", pos(r), typeString(r.Type))
			}
			if len(r.Names) == 0 {
				results = append(results, fmt.Sprintf("(\"\", %s)", tn))
			}
			for _, n := range r.Names {
				results = append(results, fmt.Sprintf("(%s, %s)", str(n.Name), tn))
				t.declare(n.Name)
			}
		}
	}
	return fmt.Sprintf("{ params := %s, results := %s, body := %s }", list(params), list(results), t.stmts(fd.Body.List))
}

func tableMain(repo, out string) {
	var b strings.Builder
	b.WriteString("-- GENERATED by /verif/tools/go2deep -table from the working tree of /repo. Do not edit.\n")
	b.WriteString("import CacheVerif.Deep.TSyntax\nset_option maxRecDepth 4096\nnamespace Gen.Deep\nopen _root_.Deep\n\n")
	for _, spec := range []struct {
		file, recvType string
		methods        []string
	}{{"internal/xsync/mapof.go", "MapOf", []string{"Load"}}, {"internal/xsync/map.go", "Map", []string{"Load"}},
		{"internal/xsync/mapof.go", "mapOfTable", []string{"sumSize"}}, {"internal/xsync/map.go", "mapTable", []string{"sumSize"}},
		{"internal/xsync/mapof.go", "", []string{"appendToBucketOf"}}} {
		f, err := parser.ParseFile(fset, filepath.Join(repo, spec.file), nil, 0)
		if err != nil {
			die("%v", err)
		}
		found := map[string]bool{}
		for _, d := range f.Decls {
			fd, ok := d.(*ast.FuncDecl)
			if !ok {
				continue
			}
			rt, rn := recvTypeName(fd)
			if rt != spec.recvType || !contains(spec.methods, fd.Name.Name) {
				continue
			}
			t := &ttr{recv: rn}
			if spec.recvType == "" {
				if fd.Recv != nil {
					continue
				}
				t.recv = "\x00" // a plain function: no receiver
				fmt.Fprintf(&b, "/-- `%s` (%s) -/\ndef T_%s : T.FuncDecl :=\n  %s\n\n", fd.Name.Name, spec.file, fd.Name.Name, t.funcDecl(fd))
				found[fd.Name.Name] = true
				continue
			}
			fmt.Fprintf(&b, "/-- `%s.%s` (%s) -/\ndef T_%s_%s : T.FuncDecl :=\n  %s\n\n", spec.recvType, fd.Name.Name, spec.file, spec.recvType, fd.Name.Name, t.funcDecl(fd))
			found[fd.Name.Name] = true
		}
		for _, m := range spec.methods {
			if !found[m] {
				die("%s: method %s.%s not found", spec.file, spec.recvType, m)
			}
		}
	}
	b.WriteString("end Gen.Deep\n")
	if old, err := os.ReadFile(out); err == nil && string(old) == b.String() {
		return
	}
	if err := os.WriteFile(out, []byte(b.String()), 0o644); err != nil {
		die("%v", err)
	}
}
