import Driver.TableDrv
import CacheVerif.Spec.TTL
/-!
Linearizability checker (Wing–Gong style search) for histories recorded by the controlled scheduler.
The sequential specification is `Spec.AMap` (Map / MapOf) or `Spec.TTL` (Cache / CacheOf, logical view):
the same Lean definitions the theorems are about.
-/
namespace Driver
open Model

structure OpRec where
  tid : Nat
  inv : Nat
  resp : Nat
  op : String
  res : String

inductive LState where
  | map (sm : SpecMap)
  | ttl (s : Spec.TTL.St String Val)

def toks (s : String) : List String := (s.splitOn " ").filter (· ≠ "")

/-- spec answer to one protocol line; `none` result = "anything goes" (Size/Count/Range are not atomic) -/
def specAnswer (st : LState) (op : String) : LState × Option String :=
  let t := toks op
  match st with
  | .map sm =>
    match t with
    | "size" :: _ => (st, none)
    | "range" :: _ => (st, none)
    | _ => let r := stepSpecMap sm t; (.map r.1, some r.2)
  | .ttl s =>
    match t with
    | "count" :: _ => (st, none)
    | "range" :: _ => (st, none)
    | _ =>
      match parseCacheOp t with
      | some op =>
        let r := Spec.TTL.step s op
        (.ttl r.1, some (resStr none { out := r.2.1, fn := r.2.2 }))
      | none => (st, some "bad-op")

def stripCbs (s : String) : String := (s.splitOn " | cbs=").headD s

partial def minimalFirst (rem : List OpRec) (c : OpRec) : Bool :=
  rem.all fun o => o.inv == c.inv || c.inv < o.resp

/-- is there a linearization of `rem` from `st` whose final content prints as `final` (if given)? -/
partial def search (final : Option String) (st : LState) (rem : List OpRec) : Bool :=
  match rem with
  | [] =>
    match final with
    | none => true
    | some f =>
      match st with
      | .map sm => pairsStr sm.m == f
      | .ttl s => pairsStr (s.live.map fun p => (p.1, p.2.v)) == f
  | _ =>
    rem.any fun c =>
      minimalFirst rem c &&
        (let r := specAnswer st c.op
         (match r.2 with
          | none => true
          | some a => a == stripCbs c.res) &&
         search final r.1 (rem.filter fun o => o.inv != c.inv))

def parseOpRec (l : String) : Option OpRec :=
  match l.splitOn " | " with
  | hd :: op :: rest =>
    match toks hd with
    | ["op", tid, inv, resp] => do
      some { tid := ← tid.toNat?, inv := ← inv.toNat?, resp := ← resp.toNat?, op := op, res := " | ".intercalate rest }
    | _ => none
  | _ => none

def kv (ts : List String) (key : String) : Option String :=
  (ts.find? (·.startsWith (key ++ "="))).map fun s => (s.drop (key.length + 1)).toString

structure HistAcc where
  id : String := ""
  st : LState := .map { m := [], wb := false }
  ops : List OpRec := []
  final : Option String := none
  preBad : Option String := none

def startHist (l : String) : HistAcc :=
  let t := toks l
  let id := t.getD 1 "?"
  let kind := (kv t "kind").getD "map"
  if kind == "cache" || kind == "cacheof" then
    let dflt := ((kv t "dflt").bind String.toInt?).getD 0
    let cb := ((kv t "cb").bind String.toNat?).getD 0
    let now := ((kv t "now").bind String.toInt?).getD 0
    { id := id, st := .ttl (Spec.TTL.construct (some dflt) (if cb == 0 then none else some cb) now) }
  else { id := id, st := .map { m := [], wb := false } }

partial def linLoop (h : IO.FS.Stream) (out : IO.FS.Stream) (acc : HistAcc) : IO Unit := do
  let line ← h.getLine
  if line.isEmpty then return ()
  let l := line.trimAscii.toString
  if l.startsWith "hist " then linLoop h out (startHist l)
  else if l.startsWith "pre " then
    match ((l.drop 4).toString).splitOn " => " with
    | [op, res] =>
      let r := specAnswer acc.st op
      let bad := match r.2 with
        | some a => if a == stripCbs res then acc.preBad else some s!"prefill {op}: code {res}, spec {a}"
        | none => acc.preBad
      linLoop h out { acc with st := r.1, preBad := bad }
    | _ => linLoop h out acc
  else if l.startsWith "op " then
    match parseOpRec l with
    | some r => linLoop h out { acc with ops := acc.ops ++ [r] }
    | none => linLoop h out { acc with preBad := some ("unparsable: " ++ l) }
  else if l.startsWith "final items " then
    linLoop h out { acc with final := some (l.drop 12).toString }
  else if l == "end" then
    match acc.preBad with
    | some b => out.putStrLn s!"{acc.id} PREFILL-MISMATCH {b}"
    | none =>
      if search acc.final acc.st acc.ops then out.putStrLn s!"{acc.id} OK"
      else out.putStrLn s!"{acc.id} NONLIN"
    linLoop h out {}
  else linLoop h out acc

end Driver
