import Driver.CacheDrv
import Driver.Lin
import Driver.TraceProto
import CacheVerif.Model.ConcCache
/-!
Trace correspondence for M5 (`Model.ConcCache`): replays, step by step, the cache-level trace the real
`xsync_map.go` / `xsync_mapof.go` code produced under the cooperative scheduler with its `items` map wrapped so
that every map call is ONE scheduling step (the closure handed to `Compute` runs inside that step, as it runs
under the bucket lock).  Events: call boundaries with arguments and results, map calls with their key, visits of
`Range` with the snapshot item handed to the visitor, reads of the clock (with the value read), loads/stores of
the two settings, callback invocations with key and value, clock advances.  Every event of a thread must be the
next visible action of that thread in the model; the results must be equal.
-/
namespace Driver
open Model Model.ConcCache

abbrev MSt := ConcCache.St String Val
abbrev ML := ConcCache.L String Val
abbrev MG := ConcCache.G String Val

/-- cache interface call → M5 call (`none`: not modelled at this level: Range, Items, getters of settings) -/
def toCOp : Op String Val → Option (ConcCache.COp String Val)
  | .set k v d => some (.set k v d)
  | .setDefault k v => some (.set k v Gen.DefaultExpiration)
  | .setForever k v => some (.set k v Gen.NoExpiration)
  | .get k => some (.get k)
  | .getWithExpiration k => some (.getWithExpiration k)
  | .getWithTTL k => some (.getWithTTL k)
  | .getOrSet k v d => some (.getOrSet k v d)
  | .getAndSet k v d => some (.getAndSet k v d)
  | .getAndRefresh k d => some (.getAndRefresh k d)
  | .getOrCompute k f d => some (.getOrCompute k f d)
  | .compute k g d => some (.compute k g d)
  | .getAndDelete k => some (.getAndDelete k)
  | .delete k => some (.delete k)
  | .deleteExpired => some .deleteExpired
  | .clear => some .clear
  | .count => some .count
  | .setDefaultExpiration d => some (.setDefaultExpiration d)
  | .setEvictedCallback c => some (.setEvictedCallback c)
  | _ => none

def outStr : Out String Val → String
  | .unit => "-"
  | .val v ok => s!"v={v.toStr} ok={boolStr ok}"
  | .valExp v e ok => s!"v={v.toStr} e={e} ok={boolStr ok}"
  | .valTTL v t ok => s!"v={v.toStr} ttl={t} ok={boolStr ok}"
  | .count n => s!"n={n}"
  | _ => "?"

def keyStr (l : ML) : String := (ConcCache.opKey l).getD "?"

/-- the visible action the model thread performs next (`none`: an invisible step); `deVisit` is handled apart -/
def tokenOf (g : MG) (l : ML) : Option String :=
  match l.pc with
  | .setReadDflt => some "LdDflt"
  | .setReadClock => if l.d > 0 then some s!"Clock {g.now}" else none
  | .setStore => some s!"items.Store {keyStr l}"
  | .getLoad => some s!"items.Load {keyStr l}"
  | .getChkClock =>
    -- `i.expired()` = `i.e > 0 && time.Now()… > i.e`: the clock is read only for an entry that can expire
    match l.loaded with
    | some i => if i.e > 0 then some s!"Clock {g.now}" else none
    | none => none
  | .getCompute | .rmw | .gdCompute => some s!"items.Compute {keyStr l}"
  | .gdReadCb | .deReadCb => some "LdCb"
  | .gdFire =>
    match ConcCache.opKey l, l.removed, l.ec with
    | some k, some i, some _ => some s!"Cb {k} {i.v.toStr}"
    | _, _, _ => none
  | .deReadClock | .getTTLClock => some s!"Clock {g.now}"
  | .deCompute =>
    match l.cur with
    | some (k, _) => some s!"items.Compute {k}"
    | none => none
  | .deFire =>
    match l.queue, l.ec with
    | (k, v) :: _, some _ => some s!"Cb {k} {v.toStr}"
    | _, _ => none
  | .clClear => some "items.Clear"
  | .cntSize => some "items.Size"
  | .sdStore => some "StDflt"
  | .scStore => some "StCb"
  | _ => none

/-- `<val>@<e>` -/
def parseItem (s : String) : Option (Item Val) :=
  match s.splitOn "@" with
  | [v, e] => do some ⟨← parseVal v, ← e.toInt?⟩
  | _ => none

def indexOf? (k : String) : List String → Nat → Option Nat
  | [], _ => none
  | x :: xs, i => if x == k then some i else indexOf? k xs (i + 1)

/-- perform the real thread's event `tok` on the model thread `t`: run invisible steps until the model's next
visible action, which must be `tok` -/
def performC (s : MSt) (t : Nat) (tok : String) : Nat → Except String MSt
  | 0 => .error "model made 60 invisible steps without a visible action"
  | fuel + 1 =>
    let l := s.l t
    if l.pc == .ret then .error s!"the real thread did {tok}, the model thread is at its return point"
    else if l.pc == .idle then .error s!"the real thread did {tok}, the model thread is idle"
    else if l.pc == .deVisit then
      -- the traversal: the event tells which key the visitor was handed and with which snapshot item
      match toks tok with
      | ["items.RangeVisit", k, it] =>
        match parseItem it with
        | some i =>
          match ConcCache.step s (some t) { key := some k, seen := some i } 0 with
          | some s' => .ok s'
          | none => .error "model blocked at deVisit"
        | none => .error s!"unparsable item {it}"
      | ["items.RangeEnd"] =>
        match ConcCache.step s (some t) { key := none } 0 with
        | some s' => .ok s'
        | none => .error "model blocked at deVisit"
      | _ => .error s!"the real thread did {tok}, the model is inside the traversal of DeleteExpired"
    else
      match tokenOf s.g l with
      | some x =>
        if x == tok then
          match ConcCache.step s (some t) {} 0 with
          | some s' => .ok s'
          | none => .error s!"model blocked at {repr l.pc}"
        else .error s!"the real thread did {tok}, the model does {x} (at {repr l.pc})"
      | none =>
        match ConcCache.step s (some t) {} 0 with
        | some s' => performC s' t tok fuel
        | none => .error s!"model blocked at {repr l.pc}"

/-- run the invisible steps up to the return point -/
def toRet (s : MSt) (t : Nat) : Nat → Except String MSt
  | 0 => .error "model does not reach its return point"
  | fuel + 1 =>
    let l := s.l t
    if l.pc == .ret then .ok s
    else if l.pc == .idle then .error "model thread is idle"
    else if l.pc == .deVisit then .error "the real call returned, the model is inside the traversal of DeleteExpired"
    else
      match tokenOf s.g l with
      | some x => .error s!"the real call returned, the model still does {x} (at {repr l.pc})"
      | none =>
        match ConcCache.step s (some t) {} 0 with
        | some s' => toRet s' t fuel
        | none => .error s!"model blocked at {repr l.pc}"

structure CAcc where
  s : MSt
  curOp : List (Nat × String) := []

def acceptC : CAcc → List Ev → Nat → Except String Unit
  | _, [], _ => .ok ()
  | a, e :: rest, idx =>
    let t := e.tid
    if e.tok.startsWith "Start " then
      let opline := (e.tok.drop 6).toString
      match (parseCacheOp (toks opline)).bind toCOp with
      | none => .error s!"SKIP call not modelled at this level: {opline}"
      | some op =>
        if (a.s.l t).pc != .idle then .error s!"event {idx}: thread {t} starts a call but the model thread is at {repr (a.s.l t).pc}"
        else
          match ConcCache.step a.s (some t) { op := some op } 0 with
          | none => .error s!"event {idx}: model cannot start {opline}"
          | some s' => acceptC { a with s := s', curOp := (t, opline) :: a.curOp.filter (·.1 != t) } rest (idx + 1)
    else if e.tok.startsWith "Tick " then
      match ((e.tok.drop 5).toString).toNat? with
      | some δ =>
        match ConcCache.step a.s none {} δ with
        | some s' => acceptC { a with s := s' } rest (idx + 1)
        | none => .error s!"event {idx}: tick failed"
      | none => .error s!"event {idx}: bad tick"
    else if e.tok.startsWith "Ret " then
      match toRet a.s t 60 with
      | .error m => .error s!"event {idx} (T{t} {e.tok}): {m}"
      | .ok s1 =>
        let opline := ((a.curOp.find? (·.1 == t)).map (·.2)).getD ""
        let want := ((s1.l t).result.map outStr).getD "NO-RESULT"
        let got := (((e.tok.drop 4).toString.splitOn " | ").headD "")
        if want != got then .error s!"event {idx}: T{t} {opline} returned {got}, the model returns {want}"
        else
          match ConcCache.step s1 (some t) {} 0 with
          | some s' => acceptC { a with s := s' } rest (idx + 1)
          | none => .error s!"event {idx}: model cannot return"
    else
      match performC a.s t e.tok 60 with
      | .error m => .error s!"event {idx} (T{t}): {m}"
      | .ok s' => acceptC { a with s := s' } rest (idx + 1)

partial def traceCacheLoop (h : IO.FS.Stream) (out : IO.FS.Stream) (id : String) (st : Option MSt) (evs : List Ev) : IO Unit := do
  let line ← h.getLine
  if line.isEmpty then return ()
  let l := line.trimAscii.toString
  if l.startsWith "trace " then
    let t := toks l
    let dflt := ((kv t "dflt").bind String.toInt?).getD 0
    let cb := ((kv t "cb").bind String.toNat?).getD 0
    let now := ((kv t "now").bind String.toInt?).getD 0
    traceCacheLoop h out (t.getD 1 "?") (some (ConcCache.init dflt (if cb == 0 then none else some cb) now)) []
  else if l.startsWith "ev " then
    let rest := (l.drop 3).toString
    match rest.splitOn " " with
    | tid :: tk => traceCacheLoop h out id st ({ tid := tid.toNat?.getD 0, tok := " ".intercalate tk } :: evs)
    | _ => traceCacheLoop h out id st evs
  else if l == "end" then
    match st with
    | some s0 =>
      match acceptC { s := s0 } evs.reverse 0 with
      | .ok () => out.putStrLn s!"{id} OK {evs.length}"
      | .error m => if m.startsWith "SKIP" then out.putStrLn s!"{id} {m}" else out.putStrLn s!"{id} MISMATCH {m}"
    | none => out.putStrLn s!"{id} MISMATCH no header"
    traceCacheLoop h out "" none []
  else traceCacheLoop h out id st evs

end Driver
