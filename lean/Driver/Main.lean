import Driver.CacheDrv
import Driver.TableDrv
import Driver.Lin
import Driver.TraceProto
import Driver.TraceCache
import CacheVerif.Model.CacheOf
import CacheVerif.Spec.TTL
/-!
Model driver: reads protocol lines on stdin, runs the executable models, prints one canonical result
line per input line.  Core Lean only (linked as a native executable).
-/
namespace Driver
open Model

inductive MState where
  | none
  | cache (s : Cache.St String Val)
  | cacheOf (s : CacheOf.St String Val)
  | spec (s : Spec.TTL.St String Val)
  | table (ts : TState)
  | specMap (sm : SpecMap)

def optInt (s : String) : Option (Option Int) := if s == "nil" then some none else s.toInt?.map some

def parseCtor (variant dflt cleanup cb mincap : String) : Option Cache.Ctor := do
  let d ← dflt.toInt?
  let i ← cleanup.toInt?
  let c ← if cb == "nil" then some none else cb.toNat?.map some
  let m ← mincap.toInt?
  match variant with
  | "default" => some (.newDefault d i c)
  | "opts" => some (.newOpts (some d) (some i) c (if m == 0 then none else some m))
  | "bare" => some (.newOpts none (some 0) none none)
  | _ =>
    -- "over<base>": New(WithDefaultExpiration(base), WithCleanupInterval, …, WithDefaultExpiration(dflt))
    if variant.startsWith "over" then
      (variant.drop 4).toInt?.map fun b => .newOptsOver b d (some i) c (if m == 0 then none else some m)
    else none

/-- does this op address a key whose entry is physically present but expired (expired-uncleaned)? -/
def touchesDead (s : Cache.St String Val) (t : List String) : Bool :=
  match t with
  | _ :: k :: _ =>
    match Spec.AMap.get s.items k with
    | some i => Cache.expired s i
    | none => false
  | _ => false

/-- returns the new state, the result line, and whether the op was "non-trivial" (see evidence rule) -/
def stepLine (useSpec : Bool) (st : MState) (line : String) : MState × String × Bool :=
  let t := (line.splitOn " ").filter (· ≠ "")
  match t with
  | ["new", twin, variant, now, dflt, _cleanup, cb, _mincap] =>
    if useSpec && (twin == "cache" || twin == "cacheof") then
      match now.toInt?, dflt.toInt?, (if cb == "nil" then some none else cb.toNat?.map some) with
      | some n, some d, some c =>
        if variant == "bare" then (.spec (Spec.TTL.construct none none n), "-", false)
        else (.spec (Spec.TTL.construct (some d) c n), "-", false)
      | _, _, _ => (st, "bad-op", false)
    else stepModel st t
  | ["newmap", _, _, _, _, _, wb] =>
    if useSpec then (.specMap { m := [], wb := wb == "1" }, "-", false) else stepModel st t
  | _ => stepModel st t
where stepModel (st : MState) (t : List String) : MState × String × Bool :=
  match t with
  | ["newmap", kind, hint, growOnly, seed, mode, wb] =>
    match newTState kind hint growOnly seed mode wb with
    | some ts => (.table ts, "-" ++ (if ts.wb then layoutStr ts none else ""), false)
    | none => (st, "bad-op", false)
  | ["new", "cache", variant, now, dflt, cleanup, cb, mincap] =>
    match parseCtor variant dflt cleanup cb mincap, now.toInt? with
    | some c, some n => (.cache (Cache.construct c n).1, "-", false)
    | _, _ => (st, "bad-op", false)
  | ["new", "cacheof", variant, now, dflt, cleanup, cb, mincap] =>
    match parseCtor variant dflt cleanup cb mincap, now.toInt? with
    | some c, some n => (.cacheOf (CacheOf.construct c n).1, "-", false)
    | _, _ => (st, "bad-op", false)
  | _ =>
    match st with
    | .none => (st, "bad-op", false)
    | .table ts =>
      let r := stepMapLine ts t
      (.table r.1, r.2.1, r.2.2)
    | .specMap sm =>
      let r := stepSpecMap sm t
      (.specMap r.1, r.2, false)
    | .spec s =>
      match parseCacheOp t with
      | some op =>
        let r := Spec.TTL.step s op
        let stopKey := match t with
          | ["range", "*"] => Option.none
          | ["range", k] => some k
          | _ => Option.none
        let line := match t with
          | ["count"] => "?"
          | _ => resStr stopKey { out := r.2.1, fn := r.2.2 }
        (.spec r.1, line, false)
      | none => (st, "bad-op", false)
    | .cache s =>
      match parseCacheOp t with
      | some op =>
        let r := Cache.step s op
        let stopKey := match t with
          | ["range", "*"] => Option.none
          | ["range", k] => some k
          | _ => Option.none
        (.cache r.1, resStr stopKey r.2, touchesDead s t)
      | none => (st, "bad-op", false)
    | .cacheOf s =>
      match parseCacheOp t with
      | some op =>
        let r := CacheOf.step s op
        let stopKey := match t with
          | ["range", "*"] => Option.none
          | ["range", k] => some k
          | _ => Option.none
        (.cacheOf r.1, resStr stopKey r.2, touchesDead s t)
      | none => (st, "bad-op", false)

/-- `nt` = number of non-trivial ops in the current sequence; per sequence one line `SEQ <nt>` goes to stderr -/
partial def loop (useSpec : Bool) (h : IO.FS.Stream) (out err : IO.FS.Stream) (st : MState) (nt : Nat) (started : Bool) : IO Unit := do
  let line ← h.getLine
  if line.isEmpty then
    if started then err.putStrLn s!"SEQ {nt}"
    return ()
  let l := line.trimAscii.toString
  if l.isEmpty then loop useSpec h out err st nt started
  else
    let isNew := l.startsWith "new "
    if isNew && started then err.putStrLn s!"SEQ {nt}"
    let (st', o, f) := stepLine useSpec st l
    out.putStrLn o
    loop useSpec h out err st' (if isNew then 0 else if f then nt + 1 else nt) true

end Driver

def main (args : List String) : IO Unit := do
  let stdin ← IO.getStdin
  let stdout ← IO.getStdout
  let stderr ← IO.getStderr
  if args.contains "--trace-proto" then
    Driver.traceLoop stdin stdout "" none []
    return
  if args.contains "--trace-cache" then
    Driver.traceCacheLoop stdin stdout "" none []
    return
  if args.contains "--lin" then
    Driver.linLoop stdin stdout {}
    return
  Driver.loop (args.contains "--spec") stdin stdout stderr .none 0 false
