import Driver.TableDrv
import Driver.Lin
import CacheVerif.Model.ProtoApi
/-!
Trace correspondence for M4a (`Model.Proto`): replays, step by step, the protocol-level trace the real
`internal/xsync` code produced under the cooperative scheduler (table-pointer loads/stores, resize-flag
load/CAS/store, bucket lock/unlock, `resizeMu` lock/unlock, cond park/broadcast, counter additions, call
boundaries with arguments and results) on the Lean model, and reports the first event the model cannot follow.
The layout inputs of the model (`hasFree`, `leftEmpty`) are inferred from the thread's next events.
-/
namespace Driver
open Model Model.Proto

abbrev PSt := Proto.St String Val
abbrev PL := Proto.L String Val
abbrev PG := Proto.G String Val

def mkParams (isMap : Bool) (small hm seed : Nat) : Params String :=
  let env := mkEnv hm seed
  { growThr := if isMap then Gen.growThresholdMap else Gen.growThresholdMapOf,
    shrinkThr := if isMap then Gen.shrinkThresholdMap else Gen.shrinkThresholdMapOf,
    -- generation g of the model is the (g+1)-th table the real map allocated (NewMap allocates one first)
    bkt := fun gen k =>
      let h := env.hash k (env.seeds (gen + 1))
      if isMap then h.toNat else (Gen.h1 h).toNat,
    minLen := small, growOnly := false,
    -- newMapTable / newMapOfTable: counterLen = tableLen >> 10 clamped to [minMapCounterLen, maxMapCounterLen]
    stripes := fun len => max Gen.minMapCounterLen (min Gen.maxMapCounterLen (len >>> 10)) }

def parsePOp (t : List String) : Option (POp String Val) :=
  match t with
  | ["load", k] => some (.load k)
  | ["store", k, v] => do let x ← parseVal v; Proto.api "store" k x (fun _ => (x, false))
  | ["loadorstore", k, v] => do let x ← parseVal v; Proto.api "loadorstore" k x (fun _ => (x, false))
  | ["loadandstore", k, v] => do let x ← parseVal v; Proto.api "loadandstore" k x (fun _ => (x, false))
  | ["loadorcompute", k, v] => do let x ← parseVal v; Proto.api "loadorcompute" k x (fun _ => (x, false))
  | ["compute", k, a1, a2] => do
      let x ← parseAct a1
      let y ← parseAct a2
      Proto.api "compute" k .nil (fun o => match o with | some _ => x | none => y)
  | ["loadanddelete", k] => Proto.api "loadanddelete" k .nil (fun _ => (.nil, true))
  | ["delete", k] => Proto.api "delete" k .nil (fun _ => (.nil, true))
  | ["size"] => some .size
  | ["clear"] => some .clear
  | _ => none

/-- tokens a model step makes visible -/
def tokensOf (p : Params String) (g : PG) (l l' : PL) : List String :=
  match l.pc with
  -- the striped counter is summed one atomic load per stripe
  | .szSum | .dcSum | .rzFastSum | .rzDecideSum => ["LdCtr"]
  | .ldTable | .szTable | .dcFast | .dcLoadTable | .dcChkTable | .rzLoadTable | .clTable | .rgTable => ["LdTable"]
  | .dcLock => ["Lock"]
  | .rzCopyLock => if l'.pc == .rzCopyDo then ["Lock"] else []
  | .rgLock => if l'.pc == .rgCopy then ["Lock"] else []
  | .dcChkResizing => ["LdResizing"]
  | .wfChk => if l'.pc == .wfPark then ["LdResizing", "CondPark"] else ["LdResizing"]
  | .dcUnlock | .dcUnlockWait | .dcUnlockRetry | .dcUnlockGrow | .rzCopyUnlock | .rgUnlock => ["Unlock"]
  | .dcAddSize => if l.delta != 0 then [s!"AddSize {l.delta}"] else []
  | .rzCas => if g.resizing then ["Cas fail"] else ["Cas ok"]
  | .rzPublish => ["StTable"]
  | .rzMuLock | .wfMuLock | .wfRelock => ["MuLock"]
  | .rzClearFlag => ["StResizing"]
  | .rzBroadcast => ["Broadcast"]
  | .rzMuUnlock | .wfMuUnlock => ["MuUnlock"]
  | _ => []

structure Ev where
  tid : Nat
  tok : String

/-- the next `n` synchronisation tokens of thread `t` (up to its next call boundary) -/
def lookahead (t : Nat) : List Ev → Nat → List String
  | [], _ => []
  | _, 0 => []
  | e :: rest, n + 1 =>
    if e.tid == t then
      if e.tok.startsWith "Ret" || e.tok.startsWith "Start" then [] else e.tok :: lookahead t rest n
    else lookahead t rest (n + 1)

def inferChoice (l : PL) (t : Nat) (future : List Ev) : Proto.Choice String Val :=
  let la := lookahead t future 8
  match l.pc with
  | .dcScan =>
    -- chain full and over the threshold: the thread unlocks and goes to resize (CAS on the flag)
    -- the counter is summed exactly when the chain had no free slot
    let full := match la with
      | "LdCtr" :: _ => true
      | _ => false
    { hasFree := !full }
  | .dcCommit =>
    -- after a delete that left the chain/bucket empty the code calls resize(shrink): visible as a counter sum
    -- (fast-path test) or directly as the CAS on the flag; if neither shows, the attempt (if any) was a no-op
    let shrink := match la.filter (· != "SlotStore") with
      | "Unlock" :: a :: c :: _ => a.startsWith "AddSize" && (c.startsWith "Cas" || c == "LdCtr")
      | _ => false
    { leftEmpty := shrink }
  | _ => {}

def retString (op : String) (r : Option (Ret String Val)) : String :=
  let kind := (toks op).headD ""
  if kind == "store" || kind == "delete" || kind == "clear" then "-"
  else match r with
    | some (.val v f) => s!"v={(v.getD .nil).toStr} ok={boolStr f}"
    | some (.size n) => s!"n={n}"
    | some .unit => "-"
    | some (.visits _) => "visited"
    | none => "NO-RESULT"

def stripFn (s : String) : String := (s.splitOn " fn=").headD s

structure Acc where
  s : PSt
  pend : List (Nat × List String) := []   -- tokens already produced by the model, not yet matched
  curOp : List (Nat × String) := []
  /-- slot stores of the current critical section that are still to come after the commit store -/
  skipStores : List (Nat × Nat) := []

def getPend (a : Acc) (t : Nat) : List String := ((a.pend.find? (·.1 == t)).map (·.2)).getD []
def setPend (a : Acc) (t : Nat) (l : List String) : Acc :=
  { a with pend := (t, l) :: a.pend.filter (·.1 != t) }

/-- is the thread about to perform one of the "hindsight" reads (chain scan of a lookup, counter sum), whose
instant inside the call is not visible in the trace? -/
def atHindsightRead (l : PL) : Bool := l.pc == .ldRead

/-- what the real lookup of thread `t` is going to see, read off its next event: `some (some v)` = the value
printed as `v`, `some none` = absent; `none` = unconstrained (Size, whose striped sum may be torn) -/
def expectedRead (l : PL) (t : Nat) (future : List Ev) : Option (Option String) :=
  if false then none
  else
    match future.find? (·.tid == t) with
    | some e =>
      if e.tok.startsWith "Ret v=" then
        let body := (e.tok.drop 6).toString   -- "<val> ok=<bool>..."
        match body.splitOn " ok=" with
        | v :: b :: _ => if b.startsWith "true" then some (some v) else some none
        | _ => none
      else some none    -- the fast path missed: the call continues into the write path
    | none => none

def modelRead (a : PSt) (t : Nat) : Option String :=
  let l := a.l t
  match opKey l with
  | some k => ((a.g.tables l.tbl).data.get k).map Val.toStr
  | none => none

/-- perform the pending hindsight read of thread `t` now -/
def doRead (p : Params String) (a : Acc) (t : Nat) : Except String Acc :=
  match Proto.step p a.s t {} with
  | some s' => .ok { a with s := s' }
  | none => .error "model reader blocked"

/-- after any event: every thread with a pending hindsight read performs it as soon as the model's content
matches what the real call is going to return (the read happened at *some* instant inside the call) -/
def settle (p : Params String) (a : Acc) (future : List Ev) : List Nat → Acc
  | [] => a
  | t :: ts =>
    let l := a.s.l t
    if l.pc == .ldRead then
      match expectedRead l t future with
      | some exp =>
        if modelRead a.s t == exp then
          match doRead p a t with
          | .ok a' => settle p a' future ts
          | .error _ => settle p a future ts
        else settle p a future ts
      | none => settle p a future ts
    else settle p a future ts

/-- run the invisible steps that immediately follow a visible action of thread `t` (scan, user function,
commit, … all happen under the lock right after the check that was just observed) -/
def eager (p : Params String) (a : Acc) (t : Nat) (future : List Ev) : Nat → Acc
  | 0 => a
  | fuel + 1 =>
    let l := a.s.l t
    if l.pc == .ret || l.pc == .idle || l.pc == .rgVisit || atHindsightRead l then a
    else
      let c := inferChoice l t future
      match Proto.step p a.s t c with
      | none => a
      | some s' => if (tokensOf p a.s.g l (s'.l t)).isEmpty then eager p { a with s := s' } t future fuel else a

/-- advance thread `t` of the model until it emits a visible token (or reaches `ret`); fuel-bounded -/
def advance (p : Params String) (a : Acc) (t : Nat) (future : List Ev) (stopAtRet : Bool) : Nat → Except String (Acc × List String)
  | 0 => .error "model made 40 invisible steps without a visible action"
  | fuel + 1 =>
    let l := a.s.l t
    if l.pc == .ret then
      if stopAtRet then .ok (a, []) else .error "model thread is at its return point but the real thread performed another action"
    else if l.pc == .idle then .error "model thread is idle"
    else if l.pc == .ldRead then
      -- the thread's own next event has arrived: the read must happen now at the latest
      match expectedRead l t future with
      | some exp =>
        if modelRead a.s t == exp then
          match doRead p a t with
          | .ok a' => advance p a' t future stopAtRet fuel
          | .error m => .error m
        else .error s!"lookup is going to return {exp}, but the model's table never held that binding between the table-pointer load and now (it holds {modelRead a.s t})"
      | none =>
        match doRead p a t with
        | .ok a' => advance p a' t future stopAtRet fuel
        | .error m => .error m
    else
      let c := inferChoice l t future
      match Proto.step p a.s t c with
      | none => .error s!"model thread is blocked at {repr l.pc} but the real thread moved"
      | some s' =>
        let toksOut := tokensOf p a.s.g l (s'.l t)
        let a' := { a with s := s' }
        if toksOut.isEmpty then advance p a' t future stopAtRet fuel else .ok (a', toksOut)

def allTids : List Nat := [0, 1, 2, 3, 4, 9]

def acceptLoop (p : Params String) : Acc → List Ev → Nat → Except String Unit
  | _, [], _ => .ok ()
  | a, e :: rest, idx =>
    let t := e.tid
    if e.tok.startsWith "Start " then
      let opline := (e.tok.drop 6).toString
      match parsePOp (toks opline) with
      | none => .error s!"event {idx}: unparsable call {opline}"
      | some op =>
        if (a.s.l t).pc != .idle then .error s!"event {idx}: thread {t} starts a call but the model thread is at {repr (a.s.l t).pc}"
        else
          match Proto.step p a.s t { op := some op } with
          | none => .error s!"event {idx}: model cannot start {opline}"
          | some s' => acceptLoop p { a with s := s', curOp := (t, opline) :: a.curOp.filter (·.1 != t) } rest (idx + 1)
    else if e.tok.startsWith "Ret " then
      if !(getPend a t).isEmpty then .error s!"event {idx}: thread {t} returned but the model still expects {getPend a t}"
      else
        match advance p a t (e :: rest) true 40 with
        | .error m => .error s!"event {idx} (T{t} {e.tok}): {m}"
        | .ok (a', extra) =>
          if !extra.isEmpty then .error s!"event {idx}: thread {t} returned but the model performs {extra} first"
          else
            let opline := ((a'.curOp.find? (·.1 == t)).map (·.2)).getD ""
            let want := retString opline (a'.s.l t).result
            let got := stripFn (e.tok.drop 4).toString
            if want != got then .error s!"event {idx}: T{t} {opline} returned {got}, the model returns {want}"
            else
              match Proto.step p a'.s t {} with
              | none => .error s!"event {idx}: model cannot return"
              | some s' => acceptLoop p (settle p { a' with s := s' } rest allTids) rest (idx + 1)
    else if e.tok == "SlotStore" then
      -- the micro-stores of a writer's commit: the model's single `dcCommit` step happens at the store that
      -- changes what a scan sees — the first store of a delete, the last store of an insert/update/append
      let skip := ((a.skipStores.find? (·.1 == t)).map (·.2)).getD 0
      if skip > 0 then
        acceptLoop p { a with skipStores := (t, skip - 1) :: a.skipStores.filter (·.1 != t) } rest (idx + 1)
      else
        -- bring the thread to its commit point (scan and user function are invisible)
        let rec toCommit (a : Acc) (fuel : Nat) : Except String Acc :=
          match fuel with
          | 0 => .error "model does not reach its commit point"
          | fuel + 1 =>
            let l := a.s.l t
            if l.pc == .dcCommit then .ok a
            else
              let c := inferChoice l t (e :: rest)
              match Proto.step p a.s t c with
              | none => .error s!"model thread blocked at {repr l.pc}"
              | some s' =>
                let extra := tokensOf p a.s.g l (s'.l t)
                if extra.isEmpty then toCommit { a with s := s' } fuel
                else .error s!"the real thread stores into a slot, the model does {extra} first (at {repr l.pc})"
        match toCommit a 10 with
        | .error m => .error s!"event {idx} (T{t} SlotStore): {m}"
        | .ok a1 =>
          let l := a1.s.l t
          let remaining := ((lookahead t rest 8).takeWhile (· == "SlotStore")).length   -- stores after this one
          let isDelete := l.old.isSome && (match l.fnres with | some (_, d) => d | none => false)
          if isDelete || remaining == 0 then
            match Proto.step p a1.s t (inferChoice l t rest) with
            | none => .error s!"event {idx}: model cannot commit"
            | some s' =>
              acceptLoop p (settle p { a1 with s := s', skipStores := (t, if isDelete then remaining else 0) :: a1.skipStores.filter (·.1 != t) } rest allTids) rest (idx + 1)
          else acceptLoop p a1 rest (idx + 1)
    else
      match getPend a t with
      | x :: xs =>
        if x == e.tok then acceptLoop p (settle p (if xs.isEmpty then eager p (setPend a t xs) t rest 0 else setPend a t xs) rest allTids) rest (idx + 1)
        else .error s!"event {idx}: T{t} did {e.tok}, the model expects {x}"
      | [] =>
        match advance p a t (e :: rest) false 40 with
        | .error m => .error s!"event {idx} (T{t} {e.tok}): {m}"
        | .ok (a', out) =>
          match out with
          | x :: xs =>
            if x == e.tok then
              let a'' := setPend a' t xs
              acceptLoop p (settle p (if xs.isEmpty then eager p a'' t rest 0 else a'') rest allTids) rest (idx + 1)
            else .error s!"event {idx}: T{t} did {e.tok}, the model does {x} (at {repr (a.s.l t).pc})"
          | [] => .error s!"event {idx}: T{t} did {e.tok}, the model has nothing to do"

partial def traceLoop (h : IO.FS.Stream) (out : IO.FS.Stream) (id : String) (p : Option (Params String)) (evs : List Ev) : IO Unit := do
  let line ← h.getLine
  if line.isEmpty then return ()
  let l := line.trimAscii.toString
  if l.startsWith "trace " then
    let t := toks l
    let kind := (kv t "kind").getD "map"
    let small := ((kv t "small").bind String.toNat?).getD 1
    let hm := ((kv t "hm").bind String.toNat?).getD 0
    let seed := ((kv t "seed").bind String.toNat?).getD 1
    traceLoop h out (t.getD 1 "?") (some (mkParams (kind == "map") small hm seed)) []
  else if l.startsWith "ev " then
    let rest := (l.drop 3).toString
    match rest.splitOn " " with
    | tid :: tk => traceLoop h out id p ({ tid := tid.toNat?.getD 0, tok := " ".intercalate tk } :: evs)
    | _ => traceLoop h out id p evs
  else if l == "end" then
    match p with
    | some pp =>
      match acceptLoop pp { s := Proto.init pp } evs.reverse 0 with
      | .ok () => out.putStrLn s!"{id} OK {evs.length}"
      | .error m => out.putStrLn s!"{id} MISMATCH {m}"
    | none => out.putStrLn s!"{id} MISMATCH no header"
    traceLoop h out "" none []
  else traceLoop h out id p evs

end Driver
