/-! Values used by the driver: Go `interface{}` holding `nil` or an int. -/
namespace Driver

inductive Val where
  | nil
  | int (n : Int)
  deriving DecidableEq, Repr

instance : Inhabited Val := ⟨.nil⟩

def Val.toStr : Val → String
  | .nil => "nil"
  | .int n => toString n

def parseVal (s : String) : Option Val :=
  if s == "nil" then some .nil else (s.toInt?).map .int

def boolStr (b : Bool) : String := if b then "true" else "false"

/-- insertion sort on strings (canonical output order) -/
def insertSorted (x : String) : List String → List String
  | [] => [x]
  | y :: ys => if x < y then x :: y :: ys else y :: insertSorted x ys

def sortStrings (l : List String) : List String := l.foldr insertSorted []

def joinWith (sep : String) : List String → String
  | [] => ""
  | [x] => x
  | x :: xs => x ++ sep ++ joinWith sep xs

end Driver
