import Driver.Val
import Driver.CacheDrv
import CacheVerif.Model.Table
/-! Line protocol ⇄ M3 (`Model.Table`), with the white-box layout observation. -/
namespace Driver
open Model Model.Table

/-- same function as `vshim.HashString` (harness/vshim/shim.go) -/
def hashStringU (mode : Nat) (s : String) (seed : UInt64) : UInt64 :=
  let h := s.toUTF8.foldl (fun (h : UInt64) b => (h ^^^ b.toUInt64) * 0x100000001b3) (seed ^^^ 0xcbf29ce484222325)
  let h := h ^^^ (h >>> 29)
  let h := h * 0xbf58476d1ce4e5b9
  let h := h ^^^ (h >>> 32)
  match mode with
  | 1 => 0
  | 2 => h &&& ~~~(0x7f : UInt64)
  | 3 => h &&& 0x7f
  | 4 => h &&& (((1 : UInt64) <<< 44) - 1)
  | _ => h

/-- same stream as `vshim.SetSeed` / `vshim.Seed` -/
def seedStep (s : UInt64) : UInt64 :=
  let s := s ^^^ (s <<< 13)
  let s := s ^^^ (s >>> 7)
  s ^^^ (s <<< 17)

partial def nextSeed (s : UInt64) : UInt64 :=
  let s := seedStep s
  if (s >>> 32) != 0 then s else nextSeed s

def seedAt (init : UInt64) : Nat → UInt64
  | 0 => nextSeed init
  | n + 1 => nextSeed (seedAt init n)

def mkEnv (mode : Nat) (seed : Nat) : Env String :=
  let init : UInt64 := (UInt64.ofNat seed) * 0x9E3779B97F4A7C15 + 0x1234567
  { hash := fun k s => BitVec.ofNat 64 (hashStringU mode k (UInt64.ofNat s.toNat)).toNat,
    seeds := fun n => BitVec.ofNat 64 (seedAt init n).toNat }

def hexDigits : List Char := "0123456789abcdef".toList
partial def toHex (n : Nat) : String :=
  if n < 16 then String.singleton (hexDigits.getD n '0') else toHex (n / 16) ++ String.singleton (hexDigits.getD (n % 16) '0')

def valLayout : Val → String
  | .nil => "<nil>"
  | .int n => toString n

/-- word bits of an occupied slot: `Map`: the 20 top-hash bits; `MapOf`: the meta byte `h2` -/
def slotTag (isMap : Bool) (h : BitVec 64) : Nat :=
  if isMap then (h >>> 44).toNat else (Gen.h2 h).toNat

def slotStr (isMap : Bool) (env : Env String) (seed : BitVec 64) : Option (String × Val) → String
  | none => "_"
  | some (k, v) => k ++ "=" ++ valLayout v ++ "#" ++ toHex (slotTag isMap (env.hash k seed))

partial def chainStr (isMap : Bool) (S : Nat) (env : Env String) (seed : BitVec 64) (c : Slots String Val) : String :=
  if c.isEmpty then "" else
    "[" ++ joinWith " " ((c.take S).map (slotStr isMap env seed)) ++ "]" ++ chainStr isMap S env seed (c.drop S)

def fnv (d : UInt64) (s : String) : UInt64 :=
  s.toUTF8.foldl (fun (d : UInt64) b => (d ^^^ b.toUInt64) * 1099511628211) d

structure TState where
  isMap : Bool
  var : Variant
  env : Env String
  m : St String Val
  wb : Bool

def layoutStr (ts : TState) (key : Option String) : String :=
  let t := ts.m.tbl
  let strs := t.chains.map (chainStr ts.isMap ts.var.S ts.env t.seed)
  let dig := strs.foldl (fun d s => fnv (fnv d s) ";") 1469598103934665603
  let chain := match key with
    | some k => strs.getD (t.bucketOf ts.var ts.env k) ""
    | none => ""
  s!" || len={t.len} size={t.size} g={ts.m.growths} s={ts.m.shrinks} chain={chain} dig={toHex dig.toNat}"

def parseMapOp (t : List String) : Option (MOp String Val × Option String) :=
  match t with
  | ["load", k] => some (.load k, some k)
  | ["store", k, v] => do some (.store k (← parseVal v), some k)
  | ["loadorstore", k, v] => do some (.loadOrStore k (← parseVal v), some k)
  | ["loadandstore", k, v] => do some (.loadAndStore k (← parseVal v), some k)
  | ["loadorcompute", k, v] => do some (.loadOrCompute k (← parseVal v), some k)
  | ["compute", k, a1, a2] => do
      let x ← parseAct a1
      let y ← parseAct a2
      some (.compute k (fun o => match o with | some _ => x | none => y), some k)
  | ["loadanddelete", k] => some (.loadAndDelete k, some k)
  | ["delete", k] => some (.delete k, some k)
  | ["range", "*"] => some (.range fun _ _ => true, none)
  | ["range", k] => some (.range fun k' _ => k' != k, none)
  | ["clear"] => some (.clear, none)
  | ["size"] => some (.size, none)
  | _ => none

def mapResStr (ts : TState) (t : List String) (r : MRes String Val) : String :=
  let showFn := match t with
    | "loadorcompute" :: _ => true
    | "compute" :: _ => true
    | _ => false
  let base := match r.out with
    | .unit => "-"
    | .val v b => s!"v={v.toStr} ok={boolStr b}"
    | .size n => s!"n={n}"
    | .stuck => "MODEL-STUCK"
    | .visits l =>
      if ts.wb then s!"n={l.length} [{joinWith " " (l.map fun p => p.1 ++ ":" ++ p.2.toStr)}]"
      else
        match t with
        | ["range", "*"] => s!"n={l.length} {pairsStr l}"
        | ["range", k] =>
          match l.find? (fun p => p.1 == k) with
          | some p => s!"stopped {p.1}:{p.2.toStr}"
          | none => s!"n={l.length} {pairsStr l}"
        | _ => "?"
  if showFn then base ++ s!" fn={r.fnCalls}" else base

def newTState (kind hint growOnly seed mode wb : String) : Option TState := do
  let isMap := kind == "map"
  let var := if isMap then mapVariant else mapOfVariant
  let sd ← seed.toNat?
  let md ← mode.toNat?
  let env := mkEnv md sd
  let h : Int ← if hint == "none" then some ((Gen.defaultMinMapTableLen * var.S : Nat) : Int) else hint.toInt?
  some { isMap := isMap, var := var, env := env, m := Table.new var env h (growOnly == "1"), wb := wb == "1" }

def stepMapLine (ts : TState) (t : List String) : TState × String × Bool :=
  match parseMapOp t with
  | some (op, key) =>
    let r := Table.step ts.var ts.env ts.m op
    let ts' := { ts with m := r.1 }
    let chainLong := match key with
      | some k => (r.1.tbl.chain (r.1.tbl.bucketOf ts.var ts.env k)).length > ts.var.S
      | none => false
    let nt := r.1.gen != ts.m.gen || chainLong
    (ts', mapResStr ts t r.2 ++ (if ts.wb then layoutStr ts' key else ""), nt)
  | none => (ts, "bad-op", false)

/-! ### `Spec.AMap` as the reference for the `Map` / `MapOf` interface (spec ⇄ code search) -/

structure SpecMap where
  m : Spec.AMap String Val
  wb : Bool

def stepSpecMap (sm : SpecMap) (t : List String) : SpecMap × String :=
  let vb (r : Val × Bool) : String := s!"v={r.1.toStr} ok={boolStr r.2}"
  match parseMapOp t with
  | none => (sm, "bad-op")
  | some (op, _) =>
    match op with
    | .load k => (sm, vb (sm.m.load k))
    | .store k v => ({ sm with m := sm.m.store k v }, "-")
    | .loadOrStore k v => let r := sm.m.loadOrStore k v; ({ sm with m := r.1 }, vb r.2)
    | .loadAndStore k v => let r := sm.m.loadAndStore k v; ({ sm with m := r.1 }, vb r.2)
    | .loadOrCompute k f =>
      let present := (sm.m.get k).isSome
      let r := sm.m.loadOrStore k f
      ({ sm with m := r.1 }, vb r.2 ++ s!" fn={if present then 0 else 1}")
    | .compute k g => let r := sm.m.compute k g; ({ sm with m := r.1 }, vb r.2 ++ " fn=1")
    | .loadAndDelete k => let r := sm.m.loadAndDelete k; ({ sm with m := r.1 }, vb r.2)
    | .delete k => ({ sm with m := (sm.m.loadAndDelete k).1 }, "-")
    | .clear => ({ sm with m := [] }, "-")
    | .size => (sm, s!"n={sm.m.size}")
    | .range _ =>
      if sm.wb then (sm, "?")
      else
        match t with
        | ["range", "*"] => (sm, s!"n={sm.m.length} {pairsStr sm.m}")
        | ["range", k] =>
          match sm.m.get k with
          | some v => (sm, s!"stopped {k}:{v.toStr}")
          | none => (sm, s!"n={sm.m.length} {pairsStr sm.m}")
        | _ => (sm, "?")

end Driver
