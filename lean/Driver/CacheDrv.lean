import Driver.Val
import CacheVerif.Model.Cache
/-! Line protocol ⇄ M2 (`Model.Cache`). -/
namespace Driver
open Model Spec

abbrev COp := Op String Val
abbrev CRes := Res String Val

/-- `s:<val>` = store val, `d:<val>` = delete (returning val as newValue) -/
def parseAct (s : String) : Option (Val × Bool) :=
  match s.splitOn ":" with
  | ["s", v] => (parseVal v).map (·, false)
  | ["d", v] => (parseVal v).map (·, true)
  | _ => none

def parseCacheOp (t : List String) : Option COp :=
  match t with
  | ["set", k, v, d] => do some (.set k (← parseVal v) (← d.toInt?))
  | ["setdefault", k, v] => do some (.setDefault k (← parseVal v))
  | ["setforever", k, v] => do some (.setForever k (← parseVal v))
  | ["get", k] => some (.get k)
  | ["getexp", k] => some (.getWithExpiration k)
  | ["getttl", k] => some (.getWithTTL k)
  | ["getorset", k, v, d] => do some (.getOrSet k (← parseVal v) (← d.toInt?))
  | ["getandset", k, v, d] => do some (.getAndSet k (← parseVal v) (← d.toInt?))
  | ["getandrefresh", k, d] => do some (.getAndRefresh k (← d.toInt?))
  | ["getorcompute", k, v, d] => do some (.getOrCompute k (← parseVal v) (← d.toInt?))
  | ["compute", k, a1, a2, d] => do
      let x ← parseAct a1
      let y ← parseAct a2
      some (.compute k (fun o => match o with | some _ => x | none => y) (← d.toInt?))
  | ["getorcomputeslow", k, v, d, δ] => do some (.getOrComputeSlow k (← parseVal v) (← d.toInt?) (← δ.toNat?))
  | ["computeslow", k, a1, a2, d, δ] => do
      let x ← parseAct a1
      let y ← parseAct a2
      some (.computeSlow k (fun o => match o with | some _ => x | none => y) (← d.toInt?) (← δ.toNat?))
  | ["getanddelete", k] => some (.getAndDelete k)
  | ["delete", k] => some (.delete k)
  | ["deleteexpired"] => some .deleteExpired
  | ["range", "*"] => some (.range fun _ _ => true)
  | ["range", k] => some (.range fun k' _ => k' != k)
  | ["rangenil"] => some .rangeNil
  | ["items"] => some .items
  | ["clear"] => some .clear
  | ["count"] => some .count
  | ["defexp"] => some .defaultExpiration
  | ["setdefexp", d] => do some (.setDefaultExpiration (← d.toInt?))
  | ["evcb"] => some .evictedCallback
  | ["setevcb", "nil"] => some (.setEvictedCallback none)
  | ["setevcb", c] => do some (.setEvictedCallback (some (← c.toNat?)))
  | ["tick", d] => do some (.tick (← d.toNat?))
  | _ => none

def insertByKey (x : String × Val) : List (String × Val) → List (String × Val)
  | [] => [x]
  | y :: ys => if x.1 < y.1 then x :: y :: ys else y :: insertByKey x ys

/-- canonical order: by key (byte-wise, as Go's `sort.Strings` on the keys) -/
def pairsStr (l : List (String × Val)) : String :=
  "[" ++ joinWith " " ((l.foldr insertByKey []).map fun p => p.1 ++ ":" ++ p.2.toStr) ++ "]"

def fnStr : FnCall Val → String
  | .f => "f"
  | .g (some v) => "g(some " ++ v.toStr ++ ")"
  | .g none => "g(none)"

/-- canonical result line; `stopKey` = the key a stopping visitor stops at (for `range k`) -/
def resStr (stopKey : Option String) (r : CRes) : String :=
  let out := match r.out with
    | .unit => "-"
    | .val v ok => s!"v={v.toStr} ok={boolStr ok}"
    | .valExp v e ok => s!"v={v.toStr} e={e} ok={boolStr ok}"
    | .valTTL v t ok => s!"v={v.toStr} ttl={t} ok={boolStr ok}"
    | .visits l =>
      match stopKey with
      | some k =>
        match l.find? (fun p => p.1 == k) with
        | some p => s!"stopped {p.1}:{p.2.toStr}"
        | none => s!"n={l.length} {pairsStr l}"
      | none => s!"n={l.length} {pairsStr l}"
    | .items l => pairsStr l
    | .count n => s!"n={n}"
    | .dur d => s!"d={d}"
    | .cb none => "cb=nil"
    | .cb (some c) => s!"cb={c}"
  let out := if r.fn.isEmpty then out else out ++ " | fn=" ++ joinWith "," (r.fn.map fnStr)
  if r.cbs.isEmpty then out
  else out ++ " | cbs=" ++ joinWith "," (sortStrings (r.cbs.map fun c => s!"{c.1}:{c.2.1}:{c.2.2.toStr}"))

end Driver
