import CacheVerif.Props.C11
import CacheVerif.Proofs.Twin
import CacheVerif.Proofs.DeepCache
import CacheVerif.Proofs.DeepCacheOf
import CacheVerif.Proofs.DeepLoadM
/-!
# C12 — Cache and CacheOf, Map and MapOf are observationally identical twins

* `Model.Cache` and `Model.CacheOf` are separate transcriptions of `xsync_map.go` / `xsync_mapof.go` over
  separately generated leaves (`item.expired` vs `itemOf.expired`, `expiration` twice, `configDefault` twice);
  they are proved extensionally equal, for every constructor variant, call sequence and clock schedule.
* `Map` and `MapOf` have different bucket widths, thresholds and shrink triggers; they are equal only through
  the builtin-map semantics both refine (C11), whatever the two hash functions and seed streams are.
-/
namespace Props.C12
open Spec Model Model.Table Proofs.TableRefine Props.C11

section cache
variable {K V : Type} [DecidableEq K] [Inhabited V]

/-- every call: equal results, equal evicted callbacks, equal user-function invocations, equal contents -/
theorem C12_cache_step (s : CSt K V) (op : Op K V) : CacheOf.step s op = Cache.step s op :=
  Proofs.Twin.step_eq s op

/-- every call sequence (including clock advances) -/
theorem C12_cache_run (s : CSt K V) (ops : List (Op K V)) : CacheOf.run s ops = Cache.run s ops :=
  Proofs.Twin.run_eq s ops

/-- **the two source files mean the same thing.**  The method bodies of `xsync_map.go` and `xsync_mapof.go`, as
printed from the working tree (`tools/go2deep`) and run by the interpreter of the Go subset, give the same state,
result, user-function invocations and evicted callbacks for every state and every call; and so for every call
sequence.  (Each side equals its hand-written model by `deep_step`; the models are equal by `C12_cache_step`.) -/
theorem C12_source_step (s : CSt K V) (op : Op K V) :
    Deep.deepStep Deep.twinMapOf s op = Deep.deepStep Deep.twinMap s op := by
  rw [DeepCache.deep_step, DeepCacheOf.deep_step, Proofs.Twin.step_eq]

theorem C12_source_run (s : CSt K V) (ops : List (Op K V)) :
    Deep.deepRun Deep.twinMapOf s ops = Deep.deepRun Deep.twinMap s ops := by
  rw [DeepCache.deep_run, DeepCacheOf.deep_run, Proofs.Twin.run_eq]

/-- every constructor variant (`New`/`NewOf` with any options, `NewDefault`/`NewOfDefault`): equal initial
state and equal decision whether a janitor is started -/
theorem C12_cache_construct (c : Cache.Ctor) (now : Int) :
    CacheOf.construct (K := K) (V := V) c now = Cache.construct c now :=
  Proofs.Twin.construct_eq c now

end cache

section map
variable {K V : Type} [DecidableEq K] [Inhabited V]

def isRange : MOp K V → Bool
  | .range _ => true
  | _ => false

/-- along a run without `Range`, the table's answers are exactly the builtin map's -/
theorem outs_eq_spec (ops : List (MOp K V)) : ∀ (sp : AMap K V) (rs : List (MRes K V)),
    RunRel sp ops rs → (∀ op ∈ ops, isRange op = false) →
    rs.map (fun r => (r.out, r.fnCalls)) = (specRun sp ops).2 := by
  induction ops with
  | nil => intro sp rs h _; cases rs <;> simp_all [RunRel, specRun]
  | cons op ops ih =>
    intro sp rs h hn
    cases rs with
    | nil => simp [RunRel] at h
    | cons r rs =>
      obtain ⟨h1, h2, h3⟩ := h
      have hop : isRange op = false := hn op (List.mem_cons_self ..)
      have : r.out = (specStep sp op).2.1 := by
        cases op <;> simp_all [OutRel, isRange]
      simp only [List.map_cons, specRun]
      rw [ih _ rs h3 (fun o ho => hn o (List.mem_cons_of_mem _ ho)), this, h2]

/-- **Map ≡ MapOf**: same call sequence, arbitrary (different) hash functions, seed streams, presize hints
and grow-only flags: equal results and equal user-function invocation counts, call by call. (`Range` results
are equal up to the unspecified enumeration order, by `C11_Map` / `C11_MapOf`.) -/
theorem C12_map (env₁ env₂ : Env K) (hint₁ hint₂ : Int) (go₁ go₂ : Bool) (ops : List (MOp K V))
    (h₁ : 0 < (new (V := V) mapVariant env₁ hint₁ go₁).tbl.len)
    (h₂ : 0 < (new (V := V) mapOfVariant env₂ hint₂ go₂).tbl.len)
    (hn : ∀ op ∈ ops, isRange op = false) :
    (run mapVariant env₁ (new mapVariant env₁ hint₁ go₁) ops).2.map (fun r => (r.out, r.fnCalls)) =
    (run mapOfVariant env₂ (new mapOfVariant env₂ hint₂ go₂) ops).2.map (fun r => (r.out, r.fnCalls)) := by
  rw [outs_eq_spec ops [] _ (C11_Map env₁ hint₁ go₁ ops h₁) hn, outs_eq_spec ops [] _ (C11_MapOf env₂ hint₂ go₂ ops h₂) hn]

/-- and equal contents afterwards: both tables hold exactly the builtin map's bindings -/
theorem C12_map_contents (env₁ env₂ : Env K) (hint₁ hint₂ : Int) (go₁ go₂ : Bool) (ops : List (MOp K V))
    (h₁ : 0 < (new (V := V) mapVariant env₁ hint₁ go₁).tbl.len)
    (h₂ : 0 < (new (V := V) mapOfVariant env₂ hint₂ go₂).tbl.len) (k : K) :
    tget mapVariant env₁ (run mapVariant env₁ (new mapVariant env₁ hint₁ go₁) ops).1.tbl k =
    tget mapOfVariant env₂ (run mapOfVariant env₂ (new mapOfVariant env₂ hint₂ go₂) ops).1.tbl k := by
  have a := (C11_run mapVariant mapVariant_good env₁ ops [] _ (new_sim mapVariant env₁ mapVariant_good hint₁ go₁ h₁)).1
  have b := (C11_run mapOfVariant mapOfVariant_good env₂ ops [] _ (new_sim mapOfVariant env₂ mapOfVariant_good hint₂ go₂ h₂)).1
  rw [← a.get k, ← b.get k]

end map

/-! ### Non-vacuity -/
example : (Cache.step (K := String) (V := Nat) ⟨[("a", ⟨1, 50⟩)], 100, 10, some 1⟩ (.getAndDelete "a")).2.cbs = [(1, "a", 1)] := by decide
example : (CacheOf.step (K := String) (V := Nat) ⟨[("a", ⟨1, 50⟩)], 100, 10, some 1⟩ (.getAndDelete "a")).2.cbs = [(1, "a", 1)] := by decide

/-! ### the lookup paths of the two tables, printed from the source, agree -/

/-- **`Map.Load` and `MapOf.Load` mean the same**: on heaps that hold the same key/value association in the chains the key
is sent to - whatever the bucket sizes (3 / 5 slots), the packed words (20-bit top hashes / 7-bit `meta` bytes), the hash
functions, seeds and chain shapes - the interpreter on the two printed texts returns the same answer -/
theorem C12_source_loads_agree {K V : Type} [DecidableEq K] (fuel : Nat) (hf : 8 ≤ fuel) (h hm : Deep.T.Heap K V) (key : K)
    (c : List (Model.Words.BucketOf K V)) (cm : List (Model.Words.BucketM K V))
    (hc : h.chains[(Proofs.DeepLoad.bidxOf h key).toNat]? = some c) (hne : c ≠ []) (hfuel : c.length ≤ fuel)
    (hrep : ∀ b ∈ c, Model.Words.RepB (Proofs.DeepLoad.hkOf h) b)
    (hcm : hm.mchains[(Proofs.DeepLoadM.mbidxOf hm key).toNat]? = some cm) (hnem : cm ≠ []) (hfuelm : cm.length ≤ fuel)
    (hrepm : ∀ b ∈ cm, Model.Words.RepM (Proofs.DeepLoadM.mhashOf hm) b)
    (hsame : Model.Table.lookup key (Model.Words.flat c) = Model.Table.lookup key (Model.Words.flatM cm)) :
    Deep.T.call fuel h Gen.Deep.T_MapOf_Load [.key key] = Deep.T.call fuel hm Gen.Deep.T_Map_Load [.key key] := by
  rw [Proofs.DeepLoad.load_eq_lookup fuel hf h key c hc hne hfuel hrep,
    Proofs.DeepLoadM.mload_eq_lookup fuel (by omega) hm key cm hcm hnem hfuelm hrepm, hsame]
  cases Model.Table.lookup key (Model.Words.flatM cm) <;> rfl

end Props.C12
