import CacheVerif.Proofs.ConcCacheLin
import CacheVerif.Proofs.ConcCacheSolo
import CacheVerif.Proofs.DeepSource
import CacheVerif.Proofs.DeepTrace
import CacheVerif.Proofs.DeepTraceOf
/-!
# C02 — concurrent Cache/CacheOf calls are linearizable against the TTL-map semantics

Theorems about M5 (`Model.ConcCache`): any number of threads, any schedule, clock ticks at any moment (also in the
middle of a call), arbitrary keys/values/TTLs/user functions.  Forward simulation with fixed linearization
points: the shared state is always `Sim`-related (the relation of the sequential refinement C01) to a ghost
`Spec.TTL` state that changes **only** at linearization points — by exactly the spec step of the call, whose
result is what the call then returns — and at clock ticks; plus hindsight for the `Get` family.  Consequences
spelled out by the property: an unexpired value is never lost to `DeleteExpired` / lazy deletion
(`C02_cleanup_never_removes_live`, `C02_non_lp_steps_are_invisible`), nothing deleted, cleared or expired
reappears (the abstract state only moves by spec steps).
**Partial**: M5 treats the underlying map as atomic (justified by C03/C04 and the unmechanised substitutivity of
linearizable objects); `Set` is linearized at its `Store` with the instant computed from an earlier clock
reading (`SetStoreSpec`), and `GetWithTTL` of an entry with an expiration instant reports value and flag of its
hindsight / linearization point but the remaining lifetime against a *second*, later clock reading of the same call
(`C02_get_ttl`, `C02_get_ttl_end_to_end`); that the log of linearization points yields a Herlihy–Wing linearization
is the standard argument, not mechanised.
-/
namespace Props.C02
open Spec Model Model.ConcCache Proofs.ConcCacheLin Proofs.CacheRefine

variable {K V : Type} [DecidableEq K] [Inhabited V]

/-- **the simulation invariant holds in every reachable state**: whatever the interleaving and the clock did, the
shared map restricted to its unexpired entries is exactly the abstract TTL map (and the settings agree) -/
theorem C02_sim_invariant (dflt : Int) (cb : Option Nat) (now : Int) (h0 : 0 ≤ now) (s : St K V)
    (hr : Reach dflt cb now s) : Sim (view s.g) s.g.abs :=
  gi_reach dflt cb now s hr h0

/-- **every linearization point returns the TTL semantics' answer and performs its effect**, atomically.  The one
linearization point that does not assign the call's result is the double-checked `Compute` of a `GetWithTTL k` that
finds the abstract binding `i` of `k` with an expiration instant: the TTL semantics' answer at that instant is
`valTTL i.v (i.e - now) true`; the call keeps `i` and moves to `getTTLClock`, where it reports the same value and flag
and the lifetime `i.e - now'` against the clock `now' ≥ now` it reads there (`C02_get_ttl`). -/
theorem C02_linearization_points (dflt : Int) (cb : Option Nat) (now : Int) (h0 : 0 ≤ now) (s s' : St K V)
    (t : Tid) (c : Choice K V) (δ : Nat) (op : COp K V) (hr : Reach dflt cb now s)
    (hs : step s (some t) c δ = some s') (hlp : lpPc (s.l t).pc = true) (ho : (s.l t).op = some op) :
    (((s'.l t).pc ≠ .getTTLClock ∧
        ∃ res, (s'.l t).result = some res ∧ logical res = (TTL.step s.g.abs (toSpec op)).2.1) ∨
     (∃ k i, (s.l t).pc = .getCompute ∧ op = .getWithTTL k ∧ s.g.abs.live.get k = some i ∧ 0 < i.e ∧
        (TTL.step s.g.abs (toSpec op)).2.1 = .valTTL i.v (i.e - s.g.now) true ∧
        (s'.l t).pc = .getTTLClock ∧ (s'.l t).loaded = some i)) ∧
      ((s.l t).pc ≠ .setStore → s'.g.abs = (TTL.step s.g.abs (toSpec op)).1) ∧
      ((s.l t).pc = .setStore → SetStoreSpec s.g (s.l t) op s'.g) := by
  obtain ⟨hg, hl, hst, _, _⟩ := reach_tstep dflt cb now h0 s s' t c δ hr hs
  exact lp_result t s.g (s.l t) c s'.g (s'.l t) op hg hl hlp ho hst

/-- **every other step is logically invisible**: lazy deletion on read, every step of `DeleteExpired` and of the
janitor, callback delivery, setting reads … leave the abstract state untouched -/
theorem C02_non_lp_steps_are_invisible (t : Tid) (g : G K V) (l : L K V) (c : Choice K V) (g' : G K V) (l' : L K V)
    (hp : lpPc l.pc = false) (hs : tstep t g l c = some (g', l')) : g'.abs = g.abs :=
  abs_frame t g l c g' l' hp hs

/-- **an unexpired value is never lost to DeleteExpired, a janitor pass or lazy expiry deletion** -/
theorem C02_cleanup_never_removes_live (dflt : Int) (cb : Option Nat) (now : Int) (h0 : 0 ≤ now) (s s' : St K V)
    (t : Tid) (c : Choice K V) (δ : Nat) (hr : Reach dflt cb now s) (hs : step s (some t) c δ = some s')
    (hpc : (s.l t).pc = .deCompute ∨ (s.l t).pc = .getCompute) :
    ∀ k i, s.g.items.get k = some i → TTL.expired i.e s.g.now = false → s'.g.items.get k = some i := by
  obtain ⟨_, hl, hst, _, _⟩ := reach_tstep dflt cb now h0 s s' t c δ hr hs
  exact never_removes_live t s.g (s.l t) c s'.g (s'.l t) hl hpc hst

/-- **hindsight for the Get family**: a call that passes the clock check with its loaded item `i` found the
abstract binding of the key at the instant of its lock-free `Load` (an instant inside the call).  It returns at once
with `hitResult op i now` — except `GetWithTTL` of an entry with an expiration instant (`0 < i.e`), which keeps `i` and
goes on to read the clock a second time (`getTTLClock`, `C02_get_ttl`) -/
theorem C02_get_hindsight (dflt : Int) (cb : Option Nat) (now : Int) (h0 : 0 ≤ now) (s s' : St K V)
    (t : Tid) (c : Choice K V) (δ : Nat) (hr : Reach dflt cb now s) (hs : step s (some t) c δ = some s')
    (hpc : (s.l t).pc = .getChkClock) :
    s'.g = s.g ∧ ∃ i op, (s.l t).loaded = some i ∧ (s.l t).op = some op ∧ (s.l t).nowAtLoad ≤ s.g.now ∧
      ((TTL.expired i.e s.g.now = false ∧ (s.l t).absAtLoad = some i ∧
          (((¬ ∃ k, op = .getWithTTL k ∧ 0 < i.e) ∧ (s'.l t).pc = .ret ∧
              (s'.l t).result = some (hitResult op i s.g.now)) ∨
           (∃ k, op = .getWithTTL k ∧ 0 < i.e ∧ (s'.l t).pc = .getTTLClock ∧ (s'.l t).loaded = some i))) ∨
       (TTL.expired i.e s.g.now = true ∧ (s'.l t).pc = .getCompute)) := by
  obtain ⟨_, hl, hst, _, _⟩ := reach_tstep dflt cb now h0 s s' t c δ hr hs
  obtain ⟨h1, i, op, h2, h3, h4, _, h6⟩ := get_hindsight t s.g (s.l t) c s'.g (s'.l t) hl hpc hst
  refine ⟨h1, i, op, h2, h3, h4, ?_⟩
  rcases h6 with ⟨a, b, c'⟩ | ⟨a, b, _⟩
  · refine Or.inl ⟨a, b, ?_⟩
    rcases c' with c' | ⟨k, x1, x2, x3, x4, _⟩
    · exact Or.inl c'
    · exact Or.inr ⟨k, x1, x2, x3, x4⟩
  · exact Or.inr ⟨a, b⟩

/-- **`GetWithTTL`'s second clock read**: in every reachable state, a thread at `getTTLClock` is inside a
`GetWithTTL k`, holds the item `i` its call found (`loaded`; `0 < i.e`; unexpired at the clock value `t0` the call read
when it found it, `nowAtLoad ≤ t0 ≤ now`); its step changes nothing shared and returns `i`'s value, `true`, and the
lifetime `i.e - now` against the clock of *this* step -/
theorem C02_get_ttl (dflt : Int) (cb : Option Nat) (now : Int) (h0 : 0 ≤ now) (s s' : St K V)
    (t : Tid) (c : Choice K V) (δ : Nat) (hr : Reach dflt cb now s) (hs : step s (some t) c δ = some s')
    (hpc : (s.l t).pc = .getTTLClock) :
    s'.g = s.g ∧ ∃ i k t0, (s.l t).loaded = some i ∧ (s.l t).op = some (.getWithTTL k) ∧ 0 < i.e ∧
      (s.l t).nowAtLoad ≤ t0 ∧ t0 ≤ s.g.now ∧ TTL.expired i.e t0 = false ∧
      (s'.l t).pc = .ret ∧ (s'.l t).result = some (.valTTL i.v (i.e - s.g.now) true) := by
  obtain ⟨_, hl, hst, _, _⟩ := reach_tstep dflt cb now h0 s s' t c δ hr hs
  obtain ⟨h1, i, k, t0, a1, a2, a3, a4, a5, a6, a7, a8, _⟩ := get_ttl_clock t s.g (s.l t) c s'.g (s'.l t) hl hpc hst
  exact ⟨h1, i, k, t0, a1, a2, a3, a4, a5, a6, a7, a8⟩

/-- **`GetWithTTL` end to end** (any run): thread `t` steps into `getTTLClock` from the reachable state `s`; then
anything happens except steps of `t` (`sched`); then `t` steps.  The call is a `GetWithTTL k` and returns
`valTTL i.v (i.e - now') true`, where `i` is the abstract binding of `k` at the call's hindsight point (its `Load`,
hit path) resp. at its linearization point (the double-checked `Compute`, where the TTL semantics answers
`valTTL i.v (i.e - s.g.now) true`), and `now' ≥ s.g.now` is the clock at the last step -/
theorem C02_get_ttl_end_to_end (dflt : Int) (cb : Option Nat) (now : Int) (h0 : 0 ≤ now) (s s1 s2 s3 : St K V)
    (t : Tid) (c c' : Choice K V) (δ δ' : Nat) (sched : List (Option Tid × Choice K V × Nat))
    (hr : Reach dflt cb now s) (h1 : step s (some t) c δ = some s1) (hpc : (s1.l t).pc = .getTTLClock)
    (hq : ∀ x ∈ sched, x.1 ≠ some t) (h2 : run s1 sched = some s2) (h3 : step s2 (some t) c' δ' = some s3) :
    ∃ k i, (s.l t).op = some (.getWithTTL k) ∧ 0 < i.e ∧ TTL.expired i.e s.g.now = false ∧
      (((s.l t).pc = .getChkClock ∧ (s.l t).loaded = some i ∧ (s.l t).absAtLoad = some i ∧
          (s.l t).nowAtLoad ≤ s.g.now ∧ s1.g = s.g) ∨
       ((s.l t).pc = .getCompute ∧ s.g.abs.live.get k = some i ∧ s1.g.abs = s.g.abs ∧
          (TTL.step s.g.abs (.getWithTTL k)).2.1 = .valTTL i.v (i.e - s.g.now) true)) ∧
      s.g.now ≤ s2.g.now ∧ s3.g = s2.g ∧ (s3.l t).pc = .ret ∧
      (s3.l t).result = some (.valTTL i.v (i.e - s2.g.now) true) :=
  getWithTTL_second_clock dflt cb now h0 s s1 s2 s3 t c c' δ δ' sched hr h1 hpc hq h2 h3

/-- a miss of the lock-free `Load` is a miss of the abstract map at that instant -/
theorem C02_get_miss (dflt : Int) (cb : Option Nat) (now : Int) (h0 : 0 ≤ now) (s s' : St K V)
    (t : Tid) (c : Choice K V) (δ : Nat) (hr : Reach dflt cb now s) (hs : step s (some t) c δ = some s')
    (hpc : (s.l t).pc = .getLoad) (hret : (s'.l t).pc = .ret) :
    ∃ k op, opKey (s.l t) = some k ∧ (s.l t).op = some op ∧ s.g.abs.live.get k = none ∧
      (s'.l t).result = some (missResult op) := by
  obtain ⟨hg, _, hst, _, _⟩ := reach_tstep dflt cb now h0 s s' t c δ hr hs
  obtain ⟨k, op, h1, h2, _, h4, _, h6⟩ := get_load t s.g (s.l t) c s'.g (s'.l t) hg hpc hst
  rcases h6 with ⟨_, _, hres, habs⟩ | ⟨i, _, hp, _⟩
  · exact ⟨k, op, h1, h2, by rw [← h4]; exact habs, hres⟩
  · rw [hp] at hret; cases hret

/-- no call of the cache layer ever blocks in the model (the only waiting is inside the underlying map: C13) -/
theorem C02_no_blocking (dflt : Int) (cb : Option Nat) (now : Int) (h0 : 0 ≤ now) (s : St K V) (t : Tid) (c : Choice K V)
    (hr : Reach dflt cb now s) (h : (s.l t).pc ≠ .idle ∨ c.op.isSome = true) : (tstep t s.g (s.l t) c).isSome = true :=
  no_step_blocks t s.g (s.l t) c ((inv_reach dflt cb now s h0 hr).2 t) h

/-! ### Non-vacuity: `DeleteExpired` racing a fresh `Set` on an expired key (the schedule that broke the original
code) — in the model the fresh value survives -/
def exInit : St String Nat := init 10 none 0

example : ∃ s, run exInit
    [ (some 0, { op := some (.set "k" 1 5) }, 0), (some 0, {}, 0), (some 0, {}, 0), (some 0, {}, 0),   -- Set k 1 (ttl 5)
      (none, {}, 6),                                                                                   -- clock passes e
      (some 1, { op := some .deleteExpired }, 0), (some 1, {}, 0), (some 1, {}, 0),
      (some 1, { key := some "k", seen := some ⟨1, 5⟩ }, 0),                                           -- T1 sees k expired
      (some 2, { op := some (.set "k" 2 100) }, 0), (some 2, {}, 0), (some 2, {}, 0), (some 2, {}, 0), -- T2 stores fresh
      (some 1, {}, 0), (some 1, {}, 0), (some 1, {}, 0) ] = some s ∧
    s.g.items.get "k" = some ⟨2, 106⟩ ∧ s.g.abs.live.get "k" = some ⟨2, 106⟩ ∧ (s.l 1).pc = .ret := ⟨_, rfl, by decide, by decide, by decide⟩

/-! ### Non-vacuity: `GetWithTTL` reads the clock twice — the entry (`e = 5`) is found live at clock 2, the lifetime is
reported against clock 4 (`5 - 4 = 1`); with the second reading past the expiration instant the reported lifetime is
negative (as `time.Until` in the code) -/
example : ∃ s, run exInit
    [ (some 0, { op := some (.set "k" 1 5) }, 0), (some 0, {}, 0), (some 0, {}, 0), (some 0, {}, 0),   -- Set k 1 (ttl 5)
      (some 1, { op := some (.getWithTTL "k") }, 0), (some 1, {}, 0),                                  -- Load: hit
      (none, {}, 2), (some 1, {}, 0),                                                                  -- clock check at 2: live
      (none, {}, 2), (some 1, {}, 0) ] = some s ∧                                                      -- second clock read at 4
    (s.l 1).pc = .ret ∧ (s.l 1).result = some (.valTTL 1 1 true) := ⟨_, rfl, by decide, by decide⟩

example : ∃ s, run exInit
    [ (some 0, { op := some (.set "k" 1 5) }, 0), (some 0, {}, 0), (some 0, {}, 0), (some 0, {}, 0),
      (some 1, { op := some (.getWithTTL "k") }, 0), (some 1, {}, 0),
      (none, {}, 2), (some 1, {}, 0),
      (none, {}, 10), (some 1, {}, 0) ] = some s ∧
    (s.l 1).pc = .ret ∧ (s.l 1).result = some (.valTTL 1 (-7) true) := ⟨_, rfl, by decide, by decide⟩

/-! ### The concurrent model, run by one thread, is the source text

`Proofs/ConcCacheSolo.lean`: every call of M5 executed alone from `idle` to `ret` with the clock standing still
(for `DeleteExpired`: the traversal handing over the entries of the map in order) ends in the state, result and
fired callbacks of the sequential step; `DeepSource.step`: that step is what the interpreter of the Go subset
computes from the method bodies printed from the working tree.  So what M5's steps compute and carry in their
locals is tied to the current text of `xsync_map.go` / `xsync_mapof.go`; *where* a call may be interrupted is
tied by the step-level trace acceptance. -/

open Proofs.ConcCacheSolo in
theorem C02_solo_is_source (g : G K V) (op : COp K V) (T : Deep.Twin K V) (hT : DeepSource.IsTwin T) :
    ∃ cs, obs g (soloSteps g L.init (start op :: cs)) =
      (Deep.deepStep T (view g) (toSpec op)).map fun r => (r.1, r.2.cbs, Pc.ret, some r.2.out) := by
  obtain ⟨cs, h⟩ := solo_eq_m2 g op
  exact ⟨cs, by rw [h, DeepSource.step _ _ T hT]; rfl⟩

/-- **the steps of M5 are the atomic actions of the source text.**  For every state and every call: the actions of
a thread of M5 that runs the call alone — one per step: a call on the underlying map with its key, a clock read or a
setting access outside a closure that runs under a bucket lock, a traversal visit, an evicted-callback invocation —
are exactly, in order, the actions the interpreter records when it runs the method body printed from the working tree
(either file) — and that traced run ends in the state and result of the sequential step.  A closure handed to `Compute` is one action; a call that the source splits differently (a second map
call, a clock read moved out of a closure) no longer matches. -/
theorem C02_steps_are_source_actions (g : G K V) (op : COp K V) :
    (∃ cs t, DeepTraceCommon.soloTrace g L.init (Proofs.ConcCacheSolo.start op :: cs) = some t ∧
      Deep.deepTrace Deep.twinMapTr (view g) (toSpec op) =
        some ((Cache.step (view g) (toSpec op)).1, (Cache.step (view g) (toSpec op)).2, t)) ∧
    (∃ cs t, DeepTraceCommon.soloTrace g L.init (Proofs.ConcCacheSolo.start op :: cs) = some t ∧
      Deep.deepTrace Deep.twinMapOfTr (view g) (toSpec op) =
        some ((Cache.step (view g) (toSpec op)).1, (Cache.step (view g) (toSpec op)).2, t)) :=
  ⟨DeepTrace.trace_eq g op, DeepTraceOf.trace_eq g op⟩

end Props.C02
