import CacheVerif.Spec.AMap
namespace Props.C03
theorem placeholder : True := trivial
end Props.C03
