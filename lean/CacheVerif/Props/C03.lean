import CacheVerif.Proofs.ProtoData
import CacheVerif.Proofs.SlotMapHindsight
import CacheVerif.Props.C11
/-!
# C03 — `Map` (string keys) is linearizable, also across grow, shrink and Clear

Mechanised parts (all schedules, any number of goroutines):
* **slot level (M4b, `Model.SlotMap`)**: the lock-free three-read atomic snapshot of `Load` returns the logical
  content of its key at some instant inside the call, whatever legal micro-stores the lock holder interleaves
  (`C03_reader_hindsight`); it can therefore be replaced by one atomic read — never a value stored under
  another key, never a mix of two writes; the slot representation invariant is preserved by every writer
  micro-step (`C03_slot_invariant`);
* **protocol level (M4a, `Model.Proto`)**: mutual exclusion of bucket locks, resize flag and wake-up protocol
  (`Props/C13`), and — when `Proofs/ProtoData.lean` is present in the tree — "a grow/shrink publishes a table with
  exactly the same bindings" and "the abstract content changes only at a writer's commit on the current table
  and at Clear's publish";
* **sequential level (M3)**: `Map` refines the builtin map for every hash/seed/hint/history (`Props/C11`).
Every protocol-level trace of the real code under the cooperative scheduler is a run of M4a (trace
correspondence), and every explored history of the real `Map` is judged by the Lean linearizability checker.
**Partial**: the composition of these layers into one linearizability theorem for M4a (helping step of `Clear` for
writers that are past their checks, reader hindsight across table generations) is argued in DESIGN.md §4.3, not
mechanised.
-/
namespace Props.C03
open Model.SlotMap Proofs.SlotMapHindsight

variable {K V : Type} [DecidableEq K] (top : K → Nat)

/-- **the lock-free `Load` is atomic**: its result was the chain's logical content for its key at some instant
between the start of the lookup and its end — for every interleaving with the lock holder's micro-stores
(insert: word, value, key; delete: word, value, key; update: value; append), slot reuse included -/
theorem C03_reader_hindsight (k0 : K) (pre mid : List (Act K V)) (t : Tid) (k : K) (s : St K V)
    (hns : ∀ a ∈ mid, ∀ k', a ≠ Act.start t k')
    (hrun : run top (init k0) (pre ++ [Act.start t k] ++ mid) = some s)
    (hdone : (s.r t).pc = .done) :
    ∃ j, j ≤ mid.length ∧ ∃ s', run top (init k0) (pre ++ [Act.start t k] ++ mid.take j) = some s' ∧
      content top s'.g k = (s.r t).result :=
  reader_hindsight top k0 pre mid t k s hns hrun hdone

/-- the slot representation invariant (unique value pointers, one slot per key, exact partial states of the slot
under update) holds in every reachable chain state -/
theorem C03_slot_invariant (k0 : K) (as : List (Act K V)) (s : St K V) (h : run top (init k0) as = some s) :
    RI top s.g :=
  ri_run top as _ s (ri_init top k0) h

/-- a reader running alone (writer stalled anywhere, even in the middle of its micro-stores) finishes within
`(3·S+2)·(chain length+1)` of its own steps and returns the current logical content -/
theorem C03_solo_reader (g : G K V) (k : K) (ri : RI top g) :
    ∃ n, n ≤ (3 * S + 2) * (g.buckets.length + 1) ∧
      (soloReader top g { key := k, pc := .rdWord 0, result := none } n).pc = .done ∧
      (soloReader top g { key := k, pc := .rdWord 0, result := none } n).result = content top g k := by
  obtain ⟨n, hn, hd⟩ := solo_terminates top g k
  exact ⟨n, hn, hd, solo_result_any top g k ri n hd⟩

/-! ### protocol level (M4a): what a resize and a commit do to the abstract content -/
section proto
open Model.Proto Proofs.ProtoData
variable {K V : Type} [DecidableEq K] (p : Params K)

/-- **no entry is lost, duplicated or resurrected by a concurrent grow or shrink**: publishing the new table does
not change what lookups see — for every schedule, with writers racing the bucket-by-bucket copy -/
theorem C03_resize_preserves_content (hmin : 0 < p.minLen) (s : Model.Proto.St K V) (h : Reach p s) (t : Model.Proto.Tid)
    (c : Choice K V) (g' : Model.Proto.G K V) (l' : L K V)
    (hpc : (s.l t).pc = .rzPublish) (hh : (s.l t).hint ≠ .clear) (hs : tstep p t s.g (s.l t) c = some (g', l')) :
    ∀ k, absGet g' k = absGet s.g k :=
  publish_preserves_abs p hmin s h t c g' l' hpc hh hs

/-- **the content changes only at a writer's commit on the current table, or at Clear's publish** (no other step of
any thread — copy, retry, wait, Range, a commit into a retired table — is visible to lookups) -/
theorem C03_content_changes_only_at_commit_or_clear (hmin : 0 < p.minLen) (s : Model.Proto.St K V) (h : Reach p s)
    (t : Model.Proto.Tid) (c : Choice K V) (g' : Model.Proto.G K V) (l' : L K V)
    (hs : tstep p t s.g (s.l t) c = some (g', l')) (hne : ∃ k, absGet g' k ≠ absGet s.g k) :
    ((s.l t).pc = .dcCommit ∧ (s.l t).tbl = s.g.cur) ∨ ((s.l t).pc = .rzPublish ∧ (s.l t).hint = .clear) :=
  abs_changes_only_at_commit_or_clear p hmin s h t c g' l' hs hne

/-- a commit touches only the key of its call (no cross-key effect) -/
theorem C03_commit_changes_only_its_key (t : Model.Proto.Tid) (g : Model.Proto.G K V) (l : L K V) (c : Choice K V)
    (g' : Model.Proto.G K V) (l' : L K V) (hpc : l.pc = .dcCommit) (hs : tstep p t g l c = some (g', l')) :
    ∀ k', some k' ≠ opKey l → absGet g' k' = absGet g k' :=
  commit_changes_only_key p t g l c g' l' hpc hs

/-- **once Clear's publish step has happened nothing stored before remains** -/
theorem C03_clear_empties (hmin : 0 < p.minLen) (s : Model.Proto.St K V) (h : Reach p s) (t : Model.Proto.Tid)
    (c : Choice K V) (g' : Model.Proto.G K V) (l' : L K V)
    (hpc : (s.l t).pc = .rzPublish) (hh : (s.l t).hint = .clear) (hs : tstep p t s.g (s.l t) c = some (g', l')) :
    ∀ k, absGet g' k = none :=
  clear_publish_empties p hmin s h t c g' l' hpc hh hs

/-- while a grow/shrink copies, no writer that is past its re-checks holds a bucket that was already copied -/
theorem C03_no_writer_in_copied_bucket (hmin : 0 < p.minLen) (s : Model.Proto.St K V) (h : Reach p s)
    (r u : Model.Proto.Tid) (c : Nat) (hc : copyC (s.l r) = some c) (hp : pastChk (s.l u).pc = true)
    (ht : (s.l u).tbl = (s.l r).rtbl) : c ≤ (s.l u).bi :=
  (no_writer_in_copied_bucket p hmin s h r u c hc hp ht).1

end proto

end Props.C03
