import CacheVerif.Proofs.ProtoClear
import CacheVerif.Proofs.ProtoCompose
import CacheVerif.Proofs.Wrappers
import CacheVerif.Proofs.ProtoHW
import CacheVerif.Spec.Linearizability
import CacheVerif.Proofs.SlotMapHindsight
import CacheVerif.Props.C11
/-!
# C03 — `Map` (string keys) is linearizable, also across grow, shrink and Clear

Mechanised parts (all schedules, any number of goroutines):
* **slot level (M4b, `Model.SlotMap`)**: the lock-free three-read atomic snapshot of `Load` returns the logical
  content of its key at some instant inside the call, whatever legal micro-stores the lock holder interleaves
  (`C03_reader_hindsight`); it can therefore be replaced by one atomic read — never a value stored under
  another key, never a mix of two writes; the slot representation invariant is preserved by every writer
  micro-step (`C03_slot_invariant`);
* **protocol level (M4a, `Model.Proto`)**: mutual exclusion of bucket locks, resize flag and wake-up protocol
  (`Props/C13`), and — when `Proofs/ProtoData.lean` is present in the tree — "a grow/shrink publishes a table with
  exactly the same bindings" and "the abstract content changes only at a writer's commit on the current table
  and at Clear's publish";
* **sequential level (M3)**: `Map` refines the builtin map for every hash/seed/hint/history (`Props/C11`).
Every protocol-level trace of the real code under the cooperative scheduler is a run of M4a (trace
correspondence), and every explored history of the real `Map` is judged by the Lean linearizability checker.
* **linearizability of M4a** (`C03_C04_writer_linearizable`, `C03_C04_load_hindsight`, for every schedule, any number
  of goroutines, any layout): every completed writing call has a linearization step inside the call — its own commit
  (or lock-protected hit) on the current table, where the abstract content changes exactly as the builtin-map
  semantics `specDc` says and the call returns what it says; or, if `Clear` retired its table after it had passed
  its re-checks, the `Clear` publish step, immediately before which it is linearized (the helping step: `Clear`
  locks no bucket); every lookup returns the abstract binding of a state visited during the call (or of the
  virtual state between a helped writer and its `Clear`).
* **one linearization log per run** (`C03_C04_log_legal_state`, `C03_C04_writer_once`, `C03_C04_reader_point`,
  `C03_C04_fastpath_point`): the linearization steps of all calls of a run, in the order of the run (helped writers
  immediately before the `Clear` that helps them), form a legal history of the builtin map whose final state is the
  map's abstract content; every completed call is at exactly one position of it, inside its own interval, with the
  result it returned.  This is the linearization-point form of Herlihy–Wing linearizability for the whole history.
  The bridge to Herlihy–Wing's permutation wording is the generic `C03_C04_points_give_hw_witness`; its
  instantiation for M4a's event lists (reading the call records off a run) is bookkeeping and is not written out.
**Partial**: M4a's chain read is one atomic step (justified by the M4b hindsight theorems above — the composition
of the two models is argued in DESIGN.md §4.3, not mechanised).
-/
namespace Props.C03
open Model.SlotMap Proofs.SlotMapHindsight

variable {K V : Type} [DecidableEq K] (top : K → Nat)

/-- **the lock-free `Load` is atomic**: its result was the chain's logical content for its key at some instant
between the start of the lookup and its end — for every interleaving with the lock holder's micro-stores
(insert: word, value, key; delete: word, value, key; update: value; append), slot reuse included -/
theorem C03_reader_hindsight (k0 : K) (pre mid : List (Act K V)) (t : Tid) (k : K) (s : St K V)
    (hns : ∀ a ∈ mid, ∀ k', a ≠ Act.start t k')
    (hrun : run top (init k0) (pre ++ [Act.start t k] ++ mid) = some s)
    (hdone : (s.r t).pc = .done) :
    ∃ j, j ≤ mid.length ∧ ∃ s', run top (init k0) (pre ++ [Act.start t k] ++ mid.take j) = some s' ∧
      content top s'.g k = (s.r t).result :=
  reader_hindsight top k0 pre mid t k s hns hrun hdone

/-- the slot representation invariant (unique value pointers, one slot per key, exact partial states of the slot
under update) holds in every reachable chain state -/
theorem C03_slot_invariant (k0 : K) (as : List (Act K V)) (s : St K V) (h : run top (init k0) as = some s) :
    RI top s.g :=
  ri_run top as _ s (ri_init top k0) h

/-- a reader running alone (writer stalled anywhere, even in the middle of its micro-stores) finishes within
`(3·S+2)·(chain length+1)` of its own steps and returns the current logical content -/
theorem C03_solo_reader (g : G K V) (k : K) (ri : RI top g) :
    ∃ n, n ≤ (3 * S + 2) * (g.buckets.length + 1) ∧
      (soloReader top g { key := k, pc := .rdWord 0, result := none } n).pc = .done ∧
      (soloReader top g { key := k, pc := .rdWord 0, result := none } n).result = content top g k := by
  obtain ⟨n, hn, hd⟩ := solo_terminates top g k
  exact ⟨n, hn, hd, solo_result_any top g k ri n hd⟩

/-! ### protocol level (M4a): what a resize and a commit do to the abstract content -/
section proto
open Model.Proto Proofs.ProtoData Proofs.ProtoLin
variable {K V : Type} [DecidableEq K] (p : Params K)

/-- **no entry is lost, duplicated or resurrected by a concurrent grow or shrink**: publishing the new table does
not change what lookups see — for every schedule, with writers racing the bucket-by-bucket copy -/
theorem C03_resize_preserves_content (hmin : 0 < p.minLen) (s : Model.Proto.St K V) (h : Reach p s) (t : Model.Proto.Tid)
    (c : Choice K V) (g' : Model.Proto.G K V) (l' : L K V)
    (hpc : (s.l t).pc = .rzPublish) (hh : (s.l t).hint ≠ .clear) (hs : tstep p t s.g (s.l t) c = some (g', l')) :
    ∀ k, absGet g' k = absGet s.g k :=
  publish_preserves_abs p hmin s h t c g' l' hpc hh hs

/-- **the content changes only at a writer's commit on the current table, or at Clear's publish** (no other step of
any thread — copy, retry, wait, Range, a commit into a retired table — is visible to lookups) -/
theorem C03_content_changes_only_at_commit_or_clear (hmin : 0 < p.minLen) (s : Model.Proto.St K V) (h : Reach p s)
    (t : Model.Proto.Tid) (c : Choice K V) (g' : Model.Proto.G K V) (l' : L K V)
    (hs : tstep p t s.g (s.l t) c = some (g', l')) (hne : ∃ k, absGet g' k ≠ absGet s.g k) :
    ((s.l t).pc = .dcCommit ∧ (s.l t).tbl = s.g.cur) ∨ ((s.l t).pc = .rzPublish ∧ (s.l t).hint = .clear) :=
  abs_changes_only_at_commit_or_clear p hmin s h t c g' l' hs hne

/-- a commit touches only the key of its call (no cross-key effect) -/
theorem C03_commit_changes_only_its_key (t : Model.Proto.Tid) (g : Model.Proto.G K V) (l : L K V) (c : Choice K V)
    (g' : Model.Proto.G K V) (l' : L K V) (hpc : l.pc = .dcCommit) (hs : tstep p t g l c = some (g', l')) :
    ∀ k', some k' ≠ opKey l → absGet g' k' = absGet g k' :=
  commit_changes_only_key p t g l c g' l' hpc hs

/-- **once Clear's publish step has happened nothing stored before remains** -/
theorem C03_clear_empties (hmin : 0 < p.minLen) (s : Model.Proto.St K V) (h : Reach p s) (t : Model.Proto.Tid)
    (c : Choice K V) (g' : Model.Proto.G K V) (l' : L K V)
    (hpc : (s.l t).pc = .rzPublish) (hh : (s.l t).hint = .clear) (hs : tstep p t s.g (s.l t) c = some (g', l')) :
    ∀ k, absGet g' k = none :=
  clear_publish_empties p hmin s h t c g' l' hpc hh hs

/-- while a grow/shrink copies, no writer that is past its re-checks holds a bucket that was already copied -/
theorem C03_no_writer_in_copied_bucket (hmin : 0 < p.minLen) (s : Model.Proto.St K V) (h : Reach p s)
    (r u : Model.Proto.Tid) (c : Nat) (hc : copyC (s.l r) = some c) (hp : pastChk (s.l u).pc = true)
    (ht : (s.l u).tbl = (s.l r).rtbl) : c ≤ (s.l u).bi :=
  (no_writer_in_copied_bucket p hmin s h r u c hc hp ht).1

/-- **linearizability of every writing call** (`Store`, `LoadOrStore`, `LoadAndStore`, `LoadOrCompute`, `Compute`,
`LoadAndDelete`, `Delete` = `doCompute k f loadIfExists computeOnly`), for every schedule: a call that started
during `mid` … and returned `(a, b)` has a step inside `mid` at which it takes effect atomically according to the
builtin-map semantics `specDc`: (1) its own commit / lock-protected hit on the current table; or (2) a `Clear`
publish by another thread that retired its table after it had passed its re-checks — it is linearized immediately
before that `Clear`; or (3) the lock-free fast-path hit, whose value is a legal lookup answer. -/
theorem C03_C04_writer_linearizable (hmin : 0 < p.minLen) (pre mid : List (Model.Proto.Tid × Choice K V))
    (s0 s' : Model.Proto.St K V) (h0 : Model.Proto.run p (Model.Proto.init p) pre = some s0)
    (h1 : Model.Proto.run p s0 mid = some s') (t : Model.Proto.Tid)
    (k : K) (f : Option V → V × Bool) (lie co : Bool) (a : Option V) (b : Bool)
    (hstart : (s0.l t).pc = .dcFast ∨ (s0.l t).pc = .dcLoadTable)
    (hop : (s'.l t).op = some (.dc k f lie co)) (hret : (s'.l t).pc = .ret)
    (hres : (s'.l t).result = some (.val a b)) :
    (∃ e ∈ events p s0 mid, e.tid = t ∧ ((e.pre.l t).pc = .dcCommit ∨ (e.pre.l t).pc = .dcScan) ∧
        (e.pre.l t).tbl = e.pre.g.cur ∧ (e.pre.l t).op = some (.dc k f lie co) ∧
        absGet e.post.g k = (specDc f lie co (absGet e.pre.g k)).1 ∧
        (∀ k', k' ≠ k → absGet e.post.g k' = absGet e.pre.g k') ∧
        a = (specDc f lie co (absGet e.pre.g k)).2.1 ∧ b = (specDc f lie co (absGet e.pre.g k)).2.2) ∨
    (∃ e ∈ events p s0 mid, e.tid ≠ t ∧ HelpAt e t k f lie co ∧ (∀ k', absGet e.post.g k' = none) ∧
        a = (specDc f lie co (absGet e.pre.g k)).2.1 ∧ b = (specDc f lie co (absGet e.pre.g k)).2.2) ∨
    (lie = true ∧ ∃ x, a = some x ∧ b = (!co) ∧
      ((∃ st ∈ trace p s0 mid, absGet st.g k = some x) ∨
       (∃ e ∈ events p s0 mid, ∃ u f' lie' co', HelpAt e u k f' lie' co' ∧
          some x = (specDc f' lie' co' (absGet e.pre.g k)).1))) :=
  writer_linearizable p hmin pre mid s0 s' h0 h1 t k f lie co a b hstart hop hret hres

/-- **linearizability of `Load`** (hindsight across table generations): the value a lookup returns was the abstract
binding of its key in a state visited during the call, or the binding installed by a writer that a `Clear` issued
during the call helped (the virtual instant between that writer's linearization and the `Clear`) -/
theorem C03_C04_load_hindsight (hmin : 0 < p.minLen) (pre mid : List (Model.Proto.Tid × Choice K V))
    (s0 s' : Model.Proto.St K V) (h0 : Model.Proto.run p (Model.Proto.init p) pre = some s0)
    (h1 : Model.Proto.run p s0 mid = some s') (t : Model.Proto.Tid) (k : K) (v : Option V) (b : Bool)
    (hstart : (s0.l t).pc = .ldTable)
    (hop : (s'.l t).op = some (.load k)) (hret : (s'.l t).pc = .ret) (hres : (s'.l t).result = some (.val v b)) :
    (∃ g ∈ (states p (pre ++ mid)).drop pre.length, absGet g k = v) ∨
    (∃ e ∈ events p s0 mid, ∃ u f lie co, HelpAt e u k f lie co ∧ v = (specDc f lie co (absGet e.pre.g k)).1) :=
  load_hindsight_states p hmin pre mid s0 s' h0 h1 t k v b hstart hop hret hres

/-- the result of a call, once fixed at its linearization point, is what the call returns -/
theorem C03_C04_result_stable (s : Model.Proto.St K V) (h : Reach p s) (t : Model.Proto.Tid)
    (sched : List (Model.Proto.Tid × Choice K V)) (s' : Model.Proto.St K V)
    (hf : fixedPc (s.l t) ∨ (s.l t).pc = .ret) (hr : Model.Proto.run p s sched = some s')
    (hn : NoRet t (events p s sched)) :
    (s'.l t).result = (s.l t).result ∧ (s'.l t).op = (s.l t).op :=
  let r := result_stable p s s' h t hf sched hr hn
  ⟨r.2.1, r.2.2⟩

/-- `specDc` is the builtin map's `Compute` (and, with the flags of the other calls, `LoadOrStore`, `LoadAndStore`,
`LoadAndDelete`): new binding, returned value and flag agree with `Spec.AMap` -/
theorem specDc_is_AMap_compute [Inhabited V] (m : Spec.AMap K V) (k : K) (f : Option V → V × Bool) :
    ((Spec.AMap.compute m k f).1.get k = (specDc f false true (m.get k)).1) ∧
    ((Spec.AMap.compute m k f).2.2 = (specDc f false true (m.get k)).2.2) ∧
    ((Spec.AMap.compute m k f).2.1 = ((specDc f false true (m.get k)).2.1).getD default) := by
  unfold Spec.AMap.compute specDc
  cases hg : m.get k with
  | none =>
    by_cases hd : (f none).2 = true <;> simp [hd, hg, Spec.AMap.get_set]
  | some old =>
    by_cases hd : (f (some old)).2 = true <;> simp [hd, Spec.AMap.get_set, Spec.AMap.get_erase]

/-- **the writing methods of `Map`, as printed from `internal/xsync/map.go` on every run, are the builtin-map methods of
their names**: with `doCompute` meaning `specDc` (what a commit of M4a implements), the function and the two flags each
method passes give its `Spec.AMap` meaning - new binding of the key, returned value, returned flag -/
theorem C03_methods_are_spec [Inhabited V] (m : Spec.AMap K V) (k : K) (v : V) (g : Option V → V × Bool) :
    ((Proofs.Wrappers.viaSpec m k g Gen.Deep.Map_Store v).1 = (Spec.AMap.store m k v).get k) ∧
    ((Proofs.Wrappers.viaSpec m k g Gen.Deep.Map_LoadOrStore v).1 = (Spec.AMap.loadOrStore m k v).1.get k ∧
      (Proofs.Wrappers.viaSpec m k g Gen.Deep.Map_LoadOrStore v).2 = (Spec.AMap.loadOrStore m k v).2) ∧
    ((Proofs.Wrappers.viaSpec m k g Gen.Deep.Map_LoadAndStore v).1 = (Spec.AMap.loadAndStore m k v).1.get k ∧
      (Proofs.Wrappers.viaSpec m k g Gen.Deep.Map_LoadAndStore v).2 = (Spec.AMap.loadAndStore m k v).2) ∧
    ((Proofs.Wrappers.viaSpec m k g Gen.Deep.Map_LoadOrCompute v).1 = (Spec.AMap.loadOrStore m k v).1.get k ∧
      (Proofs.Wrappers.viaSpec m k g Gen.Deep.Map_LoadOrCompute v).2 = (Spec.AMap.loadOrStore m k v).2) ∧
    ((Proofs.Wrappers.viaSpec m k g Gen.Deep.Map_Compute v).1 = (Spec.AMap.compute m k g).1.get k ∧
      (Proofs.Wrappers.viaSpec m k g Gen.Deep.Map_Compute v).2 = (Spec.AMap.compute m k g).2) ∧
    ((Proofs.Wrappers.viaSpec m k g Gen.Deep.Map_LoadAndDelete v).1 = (Spec.AMap.loadAndDelete m k).1.get k ∧
      (Proofs.Wrappers.viaSpec m k g Gen.Deep.Map_LoadAndDelete v).2 = (Spec.AMap.loadAndDelete m k).2) ∧
    ((Proofs.Wrappers.viaSpec m k g Gen.Deep.Map_Delete v).1 = (Spec.AMap.loadAndDelete m k).1.get k) :=
  ⟨(Proofs.Wrappers.store_spec m k v g _ (Or.inl rfl)).1,
   ⟨(Proofs.Wrappers.loadOrStore_spec m k v g _ (Or.inl rfl)).1, (Proofs.Wrappers.loadOrStore_spec m k v g _ (Or.inl rfl)).2.1⟩,
   ⟨(Proofs.Wrappers.loadAndStore_spec m k v g _ (Or.inl rfl)).1, (Proofs.Wrappers.loadAndStore_spec m k v g _ (Or.inl rfl)).2.1⟩,
   ⟨(Proofs.Wrappers.loadOrCompute_spec m k v g _ (Or.inl rfl)).1, (Proofs.Wrappers.loadOrCompute_spec m k v g _ (Or.inl rfl)).2.1⟩,
   ⟨(Proofs.Wrappers.compute_spec m k v g _ (Or.inl rfl)).1, (Proofs.Wrappers.compute_spec m k v g _ (Or.inl rfl)).2.1⟩,
   ⟨(Proofs.Wrappers.loadAndDelete_spec m k v g _ (Or.inl rfl)).1, (Proofs.Wrappers.loadAndDelete_spec m k v g _ (Or.inl rfl)).2.1⟩,
   (Proofs.Wrappers.delete_spec m k v g _ (Or.inl rfl)).1⟩

/-- **M4a ⊕ M4b, the M4a half**: the lock-free lookup of the real code scans the bucket chain with several atomic loads, and
M4b (`C03_reader_hindsight`, `C04_reader_hindsight`) shows the scan returns the logical content of the chain at *some
instant during the scan* - an instant at which the M4a thread sits at its read pc.  The binding of the key in the
loaded generation at **any** such instant (`s1`: the thread is at the read pc; whatever happens afterwards, `mid2`) is a
legal answer for a lookup whose call covers the interval: it was the abstract binding at some state of the interval,
or is what a writer helped by a `Clear` in the interval left.  So M4a's one-step chain read can stand for the scan. -/
theorem C03_C04_read_any_instant (hmin : 0 < p.minLen) (pre mid1 mid2 : List (Model.Proto.Tid × Choice K V))
    (s0 s1 s' : Model.Proto.St K V) (h0 : Model.Proto.run p (Model.Proto.init p) pre = some s0)
    (h1 : Model.Proto.run p s0 mid1 = some s1) (h2 : Model.Proto.run p s1 mid2 = some s') (t : Model.Proto.Tid) (k : K)
    (hstart : (s0.l t).pc ≠ .ldRead) (hpc : (s1.l t).pc = .ldRead) :
    let v := (s1.g.tables (s1.l t).tbl).data.get k
    (∃ x ∈ trace p s0 (mid1 ++ mid2), absGet x.g k = v) ∨
    (∃ e ∈ events p s0 (mid1 ++ mid2), ∃ u f lie co, HelpAt e u k f lie co ∧ v = (specDc f lie co (absGet e.pre.g k)).1) :=
  Proofs.ProtoCompose.read_any_instant p hmin pre mid1 mid2 s0 s1 s' h0 h1 h2 t k hstart hpc

/-- **every completed `Clear` takes effect inside its interval** (every schedule; the call may lose the CAS on the
`resizing` flag to grows and shrinks any number of times - it waits and tries again, which is the repair of F4): between
the state in which thread `u` enters `Clear` and the state in which that call is at its return point there is a state -
the one right after `u`'s own publish step - in which the current table is empty.  So no entry whose store completed
before the `Clear` began is still present when it returns, unless it was stored again after that instant. -/
theorem C03_C04_clear_takes_effect (hmin : 0 < p.minLen) (u : Model.Proto.Tid) (pre mid : List (Model.Proto.Tid × Choice K V))
    (s0 s1 : Model.Proto.St K V) (h0 : Model.Proto.run p (Model.Proto.init p) pre = some s0)
    (h1 : Model.Proto.run p s0 mid = some s1) (hstart : (s0.l u).pc = .clTable) (hret : (s1.l u).pc = .ret) :
    ∃ σ ∈ trace p s0 mid, ∀ k, absGet σ.g k = none :=
  Proofs.ProtoClear.clear_takes_effect p hmin u pre mid s0 s1 h0 h1 hstart hret

/-- the operations of M4a that the trace acceptor starts for the API calls of the real code are the calls of `doCompute`
those methods make in the working tree (both files: `Proofs.Wrappers.twins`) -/
theorem C03_C04_model_ops_are_methods [Inhabited V] (k : K) (x : V) (g : Option V → V × Bool) :
    Model.Proto.api "store" k x g = some (.dc k (Gen.Deep.Map_Store.fnOf x g) Gen.Deep.Map_Store.lie Gen.Deep.Map_Store.co) ∧
    Model.Proto.api "loadorstore" k x g = some (.dc k (Gen.Deep.Map_LoadOrStore.fnOf x g) Gen.Deep.Map_LoadOrStore.lie Gen.Deep.Map_LoadOrStore.co) ∧
    Model.Proto.api "loadandstore" k x g = some (.dc k (Gen.Deep.Map_LoadAndStore.fnOf x g) Gen.Deep.Map_LoadAndStore.lie Gen.Deep.Map_LoadAndStore.co) ∧
    Model.Proto.api "loadorcompute" k x g = some (.dc k (Gen.Deep.Map_LoadOrCompute.fnOf x g) Gen.Deep.Map_LoadOrCompute.lie Gen.Deep.Map_LoadOrCompute.co) ∧
    Model.Proto.api "compute" k x g = some (.dc k (Gen.Deep.Map_Compute.fnOf x g) Gen.Deep.Map_Compute.lie Gen.Deep.Map_Compute.co) ∧
    Model.Proto.api "loadanddelete" k x g = some (.dc k (Gen.Deep.Map_LoadAndDelete.fnOf x g) Gen.Deep.Map_LoadAndDelete.lie Gen.Deep.Map_LoadAndDelete.co) ∧
    Model.Proto.api "delete" k x g = some (.dc k (Gen.Deep.Map_Delete.fnOf x g) Gen.Deep.Map_Delete.lie Gen.Deep.Map_Delete.co) :=
  Proofs.Wrappers.api_is_wrappers k x g

/-! ### the global linearization of a run (`Proofs/ProtoHW.lean`)

`wlog ts H` is ONE sequential history per run, built from the steps of the run: a commit or lock-protected hit on the
current table contributes the call with its result; the publish step of a `Clear` contributes the writers it helps
(those past their re-checks on the retired table that go on to take effect on it) immediately followed by the `Clear`
itself.  The four theorems say: the log is a legal history of the builtin map and reproduces the abstract content;
every completed writing call is in it exactly once, at a step inside the call's interval, with the result it returns;
every completed lookup returns the binding of its key after a prefix of the log that ends inside its interval. -/
section hw
open Proofs.ProtoHW

/-- **the linearization log is a legal builtin-map history and yields the abstract content of the final state**
(hence: a completed write is never lost, a deleted key never reappears, after `Clear` nothing stored before is left) -/
theorem C03_C04_log_legal_state (hmin : 0 < p.minLen) (ts : List Model.Proto.Tid)
    (sched : List (Model.Proto.Tid × Choice K V)) (s : Model.Proto.St K V)
    (hr : Model.Proto.run p (Model.Proto.init p) sched = some s) (hts : ∀ x ∈ sched, x.1 ∈ ts) :
    Legal (fun _ => none) (wlog ts (events p (Model.Proto.init p) sched)) ∧
    ∀ k, specFold (fun _ => none) (wlog ts (events p (Model.Proto.init p) sched)) k = absGet s.g k :=
  wlog_legal_state p hmin ts sched s hr hts

/-- **every completed writing call is in the log exactly once, at a step inside its interval, with its result**
(or it is a lock-free fast-path hit, which is a read: `C03_C04_fastpath_point`) -/
theorem C03_C04_writer_once (hmin : 0 < p.minLen) (ts : List Model.Proto.Tid)
    (pre mid post : List (Model.Proto.Tid × Choice K V)) (s0 s' s'' : Model.Proto.St K V)
    (h0 : Model.Proto.run p (Model.Proto.init p) pre = some s0) (h1 : Model.Proto.run p s0 mid = some s')
    (h2 : Model.Proto.run p s' post = some s'')
    (hts : ∀ x ∈ pre ++ mid ++ post, x.1 ∈ ts) (t : Model.Proto.Tid)
    (k : K) (f : Option V → V × Bool) (lie co : Bool) (a : Option V) (b : Bool)
    (hstart : (s0.l t).pc = .dcFast ∨ (s0.l t).pc = .dcLoadTable)
    (hn : NoRet t (events p s0 mid))
    (hop : (s'.l t).op = some (.dc k f lie co)) (hret : (s'.l t).pc = .ret)
    (hres : (s'.l t).result = some (.val a b)) :
    let C := contrib ts (events p (Model.Proto.init p) (pre ++ mid ++ post))
    let inside := ((C.drop pre.length).take mid.length).flatten
    (∃ before after, inside = before ++ [⟨t, .dc k f lie co, .val a b⟩] ++ after ∧
        (∀ x ∈ before ++ after, x.tid ≠ t)) ∨
    (lie = true ∧ (∀ x ∈ inside, x.tid ≠ t) ∧ ∃ x, a = some x ∧ b = (!co)) :=
  writer_once p hmin ts pre mid post s0 s' s'' h0 h1 h2 hts t k f lie co a b hstart hn hop hret hres

/-- **every completed `Load` returns the binding of its key after a log prefix that ends inside its interval** -/
theorem C03_C04_reader_point (hmin : 0 < p.minLen) (ts : List Model.Proto.Tid)
    (pre mid post : List (Model.Proto.Tid × Choice K V)) (s0 s' s'' : Model.Proto.St K V)
    (h0 : Model.Proto.run p (Model.Proto.init p) pre = some s0) (h1 : Model.Proto.run p s0 mid = some s')
    (h2 : Model.Proto.run p s' post = some s'')
    (hts : ∀ x ∈ pre ++ mid ++ post, x.1 ∈ ts) (t : Model.Proto.Tid) (k : K) (v : Option V) (b : Bool)
    (hstart : (s0.l t).pc = .ldTable)
    (hn : NoRet t (events p s0 mid))
    (hop : (s'.l t).op = some (.load k)) (hret : (s'.l t).pc = .ret) (hres : (s'.l t).result = some (.val v b)) :
    let C := contrib ts (events p (Model.Proto.init p) (pre ++ mid ++ post))
    let before := (C.take pre.length).flatten
    let inside := ((C.drop pre.length).take mid.length).flatten
    b = v.isSome ∧ ∃ n, n ≤ inside.length ∧ specFold (fun _ => none) (before ++ inside.take n) k = v :=
  reader_point p hmin ts pre mid post s0 s' s'' h0 h1 h2 hts t k v b hstart hn hop hret hres

/-- the same for the lock-free fast-path hit of `LoadOrStore` / `LoadOrCompute` -/
theorem C03_C04_fastpath_point (hmin : 0 < p.minLen) (ts : List Model.Proto.Tid)
    (pre mid post : List (Model.Proto.Tid × Choice K V)) (s0 s' s'' : Model.Proto.St K V)
    (h0 : Model.Proto.run p (Model.Proto.init p) pre = some s0) (h1 : Model.Proto.run p s0 mid = some s')
    (h2 : Model.Proto.run p s' post = some s'')
    (hts : ∀ x ∈ pre ++ mid ++ post, x.1 ∈ ts) (t : Model.Proto.Tid)
    (k : K) (f : Option V → V × Bool) (co : Bool) (x : V)
    (hstart : (s0.l t).pc = .dcFast)
    (hn : NoRet t (events p s0 mid))
    (hop : (s'.l t).op = some (.dc k f true co)) (hret : (s'.l t).pc = .ret)
    (hres : (s'.l t).result = some (.val (some x) (!co))) :
    let C := contrib ts (events p (Model.Proto.init p) (pre ++ mid ++ post))
    let before := (C.take pre.length).flatten
    let inside := ((C.drop pre.length).take mid.length).flatten
    (∀ y ∈ inside, y.tid ≠ t) →
    ∃ n, n ≤ inside.length ∧ specFold (fun _ => none) (before ++ inside.take n) k = some x :=
  fastpath_point p hmin ts pre mid post s0 s' s'' h0 h1 h2 hts t k f co x hstart hn hop hret hres

/-- **from linearization points to Herlihy–Wing's permutation wording** (generic, `Spec/Linearizability.lean`): calls
ordered by linearization times that lie inside their intervals, forming a legal sequential history, are a
Herlihy–Wing witness (same calls, legal, real-time precedence preserved).  The log theorems above provide exactly
these ingredients for every run of M4a: the log is legal, it is ordered by the steps that contribute its entries, and
each entry's step lies inside its call's interval. -/
theorem C03_C04_points_give_hw_witness {S O R : Type} (step : S → O → S × R) (s0 : S) (H L : List (Spec.HW.Call O R))
    (hperm : L.Perm H) (hlegal : Spec.HW.legal step s0 L)
    (hin : ∀ c ∈ H, c.inv ≤ c.lp ∧ c.lp ≤ c.resp)
    (hsorted : L.Pairwise fun a b => a.lp ≤ b.lp) : Spec.HW.Witness step s0 H L :=
  Spec.HW.witness_of_points step s0 H L hperm hlegal hin hsorted

end hw

/-- non-vacuity: a concrete run meets every hypothesis of `C03_C04_writer_linearizable` (a `Store(1, 5)` on the empty
map, started at the end of `pre`, returning at the end of `mid`) -/
def exP : Model.Proto.Params Nat := { growThr := fun n => n * 9 / 4, shrinkThr := fun n => n * 3 / 128, bkt := fun _ k => k, minLen := 2, growOnly := false, stripes := fun _ => 8 }

example : ∃ (s0 s' : Model.Proto.St Nat Nat),
    Model.Proto.run exP (Model.Proto.init exP)
      [(0, { op := some (.dc 1 (fun _ => (5, false)) false false) })] = some s0 ∧
    Model.Proto.run exP s0 (List.replicate 10 (0, {})) = some s' ∧
    (s0.l 0).pc = .dcLoadTable ∧ (s'.l 0).pc = .ret ∧ (s'.l 0).result = some (.val (some 5) false) ∧
    absGet s'.g 1 = some 5 := ⟨_, _, rfl, rfl, rfl, rfl, rfl, rfl⟩

/-- non-vacuity of `C03_C04_clear_takes_effect`: after `Store(1, 5)` by thread 0, thread 1 runs `Clear` to its return
point; the hypotheses hold and the content, non-empty when the call began, is empty when it returns -/
example : ∃ (s0 s1 : Model.Proto.St Nat Nat),
    Model.Proto.run exP (Model.Proto.init exP)
      ((0, { op := some (.dc 1 (fun _ => (5, false)) false false) }) :: List.replicate 11 (0, ({} : Choice Nat Nat)) ++ [(1, { op := some .clear })]) = some s0 ∧
    Model.Proto.run exP s0 (List.replicate 10 (1, ({} : Choice Nat Nat))) = some s1 ∧
    (s0.l 1).pc = .clTable ∧ (s1.l 1).pc = .ret ∧ absGet s0.g 1 = some 5 ∧ absGet s1.g 1 = none :=
  ⟨_, _, rfl, rfl, rfl, rfl, rfl, rfl⟩

end proto

end Props.C03
