import CacheVerif.Proofs.ProtoLocks
import CacheVerif.Proofs.ProtoHold
import CacheVerif.Proofs.ProtoData
import CacheVerif.Proofs.ProtoRange
import CacheVerif.Proofs.DeepTrace
import CacheVerif.Proofs.DeepTraceOf
/-!
# C13 — every call terminates: no deadlock or lost wake-up; callbacks may re-enter

Theorems about M4a (`Model.Proto`: threads × atomic steps of `Load`, `doCompute`, `resize`, `waitForResize`,
`Range`, `Clear`, `Size`; any number of goroutines, any schedule, any keys, table sizes and chain layouts).
What they exclude: every reachable state from which progress is impossible (deadlock, lost wake-up, leaked
lock).  **Partial** with respect to the property text: "every call returns" under *every* interleaving is false
for any lock under an unfair scheduler; fairness of the Go scheduler and of `sync.Mutex` is runtime behaviour
the model cannot exhibit.  The model's bucket lock blocks instead of spinning; `valueFn` is a pure function
(the property's own exclusion).
-/
namespace Props.C13
open Model.Proto Proofs.ProtoLocks

variable {K V : Type} [DecidableEq K] (p : Params K)

/-- **every internal lock is released on every return path** (hit, miss, delete of an absent key, retry after
a resize, abandoned shrink, lost CAS): a thread that is idle or at its return point holds no bucket lock, not
`resizeMu`, and does not own the `resizing` flag -/
theorem C13_locks_released (s : St K V) (h : Reach p s) (u : Tid)
    (hpc : (s.l u).pc = .idle ∨ (s.l u).pc = .ret) :
    (∀ T i, (s.g.tables T).lock i ≠ some u) ∧ s.g.mu ≠ some u ∧ s.g.resizer ≠ some u :=
  locks_released p s h u (by rcases hpc with e | e; exact Or.inl e; exact Or.inr (Or.inl e))

/-- **the Range visitor runs with no internal lock held**, so it may call any method of the same container
(the model lets a visitor start arbitrary nested calls, which are ordinary calls by a thread that holds nothing) -/
theorem C13_reentrant (s : St K V) (h : Reach p s) (u : Tid) (hpc : (s.l u).pc = .rgVisit) :
    (∀ T i, (s.g.tables T).lock i ≠ some u) ∧ s.g.mu ≠ some u ∧ s.g.resizer ≠ some u :=
  locks_released p s h u (Or.inr (Or.inr hpc))

/-- **nobody is left waiting for a resize that has already finished**: whoever is on the condition variable's
notify list is parked, and either the resize is still in progress or the broadcast that wakes it is the very
next step of the thread that cleared the flag -/
theorem C13_no_lost_wakeup (s : St K V) (h : Reach p s) (u : Tid) (hw : s.g.waiting u = true) :
    (s.l u).pc = .wfPark ∧ (s.g.resizing = true ∨ ∃ b, (s.l b).pc = .rzBroadcast) :=
  no_lost_wakeup p s h u hw

/-- **mutual exclusion** of every bucket lock (two lock holders of one root bucket are the same thread) -/
theorem C13_mutex (s : St K V) (h : Reach p s) (t u : Tid) (T i : Nat)
    (ht : holdsBucket (s.l t) = some (T, i)) (hu : holdsBucket (s.l u) = some (T, i)) : t = u :=
  mutex p s h t u T i ht hu

/-- **deadlock freedom**: in every reachable state in which some thread is inside a call, some thread that is
itself inside a call can take a step, whatever the inputs (layout, visitor) are -/
theorem C13_deadlock_free (s : St K V) (h : Reach p s) (t : Tid)
    (hmid : (s.l t).pc ≠ .idle ∧ (s.l t).pc ≠ .rgVisit) :
    ∃ u, (s.l u).pc ≠ .idle ∧ (s.l u).pc ≠ .rgVisit ∧ ∀ c, (step p s u c).isSome = true :=
  deadlock_free_strong p s h t hmid

/-- **a bucket lock is held for a bounded number of the holder's own steps, none of which can block** (every reachable
state, whatever the other threads do): the holder - a writer inside its critical section, the resizer copying one
bucket, `Range` snapshotting one bucket - can always take its next step, and that step either releases the lock or keeps
it with a strictly smaller measure, which never exceeds the number of counter stripes + 7.  So a thread that waits for
a bucket lock waits for finitely many, always enabled, steps of its holder; with `C13_deadlock_free` and
`C13_no_lost_wakeup` that is termination of every call under a fair scheduler (fairness itself is outside the model;
the user function of `Compute` is one step: the property's own exclusion). -/
theorem C13_lock_hold_bounded (hmin : 0 < p.minLen) (s : St K V) (h : Reach p s) (u : Tid) (T i : Nat)
    (hh : holdsBucket (s.l u) = some (T, i)) (c : Choice K V) :
    Proofs.ProtoHold.holdMeasure p s.g (s.l u) ≤ p.stripes (s.g.tables (s.l u).tbl).len + 7 ∧
    ∃ s', step p s u c = some s' ∧
      (holdsBucket (s'.l u) = none ∨
       (holdsBucket (s'.l u) = some (T, i) ∧
        Proofs.ProtoHold.holdMeasure p s'.g (s'.l u) < Proofs.ProtoHold.holdMeasure p s.g (s.l u))) := by
  have hi := inv_reach p s h
  have hd := Proofs.ProtoData.dinv_reach p hmin s h
  refine ⟨?_, ?_⟩
  · unfold Proofs.ProtoHold.holdMeasure
    cases (s.l u).pc <;> simp <;> omega
  · have hen := Proofs.ProtoHold.holder_enabled p u s.g (s.l u) c (hi.2 u).wf T i hh
    cases hts : tstep p u s.g (s.l u) c with
    | none => rw [hts] at hen; cases hen
    | some r =>
      obtain ⟨g', l'⟩ := r
      refine ⟨{ g := g', l := fun x => if x = u then l' else s.l x }, by simp [step, hts], ?_⟩
      have hlt : (s.l u).tbl < s.g.ntables := Nat.lt_of_le_of_lt (hd.ld u).tblLe hi.1.2
      have hlen := Proofs.ProtoData.step_len p u s.g (s.l u) c g' l' hts (s.l u).tbl hlt
      have := Proofs.ProtoHold.hold_step p u s.g (s.l u) c g' l' T i hh hts hlen
      simpa using this

/-- the same for `resizeMu`: its holder (the resizer lowering the flag and broadcasting; a waiter between `Lock` and
`cond.Wait` / `Unlock`) is always enabled and releases it within three of its own steps -/
theorem C13_mu_hold_bounded (s : St K V) (h : Reach p s) (u : Tid) (hh : holdsMu (s.l u).pc = true) (c : Choice K V) :
    Proofs.ProtoHold.muMeasure (s.l u) ≤ 3 ∧
    ∃ s', step p s u c = some s' ∧
      (holdsMu (s'.l u).pc = false ∨
       (holdsMu (s'.l u).pc = true ∧ Proofs.ProtoHold.muMeasure (s'.l u) < Proofs.ProtoHold.muMeasure (s.l u))) := by
  have hi := inv_reach p s h
  refine ⟨?_, ?_⟩
  · unfold Proofs.ProtoHold.muMeasure
    cases (s.l u).pc <;> simp
  · have hen := Proofs.ProtoHold.mu_holder_enabled p u s.g (s.l u) c (hi.2 u).wf hh
    cases hts : tstep p u s.g (s.l u) c with
    | none => rw [hts] at hen; cases hen
    | some r =>
      obtain ⟨g', l'⟩ := r
      refine ⟨{ g := g', l := fun x => if x = u then l' else s.l x }, by simp [step, hts], ?_⟩
      have := Proofs.ProtoHold.mu_hold_step p u s.g (s.l u) c g' l' hh hts
      simpa using this

/-- **a resize lowers the `resizing` flag after a bounded number of the resizer's own steps**: every step the thread that owns
the flag takes either lowers it or strictly decreases a measure bounded by 3·(root buckets of the table being copied) +
(counter stripes) + 9.  The resizer can be blocked only while it waits for a bucket lock or for `resizeMu`, whose holders
need boundedly many, always enabled, steps (`C13_lock_hold_bounded`, `C13_mu_hold_bounded`); everybody parked on the
condition variable is then woken (`C13_no_lost_wakeup`). -/
theorem C13_resize_bounded (hmin : 0 < p.minLen) (s s' : St K V) (h : Reach p s) (u : Tid) (c : Choice K V)
    (hr : isResizer (s.l u).pc = true) (hs : step p s u c = some s') :
    isResizer (s'.l u).pc = false ∨
    (isResizer (s'.l u).pc = true ∧
      Proofs.ProtoHold.flagMeasure p s'.g (s'.l u) < Proofs.ProtoHold.flagMeasure p s.g (s.l u)) := by
  have hi := inv_reach p s h
  obtain ⟨g', l', hts, rfl⟩ := Proofs.ProtoRange.step_cases p s s' u c hs
  have hlen := Proofs.ProtoData.step_len p u s.g (s.l u) c g' l' hts
  have := Proofs.ProtoHold.flag_hold_step p u s.g (s.l u) c g' l' hr hts
    (fun hu => hlen _ ((hi.2 u).rtblLt hu)) (hlen _ hi.1.2)
  simpa using this

/-- **a writer retries only before it has called the user function** (resize in progress, newer table, need to
grow): after the call it proceeds to commit, unlock and return -/
theorem C13_retry_only_before_fn (s : St K V) (h : Reach p s) (u : Tid) (hfn : (s.l u).fnCalls = 1) :
    (s.l u).pc ≠ .dcLoadTable ∧ (s.l u).pc ≠ .dcLock ∧ .dcRetry ∉ (s.l u).conts := by
  have := no_retry_after_fn' p s h u hfn
  exact ⟨this.2.1, this.2.2.1, this.2.2.2.2⟩

/-! ### Non-vacuity: a reachable state with a resizer in the copy phase and a parked waiter exists in the model
(the scheduler exploration replays such states on the real code); here: the initial state is reachable and the
hypotheses of `C13_deadlock_free` are satisfiable after one step. -/
def exP : Params Nat := { growThr := fun n => n * 9 / 4, shrinkThr := fun n => n * 3 / 128, bkt := fun _ k => k, minLen := 2, growOnly := false, stripes := fun _ => 8 }

example : Reach (V := Nat) exP (init exP) := ⟨[], rfl⟩
/-- non-vacuity of `C13_lock_hold_bounded`: after two steps of `Store(1, 5)` thread 0 holds the lock of root bucket 1 of
generation 0, with measure 8 + 7 -/
example : ∃ s, run (V := Nat) exP (init exP) [(0, { op := some (.dc 1 (fun _ => (5, false)) false false) }), (0, {}), (0, {})] = some s ∧
    holdsBucket (s.l 0) = some (0, 1) ∧ Proofs.ProtoHold.holdMeasure exP s.g (s.l 0) = 15 := ⟨_, rfl, rfl, rfl⟩
example : ∃ s, run (V := Nat) exP (init exP) [(0, { op := some (.dc 1 (fun _ => (5, false)) false false) }), (0, {}), (0, {})] = some s ∧
    (s.l 0).pc = .dcChkResizing := ⟨_, rfl, rfl⟩

/-! ### The evicted callback runs outside internal locks — in the source text

`Deep.deepTrace` runs the method bodies printed from the working tree with a tracing interpreter that marks an
evicted callback (or a visitor) invoked from inside a closure handed to `Compute`, i.e. under a bucket lock, as
`calledLocked`.  For every state and every call of `Set`, the `Get` family, `GetOrSet`, `GetAndSet`,
`GetAndRefresh`, `GetOrCompute`, `Compute`, `GetAndDelete`, `Delete`, `DeleteExpired`, `Clear`, `Count` and the two
setters, in both files, the trace contains no such action: whatever the callback then does (re-enter the cache
included), it holds no lock of the cache. -/

section source
open Model Model.ConcCache
variable {K V : Type} [DecidableEq K] [Inhabited V]

theorem C13_source_callbacks_unlocked (s : CSt K V) (op : COp K V) :
    (∀ r, Deep.deepTrace Deep.twinMapTr s (toSpec op) = some r → Deep.Ev.calledLocked ∉ r.2.2) ∧
    (∀ r, Deep.deepTrace Deep.twinMapOfTr s (toSpec op) = some r → Deep.Ev.calledLocked ∉ r.2.2) :=
  ⟨DeepTrace.callbacks_unlocked s op, DeepTraceOf.callbacks_unlocked s op⟩

/-- the same for `Range`'s visitor (cache layer): it is invoked with no bucket lock held, for every state and visitor -/
theorem C13_source_visitor_unlocked (s : CSt K V) (f : K → V → Bool) :
    (∀ r, Deep.deepTrace Deep.twinMapTr s (.range f) = some r → Deep.Ev.calledLocked ∉ r.2.2) ∧
    (∀ r, Deep.deepTrace Deep.twinMapOfTr s (.range f) = some r → Deep.Ev.calledLocked ∉ r.2.2) :=
  ⟨DeepTrace.visitor_unlocked s f, DeepTraceOf.visitor_unlocked s f⟩

/-- not vacuous: the traced run exists and records the callback as an ordinary (unlocked) action -/
example : (Deep.deepTrace Deep.twinMapTr (⟨[("a", ⟨1, 5⟩)], 10, 0, some 7⟩ : CSt String Nat) (.getAndDelete "a")).map (·.2.2) =
    some [.compute "a", .loadSetting "evictedCallback", .fire 7 "a" 1] := by
  simp [Deep.deepTrace, deep_simp, Deep.twinMapTr, Deep.twinMap, Spec.AMap.erase, Gen.item_expired]
end source

end Props.C13
