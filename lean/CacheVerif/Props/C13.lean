import CacheVerif.Model.Proto
namespace Props.C13
theorem placeholder : True := trivial
end Props.C13
