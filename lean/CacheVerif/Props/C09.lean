import CacheVerif.Proofs.CacheRefine
import CacheVerif.Proofs.Twin
import CacheVerif.Proofs.ConcCacheLin
import CacheVerif.Proofs.DeepSource
/-!
# C09 — expiration instants are computed and reported exactly as the TTL dictates

All statements are for every TTL argument `d : Int` (so −2 s, −1 s, −1 ns, 0, 1 ns, huge are instances),
every default, every clock value and every state; they are stated on `Model.Cache` and hold for
`Model.CacheOf` by `C09_twin`.  The decision code (`expiration`, `configDefault`, the sentinels) is
machine-translated from the working tree, so these theorems are re-proved against what the code says now.
-/
namespace Props.C09
open Spec Model Model.Cache Proofs.LeafCache Proofs.CacheRefine

variable {K V : Type} [DecidableEq K] [Inhabited V]

/-- **the expiration instant of a store**: `d > 0` → call time + `d`; `d = DefaultExpiration` → the default
in force (if that is ≥ 1 ns, else never); every other `d ≤ 0` → never (`0`) -/
theorem C09_expiration (d dflt now : Int) :
    Gen.expiration d dflt now =
      if d = -1000000000 then (if dflt > 0 then now + dflt else 0)
      else if d > 0 then now + d else 0 := by
  rw [expiration_eq]
  simp only [TTL.expiration, TTL.DefaultExpiration]
  by_cases h : d = -1000000000 <;> simp [h]

theorem C09_expirationOf (d dflt now : Int) : Gen.expirationOf d dflt now = Gen.expiration d dflt now := by
  rw [expirationOf_eq, expiration_eq]

/-- the sentinels -/
theorem C09_sentinels : Gen.DefaultExpiration = -1000000000 ∧ Gen.NoExpiration = -2000000000 := ⟨rfl, rfl⟩

/-- **constructor normalisation** (`configDefault`, both twins; applied on every constructor path): a default
below 1 ns becomes NoExpiration, a negative cleanup interval 0, a capacity below 96 becomes 96 -/
theorem C09_config (c : Gen.Config) :
    (Gen.configDefault (some c)).defaultExpiration = (if c.defaultExpiration < 1 then -2000000000 else c.defaultExpiration) ∧
    (Gen.configDefault (some c)).cleanupInterval = (if c.cleanupInterval < 0 then 0 else c.cleanupInterval) ∧
    (Gen.configDefault (some c)).minCapacity = (if c.minCapacity < 96 then 96 else c.minCapacity) ∧
    Gen.configDefaultOf (some c) = Gen.configDefault (some c) ∧
    Gen.configDefault none = { defaultExpiration := -2000000000, cleanupInterval := 10000000000, minCapacity := 96, hasCallback := false } := by
  refine ⟨?_, ?_, ?_, configDefaultOf_eq _, rfl⟩ <;> rw [configDefault_spec] <;> rfl

/-- every constructor variant installs the normalised default -/
theorem C09_constructed_default (c : Cache.Ctor) (now : Int) :
    (Cache.construct (K := K) (V := V) c now).1.dflt =
      match c with
      | .newOpts (some d) _ _ _ => if d < 1 then -2000000000 else d
      | .newOpts none _ _ _ => -2000000000
      | .newDefault d _ _ => if d < 1 then -2000000000 else d
      -- the default set twice in one option list: the later option wins, whatever the earlier one was
      | .newOptsOver _ d _ _ _ => if d < 1 then -2000000000 else d := by
  cases c with
  | newOpts d i cb m =>
    cases d <;> cases i <;> cases cb <;> cases m <;>
      simp [Cache.construct, Cache.newXsyncMap, Gen.newXsyncMap_dflt, Gen.newXsyncMap_hasCb, Gen.newXsyncMap_janitor, Gen.NewDefault_cfg, Gen.New_cfg, Gen.WithDefaultExpiration, Gen.WithCleanupInterval, Gen.WithEvictedCallback, Gen.WithMinCapacity, List.foldl, configDefault_spec, Gen.DefaultConfig_, Gen.NoExpiration, TTL.NoExpiration]
  | newDefault d i cb =>
    simp [Cache.construct, Cache.newXsyncMap, Gen.newXsyncMap_dflt, Gen.newXsyncMap_hasCb, Gen.newXsyncMap_janitor, Gen.NewDefault_cfg, Gen.New_cfg, Gen.WithDefaultExpiration, Gen.WithCleanupInterval, Gen.WithEvictedCallback, Gen.WithMinCapacity, List.foldl, configDefault_spec, TTL.NoExpiration]
  | newOptsOver b d i cb m =>
    cases i <;> cases cb <;> cases m <;>
      simp [Cache.construct, Cache.newXsyncMap, Gen.newXsyncMap_dflt, Gen.newXsyncMap_hasCb, Gen.newXsyncMap_janitor, Gen.NewDefault_cfg, Gen.New_cfg, Gen.WithDefaultExpiration, Gen.WithCleanupInterval, Gen.WithEvictedCallback, Gen.WithMinCapacity, List.foldl, configDefault_spec, Gen.DefaultConfig_, Gen.NoExpiration, TTL.NoExpiration]

/-- **re-arming**: after `Set`, `GetAndSet`, `GetAndRefresh` (hit), a storing `Compute`, and a storing
`GetOrSet`/`GetOrCompute`, the stored instant is `expiration d` of the default and clock *at that call* -/
theorem C09_rearm_set (s : St K V) (k : K) (v : V) (d : Int) :
    (step s (.set k v d)).1.items.get k = some ⟨v, Gen.expiration d s.dflt s.now⟩ := by
  simp [step, Cache.set, AMap.store, AMap.get_set, Cache.expiration]

theorem C09_rearm_getAndSet (s : St K V) (k : K) (v : V) (d : Int) :
    (step s (.getAndSet k v d)).1.items.get k = some ⟨v, Gen.expiration d s.dflt s.now⟩ := by
  simp only [step, AMap.compute]
  cases hg : s.items.get k with
  | none => simp [AMap.get_set, Cache.expiration]
  | some i => by_cases he : Cache.expired s i = true <;> simp [he, AMap.get_set, Cache.expiration]

theorem C09_rearm_refresh (s : St K V) (k : K) (d : Int) (i : Item V)
    (hg : s.items.get k = some i) (hl : Cache.expired s i = false) :
    (step s (.getAndRefresh k d)).1.items.get k = some ⟨i.v, Gen.expiration d s.dflt s.now⟩ := by
  simp [step, AMap.compute, hg, refreshFn, hl, AMap.get_set, Cache.expiration]

theorem C09_rearm_compute (s : St K V) (k : K) (g : Option V → V × Bool) (d : Int)
    (hs : (g (liveOld s (s.items.get k))).2 = false) :
    (step s (.compute k g d)).1.items.get k =
      some ⟨(g (liveOld s (s.items.get k))).1, Gen.expiration d s.dflt s.now⟩ := by
  cases hg : s.items.get k with
  | none =>
    rw [hg] at hs
    simp [step, AMap.compute, computeFn, hg, hs, AMap.get_set, Cache.expiration]
  | some i =>
    rw [hg] at hs
    simp [step, AMap.compute, computeFn, hg, hs, AMap.get_set, Cache.expiration]

theorem C09_rearm_getOrSet_miss (s : St K V) (k : K) (v : V) (d : Int)
    (hm : ∀ i, s.items.get k = some i → Cache.expired s i = true) :
    (step s (.getOrSet k v d)).1.items.get k = some ⟨v, Gen.expiration d s.dflt s.now⟩ ∧
    (step s (.getOrCompute k v d)).1.items.get k = some ⟨v, Gen.expiration d s.dflt s.now⟩ := by
  simp only [step, AMap.compute]
  cases hg : s.items.get k with
  | none => simp [getOrSetFn, AMap.get_set, Cache.expiration]
  | some i => simp [getOrSetFn, hm i hg, AMap.get_set, Cache.expiration]

/-- **reads leave the expiry untouched**: a hit in `Get*`, `GetOrSet`, `GetOrCompute` keeps the stored item -/
theorem C09_untouched (s : St K V) (k : K) (v : V) (d : Int) (i : Item V)
    (hg : s.items.get k = some i) (hl : Cache.expired s i = false) :
    (step s (.get k)).1.items.get k = some i ∧ (step s (.getWithTTL k)).1.items.get k = some i ∧
    (step s (.getWithExpiration k)).1.items.get k = some i ∧
    (step s (.getOrSet k v d)).1.items.get k = some i ∧ (step s (.getOrCompute k v d)).1.items.get k = some i ∧
    (step s (.range fun _ _ => true)).1 = s ∧ (step s .items).1 = s := by
  refine ⟨?_, ?_, ?_, ?_, ?_, rfl, rfl⟩ <;>
    simp [step, Cache.get, AMap.load, AMap.compute, hg, hl, getOrSetFn, AMap.get_set]

/-- **exact reporting**: `GetWithExpiration` reports the stored instant (zero time when there is none),
`GetWithTTL` the time remaining to it at the call (NoExpiration when there is none) -/
theorem C09_report (s : St K V) (k : K) (i : Item V) (hg : s.items.get k = some i) (hl : Cache.expired s i = false) :
    (step s (.getWithExpiration k)).2.out = .valExp i.v (if i.e > 0 then i.e else 0) true ∧
    (step s (.getWithTTL k)).2.out = .valTTL i.v (if i.e > 0 then i.e - s.now else -2000000000) true := by
  constructor <;> simp [step, Cache.get, AMap.load, hg, hl, Gen.NoExpiration]

/-- **exact reporting, concurrent calls** (M5, `Model.ConcCache`; every reachable state of every schedule): the step at
which `GetWithTTL` of an entry with an expiration instant computes the remaining lifetime reads the clock *again*
(`time.Until`): it reports the value of the item `i` the call found, `true`, and `i.e - now` for the clock of that
step — not the clock of the earlier step at which `i` was found live (`t0 ≤ now`); so the reported lifetime is at most
`i.e - t0` (and is negative if the clock passed `i.e` in between).  Every other hit of the family reports as in
`C09_report`, with the clock of the step that finds the item (`ConcCache.hitResult`). -/
theorem C09_report_ttl_conc (dflt : Int) (cb : Option Nat) (now : Int) (h0 : 0 ≤ now) (s s' : ConcCache.St K V)
    (t : ConcCache.Tid) (c : ConcCache.Choice K V) (δ : Nat) (hr : ConcCache.Reach dflt cb now s)
    (hs : ConcCache.step s (some t) c δ = some s') (hpc : (s.l t).pc = .getTTLClock) :
    ∃ i k t0, (s.l t).loaded = some i ∧ (s.l t).op = some (.getWithTTL k) ∧ 0 < i.e ∧
      t0 ≤ s.g.now ∧ TTL.expired i.e t0 = false ∧
      (s'.l t).result = some (.valTTL i.v (i.e - s.g.now) true) ∧ i.e - s.g.now ≤ i.e - t0 := by
  obtain ⟨_, hl, hst, _, _⟩ := Proofs.ConcCacheLin.reach_tstep dflt cb now h0 s s' t c δ hr hs
  obtain ⟨_, i, k, t0, a1, a2, a3, _, a5, a6, _, a8, a9⟩ :=
    Proofs.ConcCacheLin.get_ttl_clock t s.g (s.l t) c s'.g (s'.l t) hl hpc hst
  exact ⟨i, k, t0, a1, a2, a3, a5, a6, a8, a9⟩

/-- **changing the default never alters entries already stored** -/
theorem C09_default_isolated (s : St K V) (d : Int) :
    (step s (.setDefaultExpiration d)).1.items = s.items ∧ (step s (.setDefaultExpiration d)).1.dflt = d ∧
    (step (step s (.setDefaultExpiration d)).1 .defaultExpiration).2.out = .dur d := ⟨rfl, rfl, rfl⟩

/-- the generic twin computes the same -/
theorem C09_twin (s : CSt K V) (op : Op K V) : CacheOf.step s op = Cache.step s op := Proofs.Twin.step_eq s op


/-! ### For the source text -/

/-- **C09 for the text of `Set` (and `expiration`) in both files**: after `Set(k, v, d)` the entry's instant is
`now + d` for `d > 0`, `now + default` for `d = DefaultExpiration` with a positive default in force, and
"never" (0) otherwise - computed by the interpreter from the generated syntax of `Set`, `expiration` and
`DefaultExpiration`. -/
theorem C09_source_set (s : CSt K V) (k : K) (v : V) (d : Int) (T : Deep.Twin K V)
    (hT : DeepSource.IsTwin T) :
    ∃ s' r, Deep.deepStep T s (.set k v d) = some (s', r) ∧
      s'.items.get k = some ⟨v, TTL.expiration d s.dflt s.now⟩ := by
  have h : (Cache.step s (.set k v d)).1.items.get k = some ⟨v, TTL.expiration d s.dflt s.now⟩ := by
    simp [Cache.step, Cache.set, AMap.store, AMap.get_set, expiration_eq']
  exact ⟨_, _, DeepSource.step s _ T hT, h⟩

/-- a user function that takes time: the entry stored by `GetOrCompute` on an absent key lives `d` from the moment
the function returned (`δ` after the call began), in the text of both files -/
theorem C09_source_slow_loader (s : CSt K V) (k : K) (f : V) (d : Int) (δ : Nat) (ha : s.items.get k = none)
    (T : Deep.Twin K V) (hT : DeepSource.IsTwin T) :
    ∃ s' r, Deep.deepStep T s (.getOrComputeSlow k f d δ) = some (s', r) ∧
      s'.now = s.now + δ ∧ s'.items.get k = some ⟨f, TTL.expiration d s.dflt (s.now + δ)⟩ := by
  have h : (Cache.step s (.getOrComputeSlow k f d δ)).1.now = s.now + δ ∧
      (Cache.step s (.getOrComputeSlow k f d δ)).1.items.get k = some ⟨f, TTL.expiration d s.dflt (s.now + δ)⟩ := by
    simp [Cache.step, AMap.compute, ha, AMap.get_set, Cache.expiration, Proofs.LeafCache.expiration_eq]
  exact ⟨_, _, DeepSource.step s _ T hT, h⟩

/-! ### Non-vacuity -/
example : Gen.expiration (-1) 50 1000 = 0 ∧ Gen.expiration 0 50 1000 = 0 ∧ Gen.expiration 1 50 1000 = 1001 ∧
    Gen.expiration (-1000000000) 50 1000 = 1050 ∧ Gen.expiration (-1000000000) 0 1000 = 0 ∧
    Gen.expiration (-2000000000) 50 1000 = 0 := by decide
example : (Cache.construct (K := String) (V := Nat) (.newDefault 0 0 none) 5).1.dflt = -2000000000 := by decide

end Props.C09
