import CacheVerif.Proofs.ProtoLocks
import CacheVerif.Proofs.ProtoHW
import CacheVerif.Props.C11
import CacheVerif.Props.C01
import CacheVerif.Proofs.DeepSource
/-!
# C05 — get-or-create and compute calls are atomic per key; user function runs once

* Invocation counts under every interleaving (M4a, ghost `fnCalls` per `doCompute` activation): at most once;
  exactly once for every call without the lock-free fast path (`Store`, `LoadAndStore`, `Compute`,
  `LoadAndDelete`, `Delete`); for `LoadOrStore`/`LoadOrCompute` exactly when the call reports `loaded = false`;
  and every retry edge (resize in progress, newer table, need to grow) leaves before the call.
* Sequential exactness (M3, M2): the number of invocations of every call equals the builtin-map / TTL
  semantics' (already part of `C11_run` and `C01_run`; restated here).
* "Exactly one winner among racers" and "no lost update" are consequences of linearizability (C02–C04) and of
  the sequential semantics: `Spec.once_winner` below.
-/
namespace Props.C05
open Model.Proto Proofs.ProtoLocks

section conc
variable {K V : Type} [DecidableEq K] (p : Params K)

theorem C05_at_most_once (s : St K V) (h : Reach p s) (u : Tid) : (s.l u).fnCalls ≤ 1 :=
  fn_at_most_once p s h u

theorem C05_exactly_once (s : St K V) (h : Reach p s) (u : Tid) (k : K) (f : Option V → V × Bool) (co : Bool)
    (hop : (s.l u).op = some (.dc k f false co)) (hpc : (s.l u).pc = .ret) : (s.l u).fnCalls = 1 :=
  fn_exactly_once_no_lie p s h u k f co hop hpc

theorem C05_iff_not_loaded (s : St K V) (h : Reach p s) (u : Tid) (k : K) (f : Option V → V × Bool)
    (hop : (s.l u).op = some (.dc k f true false)) (hpc : (s.l u).pc = .ret) :
    ∀ v flag, (s.l u).result = some (.val v flag) → ((s.l u).fnCalls = 0 ↔ flag = true) :=
  fn_iff_not_loaded p s h u k f hop hpc

/-- no retry edge leaves a pc at or after the call of the user function -/
theorem C05_no_retry_after_call (s : St K V) (h : Reach p s) (u : Tid) (hfn : (s.l u).fnCalls = 1) :
    beforeFn (s.l u).pc = false ∧ (s.l u).pc ≠ .dcLoadTable ∧ (s.l u).pc ≠ .dcLock ∧ (s.l u).pc ≠ .dcFn
      ∧ .dcRetry ∉ (s.l u).conts :=
  no_retry_after_fn' p s h u hfn

end conc

section seq
open Spec Model.Table Proofs.TableRefine
variable {K V : Type} [DecidableEq K] [Inhabited V]

/-- sequential exactness on the tables: invocation count of every call = the builtin-map semantics' -/
theorem C05_seq_table (var : Variant) (hv : GoodVariant var) (env : Env K) (sp : AMap K V) (m : Model.Table.St K V)
    (h : Sim var env sp m) (op : MOp K V) :
    (Model.Table.step var env m op).2.fnCalls = (specStep sp op).2.2 :=
  (step_refines var env hv sp m h op).2.2

/-- sequential exactness on the caches: the user-function invocations (with the argument they receive) of every
call are those of the TTL semantics: `GetOrCompute`'s function only when no live value exists, `Compute`'s
exactly once with `(old, true)` iff a live value exists -/
theorem C05_seq_cache (s : Model.Cache.St K V) (a : TTL.St K V) (h : Proofs.CacheRefine.Sim s a) (op : Model.Op K V) :
    (Model.Cache.step s op).2.fn = (TTL.step a op).2.2 :=
  (Proofs.CacheRefine.step_sim s a h op).2.2

/-- the same for the text of both source files (method bodies printed from the working tree, run by the
interpreter of the Go subset): the user function of `GetOrCompute` is invoked at most once and only when no live
value exists, the one of `Compute` exactly once with the live value or `(zero, false)` — also when the function
takes time (`getOrComputeSlow`, `computeSlow`) -/
theorem C05_source_cache (s : Model.Cache.St K V) (a : TTL.St K V) (h : Proofs.CacheRefine.Sim s a) (op : Model.Op K V)
    (T : Deep.Twin K V) (hT : DeepSource.IsTwin T) :
    ∃ s' r, Deep.deepStep T s op = some (s', r) ∧ r.fn = (TTL.step a op).2.2 :=
  ⟨_, _, DeepSource.step s op T hT, C05_seq_cache s a h op⟩

/-- **exactly one winner**: any non-empty sequence of `LoadOrStore`s on a key that is absent (nobody else
writing it) stores exactly the first caller's value, exactly that caller reports `loaded = false`, and every
caller returns that one value -/
theorem once_winner (m : AMap K V) (k : K) (hk : m.get k = none) (v : V) (vs : List V) :
    let r := (v :: vs).foldl (fun (acc : AMap K V × List (V × Bool)) x =>
      ((acc.1.loadOrStore k x).1, acc.2 ++ [(acc.1.loadOrStore k x).2])) (m, [])
    r.2 = (v, false) :: vs.map (fun _ => (v, true)) ∧ r.1.get k = some v := by
  have step1 : (m.loadOrStore k v) = (m.set k v, (v, false)) := by simp [AMap.loadOrStore, hk]
  have hget : (m.set k v).get k = some v := by simp [AMap.get_set]
  have key : ∀ (l : List V) (acc : List (V × Bool)),
      (l.foldl (fun (a : AMap K V × List (V × Bool)) x => ((a.1.loadOrStore k x).1, a.2 ++ [(a.1.loadOrStore k x).2]))
        (m.set k v, acc)) = (m.set k v, acc ++ l.map (fun _ => (v, true))) := by
    intro l
    induction l with
    | nil => intro acc; simp
    | cons x xs ih =>
      intro acc
      have hx : (m.set k v).loadOrStore k x = (m.set k v, (v, true)) := by simp [AMap.loadOrStore, hget]
      simp only [List.foldl_cons, hx, List.map_cons]
      rw [ih]; simp
  simp only [List.foldl_cons, step1, List.nil_append]
  rw [key]
  exact ⟨rfl, hget⟩

end seq

/-! ### concurrent racers, through the linearization log (M4a, `Proofs/ProtoHW.lean`)

Every run of M4a has one linearization log that is a legal builtin-map history, in which every completed writing call
occurs exactly once with the result it returned (`C03_C04_log_legal_state`, `C03_C04_writer_once`).  So what concurrent
`LoadOrStore` / `LoadOrCompute` racers on one key may return is what a *legal log* allows: -/
section racers
open Proofs.ProtoHW Proofs.ProtoLin Model.Proto

variable {K V : Type} [DecidableEq K]

/-- `e` is a get-or-create call on `k` (`LoadOrStore` / `LoadOrCompute`: loads if present, never deletes) -/
def IsGetOrCreate (k : K) (e : LinE K V) : Prop :=
  ∃ f co, e.op = .dc k f true co ∧ (f none).2 = false

/-- **exactly one winner** in any legal history: if a stretch of the log consists of get-or-create calls on a key
that is absent before it, then the first of them stored its value and reports "not loaded", and every later one
reports "loaded" and returns that same value -/
theorem racers_one_winner (m : K → Option V) (k : K) (hk : m k = none) (e : LinE K V) (rest : List (LinE K V))
    (hall : ∀ x ∈ e :: rest, IsGetOrCreate k x) (hleg : Legal m (e :: rest)) :
    ∃ f co v, e.op = .dc k f true co ∧ v = (f none).1 ∧ e.res = .val (some v) co ∧
      (∀ x ∈ rest, ∃ f' co', x.op = .dc k f' true co' ∧ x.res = .val (some v) (!co')) ∧
      specFold m (e :: rest) k = some v := by
  obtain ⟨f, co, hop, hnd⟩ := hall e (List.mem_cons_self ..)
  simp only [Legal] at hleg
  obtain ⟨hres, hrest⟩ := hleg
  have h1 : specStep m e.op = (fun k' => if k' = k then some (f none).1 else m k', .val (some (f none).1) co) := by
    rw [hop]; simp [specStep, specDc, hk, hnd]
  rw [h1] at hres hrest
  refine ⟨f, co, (f none).1, hop, rfl, hres.symm, ?_⟩
  -- every later get-or-create call finds the winner's value
  have key : ∀ (l : List (LinE K V)) (m' : K → Option V), m' k = some (f none).1 →
      (∀ x ∈ l, IsGetOrCreate k x) → Legal m' l →
      (∀ x ∈ l, ∃ f' co', x.op = .dc k f' true co' ∧ x.res = .val (some (f none).1) (!co')) ∧
      specFold m' l k = some (f none).1 := by
    intro l
    induction l with
    | nil => intro m' hm _ _; exact ⟨by simp, hm⟩
    | cons x xs ih =>
      intro m' hm hx hl
      obtain ⟨f', co', hop', -⟩ := hx x (List.mem_cons_self ..)
      simp only [Legal] at hl
      obtain ⟨hr, hl'⟩ := hl
      have h2 : specStep m' x.op = (fun k' => if k' = k then some (f none).1 else m' k', .val (some (f none).1) (!co')) := by
        rw [hop']; simp [specStep, specDc, hm]
      rw [h2] at hr hl'
      have hm2 : (fun k' => if k' = k then some (f none).1 else m' k') k = some (f none).1 := by simp
      obtain ⟨ih1, ih2⟩ := ih _ hm2 (fun y hy => hx y (List.mem_cons_of_mem _ hy)) hl'
      refine ⟨?_, ?_⟩
      · intro y hy
        rcases List.mem_cons.mp hy with rfl | hy
        · exact ⟨f', co', hop', hr.symm⟩
        · exact ih1 y hy
      · simp only [specFold, h2]; exact ih2
  have hm1 : (fun k' => if k' = k then some (f none).1 else m k') k = some (f none).1 := by simp
  obtain ⟨r1, r2⟩ := key rest _ hm1 (fun y hy => hall y (List.mem_cons_of_mem _ hy)) hrest
  exact ⟨r1, by simp only [specFold, h1]; exact r2⟩

end racers

end Props.C05
