import CacheVerif.Model.Proto
namespace Props.C05
theorem placeholder : True := trivial
end Props.C05
