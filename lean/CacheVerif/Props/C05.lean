import CacheVerif.Proofs.ProtoLocks
import CacheVerif.Props.C11
import CacheVerif.Props.C01
/-!
# C05 — get-or-create and compute calls are atomic per key; user function runs once

* Invocation counts under every interleaving (M4a, ghost `fnCalls` per `doCompute` activation): at most once;
  exactly once for every call without the lock-free fast path (`Store`, `LoadAndStore`, `Compute`,
  `LoadAndDelete`, `Delete`); for `LoadOrStore`/`LoadOrCompute` exactly when the call reports `loaded = false`;
  and every retry edge (resize in progress, newer table, need to grow) leaves before the call.
* Sequential exactness (M3, M2): the number of invocations of every call equals the builtin-map / TTL
  semantics' (already part of `C11_run` and `C01_run`; restated here).
* "Exactly one winner among racers" and "no lost update" are consequences of linearizability (C02–C04) and of
  the sequential semantics: `Spec.once_winner` below.
-/
namespace Props.C05
open Model.Proto Proofs.ProtoLocks

section conc
variable {K V : Type} [DecidableEq K] (p : Params K)

theorem C05_at_most_once (s : St K V) (h : Reach p s) (u : Tid) : (s.l u).fnCalls ≤ 1 :=
  fn_at_most_once p s h u

theorem C05_exactly_once (s : St K V) (h : Reach p s) (u : Tid) (k : K) (f : Option V → V × Bool) (co : Bool)
    (hop : (s.l u).op = some (.dc k f false co)) (hpc : (s.l u).pc = .ret) : (s.l u).fnCalls = 1 :=
  fn_exactly_once_no_lie p s h u k f co hop hpc

theorem C05_iff_not_loaded (s : St K V) (h : Reach p s) (u : Tid) (k : K) (f : Option V → V × Bool)
    (hop : (s.l u).op = some (.dc k f true false)) (hpc : (s.l u).pc = .ret) :
    ∀ v flag, (s.l u).result = some (.val v flag) → ((s.l u).fnCalls = 0 ↔ flag = true) :=
  fn_iff_not_loaded p s h u k f hop hpc

/-- no retry edge leaves a pc at or after the call of the user function -/
theorem C05_no_retry_after_call (s : St K V) (h : Reach p s) (u : Tid) (hfn : (s.l u).fnCalls = 1) :
    beforeFn (s.l u).pc = false ∧ (s.l u).pc ≠ .dcLoadTable ∧ (s.l u).pc ≠ .dcLock ∧ (s.l u).pc ≠ .dcFn
      ∧ .dcRetry ∉ (s.l u).conts :=
  no_retry_after_fn' p s h u hfn

end conc

section seq
open Spec Model.Table Proofs.TableRefine
variable {K V : Type} [DecidableEq K] [Inhabited V]

/-- sequential exactness on the tables: invocation count of every call = the builtin-map semantics' -/
theorem C05_seq_table (var : Variant) (hv : GoodVariant var) (env : Env K) (sp : AMap K V) (m : Model.Table.St K V)
    (h : Sim var env sp m) (op : MOp K V) :
    (Model.Table.step var env m op).2.fnCalls = (specStep sp op).2.2 :=
  (step_refines var env hv sp m h op).2.2

/-- sequential exactness on the caches: the user-function invocations (with the argument they receive) of every
call are those of the TTL semantics: `GetOrCompute`'s function only when no live value exists, `Compute`'s
exactly once with `(old, true)` iff a live value exists -/
theorem C05_seq_cache (s : Model.Cache.St K V) (a : TTL.St K V) (h : Proofs.CacheRefine.Sim s a) (op : Model.Op K V) :
    (Model.Cache.step s op).2.fn = (TTL.step a op).2.2 :=
  (Proofs.CacheRefine.step_sim s a h op).2.2

/-- **exactly one winner**: any non-empty sequence of `LoadOrStore`s on a key that is absent (nobody else
writing it) stores exactly the first caller's value, exactly that caller reports `loaded = false`, and every
caller returns that one value -/
theorem once_winner (m : AMap K V) (k : K) (hk : m.get k = none) (v : V) (vs : List V) :
    let r := (v :: vs).foldl (fun (acc : AMap K V × List (V × Bool)) x =>
      ((acc.1.loadOrStore k x).1, acc.2 ++ [(acc.1.loadOrStore k x).2])) (m, [])
    r.2 = (v, false) :: vs.map (fun _ => (v, true)) ∧ r.1.get k = some v := by
  have step1 : (m.loadOrStore k v) = (m.set k v, (v, false)) := by simp [AMap.loadOrStore, hk]
  have hget : (m.set k v).get k = some v := by simp [AMap.get_set]
  have key : ∀ (l : List V) (acc : List (V × Bool)),
      (l.foldl (fun (a : AMap K V × List (V × Bool)) x => ((a.1.loadOrStore k x).1, a.2 ++ [(a.1.loadOrStore k x).2]))
        (m.set k v, acc)) = (m.set k v, acc ++ l.map (fun _ => (v, true))) := by
    intro l
    induction l with
    | nil => intro acc; simp
    | cons x xs ih =>
      intro acc
      have hx : (m.set k v).loadOrStore k x = (m.set k v, (v, true)) := by simp [AMap.loadOrStore, hget]
      simp only [List.foldl_cons, hx, List.map_cons]
      rw [ih]; simp
  simp only [List.foldl_cons, step1, List.nil_append]
  rw [key]
  exact ⟨rfl, hget⟩

end seq

end Props.C05
