import CacheVerif.Proofs.CacheLedger
import CacheVerif.Model.CacheOf
import CacheVerif.Proofs.Twin
/-!
# C06 — the evicted callback fires exactly once per removed entry, with that very entry (sequential part)

Property theorems only (helper lemmas live in `Proofs/CacheLedger.lean`).  `Res.cbs` is the ledger of one
call: the evicted-callback invocations it made (callback id, key, value), in order.  The statements are about
the physical content `s.items` of `Model.Cache` (an expired entry that is still stored is an entry; removing
it fires the callback).
-/
namespace Props.C06
open Spec Model Model.Cache Proofs.CacheLedger

variable {K V : Type} [DecidableEq K] [Inhabited V]

/-- **C06 (GetAndDelete).** The callback fires exactly when the key was physically present and a callback is
installed, once, with the key and the very value that was removed; afterwards the key is gone and every other
binding is unchanged. -/
theorem C06_getAndDelete (s : St K V) (k : K) :
    (step s (.getAndDelete k)).2.cbs =
      (match s.items.get k, s.cb with
       | some i, some c => [(c, k, i.v)]
       | _, _ => []) ∧
    (step s (.getAndDelete k)).1.items.get k = none ∧
    ∀ k', k' ≠ k → (step s (.getAndDelete k)).1.items.get k' = s.items.get k' :=
  ⟨getAndDelete_cbs s k, getAndDelete_items s k⟩

/-- **C06 (Delete).** Same ledger and same effect as `GetAndDelete`. -/
theorem C06_delete (s : St K V) (k : K) :
    (step s (.delete k)).2.cbs =
      (match s.items.get k, s.cb with
       | some i, some c => [(c, k, i.v)]
       | _, _ => []) ∧
    (step s (.delete k)).1.items.get k = none ∧
    ∀ k', k' ≠ k → (step s (.delete k)).1.items.get k' = s.items.get k' :=
  ⟨getAndDelete_cbs s k, getAndDelete_items s k⟩

/-- **A loaded `GetAndDelete` returns the value it removed** — hence, with a callback installed, the value it
fires (`C06_getAndDelete`) is the value it returns. -/
theorem C06_getAndDelete_loaded (s : St K V) (k : K) (v : V)
    (h : (step s (.getAndDelete k)).2.out = .val v true) : ∃ e, s.items.get k = some ⟨v, e⟩ := by
  simp only [step, getAndDelete] at h
  cases hg : s.items.get k with
  | none => rw [hg] at h; simp at h
  | some i =>
    rw [hg] at h
    simp only at h
    by_cases he : (!Cache.expired s i) = true
    · rw [if_pos he] at h
      injection h with hv _
      exact ⟨i.e, by rw [← hv]⟩
    · rw [if_neg he] at h
      simp at h

/-- **C06 (DeleteExpired).** On a duplicate-free map, one pass fires the callback in force for exactly the
entries that are expired at the call's clock, with their own key and value; at most once per key; every fired
entry is gone afterwards and every entry that is not expired is still there with the same item. -/
theorem C06_deleteExpired (s : St K V) (hw : AMap.WF s.items) :
    (∀ c k v, (c, k, v) ∈ (step s .deleteExpired).2.cbs ↔
      (s.cb = some c ∧ ∃ i, s.items.get k = some i ∧ i.v = v ∧ TTL.expired i.e s.now = true)) ∧
    ((step s .deleteExpired).2.cbs.map (·.2.1)).Nodup ∧
    (∀ k, (step s .deleteExpired).1.items.get k =
      match s.items.get k with
      | some i => if TTL.expired i.e s.now then none else some i
      | none => none) := by
  refine ⟨?_, ?_, deleteExpired_get s hw⟩
  · intro c k v
    rw [deleteExpired_cbs s hw]
    cases hc : s.cb with
    | none => simp
    | some c' =>
      simp only [List.mem_map, Option.some.injEq]
      constructor
      · rintro ⟨p, hp, he⟩
        rw [mem_deadAt] at hp
        injection he with h1 h2
        injection h2 with h2 h3
        subst h2
        exact ⟨h1, p.2, (AMap.mem_iff_get _ hw p).mp hp.1, h3, hp.2⟩
      · rintro ⟨h1, i, hg, hv, he⟩
        refine ⟨(k, i), (mem_deadAt _ _ _).mpr ⟨AMap.mem_of_get _ _ _ hg, he⟩, ?_⟩
        rw [h1, ← hv]
  · rw [deleteExpired_cbs s hw]
    cases hc : s.cb with
    | none => exact List.nodup_nil
    | some c' =>
      simp only [List.map_map]
      exact List.Nodup.sublist (keys_deadAt_sublist s.now s.items) hw

/-- the calls that remove entries -/
def removes : Op K V → Bool
  | .getAndDelete _ => true
  | .delete _ => true
  | .deleteExpired => true
  | _ => false

/-- **C06 (no spurious callback).** Every call other than `GetAndDelete`, `Delete`, `DeleteExpired` — in
particular every read with its lazy deletion, `Set` over an existing key, `Compute` deleting, `Clear` — fires
nothing. -/
theorem C06_silent (s : St K V) (op : Op K V) (h : removes op = false) : (step s op).2.cbs = [] := by
  cases op <;> first
    | (simp [removes] at h; done)
    | rfl
    | (simp only [step]; split <;> rfl)
    | (simp only [step]; split <;> (try split) <;> rfl)

/-- **C06 (callback in force).** Every fired entry carries the callback id installed at the time of the call. -/
theorem C06_callback_in_force (s : St K V) (op : Op K V) :
    ∀ x ∈ (step s op).2.cbs, s.cb = some x.1 := by
  intro x hx
  by_cases hr : removes op = false
  · rw [C06_silent s op hr] at hx; cases hx
  · cases op <;> try (exfalso; exact hr rfl)
    case getAndDelete k =>
      rw [(C06_getAndDelete s k).1] at hx
      cases hg : s.items.get k <;> cases hc : s.cb <;> rw [hg, hc] at hx <;> simp at hx
      subst hx; rfl
    case delete k =>
      rw [(C06_delete s k).1] at hx
      cases hg : s.items.get k <;> cases hc : s.cb <;> rw [hg, hc] at hx <;> simp at hx
      subst hx; rfl
    case deleteExpired =>
      simp only [step] at hx
      cases hc : s.cb with
      | none => rw [hc] at hx; cases hx
      | some c =>
        rw [hc] at hx
        simp only [List.mem_map] at hx
        obtain ⟨p, _, rfl⟩ := hx
        rfl

/-- the generic twin takes the same steps (so every statement above holds for `CacheOf` too) -/
theorem C06_twin (s : Cache.St K V) (op : Op K V) : Model.CacheOf.step s op = Model.Cache.step s op :=
  Proofs.Twin.step_eq s op

/-! ### Non-vacuity: a concrete state with a live, two expired-uncleaned and a never-expiring entry -/

def exS : Cache.St String Nat :=
  { items := [("live", ⟨1, 200⟩), ("dead", ⟨2, 50⟩), ("forever", ⟨3, 0⟩), ("dead2", ⟨4, 99⟩)], now := 100, dflt := 10, cb := some 7 }

example : AMap.WF exS.items := by simp [exS, AMap.WF, AMap.keys]
example : (Cache.step exS .deleteExpired).2.cbs = [(7, "dead", 2), (7, "dead2", 4)] := by decide
example : (Cache.step exS .deleteExpired).1.items = [("live", ⟨1, 200⟩), ("forever", ⟨3, 0⟩)] := by decide
example : (Cache.step (Cache.step exS .deleteExpired).1 .deleteExpired).2.cbs = [] := by decide
example : (Cache.step exS (.getAndDelete "live")).2 = { out := .val 1 true, cbs := [(7, "live", 1)] } := by decide
example : (Cache.step exS (.delete "absent")).2.cbs = [] := by decide
example : (Cache.step (Cache.step exS (.setEvictedCallback none)).1 (.delete "live")).2.cbs = [] := by decide
example : (Cache.step exS (.get "dead")).2.cbs = [] ∧ (Cache.step exS (.get "dead")).1.items.get "dead" = none := by decide

end Props.C06
