import CacheVerif.Proofs.CacheLedger
import CacheVerif.Model.CacheOf
import CacheVerif.Proofs.Twin
import CacheVerif.Proofs.ConcCacheLin
import CacheVerif.Proofs.DeepSource
/-!
# C06 — the evicted callback fires exactly once per removed entry, with that very entry

Property theorems only (helper lemmas live in `Proofs/CacheLedger.lean` and `Proofs/ConcCacheLin.lean`).  First
the sequential part (`Model.Cache`), then the concurrent part (`C06_conc_*`, about M5 `Model.ConcCache`: any
number of threads, any schedule, clock ticks at any moment).  `Res.cbs` is the ledger of one
call: the evicted-callback invocations it made (callback id, key, value), in order.  The statements are about
the physical content `s.items` of `Model.Cache` (an expired entry that is still stored is an entry; removing
it fires the callback).
-/
namespace Props.C06
open Spec Model Model.Cache Proofs.CacheLedger

variable {K V : Type} [DecidableEq K] [Inhabited V]

/-- **C06 (GetAndDelete).** The callback fires exactly when the key was physically present and a callback is
installed, once, with the key and the very value that was removed; afterwards the key is gone and every other
binding is unchanged. -/
theorem C06_getAndDelete (s : St K V) (k : K) :
    (step s (.getAndDelete k)).2.cbs =
      (match s.items.get k, s.cb with
       | some i, some c => [(c, k, i.v)]
       | _, _ => []) ∧
    (step s (.getAndDelete k)).1.items.get k = none ∧
    ∀ k', k' ≠ k → (step s (.getAndDelete k)).1.items.get k' = s.items.get k' :=
  ⟨getAndDelete_cbs s k, getAndDelete_items s k⟩

/-- **C06 (Delete).** Same ledger and same effect as `GetAndDelete`. -/
theorem C06_delete (s : St K V) (k : K) :
    (step s (.delete k)).2.cbs =
      (match s.items.get k, s.cb with
       | some i, some c => [(c, k, i.v)]
       | _, _ => []) ∧
    (step s (.delete k)).1.items.get k = none ∧
    ∀ k', k' ≠ k → (step s (.delete k)).1.items.get k' = s.items.get k' :=
  ⟨getAndDelete_cbs s k, getAndDelete_items s k⟩

/-- **A loaded `GetAndDelete` returns the value it removed** — hence, with a callback installed, the value it
fires (`C06_getAndDelete`) is the value it returns. -/
theorem C06_getAndDelete_loaded (s : St K V) (k : K) (v : V)
    (h : (step s (.getAndDelete k)).2.out = .val v true) : ∃ e, s.items.get k = some ⟨v, e⟩ := by
  simp only [step, getAndDelete] at h
  cases hg : s.items.get k with
  | none => rw [hg] at h; simp at h
  | some i =>
    rw [hg] at h
    simp only at h
    by_cases he : (!Cache.expired s i) = true
    · rw [if_pos he] at h
      injection h with hv _
      exact ⟨i.e, by rw [← hv]⟩
    · rw [if_neg he] at h
      simp at h

/-- **C06 (DeleteExpired).** On a duplicate-free map, one pass fires the callback in force for exactly the
entries that are expired at the call's clock, with their own key and value; at most once per key; every fired
entry is gone afterwards and every entry that is not expired is still there with the same item. -/
theorem C06_deleteExpired (s : St K V) (hw : AMap.WF s.items) :
    (∀ c k v, (c, k, v) ∈ (step s .deleteExpired).2.cbs ↔
      (s.cb = some c ∧ ∃ i, s.items.get k = some i ∧ i.v = v ∧ TTL.expired i.e s.now = true)) ∧
    ((step s .deleteExpired).2.cbs.map (·.2.1)).Nodup ∧
    (∀ k, (step s .deleteExpired).1.items.get k =
      match s.items.get k with
      | some i => if TTL.expired i.e s.now then none else some i
      | none => none) := by
  refine ⟨?_, ?_, deleteExpired_get s hw⟩
  · intro c k v
    rw [deleteExpired_cbs s hw]
    cases hc : s.cb with
    | none => simp
    | some c' =>
      simp only [List.mem_map, Option.some.injEq]
      constructor
      · rintro ⟨p, hp, he⟩
        rw [mem_deadAt] at hp
        injection he with h1 h2
        injection h2 with h2 h3
        subst h2
        exact ⟨h1, p.2, (AMap.mem_iff_get _ hw p).mp hp.1, h3, hp.2⟩
      · rintro ⟨h1, i, hg, hv, he⟩
        refine ⟨(k, i), (mem_deadAt _ _ _).mpr ⟨AMap.mem_of_get _ _ _ hg, he⟩, ?_⟩
        rw [h1, ← hv]
  · rw [deleteExpired_cbs s hw]
    cases hc : s.cb with
    | none => exact List.nodup_nil
    | some c' =>
      simp only [List.map_map]
      exact List.Nodup.sublist (keys_deadAt_sublist s.now s.items) hw

/-! ### The same, for the source text (`Gen.Deep.*`, printed from the working tree on every run)

`DeepCache.deep_step` / `DeepCacheOf.deep_step`: the interpreter of the Go subset, run on the generated method
bodies, computes exactly `step`; so the statements above are statements about what the two files say now. -/

/-- **C06 for the text of `GetAndDelete` / `Delete` in both files.** -/
theorem C06_source_getAndDelete (s : St K V) (k : K) (T : Deep.Twin K V) (hT : DeepSource.IsTwin T) :
    ∃ s' r, Deep.deepStep T s (.getAndDelete k) = some (s', r) ∧
      r.cbs = (match s.items.get k, s.cb with
               | some i, some c => [(c, k, i.v)]
               | _, _ => []) ∧
      s'.items.get k = none ∧ ∀ k', k' ≠ k → s'.items.get k' = s.items.get k' := by
  have h := C06_getAndDelete s k
  exact ⟨_, _, DeepSource.step s _ T hT, h⟩

/-- **C06 for the text of `DeleteExpired` in both files**: exactly the entries expired at the call's clock are
reported, once each, to the callback in force, and exactly they are gone afterwards. -/
theorem C06_source_deleteExpired (s : St K V) (hw : AMap.WF s.items) (T : Deep.Twin K V)
    (hT : DeepSource.IsTwin T) :
    ∃ s' r, Deep.deepStep T s .deleteExpired = some (s', r) ∧
      (∀ c k v, (c, k, v) ∈ r.cbs ↔
        (s.cb = some c ∧ ∃ i, s.items.get k = some i ∧ i.v = v ∧ TTL.expired i.e s.now = true)) ∧
      (r.cbs.map (·.2.1)).Nodup ∧
      (∀ k, s'.items.get k = match s.items.get k with
        | some i => if TTL.expired i.e s.now then none else some i
        | none => none) := by
  have h := C06_deleteExpired s hw
  exact ⟨_, _, DeepSource.step s _ T hT, h⟩

/-- the calls that remove entries -/
def removes : Op K V → Bool
  | .getAndDelete _ => true
  | .delete _ => true
  | .deleteExpired => true
  | _ => false

/-- **C06 (no spurious callback).** Every call other than `GetAndDelete`, `Delete`, `DeleteExpired` — in
particular every read with its lazy deletion, `Set` over an existing key, `Compute` deleting, `Clear` — fires
nothing. -/
theorem C06_silent (s : St K V) (op : Op K V) (h : removes op = false) : (step s op).2.cbs = [] := by
  cases op <;> first
    | (simp [removes] at h; done)
    | rfl
    | (simp only [step]; split <;> rfl)
    | (simp only [step]; split <;> (try split) <;> rfl)

/-- **C06 (callback in force).** Every fired entry carries the callback id installed at the time of the call. -/
theorem C06_callback_in_force (s : St K V) (op : Op K V) :
    ∀ x ∈ (step s op).2.cbs, s.cb = some x.1 := by
  intro x hx
  by_cases hr : removes op = false
  · rw [C06_silent s op hr] at hx; cases hx
  · cases op <;> try (exfalso; exact hr rfl)
    case getAndDelete k =>
      rw [(C06_getAndDelete s k).1] at hx
      cases hg : s.items.get k <;> cases hc : s.cb <;> rw [hg, hc] at hx <;> simp at hx
      subst hx; rfl
    case delete k =>
      rw [(C06_delete s k).1] at hx
      cases hg : s.items.get k <;> cases hc : s.cb <;> rw [hg, hc] at hx <;> simp at hx
      subst hx; rfl
    case deleteExpired =>
      simp only [step] at hx
      cases hc : s.cb with
      | none => rw [hc] at hx; cases hx
      | some c =>
        rw [hc] at hx
        simp only [List.mem_map] at hx
        obtain ⟨p, _, rfl⟩ := hx
        rfl

/-- the generic twin takes the same steps (so every statement above holds for `CacheOf` too) -/
theorem C06_twin (s : Cache.St K V) (op : Op K V) : Model.CacheOf.step s op = Model.Cache.step s op :=
  Proofs.Twin.step_eq s op

/-! ### Non-vacuity: a concrete state with a live, two expired-uncleaned and a never-expiring entry -/

def exS : Cache.St String Nat :=
  { items := [("live", ⟨1, 200⟩), ("dead", ⟨2, 50⟩), ("forever", ⟨3, 0⟩), ("dead2", ⟨4, 99⟩)], now := 100, dflt := 10, cb := some 7 }

example : AMap.WF exS.items := by simp [exS, AMap.WF, AMap.keys]
example : (Cache.step exS .deleteExpired).2.cbs = [(7, "dead", 2), (7, "dead2", 4)] := by decide
example : (Cache.step exS .deleteExpired).1.items = [("live", ⟨1, 200⟩), ("forever", ⟨3, 0⟩)] := by decide
example : (Cache.step (Cache.step exS .deleteExpired).1 .deleteExpired).2.cbs = [] := by decide
example : (Cache.step exS (.getAndDelete "live")).2 = { out := .val 1 true, cbs := [(7, "live", 1)] } := by decide
example : (Cache.step exS (.delete "absent")).2.cbs = [] := by decide
example : (Cache.step (Cache.step exS (.setEvictedCallback none)).1 (.delete "live")).2.cbs = [] := by decide
example : (Cache.step exS (.get "dead")).2.cbs = [] ∧ (Cache.step exS (.get "dead")).1.items.get "dead" = none := by decide

/-! ## Concurrent part (M5, `Model.ConcCache`): every schedule

`g.ledger` is the global log of callback invocations; per thread and call, ghost `erased` lists the entries the
call's own `Compute`s physically removed from the map and ghost `fired` the entries it invoked the callback with,
both in order; `ec` is the callback the call read. -/
section Conc
open Proofs.ConcCacheLin

/-- **Every callback invocation reports an entry the calling thread removed earlier in the same call.**  For
every step of every run: either the ledger is unchanged, or exactly one invocation `(cb, k, v)` is appended by
a firing step of `GetAndDelete`/`Delete` (`gdFire`) or of `DeleteExpired` (`deFire`), `cb` is the callback the call
read, `(k, v)` is in the list of entries this very call removed, and the step removes nothing. -/
theorem C06_conc_ledger_only_removed (dflt : Int) (cb : Option Nat) (now : Int) (h0 : 0 ≤ now)
    (s s' : ConcCache.St K V) (t : ConcCache.Tid) (c : ConcCache.Choice K V) (δ : Nat)
    (hr : ConcCache.Reach dflt cb now s) (hs : ConcCache.step s (some t) c δ = some s') :
    s'.g.ledger = s.g.ledger ∨
    ∃ cb k v, s'.g.ledger = s.g.ledger ++ [(cb, k, v)] ∧ (s.l t).ec = some cb ∧ (k, v) ∈ (s.l t).erased ∧
      s'.g.items = s.g.items ∧
      (((s.l t).pc = .gdFire ∧ ConcCache.opKey (s.l t) = some k ∧ ∃ i, (s.l t).removed = some i ∧ i.v = v) ∨
       ((s.l t).pc = .deFire ∧ ∃ rest, (s.l t).queue = (k, v) :: rest ∧ (s'.l t).queue = rest)) := by
  obtain ⟨_, hl, hst, _, _⟩ := reach_tstep dflt cb now h0 s s' t c δ hr hs
  exact ledger_only_removed t s.g (s.l t) c s'.g (s'.l t) hl hst

/-- a clock tick fires nothing and changes no thread's locals -/
theorem C06_conc_tick_silent (s s' : ConcCache.St K V) (c : ConcCache.Choice K V) (δ : Nat)
    (hs : ConcCache.step s none c δ = some s') : s'.g.ledger = s.g.ledger ∧ s'.l = s.l := by
  simp only [ConcCache.step, Option.some.injEq] at hs
  subst hs
  exact ⟨rfl, rfl⟩

/-- **An entry enters a call's `erased` list only by being physically removed by that call.**  For every step of
every run, the stepping thread's `erased` list is unchanged, or reset by the start of a new call, or extended by
one `(k, i.v)` by the `Compute` of `GetAndDelete`/`Delete` or of `DeleteExpired`, and then `k ↦ i` was in the map
before that very step and `k` is absent after it. -/
theorem C06_conc_removal_is_physical (dflt : Int) (cb : Option Nat) (now : Int) (h0 : 0 ≤ now)
    (s s' : ConcCache.St K V) (t : ConcCache.Tid) (c : ConcCache.Choice K V) (δ : Nat)
    (hr : ConcCache.Reach dflt cb now s) (hs : ConcCache.step s (some t) c δ = some s') :
    (s'.l t).erased = (s.l t).erased ∨ ((s.l t).pc = .idle ∧ (s'.l t).erased = []) ∨
    ∃ k i, ((s.l t).pc = .gdCompute ∨ (s.l t).pc = .deCompute) ∧ (s'.l t).erased = (s.l t).erased ++ [(k, i.v)] ∧
      s.g.items.get k = some i ∧ s'.g.items.get k = none := by
  obtain ⟨_, _, hst, _, _⟩ := reach_tstep dflt cb now h0 s s' t c δ hr hs
  exact erased_step t s.g (s.l t) c s'.g (s'.l t) hst

/-- **Per call, what fired is exactly what was removed — once each, in order.**  In every reachable state, a
thread about to return (`pc = ret`) is returning from some call `op`, and:
* if `op` is `GetAndDelete`, `Delete` or `DeleteExpired` (also the janitor's pass): when the call read a callback
  (`ec = some _`), the list of entries it invoked the callback with *is* the list of entries it physically
  removed (same entries, same multiplicity, same order); when it read that no callback is installed, it fired
  nothing.  (`GetAndDelete`/`Delete` read the callback only after having removed an entry: for a call that found
  the key absent `ec` is whatever an earlier call of the thread left there, and then both lists are empty — see
  `C06_conc_getAndDelete_at_ret`.)
* every other call — `Set`, the read-modify-write calls, `Clear`, the setters, and the `Get` family whose lazy
  expiry delete removes an expired entry *without* callback — fired nothing, and removed nothing through the
  callback paths. -/
theorem C06_conc_fired_eq_erased_at_ret (dflt : Int) (cb : Option Nat) (now : Int) (h0 : 0 ≤ now)
    (s : ConcCache.St K V) (hr : ConcCache.Reach dflt cb now s) (t : ConcCache.Tid) (hpc : (s.l t).pc = .ret) :
    ∃ op, (s.l t).op = some op ∧
      (isRemoval op = true →
        match (s.l t).ec with
        | some _ => (s.l t).fired = (s.l t).erased
        | none => (s.l t).fired = []) ∧
      (isRemoval op = false → (s.l t).fired = [] ∧ (s.l t).erased = []) :=
  fired_eq_erased_at_ret dflt cb now h0 s hr t hpc

/-- a `GetAndDelete`/`Delete` about to return removed nothing and fired nothing when the key was absent, and
otherwise removed exactly one entry: its key with the value it found -/
theorem C06_conc_getAndDelete_at_ret (dflt : Int) (cb : Option Nat) (now : Int) (h0 : 0 ≤ now)
    (s : ConcCache.St K V) (hr : ConcCache.Reach dflt cb now s) (t : ConcCache.Tid) (hpc : (s.l t).pc = .ret)
    (k : K) (ho : (s.l t).op = some (.getAndDelete k) ∨ (s.l t).op = some (.delete k)) :
    match (s.l t).removed with
    | none => (s.l t).fired = [] ∧ (s.l t).erased = []
    | some i => (s.l t).erased = [(k, i.v)] := by
  have hk : ConcCache.opKey (s.l t) = some k := by rcases ho with ho | ho <;> simp [ConcCache.opKey, ho]
  have := gd_erased_at_ret dflt cb now h0 s hr t hpc
  rcases ho with ho | ho
  all_goals
    have h := this _ ho rfl
    cases hrm : (s.l t).removed with
    | none => rw [hrm] at h; exact h
    | some i =>
      rw [hrm] at h
      obtain ⟨k', hk', he⟩ := h
      rw [hk] at hk'
      cases hk'
      exact he

/-- **While a call is running, what has fired so far is a prefix of what it removed** (every reachable state).
`GetAndDelete`/`Delete`: nothing has fired before the firing step, and once the `Compute` removed an entry the
call removed exactly that one.  `DeleteExpired`: during the traversal and the firing loop, if the pass read a
callback then fired ++ still-to-fire = removed; if it read none (then the model queues nothing) nothing fires. -/
theorem C06_conc_fired_prefix (dflt : Int) (cb : Option Nat) (now : Int) (h0 : 0 ≤ now)
    (s : ConcCache.St K V) (hr : ConcCache.Reach dflt cb now s) (t : ConcCache.Tid) :
    ((s.l t).pc = .gdCompute → (s.l t).fired = [] ∧ (s.l t).erased = []) ∧
    (((s.l t).pc = .gdReadCb ∨ (s.l t).pc = .gdFire) → (s.l t).fired = [] ∧
        ∃ k i, ConcCache.opKey (s.l t) = some k ∧ (s.l t).removed = some i ∧ (s.l t).erased = [(k, i.v)]) ∧
    (((s.l t).pc = .deReadCb ∨ (s.l t).pc = .deReadClock) → (s.l t).fired = [] ∧ (s.l t).erased = []) ∧
    (((s.l t).pc = .deVisit ∨ (s.l t).pc = .deCompute ∨ (s.l t).pc = .deFire) →
        match (s.l t).ec with
        | some _ => (s.l t).fired ++ (s.l t).queue = (s.l t).erased
        | none => (s.l t).fired = [] ∧ (s.l t).queue = []) :=
  fired_prefix dflt cb now h0 s hr t

/-- **The ledger and the per-call `fired` lists move together.**  For every step of every run and every `(k, v)`:
the step appends an invocation `(cb, k, v)` to the global ledger if and only if it appends `(k, v)` to the
stepping thread's `fired` list; then `cb` is the callback the call read; no other thread's locals change. -/
theorem C06_conc_ledger_fired_coupled (dflt : Int) (cb : Option Nat) (now : Int) (h0 : 0 ≤ now)
    (s s' : ConcCache.St K V) (t : ConcCache.Tid) (c : ConcCache.Choice K V) (δ : Nat)
    (hr : ConcCache.Reach dflt cb now s) (hs : ConcCache.step s (some t) c δ = some s') (k : K) (v : V) :
    ((∃ cb, s'.g.ledger = s.g.ledger ++ [(cb, k, v)]) ↔ (s'.l t).fired = (s.l t).fired ++ [(k, v)]) ∧
    (∀ cb, s'.g.ledger = s.g.ledger ++ [(cb, k, v)] → (s.l t).ec = some cb) ∧
    (∀ u, u ≠ t → s'.l u = s.l u) := by
  obtain ⟨_, _, hst, hoth, _⟩ := reach_tstep dflt cb now h0 s s' t c δ hr hs
  obtain ⟨h1, h2⟩ := ledger_fired_coupled t s.g (s.l t) c s'.g (s'.l t) hst k v
  exact ⟨h1, h2, hoth⟩

/-! ### Non-vacuity: `DeleteExpired` (thread 0) racing `GetAndDelete "live"` (thread 1), callback 7 installed,
one expired and one live entry; both calls end at `ret`, each fired exactly what it removed.  The traversal is free
(`Choice.key`): thread 0 is handed "dead" twice (the second time with a stale snapshot of the entry it has already
removed: the conditional delete finds nothing, nothing is removed or fired twice), "live" with a stale copy after
thread 1 removed it, and "late", a key stored by thread 2 *after* the pass began (live w.r.t. the pass's clock: left
alone) -/
def exConc : List (Option ConcCache.Tid × ConcCache.Choice String Nat × Nat) :=
  [ (some 2, { op := some (.set "dead" 1 5) }, 0), (some 2, {}, 0), (some 2, {}, 0), (some 2, {}, 0),
    (some 2, { op := some (.set "live" 2 100) }, 0), (some 2, {}, 0), (some 2, {}, 0), (some 2, {}, 0),
    (none, {}, 6),                                                                   -- "dead" expires
    (some 0, { op := some .deleteExpired }, 0), (some 0, {}, 0), (some 0, {}, 0),    -- T0 reads callback, clock
    (some 0, { key := some "dead", seen := some ⟨1, 5⟩ }, 0),                        -- T0 visits "dead": expired
    (some 1, { op := some (.getAndDelete "live") }, 0), (some 1, {}, 0),             -- T1 removes "live"
    (some 0, {}, 0),                                                                 -- T0 removes "dead"
    (some 1, {}, 0), (some 1, {}, 0),                                                -- T1 reads callback, fires
    (some 0, { key := some "dead", seen := some ⟨1, 5⟩ }, 0), (some 0, {}, 0),       -- T0 meets "dead" again (stale copy): gone, no-op
    (some 0, { key := some "live", seen := some ⟨2, 100⟩ }, 0),                      -- T0 visits "live" (stale copy): live
    (some 2, { op := some (.set "late" 3 50) }, 0), (some 2, {}, 0), (some 2, {}, 0),-- T2 stores "late" after the pass began
    (some 0, { key := some "late", seen := some ⟨3, 56⟩ }, 0),                       -- T0 visits "late": live at the pass's clock
    (some 0, {}, 0), (some 0, {}, 0), (some 0, {}, 0) ]                              -- T0 ends traversal, fires, done

example : ∃ s, ConcCache.run (ConcCache.init 10 (some 7) 0) exConc = some s ∧
    s.g.ledger = [(7, "live", 2), (7, "dead", 1)] ∧ s.g.items = [("late", ⟨3, 56⟩)] ∧
    (s.l 0).pc = .ret ∧ (s.l 0).op = some .deleteExpired ∧ (s.l 0).ec = some 7 ∧
    (s.l 0).fired = [("dead", 1)] ∧ (s.l 0).erased = [("dead", 1)] ∧
    (s.l 1).pc = .ret ∧ (s.l 1).op = some (.getAndDelete "live") ∧ (s.l 1).ec = some 7 ∧
    (s.l 1).fired = [("live", 2)] ∧ (s.l 1).erased = [("live", 2)] ∧ (s.l 1).result = some (.val 2 true) :=
  ⟨_, rfl, by decide, by decide, by decide, rfl, by decide, by decide, by decide, by decide, rfl,
    by decide, by decide, by decide, by decide⟩

end Conc

end Props.C06
