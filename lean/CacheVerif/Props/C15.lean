import CacheVerif.Model.Proto
namespace Props.C15
theorem placeholder : True := trivial
end Props.C15
