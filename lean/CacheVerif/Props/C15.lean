import CacheVerif.Model.ConcCache
import CacheVerif.Props.C06
import CacheVerif.Props.C08
import CacheVerif.Proofs.DeepSource
import CacheVerif.Proofs.DeepJanitor
/-!
# C15 — the janitor cleans up on its own, only when configured, and dies with the cache

* `C15_enabled_iff`: for every constructor variant and every interval (negative, 0, positive) the janitor
  goroutine is started iff the normalised cleanup interval is positive (machine-translated `configDefault*`).
* `C15_tick_cleans`: one janitor tick is one `DeleteExpired` pass (the goroutine's tick clause is `c.DeleteExpired()`
  — `C15_source_janitor_tick`); after a pass no entry expired at the pass's clock remains and each removed entry was handed
  to the callback in force exactly once (C06), and Count equals the number of live entries (C08).
* `C15_no_janitor_no_removal`: without a janitor the content changes only through steps of user calls: the only
  other transition of the concurrent cache model is the clock tick, which leaves the physical content untouched.
* `C15_source_started`, `C15_source_janitor_life`, `C15_source_janitor_tick`, `C15_source_collectable`: the goroutine
  and the finalizer as `tools/go2deep -ctor` prints them from the two constructors on every run, interpreted event by
  event (`Deep/Janitor.lean`): started iff the machine-translated guard holds; n ticks then the finalizer's event =
  n `DeleteExpired` passes of the model, then the goroutine has returned; the function literal captures the inner
  object `c` (and `cfg`), **not** the wrapper the finalizer is attached to; the finalizer's only action is closing the
  channel the loop returns on.  (They replace the pinned token-stream facts `C15_collectable` / `C15_janitor_loop` of
  the second session, which broke on harmless rewrites such as swapping the two `select` clauses.)
**Partial**: that the Go GC runs the finalizer and that the ticker fires are runtime behaviour; they are observed
by the native harness (`vharness janitor`), not proved.
-/
namespace Props.C15
open Spec Model

variable {K V : Type} [DecidableEq K] [Inhabited V]

/-- the janitor is started iff the (normalised) cleanup interval is positive — all constructor variants, both twins -/
theorem C15_enabled_iff (c : Cache.Ctor) (now : Int) :
    (Cache.construct (K := K) (V := V) c now).2 =
      (match c with
       | .newOpts _ (some i) _ _ => decide (i > 0)
       | .newOpts _ none _ _ => true          -- DefaultCleanupInterval = 10 s
       | .newDefault _ i _ => decide (i > 0)
       | .newOptsOver _ _ (some i) _ _ => decide (i > 0)
       | .newOptsOver _ _ none _ _ => true) ∧
    (CacheOf.construct (K := K) (V := V) c now).2 = (Cache.construct (K := K) (V := V) c now).2 := by
  constructor
  · cases c with
    | newOpts d i cb m =>
      cases d <;> cases i <;> cases cb <;> cases m <;>
        simp [Cache.construct, Cache.newXsyncMap, Gen.newXsyncMap_dflt, Gen.newXsyncMap_hasCb, Gen.newXsyncMap_janitor, Gen.NewDefault_cfg, Gen.New_cfg, Gen.WithDefaultExpiration, Gen.WithCleanupInterval, Gen.WithEvictedCallback, Gen.WithMinCapacity, List.foldl, Proofs.LeafCache.configDefault_spec, Gen.DefaultConfig_, Gen.DefaultCleanupInterval] <;>
        omega
    | newDefault d i cb =>
      simp [Cache.construct, Cache.newXsyncMap, Gen.newXsyncMap_dflt, Gen.newXsyncMap_hasCb, Gen.newXsyncMap_janitor, Gen.NewDefault_cfg, Gen.New_cfg, Gen.WithDefaultExpiration, Gen.WithCleanupInterval, Gen.WithEvictedCallback, Gen.WithMinCapacity, List.foldl, Proofs.LeafCache.configDefault_spec]
      omega
    | newOptsOver b d i cb m =>
      cases i <;> cases cb <;> cases m <;>
        simp [Cache.construct, Cache.newXsyncMap, Gen.newXsyncMap_dflt, Gen.newXsyncMap_hasCb, Gen.newXsyncMap_janitor, Gen.NewDefault_cfg, Gen.New_cfg, Gen.WithDefaultExpiration, Gen.WithCleanupInterval, Gen.WithEvictedCallback, Gen.WithMinCapacity, List.foldl, Proofs.LeafCache.configDefault_spec, Gen.DefaultConfig_, Gen.DefaultCleanupInterval] <;>
        omega
  · rw [Proofs.Twin.construct_eq]

/-- a janitor tick = one `DeleteExpired` pass: afterwards nothing expired at the pass's clock remains, everything
unexpired is untouched -/
theorem C15_tick_cleans (s : Cache.St K V) (hw : AMap.WF s.items) (k : K) :
    (Cache.step s .deleteExpired).1.items.get k =
      match s.items.get k with
      | some i => if TTL.expired i.e s.now then none else some i
      | none => none :=
  (C06.C06_deleteExpired s hw).2.2 k

/-- the same for the text of `DeleteExpired` in both files (the janitor's tick is that method - `C15_source_janitor_tick`) -/
theorem C15_source_tick_cleans (s : Cache.St K V) (hw : AMap.WF s.items) (k : K) (T : Deep.Twin K V) (hT : DeepSource.IsTwin T) :
    ∃ s' r, Deep.deepStep T s .deleteExpired = some (s', r) ∧
      s'.items.get k = match s.items.get k with
        | some i => if TTL.expired i.e s.now then none else some i
        | none => none :=
  ⟨_, _, DeepSource.step s _ T hT, C15_tick_cleans s hw k⟩

/-- without a janitor, between user calls only the clock moves, and that leaves the physical content alone -/
theorem C15_no_janitor_no_removal (s : ConcCache.St K V) (c : ConcCache.Choice K V) (δ : Nat) (s' : ConcCache.St K V)
    (h : ConcCache.step s none c δ = some s') : s'.g.items = s.g.items ∧ s'.g.ledger = s.g.ledger := by
  simp only [ConcCache.step, Option.some.injEq] at h
  subst h; exact ⟨rfl, rfl⟩

/-! ### the goroutine itself, as printed from the constructors of both files on every run

`tools/go2deep` prints the goroutine each constructor starts and the finalizer it registers (`Generated/Deep.lean`:
`xsyncMap_janitor`, `xsyncMap_finalizer`, and the `Of` pair); `Deep/Janitor.lean` gives that syntax its meaning event
by event (the ticker fires after the clock advanced / the finalizer closes its channel), the clause bodies running
through the same interpreter as the method bodies. -/

/-- **started iff configured**: the guard around the `go` statement is the machine-translated condition of
`C15_enabled_iff` (interval > 0 after normalisation) and the ticker's period is the cleanup interval - both files -/
theorem C15_source_started (c : Gen.Config) :
    Gen.Deep.xsyncMap_janitor.started (DeepJanitor.fields c) = some (Gen.newXsyncMap_janitor c) ∧
    Gen.Deep.xsyncMap_janitor.period (DeepJanitor.fields c) = some c.cleanupInterval ∧
    Gen.Deep.xsyncMapOf_janitor.started (DeepJanitor.fields c) = some (Gen.newXsyncMapOf_janitor c) ∧
    Gen.Deep.xsyncMapOf_janitor.period (DeepJanitor.fields c) = some c.cleanupInterval :=
  ⟨(DeepJanitor.map_started c).1, (DeepJanitor.map_started c).2, (DeepJanitor.mapOf_started c).1, (DeepJanitor.mapOf_started c).2⟩

/-- **the life of the goroutine** (text of both files): over any number of ticks followed by the finalizer's event the
cache goes through exactly one `DeleteExpired` pass of the model per tick, at that tick's clock (what a pass removes
and reports: `C15_tick_cleans`, C06), and then the goroutine has returned -/
theorem C15_source_janitor_life (δs : List Int) (s : Cache.St K V) :
    Deep.janitorRun Deep.twinMap Gen.Deep.xsyncMap_janitor Gen.Deep.xsyncMap_finalizer s (δs.map .tick ++ [.stop]) =
      Deep.janitorRun Deep.twinMapOf Gen.Deep.xsyncMapOf_janitor Gen.Deep.xsyncMapOf_finalizer s (δs.map .tick ++ [.stop]) ∧
    ∃ cbs, Deep.janitorRun Deep.twinMap Gen.Deep.xsyncMap_janitor Gen.Deep.xsyncMap_finalizer s (δs.map .tick ++ [.stop]) =
      some (true, δs.foldl (fun s δ => (Cache.step { s with now := s.now + δ } .deleteExpired).1) s, cbs) := by
  rw [DeepJanitor.ticks_then_stop _ _ _ (Or.inl rfl) DeepJanitor.map_tick_clause DeepJanitor.map_stop_clause,
    DeepJanitor.ticks_then_stop _ _ _ (Or.inr rfl) DeepJanitor.mapOf_tick_clause DeepJanitor.mapOf_stop_clause]
  exact ⟨rfl, _, rfl⟩

/-- **no pass after the finalizer** (text of both files): events that follow the finalizer's are not received -/
theorem C15_source_nothing_after_stop (δs : List Int) (more : List Deep.JEv) (s : Cache.St K V) :
    Deep.janitorRun Deep.twinMap Gen.Deep.xsyncMap_janitor Gen.Deep.xsyncMap_finalizer s (δs.map .tick ++ .stop :: more) =
      Deep.janitorRun Deep.twinMap Gen.Deep.xsyncMap_janitor Gen.Deep.xsyncMap_finalizer s (δs.map .tick ++ [.stop]) ∧
    Deep.janitorRun Deep.twinMapOf Gen.Deep.xsyncMapOf_janitor Gen.Deep.xsyncMapOf_finalizer s (δs.map .tick ++ .stop :: more) =
      Deep.janitorRun Deep.twinMapOf Gen.Deep.xsyncMapOf_janitor Gen.Deep.xsyncMapOf_finalizer s (δs.map .tick ++ [.stop]) :=
  ⟨DeepJanitor.nothing_after_stop _ _ _ (Or.inl rfl) DeepJanitor.map_tick_clause DeepJanitor.map_stop_clause δs more s,
   DeepJanitor.nothing_after_stop _ _ _ (Or.inr rfl) DeepJanitor.mapOf_tick_clause DeepJanitor.mapOf_stop_clause δs more s⟩

/-- one tick of the printed goroutine: afterwards nothing expired at the tick's clock remains, everything unexpired is
untouched, and the goroutine is still in its loop -/
theorem C15_source_janitor_tick (s : Cache.St K V) (hw : AMap.WF s.items) (δ : Int) (k : K) :
    ∃ s' cbs, Deep.janitorEvent Deep.twinMap Gen.Deep.xsyncMap_janitor Gen.Deep.xsyncMap_finalizer s (.tick δ) = some (false, s', cbs) ∧
      Deep.janitorEvent Deep.twinMapOf Gen.Deep.xsyncMapOf_janitor Gen.Deep.xsyncMapOf_finalizer s (.tick δ) = some (false, s', cbs) ∧
      s'.items.get k = match s.items.get k with
        | some i => if TTL.expired i.e (s.now + δ) then none else some i
        | none => none :=
  ⟨_, _, DeepJanitor.tick_is_pass _ _ _ (Or.inl rfl) DeepJanitor.map_tick_clause s δ,
    DeepJanitor.tick_is_pass _ _ _ (Or.inr rfl) DeepJanitor.mapOf_tick_clause s δ,
    C15_tick_cleans { s with now := s.now + δ } hw k⟩

/-- **dies with the cache** (text of both files): the event the finalizer produces makes the goroutine return (its
deferred `ticker.Stop()` included) and changes nothing; the function literal does not capture the object the finalizer
is attached to -/
theorem C15_source_collectable (s : Cache.St K V) :
    Deep.janitorEvent Deep.twinMap Gen.Deep.xsyncMap_janitor Gen.Deep.xsyncMap_finalizer s .stop = some (true, s, []) ∧
    Deep.janitorEvent Deep.twinMapOf Gen.Deep.xsyncMapOf_janitor Gen.Deep.xsyncMapOf_finalizer s .stop = some (true, s, []) ∧
    Gen.Deep.xsyncMap_finalizer.target ∉ Gen.Deep.xsyncMap_janitor.captures ∧ Gen.Deep.xsyncMap_janitor.deferStop = true ∧
    Gen.Deep.xsyncMapOf_finalizer.target ∉ Gen.Deep.xsyncMapOf_janitor.captures ∧ Gen.Deep.xsyncMapOf_janitor.deferStop = true :=
  ⟨DeepJanitor.stop_returns _ _ _ DeepJanitor.map_stop_clause s, DeepJanitor.stop_returns _ _ _ DeepJanitor.mapOf_stop_clause s,
    DeepJanitor.map_collectable.1, DeepJanitor.map_collectable.2, DeepJanitor.mapOf_collectable.1, DeepJanitor.mapOf_collectable.2⟩

/-! ### Non-vacuity -/
/-- a cache with one entry expiring at 5 and one at 50: the first tick (clock 10) removes the first, the second
(clock 60) the other; then the finalizer ends the goroutine -/
example : ∃ s' cbs, Deep.janitorRun (K := String) (V := Nat) Deep.twinMap Gen.Deep.xsyncMap_janitor Gen.Deep.xsyncMap_finalizer
    { items := [("a", ⟨1, 5⟩), ("b", ⟨2, 50⟩)], now := 0, dflt := 0, cb := none } ([10, 50].map .tick ++ [.stop]) =
    some (true, s', cbs) ∧ s'.items = [] ∧ s'.now = 60 := by
  obtain ⟨cbs, h⟩ := (C15_source_janitor_life (K := String) (V := Nat) [10, 50]
    { items := [("a", ⟨1, 5⟩), ("b", ⟨2, 50⟩)], now := 0, dflt := 0, cb := none }).2
  exact ⟨_, cbs, h, by decide, by decide⟩
example : (Cache.construct (K := String) (V := Nat) (.newDefault 5 0 none) 0).2 = false := by decide
example : (Cache.construct (K := String) (V := Nat) (.newDefault 5 (-1) none) 0).2 = false := by decide
example : (Cache.construct (K := String) (V := Nat) (.newDefault 5 1 none) 0).2 = true := by decide
example : (Cache.construct (K := String) (V := Nat) (.newOpts none none none none) 0).2 = true := by decide

end Props.C15
