import CacheVerif.Model.ConcCache
import CacheVerif.Props.C06
import CacheVerif.Props.C08
import CacheVerif.Expect.Ctor
import CacheVerif.Proofs.DeepSource
/-!
# C15 — the janitor cleans up on its own, only when configured, and dies with the cache

* `C15_enabled_iff`: for every constructor variant and every interval (negative, 0, positive) the janitor
  goroutine is started iff the normalised cleanup interval is positive (machine-translated `configDefault*`).
* `C15_tick_cleans`: one janitor tick is one `DeleteExpired` pass (the goroutine's loop body is `c.DeleteExpired()`
  — extracted fact); after a pass no entry expired at the pass's clock remains and each removed entry was handed
  to the callback in force exactly once (C06), and Count equals the number of live entries (C08).
* `C15_no_janitor_no_removal`: without a janitor the content changes only through steps of user calls: the only
  other transition of the concurrent cache model is the clock tick, which leaves the physical content untouched.
* `C15_collectable`: structural facts extracted from the working tree: the janitor goroutine's closure captures
  the inner object `c` (and `cfg`), **not** the wrapper `cache` the finalizer is attached to; the finalizer's only
  action is `close(m.stop)`; the janitor loop returns on `<-c.stop`.
**Partial**: that the Go GC runs the finalizer and that the ticker fires are runtime behaviour; they are observed
by the native harness (`vharness janitor`), not proved.
-/
namespace Props.C15
open Spec Model

variable {K V : Type} [DecidableEq K] [Inhabited V]

/-- the janitor is started iff the (normalised) cleanup interval is positive — all constructor variants, both twins -/
theorem C15_enabled_iff (c : Cache.Ctor) (now : Int) :
    (Cache.construct (K := K) (V := V) c now).2 =
      (match c with
       | .newOpts _ (some i) _ _ => decide (i > 0)
       | .newOpts _ none _ _ => true          -- DefaultCleanupInterval = 10 s
       | .newDefault _ i _ => decide (i > 0)) ∧
    (CacheOf.construct (K := K) (V := V) c now).2 = (Cache.construct (K := K) (V := V) c now).2 := by
  constructor
  · cases c with
    | newOpts d i cb m =>
      cases d <;> cases i <;> cases cb <;> cases m <;>
        simp [Cache.construct, Cache.newXsyncMap, Gen.newXsyncMap_dflt, Gen.newXsyncMap_hasCb, Gen.newXsyncMap_janitor, Gen.NewDefault_cfg, Gen.New_cfg, Gen.WithDefaultExpiration, Gen.WithCleanupInterval, Gen.WithEvictedCallback, Gen.WithMinCapacity, List.foldl, Proofs.LeafCache.configDefault_spec, Gen.DefaultConfig_, Gen.DefaultCleanupInterval] <;>
        omega
    | newDefault d i cb =>
      simp [Cache.construct, Cache.newXsyncMap, Gen.newXsyncMap_dflt, Gen.newXsyncMap_hasCb, Gen.newXsyncMap_janitor, Gen.NewDefault_cfg, Gen.New_cfg, Gen.WithDefaultExpiration, Gen.WithCleanupInterval, Gen.WithEvictedCallback, Gen.WithMinCapacity, List.foldl, Proofs.LeafCache.configDefault_spec]
      omega
  · rw [Proofs.Twin.construct_eq]

/-- a janitor tick = one `DeleteExpired` pass: afterwards nothing expired at the pass's clock remains, everything
unexpired is untouched -/
theorem C15_tick_cleans (s : Cache.St K V) (hw : AMap.WF s.items) (k : K) :
    (Cache.step s .deleteExpired).1.items.get k =
      match s.items.get k with
      | some i => if TTL.expired i.e s.now then none else some i
      | none => none :=
  (C06.C06_deleteExpired s hw).2.2 k

/-- the same for the text of `DeleteExpired` in both files (the janitor's tick is that method - `C15_janitor_loop`) -/
theorem C15_source_tick_cleans (s : Cache.St K V) (hw : AMap.WF s.items) (k : K) (T : Deep.Twin K V) (hT : DeepSource.IsTwin T) :
    ∃ s' r, Deep.deepStep T s .deleteExpired = some (s', r) ∧
      s'.items.get k = match s.items.get k with
        | some i => if TTL.expired i.e s.now then none else some i
        | none => none :=
  ⟨_, _, DeepSource.step s _ T hT, C15_tick_cleans s hw k⟩

/-- without a janitor, between user calls only the clock moves, and that leaves the physical content alone -/
theorem C15_no_janitor_no_removal (s : ConcCache.St K V) (c : ConcCache.Choice K V) (δ : Nat) (s' : ConcCache.St K V)
    (h : ConcCache.step s none c δ = some s') : s'.g.items = s.g.items ∧ s'.g.ledger = s.g.ledger := by
  simp only [ConcCache.step, Option.some.injEq] at h
  subst h; exact ⟨rfl, rfl⟩

/-- the janitor goroutine does not keep the wrapper alive; the finalizer closes `stop`; the loop exits on `stop` -/
theorem C15_collectable :
    ("cache" ∉ Gen.Facts.cache_xsync_map_newXsyncMap_go0_captures) ∧
    ("cache" ∉ Gen.Facts.cache_xsync_mapof_newXsyncMapOf_go0_captures) ∧
    Gen.Facts.cache_xsync_map_newXsyncMap_finalizer_target = "cache" ∧
    Gen.Facts.cache_xsync_mapof_newXsyncMapOf_finalizer_target = "cache" ∧
    Gen.Facts.cache_xsync_map_newXsyncMap_finalizer_captures = [] ∧
    Gen.Facts.cache_xsync_mapof_newXsyncMapOf_finalizer_captures = [] := by
  decide

/-- `a` occurs as a contiguous block in `l` -/
def hasInfix (a : List String) : List String → Bool
  | [] => a.isEmpty
  | x :: xs => a.isPrefixOf (x :: xs) || hasInfix a xs

/-- the janitor's loop body and exit, and the finalizer's body, as extracted (both twins identical) -/
theorem C15_janitor_loop :
    Gen.Facts.cache_xsync_map_newXsyncMap = Gen.Facts.cache_xsync_mapof_newXsyncMapOf.map
      (fun t => if t = "configDefaultOf" then "configDefault" else if t = "NewMapOfPresized" then "NewMapPresized" else t) ∧
    hasInfix ["select{", "case:", "c.DeleteExpired", "case:", "R:stop", "return", "}"] Gen.Facts.cache_xsync_map_newXsyncMap = true ∧
    hasInfix ["func{", "R:stop", "close", "}", "runtime.SetFinalizer"] Gen.Facts.cache_xsync_map_newXsyncMap = true := by
  decide

/-! ### Non-vacuity -/
example : (Cache.construct (K := String) (V := Nat) (.newDefault 5 0 none) 0).2 = false := by decide
example : (Cache.construct (K := String) (V := Nat) (.newDefault 5 (-1) none) 0).2 = false := by decide
example : (Cache.construct (K := String) (V := Nat) (.newDefault 5 1 none) 0).2 = true := by decide
example : (Cache.construct (K := String) (V := Nat) (.newOpts none none none none) 0).2 = true := by decide

end Props.C15
