import CacheVerif.Spec.AMap
namespace Props.C04
theorem placeholder : True := trivial
end Props.C04
