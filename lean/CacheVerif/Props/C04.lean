import CacheVerif.Proofs.Wrappers
import CacheVerif.Proofs.ProtoData
import CacheVerif.Props.C03
import CacheVerif.Proofs.SlotMapOfHindsight
import CacheVerif.Props.C10
/-!
# C04 — `MapOf` (generic keys) is linearizable, also across grow, shrink and Clear

As C03, for the generic table: slot level = meta byte + immutable entry pointer (`Model.SlotMapOf`); the protocol
level is the same model M4a (`mapof.go` has the same resize / lock protocol as `map.go`; the trace correspondence
runs on both); sequential level = M3 with the MapOf variant, for **every** hash function including fully
colliding ones (`Props/C10`, `Props/C11`).
-/
namespace Props.C04
open Model.SlotMapOf Proofs.SlotMapOfHindsight

variable {K V : Type} [DecidableEq K] (h2 : K → Nat)

/-- **the lock-free `Load` is atomic** for any `h2` (any hash, also one under which all keys collide): its result was
the chain's logical content for its key at some instant inside the call — a reader never observes a key paired
with another key's value -/
theorem C04_reader_hindsight (k0 : K) (pre mid : List (Act K V)) (t : Tid) (k : K) (s : St K V)
    (hns : ∀ a ∈ mid, ∀ k', a ≠ Act.start t k')
    (hrun : run h2 (init k0) (pre ++ [Act.start t k] ++ mid) = some s)
    (hdone : (s.r t).pc = .done) :
    ∃ j, j ≤ mid.length ∧ ∃ s', run h2 (init k0) (pre ++ [Act.start t k] ++ mid.take j) = some s' ∧
      content h2 s'.g k = (s.r t).result :=
  reader_hindsight h2 k0 pre mid t k s hns hrun hdone

/-- the slot representation invariant holds in every reachable chain state -/
theorem C04_slot_invariant (k0 : K) (as : List (Act K V)) (s : St K V) (h : run h2 (init k0) as = some s) :
    Proofs.SlotMapOfInv.Inv h2 s.g :=
  inv_reachable h2 k0 as s h

/-- a reader running alone finishes within `(S+3)·max(chain length, 1)` of its own steps, from any state, and
returns the current logical content -/
theorem C04_solo_reader (g : G K V) (k : K) (hI : Proofs.SlotMapOfInv.Inv h2 g) :
    ∃ n, n ≤ (S + 3) * max g.buckets.length 1 ∧
      (soloReader h2 g { key := k, pc := .rdMeta 0, result := none } n).pc = .done ∧
      (soloReader h2 g { key := k, pc := .rdMeta 0, result := none } n).result = content h2 g k := by
  obtain ⟨n, hn, hd⟩ := solo_terminates h2 g k
  exact ⟨n, hn, hd, solo_result_gen h2 g k hI n hd⟩

/-- the protocol-level theorems of C03 (`C03_resize_preserves_content`, `C03_content_changes_only_at_commit_or_clear`,
`C03_commit_changes_only_its_key`, `C03_clear_empties`, `C03_no_writer_in_copied_bucket`) are about M4a, which is the
common model of `map.go` and `mapof.go`; restated here for the MapOf parameters (any bucket function = any hasher) -/
theorem C04_resize_preserves_content {K V : Type} [DecidableEq K] (p : Model.Proto.Params K) (hmin : 0 < p.minLen)
    (s : Model.Proto.St K V) (h : Model.Proto.Reach p s) (t : Model.Proto.Tid) (c : Model.Proto.Choice K V)
    (g' : Model.Proto.G K V) (l' : Model.Proto.L K V)
    (hpc : (s.l t).pc = .rzPublish) (hh : (s.l t).hint ≠ .clear) (hs : Model.Proto.tstep p t s.g (s.l t) c = some (g', l')) :
    ∀ k, Proofs.ProtoData.absGet g' k = Proofs.ProtoData.absGet s.g k :=
  C03.C03_resize_preserves_content p hmin s h t c g' l' hpc hh hs

/-! M4a is the common protocol model of `map.go` and `mapof.go` (the bucket function `p.bkt` is arbitrary = any
hasher, also a constant one): the linearizability theorems of `Props/C03.lean` are the theorems of C04 too.  They are
re-exported here under C04 names so that C04's axiom audit covers them. -/
section lin
variable {K V : Type} [DecidableEq K] (p : Model.Proto.Params K)

theorem C04_writer_linearizable : type_of% (@C03.C03_C04_writer_linearizable K V _ p) := @C03.C03_C04_writer_linearizable K V _ p
theorem C04_load_hindsight : type_of% (@C03.C03_C04_load_hindsight K V _ p) := @C03.C03_C04_load_hindsight K V _ p
theorem C04_log_legal_state : type_of% (@C03.C03_C04_log_legal_state K V _ p) := @C03.C03_C04_log_legal_state K V _ p
theorem C04_writer_once : type_of% (@C03.C03_C04_writer_once K V _ p) := @C03.C03_C04_writer_once K V _ p
theorem C04_reader_point : type_of% (@C03.C03_C04_reader_point K V _ p) := @C03.C03_C04_reader_point K V _ p
theorem C04_fastpath_point : type_of% (@C03.C03_C04_fastpath_point K V _ p) := @C03.C03_C04_fastpath_point K V _ p
theorem C04_content_changes_only_at_commit_or_clear : type_of% (@C03.C03_content_changes_only_at_commit_or_clear K V _ p) := @C03.C03_content_changes_only_at_commit_or_clear K V _ p
theorem C04_clear_empties : type_of% (@C03.C03_clear_empties K V _ p) := @C03.C03_clear_empties K V _ p
theorem C04_clear_takes_effect : type_of% (@C03.C03_C04_clear_takes_effect K V _ p) := @C03.C03_C04_clear_takes_effect K V _ p
theorem C04_read_any_instant : type_of% (@C03.C03_C04_read_any_instant K V _ p) := @C03.C03_C04_read_any_instant K V _ p

end lin

/-- **the writing methods of `MapOf`, as printed from `internal/xsync/mapof.go` on every run, are the builtin-map methods
of their names** (see `C03_methods_are_spec`) -/
theorem C04_methods_are_spec {K V : Type} [DecidableEq K] [Inhabited V] (m : Spec.AMap K V) (k : K) (v : V) (g : Option V → V × Bool) :
    ((Proofs.Wrappers.viaSpec m k g Gen.Deep.MapOf_Store v).1 = (Spec.AMap.store m k v).get k) ∧
    ((Proofs.Wrappers.viaSpec m k g Gen.Deep.MapOf_LoadOrStore v).1 = (Spec.AMap.loadOrStore m k v).1.get k ∧
      (Proofs.Wrappers.viaSpec m k g Gen.Deep.MapOf_LoadOrStore v).2 = (Spec.AMap.loadOrStore m k v).2) ∧
    ((Proofs.Wrappers.viaSpec m k g Gen.Deep.MapOf_LoadAndStore v).1 = (Spec.AMap.loadAndStore m k v).1.get k ∧
      (Proofs.Wrappers.viaSpec m k g Gen.Deep.MapOf_LoadAndStore v).2 = (Spec.AMap.loadAndStore m k v).2) ∧
    ((Proofs.Wrappers.viaSpec m k g Gen.Deep.MapOf_LoadOrCompute v).1 = (Spec.AMap.loadOrStore m k v).1.get k ∧
      (Proofs.Wrappers.viaSpec m k g Gen.Deep.MapOf_LoadOrCompute v).2 = (Spec.AMap.loadOrStore m k v).2) ∧
    ((Proofs.Wrappers.viaSpec m k g Gen.Deep.MapOf_Compute v).1 = (Spec.AMap.compute m k g).1.get k ∧
      (Proofs.Wrappers.viaSpec m k g Gen.Deep.MapOf_Compute v).2 = (Spec.AMap.compute m k g).2) ∧
    ((Proofs.Wrappers.viaSpec m k g Gen.Deep.MapOf_LoadAndDelete v).1 = (Spec.AMap.loadAndDelete m k).1.get k ∧
      (Proofs.Wrappers.viaSpec m k g Gen.Deep.MapOf_LoadAndDelete v).2 = (Spec.AMap.loadAndDelete m k).2) ∧
    ((Proofs.Wrappers.viaSpec m k g Gen.Deep.MapOf_Delete v).1 = (Spec.AMap.loadAndDelete m k).1.get k) :=
  ⟨(Proofs.Wrappers.store_spec m k v g _ (Or.inr rfl)).1,
   ⟨(Proofs.Wrappers.loadOrStore_spec m k v g _ (Or.inr rfl)).1, (Proofs.Wrappers.loadOrStore_spec m k v g _ (Or.inr rfl)).2.1⟩,
   ⟨(Proofs.Wrappers.loadAndStore_spec m k v g _ (Or.inr rfl)).1, (Proofs.Wrappers.loadAndStore_spec m k v g _ (Or.inr rfl)).2.1⟩,
   ⟨(Proofs.Wrappers.loadOrCompute_spec m k v g _ (Or.inr rfl)).1, (Proofs.Wrappers.loadOrCompute_spec m k v g _ (Or.inr rfl)).2.1⟩,
   ⟨(Proofs.Wrappers.compute_spec m k v g _ (Or.inr rfl)).1, (Proofs.Wrappers.compute_spec m k v g _ (Or.inr rfl)).2.1⟩,
   ⟨(Proofs.Wrappers.loadAndDelete_spec m k v g _ (Or.inr rfl)).1, (Proofs.Wrappers.loadAndDelete_spec m k v g _ (Or.inr rfl)).2.1⟩,
   (Proofs.Wrappers.delete_spec m k v g _ (Or.inr rfl)).1⟩

end Props.C04
