import CacheVerif.Proofs.CacheRefine
import CacheVerif.Model.CacheOf
import CacheVerif.Proofs.Twin
import CacheVerif.Proofs.DeepCache
import CacheVerif.Proofs.DeepCacheOf
/-!
# C01 — cache entries are visible exactly until they expire, are replaced or are removed

Property theorems only (helper lemmas live in `Proofs/`).  `Spec.TTL` is the reference semantics;
`Model.Cache` / `Model.CacheOf` are the models of `xsync_map.go` / `xsync_mapof.go` (tied to the code by
the generated leaves and the sequential correspondence).  All statements quantify over every key and
value type with decidable equality, every call sequence of any length (including clock advances
`tick δ`, δ ≥ 0), every TTL argument (any `Int`), every pure user function.
-/
namespace Props.C01
open Spec Model Proofs.CacheRefine

variable {K V : Type} [DecidableEq K] [Inhabited V]

/-- relation between the per-call reports of the model and of the reference semantics along a run -/
def RunRel (a : TTL.St K V) : List (Op K V) → List (Res K V) → Prop
  | [], [] => True
  | op :: ops, r :: rs =>
    OutRel a.live op r.out (TTL.step a op).2.1 ∧ r.fn = (TTL.step a op).2.2 ∧ RunRel (TTL.step a op).1 ops rs
  | _, _ => False

/-- **C01 (one call).** From related states, every API call and every clock advance keeps the states
related, reports what the TTL semantics reports (value, flags, instants; `Range`/`Items` up to the
unspecified enumeration order) and invokes the user functions exactly as the TTL semantics does. -/
theorem C01_step (s : Cache.St K V) (a : TTL.St K V) (h : Sim s a) (op : Op K V) :
    Sim (Cache.step s op).1 (TTL.step a op).1 ∧
    OutRel a.live op (Cache.step s op).2.out (TTL.step a op).2.1 ∧
    (Cache.step s op).2.fn = (TTL.step a op).2.2 :=
  step_sim s a h op

/-- **C01 (every history).** Any finite sequence of calls and clock advances. -/
theorem C01_run (ops : List (Op K V)) : ∀ (s : Cache.St K V) (a : TTL.St K V), Sim s a →
    Sim (Cache.run s ops).1 (TTL.run a ops).1 ∧ RunRel a ops (Cache.run s ops).2 := by
  induction ops with
  | nil => intro s a h; exact ⟨h, trivial⟩
  | cons op ops ih =>
    intro s a h
    obtain ⟨h1, h2, h3⟩ := step_sim s a h op
    obtain ⟨i1, i2⟩ := ih _ _ h1
    exact ⟨i1, h2, h3, i2⟩

/-- every cache built by a public constructor at a non-negative clock starts related to the empty TTL map
whose default is the constructor's (a default below 1 ns meaning "never") -/
theorem C01_init (c : Cache.Ctor) (now : Int) (h0 : 0 ≤ now) :
    Sim (K := K) (V := V) (Cache.construct c now).1
      (TTL.construct (match c with | .newOpts d _ _ _ => d | .newDefault d _ _ => some d | .newOptsOver _ d _ _ _ => some d)
        (match c with | .newOpts _ _ cb _ => cb | .newDefault _ _ cb => cb | .newOptsOver _ _ _ cb _ => cb) now) := by
  have wf0 : ∀ (d : Int) (cb : Option Nat), Sim (K := K) (V := V) ⟨[], now, d, cb⟩ ⟨[], now, d, cb⟩ :=
    fun d cb => ⟨⟨AMap.WF_nil, (fun p hp => by cases hp), h0⟩, AMap.WF_nil, rfl, rfl, rfl, fun _ => rfl⟩
  cases c with
  | newOpts d i cb m =>
    cases d <;> cases i <;> cases cb <;> cases m <;>
      simp [Cache.construct, Cache.newXsyncMap, TTL.construct, TTL.init, Gen.newXsyncMap_dflt, Gen.newXsyncMap_hasCb, Gen.newXsyncMap_janitor, Gen.NewDefault_cfg, Gen.New_cfg, Gen.WithDefaultExpiration, Gen.WithCleanupInterval, Gen.WithEvictedCallback, Gen.WithMinCapacity, List.foldl, Proofs.LeafCache.configDefault_spec,
        Gen.DefaultConfig_, Gen.NoExpiration, TTL.NoExpiration] <;> first | exact wf0 _ _ | (split <;> exact wf0 _ _)
  | newDefault d i cb =>
    cases cb <;>
      simp [Cache.construct, Cache.newXsyncMap, TTL.construct, TTL.init, Gen.newXsyncMap_dflt, Gen.newXsyncMap_hasCb, Gen.newXsyncMap_janitor, Gen.NewDefault_cfg, Gen.New_cfg, Gen.WithDefaultExpiration, Gen.WithCleanupInterval, Gen.WithEvictedCallback, Gen.WithMinCapacity, List.foldl, Proofs.LeafCache.configDefault_spec,
        Gen.NoExpiration, TTL.NoExpiration] <;> first | exact wf0 _ _ | (split <;> exact wf0 _ _)
  | newOptsOver b d i cb m =>
    cases i <;> cases cb <;> cases m <;>
      simp [Cache.construct, Cache.newXsyncMap, TTL.construct, TTL.init, Gen.newXsyncMap_dflt, Gen.newXsyncMap_hasCb, Gen.newXsyncMap_janitor, Gen.NewDefault_cfg, Gen.New_cfg, Gen.WithDefaultExpiration, Gen.WithCleanupInterval, Gen.WithEvictedCallback, Gen.WithMinCapacity, List.foldl, Proofs.LeafCache.configDefault_spec,
        Gen.DefaultConfig_, Gen.NoExpiration, TTL.NoExpiration] <;> first | exact wf0 _ _ | (split <;> exact wf0 _ _)

/-- the generic twin takes the same steps (so every statement above holds for `CacheOf` too) -/
theorem C01_twin (s : Cache.St K V) (op : Op K V) : CacheOf.step s op = Cache.step s op :=
  Proofs.Twin.step_eq s op

/-- **An expired value is never returned** (whether or not cleanup has run): a successful `Get` returns
the value of a physically present item whose expiration instant has not passed. -/
theorem C01_never_expired (s : Cache.St K V) (a : TTL.St K V) (h : Sim s a) (k : K) (v : V)
    (hr : (Cache.step s (.get k)).2.out = .val v true) :
    ∃ i, s.items.get k = some i ∧ i.v = v ∧ TTL.expired i.e s.now = false := by
  obtain ⟨_, h2, _⟩ := step_sim s a h (.get k)
  simp only [OutRel, logical, TTL.step] at h2
  rw [hr, h.get k] at h2
  unfold lget at h2
  cases hg : s.items.get k with
  | none => rw [hg] at h2; simp at h2
  | some i =>
    rw [hg] at h2
    by_cases he : TTL.expired i.e s.now = true
    · simp [he] at h2
    · simp [he] at h2; exact ⟨i, rfl, h2.symm, by simpa using he⟩

/-- **An unexpired value is never dropped by cleanup**: `DeleteExpired`, and any read (with its lazy
deletion), leave the logical content untouched. -/
theorem C01_no_early_drop (s : Cache.St K V) (a : TTL.St K V) (h : Sim s a) (k : K) :
    Sim (Cache.step s .deleteExpired).1 a ∧ Sim (Cache.step s (.get k)).1 a ∧
    Sim (Cache.step s (.getWithTTL k)).1 a ∧ Sim (Cache.step s (.getWithExpiration k)).1 a := by
  refine ⟨?_, ?_, ?_, ?_⟩
  · exact (step_sim s a h .deleteExpired).1
  · have := (step_sim s a h (.get k)).1
    simp only [TTL.step] at this; split at this <;> exact this
  · have := (step_sim s a h (.getWithTTL k)).1
    simp only [TTL.step] at this; split at this <;> exact this
  · have := (step_sim s a h (.getWithExpiration k)).1
    simp only [TTL.step] at this; split at this <;> exact this

/-- boundary: at the expiration instant itself the entry is still there, one tick later it is gone -/
theorem C01_boundary (e : Int) (he : 0 < e) : TTL.expired e e = false ∧ TTL.expired e (e + 1) = true := by
  simp [TTL.expired]; omega

/-! ### The same statements about the source text itself

`Gen.Deep.xsyncMap_*` / `Gen.Deep.xsyncMapOf_*` are printed from the working tree on every run (`tools/go2deep`);
`Deep.deepRun` runs them through the interpreter of the Go subset (`Deep.Interp`).  `DeepCache.deep_run` /
`DeepCacheOf.deep_run` prove, for every state and call sequence, that the interpreter computes exactly the
hand-written model's run, so the refinement theorems above are theorems about what `xsync_map.go` and
`xsync_mapof.go` say now (trusted: the printer and the 300-line interpreter, instead of a hand transcription). -/

/-- **C01 for the text of `xsync_map.go`.** -/
theorem C01_source_run (ops : List (Op K V)) (s : CSt K V) (a : TTL.St K V) (h : Sim s a) :
    ∃ s' rs, Deep.deepRun Deep.twinMap s ops = some (s', rs) ∧ Sim s' (TTL.run a ops).1 ∧ RunRel a ops rs :=
  ⟨_, _, DeepCache.deep_run s ops, C01_run ops s a h⟩

/-- **C01 for the text of `xsync_mapof.go`.** -/
theorem C01_source_run_of (ops : List (Op K V)) (s : CSt K V) (a : TTL.St K V) (h : Sim s a) :
    ∃ s' rs, Deep.deepRun Deep.twinMapOf s ops = some (s', rs) ∧ Sim s' (TTL.run a ops).1 ∧ RunRel a ops rs := by
  refine ⟨_, _, DeepCacheOf.deep_run s ops, ?_⟩
  rw [Proofs.Twin.run_eq]
  exact C01_run ops s a h

/-- no call of either file panics, fails a type assertion, calls a nil function or runs out of fuel, whatever the
state and the arguments (the interpreter returns `none` in all those cases) -/
theorem C01_source_total (s : CSt K V) (op : Op K V) :
    (Deep.deepStep Deep.twinMap s op).isSome ∧ (Deep.deepStep Deep.twinMapOf s op).isSome := by
  rw [DeepCache.deep_step, DeepCacheOf.deep_step]; exact ⟨rfl, rfl⟩

/-! ### Non-vacuity: a concrete reachable state with a live, an expired-uncleaned and an absent key -/

def exS : Cache.St String Nat := { items := [("live", ⟨1, 200⟩), ("dead", ⟨2, 50⟩), ("forever", ⟨3, 0⟩)], now := 100, dflt := 10, cb := some 1 }

example : Sim exS (abs exS) := sim_abs exS ⟨by simp [exS, AMap.WF, AMap.keys], by simp [exS], by decide⟩
example : (Cache.step exS (.get "dead")).2.out = .val 0 false := by decide
example : (Cache.step exS (.getAndDelete "dead")).2.out = .val 0 false := by decide
example : (Cache.step exS (.getAndDelete "dead")).2.cbs = [(1, "dead", 2)] := by decide
example : (Cache.step exS (.get "live")).2.out = .val 1 true := by decide
example : (Cache.step exS .items).2.out = .items [("live", 1), ("forever", 3)] := by decide
example : (Cache.step (Cache.step exS (.tick 101)).1 (.get "live")).2.out = .val 0 false := by decide
/-- the interpreter really runs the generated syntax (not vacuous): expired-uncleaned entry through `GetAndDelete` -/
example : ((Deep.deepStep Deep.twinMap exS (.getAndDelete "dead")).map fun r => (r.2.out, r.2.cbs, r.1.items.size)) =
    some (.val 0 false, [(1, "dead", 2)], 2) := by rw [DeepCache.deep_step]; decide
example : ((Deep.deepStep Deep.twinMapOf exS (.getOrSet "dead" 9 5)).map fun r => (r.2.out, r.1.items.get "dead")) =
    some (.val 9 false, some ⟨9, 105⟩) := by rw [DeepCacheOf.deep_step]; decide

end Props.C01
