import CacheVerif.Proofs.ProtoLocks
/-!
# C16 — reads never wait for writers: lookups finish while a writer or resize stalls

In M4a a lookup (`Load`, `Size`, the lock-free fast path of `LoadOrStore`/`LoadOrCompute`) is two steps of the
caller (read the table pointer, read the chain / the counter); no guard of these steps depends on any other
thread, and they write nothing shared.  Hence from *every* state — reachable or not, whatever the other threads
are doing: inside `valueFn`, between any two of their atomic operations, between table copy and publish — a
solo run of the reader finishes in 2 of its own steps.  That the real multi-read scan of a chain (M4b) is bounded
by the chain length in a solo run, and the cache-level statement, are in `Props/C16` of M4b/M5 (see DESIGN.md).
-/
namespace Props.C16
open Model.Proto Proofs.ProtoLocks

variable {K V : Type} [DecidableEq K] (p : Params K)

/-- no lookup step can be blocked: the guards of the lookup pcs mention no other thread -/
theorem C16_no_wait (t : Tid) (g : G K V) (l : L K V) (c : Choice K V)
    (hpc : l.pc = .ldTable ∨ l.pc = .szTable ∨ l.pc = .szSum ∨ l.pc = .dcFast ∨ (l.pc = .ldRead ∧ (opKey l).isSome)) :
    (tstep p t g l c).isSome :=
  reader_never_blocked p t g l c hpc

/-- lookups take no lock and write nothing shared -/
theorem C16_reads_only (t : Tid) (g : G K V) (l : L K V) (c : Choice K V) (g' : G K V) (l' : L K V)
    (hpc : l.pc = .ldTable ∨ l.pc = .ldRead ∨ l.pc = .szTable ∨ l.pc = .szSum ∨ l.pc = .dcFast)
    (hs : tstep p t g l c = some (g', l')) : g' = g :=
  reader_writes_nothing p t g l c g' l' hpc hs

/-- run thread `t` alone for `n` steps (every other thread frozen: the globals change only through `t`) -/
def soloRun (t : Tid) (g : G K V) (l : L K V) : List (Choice K V) → Option (G K V × L K V)
  | [] => some (g, l)
  | c :: cs =>
    match tstep p t g l c with
    | some (g', l') => soloRun t g' l' cs
    | none => none

/-- **solo run**: a `Load k` started in *any* global state — whatever the other threads are in the middle of —
completes in three steps of the caller alone (start, read the table pointer, read the chain), changes nothing
shared, and returns the content of the current table for `k` (the last completely written value: a half-done
insert is not yet in `data`) -/
theorem C16_solo_load (t : Tid) (g : G K V) (l : L K V) (k : K) (hl : l.pc = .idle) :
    match soloRun p t g l [{ op := some (.load k) }, {}, {}] with
    | some (g', l') => g' = g ∧ l'.pc = .ret ∧
        l'.result = some (.val ((g.tables g.cur).data.get k) ((g.tables g.cur).data.get k).isSome)
    | none => False := by
  simp [soloRun, tstep, hl, startOp, opKey]

/-- **solo run of `Size`**: three steps, returns the counter of the current table -/
theorem C16_solo_size (t : Tid) (g : G K V) (l : L K V) (hl : l.pc = .idle) :
    match soloRun p t g l [{ op := some .size }, {}, {}] with
    | some (g', l') => g' = g ∧ l'.pc = .ret ∧ l'.result = some (.size (g.tables g.cur).size)
    | none => False := by
  simp [soloRun, tstep, hl, startOp]

/-- **the hit path of `LoadOrStore`/`LoadOrCompute`** never reaches a lock either: if the key is present the
call returns after the lock-free read, in three steps of the caller alone, without calling its function -/
theorem C16_solo_loadOrStore_hit (t : Tid) (g : G K V) (l : L K V) (k : K) (f : Option V → V × Bool) (x : V)
    (hl : l.pc = .idle) (hx : (g.tables g.cur).data.get k = some x) :
    match soloRun p t g l [{ op := some (.dc k f true false) }, {}, {}] with
    | some (g', l') => g' = g ∧ l'.pc = .ret ∧ l'.result = some (.val (some x) true) ∧ l'.fnCalls = 0
    | none => False := by
  simp [soloRun, tstep, hl, startOp, opKey, hx]

end Props.C16
