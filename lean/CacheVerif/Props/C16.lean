import CacheVerif.Proofs.DeepLoadM
import CacheVerif.Proofs.ProtoLocks
import CacheVerif.Proofs.ProtoData
import CacheVerif.Proofs.ConcCacheLin
import CacheVerif.Proofs.DeepTrace
import CacheVerif.Proofs.DeepTraceOf
/-!
# C16 — reads never wait for writers: lookups finish while a writer or resize stalls

In M4a a lookup (`Load`, the lock-free fast path of `LoadOrStore`/`LoadOrCompute`) is two steps of the
caller (read the table pointer, read the chain); `Size` is one step (read the table pointer) plus one atomic load
per counter stripe; no guard of these steps depends on any other thread, and they write nothing shared.  Hence from
*every* state — reachable or not, whatever the other threads are doing: inside `valueFn`, between any two of their
atomic operations, between table copy and publish — a solo run of the reader finishes in 2 of its own steps
(`Size`: 1 + the number of stripes).  That the real multi-read scan of a chain (M4b) is bounded
by the chain length in a solo run is `C03_solo_reader` / `C04_solo_reader`; the cache-level statement (M5: `Get`,
`GetWithExpiration`, `GetWithTTL` of a present, unexpired key are a lock-free `Load` plus clock reads, never the
`Compute` path) is at the end of this file.
-/
namespace Props.C16
open Model.Proto Proofs.ProtoLocks

variable {K V : Type} [DecidableEq K] (p : Params K)

/-- no lookup step can be blocked: the guards of the lookup pcs mention no other thread -/
theorem C16_no_wait (t : Tid) (g : G K V) (l : L K V) (c : Choice K V)
    (hpc : l.pc = .ldTable ∨ l.pc = .szTable ∨ l.pc = .szSum ∨ l.pc = .dcFast ∨ (l.pc = .ldRead ∧ (opKey l).isSome)) :
    (tstep p t g l c).isSome :=
  reader_never_blocked p t g l c hpc

/-- lookups take no lock and write nothing shared -/
theorem C16_reads_only (t : Tid) (g : G K V) (l : L K V) (c : Choice K V) (g' : G K V) (l' : L K V)
    (hpc : l.pc = .ldTable ∨ l.pc = .ldRead ∨ l.pc = .szTable ∨ l.pc = .szSum ∨ l.pc = .dcFast)
    (hs : tstep p t g l c = some (g', l')) : g' = g :=
  reader_writes_nothing p t g l c g' l' hpc hs

/-- run thread `t` alone for `n` steps (every other thread frozen: the globals change only through `t`) -/
def soloRun (t : Tid) (g : G K V) (l : L K V) : List (Choice K V) → Option (G K V × L K V)
  | [] => some (g, l)
  | c :: cs =>
    match tstep p t g l c with
    | some (g', l') => soloRun t g' l' cs
    | none => none

/-- **solo run**: a `Load k` started in *any* global state — whatever the other threads are in the middle of —
completes in three steps of the caller alone (start, read the table pointer, read the chain), changes nothing
shared, and returns the content of the current table for `k` (the last completely written value: a half-done
insert is not yet in `data`) -/
theorem C16_solo_load (t : Tid) (g : G K V) (l : L K V) (k : K) (hl : l.pc = .idle) :
    match soloRun p t g l [{ op := some (.load k) }, {}, {}] with
    | some (g', l') => g' = g ∧ l'.pc = .ret ∧
        l'.result = some (.val ((g.tables g.cur).data.get k) ((g.tables g.cur).data.get k).isSome)
    | none => False := by
  simp [soloRun, tstep, hl, startOp, opKey]

/-- the `sumSize` loop of a solo `Size`: from stripe `si` with `k + 1` stripes left, `k + 1` steps of the caller
alone reach the return pc with the sum of all the stripes -/
theorem solo_sumSize (t : Tid) (g : G K V) (k : Nat) (l : L K V) (hpc : l.pc = .szSum)
    (hk : l.si + k + 1 = p.stripes (g.tables l.tbl).len)
    (hacc : l.acc = Proofs.ProtoData.psum (g.tables l.tbl).ctr l.si) :
    ∃ l', soloRun p t g l (List.replicate (k + 1) {}) = some (g, l') ∧ l'.pc = .ret ∧
      l'.result = some (.size ((g.tables l.tbl).total (p.stripes (g.tables l.tbl).len))) := by
  induction k generalizing l with
  | zero =>
    refine ⟨{ l with pc := .ret, result := some (.size (l.acc + (g.tables l.tbl).ctr l.si)) }, ?_, rfl, ?_⟩
    · have : ¬ l.si + 1 < p.stripes (g.tables l.tbl).len := by omega
      simp [soloRun, tstep, hpc, this]
    · have : p.stripes (g.tables l.tbl).len = l.si + 1 := by omega
      simp only [Proofs.ProtoData.total_eq, this, Proofs.ProtoData.psum_succ, hacc]
  | succ k ih =>
    have hlt : l.si + 1 < p.stripes (g.tables l.tbl).len := by omega
    obtain ⟨l', h1, h2, h3⟩ := ih { l with si := l.si + 1, acc := l.acc + (g.tables l.tbl).ctr l.si } hpc
      (by dsimp only; omega) (by dsimp only; rw [Proofs.ProtoData.psum_succ, hacc])
    refine ⟨l', ?_, h2, h3⟩
    rw [List.replicate_succ]
    simp only [soloRun, tstep, hpc, hlt, if_true]
    simp only [hpc] at h1
    exact h1

/-- **solo run of `Size`**: start, read the table pointer, one atomic load per stripe (`n` of them); returns the sum
of the stripes of the current table; nothing shared changes and no step can be blocked -/
theorem C16_solo_size (t : Tid) (g : G K V) (l : L K V) (hl : l.pc = .idle) (hst : 0 < p.stripes (g.tables g.cur).len) :
    match soloRun p t g l ({ op := some .size } :: {} :: List.replicate (p.stripes (g.tables g.cur).len) {}) with
    | some (g', l') => g' = g ∧ l'.pc = .ret ∧
        l'.result = some (.size ((g.tables g.cur).total (p.stripes (g.tables g.cur).len)))
    | none => False := by
  obtain ⟨k, hk⟩ : ∃ k, p.stripes (g.tables g.cur).len = k + 1 := ⟨p.stripes (g.tables g.cur).len - 1, by omega⟩
  obtain ⟨l', h1, h2, h3⟩ := solo_sumSize p t g k
    { (startOp l (.size : POp K V)) with pc := .szSum, tbl := g.cur, si := 0, acc := 0 } rfl (by dsimp only; omega) rfl
  rw [hk]
  simp only [soloRun, tstep, hl, startOp]
  simp only [startOp] at h1
  rw [h1]
  exact ⟨rfl, h2, by rw [h3, hk]⟩

/-- the same on a concrete instance: 8 stripes, so `Size` takes 2 + 8 steps of the caller alone -/
def exP : Params Nat :=
  { growThr := fun n => n * 9 / 4, shrinkThr := fun n => n * 3 / 128, bkt := fun _ k => k, minLen := 2, growOnly := false,
    stripes := fun _ => 8 }

example (t : Tid) (g : G Nat Nat) (l : L Nat Nat) (hl : l.pc = .idle) :
    ∃ l', soloRun exP t g l ({ op := some .size } :: List.replicate 9 {}) = some (g, l') ∧ l'.pc = .ret ∧
      l'.result = some (.size ((g.tables g.cur).total 8)) := by
  have h := C16_solo_size exP t g l hl (show 0 < 8 by decide)
  split at h
  · rename_i g' l' heq
    obtain ⟨rfl, h2, h3⟩ := h
    exact ⟨l', heq, h2, h3⟩
  · exact h.elim

/-- **the hit path of `LoadOrStore`/`LoadOrCompute`** never reaches a lock either: if the key is present the
call returns after the lock-free read, in three steps of the caller alone, without calling its function -/
theorem C16_solo_loadOrStore_hit (t : Tid) (g : G K V) (l : L K V) (k : K) (f : Option V → V × Bool) (x : V)
    (hl : l.pc = .idle) (hx : (g.tables g.cur).data.get k = some x) :
    match soloRun p t g l [{ op := some (.dc k f true false) }, {}, {}] with
    | some (g', l') => g' = g ∧ l'.pc = .ret ∧ l'.result = some (.val (some x) true) ∧ l'.fnCalls = 0
    | none => False := by
  simp [soloRun, tstep, hl, startOp, opKey, hx]

/-! ### cache level (M5): the hit path of the `Get` family -/
section cache
open Model.ConcCache Proofs.ConcCacheLin

variable {K V : Type} [DecidableEq K] [Inhabited V]

/-- the steps of the `Get` family outside its double-check `Compute` — the lock-free `Load`, the expiry test against
the clock, `GetWithTTL`'s second clock read — write nothing shared -/
theorem C16_cache_get_reads_only (t : Model.ConcCache.Tid) (g : Model.ConcCache.G K V) (l : Model.ConcCache.L K V)
    (c : Model.ConcCache.Choice K V) (g' : Model.ConcCache.G K V) (l' : Model.ConcCache.L K V)
    (hpc : l.pc = .getLoad ∨ l.pc = .getChkClock ∨ l.pc = .getTTLClock)
    (hs : Model.ConcCache.tstep t g l c = some (g', l')) : g' = g :=
  tstep_local t g l c g' l' (by rcases hpc with h | h | h <;> rw [h] <;> rfl) hs

/-- a `Get`-family call whose lock-free `Load` found an entry that is unexpired at its clock reading never takes
the write path (`Compute` under the bucket lock): it returns, or (GetWithTTL) reads the clock once more -/
theorem C16_cache_hit_never_computes (t : Model.ConcCache.Tid) (g : Model.ConcCache.G K V) (l : Model.ConcCache.L K V)
    (c : Model.ConcCache.Choice K V) (g' : Model.ConcCache.G K V) (l' : Model.ConcCache.L K V)
    (i : Model.Item V) (hpc : l.pc = .getChkClock) (hl : l.loaded = some i)
    (hlive : Gen.item_expired i.e g.now = false)
    (hs : Model.ConcCache.tstep t g l c = some (g', l')) :
    g' = g ∧ (l'.pc = .ret ∨ l'.pc = .getTTLClock) := by
  refine ⟨tstep_local t g l c g' l' (by rw [hpc]; rfl) hs, ?_⟩
  simp only [Model.ConcCache.tstep, hpc, hl] at hs
  cases hop : l.op with
  | none => rw [hop] at hs; cases hs
  | some op =>
    rw [hop] at hs
    simp only [hlive, Bool.not_false, if_true, Option.some.injEq, Prod.mk.injEq] at hs
    obtain ⟨-, rfl⟩ := hs
    rcases afterHit_cases l op i g.now with ⟨_, h⟩ | ⟨_, _, _, h⟩ <;> rw [h]
    · exact Or.inl rfl
    · exact Or.inr rfl

/-- **the lookups of the cache layer read only, in the source text.**  The atomic actions the tracing interpreter
records when it runs `Get`, `GetWithExpiration`, `GetWithTTL` of either file on an absent key or on a key whose entry is
unexpired, and `Count`, are lock-free `Load`s of the underlying map, `Size`, and clock reads: no `Compute` (hence no
bucket lock, nothing to wait for), no store.  (On an expired-but-uncleaned entry `get` does go through `Compute`: the
lazy delete; the property is about live and absent keys.) -/
theorem C16_source_lookups_read_only (s : Model.CSt K V) (k : K) :
    (s.items.get k = none ∨ ∃ i, s.items.get k = some i ∧ Gen.item_expired i.e s.now = false) →
    ∀ op ∈ [Model.Op.get k, .getWithExpiration k, .getWithTTL k, .count],
      (∃ t, (Deep.deepTrace Deep.twinMapTr s op).map (·.2.2) = some t ∧ t.all DeepTrace.readOnly = true) ∧
      (∃ t, (Deep.deepTrace Deep.twinMapOfTr s op).map (·.2.2) = some t ∧ t.all DeepTraceOf.readOnly = true) := by
  intro h op hop
  simp only [List.mem_cons, List.mem_nil_iff, or_false] at hop
  rcases h with hg | ⟨i, hg, he⟩
  · have h1 := DeepTrace.lookup_actions_absent s k hg
    have h2 := DeepTraceOf.lookup_actions_absent s k hg
    rcases hop with rfl | rfl | rfl | rfl
    · exact ⟨⟨_, h1.1, rfl⟩, ⟨_, h2.1, rfl⟩⟩
    · exact ⟨⟨_, h1.2.1, rfl⟩, ⟨_, h2.2.1, rfl⟩⟩
    · exact ⟨⟨_, h1.2.2, rfl⟩, ⟨_, h2.2.2, rfl⟩⟩
    · exact ⟨⟨_, DeepTrace.count_actions s, rfl⟩, ⟨_, DeepTraceOf.count_actions s, rfl⟩⟩
  · have h1 := DeepTrace.lookup_actions_live s k i hg he
    have h2 := DeepTraceOf.lookup_actions_live s k i hg (by simpa [DeepTraceOf.ofx] using he)
    rcases hop with rfl | rfl | rfl | rfl
    · exact ⟨⟨_, h1.1, rfl⟩, ⟨_, h2.1, rfl⟩⟩
    · exact ⟨⟨_, h1.2.1, rfl⟩, ⟨_, h2.2.1, rfl⟩⟩
    · refine ⟨?_, ?_⟩
      · rcases h1.2.2 with h | h <;> exact ⟨_, h, rfl⟩
      · rcases h2.2.2 with h | h <;> exact ⟨_, h, rfl⟩
    · exact ⟨⟨_, DeepTrace.count_actions s, rfl⟩, ⟨_, DeepTraceOf.count_actions s, rfl⟩⟩

end cache

/-! ### the text of the lookups, printed from the source, cannot write or lock -/

/-- **the bodies of `(*MapOf).Load`, `(*Map).Load` and `sumSize` contain no store and no allocation** - on any path, not
only the executed ones - and, the printer (`go2deep -table`) having accepted them, nothing but local variables, plain
and atomic *loads*, leaf functions of `internal/xsync`, conversions and control flow: no lock, no CAS, no condition
variable, no call that could block.  (`rfl` on the syntax regenerated on every run.)  Together with
`C10_source_load_is_word_search` / `C10_source_mapload_is_tophash_search` - the calls end within a number of iterations
bounded by the chain length - this is the source-level half of "a lookup never waits". -/
theorem C16_source_lookups_cannot_write :
    Gen.Deep.T_MapOf_Load.body.readOnly = true ∧ Gen.Deep.T_Map_Load.body.readOnly = true ∧
    Gen.Deep.T_mapOfTable_sumSize.body.readOnly = true ∧ Gen.Deep.T_mapTable_sumSize.body.readOnly = true ∧
    Gen.Deep.T_appendToBucketOf.body.readOnly = false := ⟨rfl, rfl, rfl, rfl, rfl⟩

end Props.C16
