import CacheVerif.Props.C01
import CacheVerif.Props.C11
import CacheVerif.Proofs.ProtoData
import CacheVerif.Proofs.ProtoRange
import CacheVerif.Proofs.ProtoLin
import CacheVerif.Proofs.DeepSource
import CacheVerif.Proofs.CacheWalk
/-!
# C07 — Range/Items visit each qualifying entry once, never a phantom or expired one

Sequential part (no concurrent writer): `Range` calls the visitor on the live entries (caches: unexpired when
the traversal began) in *some* enumeration order, each key at most once, each pair exactly as stored, stops
immediately when the visitor returns false, and visits everything when it never does; `Items` is exactly the
live content; a nil visitor does nothing.  For the tables the same holds for any hash, seeds and layout.
The concurrent part (traversal against writers, grow, shrink, Clear, re-entrant visitors) is the section
"concurrent traversals" below: M4a, every schedule - at most once per key, never a phantom, every entry that stays put
(`C07_complete`), exactly the content when nobody writes (`C07_exact_when_unmodified`), and the same three clauses for the
text of `Cache.Range` / `CacheOf.Range` over the protocol (`C07_cache_over_protocol`).
-/
namespace Props.C07
open Spec Model Proofs.CacheRefine

variable {K V : Type} [DecidableEq K] [Inhabited V]

/-- the visitor walk visits a prefix of the enumeration … -/
theorem walk_prefix (f : K → V → Bool) (l : List (K × Item V)) :
    TTL.walk f l <+: l.map (fun p => (p.1, p.2.v)) := by
  induction l with
  | nil => exact List.prefix_refl _
  | cons p rest ih =>
    obtain ⟨k, i⟩ := p
    by_cases hf : f k i.v = true
    · simp only [TTL.walk, hf, if_true, List.map_cons]
      exact List.cons_prefix_cons.mpr ⟨rfl, ih⟩
    · simp only [TTL.walk, hf, Bool.false_eq_true, if_false, List.map_cons]
      exact List.cons_prefix_cons.mpr ⟨rfl, List.nil_prefix⟩

/-- … and stops immediately when the visitor returns false: every visited pair except the last one was
accepted by the visitor -/
theorem walk_stops (f : K → V → Bool) (l : List (K × Item V)) :
    ∀ x ∈ (TTL.walk f l).dropLast, f x.1 x.2 = true := by
  induction l with
  | nil => simp [TTL.walk]
  | cons p rest ih =>
    obtain ⟨k, i⟩ := p
    by_cases hf : f k i.v = true
    · simp only [TTL.walk, hf, if_true]
      intro x hx
      cases hw : TTL.walk f rest with
      | nil => simp [hw] at hx
      | cons a b =>
        rw [hw, List.dropLast_cons₂] at hx
        rcases List.mem_cons.mp hx with rfl | hx
        · exact hf
        · exact ih x (by rw [hw]; exact hx)
    · simp [TTL.walk, hf]

/-- a visitor that never returns false sees every entry -/
theorem walk_all (f : K → V → Bool) (l : List (K × Item V)) (h : ∀ p ∈ l, f p.1 p.2.v = true) :
    TTL.walk f l = l.map fun p => (p.1, p.2.v) := by
  induction l with
  | nil => rfl
  | cons p rest ih =>
    obtain ⟨k, i⟩ := p
    have := h (k, i) (by simp)
    simp only [TTL.walk, this, if_true, List.map_cons]
    rw [ih (fun q hq => h q (List.mem_cons_of_mem _ hq))]

/-- **cache `Range`**: the visits are a prefix of an enumeration `π` of exactly the live entries -/
theorem C07_cache_range (s : Cache.St K V) (a : TTL.St K V) (h : Sim s a) (f : K → V → Bool) :
    ∃ π : List (K × Item V), π.Perm a.live ∧ (Cache.step s (.range f)).2.out = .visits (TTL.walk f π) ∧
      (π.map (·.1)).Nodup ∧ (∀ p ∈ π, a.live.get p.1 = some p.2) ∧ (Cache.step s (.range f)).1 = s := by
  obtain ⟨_, ⟨π, hp, ho⟩, _⟩ := step_sim s a h (.range f)
  refine ⟨π, hp, ho, ?_, ?_, rfl⟩
  · have : (a.live.map (·.1)).Nodup := h.awf
    exact (List.Perm.nodup_iff (List.Perm.map _ hp)).mpr this
  · intro p hp'
    exact AMap.get_of_mem _ h.awf p.1 p.2 ((List.Perm.mem_iff hp).mp hp')

/-- never an expired entry: everything `Range` may visit is unexpired at the traversal's clock -/
theorem C07_cache_range_unexpired (s : Cache.St K V) (a : TTL.St K V) (h : Sim s a) (k : K) (i : Item V)
    (hl : a.live.get k = some i) : TTL.expired i.e s.now = false := by
  rw [h.get k] at hl
  unfold lget at hl
  cases hs : s.items.get k with
  | none => rw [hs] at hl; cases hl
  | some j =>
    rw [hs] at hl
    by_cases he : TTL.expired j.e s.now = true
    · simp [he] at hl
    · simp [he] at hl; subst hl; simpa using he

/-- **`Items`** is exactly the live content (as a set of pairs, each key once) -/
theorem C07_cache_items (s : Cache.St K V) (a : TTL.St K V) (h : Sim s a) :
    ∃ π : List (K × Item V), π.Perm a.live ∧ (Cache.step s .items).2.out = .items (π.map fun p => (p.1, p.2.v)) :=
  (step_sim s a h .items).2.1

/-- the same for the text of `Range` in both cache-layer files (printed from the working tree, run by the
interpreter of the Go subset): the visitor is called on an enumeration of exactly the entries that are live at the
traversal's clock, each once, until it returns false, and nothing is modified -/
theorem C07_source_range (s : Cache.St K V) (a : TTL.St K V) (h : Sim s a) (f : K → V → Bool)
    (T : Deep.Twin K V) (hT : DeepSource.IsTwin T) :
    ∃ s' r, Deep.deepStep T s (.range f) = some (s', r) ∧ s' = s ∧
      ∃ π : List (K × Item V), π.Perm a.live ∧ r.out = .visits (TTL.walk f π) ∧ (π.map (·.1)).Nodup := by
  obtain ⟨π, hp, ho, hn, _, hs⟩ := C07_cache_range s a h f
  exact ⟨_, _, DeepSource.step s _ T hT, hs, π, hp, ho, hn⟩

/-- `Items` of both files: exactly the live entries -/
theorem C07_source_items (s : Cache.St K V) (a : TTL.St K V) (h : Sim s a) (T : Deep.Twin K V) (hT : DeepSource.IsTwin T) :
    ∃ s' r, Deep.deepStep T s .items = some (s', r) ∧
      ∃ π : List (K × Item V), π.Perm a.live ∧ r.out = .items (π.map fun p => (p.1, p.2.v)) := by
  obtain ⟨π, hp, ho⟩ := C07_cache_items s a h
  exact ⟨_, _, DeepSource.step s _ T hT, π, hp, ho⟩

/-! ### Cache-level `Range` / `Items` concurrent with writers

At the cache layer `Range` is a reader: it reads the clock once and hands the underlying map's `Range` a closure that
skips entries expired at that instant and calls the user's visitor on the others.  What the map hands that closure
while other goroutines write is the business of C07 at map level (M4a, below: at most once per key, only pairs the
key really held during the traversal, every pair that stayed put).  `MapRangeOK` states that guarantee for the pairs
`π` handed over and the contents `H` the map went through during the traversal; the theorem derives the property for
the cache from it, for **the text of `Range` in both files** (`deep_range_handed`: the interpreter run on the
generated method body with the map handing over `π`). -/

/-- the map-level guarantee (C07 for Map / MapOf) about the pairs `π` a traversal hands to its visitor, `H` being the
contents of the map during the traversal -/
structure MapRangeOK (H : List (AMap K (Item V))) (π : List (K × Item V)) : Prop where
  /-- at most once per key -/
  once : (π.map (·.1)).Nodup
  /-- only a value the key really held at some moment of the traversal -/
  real : ∀ p ∈ π, ∃ m ∈ H, m.get p.1 = some p.2
  /-- every binding that stayed put for the whole traversal -/
  complete : ∀ k i, (∀ m ∈ H, m.get k = some i) → (k, i) ∈ π

/-- **C07, cache level, any concurrent history.**  With the map-level guarantee for the pairs handed over, `Range` of
either file calls the user's visitor (1) at most once per key, (2) only with a value that was stored under that key
at some moment of the traversal and was unexpired when the traversal began, (3) - if the visitor never stops - on
every entry that stays present for the whole traversal and was unexpired when it began; and it modifies nothing. -/
theorem C07_cache_conc (s : Cache.St K V) (f : K → V → Bool) (H : List (AMap K (Item V))) (π : List (K × Item V))
    (hok : MapRangeOK H π) :
    ∃ visits,
      Deep.deepStep (Deep.twinMapHanded π) s (.range f) = some (s, { out := .visits visits }) ∧
      Deep.deepStep (Deep.twinMapOfHanded π) s (.range f) = some (s, { out := .visits visits }) ∧
      (visits.map (·.1)).Nodup ∧
      (∀ k v, (k, v) ∈ visits → ∃ i, i.v = v ∧ (∃ m ∈ H, m.get k = some i) ∧ TTL.expired i.e s.now = false) ∧
      ((∀ k v, f k v = true) → ∀ k i, (∀ m ∈ H, m.get k = some i) → TTL.expired i.e s.now = false → (k, i.v) ∈ visits) := by
  refine ⟨Cache.walk s.now f π, DeepCache.deep_range_handed s f π, ?_, ?_, ?_, ?_⟩
  · rw [DeepCacheOf.deep_range_handed, Proofs.Twin.walk_eq]
  · exact List.Nodup.sublist (Proofs.CacheWalk.walk_keys_sublist s.now f π) hok.once
  · intro k v hv
    obtain ⟨i, hi, hv', hx⟩ := Proofs.CacheWalk.mem_walk s.now f π k v hv
    exact ⟨i, hv'.symm, hok.real (k, i) hi, by rw [← Proofs.LeafCache.item_expiredWithNow_eq]; exact hx⟩
  · intro hf k i hst hx
    exact Proofs.CacheWalk.walk_complete s.now f hf π k i (hok.complete k i hst)
      (by rw [Proofs.LeafCache.item_expiredWithNow_eq]; exact hx)

/-- `Items` under the same guarantee: exactly one pair per handed key that was unexpired when the call began -/
theorem C07_cache_items_conc (s : Cache.St K V) (H : List (AMap K (Item V))) (π : List (K × Item V)) (hok : MapRangeOK H π) :
    ∃ l, Deep.deepStep (Deep.twinMapHanded π) s .items = some (s, { out := .items l }) ∧
      (l.map (·.1)).Nodup ∧
      (∀ k i, (∀ m ∈ H, m.get k = some i) → TTL.expired i.e s.now = false → (k, i.v) ∈ l) ∧
      (∀ k v, (k, v) ∈ l → ∃ i, i.v = v ∧ (∃ m ∈ H, m.get k = some i) ∧ TTL.expired i.e s.now = false) := by
  refine ⟨Cache.walk s.now (fun _ _ => true) π, DeepCache.deep_items_handed s π, ?_, ?_, ?_⟩
  · exact List.Nodup.sublist (Proofs.CacheWalk.walk_keys_sublist s.now _ π) hok.once
  · intro k i hst hx
    exact Proofs.CacheWalk.walk_complete s.now _ (fun _ _ => rfl) π k i (hok.complete k i hst)
      (by rw [Proofs.LeafCache.item_expiredWithNow_eq]; exact hx)
  · intro k v hv
    obtain ⟨i, hi, hv', hx⟩ := Proofs.CacheWalk.mem_walk s.now _ π k v hv
    exact ⟨i, hv'.symm, hok.real (k, i) hi, by rw [← Proofs.LeafCache.item_expiredWithNow_eq]; exact hx⟩

/-- the guarantee is satisfiable (a traversal of a map nobody writes to): not vacuous -/
example : MapRangeOK [([("a", ⟨1, 0⟩), ("b", ⟨2, 5⟩)] : AMap String (Item Nat))] [("a", ⟨1, 0⟩), ("b", ⟨2, 5⟩)] :=
  ⟨by decide, by decide, by
    intro k i h
    have := h _ (List.mem_singleton.mpr rfl)
    simp only [AMap.get_cons] at this
    by_cases h1 : "a" = k
    · subst h1; simp at this; subst this; simp
    · by_cases h2 : "b" = k
      · subst h2; simp at this; subst this; simp
      · simp [h1, h2] at this⟩

/-- a nil visitor is ignored -/
theorem C07_cache_range_nil (s : Cache.St K V) : Cache.step s .rangeNil = (s, { out := .unit }) := rfl

/-- **table `Range`** (Map and MapOf, any hash/seeds/layout): the visits are a prefix of an enumeration of
exactly the map's entries; nothing is modified -/
theorem C07_table_range (var : Model.Table.Variant) (hv : Proofs.TableRefine.GoodVariant var) (env : Model.Table.Env K)
    (sp : AMap K V) (m : Model.Table.St K V) (h : Proofs.TableRefine.Sim var env sp m) (f : K → V → Bool) :
    ∃ π : List (K × V), π.Perm sp ∧ (Model.Table.step var env m (.range f)).2.out = .visits (Model.Table.walk f π) :=
  (Proofs.TableRefine.step_refines var env hv sp m h (.range f)).2.1

/-! ### Non-vacuity -/
example : (Cache.step C01.exS (.range fun k _ => k != "live")).2.out = .visits [("live", 1)] := by decide
example : (Cache.step C01.exS (.range fun _ _ => true)).2.out = .visits [("live", 1), ("forever", 3)] := by decide

/-! ### concurrent traversals (M4a, all schedules, re-entrant visitors included) -/
section conc
open Model.Proto Proofs.ProtoData
variable {K : Type} {V : Type} [DecidableEq K] (p : Params K)

/-- **at most once per key**: at every point of a traversal the keys visited so far plus the keys of the bucket
snapshot in hand are pairwise distinct (a key has one root bucket per table generation, the snapshot is taken
under that bucket's lock, and a generation holds no key twice) — also while other threads store, delete, grow,
shrink or clear, and while the visitor itself calls back into the container -/
theorem C07_at_most_once (hmin : 0 < p.minLen) (s : Model.Proto.St K V) (h : Reach p s) (u : Model.Proto.Tid)
    (hpc : (s.l u).pc = .rgVisit ∨ (s.l u).pc = .rgLock ∨ (s.l u).pc = .rgCopy ∨ (s.l u).pc = .rgUnlock) :
    (AMap.keys ((s.l u).visited ++ (s.l u).snap)).Nodup :=
  (range_keys_nodup p hmin s h u hpc).1

/-- **only real entries**: a bucket snapshot is exactly the content of that bucket of the traversed generation at
the instant it is taken (under the bucket lock) -/
theorem C07_snapshot_exact (s : Model.Proto.St K V) (h : Reach p s) (t : Model.Proto.Tid) (c : Choice K V)
    (g' : Model.Proto.G K V) (l' : L K V) (hpc : (s.l t).pc = .rgCopy) (hs : tstep p t s.g (s.l t) c = some (g', l')) :
    g' = s.g ∧ l'.snap = bucketEntries p s.g (s.l t).tbl (s.l t).ri ∧ l'.visited = (s.l t).visited :=
  let r := rgCopy_snapshot p s h t c g' l' hpc hs
  ⟨r.1, r.2.1, r.2.2.1⟩

/-! #### the whole call: the window of one `Range`

`Trav p u d s0 sts s1` (`Proofs/ProtoRange.lean`): `sts` are the states from `s0` to `s1` of *any* execution fragment
(any threads, any calls, grow / shrink / `Clear`, the visitor of `u` calling back into the map) during which the call
of thread `u` at visitor-nesting depth `d` does not return before `s1`, and in which the visitor of `u` never stops a
traversal.  With `s0` the state in which `u` is about to load the table pointer and `s1` the state in which that call
returns the list `π`, the three clauses of the property at map level are theorems about every such window. -/

/-- **every entry that stays put is visited** (all schedules): a pair bound in the current table in every state of the
window is among the pairs handed to the visitor.  (A generation retired by a grow or a shrink is frozen - no writer
that passed its checks is still inside it; one retired by `Clear` is not, but then the key is no longer bound.) -/
theorem C07_complete (hmin : 0 < p.minLen) (u : Model.Proto.Tid) (s0 s1 : Model.Proto.St K V)
    (sts : List (Model.Proto.St K V)) (π : List (K × V)) (h0 : Reach p s0) (hpc : (s0.l u).pc = .rgTable)
    (htr : Proofs.ProtoRange.Trav p u (s0.l u).frames.length s0 sts s1)
    (hret : (s1.l u).pc = .ret) (hdep : (s1.l u).frames.length = (s0.l u).frames.length)
    (hres : (s1.l u).result = some (.visits π)) :
    ∀ k v, (∀ σ ∈ sts, absGet σ.g k = some v) → (k, v) ∈ π :=
  Proofs.ProtoRange.trav_complete p hmin u s0 s1 sts π h0 hpc htr hret hdep hres

/-- **at most once per key**, for the list any `Range` call returns (all schedules) -/
theorem C07_result_once (hmin : 0 < p.minLen) (s : Model.Proto.St K V) (h : Reach p s) (u : Model.Proto.Tid)
    (π : List (K × V)) (hres : (s.l u).result = some (.visits π)) : (π.map (·.1)).Nodup :=
  Proofs.ProtoRange.result_nodup p hmin s h u π hres

/-- **only real entries, partial** (all schedules in which no `Clear` publishes its empty table during the call):
every pair handed over was bound to its key in the current table in one of the states of the window.
Missing for the full statement: a `Clear` publishing during the call lets a writer that had passed its checks commit
into the retired generation, and the traversal may hand that pair over; the helping step of `Clear` linearizes that
write *before* the `Clear` (`C03_C04_lin`), so the pair was current in the linearization, but the current table never
held it.  For those windows the statement is `C07_snapshot_exact` (the pair was in the walked generation). -/
theorem C07_real_partial (hmin : 0 < p.minLen) (u : Model.Proto.Tid) (s0 s1 : Model.Proto.St K V)
    (sts : List (Model.Proto.St K V)) (π : List (K × V)) (h0 : Reach p s0) (hpc : (s0.l u).pc = .rgTable)
    (htr : Proofs.ProtoRange.Trav p u (s0.l u).frames.length s0 sts s1)
    (hncs : ∀ σ ∈ sts, Proofs.ProtoRange.NoClearPublish σ)
    (hret : (s1.l u).pc = .ret) (hdep : (s1.l u).frames.length = (s0.l u).frames.length)
    (hres : (s1.l u).result = some (.visits π)) :
    ∀ e ∈ π, ∃ σ ∈ sts, absGet σ.g e.1 = some e.2 :=
  Proofs.ProtoRange.trav_real_partial p hmin u s0 s1 sts π h0 hpc htr hncs hret hdep hres

/-- **never a phantom** (every schedule, `Clear` included): every pair in the list a `Range` call returns was stored under
that very key by the commit step of a writer (`Store`, `LoadOrStore`, `LoadAndStore`, `LoadOrCompute`, `Compute`)
earlier in the run (`commits`: the pairs stored by the commit steps of the schedule) -/
theorem C07_no_phantom (hmin : 0 < p.minLen) (sched : List (Model.Proto.Tid × Choice K V)) (s : Model.Proto.St K V)
    (hrun : Model.Proto.run p (Model.Proto.init p) sched = some s) (u : Model.Proto.Tid) (π : List (K × V))
    (hres : (s.l u).result = some (.visits π)) :
    ∀ e ∈ π, e ∈ Proofs.ProtoRange.commits p (Model.Proto.init p) sched :=
  Proofs.ProtoRange.range_no_phantom p hmin sched s hrun u π hres

end conc

theorem trav_reach {K V : Type} [DecidableEq K] {p : Model.Proto.Params K} {u : Model.Proto.Tid} {d : Nat}
    {s s1 : Model.Proto.St K V} {sts : List (Model.Proto.St K V)} (h : Proofs.ProtoRange.Trav p u d s sts s1)
    (h0 : Model.Proto.Reach p s) : Model.Proto.Reach p s1 := by
  induction h with
  | refl s => exact h0
  | step s s' s1 t c sts _ hs _ _ ih => exact ih (Proofs.ProtoLin.reach_step p s s' t c h0 hs)

/-- **the hypothesis of `C07_cache_conc` is a theorem about M4a** (windows without a publishing `Clear`): the pairs a
`Range` of the table protocol returns and the contents the current table went through satisfy `MapRangeOK`.  So the
three clauses of the property hold for `Cache.Range` / `CacheOf.Range` (the text of both files, `C07_cache_conc`) over
the table protocol, for every schedule. -/
theorem C07_map_range_ok_partial {K V : Type} [DecidableEq K] (p : Model.Proto.Params K) (hmin : 0 < p.minLen)
    (u : Model.Proto.Tid) (s0 s1 : Model.Proto.St K (Item V))
    (sts : List (Model.Proto.St K (Item V))) (π : List (K × Item V)) (h0 : Model.Proto.Reach p s0)
    (hpc : (s0.l u).pc = .rgTable) (htr : Proofs.ProtoRange.Trav p u (s0.l u).frames.length s0 sts s1)
    (hncs : ∀ σ ∈ sts, Proofs.ProtoRange.NoClearPublish σ)
    (hret : (s1.l u).pc = .ret) (hdep : (s1.l u).frames.length = (s0.l u).frames.length)
    (hres : (s1.l u).result = some (.visits π)) :
    MapRangeOK (sts.map fun σ => (σ.g.tables σ.g.cur).data) π := by
  have hreach1 : Model.Proto.Reach p s1 := trav_reach htr h0
  refine ⟨C07_result_once p hmin s1 hreach1 u π hres, ?_, ?_⟩
  · intro e he
    obtain ⟨σ, hσ, h⟩ := C07_real_partial p hmin u s0 s1 sts π h0 hpc htr hncs hret hdep hres e he
    exact ⟨_, List.mem_map.mpr ⟨σ, hσ, rfl⟩, h⟩
  · intro k i hall
    refine C07_complete p hmin u s0 s1 sts π h0 hpc htr hret hdep hres k i (fun σ hσ => ?_)
    exact hall _ (List.mem_map.mpr ⟨σ, hσ, rfl⟩)

/-- **the cache's `Range` over the table protocol** (both files, every schedule without a publishing `Clear`): when the
map underneath is the table protocol M4a and its `Range` call went through the window `sts` and returned `π`, the text
of `Cache.Range` / `CacheOf.Range` calls the user's visitor at most once per key, only on values that key held in the
current table in some state of the window and that were unexpired when the traversal began, and - if the visitor never
stops - on every entry that stayed in the current table throughout and was unexpired when the traversal began -/
theorem C07_cache_over_protocol {K V : Type} [DecidableEq K] [Inhabited V] (p : Model.Proto.Params K) (hmin : 0 < p.minLen)
    (u : Model.Proto.Tid) (s0 s1 : Model.Proto.St K (Item V))
    (sts : List (Model.Proto.St K (Item V))) (π : List (K × Item V)) (h0 : Model.Proto.Reach p s0)
    (hpc : (s0.l u).pc = .rgTable) (htr : Proofs.ProtoRange.Trav p u (s0.l u).frames.length s0 sts s1)
    (hncs : ∀ σ ∈ sts, Proofs.ProtoRange.NoClearPublish σ)
    (hret : (s1.l u).pc = .ret) (hdep : (s1.l u).frames.length = (s0.l u).frames.length)
    (hres : (s1.l u).result = some (.visits π)) (s : Cache.St K V) (f : K → V → Bool) :
    ∃ visits,
      Deep.deepStep (Deep.twinMapHanded π) s (.range f) = some (s, { out := .visits visits }) ∧
      Deep.deepStep (Deep.twinMapOfHanded π) s (.range f) = some (s, { out := .visits visits }) ∧
      (visits.map (·.1)).Nodup ∧
      (∀ k v, (k, v) ∈ visits → ∃ i, i.v = v ∧ (∃ σ ∈ sts, Proofs.ProtoData.absGet σ.g k = some i) ∧ TTL.expired i.e s.now = false) ∧
      ((∀ k v, f k v = true) → ∀ k i, (∀ σ ∈ sts, Proofs.ProtoData.absGet σ.g k = some i) → TTL.expired i.e s.now = false →
        (k, i.v) ∈ visits) := by
  have hok := C07_map_range_ok_partial p hmin u s0 s1 sts π h0 hpc htr hncs hret hdep hres
  obtain ⟨visits, h1, h2, h3, h4, h5⟩ := C07_cache_conc s f _ π hok
  refine ⟨visits, h1, h2, h3, ?_, ?_⟩
  · intro k v hv
    obtain ⟨i, hi, ⟨m, hm, hg⟩, hx⟩ := h4 k v hv
    obtain ⟨σ, hσ, rfl⟩ := List.mem_map.mp hm
    exact ⟨i, hi, ⟨σ, hσ, hg⟩, hx⟩
  · intro hf k i hall hx
    exact h5 hf k i (fun m hm => by obtain ⟨σ, hσ, rfl⟩ := List.mem_map.mp hm; exact hall σ hσ) hx

theorem nodup_of_map {α β : Type} (f : α → β) (l : List α) (h : (l.map f).Nodup) : l.Nodup := by
  induction l with
  | nil => exact List.nodup_nil
  | cons a l ih =>
    rw [List.map_cons, List.nodup_cons] at h
    exact List.nodup_cons.mpr ⟨fun ha => h.1 (List.mem_map_of_mem ha), ih h.2⟩

/-- **with no concurrent writer the traversal is exact - also while the table grows or shrinks**: if the content of the
current table is the same in every state of the window (other threads may read, traverse and resize; no `Clear`
publishes), the pairs handed over are exactly the entries of the map, each once -/
theorem C07_exact_when_unmodified {K V : Type} [DecidableEq K] (p : Model.Proto.Params K) (hmin : 0 < p.minLen)
    (u : Model.Proto.Tid) (s0 s1 : Model.Proto.St K V) (sts : List (Model.Proto.St K V)) (π : List (K × V))
    (h0 : Model.Proto.Reach p s0) (hpc : (s0.l u).pc = .rgTable)
    (htr : Proofs.ProtoRange.Trav p u (s0.l u).frames.length s0 sts s1)
    (hncs : ∀ σ ∈ sts, Proofs.ProtoRange.NoClearPublish σ)
    (hret : (s1.l u).pc = .ret) (hdep : (s1.l u).frames.length = (s0.l u).frames.length)
    (hres : (s1.l u).result = some (.visits π))
    (hconst : ∀ σ ∈ sts, ∀ k, Proofs.ProtoData.absGet σ.g k = Proofs.ProtoData.absGet s0.g k) :
    π.Perm (s0.g.tables s0.g.cur).data := by
  have hwf : AMap.WF (s0.g.tables s0.g.cur).data := (Proofs.ProtoData.dinv_reach p hmin s0 h0).gd.wf _
  have honce := C07_result_once p hmin s1 (trav_reach htr h0) u π hres
  refine (List.perm_ext_iff_of_nodup (nodup_of_map _ _ honce) (nodup_of_map _ _ hwf)).mpr ?_
  intro e
  constructor
  · intro he
    obtain ⟨σ, hσ, h⟩ := C07_real_partial p hmin u s0 s1 sts π h0 hpc htr hncs hret hdep hres e he
    rw [hconst σ hσ] at h
    exact AMap.mem_of_get _ _ _ h
  · intro he
    have hget : Proofs.ProtoData.absGet s0.g e.1 = some e.2 := AMap.get_of_mem _ hwf e.1 e.2 he
    exact C07_complete p hmin u s0 s1 sts π h0 hpc htr hret hdep hres e.1 e.2
      (fun σ hσ => by rw [hconst σ hσ]; exact hget)

/-! #### non-vacuity: a concrete window.  Thread 0 has stored `1 ↦ 5`; thread 1 runs `Range` while thread 0 stores
`2 ↦ 7`; the window meets every hypothesis above and the call returns both pairs. -/
section example_window
open Model.Proto Proofs.ProtoRange

def exP : Params Nat := { growThr := fun n => n * 9 / 4, shrinkThr := fun n => n * 3 / 128, bkt := fun _ k => k, minLen := 2, growOnly := false, stripes := fun _ => 8 }

def nop : Choice Nat Nat := {}

/-- `Store(1, 5)` by thread 0, then thread 1 enters `Range` -/
def exPre : List (Tid × Choice Nat Nat) :=
  (0, { op := some (.dc 1 (fun _ => (5, false)) false false) }) :: List.replicate 11 (0, nop) ++
  [(1, { op := some .range })]

/-- thread 1 walks root bucket 0; thread 0 runs `Store(3, 7)` to completion; thread 1 walks root bucket 1 and returns -/
def exMid : List (Tid × Choice Nat Nat) :=
  List.replicate 4 (1, nop) ++ [(0, { op := some (.dc 3 (fun _ => (7, false)) false false) })] ++
  List.replicate 11 (0, nop) ++ List.replicate 8 (1, nop)

def exS0 : St Nat Nat := (run exP (init exP) exPre).getD (init exP)
theorem exS0_run : run exP (init exP) exPre = some exS0 := rfl
def exRes : List (St Nat Nat) × St Nat Nat := (travRun exP 1 0 exS0 exMid).getD ([], exS0)
theorem exRes_eq : travRun exP 1 0 exS0 exMid = some (exRes.1, exRes.2) := rfl

example : ∃ (s0 s1 : St Nat Nat) (sts : List (St Nat Nat)) (π : List (Nat × Nat)),
    Reach exP s0 ∧ (s0.l 1).pc = .rgTable ∧ Trav exP 1 (s0.l 1).frames.length s0 sts s1 ∧
    (∀ σ ∈ sts, NoClearPublish σ) ∧ (s1.l 1).pc = .ret ∧ (s1.l 1).frames.length = (s0.l 1).frames.length ∧
    (s1.l 1).result = some (.visits π) ∧ (∀ σ ∈ sts, Proofs.ProtoData.absGet σ.g 1 = some 5) ∧
    π = [(3, 7), (1, 5)] := by
  refine ⟨exS0, exRes.2, exRes.1, [(3, 7), (1, 5)], ⟨exPre, exS0_run⟩, rfl,
    travRun_sound exP 1 0 exMid exS0 exRes.2 exRes.1 exRes_eq, ?_, rfl, rfl, rfl, ?_, rfl⟩
  · have h : ∀ σ ∈ exRes.1, σ.g.resizer = none := by decide
    intro σ hσ w hw
    rw [h σ hσ] at hw; cases hw
  · decide

/-- a second window, with a **re-entrant visitor**: thread 1 walks root bucket 0, its visitor calls `Store(3, 7)` on the
same map (a nested call: the traversal is suspended in `frames` and resumed when the call returns), then the traversal
walks root bucket 1 and returns both pairs; `1 ↦ 5` stayed put throughout -/
def exMidV : List (Tid × Choice Nat Nat) :=
  List.replicate 4 (1, nop) ++ [(1, { op := some (.dc 3 (fun _ => (7, false)) false false) })] ++ List.replicate 19 (1, nop)

def exResV : List (St Nat Nat) × St Nat Nat := (travRun exP 1 0 exS0 exMidV).getD ([], exS0)
theorem exResV_eq : travRun exP 1 0 exS0 exMidV = some (exResV.1, exResV.2) := rfl

example : Trav exP 1 (exS0.l 1).frames.length exS0 exResV.1 exResV.2 ∧ (exResV.2.l 1).pc = .ret ∧
    (exResV.2.l 1).frames.length = (exS0.l 1).frames.length ∧ (exResV.2.l 1).result = some (.visits [(3, 7), (1, 5)]) ∧
    (∀ σ ∈ exResV.1, Proofs.ProtoData.absGet σ.g 1 = some 5) ∧
    (∃ σ ∈ exResV.1, ((σ.l 1).frames.length = 1)) :=
  ⟨travRun_sound exP 1 0 exMidV exS0 exResV.2 exResV.1 exResV_eq, rfl, rfl, rfl, by decide, by decide⟩

/-- the two pairs of that run were stored by its two commit steps -/
example : commits exP (init exP) (exPre ++ exMid) = [(1, 5), (3, 7)] := by decide

end example_window

end Props.C07
