import CacheVerif.Proofs.CacheLedger
import CacheVerif.Proofs.TableRefine
import CacheVerif.Proofs.ProtoLin
import CacheVerif.Proofs.DeepSource
import CacheVerif.Proofs.DeepSize
/-!
# C08 — Size / Count is exact whenever no modification is in flight (sequential part)

Property theorems only.  Cache layer (`Model.Cache`): `Count` reports the number of keys physically stored
(expired entries that have not been cleaned up yet are counted — it never under-reports the live entries),
it equals the number of live entries right after `DeleteExpired`, and it is `0` right after `Clear`.
Table layer (`Model.Table`, both variants): between calls the striped counter read by `Size` equals the
number of bindings of the reference map, which is the number of pairs a full `Range` visits.
-/
set_option linter.unusedSectionVars false
/-! (concurrent part at the end of the file: the counter invariant of M4a) -/
namespace Props.C08
open Spec Model Model.Cache Proofs.CacheLedger

variable {K V : Type} [DecidableEq K] [Inhabited V]

/-- **C08 (Count).** `Count` reports the number of keys physically present. -/
theorem C08_count (s : St K V) : (step s .count).2.out = .count s.items.length := rfl

/-- **Count never under-reports**: the live (stored and not expired) entries are among the counted ones. -/
theorem C08_count_ge_live (s : St K V) : (Proofs.CacheRefine.abs s).live.length ≤ s.items.length := by
  simp only [Proofs.CacheRefine.abs, AMap.vfilter]
  exact List.length_filter_le _ _

/-- **C08 (after cleanup).** Right after `DeleteExpired` the count equals the number of live entries. -/
theorem C08_after_deleteExpired (s : St K V) (hw : Proofs.CacheRefine.WF s) :
    (step s .deleteExpired).1.items.length = (Proofs.CacheRefine.abs s).live.length := by
  have hp : ((step s .deleteExpired).1.items).Perm (AMap.vfilter s.items (Proofs.CacheRefine.liveAt s.now)) := by
    apply AMap.perm_of_get_eq _ _ (deleteExpired_WF s hw.nodup) (AMap.WF_vfilter _ _ hw.nodup)
    intro k
    rw [deleteExpired_get s hw.nodup k, AMap.get_vfilter _ hw.nodup]
    cases s.items.get k with
    | none => rfl
    | some i =>
      simp only [Proofs.CacheRefine.liveAt]
      by_cases he : TTL.expired i.e s.now = true <;> simp [he]
  exact hp.length_eq

/-- the count reported right after `DeleteExpired` is the number of live entries -/
theorem C08_count_after_deleteExpired (s : St K V) (hw : Proofs.CacheRefine.WF s) :
    (step (step s .deleteExpired).1 .count).2.out = .count (Proofs.CacheRefine.abs s).live.length := by
  rw [C08_count, C08_after_deleteExpired s hw]

/-- **C08 (after Clear).** Right after `Clear` nothing is stored and `Count` reports 0. -/
theorem C08_after_clear (s : St K V) :
    (step s .clear).1.items.length = 0 ∧ (step (step s .clear).1 .count).2.out = .count 0 :=
  ⟨rfl, rfl⟩

/-! ### the hash tables -/

/-- the same for the text of `Count` in both cache-layer files: the number of entries physically present (expired
but not yet cleaned ones included), nothing modified -/
theorem C08_source_count (s : St K V) (T : Deep.Twin K V) (hT : DeepSource.IsTwin T) :
    Deep.deepStep T s .count = some (s, { out := .count s.items.length }) := by
  rw [DeepSource.step s _ T hT]; rfl

section table
open Model.Table Proofs.TableRefine

-- `hv` is not needed for `Size` itself; it is kept so that the hypotheses are those of `step_refines`
set_option linter.unusedVariables false in
/-- **C08 (Size).** Between calls, `Size` of either table is the number of bindings of the reference map. -/
theorem C08_size_exact (var : Variant) (hv : GoodVariant var) (env : Env K) (sp : AMap K V) (m : Model.Table.St K V)
    (h : Sim var env sp m) : (Model.Table.step var env m .size).2.out = .size sp.length := by
  simp only [Model.Table.step]
  rw [Sim.size_eq var env h]

set_option linter.unusedVariables false in
/-- **Size = number of pairs a full `Range` visits.** -/
theorem C08_size_eq_range (var : Variant) (hv : GoodVariant var) (env : Env K) (sp : AMap K V)
    (m : Model.Table.St K V) (h : Sim var env sp m) :
    (Model.Table.step var env m .size).2.out = .size ((Model.Table.walk (fun _ _ => true) m.tbl.entries).length) := by
  simp only [Model.Table.step]
  rw [table_walk_true, h.inv.size]

end table

/-! ### Non-vacuity -/

def exS : Cache.St String Nat :=
  { items := [("live", ⟨1, 200⟩), ("dead", ⟨2, 50⟩), ("forever", ⟨3, 0⟩), ("dead2", ⟨4, 99⟩)], now := 100, dflt := 10, cb := none }

example : Proofs.CacheRefine.WF exS := ⟨by simp [exS, AMap.WF, AMap.keys], by simp [exS], by decide⟩
example : (Cache.step exS .count).2.out = .count 4 ∧ (Proofs.CacheRefine.abs exS).live.length = 2 := by decide
example : (Cache.step (Cache.step exS .deleteExpired).1 .count).2.out = .count 2 := by decide
example : (Cache.step (Cache.step exS .clear).1 .count).2.out = .count 0 := by decide

def exEnv : Model.Table.Env Nat := { hash := fun k _ => BitVec.ofNat 64 k, seeds := fun _ => 0 }

set_option maxRecDepth 4000 in
example :
    let m := (Model.Table.step Model.Table.mapOfVariant exEnv
      (Model.Table.step Model.Table.mapOfVariant exEnv (Model.Table.new Model.Table.mapOfVariant exEnv 0 false)
        (.store 5 50)).1 (.store 37 51)).1
    (Model.Table.step Model.Table.mapOfVariant exEnv m .size).2.out = .size 2 ∧
    (Model.Table.walk (fun _ _ => true) m.tbl.entries).length = 2 := by decide

/-! ### concurrent histories (M4a): the striped counter, per table generation -/
section conc
open Model.Proto Proofs.ProtoData Proofs.ProtoLin
variable {K V : Type} [DecidableEq K] (p : Params K)

/-- **counter invariant**, every reachable state, every table generation (also the one under construction): the
sum of the counter stripes (`total`: the value an *atomic* sum would give) plus the deltas of the writers that have
committed but not yet called `addSize` is the number of entries.  `hst`: every table has at least one stripe. -/
theorem C08_counter (hmin : 0 < p.minLen) (hst : ∀ n, 0 < p.stripes n) (s : Model.Proto.St K V) (h : Reach p s)
    (T : Nat) (hT : T < s.g.ntables)
    (N : Nat) (hN : ∀ u : Nat, u ≥ N → (s.l u).pc = .idle) :
    (s.g.tables T).total (p.stripes (s.g.tables T).len) + pendSum s T N = ((s.g.tables T).data.length : Int) :=
  counter_invariant p hmin hst s h T hT N hN

/-- **the counter is exact whenever no call is in flight**, whatever history of concurrent inserts, deletes, grows,
shrinks and clears preceded -/
theorem C08_quiescent (hmin : 0 < p.minLen) (hst : ∀ n, 0 < p.stripes n) (s : Model.Proto.St K V) (h : Reach p s)
    (hq : ∀ u, (s.l u).pc = .idle) :
    (s.g.tables s.g.cur).total (p.stripes (s.g.tables s.g.cur).len) = ((s.g.tables s.g.cur).data.length : Int) :=
  size_exact_when_quiescent p hmin hst s h hq

/-- **the `Size()` call itself is exact when no modifying call overlaps it**, although it sums the stripes one atomic
load at a time: thread `t` starts `Size` in the reachable state `s0`, in which no writer is between its commit and its
`addSize` on the current table; during `mid` it stays in that call (`NoRet`) and the other threads only take read-only
steps (`roPc`: start a call, `Load`, lock-free fast path, `Size`, return); when it is about to return, it returns the
number of entries of the table -/
theorem C08_size_call_exact (hmin : 0 < p.minLen) (hst : ∀ n, 0 < p.stripes n) (s0 s' : Model.Proto.St K V)
    (h : Reach p s0) (t : Tid) (hpc : (s0.l t).pc = .szTable)
    (hq : ∀ u, pendingOn (s0.l u) s0.g.cur = false)
    (mid : List (Tid × Choice K V)) (hr : run p s0 mid = some s')
    (hn : NoRet t (events p s0 mid))
    (hro : ∀ e ∈ events p s0 mid, e.tid ≠ t → roPc (e.pre.l e.tid).pc = true)
    (hret : (s'.l t).pc = .ret) :
    (s'.l t).result = some (.size ((s0.g.tables s0.g.cur).data.length)) :=
  size_call_exact p hmin hst s0 s' h t hpc hq mid hr hn hro hret

/-- non-vacuity of `C08_size_call_exact`: on a map with 8 stripes holding one entry, a `Size` call of thread 1
interleaved with a `Load` of thread 0 takes 1 + 8 steps from `szTable` and returns 1 -/
def exP : Params Nat :=
  { growThr := fun n => n * 9 / 4, shrinkThr := fun n => n * 3 / 128, bkt := fun _ k => k, minLen := 2, growOnly := false,
    stripes := fun _ => 8 }

def exPre : List (Tid × Choice Nat Nat) :=
  (0, { op := some (.dc 1 (fun _ => (5, false)) false false) }) ::
    List.append (List.replicate 11 (0, {})) [(1, { op := some .size })]

def exMid : List (Tid × Choice Nat Nat) :=
  List.append [(1, {}), (0, { op := some (.load 1) }), (1, {}), (0, {}), (1, {}), (0, {})] (List.replicate 6 (1, {}))

example : ∃ (s0 s' : Model.Proto.St Nat Nat),
    run exP (init exP) exPre = some s0 ∧ run exP s0 exMid = some s' ∧
    (s0.l 1).pc = .szTable ∧ (s0.l 0).pc = .idle ∧ (s'.l 1).pc = .ret ∧ (s'.l 1).result = some (.size 1) ∧
    (s'.l 0).result = some (.val (some 5) true) :=
  ⟨_, _, rfl, rfl, rfl, rfl, rfl, rfl, rfl⟩

end conc

/-! ### `sumSize`, printed from the source: `Size` reports the sum of the counter stripes -/
section source

/-- **the text of `sumSize` of both tables adds up the counter stripes** (printed by `go2deep -table` on every run,
sequential meaning `Deep/TInterp.lean`): for every heap - any number of stripes, any contents - the call returns their
sum, which is what `Size()` converts and returns, what M3 keeps as `Tbl.size`, and what `C08_counter` relates to the
number of entries at quiescence -/
theorem C08_source_sumSize_is_stripe_sum {K V : Type} [DecidableEq K] (fuel : Nat) (h : Deep.T.Heap K V) :
    Deep.T.call fuel h Gen.Deep.T_mapOfTable_sumSize [] = some [.int h.stripes.sum] ∧
    Deep.T.call fuel h Gen.Deep.T_mapTable_sumSize [] = some [.int h.stripes.sum] :=
  ⟨Proofs.DeepSize.sumSize_of fuel h, Proofs.DeepSize.sumSize_map fuel h⟩

/-- non-vacuity: eight stripes, one of them negative (a delete accounted on another stripe than its insert) -/
example : Deep.T.call 0 ({ chains := [], seed := 0#64, hasher := fun _ _ => 0#64, stripes := [2, 0, -1, 0, 5, 0, 0, 1] } : Deep.T.Heap Nat Nat)
    Gen.Deep.T_mapOfTable_sumSize [] = some [.int 7] := by rfl

end source

end Props.C08
