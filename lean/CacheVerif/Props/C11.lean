import CacheVerif.Model.Table
namespace Props.C11
theorem placeholder : True := trivial
end Props.C11
