import CacheVerif.Proofs.Wrappers
import CacheVerif.Proofs.TableRefine
import CacheVerif.Proofs.DeepAppend
import CacheVerif.Proofs.CopyRep
import CacheVerif.Proofs.StoreSpec
/-!
# C11 — contents never depend on capacity, resize history, hash seed or bucket layout

`Model.Table` (M3) is the sequential model of `xsync.Map` / `xsync.MapOf` (tied to the code by the generated
thresholds/leaves and by the white-box layout correspondence, which compares table length, every chain,
the word bits, the counter and the grow/shrink counts after every call).  The theorems below quantify over
**every** hash function, **every** seed oracle (per-table random seeds), **every** presize hint, the grow-only
flag, and call sequences of any length (crossing any number of grow/shrink thresholds, with `Clear`
anywhere); the right-hand sides mention none of them.
-/
namespace Props.C11
open Spec Model.Table Proofs.TableRefine

variable {K V : Type} [DecidableEq K] [Inhabited V]

/-- run a call sequence on the table model -/
def run (var : Variant) (env : Env K) (m : St K V) : List (MOp K V) → St K V × List (MRes K V)
  | [] => (m, [])
  | op :: ops =>
    let r := step var env m op
    let rs := run var env r.1 ops
    (rs.1, r.2 :: rs.2)

/-- run the same sequence on a builtin map -/
def specRun (sp : AMap K V) : List (MOp K V) → AMap K V × List (MOut K V × Nat)
  | [] => (sp, [])
  | op :: ops =>
    let r := specStep sp op
    let rs := specRun r.1 ops
    (rs.1, r.2 :: rs.2)

/-- per-call relation along a run: results equal (Range: equal for some enumeration order of the contents
before the call), user-function invocation counts equal -/
def RunRel (sp : AMap K V) : List (MOp K V) → List (MRes K V) → Prop
  | [], [] => True
  | op :: ops, r :: rs =>
    OutRel sp op r.out (specStep sp op).2.1 ∧ r.fnCalls = (specStep sp op).2.2 ∧ RunRel (specStep sp op).1 ops rs
  | _, _ => False

/-- **C11 (one call)**, both tables -/
theorem C11_step (var : Variant) (hv : GoodVariant var) (env : Env K) (sp : AMap K V) (m : St K V)
    (h : Sim var env sp m) (op : MOp K V) :
    Sim var env (specStep sp op).1 (step var env m op).1 ∧
    OutRel sp op (step var env m op).2.out (specStep sp op).2.1 ∧
    (step var env m op).2.fnCalls = (specStep sp op).2.2 :=
  step_refines var env hv sp m h op

/-- **C11 (every history)** from any related pair of states -/
theorem C11_run (var : Variant) (hv : GoodVariant var) (env : Env K) (ops : List (MOp K V)) :
    ∀ (sp : AMap K V) (m : St K V), Sim var env sp m →
      Sim var env (specRun sp ops).1 (run var env m ops).1 ∧ RunRel sp ops (run var env m ops).2 := by
  induction ops with
  | nil => intro sp m h; exact ⟨h, trivial⟩
  | cons op ops ih =>
    intro sp m h
    obtain ⟨h1, h2, h3⟩ := step_refines var env hv sp m h op
    obtain ⟨i1, i2⟩ := ih _ _ h1
    exact ⟨i1, h2, h3, i2⟩

/-- **C11 for `Map`**: any hash, any seeds, any presize hint (that yields a non-empty table), grow-only or
not, any call sequence: the string-keyed table behaves like the builtin map started empty. -/
theorem C11_Map (env : Env K) (hint : Int) (growOnly : Bool) (ops : List (MOp K V))
    (hlen : 0 < (new (V := V) mapVariant env hint growOnly).tbl.len) :
    RunRel ([] : AMap K V) ops (run mapVariant env (new mapVariant env hint growOnly) ops).2 :=
  (C11_run mapVariant mapVariant_good env ops [] _ (new_sim mapVariant env mapVariant_good hint growOnly hlen)).2

/-- **C11 for `MapOf`** -/
theorem C11_MapOf (env : Env K) (hint : Int) (growOnly : Bool) (ops : List (MOp K V))
    (hlen : 0 < (new (V := V) mapOfVariant env hint growOnly).tbl.len) :
    RunRel ([] : AMap K V) ops (run mapOfVariant env (new mapOfVariant env hint growOnly) ops).2 :=
  (C11_run mapOfVariant mapOfVariant_good env ops [] _ (new_sim mapOfVariant env mapOfVariant_good hint growOnly hlen)).2

/-- the default presize (no hint, or any hint ≤ 32·S) always yields the 32-bucket table -/
theorem C11_default_len (var : Variant) (env : Env K) (hint : Int) (growOnly : Bool)
    (h : hint ≤ (Gen.defaultMinMapTableLen * var.S : Nat)) :
    (new (V := V) var env hint growOnly).tbl.len = 32 := by
  simp only [new, newTbl, Tbl.len, List.length_replicate, if_pos h]; rfl

/-- **no entry is lost, duplicated or resurrected by a grow, a shrink or a Clear**: a resize keeps every
binding (grow, shrink) or removes every binding (clear), and re-establishes the representation invariant -/
theorem C11_resize (var : Variant) (hv : GoodVariant var) (env : Env K) (sp : AMap K V) (m : St K V)
    (h : Sim var env sp m) :
    Sim var env sp (resize var env m .grow) ∧ Sim var env sp (resize var env m .shrink) ∧
    Sim var env ([] : AMap K V) (resize var env m .clear) :=
  ⟨resize_grow_sim var env hv sp m h, resize_shrink_sim var env hv sp m h, resize_clear_sim var env sp m h⟩

/-- the retry loop of `doCompute` always terminates within its budget (each retry doubles the table) -/
theorem C11_no_stuck (var : Variant) (hv : GoodVariant var) (env : Env K) (sp : AMap K V) (m : St K V)
    (h : Sim var env sp m) (k : K) (g : Option V → V × Bool) (lie co : Bool) :
    (doCompute var env m k g lie co (fuelFor m)).isSome :=
  doCompute_some var env hv m h.inv k g lie co (fuelFor m) (by unfold fuelFor; omega)

/-! ### Non-vacuity: concrete tables in each slot-occupancy pattern of the target chain -/

def exEnv : Env Nat := { hash := fun k _ => BitVec.ofNat 64 k, seeds := fun _ => 0 }
/-- a `Map` after 4 colliding inserts: root bucket full, a second bucket chained -/
def exOps : List (MOp Nat Nat) := [.store 0 10, .store 32 11, .store 64 12, .store 96 13, .load 96, .compute 128 (fun _ => (0, true)), .size]

set_option maxRecDepth 4000 in
example : ((run mapVariant exEnv (new mapVariant exEnv 0 false) exOps).1.tbl.chain 0).length = 6 := by decide
set_option maxRecDepth 4000 in
example : ((run mapVariant exEnv (new mapVariant exEnv 0 false) exOps).2.map (·.out)) =
    [.unit, .unit, .unit, .unit, .val 13 true, .val 0 false, .size 4] := by decide

/-- **the sequential table model makes the calls of `doCompute` the methods of both files make** (function argument,
`loadIfExists`, `computeOnly`, result returned or dropped: printed from `map.go` / `mapof.go` on every run by
`go2deep -wrappers`), so `C11_step` / `C11_run` are about those methods -/
theorem C11_methods_are_doCompute_calls {K V : Type} [DecidableEq K] [Inhabited V] (var : Model.Table.Variant)
    (env : Model.Table.Env K) (m : Model.Table.St K V) (k : K) (v : V) (g : Option V → V × Bool) :
    Model.Table.step var env m (.store k v) = Proofs.Wrappers.viaWrapper var env m k g Gen.Deep.Map_Store v 0 ∧
    Model.Table.step var env m (.store k v) = Proofs.Wrappers.viaWrapper var env m k g Gen.Deep.MapOf_Store v 0 ∧
    Model.Table.step var env m (.loadOrStore k v) = Proofs.Wrappers.viaWrapper var env m k g Gen.Deep.Map_LoadOrStore v 0 ∧
    Model.Table.step var env m (.loadOrStore k v) = Proofs.Wrappers.viaWrapper var env m k g Gen.Deep.MapOf_LoadOrStore v 0 ∧
    Model.Table.step var env m (.loadAndStore k v) = Proofs.Wrappers.viaWrapper var env m k g Gen.Deep.Map_LoadAndStore v 0 ∧
    Model.Table.step var env m (.loadAndStore k v) = Proofs.Wrappers.viaWrapper var env m k g Gen.Deep.MapOf_LoadAndStore v 0 ∧
    Model.Table.step var env m (.compute k g) = Proofs.Wrappers.viaWrapper var env m k g Gen.Deep.Map_Compute v 1 ∧
    Model.Table.step var env m (.compute k g) = Proofs.Wrappers.viaWrapper var env m k g Gen.Deep.MapOf_Compute v 1 ∧
    Model.Table.step var env m (.loadAndDelete k) = Proofs.Wrappers.viaWrapper var env m k g Gen.Deep.Map_LoadAndDelete v 0 ∧
    Model.Table.step var env m (.loadAndDelete k) = Proofs.Wrappers.viaWrapper var env m k g Gen.Deep.MapOf_LoadAndDelete v 0 ∧
    Model.Table.step var env m (.delete k) = Proofs.Wrappers.viaWrapper var env m k g Gen.Deep.Map_Delete v 0 ∧
    Model.Table.step var env m (.delete k) = Proofs.Wrappers.viaWrapper var env m k g Gen.Deep.MapOf_Delete v 0 :=
  ⟨rfl, rfl, rfl, rfl, rfl, rfl, rfl, rfl, rfl, rfl, rfl, rfl⟩

/-! ### `appendToBucketOf`, printed from the source: what a resize does with every entry it moves -/

omit [Inhabited V] in
/-- **the text of `appendToBucketOf` is M3's `place`** - the first *writing* function of the table layer inside the deep
embedding (`go2deep -table`, `Deep/TInterp.lean`: `execW`, the heap is part of the state).  For every heap, every non-empty
chain of five-slot buckets, every hash byte and entry, and every sufficient loop budget, the call ends (it is never stuck)
in the heap in which that chain is `appendSpec` of the old one; on the slots that is `place 5` (first free slot of the
chain, else a new bucket at its end - where an entry lands depends on the chain's slots only); and the `meta` words
still represent their entries (`RepB`), so the lookup theorems of C10 apply to the result -/
theorem C11_source_append_is_place (hk : K → BitVec 8) (fuel : Nat) (hf : 6 ≤ fuel) (h : Deep.T.Heap K V) (k : K) (v : V)
    (ci : Nat) (c : List (Model.Words.BucketOf K V)) (hc : h.chains[ci]? = some c) (hne : c ≠ []) (hfuel : c.length ≤ fuel)
    (hrep : ∀ b ∈ c, Model.Words.RepB hk b) :
    Deep.T.callW fuel h Gen.Deep.T_appendToBucketOf [.w8 (hk k), .entry k v, .bucketRef ci 0] =
      some ({ h with chains := h.chains.set ci (Proofs.DeepAppend.appendSpec (hk k) k v c) }, []) ∧
    Model.Words.flat (Proofs.DeepAppend.appendSpec (hk k) k v c) = place 5 k v (Model.Words.flat c) ∧
    (∀ b ∈ Proofs.DeepAppend.appendSpec (hk k) k v c, Model.Words.RepB hk b) :=
  ⟨Proofs.DeepAppend.append_eq_spec fuel hf h (hk k) k v ci c hc hne hfuel (fun b hb => (hrep b hb).1),
   Proofs.DeepAppend.appendSpec_flat (hk k) k v c hne (fun b hb => (hrep b hb).1),
   Proofs.DeepAppend.appendSpec_rep hk k v c hrep⟩

omit [Inhabited V] in
/-- **moving the entries one by one with that function is M3's `copyAll`** (the table a resize builds): for every hash
function, seed, destination table with non-empty representative chains and list of entries, applying `appendSpec` to the
destination chain of each entry in order gives a heap whose slots are the chains of `copyAll`'s table, whose chains are
again non-empty and representative, with the same seed and the counter advanced by the number of entries -/
theorem C11_bucketwise_copy_is_model_copy (env : Env K) (es : List (K × V)) (cs : List (List (Model.Words.BucketOf K V)))
    (d : Tbl K V) (hd : d.chains = cs.map Model.Words.flat)
    (hg : Proofs.CopyRep.Good (fun k => Gen.h2 (env.hash k d.seed)) cs) (hpos : 0 < cs.length) :
    let hk := fun k => Gen.h2 (env.hash k d.seed)
    let bidx := fun k => (Gen.h1 (env.hash k d.seed)).toNat % cs.length
    (copyAll mapOfVariant env es d).chains = (Proofs.CopyRep.moveAll hk bidx es cs).map Model.Words.flat ∧
    Proofs.CopyRep.Good hk (Proofs.CopyRep.moveAll hk bidx es cs) ∧ (copyAll mapOfVariant env es d).seed = d.seed ∧
    (copyAll mapOfVariant env es d).size = d.size + es.length :=
  Proofs.CopyRep.moveAll_is_copyAll env es cs d hd hg hpos

omit [Inhabited V] in
/-- **the shrink trigger reads the layout, not the hash**: after a delete `doCompute` attempts a shrink iff
`newmetaw == defaultMeta`; for a representative bucket whose three unused `meta` bytes still hold their initial value
(kept by every `setByte` on a slot byte) and a hash byte that is never `emptyMetaSlot` (`h2`: `C10_h2_never_empty`), that
is exactly "the bucket holds no entry" - M3's `leftEmpty` for `MapOf` - whatever the hash bytes of the deleted keys were -/
theorem C11_shrink_trigger_is_bucket_empty (hk : K → BitVec 8) (hne : ∀ k, hk k ≠ Gen.emptyMetaSlot)
    (b : Model.Words.BucketOf K V) (h : Model.Words.RepB hk b) (hu : Proofs.WordsInv.Upper b.metaw) :
    (b.metaw = Gen.defaultMeta ↔ b.entries = [none, none, none, none, none]) ∧
    Proofs.WordsInv.Upper Gen.defaultMeta ∧
    (∀ (x : BitVec 8) (i : Nat), i < 5 → Proofs.WordsInv.Upper (Gen.setByte b.metaw x i)) :=
  ⟨Proofs.WordsInv.meta_default_iff_empty hk hne b h hu, Proofs.WordsInv.upper_default,
   fun x i hi => Proofs.WordsInv.upper_setByte b.metaw x i hi hu⟩

/-- **append, then load, on the printed texts**: run the printed `appendToBucketOf` for `(k, v)` on the chain of `k`'s root
bucket (representative, keys distinct, `k` not yet there), then the printed `MapOf.Load` on the heap that call leaves behind:
`Load k` returns `(v, true)`, and `Load x` for every other key of that root bucket returns what it held before - whether the
entry went into a free slot of an existing bucket or into a fresh overflow bucket -/
theorem C11_source_append_then_load (fuel : Nat) (hf : 8 ≤ fuel) (h : Deep.T.Heap K V) (k : K) (v : V)
    (c : List (Model.Words.BucketOf K V)) (hc : h.chains[(Proofs.DeepLoad.bidxOf h k).toNat]? = some c) (hne : c ≠ [])
    (hfuel : c.length + 1 ≤ fuel) (hrep : ∀ b ∈ c, Model.Words.RepB (Proofs.DeepLoad.hkOf h) b)
    (hnd : (chainKeys (Model.Words.flat c)).Nodup) (habs : lookup k (Model.Words.flat c) = none) :
    ∃ h', Deep.T.callW fuel h Gen.Deep.T_appendToBucketOf
        [.w8 (Proofs.DeepLoad.hkOf h k), .entry k v, .bucketRef (Proofs.DeepLoad.bidxOf h k).toNat 0] = some (h', []) ∧
      Deep.T.call fuel h' Gen.Deep.T_MapOf_Load [.key k] = some [.val v, .bool true] ∧
      ∀ x, Proofs.DeepLoad.bidxOf h x = Proofs.DeepLoad.bidxOf h k → x ≠ k →
        Deep.T.call fuel h' Gen.Deep.T_MapOf_Load [.key x] =
          some (match lookup x (Model.Words.flat c) with
            | some w => [.val w, .bool true]
            | none => [.zeroV, .bool false]) :=
  Proofs.CopyRep.append_then_load fuel hf h k v c hc hne hfuel hrep hnd habs

omit [Inhabited V] in
/-- **the in-place stores of `MapOf.doCompute` are M3's `upd` and `del`**: replacing the entry pointer of the slot the search
found (the first slot of the chain holding the key; `meta` untouched), resp. `setByte(meta, emptyMetaSlot, idx)` with a nil
pointer there, changes the chain's slots exactly as `upd` / `del` do, and leaves the bucket representative - whatever bucket
and slot of the chain it is -/
theorem C11_inplace_stores_are_model_ops (hk : K → BitVec 8) (c : List (Model.Words.BucketOf K V))
    (hrep : ∀ b ∈ c, Model.Words.RepB hk b) (j i : Nat) (b : Model.Words.BucketOf K V) (hb : c[j]? = some b) (hi : i < 5)
    (k : K) (old v : V) (hs : b.entries[i]? = some (some (k, old)))
    (hfirst : Proofs.StoreSpec.FirstAt k (Model.Words.flat c) (5 * j + i)) :
    (Model.Words.flat (c.set j ⟨b.metaw, b.entries.set i (some (k, v))⟩) = upd k v (Model.Words.flat c) ∧
      Model.Words.RepB hk ⟨b.metaw, b.entries.set i (some (k, v))⟩) ∧
    (Model.Words.flat (c.set j ⟨Gen.setByte b.metaw Gen.emptyMetaSlot i, b.entries.set i none⟩) = del k (Model.Words.flat c) ∧
      Model.Words.RepB hk ⟨Gen.setByte b.metaw Gen.emptyMetaSlot i, b.entries.set i none⟩) :=
  ⟨Proofs.StoreSpec.update_is_upd hk c hrep j i b hb hi k old v hs hfirst,
   Proofs.StoreSpec.delete_is_del hk c hrep j i b hb hi k old hs hfirst⟩

/-- **update / delete, then load, on the printed `Load`**: on the heap that results from the in-place update (resp. the
delete) of the slot the search found, the printed `MapOf.Load` returns the new value for that key (resp. reports absence),
and every other key of that root bucket reads exactly as before -/
theorem C11_source_store_then_load (fuel : Nat) (hf : 8 ≤ fuel) (h : Deep.T.Heap K V) (k : K)
    (c : List (Model.Words.BucketOf K V)) (hc : h.chains[(Proofs.DeepLoad.bidxOf h k).toNat]? = some c) (hne : c ≠ [])
    (hfuel : c.length ≤ fuel) (hrep : ∀ b ∈ c, Model.Words.RepB (Proofs.DeepLoad.hkOf h) b)
    (hnd : (chainKeys (Model.Words.flat c)).Nodup) (j i : Nat) (b : Model.Words.BucketOf K V) (hb : c[j]? = some b)
    (hi : i < 5) (old v : V) (hs : b.entries[i]? = some (some (k, old)))
    (hfirst : Proofs.StoreSpec.FirstAt k (Model.Words.flat c) (5 * j + i)) :
    let hu : Deep.T.Heap K V :=
      { h with chains := (h.chains.set (Proofs.DeepLoad.bidxOf h k).toNat (c.set j ⟨b.metaw, b.entries.set i (some (k, v))⟩)) }
    let hd : Deep.T.Heap K V :=
      { h with chains := (h.chains.set (Proofs.DeepLoad.bidxOf h k).toNat
          (c.set j ⟨Gen.setByte b.metaw Gen.emptyMetaSlot i, b.entries.set i none⟩)) }
    Deep.T.call fuel hu Gen.Deep.T_MapOf_Load [.key k] = some [.val v, .bool true] ∧
    Deep.T.call fuel hd Gen.Deep.T_MapOf_Load [.key k] = some [.zeroV, .bool false] ∧
    ∀ x, Proofs.DeepLoad.bidxOf h x = Proofs.DeepLoad.bidxOf h k → x ≠ k →
      Deep.T.call fuel hu Gen.Deep.T_MapOf_Load [.key x] = Deep.T.call fuel h Gen.Deep.T_MapOf_Load [.key x] ∧
      Deep.T.call fuel hd Gen.Deep.T_MapOf_Load [.key x] = Deep.T.call fuel h Gen.Deep.T_MapOf_Load [.key x] :=
  Proofs.CopyRep.store_then_load fuel hf h k c hc hne hfuel hrep hnd j i b hb hi old v hs hfirst

/-! Non-vacuity: a free slot in the root bucket is filled; a full one-bucket chain gets a new bucket. -/
def exFullB : Model.Words.BucketOf Nat Nat := ⟨0#64, [some (1, 1), some (2, 2), some (3, 3), some (4, 4), some (5, 5)]⟩
def exAppHeap : Deep.T.Heap Nat Nat :=
  { chains := [[⟨Gen.defaultMeta, [none, none, none, none, none]⟩], [exFullB]], seed := 0#64, hasher := fun _ _ => 0#64 }

example : (Deep.T.callW 6 exAppHeap Gen.Deep.T_appendToBucketOf [.w8 3#8, .entry 7 70, .bucketRef 0 0]).map (·.1.chains) =
    some [[⟨Gen.setByte Gen.defaultMeta 3#8 0, [some (7, 70), none, none, none, none]⟩], [exFullB]] := by rfl
example : (Deep.T.callW 6 exAppHeap Gen.Deep.T_appendToBucketOf [.w8 3#8, .entry 7 70, .bucketRef 1 0]).map (·.1.chains) =
    some [[⟨Gen.defaultMeta, [none, none, none, none, none]⟩],
          [exFullB, ⟨Gen.setByte Gen.defaultMeta 3#8 0, [some (7, 70), none, none, none, none]⟩]] := by rfl

end Props.C11
