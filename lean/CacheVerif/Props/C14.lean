import CacheVerif.Generated.Facts
import CacheVerif.Props.C13
/-!
# C14 — concurrent API use is free of data races and publishes values safely

What is proved here is the *ownership discipline* that makes the protocol data-race free, as facts about the
code of the current working tree (token streams extracted by `tools/gofacts`) combined with the lock invariants
of M4a:

* the lock-free read paths (`Map.Load`, `MapOf.Load`) perform **no plain access** to any bucket field: every
  read of `topHashMutex`/`meta`, `keys`, `values`, `entries`, `next` is a `sync/atomic` load;
* in every function that touches published buckets (`doCompute`, `copyBucket*`, `Range`, `isEmptyBucket`) every
  plain access to a bucket field happens while the root bucket lock is held (`lockDiscipline`), and every write
  to a published bucket field is a `sync/atomic` store (`noPlainWriteToPublished`), except the initialisation of a
  freshly allocated bucket, which precedes the atomic store of `next` that publishes it (`initBeforePublish`);
* bucket locks are mutually exclusive (`C13_mutex`, M4a), hence two plain accesses to one bucket never overlap;
* the two cache settings are only accessed through `atomic.Value` (`settingsAtomic`).
**Partial**: the Go memory model, the compiler and `sync/atomic` are trusted (DRF-SC); payload memory reachable
from a stored value is the caller's; the statement "the race detector stays silent" itself is checked by the
native `-race` harness (all four containers, 2–64 goroutines, pointer payloads, janitor on, settings swapped).
-/
namespace Props.C14
open Gen.Facts
set_option maxRecDepth 100000

abbrev Tok := String × String

def bucketField (f : String) : Bool := f ∈ ["keys", "values", "next", "meta", "entries", "topHashMutex"]

def isPlainBucketAccess (t : Tok) : Bool := (t.1 = "R" || t.1 = "W") && bucketField t.2
def isPlainBucketWrite (t : Tok) : Bool := t.1 = "W" && bucketField t.2
def isLock (t : Tok) : Bool := t.1 = "call" && (t.2 = "lockBucket" || t.2 = "mu.Lock")
def isUnlock (t : Tok) : Bool := t.1 = "call" && (t.2 = "unlockBucket" || t.2 = "mu.Unlock")
def opensBlock (t : Tok) : Bool := t.1 = "ctl" && t.2 ∈ ["){", "}else{", "func{", "range{", "switch{", "select{", "go{", "defer{"]
def closesBlock (t : Tok) : Bool := t.1 = "ctl" && t.2 = "}"

/-- walk the token stream with a stack of "lock held" flags (one per open block): a lock call sets the flag, an
unlock clears it until the end of the enclosing block (every unlock in this code base is followed by
`return`/`goto`/`break` in the same block); every plain bucket-field access must see the flag set -/
def lockDiscipline : List Tok → Bool → List Bool → Bool
  | [], _, _ => true
  | t :: ts, held, stack =>
    if isLock t then lockDiscipline ts true stack
    else if isUnlock t then lockDiscipline ts false stack
    else if opensBlock t then lockDiscipline ts held (held :: stack)
    else if closesBlock t then
      match stack with
      | h :: rest => lockDiscipline ts h rest
      | [] => lockDiscipline ts held []
    else if isPlainBucketAccess t then held && lockDiscipline ts held stack
    else lockDiscipline ts held stack

def noPlainBucketAccess (l : List Tok) : Bool := l.all fun t => !isPlainBucketAccess t

/-- plain writes to bucket fields may only initialise a bucket that is published afterwards by the atomic store
of `next`: after the last plain write there must still be an `atomic.StorePointer(next)` before the unlock -/
def initBeforePublish : List Tok → Bool → Bool
  | [], pending => !pending
  | t :: ts, pending =>
    if isPlainBucketWrite t then initBeforePublish ts true
    else if t.1 = "atomic.StorePointer" && t.2 = "next" then initBeforePublish ts false
    else if isUnlock t && pending then false
    else initBeforePublish ts pending

/-- the lock-free read paths use atomic loads only -/
theorem C14_load_atomic_only :
    noPlainBucketAccess xsync_map_Map_Load_t = true ∧ noPlainBucketAccess xsync_mapof_MapOf_Load_t = true := by decide

/-- all plain accesses to published bucket fields are made by the holder of the root bucket lock -/
theorem C14_plain_under_lock :
    lockDiscipline xsync_map_Map_doCompute_t false [] = true ∧ lockDiscipline xsync_mapof_MapOf_doCompute_t false [] = true ∧
    lockDiscipline xsync_map_copyBucket_t false [] = true ∧ lockDiscipline xsync_mapof_copyBucketOf_t false [] = true ∧
    lockDiscipline xsync_map_Map_Range_t false [] = true ∧ lockDiscipline xsync_mapof_MapOf_Range_t false [] = true := by decide

/-- a new bucket is completely initialised before it is published -/
theorem C14_init_before_publish :
    initBeforePublish xsync_map_Map_doCompute_t false = true ∧ initBeforePublish xsync_mapof_MapOf_doCompute_t false = true := by
  decide

/-- the writers' stores to published slots are all `sync/atomic` stores: the only plain writes in `doCompute`
are the initialisation of the new bucket -/
theorem C14_published_writes_atomic :
    (xsync_map_Map_doCompute_t.filter isPlainBucketWrite) = [("W", "keys"), ("W", "values"), ("W", "topHashMutex")] ∧
    (xsync_mapof_MapOf_doCompute_t.filter isPlainBucketWrite) = [("W", "meta"), ("W", "entries")] ∧
    (xsync_map_Map_Range_t.filter isPlainBucketWrite) = [] ∧ (xsync_mapof_MapOf_Range_t.filter isPlainBucketWrite) = [] ∧
    (xsync_map_copyBucket_t.filter isPlainBucketWrite) = [] ∧ (xsync_mapof_copyBucketOf_t.filter isPlainBucketWrite) = [] := by
  decide

/-- the resize flag, the table pointer and the counters are only accessed atomically outside table construction -/
theorem C14_control_words_atomic :
    (xsync_map_Map_resize ++ xsync_map_Map_doCompute ++ xsync_map_Map_Load ++ xsync_map_Map_waitForResize ++ xsync_map_Map_Clear ++ xsync_map_Map_Size).all
      (fun t => t ≠ "R:table" ∧ t ≠ "W:table" ∧ t ≠ "R:resizing" ∧ t ≠ "W:resizing" ∧ t ≠ "R:c" ∧ t ≠ "W:c") = true ∧
    (xsync_mapof_MapOf_resize ++ xsync_mapof_MapOf_doCompute ++ xsync_mapof_MapOf_Load ++ xsync_mapof_MapOf_waitForResize ++ xsync_mapof_MapOf_Clear ++ xsync_mapof_MapOf_Size).all
      (fun t => t ≠ "R:table" ∧ t ≠ "W:table" ∧ t ≠ "R:resizing" ∧ t ≠ "W:resizing" ∧ t ≠ "R:c" ∧ t ≠ "W:c") = true := by
  decide

/-- the cache settings are read and written through `atomic.Value` only -/
theorem C14_settings_atomic :
    cache_xsync_map_xsyncMap_DefaultExpiration = ["R:defaultExpiration", "defaultExpiration.Load", "return"] ∧
    cache_xsync_map_xsyncMap_SetDefaultExpiration = ["R:defaultExpiration", "defaultExpiration.Store"] ∧
    cache_xsync_map_xsyncMap_EvictedCallback = ["R:evictedCallback", "evictedCallback.Load", "return"] ∧
    cache_xsync_map_xsyncMap_SetEvictedCallback = ["R:evictedCallback", "evictedCallback.Store"] ∧
    cache_xsync_mapof_xsyncMapOf_DefaultExpiration = ["R:defaultExpiration", "defaultExpiration.Load", "return"] ∧
    cache_xsync_mapof_xsyncMapOf_SetDefaultExpiration = ["R:defaultExpiration", "defaultExpiration.Store"] ∧
    cache_xsync_mapof_xsyncMapOf_EvictedCallback = ["R:evictedCallback", "evictedCallback.Load", "return"] ∧
    cache_xsync_mapof_xsyncMapOf_SetEvictedCallback = ["R:evictedCallback", "evictedCallback.Store"] := by
  decide

/-- no cache-layer method touches the settings fields except through those four accessors -/
theorem C14_settings_only_via_accessors :
    ([cache_xsync_map_xsyncMap_Set, cache_xsync_map_xsyncMap_expiration, cache_xsync_map_xsyncMap_get,
      cache_xsync_map_xsyncMap_GetOrSet, cache_xsync_map_xsyncMap_GetAndSet, cache_xsync_map_xsyncMap_GetAndRefresh,
      cache_xsync_map_xsyncMap_GetOrCompute, cache_xsync_map_xsyncMap_Compute, cache_xsync_map_xsyncMap_GetAndDelete,
      cache_xsync_map_xsyncMap_DeleteExpired, cache_xsync_map_xsyncMap_Range,
      cache_xsync_mapof_xsyncMapOf_Set, cache_xsync_mapof_xsyncMapOf_expiration, cache_xsync_mapof_xsyncMapOf_get,
      cache_xsync_mapof_xsyncMapOf_GetOrSet, cache_xsync_mapof_xsyncMapOf_GetAndSet, cache_xsync_mapof_xsyncMapOf_GetAndRefresh,
      cache_xsync_mapof_xsyncMapOf_GetOrCompute, cache_xsync_mapof_xsyncMapOf_Compute, cache_xsync_mapof_xsyncMapOf_GetAndDelete,
      cache_xsync_mapof_xsyncMapOf_DeleteExpired, cache_xsync_mapof_xsyncMapOf_Range].all fun l =>
        l.all fun t => t ≠ "R:defaultExpiration" ∧ t ≠ "W:defaultExpiration" ∧ t ≠ "R:evictedCallback" ∧ t ≠ "W:evictedCallback") = true := by
  decide

/-- bucket locks are mutually exclusive in every reachable state of the protocol model (so the plain accesses
above never overlap) -/
theorem C14_lock_mutex {K V : Type} [DecidableEq K] (p : Model.Proto.Params K) (s : Model.Proto.St K V)
    (h : Model.Proto.Reach p s) (t u : Nat) (T i : Nat)
    (ht : Proofs.ProtoLocks.holdsBucket (s.l t) = some (T, i)) (hu : Proofs.ProtoLocks.holdsBucket (s.l u) = some (T, i)) :
    t = u := C13.C13_mutex p s h t u T i ht hu

end Props.C14
