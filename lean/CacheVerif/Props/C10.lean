import CacheVerif.Props.C11
import CacheVerif.Proofs.LeafBits
/-!
# C10 — keys are matched by Go equality for every comparable key type

What a theorem about this code base can carry: in the model a hasher is a *function* of the key, and the
table (M3) consults nothing but that function and `==` (`DecidableEq K`).  `C10_eq_only` is the refinement of
C11 read with the quantifier on the hash function in front — in particular for the constant hash, under which
all keys collide in bucket index, in the top-hash bits and in the 7-bit `h2`.  The remaining content of C10 —
that Go's runtime hasher *is* a function of the `==`-class of the key for every comparable type, and never
panics — is the hypothesis *H(K)* of these theorems; it is a statement about the Go runtime's memory
representation and is checked by the key-type catalogue of the correspondence harness (DESIGN.md §4.10).
-/
namespace Props.C10
open Spec Model.Table Proofs.TableRefine Props.C11

variable {K V : Type} [DecidableEq K] [Inhabited V]

/-- **two keys address the same entry iff they are equal — for every hash function**: `MapOf` with an
arbitrary hasher answers every call sequence exactly like a builtin map keyed by `==`. -/
theorem C10_eq_only (hash : K → BitVec 64 → BitVec 64) (seeds : Nat → BitVec 64) (hint : Int) (growOnly : Bool)
    (ops : List (MOp K V))
    (hlen : 0 < (new (V := V) mapOfVariant ⟨hash, seeds⟩ hint growOnly).tbl.len) :
    RunRel ([] : AMap K V) ops (run mapOfVariant ⟨hash, seeds⟩ (new mapOfVariant ⟨hash, seeds⟩ hint growOnly) ops).2 :=
  C11_MapOf ⟨hash, seeds⟩ hint growOnly ops hlen

/-- **distinct keys never alias even when their hashes collide completely** -/
theorem C10_total_collision (seeds : Nat → BitVec 64) (ops : List (MOp K V)) :
    RunRel ([] : AMap K V) ops
      (run mapOfVariant ⟨fun _ _ => 0, seeds⟩ (new mapOfVariant ⟨fun _ _ => 0, seeds⟩ 0 false) ops).2 :=
  C11_MapOf _ 0 false ops (by rw [C11_default_len _ _ _ _ (by decide)]; decide)

/-- the same for the string-keyed `Map` (and hence for `Cache`) -/
theorem C10_total_collision_Map (seeds : Nat → BitVec 64) (ops : List (MOp K V)) :
    RunRel ([] : AMap K V) ops
      (run mapVariant ⟨fun _ _ => 0, seeds⟩ (new mapVariant ⟨fun _ _ => 0, seeds⟩ 0 false) ops).2 :=
  C11_Map _ 0 false ops (by rw [C11_default_len _ _ _ _ (by decide)]; decide)

/-! ### the packed words never hide a present key (leaf lemmas over the machine-translated bit code) -/

/-- `MapOf`: a slot whose meta byte equals the searched key's `h2` is always among the SWAR candidates
(`markZeroBytes` has no false negatives), so the search by `==` over candidates finds every present key -/
theorem C10_meta_no_false_negative (m : BitVec 64) (b : BitVec 8) (i : Nat) (hi : i < 5)
    (hm : Proofs.LeafBits.getByte m i = b) :
    ((Gen.markZeroBytes (m ^^^ Gen.broadcast b)) &&& Gen.metaMask).getLsbD (8 * i + 7) = true :=
  Proofs.LeafBits.candidate_of_meta m b i hi hm

/-- an occupied slot's meta byte is never mistaken for an empty one -/
theorem C10_h2_never_empty (h : BitVec 64) : Gen.h2 h ≠ Gen.emptyMetaSlot := Proofs.LeafBits.h2_ne_empty h

/-- `Map`: the slot a key was stored in always matches that key's top hash -/
theorem C10_tophash_no_false_negative (h w : BitVec 64) (i : Nat) (hi : i < 3) :
    Gen.topHashMatch h (Gen.storeTopHash h w i) i = true := Proofs.LeafBits.topHashMatch_store h w i hi

/-- storing or erasing one slot's bits never changes what another slot matches -/
theorem C10_slots_independent (h h' w : BitVec 64) (i j : Nat) (hi : i < 3) (hj : j < 3) (hij : i ≠ j) :
    Gen.topHashMatch h' (Gen.storeTopHash h w i) j = Gen.topHashMatch h' w j ∧
    Gen.topHashMatch h' (Gen.eraseTopHash w i) j = Gen.topHashMatch h' w j :=
  ⟨Proofs.LeafBits.topHashMatch_store_other h h' w i j hi hj hij, Proofs.LeafBits.topHashMatch_erase_other h' w i j hi hj hij⟩

/-! ### Non-vacuity: six fully colliding keys, a delete in the first bucket, a survivor behind the hole -/
def collEnv : Env Nat := { hash := fun _ _ => 0, seeds := fun _ => 0 }
def collOps : List (MOp Nat Nat) :=
  [.store 1 10, .store 2 20, .store 3 30, .store 4 40, .store 5 50, .store 6 60, .delete 1, .load 6, .store 7 70, .load 2, .load 1]

set_option maxRecDepth 8000 in
example : ((run mapOfVariant collEnv (new mapOfVariant collEnv 0 false) collOps).2.map (·.out)) =
    [.unit, .unit, .unit, .unit, .unit, .unit, .unit, .val 60 true, .unit, .val 20 true, .val 0 false] := by decide

end Props.C10
