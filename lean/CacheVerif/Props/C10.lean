import CacheVerif.Props.C11
import CacheVerif.Proofs.LeafBits
import CacheVerif.Proofs.DeepLoad
import CacheVerif.Proofs.DeepLoadM
import CacheVerif.Proofs.WordsInv
/-!
# C10 — keys are matched by Go equality for every comparable key type

What a theorem about this code base can carry: in the model a hasher is a *function* of the key, and the
table (M3) consults nothing but that function and `==` (`DecidableEq K`).  `C10_eq_only` is the refinement of
C11 read with the quantifier on the hash function in front — in particular for the constant hash, under which
all keys collide in bucket index, in the top-hash bits and in the 7-bit `h2`.  The remaining content of C10 —
that Go's runtime hasher *is* a function of the `==`-class of the key for every comparable type, and never
panics — is the hypothesis *H(K)* of these theorems; it is a statement about the Go runtime's memory
representation and is checked by the key-type catalogue of the correspondence harness (DESIGN.md §4.10).
-/
namespace Props.C10
open Spec Model.Table Proofs.TableRefine Props.C11

variable {K V : Type} [DecidableEq K] [Inhabited V]

/-- **two keys address the same entry iff they are equal — for every hash function**: `MapOf` with an
arbitrary hasher answers every call sequence exactly like a builtin map keyed by `==`. -/
theorem C10_eq_only (hash : K → BitVec 64 → BitVec 64) (seeds : Nat → BitVec 64) (hint : Int) (growOnly : Bool)
    (ops : List (MOp K V))
    (hlen : 0 < (new (V := V) mapOfVariant ⟨hash, seeds⟩ hint growOnly).tbl.len) :
    RunRel ([] : AMap K V) ops (run mapOfVariant ⟨hash, seeds⟩ (new mapOfVariant ⟨hash, seeds⟩ hint growOnly) ops).2 :=
  C11_MapOf ⟨hash, seeds⟩ hint growOnly ops hlen

/-- **distinct keys never alias even when their hashes collide completely** -/
theorem C10_total_collision (seeds : Nat → BitVec 64) (ops : List (MOp K V)) :
    RunRel ([] : AMap K V) ops
      (run mapOfVariant ⟨fun _ _ => 0, seeds⟩ (new mapOfVariant ⟨fun _ _ => 0, seeds⟩ 0 false) ops).2 :=
  C11_MapOf _ 0 false ops (by rw [C11_default_len _ _ _ _ (by decide)]; decide)

/-- the same for the string-keyed `Map` (and hence for `Cache`) -/
theorem C10_total_collision_Map (seeds : Nat → BitVec 64) (ops : List (MOp K V)) :
    RunRel ([] : AMap K V) ops
      (run mapVariant ⟨fun _ _ => 0, seeds⟩ (new mapVariant ⟨fun _ _ => 0, seeds⟩ 0 false) ops).2 :=
  C11_Map _ 0 false ops (by rw [C11_default_len _ _ _ _ (by decide)]; decide)

/-! ### the packed words never hide a present key (leaf lemmas over the machine-translated bit code) -/

/-- `MapOf`: a slot whose meta byte equals the searched key's `h2` is always among the SWAR candidates
(`markZeroBytes` has no false negatives), so the search by `==` over candidates finds every present key -/
theorem C10_meta_no_false_negative (m : BitVec 64) (b : BitVec 8) (i : Nat) (hi : i < 5)
    (hm : Proofs.LeafBits.getByte m i = b) :
    ((Gen.markZeroBytes (m ^^^ Gen.broadcast b)) &&& Gen.metaMask).getLsbD (8 * i + 7) = true :=
  Proofs.LeafBits.candidate_of_meta m b i hi hm

/-- an occupied slot's meta byte is never mistaken for an empty one -/
theorem C10_h2_never_empty (h : BitVec 64) : Gen.h2 h ≠ Gen.emptyMetaSlot := Proofs.LeafBits.h2_ne_empty h

/-- `Map`: the slot a key was stored in always matches that key's top hash -/
theorem C10_tophash_no_false_negative (h w : BitVec 64) (i : Nat) (hi : i < 3) :
    Gen.topHashMatch h (Gen.storeTopHash h w i) i = true := Proofs.LeafBits.topHashMatch_store h w i hi

/-- storing or erasing one slot's bits never changes what another slot matches -/
theorem C10_slots_independent (h h' w : BitVec 64) (i j : Nat) (hi : i < 3) (hj : j < 3) (hij : i ≠ j) :
    Gen.topHashMatch h' (Gen.storeTopHash h w i) j = Gen.topHashMatch h' w j ∧
    Gen.topHashMatch h' (Gen.eraseTopHash w i) j = Gen.topHashMatch h' w j :=
  ⟨Proofs.LeafBits.topHashMatch_store_other h h' w i j hi hj hij, Proofs.LeafBits.topHashMatch_erase_other h' w i j hi hj hij⟩

/-! ### Non-vacuity: six fully colliding keys, a delete in the first bucket, a survivor behind the hole -/
def collEnv : Env Nat := { hash := fun _ _ => 0, seeds := fun _ => 0 }
def collOps : List (MOp Nat Nat) :=
  [.store 1 10, .store 2 20, .store 3 30, .store 4 40, .store 5 50, .store 6 60, .delete 1, .load 6, .store 7 70, .load 2, .load 1]

set_option maxRecDepth 8000 in
example : ((run mapOfVariant collEnv (new mapOfVariant collEnv 0 false) collOps).2.map (·.out)) =
    [.unit, .unit, .unit, .unit, .unit, .unit, .unit, .val 60 true, .unit, .val 20 true, .val 0 false] := by decide

/-! ### the lookup path of `MapOf`, printed from the source: the packed word only pre-selects, `==` decides

`tools/go2deep -table` prints `(*MapOf[K,V]).Load` on every run; `Deep/TInterp.lean` gives the Go subset its
(sequential) meaning; `Proofs/Words.lean` and `Proofs/DeepLoad.lean` carry the proofs. -/

omit [Inhabited V] in
/-- **the SWAR-filtered search is the key search, for every hash-byte function**: over any chain of buckets whose
`meta` words say what their entries demand, walking the marked bytes of `markZeroBytes(meta ^ broadcast(h2))` in
`firstMarkedByteIndex` order and comparing keys there finds exactly the first slot whose key `==` the argument -
false positives of the byte trick are rejected by the comparison, there are no false negatives, the iteration ends -/
theorem C10_word_search_is_key_search (hk : K → BitVec 8) (key : K) (c : List (Model.Words.BucketOf K V))
    (hrep : ∀ b ∈ c, Model.Words.RepB hk b) :
    Model.Words.searchChain key (Gen.broadcast (hk key)) c = lookup key (Model.Words.flat c) :=
  Proofs.Words.searchChain_eq hk key c hrep

omit [Inhabited V] in
/-- **the text of `MapOf.Load` computes that search**: for every heap, key and sufficient loop budget the interpreter on
the printed body returns `(v, true)` when the word-filtered search of the root bucket's chain finds `v`, and the zero
value and `false` otherwise (no stuck state: no index out of range, no nil dereference) -/
theorem C10_source_load_is_word_search (fuel : Nat) (hf : 8 ≤ fuel) (h : Deep.T.Heap K V) (key : K)
    (c : List (Model.Words.BucketOf K V))
    (hc : h.chains[(Proofs.DeepLoad.bidxOf h key).toNat]? = some c) (hne : c ≠ []) (hfuel : c.length ≤ fuel)
    (hlen : ∀ b ∈ c, b.entries.length = 5) :
    Deep.T.call fuel h Gen.Deep.T_MapOf_Load [.key key] =
      some (match Model.Words.searchChain key (Proofs.DeepLoad.h2wOf h key) c with
        | some v => [.val v, .bool true]
        | none => [.zeroV, .bool false]) :=
  Proofs.DeepLoad.load_eq_search fuel hf h key c hc hne hfuel hlen

/-- **the text of `MapOf.Load` is the `load` step of the table model M3**, whose refinement of the builtin map is
`C10_eq_only`: power-of-two table, non-empty chains, `meta` words representing their entries; any hasher, seed, contents -/
theorem C10_source_load_is_model_load (fuel : Nat) (hf : 8 ≤ fuel) (h : Deep.T.Heap K V) (m : St K V) (env : Env K)
    (key : K) (p : Nat) (hp : p < 64) (hlen : h.chains.length = 2 ^ p)
    (htbl : m.tbl.chains = h.chains.map Model.Words.flat) (hseed : m.tbl.seed = h.seed) (hhash : env.hash = h.hasher)
    (hne : ∀ c ∈ h.chains, c ≠ []) (hfuel : ∀ c ∈ h.chains, c.length ≤ fuel)
    (hrep : ∀ c ∈ h.chains, ∀ b ∈ c, Model.Words.RepB (Proofs.DeepLoad.hkOf h) b) :
    Deep.T.call fuel h Gen.Deep.T_MapOf_Load [.key key] =
      some (match (step mapOfVariant env m (.load key)).2.out with
        | .val v true => [.val v, .bool true]
        | _ => [.zeroV, .bool false]) :=
  Proofs.DeepLoad.load_is_model_load fuel hf h m env key p hp hlen htbl hseed hhash hne hfuel hrep

/-! Non-vacuity: a two-chain heap in which keys 1 and 257 share bucket, slot byte (`h2 = 1`) and chain, key 515 sits in
an overflow bucket, key 129 has the same `h2` again but lives in the other chain (absent).  The hypotheses of
`C10_source_load_is_model_load` hold of it, and the printed `Load` answers by key. -/
def exHeap : Deep.T.Heap Nat Nat :=
  { chains := [[⟨0x8080808080800101#64, [some (257, 70), some (1, 10), none, none, none]⟩,
                ⟨0x8080808080800380#64, [none, some (515, 30), none, none, none]⟩],
               [⟨Gen.defaultMeta, [none, none, none, none, none]⟩]],
    seed := 0#64, hasher := fun k _ => BitVec.ofNat 64 k }

example : exHeap.chains.length = 2 ^ 1 ∧ (∀ c ∈ exHeap.chains, c ≠ []) ∧ (∀ c ∈ exHeap.chains, c.length ≤ 8) := by
  decide

example : ∀ c ∈ exHeap.chains, ∀ b ∈ c, Model.Words.RepB (Proofs.DeepLoad.hkOf exHeap) b := by
  simp only [exHeap, List.mem_cons, List.mem_nil_iff, or_false, forall_eq_or_imp, forall_eq]
  refine ⟨⟨?_, ?_⟩, ?_⟩ <;> refine ⟨by decide, ?_⟩ <;> intro i hi <;>
    (obtain rfl | rfl | rfl | rfl | rfl : i = 0 ∨ i = 1 ∨ i = 2 ∨ i = 3 ∨ i = 4 := by
      simp only [Gen.entriesPerMapOfBucket] at hi; omega) <;> decide

example : Deep.T.call 8 exHeap Gen.Deep.T_MapOf_Load [.key 1] = some [.val 10, .bool true] := by rfl
example : Deep.T.call 8 exHeap Gen.Deep.T_MapOf_Load [.key 257] = some [.val 70, .bool true] := by rfl
example : Deep.T.call 8 exHeap Gen.Deep.T_MapOf_Load [.key 515] = some [.val 30, .bool true] := by rfl
example : Deep.T.call 8 exHeap Gen.Deep.T_MapOf_Load [.key 129] = some [.zeroV, .bool false] := by rfl
example : Deep.T.call 8 exHeap Gen.Deep.T_MapOf_Load [.key 2] = some [.zeroV, .bool false] := by rfl

/-! A false positive of the byte trick, rejected by `==`: bytes `02 03` against the searched byte `02` - the borrow of the
subtraction marks byte 1 although `03 ≠ 02` - and the printed `Load` still answers by key. -/
def exHeapFP : Deep.T.Heap Nat Nat :=
  { chains := [[⟨0x8080808080800302#64, [some (2, 20), some (3, 30), none, none, none]⟩]],
    seed := 0#64, hasher := fun k _ => BitVec.ofNat 64 k }

example : (Model.Words.candidates (Gen.broadcast 2#8) 0x8080808080800302#64).getLsbD 7 = true ∧
    (Model.Words.candidates (Gen.broadcast 2#8) 0x8080808080800302#64).getLsbD 15 = true := by decide
example : Deep.T.call 8 exHeapFP Gen.Deep.T_MapOf_Load [.key 130] = some [.zeroV, .bool false] := by rfl
example : Deep.T.call 8 exHeapFP Gen.Deep.T_MapOf_Load [.key 2] = some [.val 20, .bool true] := by rfl
example : Deep.T.call 8 exHeapFP Gen.Deep.T_MapOf_Load [.key 3] = some [.val 30, .bool true] := by rfl

/-! ### the lookup path of the string-keyed `Map`, printed from the source -/

omit [Inhabited V] in
/-- **the top-hash filter only pre-selects**: over any chain of `Map` buckets whose stored top hashes match the keys in
their slots, testing `topHashMatch` on the three slots and comparing keys only where it holds finds exactly the first slot
whose key `==` the argument - for every hash function; a stale match on a free slot is rejected by the nil check -/
theorem C10_tophash_search_is_key_search (hashOf : K → BitVec 64) (key : K) (c : List (Model.Words.BucketM K V))
    (hrep : ∀ b ∈ c, Model.Words.RepM hashOf b) :
    Model.Words.searchChainM key (hashOf key) c = lookup key (Model.Words.flatM c) :=
  Proofs.Words.searchChainM_eq hashOf key c hrep

omit [Inhabited V] in
/-- **the text of `Map.Load` computes that search** (three-clause `for` with `continue`, labelled three-read snapshot whose
`goto` is never taken sequentially, walk along `next`); never stuck -/
theorem C10_source_mapload_is_tophash_search (fuel : Nat) (hf : 4 ≤ fuel) (h : Deep.T.Heap K V) (key : K)
    (c : List (Model.Words.BucketM K V))
    (hc : h.mchains[(Proofs.DeepLoadM.mbidxOf h key).toNat]? = some c) (hne : c ≠ []) (hfuel : c.length ≤ fuel)
    (hlen : ∀ b ∈ c, b.slots.length = 3) :
    Deep.T.call fuel h Gen.Deep.T_Map_Load [.key key] =
      some (match Model.Words.searchChainM key (Proofs.DeepLoadM.mhashOf h key) c with
        | some v => [.val v, .bool true]
        | none => [.zeroV, .bool false]) :=
  Proofs.DeepLoadM.mload_eq_search fuel hf h key c hc hne hfuel hlen

/-- **the text of `Map.Load` is the `load` step of the table model M3** (Map variant) -/
theorem C10_source_mapload_is_model_load (fuel : Nat) (hf : 4 ≤ fuel) (h : Deep.T.Heap K V) (m : St K V) (env : Env K)
    (key : K) (p : Nat) (hp : p < 64) (hlen : h.mchains.length = 2 ^ p)
    (htbl : m.tbl.chains = h.mchains.map Model.Words.flatM) (hseed : m.tbl.seed = h.seed) (hhash : env.hash = h.hasher)
    (hne : ∀ c ∈ h.mchains, c ≠ []) (hfuel : ∀ c ∈ h.mchains, c.length ≤ fuel)
    (hrep : ∀ c ∈ h.mchains, ∀ b ∈ c, Model.Words.RepM (Proofs.DeepLoadM.mhashOf h) b) :
    Deep.T.call fuel h Gen.Deep.T_Map_Load [.key key] =
      some (match (step mapVariant env m (.load key)).2.out with
        | .val v true => [.val v, .bool true]
        | _ => [.zeroV, .bool false]) :=
  Proofs.DeepLoadM.mload_is_model_load fuel hf h m env key p hp hlen htbl hseed hhash hne hfuel hrep

/-! Non-vacuity: one chain of two `Map` buckets; keys 5 and 7 in the root bucket, key 2 in the third slot of the overflow
bucket, key 9 absent; the top hashes are the ones `storeTopHash` writes. -/
def exHash (k : Nat) : BitVec 64 := BitVec.ofNat 64 k <<< 44
def exHeapM : Deep.T.Heap Nat Nat :=
  { chains := [], seed := 0#64, hasher := fun k _ => exHash k,
    mchains := [[⟨Gen.storeTopHash (exHash 7) (Gen.storeTopHash (exHash 5) 0#64 0) 1, [some (5, 50), some (7, 70), none]⟩,
                 ⟨Gen.storeTopHash (exHash 2) 0#64 2, [none, none, some (2, 20)]⟩]] }

example : exHeapM.mchains.length = 2 ^ 0 ∧ (∀ c ∈ exHeapM.mchains, c ≠ []) ∧ (∀ c ∈ exHeapM.mchains, c.length ≤ 4) := by
  decide

example : ∀ c ∈ exHeapM.mchains, ∀ b ∈ c, Model.Words.RepM (Proofs.DeepLoadM.mhashOf exHeapM) b := by
  simp only [exHeapM, List.mem_cons, List.mem_nil_iff, or_false, forall_eq_or_imp, forall_eq]
  refine ⟨?_, ?_⟩ <;> refine ⟨by decide, ?_⟩ <;> intro i hi <;>
    (obtain rfl | rfl | rfl : i = 0 ∨ i = 1 ∨ i = 2 := by
      simp only [Gen.entriesPerMapBucket] at hi; omega) <;>
    simp only [List.getD_cons_zero, List.getD_cons_succ] <;> first | exact trivial | decide

example : Deep.T.call 4 exHeapM Gen.Deep.T_Map_Load [.key 5] = some [.val 50, .bool true] := by rfl
example : Deep.T.call 4 exHeapM Gen.Deep.T_Map_Load [.key 7] = some [.val 70, .bool true] := by rfl
example : Deep.T.call 4 exHeapM Gen.Deep.T_Map_Load [.key 2] = some [.val 20, .bool true] := by rfl
example : Deep.T.call 4 exHeapM Gen.Deep.T_Map_Load [.key 9] = some [.zeroV, .bool false] := by rfl

/-! ### the representation the lookup theorems assume is an invariant of the write path's word arithmetic -/

omit [Inhabited V] in
/-- **`MapOf`**: a fresh bucket is represented, and insertion (`setByte(meta, h2, i)` + entry), a new overflow bucket
(`setByte(defaultMeta, h2, 0)`), in-place update (same key, `meta` untouched) and deletion (`setByte(meta, emptyMetaSlot, i)`
+ nil) keep `RepB` - for every hash-byte function; so every heap these updates reach meets the hypothesis of
`C10_source_load_is_model_load` -/
theorem C10_meta_words_stay_representative (hk : K → BitVec 8) :
    Model.Words.RepB hk (⟨Gen.defaultMeta, [none, none, none, none, none]⟩ : Model.Words.BucketOf K V) ∧
    (∀ (b : Model.Words.BucketOf K V), Model.Words.RepB hk b → ∀ i, i < 5 → ∀ (k : K) (v : V),
      Model.Words.RepB hk ⟨Gen.setByte b.metaw (hk k) i, b.entries.set i (some (k, v))⟩) ∧
    (∀ (k : K) (v : V),
      Model.Words.RepB hk (⟨Gen.setByte Gen.defaultMeta (hk k) 0, [some (k, v), none, none, none, none]⟩ : Model.Words.BucketOf K V)) ∧
    (∀ (b : Model.Words.BucketOf K V), Model.Words.RepB hk b → ∀ i, i < 5 → ∀ (k : K) (v v' : V),
      b.entries.getD i none = some (k, v) → Model.Words.RepB hk ⟨b.metaw, b.entries.set i (some (k, v'))⟩) ∧
    (∀ (b : Model.Words.BucketOf K V), Model.Words.RepB hk b → ∀ i, i < 5 →
      Model.Words.RepB hk ⟨Gen.setByte b.metaw Gen.emptyMetaSlot i, b.entries.set i none⟩) :=
  ⟨Proofs.WordsInv.repB_fresh hk, fun b h i hi k v => Proofs.WordsInv.repB_insert hk b h i hi k v,
   fun k v => Proofs.WordsInv.repB_newBucket hk k v, fun b h i hi k v v' hs => Proofs.WordsInv.repB_update hk b h i hi k v v' hs,
   fun b h i hi => Proofs.WordsInv.repB_delete hk b h i hi⟩

omit [Inhabited V] in
/-- **`Map`**: the same for the top-hash word - fresh bucket, `storeTopHash`, in-place update, `eraseTopHash`, and taking /
releasing the spin lock that lives in bit 0 of the same word -/
theorem C10_tophash_words_stay_representative (hashOf : K → BitVec 64) :
    (∀ w, Model.Words.RepM hashOf (⟨w, [none, none, none]⟩ : Model.Words.BucketM K V)) ∧
    (∀ (b : Model.Words.BucketM K V), Model.Words.RepM hashOf b → ∀ i, i < 3 → ∀ (k : K) (v : V),
      Model.Words.RepM hashOf ⟨Gen.storeTopHash (hashOf k) b.word i, b.slots.set i (some (k, v))⟩) ∧
    (∀ (b : Model.Words.BucketM K V), Model.Words.RepM hashOf b → ∀ i, i < 3 → ∀ (k : K) (v v' : V),
      b.slots.getD i none = some (k, v) → Model.Words.RepM hashOf ⟨b.word, b.slots.set i (some (k, v'))⟩) ∧
    (∀ (b : Model.Words.BucketM K V), Model.Words.RepM hashOf b → ∀ i, i < 3 →
      Model.Words.RepM hashOf ⟨Gen.eraseTopHash b.word i, b.slots.set i none⟩) ∧
    (∀ (b : Model.Words.BucketM K V), Model.Words.RepM hashOf b →
      Model.Words.RepM hashOf ⟨b.word ||| 1#64, b.slots⟩ ∧ Model.Words.RepM hashOf ⟨b.word &&& ~~~1#64, b.slots⟩) :=
  ⟨fun w => Proofs.WordsInv.repM_fresh hashOf w, fun b h i hi k v => Proofs.WordsInv.repM_insert hashOf b h i hi k v,
   fun b h i hi k v v' hs => Proofs.WordsInv.repM_update hashOf b h i hi k v v' hs,
   fun b h i hi => Proofs.WordsInv.repM_delete hashOf b h i hi, fun b h => Proofs.WordsInv.repM_lock hashOf b h⟩

end Props.C10
