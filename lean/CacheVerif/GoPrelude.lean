/-!
Hand-written meanings of the few Go library functions the leaf translator (`tools/go2lean`) refers to.
Trusted base: these definitions are assumed to describe `math/bits`.
-/
namespace GoPrelude

/-- `bits.TrailingZeros64`: number of trailing zero bits, 64 for 0. -/
def trailingZeros64 (w : BitVec 64) : Nat :=
  go 64 0
where
  go : Nat → Nat → Nat
    | 0, i => i
    | fuel + 1, i => if w.getLsbD i then i else go fuel (i + 1)

end GoPrelude
