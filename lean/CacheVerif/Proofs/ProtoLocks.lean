import CacheVerif.Model.Proto
/-!
# M4a invariants, bundle 1: lock ownership, resize flag, condition variable, user-function count

Owicki–Gries style: a global invariant `GI` and a per-thread invariant `LI u g l`; `self_ok` (a step of
thread `t` re-establishes `GI` and `LI t`), `other_ok` (it preserves `LI u` of every other thread), and the
lifting to every reachable state.  Corollaries are the statements used by properties C13, C16 and C05.
-/
set_option linter.unusedSectionVars false
namespace Proofs.ProtoLocks
open Model.Proto

variable {K V : Type} [DecidableEq K]

/-- the bucket lock `(table generation, root bucket)` a thread holds, read off its pc -/
def holdsBucket (l : L K V) : Option (Nat × Nat) :=
  match l.pc with
  | .dcChkResizing | .dcChkTable | .dcScan | .dcFn | .dcCommit | .dcUnlock
  | .dcUnlockWait | .dcUnlockRetry | .dcUnlockGrow => some (l.tbl, l.bi)
  | .rzCopyDo | .rzCopyUnlock => some (l.rtbl, l.ci)
  | .rgCopy | .rgUnlock => some (l.tbl, l.ri)
  | _ => none

def holdsMu : Pc → Bool
  | .rzClearFlag | .rzBroadcast | .rzMuUnlock | .wfChk | .wfMuUnlock => true
  | _ => false

/-- the thread owns the `resizing` flag -/
def isResizer : Pc → Bool
  | .rzLoadTable | .rzDecide | .rzCopyLock | .rzCopyDo | .rzCopyUnlock | .rzPublish | .rzMuLock | .rzClearFlag => true
  | _ => false

/-- pcs of `doCompute` before the user function is called (all retry edges leave from here) -/
def beforeFn : Pc → Bool
  | .dcFast | .dcLoadTable | .dcLock | .dcChkResizing | .dcChkTable | .dcScan
  | .dcUnlockWait | .dcUnlockRetry | .dcUnlockGrow => true
  | _ => false

/-- pcs of `doCompute` after the user function returned -/
def afterFn : Pc → Bool
  | .dcCommit => true
  | _ => false

def GI (g : G K V) : Prop := (g.resizing = true ↔ g.resizer.isSome)

structure LI (u : Tid) (g : G K V) (l : L K V) : Prop where
  /-- bucket-lock ownership is exactly what the pc says -/
  lock : ∀ T i, (g.tables T).lock i = some u ↔ holdsBucket l = some (T, i)
  mu : g.mu = some u ↔ holdsMu l.pc = true
  rsz : g.resizer = some u ↔ isResizer l.pc = true
  /-- no lost wake-up: a thread on the notify list is parked, and the resize it waits for is still in
  progress or its broadcast is pending -/
  park : g.waiting u = true → l.pc = .wfPark ∧ (g.resizing = true ∨ g.bcaster.isSome)
  bc : l.pc = .rzBroadcast ↔ g.bcaster = some u

def Inv (s : St K V) : Prop := GI s.g ∧ ∀ u, LI u s.g (s.l u)

end Proofs.ProtoLocks
