import CacheVerif.Model.Proto
/-!
# M4a invariants, bundle 1: lock ownership, resize flag, condition variable, user-function count

Owicki–Gries style: a global invariant `GI` and a per-thread invariant `LI u g l`; `self_ok` (a step of
thread `t` re-establishes `GI` and `LI t`), `other_ok` (it preserves `LI u` of every other thread), and the
lifting to every reachable state.  Corollaries are the statements used by properties C13, C16 and C05.

Structure of the proof: `LI` = `LIg` (the clauses that mention the globals) + `WF` (well-formedness of the locals:
op/pc consistency, shape of the continuation stack, the user-function counter).  `WF` is preserved by every
step of the thread itself (`wf_step`, one lemma per pc) and trivially by the steps of the others; `LIg` is
handled by one `self_*` and one `other_*` lemma per pc.
-/
set_option linter.unusedSectionVars false
set_option linter.unusedVariables false
namespace Proofs.ProtoLocks
open Model.Proto

variable {K V : Type} [DecidableEq K]

/-! ## part: Defs -/

def holdsBucket (l : L K V) : Option (Nat × Nat) :=
  match l.pc with
  | .dcChkResizing | .dcChkTable | .dcScan | .dcSum | .dcFn | .dcCommit | .dcUnlock
  | .dcUnlockWait | .dcUnlockRetry | .dcUnlockGrow => some (l.tbl, l.bi)
  | .rzCopyDo | .rzCopyUnlock => some (l.rtbl, l.ci)
  | .rgCopy | .rgUnlock => some (l.tbl, l.ri)
  | _ => none

def holdsMu : Pc → Bool
  | .rzClearFlag | .rzBroadcast | .rzMuUnlock | .wfChk | .wfMuUnlock => true
  | _ => false

def isResizer : Pc → Bool
  | .rzLoadTable | .rzDecide | .rzDecideSum | .rzCopyLock | .rzCopyDo | .rzCopyUnlock | .rzPublish | .rzMuLock | .rzClearFlag => true
  | _ => false

def beforeFn : Pc → Bool
  | .dcFast | .dcLoadTable | .dcLock | .dcChkResizing | .dcChkTable | .dcScan | .dcSum
  | .dcUnlockWait | .dcUnlockRetry | .dcUnlockGrow => true
  | _ => false

def afterFn : Pc → Bool
  | .dcCommit => true
  | _ => false

/-- pcs of `doCompute` -/
def inDc : Pc → Bool
  | .dcFast | .dcLoadTable | .dcLock | .dcChkResizing | .dcChkTable | .dcScan | .dcSum | .dcFn | .dcCommit
  | .dcUnlock | .dcAddSize | .dcMaybeShrink | .dcUnlockWait | .dcUnlockRetry | .dcUnlockGrow => true
  | _ => false

def inRz : Pc → Bool
  | .rzFast | .rzFastSum | .rzCas | .rzLoadTable | .rzDecide | .rzDecideSum | .rzCopyLock | .rzCopyDo | .rzCopyUnlock | .rzPublish
  | .rzMuLock | .rzClearFlag | .rzBroadcast | .rzMuUnlock => true
  | _ => false

def inWf : Pc → Bool
  | .wfMuLock | .wfChk | .wfPark | .wfRelock | .wfMuUnlock => true
  | _ => false

/-- pcs of calls that are not `doCompute` and never become one -/
def nonDcPc : Pc → Bool
  | .ldTable | .szTable | .szSum | .clTable | .rgTable | .rgLock | .rgCopy | .rgUnlock | .rgVisit => true
  | _ => false

/-- pcs at which `l.tbl` is (or is about to be) used as a lock address -/
def usesTbl : Pc → Bool
  | .dcLock | .dcChkResizing | .dcChkTable | .dcScan | .dcSum | .dcFn | .dcCommit | .dcUnlock
  | .dcUnlockWait | .dcUnlockRetry | .dcUnlockGrow | .rgLock | .rgCopy | .rgUnlock | .rgVisit => true
  | _ => false

def usesRtbl : Pc → Bool
  | .rzDecide | .rzDecideSum | .rzCopyLock | .rzCopyDo | .rzCopyUnlock => true
  | _ => false

def usesNewT : Pc → Bool
  | .rzCopyLock | .rzCopyDo | .rzCopyUnlock | .rzPublish => true
  | _ => false

def isDcOp : Option (POp K V) → Bool
  | some (.dc _ _ _ _) => true
  | _ => false

/-- `opKey`, as a function of the op alone -/
def keyOf : Option (POp K V) → Option K
  | some (.load k) => some k
  | some (.dc k _ _ _) => some k
  | _ => none

/-- `dcFlags`, as a function of the op alone -/
def flagsOf : Option (POp K V) → Bool × Bool
  | some (.dc _ _ lie co) => (lie, co)
  | _ => (false, false)

theorem opKey_eq (l : L K V) : opKey l = keyOf l.op := by
  unfold opKey keyOf; split <;> simp_all
theorem dcFlags_eq (l : L K V) : dcFlags l = flagsOf l.op := by
  unfold dcFlags flagsOf; split <;> simp_all

section
variable (k : K) (f : Option V → V × Bool) (lie co : Bool)
@[simp] theorem isDcOp_dc : isDcOp (some (POp.dc k f lie co)) = true := rfl
@[simp] theorem isDcOp_load : isDcOp (some (POp.load (V := V) k)) = false := rfl
@[simp] theorem isDcOp_size : isDcOp (some (POp.size (K := K) (V := V))) = false := rfl
@[simp] theorem isDcOp_clear : isDcOp (some (POp.clear (K := K) (V := V))) = false := rfl
@[simp] theorem isDcOp_range : isDcOp (some (POp.range (K := K) (V := V))) = false := rfl
@[simp] theorem isDcOp_none : isDcOp (none : Option (POp K V)) = false := rfl
@[simp] theorem keyOf_dc : keyOf (some (POp.dc k f lie co)) = some k := rfl
@[simp] theorem keyOf_load : keyOf (some (POp.load (V := V) k)) = some k := rfl
@[simp] theorem keyOf_size : keyOf (some (POp.size (K := K) (V := V))) = none := rfl
@[simp] theorem keyOf_clear : keyOf (some (POp.clear (K := K) (V := V))) = none := rfl
@[simp] theorem keyOf_range : keyOf (some (POp.range (K := K) (V := V))) = none := rfl
@[simp] theorem keyOf_none : keyOf (none : Option (POp K V)) = none := rfl
@[simp] theorem flagsOf_dc : flagsOf (some (POp.dc k f lie co)) = (lie, co) := rfl
@[simp] theorem flagsOf_load : flagsOf (some (POp.load (V := V) k)) = (false, false) := rfl
@[simp] theorem flagsOf_size : flagsOf (some (POp.size (K := K) (V := V))) = (false, false) := rfl
@[simp] theorem flagsOf_clear : flagsOf (some (POp.clear (K := K) (V := V))) = (false, false) := rfl
@[simp] theorem flagsOf_range : flagsOf (some (POp.range (K := K) (V := V))) = (false, false) := rfl
@[simp] theorem flagsOf_none : flagsOf (none : Option (POp K V)) = (false, false) := rfl
end

theorem isDcOp_key (o : Option (POp K V)) (h : isDcOp o = true) : (keyOf o).isSome = true := by
  unfold isDcOp at h; unfold keyOf; split at h <;> simp_all

theorem isDcOp_cases (o : Option (POp K V)) (h : isDcOp o = true) : ∃ k f lie co, o = some (.dc k f lie co) := by
  unfold isDcOp at h; split at h
  · exact ⟨_, _, _, _, rfl⟩
  · simp at h

/-- shape of the continuation stack, by pc -/
def contsOK (pc : Pc) (cs : List Cont) : Prop :=
  (inRz pc = false → inWf pc = false → cs = []) ∧
  (inRz pc = true → cs = [.dcRetry] ∨ cs = [.dcDone] ∨ cs = [.clDone]) ∧
  (inWf pc = true → cs = [.dcRetry] ∨ cs = [.rzAfterWait, .dcRetry] ∨ cs = [.rzAfterWait, .dcDone] ∨ cs = [.rzAfterWait, .clDone])

/-- the call is past the user function (or has skipped it for good) -/
def postDc (l : L K V) : Prop :=
  l.pc = .dcUnlock ∨ l.pc = .dcAddSize ∨ l.pc = .dcMaybeShrink ∨ (l.pc = .ret ∧ isDcOp l.op = true) ∨ .dcDone ∈ l.conts

def PostOK (l : L K V) : Prop :=
  ((dcFlags l).1 = false → l.fnCalls = 1) ∧
  ((dcFlags l).1 = true → (dcFlags l).2 = false → ∀ v flag, l.result = some (.val v flag) → (l.fnCalls = 0 ↔ flag = true))

/-- well-formedness of the locals (independent of the globals) -/
structure WF (l : L K V) : Prop where
  dcop : inDc l.pc = true → isDcOp l.op = true
  nodc : nonDcPc l.pc = true → isDcOp l.op = false
  ldkey : (l.pc = .ldTable ∨ l.pc = .ldRead) → (opKey l).isSome = true
  cshape : contsOK l.pc l.conts
  retry : .dcRetry ∈ l.conts → isDcOp l.op = true ∧ l.fnCalls = 0
  cl : .clDone ∈ l.conts → isDcOp l.op = false
  /-- no retry after the user function ran: every pc from which a retry edge leaves has `fnCalls = 0` -/
  pre : (beforeFn l.pc = true ∨ l.pc = .dcFn) → l.fnCalls = 0
  ldpre : l.pc = .ldRead → isDcOp l.op = true → l.fnCalls = 0 ∧ (dcFlags l).1 = true
  fastlie : l.pc = .dcFast → (dcFlags l).1 = true
  cm : l.pc = .dcCommit → l.fnCalls = 1 ∧ l.fnres.isSome = true
  le : l.fnCalls ≤ 1
  lieold : (l.pc = .dcSum ∨ l.pc = .dcFn ∨ l.pc = .dcCommit) → (dcFlags l).1 = true → l.old = none
  post : postDc l → PostOK l

def GI (g : G K V) : Prop := (g.resizing = true ↔ g.resizer.isSome) ∧ g.cur < g.ntables

structure LI (u : Tid) (g : G K V) (l : L K V) : Prop where
  lock : ∀ T i, (g.tables T).lock i = some u ↔ holdsBucket l = some (T, i)
  mu : g.mu = some u ↔ holdsMu l.pc = true
  rsz : g.resizer = some u ↔ isResizer l.pc = true
  park : g.waiting u = true → l.pc = .wfPark ∧ (g.resizing = true ∨ g.bcaster.isSome)
  bc : l.pc = .rzBroadcast ↔ g.bcaster = some u
  tblLt : usesTbl l.pc = true → l.tbl < g.ntables
  rtblLt : usesRtbl l.pc = true → l.rtbl < g.ntables
  newTLt : usesNewT l.pc = true → l.newT < g.ntables
  framesLt : ∀ f ∈ l.frames, f.tbl < g.ntables
  wf : WF l

/-- the part of `LI` that mentions the globals -/
structure LIg (u : Tid) (g : G K V) (l : L K V) : Prop where
  lock : ∀ T i, (g.tables T).lock i = some u ↔ holdsBucket l = some (T, i)
  mu : g.mu = some u ↔ holdsMu l.pc = true
  rsz : g.resizer = some u ↔ isResizer l.pc = true
  park : g.waiting u = true → l.pc = .wfPark ∧ (g.resizing = true ∨ g.bcaster.isSome)
  bc : l.pc = .rzBroadcast ↔ g.bcaster = some u
  tblLt : usesTbl l.pc = true → l.tbl < g.ntables
  rtblLt : usesRtbl l.pc = true → l.rtbl < g.ntables
  newTLt : usesNewT l.pc = true → l.newT < g.ntables
  framesLt : ∀ f ∈ l.frames, f.tbl < g.ntables

theorem LI.toLIg {u : Tid} {g : G K V} {l : L K V} (h : LI u g l) : LIg u g l :=
  ⟨h.lock, h.mu, h.rsz, h.park, h.bc, h.tblLt, h.rtblLt, h.newTLt, h.framesLt⟩

theorem LIg.toLI {u : Tid} {g : G K V} {l : L K V} (h : LIg u g l) (w : WF l) : LI u g l :=
  ⟨h.lock, h.mu, h.rsz, h.park, h.bc, h.tblLt, h.rtblLt, h.newTLt, h.framesLt, w⟩

def Inv (s : St K V) : Prop := GI s.g ∧ ∀ u, LI u s.g (s.l u)

/-! ## part: WfStep -/

variable (p : Params K)

set_option hygiene false in
local macro "wf_tac" : tactic => `(tactic| (
      have hk := isDcOp_key l.op
      repeat' split at hs
      all_goals simp only [Option.some.injEq, reduceCtorEq, Prod.mk.injEq] at hs
      all_goals obtain ⟨rfl, rfl⟩ := hs
      all_goals (refine ⟨?_, ?_, ?_, ?_, ?_, ?_, ?_, ?_, ?_, ?_, ?_, ?_, ?_⟩)
      all_goals simp_all [inDc, nonDcPc, contsOK, inRz, inWf, beforeFn, postDc, PostOK, opKey_eq, dcFlags_eq, callResize, callWait]))

set_option hygiene false in
local macro "wf_case" n:ident pc:term : command =>
  `(theorem $n {K V : Type} [DecidableEq K] (p : Params K) (t : Tid) (g : G K V) (l : L K V) (c : Choice K V) (g' : G K V) (l' : L K V)
    (hl : WF l) (hpc : l.pc = $pc) (hs : tstep p t g l c = some (g', l')) : WF l' := by
  obtain ⟨h1, h2, h3, h4, h5, h6, h7, h8, h9, h10, h11, h12, h13⟩ := hl
  simp only [tstep, hpc, opKey_eq, dcFlags_eq] at hs
  wf_tac)

set_option hygiene false in
local macro "wf_case_op" n:ident pc:term : command =>
  `(theorem $n {K V : Type} [DecidableEq K] (p : Params K) (t : Tid) (g : G K V) (l : L K V) (c : Choice K V) (g' : G K V) (l' : L K V)
    (hl : WF l) (hpc : l.pc = $pc) (hs : tstep p t g l c = some (g', l')) : WF l' := by
  obtain ⟨h1, h2, h3, h4, h5, h6, h7, h8, h9, h10, h11, h12, h13⟩ := hl
  rcases hop : l.op with _ | (_ | _ | _ | _ | _)
  all_goals simp only [tstep, hpc, opKey_eq, dcFlags_eq, hop] at hs
  all_goals wf_tac)

theorem wf_startOp (l : L K V) (op : POp K V) (hc : l.conts = []) (hle : l.fnCalls ≤ 1) : WF (startOp l op) := by
  rcases op with _ | ⟨_, _, _ | _, _⟩ | _ | _ | _ <;> (refine ⟨?_, ?_, ?_, ?_, ?_, ?_, ?_, ?_, ?_, ?_, ?_, ?_, ?_⟩) <;>
    simp_all [startOp, inDc, nonDcPc, contsOK, inRz, inWf, beforeFn, postDc, PostOK, opKey_eq, dcFlags_eq]

theorem wf_idle (t : Tid) (g : G K V) (l : L K V) (c : Choice K V) (g' : G K V) (l' : L K V)
    (hl : WF l) (hpc : l.pc = .idle) (hs : tstep p t g l c = some (g', l')) : WF l' := by
  simp only [tstep, hpc] at hs
  split at hs
  · simp only [Option.some.injEq, Prod.mk.injEq] at hs
    obtain ⟨rfl, rfl⟩ := hs
    have := hl.cshape
    exact wf_startOp _ _ (by simp_all [contsOK, inRz, inWf]) hl.le
  · simp at hs



theorem conts_cases (l : L K V) (hl : WF l) (h : inRz l.pc = true ∨ inWf l.pc = true) :
    l.conts = [.dcRetry] ∨ l.conts = [.dcDone] ∨ l.conts = [.clDone] ∨ l.conts = [.rzAfterWait, .dcRetry]
      ∨ l.conts = [.rzAfterWait, .dcDone] ∨ l.conts = [.rzAfterWait, .clDone] := by
  have h4 := hl.cshape
  rcases h with h | h
  · have := h4.2.1 h; grind
  · have := h4.2.2 h; grind

theorem popCont_cases (l : L K V) (hl : WF l) (h : inRz l.pc = true ∨ inWf l.pc = true) :
    (popCont l = { l with pc := .dcLoadTable, conts := [] } ∧ .dcRetry ∈ l.conts) ∨
    (popCont l = { l with pc := .ret, conts := [] } ∧ .dcDone ∈ l.conts) ∨
    (popCont l = { l with pc := .ret, conts := [], result := some .unit } ∧ .clDone ∈ l.conts) ∨
    (∃ c, popCont l = { l with pc := .rzCas, conts := [c] } ∧ l.conts = [.rzAfterWait, c] ∧ c ≠ .rzAfterWait) := by
  by_cases hh : l.hint = .clear <;> rcases conts_cases l hl h with hc | hc | hc | hc | hc | hc <;>
    simp [popCont, popCont.popContAux, hc, hh]

theorem wf_popA (l : L K V) (hl : WF l) (hc : .dcRetry ∈ l.conts) :
    WF { l with pc := .dcLoadTable, conts := [] } := by
  obtain ⟨h1, h2, h3, h4, h5, h6, h7, h8, h9, h10, h11, h12, h13⟩ := hl
  (refine ⟨?_, ?_, ?_, ?_, ?_, ?_, ?_, ?_, ?_, ?_, ?_, ?_, ?_⟩) <;>
    simp_all [inDc, nonDcPc, contsOK, inRz, inWf, beforeFn, postDc, PostOK, opKey_eq, dcFlags_eq]

theorem wf_popB (l : L K V) (hl : WF l) (hc : .dcDone ∈ l.conts) :
    WF { l with pc := .ret, conts := [] } := by
  obtain ⟨h1, h2, h3, h4, h5, h6, h7, h8, h9, h10, h11, h12, h13⟩ := hl
  (refine ⟨?_, ?_, ?_, ?_, ?_, ?_, ?_, ?_, ?_, ?_, ?_, ?_, ?_⟩) <;>
    simp_all [inDc, nonDcPc, contsOK, inRz, inWf, beforeFn, postDc, PostOK, opKey_eq, dcFlags_eq]

theorem wf_popC (l : L K V) (hl : WF l) (hc : .clDone ∈ l.conts) :
    WF { l with pc := .ret, conts := [], result := some .unit } := by
  obtain ⟨h1, h2, h3, h4, h5, h6, h7, h8, h9, h10, h11, h12, h13⟩ := hl
  (refine ⟨?_, ?_, ?_, ?_, ?_, ?_, ?_, ?_, ?_, ?_, ?_, ?_, ?_⟩) <;>
    simp_all [inDc, nonDcPc, contsOK, inRz, inWf, beforeFn, postDc, PostOK, opKey_eq, dcFlags_eq]

theorem wf_popD_dcRetry (l : L K V) (hl : WF l) (hc : l.conts = [.rzAfterWait, .dcRetry]) :
    WF { l with pc := .rzCas, conts := [.dcRetry] } := by
  obtain ⟨h1, h2, h3, h4, h5, h6, h7, h8, h9, h10, h11, h12, h13⟩ := hl
  (refine ⟨?_, ?_, ?_, ?_, ?_, ?_, ?_, ?_, ?_, ?_, ?_, ?_, ?_⟩) <;>
    simp_all [inDc, nonDcPc, contsOK, inRz, inWf, beforeFn, postDc, PostOK, opKey_eq, dcFlags_eq]

theorem wf_popD_dcDone (l : L K V) (hl : WF l) (hc : l.conts = [.rzAfterWait, .dcDone]) :
    WF { l with pc := .rzCas, conts := [.dcDone] } := by
  obtain ⟨h1, h2, h3, h4, h5, h6, h7, h8, h9, h10, h11, h12, h13⟩ := hl
  (refine ⟨?_, ?_, ?_, ?_, ?_, ?_, ?_, ?_, ?_, ?_, ?_, ?_, ?_⟩) <;>
    simp_all [inDc, nonDcPc, contsOK, inRz, inWf, beforeFn, postDc, PostOK, opKey_eq, dcFlags_eq]

theorem wf_popD_clDone (l : L K V) (hl : WF l) (hc : l.conts = [.rzAfterWait, .clDone]) :
    WF { l with pc := .rzCas, conts := [.clDone] } := by
  obtain ⟨h1, h2, h3, h4, h5, h6, h7, h8, h9, h10, h11, h12, h13⟩ := hl
  (refine ⟨?_, ?_, ?_, ?_, ?_, ?_, ?_, ?_, ?_, ?_, ?_, ?_, ?_⟩) <;>
    simp_all [inDc, nonDcPc, contsOK, inRz, inWf, beforeFn, postDc, PostOK, opKey_eq, dcFlags_eq]

theorem wf_popD (l : L K V) (hl : WF l) (c : Cont)
    (hc : l.conts = [.rzAfterWait, c]) (hne : c ≠ .rzAfterWait) :
    WF { l with pc := .rzCas, conts := [c] } := by
  cases c
  · exact wf_popD_dcRetry l hl hc
  · exact wf_popD_dcDone l hl hc
  · exact absurd rfl hne
  · exact wf_popD_clDone l hl hc

theorem wf_popCont (l : L K V) (hl : WF l) (h : inRz l.pc = true ∨ inWf l.pc = true) : WF (popCont l) := by
  rcases popCont_cases l hl h with ⟨e, hc⟩ | ⟨e, hc⟩ | ⟨e, hc⟩ | ⟨c, e, hc, hne⟩ <;> rw [e]
  · exact wf_popA l hl hc
  · exact wf_popB l hl hc
  · exact wf_popC l hl hc
  · exact wf_popD l hl c hc hne

wf_case wf_ldTable Pc.ldTable
wf_case_op wf_ldRead Pc.ldRead
wf_case wf_szTable Pc.szTable
wf_case wf_szSum Pc.szSum
wf_case wf_dcFast Pc.dcFast
wf_case wf_dcLoadTable Pc.dcLoadTable
wf_case wf_dcLock Pc.dcLock
wf_case wf_dcChkResizing Pc.dcChkResizing
wf_case wf_dcChkTable Pc.dcChkTable
wf_case wf_dcScan Pc.dcScan
wf_case wf_dcSum Pc.dcSum
wf_case wf_dcFn Pc.dcFn
wf_case wf_dcCommit Pc.dcCommit
wf_case wf_dcUnlock Pc.dcUnlock
wf_case wf_dcAddSize Pc.dcAddSize
wf_case wf_dcMaybeShrink Pc.dcMaybeShrink
wf_case wf_dcUnlockWait Pc.dcUnlockWait
wf_case wf_dcUnlockRetry Pc.dcUnlockRetry
wf_case wf_dcUnlockGrow Pc.dcUnlockGrow
wf_case wf_rzCas Pc.rzCas
wf_case wf_rzLoadTable Pc.rzLoadTable
wf_case wf_rzDecide Pc.rzDecide
wf_case wf_rzDecideSum Pc.rzDecideSum
wf_case wf_rzCopyLock Pc.rzCopyLock
wf_case wf_rzCopyDo Pc.rzCopyDo
wf_case wf_rzCopyUnlock Pc.rzCopyUnlock
wf_case wf_rzPublish Pc.rzPublish
wf_case wf_rzMuLock Pc.rzMuLock
wf_case wf_rzClearFlag Pc.rzClearFlag
wf_case wf_rzBroadcast Pc.rzBroadcast
wf_case wf_wfMuLock Pc.wfMuLock
wf_case wf_wfChk Pc.wfChk
wf_case wf_wfPark Pc.wfPark
wf_case wf_wfRelock Pc.wfRelock
wf_case wf_clTable Pc.clTable
wf_case wf_rgTable Pc.rgTable
wf_case wf_rgLock Pc.rgLock
wf_case wf_rgCopy Pc.rgCopy
wf_case wf_rgUnlock Pc.rgUnlock
wf_case wf_ret Pc.ret

theorem wf_rzFast (t : Tid) (g : G K V) (l : L K V) (c : Choice K V) (g' : G K V) (l' : L K V)
    (hl : WF l) (hpc : l.pc = .rzFast) (hs : tstep p t g l c = some (g', l')) : WF l' := by
  simp only [tstep, hpc] at hs
  repeat' split at hs
  all_goals simp only [Option.some.injEq, Prod.mk.injEq] at hs
  all_goals obtain ⟨rfl, rfl⟩ := hs
  · exact wf_popCont l hl (by simp [hpc, inRz])
  all_goals
    obtain ⟨h1, h2, h3, h4, h5, h6, h7, h8, h9, h10, h11, h12, h13⟩ := hl
    (refine ⟨?_, ?_, ?_, ?_, ?_, ?_, ?_, ?_, ?_, ?_, ?_, ?_, ?_⟩) <;>
      simp_all [inDc, nonDcPc, contsOK, inRz, inWf, beforeFn, postDc, PostOK, opKey_eq, dcFlags_eq]

theorem wf_rzFastSum (t : Tid) (g : G K V) (l : L K V) (c : Choice K V) (g' : G K V) (l' : L K V)
    (hl : WF l) (hpc : l.pc = .rzFastSum) (hs : tstep p t g l c = some (g', l')) : WF l' := by
  simp only [tstep, hpc] at hs
  repeat' split at hs
  all_goals simp only [Option.some.injEq, Prod.mk.injEq] at hs
  all_goals obtain ⟨rfl, rfl⟩ := hs
  case isFalse.isTrue => exact wf_popCont l hl (by simp [hpc, inRz])
  all_goals
    obtain ⟨h1, h2, h3, h4, h5, h6, h7, h8, h9, h10, h11, h12, h13⟩ := hl
    (refine ⟨?_, ?_, ?_, ?_, ?_, ?_, ?_, ?_, ?_, ?_, ?_, ?_, ?_⟩) <;>
      simp_all [inDc, nonDcPc, contsOK, inRz, inWf, beforeFn, postDc, PostOK, opKey_eq, dcFlags_eq]

theorem wf_rzMuUnlock (t : Tid) (g : G K V) (l : L K V) (c : Choice K V) (g' : G K V) (l' : L K V)
    (hl : WF l) (hpc : l.pc = .rzMuUnlock) (hs : tstep p t g l c = some (g', l')) : WF l' := by
  simp only [tstep, hpc, Option.some.injEq, Prod.mk.injEq] at hs
  obtain ⟨rfl, rfl⟩ := hs
  exact wf_popCont l hl (by simp [hpc, inRz])

theorem wf_wfMuUnlock (t : Tid) (g : G K V) (l : L K V) (c : Choice K V) (g' : G K V) (l' : L K V)
    (hl : WF l) (hpc : l.pc = .wfMuUnlock) (hs : tstep p t g l c = some (g', l')) : WF l' := by
  simp only [tstep, hpc, Option.some.injEq, Prod.mk.injEq] at hs
  obtain ⟨rfl, rfl⟩ := hs
  exact wf_popCont l hl (by simp [hpc, inWf])

theorem wf_rgVisit (t : Tid) (g : G K V) (l : L K V) (c : Choice K V) (g' : G K V) (l' : L K V)
    (hl : WF l) (hpc : l.pc = .rgVisit) (hs : tstep p t g l c = some (g', l')) : WF l' := by
  simp only [tstep, hpc] at hs
  split at hs
  · simp only [Option.some.injEq, Prod.mk.injEq] at hs
    obtain ⟨rfl, rfl⟩ := hs
    have := hl.cshape
    exact wf_startOp _ _ (by simp_all [contsOK, inRz, inWf]) hl.le
  · obtain ⟨h1, h2, h3, h4, h5, h6, h7, h8, h9, h10, h11, h12, h13⟩ := hl
    wf_tac

/-- well-formedness of the locals is preserved by every step of the thread -/
theorem wf_step (t : Tid) (g : G K V) (l : L K V) (c : Choice K V) (g' : G K V) (l' : L K V)
    (hl : WF l) (hs : tstep p t g l c = some (g', l')) : WF l' := by
  cases hpc : l.pc
  · exact wf_idle p t g l c g' l' hl hpc hs
  · exact wf_ldTable p t g l c g' l' hl hpc hs
  · exact wf_ldRead p t g l c g' l' hl hpc hs
  · exact wf_szTable p t g l c g' l' hl hpc hs
  · exact wf_szSum p t g l c g' l' hl hpc hs
  · exact wf_dcFast p t g l c g' l' hl hpc hs
  · exact wf_dcLoadTable p t g l c g' l' hl hpc hs
  · exact wf_dcLock p t g l c g' l' hl hpc hs
  · exact wf_dcChkResizing p t g l c g' l' hl hpc hs
  · exact wf_dcChkTable p t g l c g' l' hl hpc hs
  · exact wf_dcScan p t g l c g' l' hl hpc hs
  · exact wf_dcSum p t g l c g' l' hl hpc hs
  · exact wf_dcFn p t g l c g' l' hl hpc hs
  · exact wf_dcCommit p t g l c g' l' hl hpc hs
  · exact wf_dcUnlock p t g l c g' l' hl hpc hs
  · exact wf_dcAddSize p t g l c g' l' hl hpc hs
  · exact wf_dcMaybeShrink p t g l c g' l' hl hpc hs
  · exact wf_dcUnlockWait p t g l c g' l' hl hpc hs
  · exact wf_dcUnlockRetry p t g l c g' l' hl hpc hs
  · exact wf_dcUnlockGrow p t g l c g' l' hl hpc hs
  · exact wf_rzFast p t g l c g' l' hl hpc hs
  · exact wf_rzFastSum p t g l c g' l' hl hpc hs
  · exact wf_rzCas p t g l c g' l' hl hpc hs
  · exact wf_rzLoadTable p t g l c g' l' hl hpc hs
  · exact wf_rzDecide p t g l c g' l' hl hpc hs
  · exact wf_rzDecideSum p t g l c g' l' hl hpc hs
  · exact wf_rzCopyLock p t g l c g' l' hl hpc hs
  · exact wf_rzCopyDo p t g l c g' l' hl hpc hs
  · exact wf_rzCopyUnlock p t g l c g' l' hl hpc hs
  · exact wf_rzPublish p t g l c g' l' hl hpc hs
  · exact wf_rzMuLock p t g l c g' l' hl hpc hs
  · exact wf_rzClearFlag p t g l c g' l' hl hpc hs
  · exact wf_rzBroadcast p t g l c g' l' hl hpc hs
  · exact wf_rzMuUnlock p t g l c g' l' hl hpc hs
  · exact wf_wfMuLock p t g l c g' l' hl hpc hs
  · exact wf_wfChk p t g l c g' l' hl hpc hs
  · exact wf_wfPark p t g l c g' l' hl hpc hs
  · exact wf_wfRelock p t g l c g' l' hl hpc hs
  · exact wf_wfMuUnlock p t g l c g' l' hl hpc hs
  · exact wf_clTable p t g l c g' l' hl hpc hs
  · exact wf_rgTable p t g l c g' l' hl hpc hs
  · exact wf_rgLock p t g l c g' l' hl hpc hs
  · exact wf_rgCopy p t g l c g' l' hl hpc hs
  · exact wf_rgUnlock p t g l c g' l' hl hpc hs
  · exact wf_rgVisit p t g l c g' l' hl hpc hs
  · exact wf_ret p t g l c g' l' hl hpc hs

/-! ## part: Self -/

theorem ite_lock_app (c : Prop) [Decidable c] (a b : PTbl K V) (i : Nat) :
    (if c then a else b).lock i = if c then a.lock i else b.lock i := by split <;> rfl

set_option hygiene false in
local macro "self_tac" : tactic => `(tactic| (
      repeat' split at hs
      all_goals simp only [Option.some.injEq, reduceCtorEq, Prod.mk.injEq] at hs
      all_goals obtain ⟨rfl, rfl⟩ := hs
      all_goals (refine ⟨⟨?_, ?_⟩, ⟨?_, ?_, ?_, ?_, ?_, ?_, ?_, ?_, ?_⟩⟩)
      all_goals simp_all [holdsBucket, holdsMu, isResizer, usesTbl, usesRtbl, usesNewT, setTbl, PTbl.setLock, PTbl.addCtr, emptyTbl, callResize, callWait, ite_lock_app]
      all_goals grind))

set_option hygiene false in
local macro "self_case" n:ident pc:term : command =>
  `(theorem $n {K V : Type} [DecidableEq K] (p : Params K) (t : Tid) (g : G K V) (l : L K V) (c : Choice K V) (g' : G K V) (l' : L K V)
    (hg : GI g) (hl : LIg t g l) (hpc : l.pc = $pc) (hs : tstep p t g l c = some (g', l')) : GI g' ∧ LIg t g' l' := by
  obtain ⟨h1, h2, h3, h4, h5, h6, h7, h8, h9⟩ := hl
  obtain ⟨hg1, hg2⟩ := hg
  simp only [tstep, hpc] at hs
  self_tac)

self_case self_ldTable Pc.ldTable
self_case self_ldRead Pc.ldRead
self_case self_szTable Pc.szTable
self_case self_szSum Pc.szSum
self_case self_dcFast Pc.dcFast
self_case self_dcLoadTable Pc.dcLoadTable
self_case self_dcLock Pc.dcLock
self_case self_dcChkResizing Pc.dcChkResizing
self_case self_dcChkTable Pc.dcChkTable
self_case self_dcScan Pc.dcScan
self_case self_dcSum Pc.dcSum
self_case self_dcFn Pc.dcFn
self_case self_dcCommit Pc.dcCommit
self_case self_dcUnlock Pc.dcUnlock
self_case self_dcAddSize Pc.dcAddSize
self_case self_dcMaybeShrink Pc.dcMaybeShrink
self_case self_dcUnlockWait Pc.dcUnlockWait
self_case self_dcUnlockRetry Pc.dcUnlockRetry
self_case self_dcUnlockGrow Pc.dcUnlockGrow
self_case self_rzCas Pc.rzCas
self_case self_rzLoadTable Pc.rzLoadTable
self_case self_rzDecide Pc.rzDecide
self_case self_rzDecideSum Pc.rzDecideSum
self_case self_rzCopyLock Pc.rzCopyLock
self_case self_rzCopyDo Pc.rzCopyDo
self_case self_rzCopyUnlock Pc.rzCopyUnlock
self_case self_rzPublish Pc.rzPublish
self_case self_rzMuLock Pc.rzMuLock
self_case self_rzClearFlag Pc.rzClearFlag
self_case self_rzBroadcast Pc.rzBroadcast
self_case self_wfMuLock Pc.wfMuLock
self_case self_wfChk Pc.wfChk
self_case self_wfPark Pc.wfPark
self_case self_wfRelock Pc.wfRelock
self_case self_clTable Pc.clTable
self_case self_rgTable Pc.rgTable
self_case self_rgLock Pc.rgLock
self_case self_rgCopy Pc.rgCopy
self_case self_rgUnlock Pc.rgUnlock
self_case self_ret Pc.ret

theorem popContAux_pc (l : L K V) :
    ((popCont.popContAux l).pc = .ret ∨ (popCont.popContAux l).pc = .dcLoadTable) ∧ (popCont.popContAux l).frames = l.frames := by
  unfold popCont.popContAux; split <;> simp

theorem popCont_pc (l : L K V) :
    ((popCont l).pc = .ret ∨ (popCont l).pc = .dcLoadTable ∨ (popCont l).pc = .rzCas) ∧ (popCont l).frames = l.frames := by
  unfold popCont; split <;> (try split) <;> (try simp)
  rename_i cs _ _
  have := popContAux_pc { l with conts := cs }
  grind

theorem startOp_pc (l : L K V) (op : POp K V) :
    ((startOp l op).pc = .ldTable ∨ (startOp l op).pc = .dcFast ∨ (startOp l op).pc = .dcLoadTable ∨ (startOp l op).pc = .szTable
      ∨ (startOp l op).pc = .clTable ∨ (startOp l op).pc = .rgTable) ∧ (startOp l op).frames = l.frames := by
  rcases op with _ | ⟨_, _, _ | _, _⟩ | _ | _ | _ <;> simp [startOp]

/-- a thread at a pc that holds nothing satisfies `LIg` as soon as the globals agree -/
theorem LIg_of_quiet (u : Tid) (g : G K V) (l : L K V)
    (hpc : l.pc = .ret ∨ l.pc = .dcLoadTable ∨ l.pc = .rzCas ∨ l.pc = .ldTable ∨ l.pc = .dcFast ∨ l.pc = .szTable
      ∨ l.pc = .clTable ∨ l.pc = .rgTable)
    (hlock : ∀ T i, (g.tables T).lock i ≠ some u) (hmu : g.mu ≠ some u) (hr : g.resizer ≠ some u)
    (hw : g.waiting u = false) (hb : g.bcaster ≠ some u) (hf : ∀ f ∈ l.frames, f.tbl < g.ntables) : LIg u g l := by
  rcases hpc with h | h | h | h | h | h | h | h <;> (refine ⟨?_, ?_, ?_, ?_, ?_, ?_, ?_, ?_, ?_⟩) <;>
    simp_all [holdsBucket, holdsMu, isResizer, usesTbl, usesRtbl, usesNewT]

theorem self_idle (t : Tid) (g : G K V) (l : L K V) (c : Choice K V) (g' : G K V) (l' : L K V)
    (hg : GI g) (hl : LIg t g l) (hpc : l.pc = .idle) (hs : tstep p t g l c = some (g', l')) : GI g' ∧ LIg t g' l' := by
  obtain ⟨h1, h2, h3, h4, h5, h6, h7, h8, h9⟩ := hl
  simp only [tstep, hpc] at hs
  split at hs
  · simp only [Option.some.injEq, Prod.mk.injEq] at hs
    obtain ⟨rfl, rfl⟩ := hs
    rename_i op _
    obtain ⟨hp, hf⟩ := startOp_pc l op
    refine ⟨hg, LIg_of_quiet _ _ _ (by grind) ?_ ?_ ?_ ?_ ?_ ?_⟩ <;> simp_all [holdsBucket, holdsMu, isResizer]
  · simp at hs

theorem self_rgVisit (t : Tid) (g : G K V) (l : L K V) (c : Choice K V) (g' : G K V) (l' : L K V)
    (hg : GI g) (hl : LIg t g l) (hpc : l.pc = .rgVisit) (hs : tstep p t g l c = some (g', l')) : GI g' ∧ LIg t g' l' := by
  obtain ⟨h1, h2, h3, h4, h5, h6, h7, h8, h9⟩ := hl
  obtain ⟨hg1, hg2⟩ := hg
  simp only [tstep, hpc] at hs
  split at hs
  · simp only [Option.some.injEq, Prod.mk.injEq] at hs
    obtain ⟨rfl, rfl⟩ := hs
    rename_i op _
    obtain ⟨hp, hf⟩ := startOp_pc { l with frames := { tbl := l.tbl, ri := l.ri, snap := l.snap, visited := l.visited } :: l.frames } op
    refine ⟨⟨hg1, hg2⟩, LIg_of_quiet _ _ _ (by grind) ?_ ?_ ?_ ?_ ?_ ?_⟩ <;> simp_all [holdsBucket, holdsMu, isResizer, usesTbl]
  · self_tac

theorem self_popCont (t : Tid) (g' : G K V) (l : L K V) (hg : GI g')
    (hlock : ∀ T i, (g'.tables T).lock i ≠ some t) (hmu : g'.mu ≠ some t) (hr : g'.resizer ≠ some t)
    (hw : g'.waiting t = false) (hb : g'.bcaster ≠ some t) (hf : ∀ f ∈ l.frames, f.tbl < g'.ntables) :
    GI g' ∧ LIg t g' (popCont l) := by
  obtain ⟨hp, hf'⟩ := popCont_pc l
  exact ⟨hg, LIg_of_quiet _ _ _ (by grind) hlock hmu hr hw hb (by rw [hf']; exact hf)⟩

theorem self_rzFast (t : Tid) (g : G K V) (l : L K V) (c : Choice K V) (g' : G K V) (l' : L K V)
    (hg : GI g) (hl : LIg t g l) (hpc : l.pc = .rzFast) (hs : tstep p t g l c = some (g', l')) : GI g' ∧ LIg t g' l' := by
  obtain ⟨h1, h2, h3, h4, h5, h6, h7, h8, h9⟩ := hl
  simp only [tstep, hpc] at hs
  repeat' split at hs
  all_goals simp only [Option.some.injEq, Prod.mk.injEq] at hs
  all_goals obtain ⟨rfl, rfl⟩ := hs
  · apply self_popCont <;> simp_all [holdsBucket, holdsMu, isResizer]
  all_goals
    obtain ⟨hg1, hg2⟩ := hg
    (refine ⟨⟨?_, ?_⟩, ⟨?_, ?_, ?_, ?_, ?_, ?_, ?_, ?_, ?_⟩⟩) <;>
      simp_all [holdsBucket, holdsMu, isResizer, usesTbl, usesRtbl, usesNewT]

theorem self_rzFastSum (t : Tid) (g : G K V) (l : L K V) (c : Choice K V) (g' : G K V) (l' : L K V)
    (hg : GI g) (hl : LIg t g l) (hpc : l.pc = .rzFastSum) (hs : tstep p t g l c = some (g', l')) : GI g' ∧ LIg t g' l' := by
  obtain ⟨h1, h2, h3, h4, h5, h6, h7, h8, h9⟩ := hl
  simp only [tstep, hpc] at hs
  repeat' split at hs
  all_goals simp only [Option.some.injEq, Prod.mk.injEq] at hs
  all_goals obtain ⟨rfl, rfl⟩ := hs
  case isFalse.isTrue => apply self_popCont <;> simp_all [holdsBucket, holdsMu, isResizer]
  all_goals
    obtain ⟨hg1, hg2⟩ := hg
    (refine ⟨⟨?_, ?_⟩, ⟨?_, ?_, ?_, ?_, ?_, ?_, ?_, ?_, ?_⟩⟩) <;>
      simp_all [holdsBucket, holdsMu, isResizer, usesTbl, usesRtbl, usesNewT]

theorem self_rzMuUnlock (t : Tid) (g : G K V) (l : L K V) (c : Choice K V) (g' : G K V) (l' : L K V)
    (hg : GI g) (hl : LIg t g l) (hpc : l.pc = .rzMuUnlock) (hs : tstep p t g l c = some (g', l')) : GI g' ∧ LIg t g' l' := by
  obtain ⟨h1, h2, h3, h4, h5, h6, h7, h8, h9⟩ := hl
  simp only [tstep, hpc, Option.some.injEq, Prod.mk.injEq] at hs
  obtain ⟨rfl, rfl⟩ := hs
  apply self_popCont <;> simp_all [holdsBucket, holdsMu, isResizer, GI]

theorem self_wfMuUnlock (t : Tid) (g : G K V) (l : L K V) (c : Choice K V) (g' : G K V) (l' : L K V)
    (hg : GI g) (hl : LIg t g l) (hpc : l.pc = .wfMuUnlock) (hs : tstep p t g l c = some (g', l')) : GI g' ∧ LIg t g' l' := by
  obtain ⟨h1, h2, h3, h4, h5, h6, h7, h8, h9⟩ := hl
  simp only [tstep, hpc, Option.some.injEq, Prod.mk.injEq] at hs
  obtain ⟨rfl, rfl⟩ := hs
  apply self_popCont <;> simp_all [holdsBucket, holdsMu, isResizer, GI]

theorem self_ok_g (t : Tid) (g : G K V) (l : L K V) (c : Choice K V) (g' : G K V) (l' : L K V)
    (hg : GI g) (hl : LIg t g l) (hs : tstep p t g l c = some (g', l')) : GI g' ∧ LIg t g' l' := by
  cases hpc : l.pc
  · exact self_idle p t g l c g' l' hg hl hpc hs
  · exact self_ldTable p t g l c g' l' hg hl hpc hs
  · exact self_ldRead p t g l c g' l' hg hl hpc hs
  · exact self_szTable p t g l c g' l' hg hl hpc hs
  · exact self_szSum p t g l c g' l' hg hl hpc hs
  · exact self_dcFast p t g l c g' l' hg hl hpc hs
  · exact self_dcLoadTable p t g l c g' l' hg hl hpc hs
  · exact self_dcLock p t g l c g' l' hg hl hpc hs
  · exact self_dcChkResizing p t g l c g' l' hg hl hpc hs
  · exact self_dcChkTable p t g l c g' l' hg hl hpc hs
  · exact self_dcScan p t g l c g' l' hg hl hpc hs
  · exact self_dcSum p t g l c g' l' hg hl hpc hs
  · exact self_dcFn p t g l c g' l' hg hl hpc hs
  · exact self_dcCommit p t g l c g' l' hg hl hpc hs
  · exact self_dcUnlock p t g l c g' l' hg hl hpc hs
  · exact self_dcAddSize p t g l c g' l' hg hl hpc hs
  · exact self_dcMaybeShrink p t g l c g' l' hg hl hpc hs
  · exact self_dcUnlockWait p t g l c g' l' hg hl hpc hs
  · exact self_dcUnlockRetry p t g l c g' l' hg hl hpc hs
  · exact self_dcUnlockGrow p t g l c g' l' hg hl hpc hs
  · exact self_rzFast p t g l c g' l' hg hl hpc hs
  · exact self_rzFastSum p t g l c g' l' hg hl hpc hs
  · exact self_rzCas p t g l c g' l' hg hl hpc hs
  · exact self_rzLoadTable p t g l c g' l' hg hl hpc hs
  · exact self_rzDecide p t g l c g' l' hg hl hpc hs
  · exact self_rzDecideSum p t g l c g' l' hg hl hpc hs
  · exact self_rzCopyLock p t g l c g' l' hg hl hpc hs
  · exact self_rzCopyDo p t g l c g' l' hg hl hpc hs
  · exact self_rzCopyUnlock p t g l c g' l' hg hl hpc hs
  · exact self_rzPublish p t g l c g' l' hg hl hpc hs
  · exact self_rzMuLock p t g l c g' l' hg hl hpc hs
  · exact self_rzClearFlag p t g l c g' l' hg hl hpc hs
  · exact self_rzBroadcast p t g l c g' l' hg hl hpc hs
  · exact self_rzMuUnlock p t g l c g' l' hg hl hpc hs
  · exact self_wfMuLock p t g l c g' l' hg hl hpc hs
  · exact self_wfChk p t g l c g' l' hg hl hpc hs
  · exact self_wfPark p t g l c g' l' hg hl hpc hs
  · exact self_wfRelock p t g l c g' l' hg hl hpc hs
  · exact self_wfMuUnlock p t g l c g' l' hg hl hpc hs
  · exact self_clTable p t g l c g' l' hg hl hpc hs
  · exact self_rgTable p t g l c g' l' hg hl hpc hs
  · exact self_rgLock p t g l c g' l' hg hl hpc hs
  · exact self_rgCopy p t g l c g' l' hg hl hpc hs
  · exact self_rgUnlock p t g l c g' l' hg hl hpc hs
  · exact self_rgVisit p t g l c g' l' hg hl hpc hs
  · exact self_ret p t g l c g' l' hg hl hpc hs

/-! ## part: Other -/

theorem holds_lt {u : Tid} {g : G K V} {m : L K V} (hm : LIg u g m) (T i : Nat)
    (h : holdsBucket m = some (T, i)) : T < g.ntables := by
  have h6 := hm.tblLt; have h7 := hm.rtblLt
  unfold holdsBucket at h
  split at h <;> simp_all [usesTbl, usesRtbl] <;> omega

theorem holdsMu_bc (pc : Pc) (h : pc = .rzBroadcast) : holdsMu pc = true := by subst h; rfl

set_option hygiene false in
local macro "other_tac" : tactic => `(tactic| (
      repeat' split at hs
      all_goals simp only [Option.some.injEq, reduceCtorEq, Prod.mk.injEq] at hs
      all_goals obtain ⟨rfl, rfl⟩ := hs
      all_goals (refine ⟨?_, ?_, ?_, ?_, ?_, ?_, ?_, ?_, ?_⟩)
      all_goals (try simp only [setTbl, PTbl.setLock, PTbl.addCtr, emptyTbl, ite_lock_app])
      all_goals grind))

set_option hygiene false in
local macro "other_case" n:ident pc:term : command =>
  `(theorem $n {K V : Type} [DecidableEq K] (p : Params K) (t u : Tid) (g : G K V) (l m : L K V) (c : Choice K V) (g' : G K V) (l' : L K V)
    (hne : u ≠ t) (hg : GI g) (hl : LIg t g l) (hm : LIg u g m) (hpc : l.pc = $pc) (hs : tstep p t g l c = some (g', l')) : LIg u g' m := by
  have mlt := holds_lt hm
  have hbm := holdsMu_bc m.pc
  obtain ⟨h1, h2, h3, h4, h5, h6, h7, h8, h9⟩ := hl
  simp only [holdsBucket, holdsMu, isResizer, usesTbl, usesRtbl, usesNewT, hpc] at h1 h2 h3 h4 h5 h6 h7 h8
  obtain ⟨m1, m2, m3, m4, m5, m6, m7, m8, m9⟩ := hm
  obtain ⟨hg1, hg2⟩ := hg
  simp only [tstep, hpc] at hs
  other_tac)

other_case other_idle Pc.idle
other_case other_ldTable Pc.ldTable
other_case other_ldRead Pc.ldRead
other_case other_szTable Pc.szTable
other_case other_szSum Pc.szSum
other_case other_dcFast Pc.dcFast
other_case other_dcLoadTable Pc.dcLoadTable
other_case other_dcLock Pc.dcLock
other_case other_dcChkResizing Pc.dcChkResizing
other_case other_dcChkTable Pc.dcChkTable
other_case other_dcScan Pc.dcScan
other_case other_dcSum Pc.dcSum
other_case other_dcFn Pc.dcFn
other_case other_dcCommit Pc.dcCommit
other_case other_dcUnlock Pc.dcUnlock
other_case other_dcAddSize Pc.dcAddSize
other_case other_dcMaybeShrink Pc.dcMaybeShrink
other_case other_dcUnlockWait Pc.dcUnlockWait
other_case other_dcUnlockRetry Pc.dcUnlockRetry
other_case other_dcUnlockGrow Pc.dcUnlockGrow
other_case other_rzFast Pc.rzFast
other_case other_rzFastSum Pc.rzFastSum
other_case other_rzCas Pc.rzCas
other_case other_rzLoadTable Pc.rzLoadTable
other_case other_rzDecide Pc.rzDecide
other_case other_rzDecideSum Pc.rzDecideSum
other_case other_rzCopyLock Pc.rzCopyLock
other_case other_rzCopyDo Pc.rzCopyDo
other_case other_rzCopyUnlock Pc.rzCopyUnlock
other_case other_rzPublish Pc.rzPublish
other_case other_rzMuLock Pc.rzMuLock
other_case other_rzClearFlag Pc.rzClearFlag
other_case other_rzBroadcast Pc.rzBroadcast
other_case other_rzMuUnlock Pc.rzMuUnlock
other_case other_wfMuLock Pc.wfMuLock
other_case other_wfChk Pc.wfChk
other_case other_wfPark Pc.wfPark
other_case other_wfRelock Pc.wfRelock
other_case other_wfMuUnlock Pc.wfMuUnlock
other_case other_clTable Pc.clTable
other_case other_rgTable Pc.rgTable
other_case other_rgLock Pc.rgLock
other_case other_rgCopy Pc.rgCopy
other_case other_rgUnlock Pc.rgUnlock
other_case other_rgVisit Pc.rgVisit
other_case other_ret Pc.ret

theorem other_ok_g (t u : Tid) (g : G K V) (l m : L K V) (c : Choice K V) (g' : G K V) (l' : L K V) (hne : u ≠ t)
    (hg : GI g) (hl : LIg t g l) (hm : LIg u g m) (hs : tstep p t g l c = some (g', l')) : LIg u g' m := by
  cases hpc : l.pc
  · exact other_idle p t u g l m c g' l' hne hg hl hm hpc hs
  · exact other_ldTable p t u g l m c g' l' hne hg hl hm hpc hs
  · exact other_ldRead p t u g l m c g' l' hne hg hl hm hpc hs
  · exact other_szTable p t u g l m c g' l' hne hg hl hm hpc hs
  · exact other_szSum p t u g l m c g' l' hne hg hl hm hpc hs
  · exact other_dcFast p t u g l m c g' l' hne hg hl hm hpc hs
  · exact other_dcLoadTable p t u g l m c g' l' hne hg hl hm hpc hs
  · exact other_dcLock p t u g l m c g' l' hne hg hl hm hpc hs
  · exact other_dcChkResizing p t u g l m c g' l' hne hg hl hm hpc hs
  · exact other_dcChkTable p t u g l m c g' l' hne hg hl hm hpc hs
  · exact other_dcScan p t u g l m c g' l' hne hg hl hm hpc hs
  · exact other_dcSum p t u g l m c g' l' hne hg hl hm hpc hs
  · exact other_dcFn p t u g l m c g' l' hne hg hl hm hpc hs
  · exact other_dcCommit p t u g l m c g' l' hne hg hl hm hpc hs
  · exact other_dcUnlock p t u g l m c g' l' hne hg hl hm hpc hs
  · exact other_dcAddSize p t u g l m c g' l' hne hg hl hm hpc hs
  · exact other_dcMaybeShrink p t u g l m c g' l' hne hg hl hm hpc hs
  · exact other_dcUnlockWait p t u g l m c g' l' hne hg hl hm hpc hs
  · exact other_dcUnlockRetry p t u g l m c g' l' hne hg hl hm hpc hs
  · exact other_dcUnlockGrow p t u g l m c g' l' hne hg hl hm hpc hs
  · exact other_rzFast p t u g l m c g' l' hne hg hl hm hpc hs
  · exact other_rzFastSum p t u g l m c g' l' hne hg hl hm hpc hs
  · exact other_rzCas p t u g l m c g' l' hne hg hl hm hpc hs
  · exact other_rzLoadTable p t u g l m c g' l' hne hg hl hm hpc hs
  · exact other_rzDecide p t u g l m c g' l' hne hg hl hm hpc hs
  · exact other_rzDecideSum p t u g l m c g' l' hne hg hl hm hpc hs
  · exact other_rzCopyLock p t u g l m c g' l' hne hg hl hm hpc hs
  · exact other_rzCopyDo p t u g l m c g' l' hne hg hl hm hpc hs
  · exact other_rzCopyUnlock p t u g l m c g' l' hne hg hl hm hpc hs
  · exact other_rzPublish p t u g l m c g' l' hne hg hl hm hpc hs
  · exact other_rzMuLock p t u g l m c g' l' hne hg hl hm hpc hs
  · exact other_rzClearFlag p t u g l m c g' l' hne hg hl hm hpc hs
  · exact other_rzBroadcast p t u g l m c g' l' hne hg hl hm hpc hs
  · exact other_rzMuUnlock p t u g l m c g' l' hne hg hl hm hpc hs
  · exact other_wfMuLock p t u g l m c g' l' hne hg hl hm hpc hs
  · exact other_wfChk p t u g l m c g' l' hne hg hl hm hpc hs
  · exact other_wfPark p t u g l m c g' l' hne hg hl hm hpc hs
  · exact other_wfRelock p t u g l m c g' l' hne hg hl hm hpc hs
  · exact other_wfMuUnlock p t u g l m c g' l' hne hg hl hm hpc hs
  · exact other_clTable p t u g l m c g' l' hne hg hl hm hpc hs
  · exact other_rgTable p t u g l m c g' l' hne hg hl hm hpc hs
  · exact other_rgLock p t u g l m c g' l' hne hg hl hm hpc hs
  · exact other_rgCopy p t u g l m c g' l' hne hg hl hm hpc hs
  · exact other_rgUnlock p t u g l m c g' l' hne hg hl hm hpc hs
  · exact other_rgVisit p t u g l m c g' l' hne hg hl hm hpc hs
  · exact other_ret p t u g l m c g' l' hne hg hl hm hpc hs

/-! ## part: Main -/

theorem wf_init : WF (L.init : L K V) := by
  refine ⟨?_, ?_, ?_, ?_, ?_, ?_, ?_, ?_, ?_, ?_, ?_, ?_, ?_⟩ <;>
    simp [L.init, inDc, nonDcPc, contsOK, inRz, inWf, beforeFn, postDc]

theorem inv_init : Inv (init (V := V) p) := by
  refine ⟨⟨by simp [init], by simp [init]⟩, fun u => LIg.toLI ?_ wf_init⟩
  refine ⟨?_, ?_, ?_, ?_, ?_, ?_, ?_, ?_, ?_⟩ <;>
    simp [init, L.init, emptyTbl, holdsBucket, holdsMu, isResizer, usesTbl, usesRtbl, usesNewT]

theorem self_ok (t : Tid) (g : G K V) (l : L K V) (c : Choice K V) (g' : G K V) (l' : L K V)
    (hg : GI g) (hl : LI t g l) (hs : tstep p t g l c = some (g', l')) : GI g' ∧ LI t g' l' := by
  have h := self_ok_g p t g l c g' l' hg hl.toLIg hs
  exact ⟨h.1, h.2.toLI (wf_step p t g l c g' l' hl.wf hs)⟩

theorem other_ok (t u : Tid) (g : G K V) (l m : L K V) (c : Choice K V) (g' : G K V) (l' : L K V) (hne : u ≠ t)
    (hg : GI g) (hl : LI t g l) (hm : LI u g m) (hs : tstep p t g l c = some (g', l')) : LI u g' m :=
  (other_ok_g p t u g l m c g' l' hne hg hl.toLIg hm.toLIg hs).toLI hm.wf

theorem inv_step (s s' : St K V) (t : Tid) (c : Choice K V) (h : Inv s) (hs : step p s t c = some s') : Inv s' := by
  unfold step at hs
  split at hs
  · simp at hs
  · rename_i g' l' heq
    simp only [Option.some.injEq] at hs; subst hs
    have := self_ok p t s.g (s.l t) c g' l' h.1 (h.2 t) heq
    refine ⟨this.1, fun u => ?_⟩
    by_cases hu : u = t
    · subst hu; simpa using this.2
    · simpa [hu] using other_ok p t u s.g (s.l t) (s.l u) c g' l' hu h.1 (h.2 t) (h.2 u) heq

theorem inv_run (sched : List (Tid × Choice K V)) (s s' : St K V) (h : Inv s) (hr : run p s sched = some s') : Inv s' := by
  induction sched generalizing s with
  | nil => simp only [run, Option.some.injEq] at hr; subst hr; exact h
  | cons a rest ih =>
    obtain ⟨t, c⟩ := a
    simp only [run] at hr
    split at hr
    · rename_i s1 heq
      exact ih s1 (inv_step p s s1 t c h heq) hr
    · simp at hr

/-- every reachable state satisfies the invariant -/
theorem inv_reach (s : St K V) (h : Reach p s) : Inv s := by
  obtain ⟨sched, hr⟩ := h
  exact inv_run p sched _ s (inv_init p) hr

/-! ### corollaries used by the property files -/

/-- **mutual exclusion** of every bucket lock -/
theorem mutex (s : St K V) (h : Reach p s) (t u : Tid) (T i : Nat)
    (ht : holdsBucket (s.l t) = some (T, i)) (hu : holdsBucket (s.l u) = some (T, i)) : t = u := by
  have hi := inv_reach p s h
  have a := ((hi.2 t).lock T i).mpr ht
  have b := ((hi.2 u).lock T i).mpr hu
  rw [a] at b; exact Option.some.inj b

/-- **every internal lock is released on every return path**: a thread that is idle, returning, or inside a
Range visitor holds no bucket lock, not `resizeMu`, and not the `resizing` flag -/
theorem locks_released (s : St K V) (h : Reach p s) (u : Tid)
    (hpc : (s.l u).pc = .idle ∨ (s.l u).pc = .ret ∨ (s.l u).pc = .rgVisit) :
    (∀ T i, (s.g.tables T).lock i ≠ some u) ∧ s.g.mu ≠ some u ∧ s.g.resizer ≠ some u := by
  have hi := (inv_reach p s h).2 u
  refine ⟨fun T i hc => ?_, fun hc => ?_, fun hc => ?_⟩
  · have := (hi.lock T i).mp hc
    rcases hpc with e | e | e <;> simp [holdsBucket, e] at this
  · have := hi.mu.mp hc
    rcases hpc with e | e | e <;> simp [holdsMu, e] at this
  · have := hi.rsz.mp hc
    rcases hpc with e | e | e <;> simp [isResizer, e] at this

/-- **no lost wake-up**: whoever is parked on the condition variable is waiting for a resize that is still
in progress, or the broadcast that wakes it is the very next step of the thread holding `resizeMu` -/
theorem no_lost_wakeup (s : St K V) (h : Reach p s) (u : Tid) (hw : s.g.waiting u = true) :
    (s.l u).pc = .wfPark ∧ (s.g.resizing = true ∨ ∃ b, (s.l b).pc = .rzBroadcast) := by
  have hi := inv_reach p s h
  obtain ⟨h1, h2⟩ := (hi.2 u).park hw
  refine ⟨h1, ?_⟩
  rcases h2 with hf | hb
  · exact Or.inl hf
  · right
    cases hbo : s.g.bcaster with
    | none => simp [hbo] at hb
    | some b => exact ⟨b, ((hi.2 b).bc).mpr hbo⟩

/-- the lookup pcs (`Load`, `Size`, the lock-free fast path of LoadOrStore/LoadOrCompute) are never blocked:
no guard of theirs depends on another thread -/
theorem reader_never_blocked (t : Tid) (g : G K V) (l : L K V) (c : Choice K V)
    (hpc : l.pc = .ldTable ∨ l.pc = .szTable ∨ l.pc = .szSum ∨ l.pc = .dcFast ∨ (l.pc = .ldRead ∧ (opKey l).isSome)) :
    (tstep p t g l c).isSome := by
  rcases hpc with e | e | e | e | ⟨e, hk⟩ <;> simp only [tstep, e] <;> try rfl
  · split <;> rfl
  cases hk' : opKey l with
  | none => simp [hk'] at hk
  | some k =>
    dsimp only
    split <;> (try split) <;> rfl

/-- the steps of a lookup change nothing shared (they take no lock and write nothing) -/
theorem reader_writes_nothing (t : Tid) (g : G K V) (l : L K V) (c : Choice K V) (g' : G K V) (l' : L K V)
    (hpc : l.pc = .ldTable ∨ l.pc = .ldRead ∨ l.pc = .szTable ∨ l.pc = .szSum ∨ l.pc = .dcFast)
    (hs : tstep p t g l c = some (g', l')) : g' = g := by
  rcases hpc with e | e | e | e | e <;> simp only [tstep, e] at hs <;>
    (repeat' split at hs) <;> simp only [Option.some.injEq, reduceCtorEq, Prod.mk.injEq] at hs <;> exact hs.1.symm

/-! ## part: Dead -/

/-- the guards of `tstep`: a well-formed thread that is not idle is enabled unless it waits for a bucket lock,
for `resizeMu`, or is parked on the condition variable -/
theorem tstep_isSome (t : Tid) (g : G K V) (l : L K V) (c : Choice K V) (hw : WF l)
    (hidle : l.pc ≠ .idle)
    (h1 : l.pc = .dcLock → (g.tables l.tbl).lock l.bi = none)
    (h2 : l.pc = .rzCopyLock → l.ci < (g.tables l.rtbl).len → (g.tables l.rtbl).lock l.ci = none)
    (h3 : l.pc = .rgLock → l.ri < (g.tables l.tbl).len → (g.tables l.tbl).lock l.ri = none)
    (h4 : (l.pc = .rzMuLock ∨ l.pc = .wfMuLock ∨ l.pc = .wfRelock) → g.mu = none)
    (h5 : l.pc = .wfPark → g.waiting t = false) : (tstep p t g l c).isSome = true := by
  have hk := isDcOp_key l.op
  have hd := hw.dcop
  have hl := hw.ldkey
  have hc := hw.cm
  cases hpc : l.pc <;> simp only [tstep, hpc, opKey_eq] <;> simp only [hpc, opKey_eq, inDc] at * <;> try rfl
  case dcFn =>
    obtain ⟨k, f, lie, co, hop⟩ := isDcOp_cases l.op (hd trivial)
    simp [hop]
  case dcCommit =>
    obtain ⟨k, f, lie, co, hop⟩ := isDcOp_cases l.op (hd trivial)
    obtain ⟨-, hc⟩ := hc trivial
    cases hf : l.fnres with
    | none => simp [hf] at hc
    | some r =>
      obtain ⟨nv, del⟩ := r
      simp only [hop, keyOf_dc]
      (repeat' split) <;> rfl
  all_goals (try (repeat' split) <;> first | rfl | simp_all | skip)

theorem step_isSome_of (s : St K V) (u : Tid) (c : Choice K V) (h : (tstep p u s.g (s.l u) c).isSome = true) :
    (step p s u c).isSome = true := by
  unfold step
  split
  · rename_i heq; simp [heq] at h
  · rfl

/-- thread `u` is inside a call, not in a Range visitor, and enabled whatever the environment input -/
def Live (s : St K V) (u : Tid) : Prop :=
  (s.l u).pc ≠ .idle ∧ (s.l u).pc ≠ .rgVisit ∧ ∀ c, (step p s u c).isSome = true

theorem live_of_pcs (s : St K V) (hi : Inv s) (w : Tid)
    (hpc : holdsMu (s.l w).pc = true ∨ (holdsBucket (s.l w)).isSome = true ∨ (s.l w).pc = .rzBroadcast) : Live p s w := by
  have hw := (hi.2 w).wf
  refine ⟨?_, ?_, fun c => step_isSome_of p s w c (tstep_isSome p w s.g (s.l w) c hw ?_ ?_ ?_ ?_ ?_ ?_)⟩ <;>
    (intro e; revert hpc; first | (rcases e with e | e | e <;> simp [holdsMu, holdsBucket, e]) | simp [holdsMu, holdsBucket, e])

theorem live_mu (s : St K V) (hi : Inv s) (w : Tid) (h : s.g.mu = some w) : Live p s w :=
  live_of_pcs p s hi w (Or.inl ((hi.2 w).mu.mp h))

theorem live_lock (s : St K V) (hi : Inv s) (w : Tid) (T i : Nat) (h : (s.g.tables T).lock i = some w) : Live p s w :=
  live_of_pcs p s hi w (Or.inr (Or.inl (by rw [((hi.2 w).lock T i).mp h]; rfl)))

theorem live_bc (s : St K V) (hi : Inv s) (w : Tid) (h : s.g.bcaster = some w) : Live p s w :=
  live_of_pcs p s hi w (Or.inr (Or.inr ((hi.2 w).bc.mpr h)))

/-- a thread inside a call that is not parked is enabled, or waits for a lock whose holder is enabled -/
theorem live_unparked (s : St K V) (hi : Inv s) (u : Tid)
    (h1 : (s.l u).pc ≠ .idle) (h2 : (s.l u).pc ≠ .rgVisit) (h3 : (s.l u).pc = .wfPark → s.g.waiting u = false) :
    ∃ w, Live p s w := by
  by_cases hm : ((s.l u).pc = .rzMuLock ∨ (s.l u).pc = .wfMuLock ∨ (s.l u).pc = .wfRelock) ∧ s.g.mu ≠ none
  · cases hmu : s.g.mu with
    | none => exact absurd hmu hm.2
    | some w => exact ⟨w, live_mu p s hi w hmu⟩
  by_cases ha : (s.l u).pc = .dcLock ∧ (s.g.tables (s.l u).tbl).lock (s.l u).bi ≠ none
  · cases hlk : (s.g.tables (s.l u).tbl).lock (s.l u).bi with
    | none => exact absurd hlk ha.2
    | some w => exact ⟨w, live_lock p s hi w _ _ hlk⟩
  by_cases hb : (s.l u).pc = .rzCopyLock ∧ (s.g.tables (s.l u).rtbl).lock (s.l u).ci ≠ none
  · cases hlk : (s.g.tables (s.l u).rtbl).lock (s.l u).ci with
    | none => exact absurd hlk hb.2
    | some w => exact ⟨w, live_lock p s hi w _ _ hlk⟩
  by_cases hc : (s.l u).pc = .rgLock ∧ (s.g.tables (s.l u).tbl).lock (s.l u).ri ≠ none
  · cases hlk : (s.g.tables (s.l u).tbl).lock (s.l u).ri with
    | none => exact absurd hlk hc.2
    | some w => exact ⟨w, live_lock p s hi w _ _ hlk⟩
  refine ⟨u, h1, h2, fun c => step_isSome_of p s u c (tstep_isSome p u s.g (s.l u) c (hi.2 u).wf h1 ?_ ?_ ?_ ?_ h3)⟩
  · intro e; exact Classical.byContradiction fun hn => ha ⟨e, hn⟩
  · intro e _; exact Classical.byContradiction fun hn => hb ⟨e, hn⟩
  · intro e _; exact Classical.byContradiction fun hn => hc ⟨e, hn⟩
  · intro e; exact Classical.byContradiction fun hn => hm ⟨e, hn⟩

/-- **deadlock freedom, strong form**: if some thread is inside a call (and not sitting in a Range visitor), then
some thread that is itself inside a call (and not in a visitor) is enabled, for every environment input -/
theorem deadlock_free_strong (s : St K V) (h : Reach p s) (t : Tid)
    (hmid : (s.l t).pc ≠ .idle ∧ (s.l t).pc ≠ .rgVisit) : ∃ u, Live p s u := by
  have hi := inv_reach p s h
  by_cases hp : (s.l t).pc = .wfPark ∧ s.g.waiting t = true
  · rcases ((hi.2 t).park hp.2).2 with hr | hb
    · -- the resize is still in progress: its owner is not parked
      have := hi.1.1.mp hr
      cases hrz : s.g.resizer with
      | none => simp [hrz] at this
      | some r =>
        have hpc := (hi.2 r).rsz.mp hrz
        apply live_unparked p s hi r <;> (intro e; simp [isResizer, e] at hpc)
    · cases hbo : s.g.bcaster with
      | none => simp [hbo] at hb
      | some b => exact ⟨b, live_bc p s hi b hbo⟩
  · exact live_unparked p s hi t hmid.1 hmid.2 (fun e => by
      cases hw : s.g.waiting t with
      | false => rfl
      | true => exact absurd ⟨e, hw⟩ hp)

/-- **deadlock freedom**: in every reachable state in which some thread is inside a call (not idle, and not
sitting in a Range visitor waiting for the visitor's next move), some thread can take a step.  (A blocked
step is `none`; there are no spinning self-loops in the model.)  Corollary of `deadlock_free_strong`, which
also says that the enabled thread is itself inside a call — so this is not the trivial "an idle thread can
always start a new call". -/
theorem deadlock_free (s : St K V) (h : Reach p s) (t : Tid)
    (hmid : (s.l t).pc ≠ .idle ∧ (s.l t).pc ≠ .rgVisit) :
    ∃ u c s', step p s u c = some s' := by
  obtain ⟨u, -, -, hu⟩ := deadlock_free_strong p s h t hmid
  have := hu {}
  cases hs : step p s u {} with
  | none => simp [hs] at this
  | some s' => exact ⟨u, {}, s', hs⟩

/-! ## part: Fn -/

/-! ### the user function is called at most once per call (C05) -/

/-- the user function runs at most once in a call (`fnCalls` is reset by `startOp` of every `doCompute` call) -/
theorem fn_at_most_once (s : St K V) (h : Reach p s) (u : Tid) : (s.l u).fnCalls ≤ 1 :=
  ((inv_reach p s h).2 u).wf.le

/-- a call without the lock-free fast path (Store, LoadAndStore, Compute, LoadAndDelete, Delete) invokes its
function exactly once, whatever retries a concurrent resize forced -/
theorem fn_exactly_once_no_lie (s : St K V) (h : Reach p s) (u : Tid) (k : K) (f : Option V → V × Bool) (co : Bool)
    (hop : (s.l u).op = some (.dc k f false co)) (hpc : (s.l u).pc = .ret) : (s.l u).fnCalls = 1 := by
  have hw := ((inv_reach p s h).2 u).wf
  have := (hw.post (Or.inr (Or.inr (Or.inr (Or.inl ⟨hpc, by rw [hop]; rfl⟩))))).1
  apply this
  simp [dcFlags_eq, hop]

/-- LoadOrStore / LoadOrCompute: the function runs iff the call reports `loaded = false` -/
theorem fn_iff_not_loaded (s : St K V) (h : Reach p s) (u : Tid) (k : K) (f : Option V → V × Bool)
    (hop : (s.l u).op = some (.dc k f true false)) (hpc : (s.l u).pc = .ret) :
    ∀ v flag, (s.l u).result = some (.val v flag) → ((s.l u).fnCalls = 0 ↔ flag = true) := by
  have hw := ((inv_reach p s h).2 u).wf
  have := (hw.post (Or.inr (Or.inr (Or.inr (Or.inl ⟨hpc, by rw [hop]; rfl⟩))))).2
  apply this <;> simp [dcFlags_eq, hop]

/-- **no retry after the user function ran**: at every pc of `doCompute` from which the call can still go back to
`compute_attempt` (`beforeFn`, which contains `.dcLoadTable` and `.dcLock`; the pc `.dcFn` itself; the lock-free
fast path; and anywhere inside `resize` / `waitForResize` with `.dcRetry` on the continuation stack) the function
has not been called yet -/
theorem no_retry_after_fn (s : St K V) (h : Reach p s) (u : Tid)
    (hpc : beforeFn (s.l u).pc = true ∨ (s.l u).pc = .dcFn ∨ ((s.l u).pc = .ldRead ∧ isDcOp (s.l u).op = true)
      ∨ .dcRetry ∈ (s.l u).conts) : (s.l u).fnCalls = 0 := by
  have hw := ((inv_reach p s h).2 u).wf
  rcases hpc with e | e | ⟨e, e'⟩ | e
  · exact hw.pre (Or.inl e)
  · exact hw.pre (Or.inr e)
  · exact (hw.ldpre e e').1
  · exact (hw.retry e).2

/-- the same, read the other way: once the function has run in this call, the thread is at none of the pcs
that precede the call of the function, and no `.dcRetry` continuation is pending -/
theorem no_retry_after_fn' (s : St K V) (h : Reach p s) (u : Tid) (hfn : (s.l u).fnCalls = 1) :
    beforeFn (s.l u).pc = false ∧ (s.l u).pc ≠ .dcLoadTable ∧ (s.l u).pc ≠ .dcLock ∧ (s.l u).pc ≠ .dcFn
      ∧ .dcRetry ∉ (s.l u).conts := by
  have key := no_retry_after_fn p s h u
  refine ⟨?_, ?_, ?_, ?_, ?_⟩
  · cases hb : beforeFn (s.l u).pc with
    | false => rfl
    | true => have := key (Or.inl hb); omega
  · intro e; have := key (Or.inl (by rw [e]; rfl)); omega
  · intro e; have := key (Or.inl (by rw [e]; rfl)); omega
  · intro e; have := key (Or.inr (Or.inl e)); omega
  · intro e; have := key (Or.inr (Or.inr (Or.inr e))); omega

/-- at `.dcCommit` (the linearization point of a writer) the function has run exactly once -/
theorem fn_once_at_commit (s : St K V) (h : Reach p s) (u : Tid) (hpc : (s.l u).pc = .dcCommit) :
    (s.l u).fnCalls = 1 ∧ (s.l u).fnres.isSome = true :=
  ((inv_reach p s h).2 u).wf.cm hpc

end Proofs.ProtoLocks
