import CacheVerif.Model.Cache
import CacheVerif.Spec.TTL
import CacheVerif.Proofs.AMapFilter
import CacheVerif.Proofs.LeafCache
/-!
# M2 (`Model.Cache`) refines `Spec.TTL`

`abs` drops the entries that are expired at the state's clock.  Every step of the model is a step of the
spec on the abstract state with the same logical result and the same user-function invocations.
-/
set_option linter.unusedSectionVars false
namespace Proofs.CacheRefine
open Spec Spec.AMap Model Model.Cache Proofs.LeafCache

variable {K V : Type} [DecidableEq K] [Inhabited V]

/-- not expired at `now` -/
def liveAt (now : Int) (i : Item V) : Bool := !TTL.expired i.e now

def abs (s : St K V) : TTL.St K V :=
  { live := vfilter s.items (liveAt s.now), now := s.now, dflt := s.dflt, cb := s.cb }

/-- representation invariant of M2 -/
structure WF (s : St K V) : Prop where
  nodup : AMap.WF s.items
  epos : ∀ p ∈ s.items, 0 ≤ p.2.e
  now0 : 0 ≤ s.now

/-- what a call reports about the logical content (`Count` is a physical quantity, see C08) -/
def logical : Out K V → Out K V
  | .count _ => .unit
  | o => o

theorem expired_eq (s : St K V) (i : Item V) : Cache.expired s i = TTL.expired i.e s.now := by
  simp [Cache.expired, item_expired_eq]

theorem expiration_eq' (s : St K V) (d : Int) : Cache.expiration s d = TTL.expiration d s.dflt s.now := by
  simp [Cache.expiration, LeafCache.expiration_eq]

/-- a freshly computed expiration instant is never in the past of the clock it was computed at -/
theorem fresh_live (s : St K V) (d : Int) (v : V) : liveAt s.now (⟨v, TTL.expiration d s.dflt s.now⟩ : Item V) = true := by
  simp only [liveAt, TTL.expired, TTL.expiration]
  split <;> simp <;> omega

theorem abs_get (s : St K V) (h : WF s) (k : K) :
    (abs s).live.get k = match s.items.get k with
      | some i => if TTL.expired i.e s.now then none else some i
      | none => none := by
  simp only [abs]
  rw [get_vfilter _ h.nodup]
  cases s.items.get k with
  | none => rfl
  | some i => simp only [liveAt]; by_cases he : TTL.expired i.e s.now = true <;> simp [he]

theorem WF_set (s : St K V) (h : WF s) (k : K) (i : Item V) (hi : 0 ≤ i.e) : WF { s with items := s.items.set k i } := by
  refine ⟨AMap.WF_set _ _ _ h.nodup, ?_, h.now0⟩
  intro p hp
  rcases (mem_set _ _ _ _).mp hp with rfl | ⟨hp, _⟩
  · exact hi
  · exact h.epos p hp

theorem WF_erase (s : St K V) (h : WF s) (k : K) : WF { s with items := s.items.erase k } := by
  refine ⟨AMap.WF_erase _ _ h.nodup, ?_, h.now0⟩
  intro p hp
  exact h.epos p ((mem_erase _ _ _).mp hp).1

theorem abs_set_fresh (s : St K V) (k : K) (v : V) (d : Int) :
    abs { s with items := s.items.set k ⟨v, TTL.expiration d s.dflt s.now⟩ } = TTL.storeItem (abs s) k v d := by
  simp only [abs, TTL.storeItem, vfilter_set, fresh_live, if_true]

theorem abs_erase (s : St K V) (k : K) :
    abs { s with items := s.items.erase k } = { abs s with live := (abs s).live.erase k } := by
  simp only [abs, vfilter_erase]

/-- erasing an expired (or absent) key is invisible -/
theorem abs_erase_dead (s : St K V) (h : WF s) (k : K)
    (hd : ∀ i, s.items.get k = some i → TTL.expired i.e s.now = true) :
    abs { s with items := s.items.erase k } = abs s := by
  rw [abs_erase]
  have : (abs s).live.get k = none := by
    rw [abs_get s h]
    cases hg : s.items.get k with
    | none => rfl
    | some i => simp [hd i hg]
  rw [erase_of_get_none _ _ this]

/-! ## Simulation up to extensional equality

The order of an association list is not observable through the API (Go leaves `Range` order unspecified),
so the abstract state is related to the model state through `get` only. -/

/-- the live binding of `k` in the model state -/
def lget (s : St K V) (k : K) : Option (Item V) :=
  match s.items.get k with
  | some i => if TTL.expired i.e s.now then none else some i
  | none => none

structure Sim (s : St K V) (a : TTL.St K V) : Prop where
  wf : WF s
  awf : AMap.WF a.live
  now : a.now = s.now
  dflt : a.dflt = s.dflt
  cb : a.cb = s.cb
  get : ∀ k, a.live.get k = lget s k

theorem sim_abs (s : St K V) (h : WF s) : Sim s (abs s) :=
  ⟨h, WF_vfilter _ _ h.nodup, rfl, rfl, rfl, fun k => abs_get s h k⟩

theorem lget_set (s : St K V) (k k' : K) (i : Item V) :
    lget { s with items := s.items.set k i } k' =
      if k = k' then (if TTL.expired i.e s.now then none else some i) else lget s k' := by
  simp only [lget, get_set]
  by_cases hk : k = k' <;> simp [hk]

theorem lget_erase (s : St K V) (k k' : K) :
    lget { s with items := s.items.erase k } k' = if k = k' then none else lget s k' := by
  simp only [lget, get_erase]
  by_cases hk : k = k' <;> simp [hk]

theorem sim_store (s : St K V) (a : TTL.St K V) (h : Sim s a) (k : K) (i : Item V) (he : 0 ≤ i.e)
    (hl : TTL.expired i.e s.now = false) :
    Sim { s with items := s.items.set k i } { a with live := a.live.set k i } := by
  refine ⟨WF_set s h.wf k i he, AMap.WF_set _ _ _ h.awf, h.now, h.dflt, h.cb, ?_⟩
  intro k'
  rw [lget_set, get_set, h.get k', hl]; simp

theorem sim_fresh (s : St K V) (a : TTL.St K V) (h : Sim s a) (k : K) (v : V) (d : Int) :
    Sim { s with items := s.items.set k ⟨v, TTL.expiration d s.dflt s.now⟩ } (TTL.storeItem a k v d) := by
  have := sim_store s a h k ⟨v, TTL.expiration d s.dflt s.now⟩ (expiration_nonneg _ _ _ h.wf.now0)
    (by have := fresh_live s d v; simpa [liveAt] using this)
  simpa [TTL.storeItem, h.now, h.dflt] using this

theorem sim_erase (s : St K V) (a : TTL.St K V) (h : Sim s a) (k : K) :
    Sim { s with items := s.items.erase k } { a with live := a.live.erase k } := by
  refine ⟨WF_erase s h.wf k, AMap.WF_erase _ _ h.awf, h.now, h.dflt, h.cb, ?_⟩
  intro k'
  rw [lget_erase, get_erase, h.get k']

theorem sim_erase_dead (s : St K V) (a : TTL.St K V) (h : Sim s a) (k : K) (hd : lget s k = none) :
    Sim { s with items := s.items.erase k } a := by
  refine ⟨WF_erase s h.wf k, h.awf, h.now, h.dflt, h.cb, ?_⟩
  intro k'
  rw [lget_erase, h.get k']
  by_cases hk : k = k'
  · subst hk; simp [hd]
  · simp [hk]

theorem sim_restore (s : St K V) (a : TTL.St K V) (h : Sim s a) (k : K) (i : Item V) (hg : s.items.get k = some i) :
    Sim { s with items := s.items.set k i } a := by
  refine ⟨WF_set s h.wf k i (h.wf.epos (k, i) (mem_of_get _ _ _ hg)), h.awf, h.now, h.dflt, h.cb, ?_⟩
  intro k'
  rw [lget_set, h.get k']
  by_cases hk : k = k'
  · subst hk; simp [lget, hg]
  · simp [hk]

/-- the unexported `get`: returns exactly the live item, changes nothing logically -/
theorem get_spec (s : St K V) (a : TTL.St K V) (h : Sim s a) (k : K) :
    Sim (Cache.get s k).1 a ∧ (Cache.get s k).1.now = s.now ∧ (Cache.get s k).2 = a.live.get k := by
  rw [h.get k]
  unfold Cache.get AMap.load lget
  cases hg : s.items.get k with
  | none => simp [h]
  | some i =>
    simp only [expired_eq]
    by_cases he : TTL.expired i.e s.now = true
    · simp only [he, Bool.not_true, Bool.false_eq_true, if_false, AMap.compute, hg, if_true]
      refine ⟨sim_erase_dead s a h k ?_, trivial, trivial⟩
      simp [lget, hg, he]
    · simp [he, h]

/-- relation between what the model reports and what the spec reports; `live` = abstract content before
the call.  Enumeration order is unspecified: for `Range`/`Items` the model's answer must be the spec's
answer for *some* enumeration order of the live entries. -/
def OutRel (live : AMap K (Item V)) (op : Op K V) (m sp : Out K V) : Prop :=
  match op with
  | .range f => ∃ π : List (K × Item V), π.Perm live ∧ m = .visits (TTL.walk f π)
  | .items => ∃ π : List (K × Item V), π.Perm live ∧ m = .items (π.map fun p => (p.1, p.2.v))
  | _ => logical m = sp

def StepSim (s : St K V) (a : TTL.St K V) (op : Op K V) : Prop :=
  Sim (step s op).1 (TTL.step a op).1 ∧ OutRel a.live op (step s op).2.out (TTL.step a op).2.1 ∧
  (step s op).2.fn = (TTL.step a op).2.2

macro "close_with " t:term : tactic =>
  `(tactic| (refine ⟨$t, ?_, ?_⟩ <;> first | rfl | trivial | simp [logical]))

section ops
variable (s : St K V) (a : TTL.St K V) (h : Sim s a)
include h

theorem set_sim (k : K) (v : V) (d : Int) : Sim (Cache.set s k v d) (TTL.storeItem a k v d) := by
  unfold Cache.set AMap.store
  rw [expiration_eq']
  exact sim_fresh s a h k v d

theorem ss_set (k : K) (v : V) (d : Int) : StepSim s a (.set k v d) :=
  ⟨set_sim s a h k v d, rfl, rfl⟩
theorem ss_setDefault (k : K) (v : V) : StepSim s a (.setDefault k v) :=
  ⟨set_sim s a h k v Gen.DefaultExpiration, rfl, rfl⟩
theorem ss_setForever (k : K) (v : V) : StepSim s a (.setForever k v) :=
  ⟨set_sim s a h k v Gen.NoExpiration, rfl, rfl⟩

theorem ss_get (k : K) : StepSim s a (.get k) := by
  obtain ⟨h1, _, h3⟩ := get_spec s a h k
  unfold StepSim OutRel
  simp only [step, TTL.step]
  rw [← h3]
  cases hg : Cache.get s k with
  | mk s' r =>
    rw [hg] at h1
    cases r <;> exact ⟨h1, rfl, rfl⟩

theorem live_epos' (k : K) (i : Item V) (hg : a.live.get k = some i) : 0 ≤ i.e := by
  rw [h.get k] at hg
  unfold lget at hg
  cases hs : s.items.get k with
  | none => rw [hs] at hg; cases hg
  | some j =>
    rw [hs] at hg
    by_cases he : TTL.expired j.e s.now = true
    · simp [he] at hg
    · simp [he] at hg; subst hg; exact h.wf.epos (k, j) (mem_of_get _ _ _ hs)

theorem ss_getWithExpiration (k : K) : StepSim s a (.getWithExpiration k) := by
  obtain ⟨h1, _, h3⟩ := get_spec s a h k
  unfold StepSim OutRel
  simp only [step, TTL.step]
  have hpos := live_epos' s a h k
  rw [← h3] at hpos ⊢
  cases hg : Cache.get s k with
  | mk s' r =>
    rw [hg] at h1 hpos
    cases r with
    | none => exact ⟨h1, rfl, rfl⟩
    | some i =>
      refine ⟨h1, ?_, rfl⟩
      have := hpos i rfl
      simp only [logical]
      by_cases h0 : i.e > 0
      · simp [h0]
      · have : i.e = 0 := by omega
        simp [this]

theorem ss_getWithTTL (k : K) : StepSim s a (.getWithTTL k) := by
  obtain ⟨h1, _, h3⟩ := get_spec s a h k
  unfold StepSim OutRel
  simp only [step, TTL.step]
  rw [← h3]
  cases hg : Cache.get s k with
  | mk s' r =>
    rw [hg] at h1
    cases r with
    | none => exact ⟨h1, rfl, rfl⟩
    | some i =>
      refine ⟨h1, ?_, rfl⟩
      simp only [logical, h.now, NoExpiration_eq]

theorem ss_getOrSet (k : K) (v : V) (d : Int) : StepSim s a (.getOrSet k v d) := by
  unfold StepSim OutRel
  simp only [step, TTL.step, AMap.compute]
  rw [h.get k]; unfold lget
  cases hg : s.items.get k with
  | none =>
    simp only [getOrSetFn, expiration_eq', Bool.false_eq_true, if_false]
    close_with (sim_fresh s a h k v d)
  | some i =>
    by_cases he : TTL.expired i.e s.now = true
    · simp only [getOrSetFn, expired_eq, he, expiration_eq', Bool.not_true, Bool.false_eq_true, if_false, if_true]
      close_with (sim_fresh s a h k v d)
    · simp only [getOrSetFn, expired_eq, he, Bool.not_false, if_true, Bool.false_eq_true, if_false]
      close_with (sim_restore s a h k i hg)

theorem ss_getOrCompute (k : K) (f : V) (d : Int) : StepSim s a (.getOrCompute k f d) := by
  unfold StepSim OutRel
  simp only [step, TTL.step, AMap.compute]
  rw [h.get k]; unfold lget
  cases hg : s.items.get k with
  | none =>
    simp only [getOrSetFn, expiration_eq', Bool.false_eq_true, if_false]
    close_with (sim_fresh s a h k f d)
  | some i =>
    by_cases he : TTL.expired i.e s.now = true
    · simp only [getOrSetFn, expired_eq, he, expiration_eq', Bool.not_true, Bool.false_eq_true, if_false, if_true]
      close_with (sim_fresh s a h k f d)
    · simp only [getOrSetFn, expired_eq, he, Bool.not_false, if_true, Bool.false_eq_true, if_false]
      close_with (sim_restore s a h k i hg)

theorem ss_getAndSet (k : K) (v : V) (d : Int) : StepSim s a (.getAndSet k v d) := by
  unfold StepSim OutRel
  simp only [step, TTL.step, AMap.compute]
  rw [h.get k]; unfold lget
  cases hg : s.items.get k with
  | none =>
    simp only [expiration_eq', Bool.false_eq_true, if_false]
    close_with (sim_fresh s a h k v d)
  | some i =>
    by_cases he : TTL.expired i.e s.now = true
    · simp only [expired_eq, he, expiration_eq', Bool.not_true, Bool.false_eq_true, if_false, if_true]
      close_with (sim_fresh s a h k v d)
    · simp only [expired_eq, he, expiration_eq', Bool.not_false, if_true, Bool.false_eq_true, if_false]
      close_with (sim_fresh s a h k v d)

theorem lget_none (k : K) (hg : s.items.get k = none) : a.live.get k = none := by
  rw [h.get k, lget, hg]
theorem lget_dead (k : K) (i : Item V) (hg : s.items.get k = some i) (he : TTL.expired i.e s.now = true) :
    a.live.get k = none := by
  rw [h.get k, lget, hg]; simp [he]
theorem lget_live (k : K) (i : Item V) (hg : s.items.get k = some i) (he : ¬ TTL.expired i.e s.now = true) :
    a.live.get k = some i := by
  rw [h.get k, lget, hg]; simp [he]

theorem ss_getAndRefresh (k : K) (d : Int) : StepSim s a (.getAndRefresh k d) := by
  unfold StepSim OutRel
  cases hg : s.items.get k with
  | none =>
    simp only [step, TTL.step, AMap.compute, hg, lget_none s a h k hg, refreshFn, Bool.false_eq_true, if_false, if_true]
    close_with (by simpa using h)
  | some i =>
    by_cases he : TTL.expired i.e s.now = true
    · simp only [step, TTL.step, AMap.compute, hg, lget_dead s a h k i hg he, refreshFn, expired_eq, he,
        Bool.not_true, Bool.false_eq_true, if_false, if_true]
      close_with (sim_erase_dead s a h k (by simp [lget, hg, he]))
    · simp only [step, TTL.step, AMap.compute, hg, lget_live s a h k i hg he, refreshFn, expired_eq, he,
        expiration_eq', Bool.not_false, if_true, Bool.false_eq_true, if_false]
      close_with (sim_fresh s a h k i.v d)

theorem ss_compute (k : K) (g : Option V → V × Bool) (d : Int) : StepSim s a (.compute k g d) := by
  unfold StepSim OutRel
  cases hg : s.items.get k with
  | none =>
    by_cases hd : (g none).2 = true
    · simp only [step, TTL.step, AMap.compute, hg, lget_none s a h k hg, computeFn, liveOld, hd, if_true,
        Bool.false_eq_true, if_false]
      close_with (by simpa using h)
    · simp only [step, TTL.step, AMap.compute, hg, lget_none s a h k hg, computeFn, liveOld, hd,
        Bool.false_eq_true, if_false, if_true, expiration_eq']
      close_with (sim_fresh s a h k (g none).1 d)
  | some i =>
    by_cases he : TTL.expired i.e s.now = true
    · by_cases hd : (g none).2 = true
      · simp only [step, TTL.step, AMap.compute, hg, lget_dead s a h k i hg he, computeFn, liveOld, expired_eq, he,
          Bool.not_true, hd, if_true, Bool.false_eq_true, if_false]
        close_with (sim_erase_dead s a h k (by simp [lget, hg, he]))
      · simp only [step, TTL.step, AMap.compute, hg, lget_dead s a h k i hg he, computeFn, liveOld, expired_eq, he,
          Bool.not_true, hd, Bool.false_eq_true, if_false, if_true, expiration_eq']
        close_with (sim_fresh s a h k (g none).1 d)
    · by_cases hd : (g (some i.v)).2 = true
      · simp only [step, TTL.step, AMap.compute, hg, lget_live s a h k i hg he, computeFn, liveOld, expired_eq, he,
          Bool.not_false, hd, if_true, Bool.false_eq_true, if_false]
        close_with (sim_erase s a h k)
      · simp only [step, TTL.step, AMap.compute, hg, lget_live s a h k i hg he, computeFn, liveOld, expired_eq, he,
          Bool.not_false, hd, Bool.false_eq_true, if_false, if_true, expiration_eq']
        close_with (sim_fresh s a h k (g (some i.v)).1 d)

theorem getAndDelete_sim (k : K) :
    Sim (Cache.getAndDelete s k).1 { a with live := a.live.erase k } ∧
    (Cache.getAndDelete s k).2.out = (match a.live.get k with | some i => .val i.v true | none => .val default false) ∧
    (Cache.getAndDelete s k).2.fn = [] := by
  cases hg : s.items.get k with
  | none =>
    simp only [Cache.getAndDelete, AMap.compute, hg, lget_none s a h k hg, if_true]
    refine ⟨?_, ?_, ?_⟩ <;> try trivial
    have := sim_erase s a h k
    rw [erase_of_get_none _ _ hg] at this
    rwa [erase_of_get_none _ _ (lget_none s a h k hg)] at this ⊢
  | some i =>
    by_cases he : TTL.expired i.e s.now = true
    · simp only [Cache.getAndDelete, AMap.compute, hg, lget_dead s a h k i hg he, expired_eq, he, if_true,
        Bool.not_true, Bool.false_eq_true, if_false]
      close_with (sim_erase s a h k)
    · simp only [Cache.getAndDelete, AMap.compute, hg, lget_live s a h k i hg he, expired_eq, he, if_true,
        Bool.not_false]
      close_with (sim_erase s a h k)

theorem ss_getAndDelete (k : K) : StepSim s a (.getAndDelete k) := by
  obtain ⟨h1, h2, h3⟩ := getAndDelete_sim s a h k
  unfold StepSim OutRel
  simp only [step, TTL.step]
  rw [h3, h2]
  cases hg : a.live.get k with
  | none =>
    refine ⟨?_, rfl, rfl⟩
    rw [erase_of_get_none _ _ hg] at h1
    exact h1
  | some i => exact ⟨h1, rfl, rfl⟩

theorem ss_delete (k : K) : StepSim s a (.delete k) := by
  obtain ⟨h1, _, h3⟩ := getAndDelete_sim s a h k
  unfold StepSim OutRel
  simp only [step, TTL.step]
  exact ⟨h1, rfl, h3⟩

omit h in
/-- `DeleteExpired`'s sweep never changes the logical content: whatever the snapshot, every conditional
delete removes only an entry that is expired at the sweep's `now` -/
theorem sweep_sim (now : Int) (hasCb : Bool) (snap : List (K × Item V)) :
    ∀ (acc : AMap K (Item V) × List (K × V)) (s : St K V) (a : TTL.St K V), s.now = now →
      Sim { s with items := acc.1 } a → Sim { s with items := (sweep now hasCb snap acc).1 } a := by
  induction snap with
  | nil => intro acc s a _ h; exact h
  | cons p rest ih =>
    obtain ⟨k, i⟩ := p
    intro acc s a hn h
    unfold sweep
    by_cases hx : Gen.item_expiredWithNow i.e now = true
    · simp only [hx, if_true]
      apply ih _ s a hn
      simp only [AMap.compute]
      cases hg : acc.1.get k with
      | none => simpa [sweepFn] using h
      | some c =>
        by_cases hc : Gen.item_expiredWithNow c.e now = true
        · simp only [sweepFn, hc, Bool.not_true, Bool.false_eq_true, if_false, if_true]
          have := sim_erase_dead { s with items := acc.1 } a h k (by
            rw [item_expiredWithNow_eq] at hc
            simp [lget, hg, hn, hc])
          simpa using this
        · simp only [sweepFn, hc, Bool.not_false, if_true, Bool.false_eq_true, if_false]
          have := sim_restore { s with items := acc.1 } a h k c hg
          simpa using this
    · simp only [hx, Bool.false_eq_true, if_false]
      exact ih _ s a hn h

theorem ss_deleteExpired : StepSim s a .deleteExpired := by
  unfold StepSim OutRel
  simp only [step, TTL.step]
  refine ⟨?_, ?_, ?_⟩ <;> try trivial
  have := sweep_sim s.now s.cb.isSome s.items (s.items, []) s a rfl (by simpa using h)
  simpa using this

omit h in
theorem walk_eq (now : Int) (f : K → V → Bool) (l : List (K × Item V)) :
    Cache.walk now f l = TTL.walk f (vfilter l (liveAt now)) := by
  induction l with
  | nil => rfl
  | cons p rest ih =>
    obtain ⟨k, i⟩ := p
    unfold Cache.walk
    rw [vfilter_cons, item_expiredWithNow_eq]
    by_cases he : TTL.expired i.e now = true
    · simp only [he, if_true, liveAt, Bool.not_true, Bool.false_eq_true, if_false]; exact ih
    · simp only [he, Bool.false_eq_true, if_false, liveAt, Bool.not_false, if_true, TTL.walk, ih]

theorem live_perm : (vfilter s.items (liveAt s.now)).Perm a.live := by
  apply perm_of_get_eq _ _ (WF_vfilter _ _ h.wf.nodup) h.awf
  intro k
  have := abs_get s h.wf k
  simp only [abs] at this
  rw [this, h.get k, lget]

theorem ss_range (f : K → V → Bool) : StepSim s a (.range f) := by
  unfold StepSim OutRel
  simp only [step, TTL.step]
  refine ⟨h, ⟨_, live_perm s a h, by rw [walk_eq]⟩, ?_⟩ <;> trivial

omit h in
theorem walk_true (l : List (K × Item V)) : TTL.walk (fun _ _ => true) l = l.map fun p => (p.1, p.2.v) := by
  induction l with
  | nil => rfl
  | cons p rest ih => obtain ⟨k, i⟩ := p; simp [TTL.walk, ih]

theorem ss_items : StepSim s a .items := by
  unfold StepSim OutRel
  simp only [step, TTL.step]
  refine ⟨h, ⟨_, live_perm s a h, by rw [walk_eq, walk_true]⟩, ?_⟩ <;> trivial

theorem ss_clear : StepSim s a .clear := by
  unfold StepSim OutRel
  simp only [step, TTL.step]
  refine ⟨⟨⟨AMap.WF_nil, ?_, h.wf.now0⟩, AMap.WF_nil, h.now, h.dflt, h.cb, ?_⟩, ?_, ?_⟩ <;> try trivial
  · intro p hp; cases hp
  · intro k; rfl

theorem ss_tick (δ : Nat) : StepSim s a (.tick δ) := by
  unfold StepSim OutRel
  simp only [step, TTL.step, TTL.tick]
  refine ⟨⟨⟨h.wf.nodup, h.wf.epos, ?_⟩, ?_, ?_, h.dflt, h.cb, ?_⟩, ?_, ?_⟩ <;> try trivial
  · have := h.wf.now0; simp only; omega
  · exact WF_vfilter a.live (fun i => !TTL.expired i.e (a.now + ↑δ)) h.awf
  · simp [h.now]
  · intro k
    have := get_vfilter a.live h.awf (fun i => !TTL.expired i.e (a.now + ↑δ)) k
    simp only [vfilter] at this
    rw [this, h.get k]
    simp only [lget, h.now]
    cases hg : s.items.get k with
    | none => rfl
    | some i =>
      by_cases he : TTL.expired i.e s.now = true
      · have := expired_mono i.e s.now (s.now + δ) (by omega) he
        simp [he, this]
      · by_cases he2 : TTL.expired i.e (s.now + ↑δ) = true <;> simp [he, he2]

/-- the states after a clock advance are related (the state half of `ss_tick`) -/
theorem tick_sim (δ : Nat) : Sim ({ s with now := s.now + δ } : St K V) (TTL.tick a δ) :=
  (ss_tick s a h δ).1

theorem ss_getOrComputeSlow (k : K) (f : V) (d : Int) (δ : Nat) : StepSim s a (.getOrComputeSlow k f d δ) := by
  have h1 := tick_sim s a h δ
  unfold StepSim OutRel
  cases hg : s.items.get k with
  | none =>
    simp only [step, TTL.step, AMap.compute, hg, lget_none s a h k hg, Bool.false_eq_true, if_false]
    have := sim_fresh _ _ h1 k f d
    refine ⟨by simpa [expiration_eq'] using this, ?_, ?_⟩ <;> simp [logical]
  | some i =>
    by_cases he : TTL.expired i.e s.now = true
    · simp only [step, TTL.step, AMap.compute, hg, lget_dead s a h k i hg he, expired_eq, he, Bool.not_true,
        Bool.false_eq_true, if_false]
      have := sim_fresh _ _ h1 k f d
      refine ⟨by simpa [expiration_eq'] using this, ?_, ?_⟩ <;> simp [logical]
    · simp only [step, TTL.step, AMap.compute, hg, lget_live s a h k i hg he, expired_eq, he, Bool.not_false,
        if_true, Bool.false_eq_true, if_false]
      close_with (sim_restore s a h k i hg)

theorem ss_computeSlow (k : K) (g : Option V → V × Bool) (d : Int) (δ : Nat) : StepSim s a (.computeSlow k g d δ) := by
  have h1 := tick_sim s a h δ
  have hold : liveOld s (s.items.get k) = (a.live.get k).map (·.v) := by
    rw [h.get k]; unfold lget liveOld
    cases hg : s.items.get k with
    | none => rfl
    | some i => by_cases he : TTL.expired i.e s.now = true <;> simp [expired_eq, he]
  unfold StepSim OutRel
  simp only [step, TTL.step, hold]
  generalize (a.live.get k).map (·.v) = old
  by_cases hd : (g old).2 = true
  · have hs := sim_erase _ _ h1 k
    cases hg : s.items.get k with
    | none =>
      simp only [AMap.compute, hg, hd, if_true, Bool.false_eq_true, if_false]
      have : s.items.erase k = s.items := erase_of_get_none _ _ hg
      refine ⟨by simpa [this] using hs, ?_, ?_⟩ <;> simp [logical]
    | some i =>
      simp only [AMap.compute, hg, hd, if_true, Bool.false_eq_true, if_false]
      refine ⟨by simpa using hs, ?_, ?_⟩ <;> simp [logical]
  · have hs := sim_fresh _ _ h1 k (g old).1 d
    cases hg : s.items.get k with
    | none =>
      simp only [AMap.compute, hg, hd, Bool.false_eq_true, if_false, if_true]
      refine ⟨by simpa [expiration_eq'] using hs, ?_, ?_⟩ <;> simp [logical]
    | some i =>
      simp only [AMap.compute, hg, hd, Bool.false_eq_true, if_false, if_true]
      refine ⟨by simpa [expiration_eq'] using hs, ?_, ?_⟩ <;> simp [logical]

theorem step_sim (op : Op K V) : StepSim s a op := by
  cases op with
  | set k v d => exact ss_set s a h k v d
  | setDefault k v => exact ss_setDefault s a h k v
  | setForever k v => exact ss_setForever s a h k v
  | get k => exact ss_get s a h k
  | getWithExpiration k => exact ss_getWithExpiration s a h k
  | getWithTTL k => exact ss_getWithTTL s a h k
  | getOrSet k v d => exact ss_getOrSet s a h k v d
  | getAndSet k v d => exact ss_getAndSet s a h k v d
  | getAndRefresh k d => exact ss_getAndRefresh s a h k d
  | getOrCompute k f d => exact ss_getOrCompute s a h k f d
  | compute k g d => exact ss_compute s a h k g d
  | getAndDelete k => exact ss_getAndDelete s a h k
  | delete k => exact ss_delete s a h k
  | deleteExpired => exact ss_deleteExpired s a h
  | range f => exact ss_range s a h f
  | rangeNil => exact ⟨h, rfl, rfl⟩
  | items => exact ss_items s a h
  | clear => exact ss_clear s a h
  | count => exact ⟨h, rfl, rfl⟩
  | defaultExpiration => exact ⟨h, by simp [OutRel, step, TTL.step, logical, h.dflt], rfl⟩
  | setDefaultExpiration d => exact ⟨⟨⟨h.wf.nodup, h.wf.epos, h.wf.now0⟩, h.awf, h.now, rfl, h.cb, h.get⟩, rfl, rfl⟩
  | evictedCallback => exact ⟨h, by simp [OutRel, step, TTL.step, logical, h.cb], rfl⟩
  | setEvictedCallback c => exact ⟨⟨⟨h.wf.nodup, h.wf.epos, h.wf.now0⟩, h.awf, h.now, h.dflt, rfl, h.get⟩, rfl, rfl⟩
  | tick δ => exact ss_tick s a h δ
  | getOrComputeSlow k f d δ => exact ss_getOrComputeSlow s a h k f d δ
  | computeSlow k g d δ => exact ss_computeSlow s a h k g d δ

end ops

end Proofs.CacheRefine
