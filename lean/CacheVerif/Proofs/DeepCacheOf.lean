import CacheVerif.Deep.Step
import CacheVerif.Proofs.DeepSimpSet
import CacheVerif.Model.CacheOf
/-!
# The hand-written model M2 (`Model.CacheOf`) is the meaning of the current text of `xsync_mapof.go`

For every state and every operation, running the method of the *generated* syntax (`Gen.Deep.xsyncMap_*`, printed
from the working tree by `tools/go2deep` on every run) through the interpreter `Deep.Interp` yields exactly the
state, result, user-function ledger and callback ledger of `Model.CacheOf.step`.  Proofs are symbolic evaluation of
the interpreter (`simp`) after the case splits the method itself makes.
-/
namespace DeepCacheOf
open Deep Model Spec
variable {K V : Type} [DecidableEq K] [Inhabited V]

set_option maxRecDepth 8192

theorem deep_set (s : CSt K V) (k : K) (v : V) (d : Int) :
    deepStep twinMapOf s (.set k v d) = some (Model.CacheOf.step s (.set k v d)) := by
  by_cases h1 : d = Gen.DefaultExpiration <;> by_cases h2 : d > 0 <;> by_cases h3 : s.dflt > 0 <;>
  simp [deep_simp, twinMapOf, h1, h2, h3]

theorem deep_setDefault (s : CSt K V) (k : K) (v : V) :
    deepStep twinMapOf s (.setDefault k v) = some (Model.CacheOf.step s (.setDefault k v)) := by
  by_cases h3 : s.dflt > 0 <;> simp [deep_simp, twinMapOf, h3]

theorem deep_setForever (s : CSt K V) (k : K) (v : V) :
    deepStep twinMapOf s (.setForever k v) = some (Model.CacheOf.step s (.setForever k v)) := by
  simp [deep_simp, twinMapOf, Gen.NoExpiration, Gen.DefaultExpiration]

theorem deep_get (s : CSt K V) (k : K) :
    deepStep twinMapOf s (.get k) = some (Model.CacheOf.step s (.get k)) := by
  cases hg : s.items.get k with
  | none => simp [deep_simp, twinMapOf, hg]
  | some i => by_cases he : Gen.itemOf_expired i.e s.now <;> simp [deep_simp, twinMapOf, hg, he]

theorem deep_getWithExpiration (s : CSt K V) (k : K) :
    deepStep twinMapOf s (.getWithExpiration k) = some (Model.CacheOf.step s (.getWithExpiration k)) := by
  cases hg : s.items.get k with
  | none => simp [deep_simp, twinMapOf, hg]
  | some i => by_cases he : Gen.itemOf_expired i.e s.now <;> by_cases hp : i.e > 0 <;> simp [deep_simp, twinMapOf, hg, he, hp]

theorem deep_getWithTTL (s : CSt K V) (k : K) :
    deepStep twinMapOf s (.getWithTTL k) = some (Model.CacheOf.step s (.getWithTTL k)) := by
  cases hg : s.items.get k with
  | none => simp [deep_simp, twinMapOf, hg]
  | some i => by_cases he : Gen.itemOf_expired i.e s.now <;> by_cases hp : i.e > 0 <;> simp [deep_simp, twinMapOf, hg, he, hp]

theorem deep_getOrSet (s : CSt K V) (k : K) (v : V) (d : Int) :
    deepStep twinMapOf s (.getOrSet k v d) = some (Model.CacheOf.step s (.getOrSet k v d)) := by
  by_cases h1 : d = Gen.DefaultExpiration <;> by_cases h2 : d > 0 <;> by_cases h3 : s.dflt > 0 <;>
  cases hg : s.items.get k with
  | none => simp [deep_simp, twinMapOf, hg, h1, h2, h3]
  | some i => by_cases he : Gen.itemOf_expired i.e s.now <;> simp [deep_simp, twinMapOf, hg, he, h1, h2, h3]

theorem deep_getAndSet (s : CSt K V) (k : K) (v : V) (d : Int) :
    deepStep twinMapOf s (.getAndSet k v d) = some (Model.CacheOf.step s (.getAndSet k v d)) := by
  by_cases h1 : d = Gen.DefaultExpiration <;> by_cases h2 : d > 0 <;> by_cases h3 : s.dflt > 0 <;>
  cases hg : s.items.get k with
  | none => simp [deep_simp, twinMapOf, hg, h1, h2, h3]
  | some i => by_cases he : Gen.itemOf_expired i.e s.now <;> simp [deep_simp, twinMapOf, hg, he, h1, h2, h3]

theorem deep_getAndRefresh (s : CSt K V) (k : K) (d : Int) :
    deepStep twinMapOf s (.getAndRefresh k d) = some (Model.CacheOf.step s (.getAndRefresh k d)) := by
  by_cases h1 : d = Gen.DefaultExpiration <;> by_cases h2 : d > 0 <;> by_cases h3 : s.dflt > 0 <;>
  cases hg : s.items.get k with
  | none => simp [deep_simp, twinMapOf, hg, h1, h2, h3]
  | some i => by_cases he : Gen.itemOf_expired i.e s.now <;> simp [deep_simp, twinMapOf, hg, he, h1, h2, h3]

theorem deep_getOrCompute (s : CSt K V) (k : K) (f : V) (d : Int) :
    deepStep twinMapOf s (.getOrCompute k f d) = some (Model.CacheOf.step s (.getOrCompute k f d)) := by
  by_cases h1 : d = Gen.DefaultExpiration <;> by_cases h2 : d > 0 <;> by_cases h3 : s.dflt > 0 <;>
  cases hg : s.items.get k with
  | none => simp [deep_simp, twinMapOf, hg, h1, h2, h3]
  | some i => by_cases he : Gen.itemOf_expired i.e s.now <;> simp [deep_simp, twinMapOf, hg, he, h1, h2, h3]

theorem deep_compute_absent (s : CSt K V) (k : K) (g : Option V → V × Bool) (d : Int) (hg : s.items.get k = none) :
    deepStep twinMapOf s (.compute k g d) = some (Model.CacheOf.step s (.compute k g d)) := by
  by_cases h1 : d = Gen.DefaultExpiration <;> by_cases h2 : d > 0 <;> by_cases h3 : s.dflt > 0 <;>
  cases hd : (g none).2 <;> simp [deep_simp, twinMapOf, hg, h1, h2, h3, hd]

theorem deep_compute_dead (s : CSt K V) (k : K) (g : Option V → V × Bool) (d : Int) (i : Item V) (hg : s.items.get k = some i)
    (he : Gen.itemOf_expired i.e s.now = true) :
    deepStep twinMapOf s (.compute k g d) = some (Model.CacheOf.step s (.compute k g d)) := by
  by_cases h1 : d = Gen.DefaultExpiration <;> by_cases h2 : d > 0 <;> by_cases h3 : s.dflt > 0 <;>
  cases hd : (g none).2 <;> simp [deep_simp, twinMapOf, hg, he, h1, h2, h3, hd]

theorem deep_compute_live (s : CSt K V) (k : K) (g : Option V → V × Bool) (d : Int) (i : Item V) (hg : s.items.get k = some i)
    (he : ¬ Gen.itemOf_expired i.e s.now = true) :
    deepStep twinMapOf s (.compute k g d) = some (Model.CacheOf.step s (.compute k g d)) := by
  by_cases h1 : d = Gen.DefaultExpiration <;> by_cases h2 : d > 0 <;> by_cases h3 : s.dflt > 0 <;>
  cases hd : (g (some i.v)).2 <;> simp [deep_simp, twinMapOf, hg, he, h1, h2, h3, hd]

theorem deep_compute (s : CSt K V) (k : K) (g : Option V → V × Bool) (d : Int) :
    deepStep twinMapOf s (.compute k g d) = some (Model.CacheOf.step s (.compute k g d)) := by
  cases hg : s.items.get k with
  | none => exact deep_compute_absent s k g d hg
  | some i =>
    by_cases he : Gen.itemOf_expired i.e s.now
    · exact deep_compute_dead s k g d i hg he
    · exact deep_compute_live s k g d i hg he

theorem deep_getOrComputeSlow (s : CSt K V) (k : K) (f : V) (d : Int) (δ : Nat) :
    deepStep twinMapOf s (.getOrComputeSlow k f d δ) = some (Model.CacheOf.step s (.getOrComputeSlow k f d δ)) := by
  by_cases h1 : d = Gen.DefaultExpiration <;> by_cases h2 : d > 0 <;> by_cases h3 : s.dflt > 0 <;>
  cases hg : s.items.get k with
  | none => simp [deep_simp, twinMapOf, hg, h1, h2, h3]
  | some i => by_cases he : Gen.itemOf_expired i.e s.now <;> simp [deep_simp, twinMapOf, hg, he, h1, h2, h3]

theorem deep_computeSlow_absent (s : CSt K V) (k : K) (g : Option V → V × Bool) (d : Int) (δ : Nat) (hg : s.items.get k = none) :
    deepStep twinMapOf s (.computeSlow k g d δ) = some (Model.CacheOf.step s (.computeSlow k g d δ)) := by
  by_cases h1 : d = Gen.DefaultExpiration <;> by_cases h2 : d > 0 <;> by_cases h3 : s.dflt > 0 <;>
  cases hd : (g none).2 <;> simp [deep_simp, twinMapOf, hg, h1, h2, h3, hd]

theorem deep_computeSlow_dead (s : CSt K V) (k : K) (g : Option V → V × Bool) (d : Int) (δ : Nat) (i : Item V) (hg : s.items.get k = some i)
    (he : Gen.itemOf_expired i.e s.now = true) :
    deepStep twinMapOf s (.computeSlow k g d δ) = some (Model.CacheOf.step s (.computeSlow k g d δ)) := by
  by_cases h1 : d = Gen.DefaultExpiration <;> by_cases h2 : d > 0 <;> by_cases h3 : s.dflt > 0 <;>
  cases hd : (g none).2 <;> simp [deep_simp, twinMapOf, hg, he, h1, h2, h3, hd]

theorem deep_computeSlow_live (s : CSt K V) (k : K) (g : Option V → V × Bool) (d : Int) (δ : Nat) (i : Item V) (hg : s.items.get k = some i)
    (he : ¬ Gen.itemOf_expired i.e s.now = true) :
    deepStep twinMapOf s (.computeSlow k g d δ) = some (Model.CacheOf.step s (.computeSlow k g d δ)) := by
  by_cases h1 : d = Gen.DefaultExpiration <;> by_cases h2 : d > 0 <;> by_cases h3 : s.dflt > 0 <;>
  cases hd : (g (some i.v)).2 <;> simp [deep_simp, twinMapOf, hg, he, h1, h2, h3, hd]

theorem deep_computeSlow (s : CSt K V) (k : K) (g : Option V → V × Bool) (d : Int) (δ : Nat) :
    deepStep twinMapOf s (.computeSlow k g d δ) = some (Model.CacheOf.step s (.computeSlow k g d δ)) := by
  cases hg : s.items.get k with
  | none => exact deep_computeSlow_absent s k g d δ hg
  | some i =>
    by_cases he : Gen.itemOf_expired i.e s.now
    · exact deep_computeSlow_dead s k g d δ i hg he
    · exact deep_computeSlow_live s k g d δ i hg he

theorem deep_getAndDelete (s : CSt K V) (k : K) :
    deepStep twinMapOf s (.getAndDelete k) = some (Model.CacheOf.step s (.getAndDelete k)) := by
  cases hc : s.cb <;>
  cases hg : s.items.get k with
  | none => simp [deep_simp, twinMapOf, hg, hc]
  | some i => by_cases he : Gen.itemOf_expired i.e s.now <;> simp [deep_simp, twinMapOf, hg, he, hc]

theorem deep_delete (s : CSt K V) (k : K) :
    deepStep twinMapOf s (.delete k) = some (Model.CacheOf.step s (.delete k)) := by
  cases hc : s.cb <;>
  cases hg : s.items.get k with
  | none => simp [deep_simp, twinMapOf, hg, hc]
  | some i => by_cases he : Gen.itemOf_expired i.e s.now <;> simp [deep_simp, twinMapOf, hg, he, hc]

theorem deep_misc (s : CSt K V) (d : Int) (c : Option Nat) :
    deepStep twinMapOf s .clear = some (Model.CacheOf.step s .clear) ∧
    deepStep twinMapOf s .count = some (Model.CacheOf.step s .count) ∧
    deepStep twinMapOf s .rangeNil = some (Model.CacheOf.step s .rangeNil) ∧
    deepStep twinMapOf s .defaultExpiration = some (Model.CacheOf.step s .defaultExpiration) ∧
    deepStep twinMapOf s (.setDefaultExpiration d) = some (Model.CacheOf.step s (.setDefaultExpiration d)) ∧
    deepStep twinMapOf s .evictedCallback = some (Model.CacheOf.step s .evictedCallback) ∧
    deepStep twinMapOf s (.setEvictedCallback c) = some (Model.CacheOf.step s (.setEvictedCallback c)) := by
  refine ⟨?_, ?_, ?_, ?_, ?_, ?_, ?_⟩ <;> simp [deep_simp, twinMapOf]

theorem loop_walk (call : List (Val K V) → W K V → Deep.Res K V) (now : Int) (f : K → V → Bool) (h0 : List (Val K V))
    (hcall : ∀ k (i : Item V) (w : W K V), w.heap = h0 → call [.key k, ofItem i] w =
      if Gen.itemOf_expiredWithNow i.e now then some ([.bool true], w)
      else some ([.bool (f k i.v)], { w with visits := w.visits ++ [(k, i.v)] }))
    (l : List (K × Item V)) (w : W K V) (hw : w.heap = h0) :
    loopItems call l w = some { w with visits := w.visits ++ Model.CacheOf.walk now f l } := by
  induction l generalizing w with
  | nil => simp [loopItems, Model.CacheOf.walk]
  | cons p l ih =>
    obtain ⟨k, i⟩ := p
    simp only [loopItems, hcall k i w hw, Model.CacheOf.walk]
    by_cases he : Gen.itemOf_expiredWithNow i.e now
    · simp [he, ih w hw]
    · by_cases hf : f k i.v
      · simp [he, hf]
        rw [ih _ (by simpa using hw)]
        simp
      · simp [he, hf]

theorem deep_range (s : CSt K V) (f : K → V → Bool) :
    deepStep twinMapOf s (.range f) = some (Model.CacheOf.step s (.range f)) := by
  simp [deep_simp, twinMapOf]
  rw [loop_walk (now := s.now) (f := f) (h0 := [Val.ufn (UFn.visitor f), Val.int s.now])]
  · simp
  · intro k i w hw
    cases w; simp only at hw; subst hw
    by_cases he : Gen.itemOf_expiredWithNow i.e s.now <;> simp [deep_simp, hide, he]
  · rfl

/-- `Range` when the underlying map hands the visitor the pairs `π` (a traversal concurrent with writers): the user's
visitor is called exactly on `walk now f π` - the unexpired ones, at the clock read when the traversal began, in
the order handed over, until it returns false; nothing is modified -/
theorem deep_range_handed (s : CSt K V) (f : K → V → Bool) (π : List (K × Item V)) :
    deepStep (twinMapOfHanded π) s (.range f) = some (s, { out := .visits (Model.CacheOf.walk s.now f π) }) := by
  simp [deep_simp, twinMapOfHanded, twinMapOf]
  rw [loop_walk (now := s.now) (f := f) (h0 := [Val.ufn (UFn.visitor f), Val.int s.now])]
  · simp
  · intro k i w hw
    cases w; simp only at hw; subst hw
    by_cases he : Gen.itemOf_expiredWithNow i.e s.now <;> simp [deep_simp, hide, he]
  · rfl

theorem loop_items (call : List (Val K V) → W K V → Deep.Res K V) (now : Int) (F N : Val K V)
    (hcall : ∀ k (i : Item V) (w : W K V) (es : List (K × V)), w.heap = [.gomap es, F, N] → call [.key k, ofItem i] w =
      if Gen.itemOf_expiredWithNow i.e now then some ([.bool true], w)
      else some ([.bool true], { w with heap := [.gomap (es ++ [(k, i.v)]), F, N] }))
    (l : List (K × Item V)) (w : W K V) (es : List (K × V)) (hw : w.heap = [.gomap es, F, N]) :
    loopItems call l w = some { w with heap := [.gomap (es ++ Model.CacheOf.walk now (fun _ _ => true) l), F, N] } := by
  induction l generalizing w es with
  | nil => cases w; simp only at hw; subst hw; simp [loopItems, Model.CacheOf.walk]
  | cons p l ih =>
    obtain ⟨k, i⟩ := p
    simp only [loopItems, hcall k i w es hw, Model.CacheOf.walk]
    by_cases he : Gen.itemOf_expiredWithNow i.e now
    · simp [he, ih w es hw]
    · simp [he]
      rw [ih _ (es ++ [(k, i.v)]) rfl]
      simp

theorem deep_items (s : CSt K V) :
    deepStep twinMapOf s .items = some (Model.CacheOf.step s .items) := by
  simp [deep_simp, twinMapOf]
  rw [loop_items (now := s.now) (es := [])]
  case hw => rfl
  case hcall =>
    intro k i w es hw
    cases w; simp only at hw; subst hw
    by_cases he : Gen.itemOf_expiredWithNow i.e s.now <;> simp [deep_simp, hide, he]
  simp [deep_simp]

theorem deep_items_handed (s : CSt K V) (π : List (K × Item V)) :
    deepStep (twinMapOfHanded π) s .items = some (s, { out := .items (Model.CacheOf.walk s.now (fun _ _ => true) π) }) := by
  simp [deep_simp, twinMapOfHanded, twinMapOf]
  rw [loop_items (now := s.now) (es := [])]
  case hw => rfl
  case hcall =>
    intro k i w es hw
    cases w; simp only at hw; subst hw
    by_cases he : Gen.itemOf_expiredWithNow i.e s.now <;> simp [deep_simp, hide, he]
  simp [deep_simp]

theorem sweep_cons (now : Int) (hasCb : Bool) (p : K × Item V) (l : List (K × Item V)) (acc : AMap K (Item V) × List (K × V)) :
    Model.CacheOf.sweep now hasCb (p :: l) acc = Model.CacheOf.sweep now hasCb l (Model.CacheOf.sweep now hasCb [p] acc) := by
  obtain ⟨k, i⟩ := p
  by_cases he : Gen.itemOf_expiredWithNow i.e now <;> simp [Model.CacheOf.sweep, he]

theorem sweep_noCb (now : Int) (l : List (K × Item V)) (acc : AMap K (Item V) × List (K × V)) :
    (Model.CacheOf.sweep now false l acc).2 = acc.2 := by
  induction l generalizing acc with
  | nil => rfl
  | cons p l ih =>
    obtain ⟨k, i⟩ := p
    by_cases he : Gen.itemOf_expiredWithNow i.e now
    · simp only [Model.CacheOf.sweep, he, if_true, ih]
      cases acc.1.get k <;> simp
    · simp only [Model.CacheOf.sweep, he]; exact ih acc

theorem loop_sweep (call : List (Val K V) → W K V → Deep.Res K V) (now : Int) (hasCb : Bool) (C N : Val K V)
    (hcall : ∀ k (i : Item V) (w : W K V) (ev : List (K × V)), w.heap = [.kvs ev, C, N] → call [.key k, ofItem i] w =
      some ([.bool true], { w with items := (Model.CacheOf.sweep now hasCb [(k, i)] (w.items, ev)).1,
                                   heap := [.kvs (Model.CacheOf.sweep now hasCb [(k, i)] (w.items, ev)).2, C, N] }))
    (l : List (K × Item V)) (w : W K V) (ev : List (K × V)) (hw : w.heap = [.kvs ev, C, N]) :
    loopItems call l w = some { w with items := (Model.CacheOf.sweep now hasCb l (w.items, ev)).1,
                                       heap := [.kvs (Model.CacheOf.sweep now hasCb l (w.items, ev)).2, C, N] } := by
  induction l generalizing w ev with
  | nil => cases w; simp only at hw; subst hw; simp [loopItems, Model.CacheOf.sweep]
  | cons p l ih =>
    obtain ⟨k, i⟩ := p
    simp only [loopItems, hcall k i w ev hw]
    rw [ih _ _ rfl, sweep_cons now hasCb (k, i) l]

theorem loop_cbs (body : Val K V → W K V → Option (Option (List (Val K V)) × W K V)) (c : Nat) (h0 : List (Val K V))
    (hbody : ∀ k a (w : W K V), w.heap = h0 → body (.kv k a) w = some (none, { w with cbs := w.cbs ++ [(c, k, a)] }))
    (l : List (K × V)) (w : W K V) (hw : w.heap = h0) :
    loopKvs body l w = some (none, { w with cbs := w.cbs ++ l.map fun p => (c, p.1, p.2) }) := by
  induction l generalizing w with
  | nil => simp [loopKvs]
  | cons p l ih =>
    obtain ⟨k, a⟩ := p
    simp only [loopKvs, hbody k a w hw]
    rw [ih _ (by simpa using hw)]
    simp

theorem deep_deleteExpired (s : CSt K V) :
    deepStep twinMapOf s .deleteExpired = some (Model.CacheOf.step s .deleteExpired) := by
  cases hc : s.cb with
  | none =>
    simp [deep_simp, twinMapOf, hc]
    rw [loop_sweep (now := s.now) (hasCb := false) (ev := [])]
    case hw => rfl
    case hcall =>
      intro k i w ev hw
      cases w; simp only at hw; subst hw
      rename_i items _ _ _ _ _ _ _ _
      by_cases he : Gen.itemOf_expiredWithNow i.e s.now
      · cases hg : items.get k with
        | none => simp [deep_simp, hide, he, hg, Model.CacheOf.sweep, Model.CacheOf.sweepFn]
        | some c => by_cases he2 : Gen.itemOf_expiredWithNow c.e s.now <;> simp [deep_simp, hide, he, hg, he2, Model.CacheOf.sweep, Model.CacheOf.sweepFn]
      · simp [deep_simp, hide, he, Model.CacheOf.sweep]
    simp [deep_simp, sweep_noCb, loopKvs]
  | some c =>
    simp [deep_simp, twinMapOf, hc]
    rw [loop_sweep (now := s.now) (hasCb := true) (ev := [])]
    case hw => rfl
    case hcall =>
      intro k i w ev hw
      cases w; simp only at hw; subst hw
      rename_i items _ _ _ _ _ _ _ _
      by_cases he : Gen.itemOf_expiredWithNow i.e s.now
      · cases hg : items.get k with
        | none => simp [deep_simp, hide, he, hg, Model.CacheOf.sweep, Model.CacheOf.sweepFn]
        | some c => by_cases he2 : Gen.itemOf_expiredWithNow c.e s.now <;> simp [deep_simp, hide, he, hg, he2, Model.CacheOf.sweep, Model.CacheOf.sweepFn]
      · simp [deep_simp, hide, he, Model.CacheOf.sweep]
    simp [deep_simp]
    rw [loop_cbs (c := c) (h0 := [Val.kvs (Model.CacheOf.sweep s.now true s.items (s.items, [])).snd, Val.ecb (some c), Val.int s.now])]
    case hw => rfl
    case hbody =>
      intro k a w hw
      cases w; simp only at hw; subst hw
      simp [deep_simp, hide]
    simp [deep_simp]

/-- **The hand-written model is the meaning of the source text.**  For every state and every operation, the
interpreter run on the syntax generated from `xsync_mapof.go` gives exactly `Model.CacheOf.step`. -/
theorem deep_step (s : CSt K V) (op : Op K V) : deepStep twinMapOf s op = some (Model.CacheOf.step s op) := by
  cases op with
  | set k v d => exact deep_set s k v d
  | setDefault k v => exact deep_setDefault s k v
  | setForever k v => exact deep_setForever s k v
  | get k => exact deep_get s k
  | getWithExpiration k => exact deep_getWithExpiration s k
  | getWithTTL k => exact deep_getWithTTL s k
  | getOrSet k v d => exact deep_getOrSet s k v d
  | getAndSet k v d => exact deep_getAndSet s k v d
  | getAndRefresh k d => exact deep_getAndRefresh s k d
  | getOrCompute k f d => exact deep_getOrCompute s k f d
  | compute k g d => exact deep_compute s k g d
  | getAndDelete k => exact deep_getAndDelete s k
  | delete k => exact deep_delete s k
  | deleteExpired => exact deep_deleteExpired s
  | range f => exact deep_range s f
  | rangeNil => exact (deep_misc s 0 none).2.2.1
  | items => exact deep_items s
  | clear => exact (deep_misc s 0 none).1
  | count => exact (deep_misc s 0 none).2.1
  | defaultExpiration => exact (deep_misc s 0 none).2.2.2.1
  | setDefaultExpiration d => exact (deep_misc s d none).2.2.2.2.1
  | evictedCallback => exact (deep_misc s 0 none).2.2.2.2.2.1
  | setEvictedCallback c => exact (deep_misc s 0 c).2.2.2.2.2.2
  | tick δ => simp [deepStep, Model.CacheOf.step]
  | getOrComputeSlow k f d δ => exact deep_getOrComputeSlow s k f d δ
  | computeSlow k g d δ => exact deep_computeSlow s k g d δ

/-- whole call sequences -/
theorem deep_run (s : CSt K V) (ops : List (Op K V)) : deepRun twinMapOf s ops = some (Model.CacheOf.run s ops) := by
  induction ops generalizing s with
  | nil => rfl
  | cons op ops ih => simp [deepRun, deep_step, ih, Model.CacheOf.run]

end DeepCacheOf
