import CacheVerif.Proofs.Words
/-!
# The word updates of the write path keep the representation the lookup theorems assume

`Proofs/Words.lean` / `DeepLoad(M).lean` prove the lookup path correct on every heap whose packed words *represent*
their slots (`RepB` for `MapOf`: every `meta` byte is the hash byte of its entry's key or `emptyMetaSlot`; `RepM` for
`Map`: an occupied slot's stored top hash matches its key).  This file shows that these are invariants of exactly the
word arithmetic `doCompute`, `appendToBucket*` and the lock functions perform (machine-translated `setByte`,
`storeTopHash`, `eraseTopHash`; the expressions themselves are pinned in `Expect.DoCompute`):

* a fresh bucket (`meta = defaultMeta` / an all-zero word, all slots free) is represented;
* insertion into slot `i` - `setByte(meta, h2, i)` / `storeTopHash(hash, word, i)` together with the new entry;
* a new overflow bucket - `setByte(defaultMeta, h2, 0)` with the entry in slot 0;
* in-place update of the value of a key (word unchanged);
* deletion from slot `i` - `setByte(meta, emptyMetaSlot, i)` / `eraseTopHash(word, i)` with the slot freed;
* taking and releasing the `Map` bucket spin lock (bit 0 of the same word).

So every heap reachable by these updates from fresh buckets satisfies the hypotheses of the lookup theorems.
-/
set_option linter.unusedSectionVars false
namespace Proofs.WordsInv
open Model.Words Proofs.LeafBits

variable {K V : Type} [DecidableEq K]

/-! ### `MapOf` -/

theorem getD_set (l : List (Option (K × V))) (i j : Nat) (x : Option (K × V)) (hi : i < l.length) :
    (l.set i x).getD j none = if j = i then x else l.getD j none := by
  rw [List.getD_eq_getElem?_getD, List.getD_eq_getElem?_getD, List.getElem?_set]
  by_cases h : i = j
  · subst h; simp [hi]
  · have : ¬ j = i := fun e => h e.symm
    simp [h, this]

/-- the buckets `newMapOfTable` creates -/
theorem repB_fresh (hk : K → BitVec 8) : RepB hk (⟨Gen.defaultMeta, [none, none, none, none, none]⟩ : BucketOf K V) := by
  refine ⟨rfl, ?_⟩
  intro i hi
  have hi' : i < 5 := hi
  have hb : byteOf Gen.defaultMeta i = Gen.emptyMetaSlot := defaultMeta_bytes i (by omega)
  obtain rfl | rfl | rfl | rfl | rfl : i = 0 ∨ i = 1 ∨ i = 2 ∨ i = 3 ∨ i = 4 := by omega
  all_goals simpa using hb

/-- insertion: `setByte(meta, h2, i)` and the entry pointer -/
theorem repB_insert (hk : K → BitVec 8) (b : BucketOf K V) (h : RepB hk b) (i : Nat) (hi : i < 5) (k : K) (v : V) :
    RepB hk ⟨Gen.setByte b.metaw (hk k) i, b.entries.set i (some (k, v))⟩ := by
  have hlen : b.entries.length = 5 := h.1
  refine ⟨by simpa using h.1, ?_⟩
  intro j hj
  have hj' : j < 5 := hj
  simp only
  rw [getD_set _ _ _ _ (by omega)]
  by_cases hji : j = i
  · subst hji
    simp only [if_true]
    exact getByte_setByte_same _ _ _ (by omega)
  · simp only [hji, if_false]
    have := h.2 j hj
    rw [show byteOf (Gen.setByte b.metaw (hk k) i) j = byteOf b.metaw j from
      getByte_setByte_other _ _ i j (by omega) (by omega) (fun e => hji e.symm)]
    exact this

/-- deletion: `setByte(meta, emptyMetaSlot, i)` and the nil entry pointer -/
theorem repB_delete (hk : K → BitVec 8) (b : BucketOf K V) (h : RepB hk b) (i : Nat) (hi : i < 5) :
    RepB hk ⟨Gen.setByte b.metaw Gen.emptyMetaSlot i, b.entries.set i none⟩ := by
  have hlen : b.entries.length = 5 := h.1
  refine ⟨by simpa using h.1, ?_⟩
  intro j hj
  have hj' : j < 5 := hj
  simp only
  rw [getD_set _ _ _ _ (by omega)]
  by_cases hji : j = i
  · subst hji
    simp only [if_true]
    exact getByte_setByte_same _ _ _ (by omega)
  · simp only [hji, if_false]
    have := h.2 j hj
    rw [show byteOf (Gen.setByte b.metaw Gen.emptyMetaSlot i) j = byteOf b.metaw j from
      getByte_setByte_other _ _ i j (by omega) (by omega) (fun e => hji e.symm)]
    exact this

/-- in-place update: a new entry with the same key in the same slot, `meta` untouched -/
theorem repB_update (hk : K → BitVec 8) (b : BucketOf K V) (h : RepB hk b) (i : Nat) (hi : i < 5) (k : K) (v v' : V)
    (hs : b.entries.getD i none = some (k, v)) : RepB hk ⟨b.metaw, b.entries.set i (some (k, v'))⟩ := by
  have hlen : b.entries.length = 5 := h.1
  refine ⟨by simpa using h.1, ?_⟩
  intro j hj
  simp only
  rw [getD_set _ _ _ _ (by omega)]
  by_cases hji : j = i
  · subst hji
    have := h.2 j hj
    rw [hs] at this
    simpa using this
  · simp only [hji, if_false]
    exact h.2 j hj

/-- a new overflow bucket: `setByte(defaultMeta, h2, 0)` with the entry in slot 0 -/
theorem repB_newBucket (hk : K → BitVec 8) (k : K) (v : V) :
    RepB hk (⟨Gen.setByte Gen.defaultMeta (hk k) 0, [some (k, v), none, none, none, none]⟩ : BucketOf K V) := by
  have := repB_insert hk (⟨Gen.defaultMeta, [none, none, none, none, none]⟩ : BucketOf K V) (repB_fresh hk) 0 (by omega) k v
  simpa using this

/-! ### `Map` -/

theorem repM_fresh (hashOf : K → BitVec 64) (w : BitVec 64) : RepM hashOf (⟨w, [none, none, none]⟩ : BucketM K V) := by
  refine ⟨rfl, ?_⟩
  intro i hi
  have hi' : i < 3 := hi
  obtain rfl | rfl | rfl : i = 0 ∨ i = 1 ∨ i = 2 := by omega
  all_goals simp

/-- insertion: `storeTopHash(hash, word, i)` and the key / value pointers -/
theorem repM_insert (hashOf : K → BitVec 64) (b : BucketM K V) (h : RepM hashOf b) (i : Nat) (hi : i < 3) (k : K) (v : V) :
    RepM hashOf ⟨Gen.storeTopHash (hashOf k) b.word i, b.slots.set i (some (k, v))⟩ := by
  have hlen : b.slots.length = 3 := h.1
  refine ⟨by simpa using h.1, ?_⟩
  intro j hj
  have hj' : j < 3 := hj
  simp only
  rw [getD_set _ _ _ _ (by omega)]
  by_cases hji : j = i
  · subst hji
    simp only [if_true]
    exact topHashMatch_store _ _ _ hi
  · simp only [hji, if_false]
    have := h.2 j hj
    cases hs : b.slots.getD j none with
    | none => trivial
    | some kv =>
      obtain ⟨k', v'⟩ := kv
      rw [hs] at this
      simp only
      rw [topHashMatch_store_other _ _ _ i j hi hj' (fun e => hji e.symm)]
      exact this

/-- deletion: `eraseTopHash(word, i)` and nil pointers -/
theorem repM_delete (hashOf : K → BitVec 64) (b : BucketM K V) (h : RepM hashOf b) (i : Nat) (hi : i < 3) :
    RepM hashOf ⟨Gen.eraseTopHash b.word i, b.slots.set i none⟩ := by
  have hlen : b.slots.length = 3 := h.1
  refine ⟨by simpa using h.1, ?_⟩
  intro j hj
  have hj' : j < 3 := hj
  simp only
  rw [getD_set _ _ _ _ (by omega)]
  by_cases hji : j = i
  · subst hji; simp
  · simp only [hji, if_false]
    have := h.2 j hj
    cases hs : b.slots.getD j none with
    | none => trivial
    | some kv =>
      obtain ⟨k', v'⟩ := kv
      rw [hs] at this
      simp only
      rw [topHashMatch_erase_other _ _ i j hi hj' (fun e => hji e.symm)]
      exact this

/-- in-place update of the value of a key: the word is untouched -/
theorem repM_update (hashOf : K → BitVec 64) (b : BucketM K V) (h : RepM hashOf b) (i : Nat) (hi : i < 3) (k : K) (v v' : V)
    (hs : b.slots.getD i none = some (k, v)) : RepM hashOf ⟨b.word, b.slots.set i (some (k, v'))⟩ := by
  have hlen : b.slots.length = 3 := h.1
  refine ⟨by simpa using h.1, ?_⟩
  intro j hj
  simp only
  rw [getD_set _ _ _ _ (by omega)]
  by_cases hji : j = i
  · subst hji
    have := h.2 j hj
    rw [hs] at this
    simpa using this
  · simp only [hji, if_false]
    exact h.2 j hj

/-- taking (`word | 1`) and releasing (`word &^ 1`) the bucket spin lock changes no match -/
theorem repM_lock (hashOf : K → BitVec 64) (b : BucketM K V) (h : RepM hashOf b) :
    RepM hashOf ⟨b.word ||| 1#64, b.slots⟩ ∧ RepM hashOf ⟨b.word &&& ~~~1#64, b.slots⟩ := by
  constructor <;> refine ⟨h.1, ?_⟩ <;> intro j hj <;> have := h.2 j hj <;> have hj' : j < 3 := hj <;> simp only <;>
    cases hs : b.slots.getD j none with
    | none => trivial
    | some kv =>
      obtain ⟨k', v'⟩ := kv
      rw [hs] at this
      simp only
      first
        | (rw [topHashMatch_lockbit _ _ _ hj']; exact this)
        | (rw [topHashMatch_unlockbit _ _ _ hj']; exact this)

end Proofs.WordsInv

/-! ### the shrink trigger of `MapOf`: `newmetaw == defaultMeta` means "this bucket is empty now" -/
namespace Proofs.WordsInv
open Model.Words Proofs.LeafBits

variable {K V : Type} [DecidableEq K]

/-- a word is determined by its eight bytes -/
theorem eq_of_bytes (w w' : BitVec 64) (h : ∀ i, i < 8 → byteOf w i = byteOf w' i) : w = w' := by
  apply BitVec.eq_of_getLsbD_eq
  intro j hj
  have hb := h (j / 8) (by omega)
  have := congrArg (fun b : BitVec 8 => b.getLsbD (j % 8)) hb
  simp only [byteOf] at this
  have e1 := getByte_getLsbD w (j / 8) (j % 8)
  have e2 := getByte_getLsbD w' (j / 8) (j % 8)
  simp only [getByte] at e1 e2
  rw [e1, e2] at this
  have hlt : j % 8 < 8 := Nat.mod_lt _ (by omega)
  have hidx : 8 * (j / 8) + j % 8 = j := by omega
  simpa [hlt, hidx] using this

/-- the three bytes of `meta` no slot uses keep their initial value -/
def Upper (w : BitVec 64) : Prop := ∀ i, 5 ≤ i → i < 8 → byteOf w i = Gen.emptyMetaSlot

theorem upper_default : Upper Gen.defaultMeta := fun i _ h8 => defaultMeta_bytes i h8

theorem upper_setByte (w : BitVec 64) (b : BitVec 8) (i : Nat) (hi : i < 5) (h : Upper w) : Upper (Gen.setByte w b i) := by
  intro j h5 h8
  rw [show byteOf (Gen.setByte w b i) j = byteOf w j from getByte_setByte_other _ _ i j (by omega) h8 (by omega)]
  exact h j h5 h8

/-- **`meta == defaultMeta` iff the bucket holds no entry** (for a hash byte that is never `emptyMetaSlot`, as `h2` is):
the test `doCompute` makes after a delete to decide whether to attempt a shrink is M3's "the bucket that held the entry
became empty" -/
theorem meta_default_iff_empty (hk : K → BitVec 8) (hne : ∀ k, hk k ≠ Gen.emptyMetaSlot) (b : BucketOf K V)
    (h : RepB hk b) (hu : Upper b.metaw) :
    b.metaw = Gen.defaultMeta ↔ b.entries = [none, none, none, none, none] := by
  have hlen : b.entries.length = 5 := h.1
  constructor
  · intro hm
    have hall : ∀ i, i < 5 → b.entries.getD i none = none := by
      intro i hi
      have := h.2 i hi
      rw [hm, show byteOf Gen.defaultMeta i = Gen.emptyMetaSlot from defaultMeta_bytes i (by omega)] at this
      cases he : b.entries.getD i none with
      | none => rfl
      | some kv =>
        obtain ⟨k, v⟩ := kv
        rw [he] at this
        exact absurd this.symm (hne k)
    match hb : b.entries, hlen with
    | [e0, e1, e2, e3, e4], _ =>
      have h0 := hall 0 (by omega); have h1 := hall 1 (by omega); have h2 := hall 2 (by omega)
      have h3 := hall 3 (by omega); have h4 := hall 4 (by omega)
      rw [hb] at h0 h1 h2 h3 h4
      simp at h0 h1 h2 h3 h4
      simp [h0, h1, h2, h3, h4]
  · intro he
    apply eq_of_bytes
    intro i hi
    rw [show byteOf Gen.defaultMeta i = Gen.emptyMetaSlot from defaultMeta_bytes i hi]
    by_cases h5 : i < 5
    · have := h.2 i h5
      rw [he] at this
      obtain rfl | rfl | rfl | rfl | rfl : i = 0 ∨ i = 1 ∨ i = 2 ∨ i = 3 ∨ i = 4 := by omega
      all_goals simpa using this
    · exact hu i (by omega) hi

end Proofs.WordsInv
