import CacheVerif.Proofs.DeepLoadM
import CacheVerif.Proofs.WordsInv
/-!
# The printed `appendToBucketOf` is `place`: first free slot of the chain, else a new bucket at its end

The first *writing* function of the table layer inside the deep embedding (`execW`: the heap is part of the state).
`appendToBucketOf(h2, entryPtr, b)` is what `copyBucketOf` calls for every entry it moves during a resize.  For every
heap, chain and entry the interpreter on the printed syntax ends (never stuck) in the heap in which that chain is
`appendSpec` of the old one (`append_eq_spec`); `appendSpec` is M3's `place` on the slots (`appendSpec_flat`) and keeps
the representation `RepB` that the lookup theorems assume (`appendSpec_rep`).
-/
set_option linter.unusedSimpArgs false
set_option linter.unusedSectionVars false

namespace Proofs.DeepAppend
open Deep.T Model.Words Model.Table Proofs.DeepLoad Proofs.DeepLoadM

variable {K V : Type} [DecidableEq K]

/-- index of the first free slot among the five -/
def firstFree (es : List (Option (K × V))) : Option Nat :=
  if (es.getD 0 none).isNone then some 0
  else if (es.getD 1 none).isNone then some 1
  else if (es.getD 2 none).isNone then some 2
  else if (es.getD 3 none).isNone then some 3
  else if (es.getD 4 none).isNone then some 4
  else none

def freshWith (hb : BitVec 8) (k : K) (v : V) : BucketOf K V :=
  ⟨Gen.setByte Gen.defaultMeta hb 0, [some (k, v), none, none, none, none]⟩

/-- what `appendToBucketOf` does to a chain of buckets -/
def appendSpec (hb : BitVec 8) (k : K) (v : V) : List (BucketOf K V) → List (BucketOf K V)
  | [] => []
  | [b] =>
    (match firstFree b.entries with
     | some i => [⟨Gen.setByte b.metaw hb i, b.entries.set i (some (k, v))⟩]
     | none => [b, freshWith hb k v])
  | b :: r :: rs =>
    (match firstFree b.entries with
     | some i => ⟨Gen.setByte b.metaw hb i, b.entries.set i (some (k, v))⟩ :: r :: rs
     | none => b :: appendSpec hb k v (r :: rs))

/-! ### pieces of the printed syntax -/

def bodyA : Stmt := Gen.Deep.T_appendToBucketOf.body
def obodyA : Stmt := unblock (loopBody bodyA)
def forA : Stmt := nth obodyA 0
def ifA : Stmt := nth obodyA 1
def asgA : Stmt := nth obodyA 2


theorem forA_shape : forA = .for3 (forInit forA) (forCond forA) (forPost forA) (forBody forA) := rfl
theorem bodyA_shape : loopBody bodyA = .block (.seq forA (.seq ifA asgA)) := rfl
theorem outerA_shape : bodyA = .forever (loopBody bodyA) := rfl

def envB (hb : BitVec 8) (k : K) (v : V) (ci j : Nat) : Env K V :=
  [("h2", .w8 hb), ("entryPtr", .entry k v), ("b", .bucketRef ci j)]

/-- the heap with bucket `j` of chain `ci` replaced -/
def hset (h : Heap K V) (ci : Nat) (c : List (BucketOf K V)) (j : Nat) (b' : BucketOf K V) : Heap K V :=
  { h with chains := h.chains.set ci (c.set j b') }

theorem setBucket_eq (h : Heap K V) (ci j : Nat) (c : List (BucketOf K V)) (b : BucketOf K V)
    (hc : h.chains[ci]? = some c) (hb : c[j]? = some b) (f : BucketOf K V → BucketOf K V) :
    setBucket h ci j f = some (hset h ci c j (f b)) := by
  simp [setBucket, hc, hb, hset]

theorem hset_chain (h : Heap K V) (ci j : Nat) (c : List (BucketOf K V)) (b' : BucketOf K V)
    (hc : h.chains[ci]? = some c) : (hset h ci c j b').chains[ci]? = some (c.set j b') := by
  have hlt : ci < h.chains.length := by
    rcases Nat.lt_or_ge ci h.chains.length with hl | hg
    · exact hl
    · rw [List.getElem?_eq_none hg] at hc; cases hc
  simp [hset, hlt]

theorem set_get (c : List (BucketOf K V)) (j : Nat) (b b' : BucketOf K V) (hb : c[j]? = some b) :
    (c.set j b')[j]? = some b' := by
  have hlt : j < c.length := by
    rcases Nat.lt_or_ge j c.length with hl | hg
    · exact hl
    · rw [List.getElem?_eq_none hg] at hb; cases hb
  simp [hlt]

theorem hset_hset (h : Heap K V) (ci j : Nat) (c : List (BucketOf K V)) (b1 b2 : BucketOf K V) :
    hset (hset h ci c j b1) ci (c.set j b1) j b2 = hset h ci c j b2 := by
  simp [hset, List.set_set]


/-- one iteration of the `for i` loop on slot `n < 5` -/
theorem forA_step (f : Nat) (h : Heap K V) (hb8 : BitVec 8) (k : K) (v : V) (ci j : Nat) (c : List (BucketOf K V))
    (hc : h.chains[ci]? = some c) (b : BucketOf K V) (hb : c[j]? = some b) (hlen : b.entries.length = 5)
    (n : Nat) (hn : n < 5) :
    iter3W (fun w => eval w.1 w.2 (forCond forA)) (fun w => execW (f + 6) [] (forBody forA) w)
        (fun w => execW (f + 6) [] (forPost forA) w) (h, ("i", .int n) :: envB hb8 k v ci j) =
      (if (b.entries.getD n none).isNone then
        some (.ret (hset h ci c j ⟨Gen.setByte b.metaw hb8 n, b.entries.set n (some (k, v))⟩) [])
       else some (.normal (h, ("i", .int ((n : Int) + 1)) :: envB hb8 k v ci j))) := by
  have hlt : (n : Int) < 5 := by omega
  have hge : 0 ≤ (n : Int) := by omega
  have hb' : bucketAt h ci j = some b := by simp [bucketAt, hc, hb]
  obtain ⟨e, he⟩ : ∃ e, b.entries[n]? = some e := by
    rw [List.getElem?_eq_getElem (by omega)]; exact ⟨_, rfl⟩
  have hg : b.entries.getD n none = e := by rw [List.getD_eq_getElem?_getD, he]; rfl
  have hn5 : n < b.entries.length := by omega
  have he2 : b.entries[n] = e := by
    have := he
    rw [List.getElem?_eq_getElem hn5] at this
    exact Option.some.inj this
  rw [hg]
  rcases e with _ | ⟨k', v'⟩
  · -- free slot: two stores and return
    have s1 := setBucket_eq h ci j c b hc hb (fun b1 => { b1 with metaw := Gen.setByte b.metaw hb8 n })
    have hc1 := hset_chain h ci j c ({ b with metaw := Gen.setByte b.metaw hb8 n }) hc
    have hb1 := set_get c j b ({ b with metaw := Gen.setByte b.metaw hb8 n }) hb
    have hb1' : bucketAt (hset h ci c j { b with metaw := Gen.setByte b.metaw hb8 n }) ci j =
        some { b with metaw := Gen.setByte b.metaw hb8 n } := by simp [bucketAt, hc1, hb1]
    have s2 := setBucket_eq (hset h ci c j { b with metaw := Gen.setByte b.metaw hb8 n }) ci j _ _ hc1 hb1
      (fun b => { b with entries := b.entries.set n (some (k, v)) })
    rw [hset_hset] at s2
    simp [iter3W, forA, forCond, forBody, forPost, obodyA, bodyA, loopBody, unblock, nth, Gen.Deep.T_appendToBucketOf, eval,
      execW, envB, binop, List.lookup, leaf3, constOf, Gen.entriesPerMapOfBucket, hlt, hge, leaveW, setVar, selField, hb', he,
      isPtr, storeTo, s1, hb1', s2, hlen, hn, he2, readAll]
  · simp [iter3W, forA, forCond, forBody, forPost, obodyA, bodyA, loopBody, unblock, nth, Gen.Deep.T_appendToBucketOf, eval,
      execW, envB, binop, List.lookup, leaf3, constOf, Gen.entriesPerMapOfBucket, hlt, hge, leaveW, setVar, selField, hb', he,
      isPtr, he2, hlen, hn]

theorem forA_exit (f : Nat) (w : Heap K V) (env : Env K V) :
    iter3W (fun w => eval w.1 w.2 (forCond forA)) (fun w => execW (f + 6) [] (forBody forA) w)
        (fun w => execW (f + 6) [] (forPost forA) w) (w, ("i", .int 5) :: env) =
      some (.brk (w, ("i", .int 5) :: env)) := by
  simp [iter3W, forA, forCond, obodyA, bodyA, loopBody, unblock, nth, Gen.Deep.T_appendToBucketOf, eval, binop, List.lookup,
    constOf, Gen.entriesPerMapOfBucket]

/-- **the `for i` loop** over the five slots of one bucket: fill the first free one and return, or fall through -/
theorem forA_loop (f : Nat) (h : Heap K V) (hb8 : BitVec 8) (k : K) (v : V) (ci j : Nat) (c : List (BucketOf K V))
    (hc : h.chains[ci]? = some c) (b : BucketOf K V) (hb : c[j]? = some b) (hlen : b.entries.length = 5) :
    execW (f + 6) [] forA (h, envB hb8 k v ci j) =
      (match firstFree b.entries with
       | some i => some (.ret (hset h ci c j ⟨Gen.setByte b.metaw hb8 i, b.entries.set i (some (k, v))⟩) [])
       | none => some (.normal (h, envB hb8 k v ci j))) := by
  have s0 := forA_step f h hb8 k v ci j c hc b hb hlen 0 (by omega)
  have s1 := forA_step f h hb8 k v ci j c hc b hb hlen 1 (by omega)
  have s2 := forA_step f h hb8 k v ci j c hc b hb hlen 2 (by omega)
  have s3 := forA_step f h hb8 k v ci j c hc b hb hlen 3 (by omega)
  have s4 := forA_step f h hb8 k v ci j c hc b hb hlen 4 (by omega)
  have s5 := forA_exit f h (envB hb8 k v ci j)
  have hinit : execW (f + 6) [] (forInit forA) (h, envB hb8 k v ci j) =
      some (.normal (h, ("i", .int 0) :: envB hb8 k v ci j)) := by
    simp [forInit, forA, obodyA, bodyA, loopBody, unblock, nth, Gen.Deep.T_appendToBucketOf, execW, eval]
  rw [forA_shape]
  simp only [execW, hinit]
  rw [show (((0 : Nat) : Int) + 1) = ((1 : Nat) : Int) from rfl] at s0
  rw [show (((1 : Nat) : Int) + 1) = ((2 : Nat) : Int) from rfl] at s1
  rw [show (((2 : Nat) : Int) + 1) = ((3 : Nat) : Int) from rfl] at s2
  rw [show (((3 : Nat) : Int) + 1) = ((4 : Nat) : Int) from rfl] at s3
  rw [show (((4 : Nat) : Int) + 1) = 5 from rfl] at s4
  have l5 : loopNW (iter3W (fun w => eval w.1 w.2 (forCond forA)) (fun w => execW (f + 6) [] (forBody forA) w)
      (fun w => execW (f + 6) [] (forPost forA) w)) (f + 1) (h, ("i", .int 5) :: envB hb8 k v ci j) =
      some (.normal (h, ("i", .int 5) :: envB hb8 k v ci j)) := by
    rw [loopNW, s5]
  unfold firstFree
  rw [show f + 6 = (f + 5) + 1 from rfl, loopNW, show (Val.int 0 : Val K V) = .int ((0 : Nat) : Int) from rfl, s0]
  by_cases h0 : (b.entries.getD 0 none).isNone
  · simp only [h0, if_true, leaveW]
  · simp only [h0, if_false, Bool.false_eq_true]
    rw [show f + 5 = (f + 4) + 1 from rfl, loopNW, s1]
    by_cases h1 : (b.entries.getD 1 none).isNone
    · simp only [h1, if_true, leaveW]
    · simp only [h1, if_false, Bool.false_eq_true]
      rw [show f + 4 = (f + 3) + 1 from rfl, loopNW, s2]
      by_cases h2 : (b.entries.getD 2 none).isNone
      · simp only [h2, if_true, leaveW]
      · simp only [h2, if_false, Bool.false_eq_true]
        rw [show f + 3 = (f + 2) + 1 from rfl, loopNW, s3]
        by_cases h3 : (b.entries.getD 3 none).isNone
        · simp only [h3, if_true, leaveW]
        · simp only [h3, if_false, Bool.false_eq_true]
          rw [show f + 2 = (f + 1) + 1 from rfl, loopNW, s4]
          by_cases h4 : (b.entries.getD 4 none).isNone
          · simp only [h4, if_true, leaveW]
          · simp only [h4, if_false, Bool.false_eq_true, l5]
            simp [leaveW, envB]

/-! ### after the slots: follow `next`, or append a fresh bucket -/

theorem app_set_last {α : Type} (l : List α) (x y : α) : (l ++ [x]).set l.length y = l ++ [y] := by simp
theorem app_set_left {α : Type} (l : List α) (y z : α) (i : Nat) (hi : i < l.length) :
    (l ++ [y]).set i z = l.set i z ++ [y] := by
  rw [List.set_append_left _ _ hi]
theorem app_get_last {α : Type} (l : List α) (x : α) : (l ++ [x])[l.length]? = some x := by simp
theorem app_get_left {α : Type} (l : List α) (x : α) (i : Nat) (hi : i < l.length) : (l ++ [x])[i]? = l[i]? := by
  rw [List.getElem?_append_left hi]

/-- the rest of an iteration when the bucket is full and has a successor: on to it -/
theorem rest_next (f : Nat) (h : Heap K V) (hb8 : BitVec 8) (k : K) (v : V) (ci j : Nat) (c : List (BucketOf K V))
    (hc : h.chains[ci]? = some c) (hj : j + 1 < c.length) :
    execW (f + 6) [] (.seq ifA asgA) (h, envB hb8 k v ci j) = some (.normal (h, envB hb8 k v ci (j + 1))) := by
  simp [ifA, asgA, obodyA, bodyA, loopBody, unblock, nth, Gen.Deep.T_appendToBucketOf, execW, eval, envB, List.lookup,
    selField, hc, hj, binop, isPtr, leaveW, conv, setVar]

/-- … and when it is the last bucket of its chain: a fresh bucket with the entry in slot 0 is linked behind it -/
theorem rest_last (f : Nat) (h : Heap K V) (hb8 : BitVec 8) (k : K) (v : V) (ci j : Nat) (c : List (BucketOf K V))
    (hc : h.chains[ci]? = some c) (hj : j + 1 = c.length) :
    execW (f + 6) [] (.seq ifA asgA) (h, envB hb8 k v ci j) =
      some (.ret { h with chains := h.chains.set ci (c ++ [freshWith hb8 k v]) } []) := by
  have hci : ci < h.chains.length := by
    rcases Nat.lt_or_ge ci h.chains.length with hl | hg
    · exact hl
    · rw [List.getElem?_eq_none hg] at hc; cases hc
  have hne : ¬ ci = h.chains.length := by omega
  have hc2 : h.chains[ci] = c := by
    have := hc
    rw [List.getElem?_eq_getElem hci] at this
    exact Option.some.inj this
  have hjn : ¬ j + 1 < c.length := by omega
  have hjl : j < c.length := by omega
  have g1 : (h.chains ++ [[zeroBucket]])[h.chains.length]? = some [(zeroBucket : BucketOf K V)] := app_get_last _ _
  have g2 : ∀ x : List (BucketOf K V), (h.chains ++ [x])[ci]? = some c := fun x => by rw [app_get_left _ _ _ hci, hc]
  simp [ifA, asgA, obodyA, bodyA, loopBody, unblock, nth, Gen.Deep.T_appendToBucketOf, execW, eval, envB, List.lookup,
    selField, hc, hjn, hjl, binop, isPtr, leaveW, conv, setVar, storeTo, setBucket, bucketAt, leaf3, constOf, g1, g2,
    app_set_last, app_get_last, zeroBucket, linkFresh, hj, hne, readAll, app_set_left, hci, freshWith, hc2]

/-- what one iteration does with bucket `j` -/
theorem outerA_step (f : Nat) (h : Heap K V) (hb8 : BitVec 8) (k : K) (v : V) (ci j : Nat) (c : List (BucketOf K V))
    (hc : h.chains[ci]? = some c) (b : BucketOf K V) (hb : c[j]? = some b) (hlen : b.entries.length = 5) :
    execW (f + 6) [] (loopBody bodyA) (h, envB hb8 k v ci j) =
      (match firstFree b.entries with
       | some i => some (.ret (hset h ci c j ⟨Gen.setByte b.metaw hb8 i, b.entries.set i (some (k, v))⟩) [])
       | none =>
         if j + 1 < c.length then some (.normal (h, envB hb8 k v ci (j + 1)))
         else some (.ret { h with chains := h.chains.set ci (c ++ [freshWith hb8 k v]) } [])) := by
  have hjl : j < c.length := by
    rcases Nat.lt_or_ge j c.length with hl | hg
    · exact hl
    · rw [List.getElem?_eq_none hg] at hb; cases hb
  rw [bodyA_shape]
  have hseq : ∀ w : W K V, execW (f + 6) [] (.seq forA (.seq ifA asgA)) w =
      (match execW (f + 6) [] forA w with
       | some (OutW.normal w') => execW (f + 6) [] (.seq ifA asgA) w'
       | r => r) := fun w => rfl
  simp only [execW] at hseq ⊢
  rw [hseq, forA_loop f h hb8 k v ci j c hc b hb hlen]
  cases hff : firstFree b.entries with
  | some i => simp [leaveW]
  | none =>
    simp only
    by_cases hj : j + 1 < c.length
    · have := rest_next f h hb8 k v ci j c hc hj
      simp only [execW] at this
      rw [this]
      simp [hj, leaveW, envB]
    · have := rest_last f h hb8 k v ci j c hc (by omega)
      simp only [execW] at this
      rw [this]
      simp [hj, leaveW]

/-- the chain with `appendSpec` applied from bucket `j` on -/
theorem appendSpec_drop (hb8 : BitVec 8) (k : K) (v : V) (c : List (BucketOf K V)) (j : Nat) (hj : j < c.length) :
    appendSpec hb8 k v (c.drop j) =
      (match firstFree c[j].entries with
       | some i => ⟨Gen.setByte c[j].metaw hb8 i, c[j].entries.set i (some (k, v))⟩ :: c.drop (j + 1)
       | none => if j + 1 < c.length then c[j] :: appendSpec hb8 k v (c.drop (j + 1)) else [c[j], freshWith hb8 k v]) := by
  rw [List.drop_eq_getElem_cons hj]
  by_cases hj1 : j + 1 < c.length
  · rw [List.drop_eq_getElem_cons hj1]
    cases hf : firstFree c[j].entries <;> simp [appendSpec, hf, hj1]
  · rw [List.drop_eq_nil_of_le (by omega)]
    cases hf : firstFree c[j].entries <;> simp [appendSpec, hf, hj1]

theorem outerA_loop (f : Nat) (h : Heap K V) (hb8 : BitVec 8) (k : K) (v : V) (ci : Nat) (c : List (BucketOf K V))
    (hc : h.chains[ci]? = some c) (hlen : ∀ b ∈ c, b.entries.length = 5) :
    ∀ (rem j n : Nat), j + rem = c.length → 0 < rem → rem ≤ n →
      loopNW (fun w => execW (f + 6) [] (loopBody bodyA) w) n (h, envB hb8 k v ci j) =
        some (.ret { h with chains := h.chains.set ci (c.take j ++ appendSpec hb8 k v (c.drop j)) } []) := by
  intro rem
  induction rem with
  | zero => intro j n _ h0; omega
  | succ rem ih =>
    intro j n hj _ hn
    obtain ⟨n', rfl⟩ : ∃ n', n = n' + 1 := ⟨n - 1, by omega⟩
    have hjlt : j < c.length := by omega
    have hb : c[j]? = some c[j] := List.getElem?_eq_getElem hjlt
    rw [loopNW, outerA_step f h hb8 k v ci j c hc c[j] hb (hlen _ (List.getElem_mem hjlt)), appendSpec_drop hb8 k v c j hjlt]
    cases hff : firstFree c[j].entries with
    | some i =>
      have hs : ∀ x : BucketOf K V, c.set j x = List.take j c ++ x :: List.drop (j + 1) c := by
        intro x; rw [List.set_eq_take_append_cons_drop, if_pos hjlt]
      simp only [hset, hs]
    | none =>
      simp only
      have ht : List.take (j + 1) c = List.take j c ++ [c[j]] := by
        rw [List.take_add_one]; simp [List.getElem?_eq_getElem hjlt]
      by_cases hj1 : j + 1 < c.length
      · simp only [hj1, if_true]
        rw [ih (j + 1) n' (by omega) (by omega) (by omega), ht, List.append_assoc]
        rfl
      · simp only [hj1, if_false]
        have hfull : List.take (j + 1) c = c := List.take_of_length_le (by omega)
        have : c.take j ++ [c[j], freshWith hb8 k v] = c ++ [freshWith hb8 k v] := by
          have e : c ++ [freshWith hb8 k v] = List.take (j + 1) c ++ [freshWith hb8 k v] := by rw [hfull]
          rw [e, ht, List.append_assoc]
          rfl
        rw [this]

/-- **the printed `appendToBucketOf` applies `appendSpec` to the chain of the bucket it is handed**: for every heap, chain
(non-empty, five entry slots per bucket), hash byte, entry and sufficient loop budget; never stuck -/
theorem append_eq_spec (fuel : Nat) (hf : 6 ≤ fuel) (h : Heap K V) (hb8 : BitVec 8) (k : K) (v : V) (ci : Nat)
    (c : List (BucketOf K V)) (hc : h.chains[ci]? = some c) (hne : c ≠ []) (hfuel : c.length ≤ fuel)
    (hlen : ∀ b ∈ c, b.entries.length = 5) :
    callW fuel h Gen.Deep.T_appendToBucketOf [.w8 hb8, .entry k v, .bucketRef ci 0] =
      some ({ h with chains := h.chains.set ci (appendSpec hb8 k v c) }, []) := by
  obtain ⟨f, rfl⟩ : ∃ f, fuel = f + 6 := ⟨fuel - 6, by omega⟩
  have hpos : 0 < c.length := List.length_pos_iff.2 hne
  have hloop := outerA_loop f h hb8 k v ci c hc hlen c.length 0 (f + 6) (by omega) hpos hfuel
  have hcall : callW (f + 6) h Gen.Deep.T_appendToBucketOf [.w8 hb8, .entry k v, .bucketRef ci 0] =
      (match execW (f + 6) [] bodyA (h, envB hb8 k v ci 0) with
        | some (.ret h' vs) => some (h', vs)
        | _ => none) := rfl
  rw [hcall, outerA_shape]
  simp only [execW]
  rw [hloop]
  simp

/-! ### `appendSpec` is M3's `place`, and keeps the representation -/

theorem firstFree_lt (es : List (Option (K × V))) (i : Nat) (h : firstFree es = some i) : i < 5 := by
  unfold firstFree at h
  repeat' split at h
  all_goals first | (cases h; omega) | cases h

/-- on five slots: `firstFree` and M3's `fillFirst` agree -/
theorem fillFirst_five (k : K) (v : V) (e0 e1 e2 e3 e4 : Option (K × V)) :
    fillFirst k v [e0, e1, e2, e3, e4] =
      (match firstFree [e0, e1, e2, e3, e4] with
       | some i => some ([e0, e1, e2, e3, e4].set i (some (k, v)))
       | none => none) := by
  rcases e0 with _ | x0 <;> rcases e1 with _ | x1 <;> rcases e2 with _ | x2 <;> rcases e3 with _ | x3 <;>
    rcases e4 with _ | x4 <;> simp [fillFirst, firstFree]

theorem fillFirst_append (k : K) (v : V) (a b : Slots K V) :
    fillFirst k v (a ++ b) =
      (match fillFirst k v a with
       | some a' => some (a' ++ b)
       | none => (fillFirst k v b).map (a ++ ·)) := by
  induction a with
  | nil => cases hfb : fillFirst k v b <;> simp [fillFirst, hfb]
  | cons x r ih =>
    rcases x with _ | e
    · simp [fillFirst]
    · simp only [List.cons_append, fillFirst, ih]
      cases fillFirst k v r with
      | some r' => simp
      | none => cases fillFirst k v b <;> simp

/-- **`appendSpec` on the buckets is `place` on the slots** (M3, `S = 5`) -/
theorem appendSpec_flat (hb8 : BitVec 8) (k : K) (v : V) (c : List (BucketOf K V)) (hne : c ≠ [])
    (hlen : ∀ b ∈ c, b.entries.length = 5) :
    flat (appendSpec hb8 k v c) = place 5 k v (flat c) := by
  induction c with
  | nil => exact absurd rfl hne
  | cons b r ih =>
    have hb5 := hlen b (by simp)
    obtain ⟨e0, e1, e2, e3, e4, hes⟩ : ∃ e0 e1 e2 e3 e4, b.entries = [e0, e1, e2, e3, e4] := by
      match hb : b.entries, hb5 with
      | [e0, e1, e2, e3, e4], _ => exact ⟨e0, e1, e2, e3, e4, rfl⟩
    have hff := fillFirst_five k v e0 e1 e2 e3 e4
    cases r with
    | nil =>
      cases hf : firstFree b.entries with
      | some i =>
        rw [hes] at hf
        simp [appendSpec, hes, hf, flat, place, hff]
      | none =>
        rw [hes] at hf
        simp [appendSpec, hes, hf, flat, place, hff, freshWith, newBucket]
    | cons r0 rs =>
      have ihr := ih (by simp) (fun x hx => hlen x (by simp [hx]))
      cases hf : firstFree b.entries with
      | some i =>
        rw [hes] at hf
        simp only [appendSpec, hes, hf, flat, List.flatMap_cons, place] at ihr ⊢
        rw [fillFirst_append, hff, hf]
      | none =>
        rw [hes] at hf
        simp only [appendSpec, hes, hf, flat, List.flatMap_cons, place] at ihr ⊢
        rw [fillFirst_append, hff, hf]
        simp only [Option.map]
        rw [ihr]
        cases fillFirst k v (r0.entries ++ List.flatMap (fun x => x.entries) rs) <;> simp

/-- **`appendSpec` keeps the representation** the lookup theorems assume -/
theorem appendSpec_rep (hk : K → BitVec 8) (k : K) (v : V) (c : List (BucketOf K V)) (hrep : ∀ b ∈ c, RepB hk b) :
    ∀ b ∈ appendSpec (hk k) k v c, RepB hk b := by
  induction c with
  | nil => intro b hb; simp [appendSpec] at hb
  | cons b r ih =>
    have hb := hrep b (by simp)
    cases r with
    | nil =>
      cases hf : firstFree b.entries with
      | some i =>
        intro x hx
        simp [appendSpec, hf] at hx
        subst hx
        exact Proofs.WordsInv.repB_insert hk b hb i (firstFree_lt _ _ hf) k v
      | none =>
        intro x hx
        simp [appendSpec, hf] at hx
        rcases hx with rfl | rfl
        · exact hb
        · exact Proofs.WordsInv.repB_newBucket hk k v
    | cons r0 rs =>
      cases hf : firstFree b.entries with
      | some i =>
        intro x hx
        simp [appendSpec, hf] at hx
        rcases hx with rfl | rfl | hx
        · exact Proofs.WordsInv.repB_insert hk b hb i (firstFree_lt _ _ hf) k v
        · exact hrep _ (by simp)
        · exact hrep _ (by simp [hx])
      | none =>
        intro x hx
        simp only [appendSpec, hf, List.mem_cons] at hx
        rcases hx with rfl | hx
        · exact hb
        · exact ih (fun y hy => hrep y (by simp [hy])) x (by simpa using hx)

end Proofs.DeepAppend
