import CacheVerif.Proofs.SlotMapOfBasic
/-!
# M4b (MapOf): the representation invariant of one bucket chain and its preservation by the writer
-/
set_option linter.unusedSectionVars false
namespace Proofs.SlotMapOfInv
open Model.SlotMapOf Proofs.SlotMapOfBasic

variable {K V : Type} [DecidableEq K] (h2 : K → Nat)

/-- The representation invariant of the chain. -/
structure Inv (g : G K V) : Prop where
  /-- every bucket has exactly `S` meta bytes and `S` entry pointers -/
  sizes : Sizes g
  /-- every installed entry pointer is allocated -/
  alloc : ∀ b i p, getEntry g b i = some p → p < g.nextPtr
  /-- a slot with meta byte and entry pointer points to a cell whose key has that `h2` -/
  cons : ∀ b i m p, getMeta g b i = some m → getEntry g b i = some p → ∃ k v, g.heap p = some (k, v) ∧ m = h2 k
  /-- at most one slot logically holds a given key -/
  uniq : ∀ b i b' i' k v v', slotHolds h2 g b i k = some v → slotHolds h2 g b' i' k = some v' → b = b' ∧ i = i'
  /-- a half-done insert: the slot is in range, has its meta byte but no entry yet, the cell to be installed is
  allocated, and no slot logically holds its key -/
  pend : ∀ b i p, g.pending = .insEntry b i p →
    b < g.buckets.length ∧ i < S ∧ getEntry g b i = none ∧ p < g.nextPtr ∧
      ∃ k v, g.heap p = some (k, v) ∧ getMeta g b i = some (h2 k) ∧ ∀ b' i', slotHolds h2 g b' i' k = none

/-! ### `content` in terms of `slotHolds` -/

theorem content_none_iff (g : G K V) (hs : Sizes g) (k : K) :
    content h2 g k = none ↔ ∀ b i, slotHolds h2 g b i k = none := by
  unfold content
  rw [List.findSome?_eq_none_iff]
  constructor
  · intro h b i
    by_cases hm : b < g.buckets.length ∧ i < S
    · exact h (b, i) ((mem_slots g b i).mpr hm)
    · cases hv : slotHolds h2 g b i k with
      | none => rfl
      | some v =>
        obtain ⟨p, hmeta, _, _⟩ := (slotHolds_some_iff h2 g b i k v).mp hv
        exact absurd ⟨getMeta_lt_len g b i _ hmeta, getMeta_lt_S g hs b i _ hmeta⟩ hm
  · intro h x _
    exact h x.1 x.2

theorem content_some_of_holds (g : G K V) (hI : Inv h2 g) (b i : Nat) (k : K) (v : V)
    (h : slotHolds h2 g b i k = some v) : content h2 g k = some v := by
  cases hc : content h2 g k with
  | none =>
    rw [(content_none_iff h2 g hI.sizes k).mp hc b i] at h
    cases h
  | some v' =>
    unfold content at hc
    obtain ⟨⟨b', i'⟩, _, h'⟩ := List.exists_of_findSome?_eq_some hc
    obtain ⟨rfl, rfl⟩ := hI.uniq b i b' i' k v v' h h'
    rw [h] at h'
    exact h'.symm

theorem holds_of_content_some (g : G K V) (k : K) (v : V) (h : content h2 g k = some v) :
    ∃ b i, slotHolds h2 g b i k = some v := by
  unfold content at h
  obtain ⟨⟨b, i⟩, _, h'⟩ := List.exists_of_findSome?_eq_some h
  exact ⟨b, i, h'⟩

/-- a slot with a matching meta byte and an entry for `k` logically holds `k` -/
theorem holds_of_entry (g : G K V) (hI : Inv h2 g) (b i m : Nat) (p : Ptr) (k : K) (v : V)
    (hm : getMeta g b i = some m) (he : getEntry g b i = some p) (hh : g.heap p = some (k, v)) :
    slotHolds h2 g b i k = some v := by
  obtain ⟨k', v', hh', rfl⟩ := hI.cons b i m p hm he
  rw [hh] at hh'
  cases hh'
  exact (slotHolds_some_iff h2 g b i k v).mpr ⟨p, hm, he, hh⟩

/-! ### single-slot changes -/

/-- `g'` differs from `g` at most in slot `(b, i)` and in freshly allocated heap cells -/
structure Delta (g g' : G K V) (b i : Nat) : Prop where
  meta_other : ∀ b' i', ¬ (b' = b ∧ i' = i) → getMeta g' b' i' = getMeta g b' i'
  entry_other : ∀ b' i', ¬ (b' = b ∧ i' = i) → getEntry g' b' i' = getEntry g b' i'
  heap_old : ∀ p, p < g.nextPtr → g'.heap p = g.heap p
  next_le : g.nextPtr ≤ g'.nextPtr

theorem holds_other (g g' : G K V) (b i : Nat) (hd : Delta g g' b i) (hI : Inv h2 g) (b' i' : Nat) (k : K)
    (hne : ¬ (b' = b ∧ i' = i)) : slotHolds h2 g' b' i' k = slotHolds h2 g b' i' k :=
  slotHolds_congr h2 g g' b' i' k (hd.meta_other b' i' hne) (hd.entry_other b' i' hne)
    (fun p hp => hd.heap_old p (hI.alloc b' i' p hp))

theorem inv_of_delta (g g' : G K V) (b i : Nat) (hd : Delta g g' b i) (hI : Inv h2 g)
    (hsz : Sizes g')
    (halloc : ∀ p, getEntry g' b i = some p → p < g'.nextPtr)
    (hcons : ∀ m p, getMeta g' b i = some m → getEntry g' b i = some p → ∃ k v, g'.heap p = some (k, v) ∧ m = h2 k)
    (huniq : ∀ k v, slotHolds h2 g' b i k = some v → ∀ b' i', ¬ (b' = b ∧ i' = i) → slotHolds h2 g b' i' k = none)
    (hpend : ∀ b0 i0 p, g'.pending = .insEntry b0 i0 p →
      b0 < g'.buckets.length ∧ i0 < S ∧ getEntry g' b0 i0 = none ∧ p < g'.nextPtr ∧
        ∃ k v, g'.heap p = some (k, v) ∧ getMeta g' b0 i0 = some (h2 k) ∧ ∀ b' i', slotHolds h2 g' b' i' k = none) :
    Inv h2 g' := by
  refine ⟨hsz, ?_, ?_, ?_, hpend⟩
  · intro b' i' p hp
    by_cases hne : b' = b ∧ i' = i
    · obtain ⟨rfl, rfl⟩ := hne; exact halloc p hp
    · rw [hd.entry_other b' i' hne] at hp
      exact Nat.lt_of_lt_of_le (hI.alloc b' i' p hp) hd.next_le
  · intro b' i' m p hm hp
    by_cases hne : b' = b ∧ i' = i
    · obtain ⟨rfl, rfl⟩ := hne; exact hcons m p hm hp
    · rw [hd.meta_other b' i' hne] at hm
      rw [hd.entry_other b' i' hne] at hp
      rw [hd.heap_old p (hI.alloc b' i' p hp)]
      exact hI.cons b' i' m p hm hp
  · intro b1 i1 b2 i2 k v v' h1 h2'
    by_cases hne1 : b1 = b ∧ i1 = i
    · obtain ⟨rfl, rfl⟩ := hne1
      by_cases hne2 : b2 = b1 ∧ i2 = i1
      · exact ⟨hne2.1.symm, hne2.2.symm⟩
      · rw [holds_other h2 g g' b1 i1 hd hI b2 i2 k hne2, huniq k v h1 b2 i2 hne2] at h2'
        cases h2'
    · by_cases hne2 : b2 = b ∧ i2 = i
      · obtain ⟨rfl, rfl⟩ := hne2
        rw [holds_other h2 g g' b2 i2 hd hI b1 i1 k hne1, huniq k v' h2' b1 i1 hne1] at h1
        cases h1
      · rw [holds_other h2 g g' b i hd hI b1 i1 k hne1] at h1
        rw [holds_other h2 g g' b i hd hI b2 i2 k hne2] at h2'
        exact hI.uniq b1 i1 b2 i2 k v v' h1 h2'

/-! ### the writer's steps, case by case -/

structure InsMetaC (g g' : G K V) (b i : Nat) (k : K) (v : V) : Prop where
  m0 : getMeta g b i = none
  e0 : getEntry g b i = none
  absent : content h2 g k = none
  d : Delta g g' b i
  sz : Sizes g'
  hi : i < S
  m1 : getMeta g' b i = some (h2 k)
  e1 : getEntry g' b i = none
  hp : g'.heap g.nextPtr = some (k, v)
  nx : g'.nextPtr = g.nextPtr + 1
  pnd' : g'.pending = .insEntry b i g.nextPtr

structure FinInsC (g g' : G K V) (b i : Nat) (p : Ptr) : Prop where
  pnd : g.pending = .insEntry b i p
  d : Delta g g' b i
  sz : Sizes g'
  m1 : getMeta g' b i = getMeta g b i
  e1 : getEntry g' b i = some p
  hp : g'.heap = g.heap
  nx : g'.nextPtr = g.nextPtr
  pnd' : g'.pending = .none

structure FinDelC (g g' : G K V) (b i : Nat) : Prop where
  d : Delta g g' b i
  sz : Sizes g'
  e1 : getEntry g' b i = none
  pnd' : g'.pending = .none

structure DelMetaC (g g' : G K V) (b i : Nat) : Prop where
  d : Delta g g' b i
  sz : Sizes g'
  m1 : getMeta g' b i = none
  e1 : getEntry g' b i = getEntry g b i
  pnd' : g'.pending = .delEntry b i

structure UpdateC (g g' : G K V) (b i : Nat) (v : V) (m : Nat) (p : Ptr) (k : K) (v0 : V) : Prop where
  m0 : getMeta g b i = some m
  e0 : getEntry g b i = some p
  h0 : g.heap p = some (k, v0)
  d : Delta g g' b i
  sz : Sizes g'
  m1 : getMeta g' b i = some m
  e1 : getEntry g' b i = some g.nextPtr
  hp : g'.heap g.nextPtr = some (k, v)
  nx : g'.nextPtr = g.nextPtr + 1
  pnd' : g'.pending = .none

structure AppendC (g g' : G K V) (k : K) (v : V) : Prop where
  absent : content h2 g k = none
  d : Delta g g' g.buckets.length 0
  sz : Sizes g'
  m1 : getMeta g' g.buckets.length 0 = some (h2 k)
  e1 : getEntry g' g.buckets.length 0 = some g.nextPtr
  hp : g'.heap g.nextPtr = some (k, v)
  nx : g'.nextPtr = g.nextPtr + 1
  pnd' : g'.pending = .none

inductive WCase (g g' : G K V) : Prop where
  | insMeta (b i : Nat) (k : K) (v : V) : InsMetaC h2 g g' b i k v → WCase g g'
  | finIns (b i : Nat) (p : Ptr) : FinInsC g g' b i p → WCase g g'
  | finDel (b i : Nat) : FinDelC g g' b i → WCase g g'
  | delMeta (b i : Nat) : DelMetaC g g' b i → WCase g g'
  | update (b i : Nat) (v : V) (m : Nat) (p : Ptr) (k : K) (v0 : V) : UpdateC g g' b i v m p k v0 → WCase g g'
  | append (k : K) (v : V) : AppendC h2 g g' k v → WCase g g'

theorem slotFree_iff (g : G K V) (b i : Nat) : slotFree g b i = true ↔ getMeta g b i = none ∧ getEntry g b i = none := by
  unfold slotFree
  cases getMeta g b i <;> cases getEntry g b i <;> simp

theorem wstep_case (g g' : G K V) (hI : Inv h2 g) (ws : WStep K V) (h : wstep h2 g ws = some g') : WCase h2 g g' := by
  cases ws with
  | insMeta b i k v =>
    simp only [wstep] at h
    split at h
    · next hc =>
      obtain ⟨hp, hb, hi, hfree, habs⟩ := hc
      cases h
      obtain ⟨hm0, he0⟩ := (slotFree_iff g b i).mp hfree
      refine .insMeta b i k v ⟨hm0, he0, by simpa using habs, ⟨?_, ?_, ?_, ?_⟩, ?_, hi, ?_, ?_, ?_, rfl, rfl⟩
      · intro b' i' hne
        exact (getMeta_congr (setMeta g b i (some (h2 k))) _ rfl b' i').trans (getMeta_setMeta_ne g b i _ b' i' hne)
      · intro b' i' _
        exact (getEntry_congr (setMeta g b i (some (h2 k))) _ rfl b' i').trans (getEntry_setMeta g b i _ b' i')
      · intro q hq
        show (if q = g.nextPtr then _ else _) = _
        rw [if_neg (Nat.ne_of_lt hq)]
      · exact Nat.le_succ _
      · exact sizes_setMeta g hI.sizes b i _
      · exact (getMeta_congr (setMeta g b i (some (h2 k))) _ rfl b i).trans (getMeta_setMeta_same g hI.sizes b i _ hb hi)
      · exact ((getEntry_congr (setMeta g b i (some (h2 k))) _ rfl b i).trans (getEntry_setMeta g b i _ b i)).trans he0
      · show (if g.nextPtr = g.nextPtr then _ else _) = _
        rw [if_pos rfl]
    · cases h
  | finish =>
    simp only [wstep] at h
    split at h
    · next b i p hp =>
      cases h
      obtain ⟨hb, hi, _⟩ := hI.pend b i p hp
      refine .finIns b i p ⟨hp, ⟨?_, ?_, fun _ _ => rfl, Nat.le_refl _⟩, ?_, ?_, ?_, rfl, rfl, rfl⟩
      · intro b' i' _
        exact (getMeta_congr (setEntry g b i (some p)) _ rfl b' i').trans (getMeta_setEntry g b i _ b' i')
      · intro b' i' hne
        exact (getEntry_congr (setEntry g b i (some p)) _ rfl b' i').trans (getEntry_setEntry_ne g b i _ b' i' hne)
      · exact sizes_setEntry g hI.sizes b i _
      · exact (getMeta_congr (setEntry g b i (some p)) _ rfl b i).trans (getMeta_setEntry g b i _ b i)
      · exact (getEntry_congr (setEntry g b i (some p)) _ rfl b i).trans (getEntry_setEntry_same g hI.sizes b i _ hb hi)
    · next b i hp =>
      cases h
      refine .finDel b i ⟨⟨?_, ?_, fun _ _ => rfl, Nat.le_refl _⟩, ?_, ?_, rfl⟩
      · intro b' i' _
        exact (getMeta_congr (setEntry g b i none) _ rfl b' i').trans (getMeta_setEntry g b i _ b' i')
      · intro b' i' hne
        exact (getEntry_congr (setEntry g b i none) _ rfl b' i').trans (getEntry_setEntry_ne g b i _ b' i' hne)
      · exact sizes_setEntry g hI.sizes b i _
      · exact (getEntry_congr (setEntry g b i none) _ rfl b i).trans (getEntry_setEntry_none g b i)
    · cases h
  | delMeta b i =>
    simp only [wstep] at h
    split at h
    · next hc =>
      obtain ⟨hp, hm, he⟩ := hc
      cases h
      obtain ⟨m, hm⟩ := Option.isSome_iff_exists.mp hm
      have hb := getMeta_lt_len g b i m hm
      have hi := getMeta_lt_S g hI.sizes b i m hm
      refine .delMeta b i ⟨⟨?_, ?_, fun _ _ => rfl, Nat.le_refl _⟩, ?_, ?_, ?_, rfl⟩
      · intro b' i' hne
        exact (getMeta_congr (setMeta g b i none) _ rfl b' i').trans (getMeta_setMeta_ne g b i _ b' i' hne)
      · intro b' i' _
        exact (getEntry_congr (setMeta g b i none) _ rfl b' i').trans (getEntry_setMeta g b i _ b' i')
      · exact sizes_setMeta g hI.sizes b i _
      · exact (getMeta_congr (setMeta g b i none) _ rfl b i).trans (getMeta_setMeta_same g hI.sizes b i _ hb hi)
      · exact (getEntry_congr (setMeta g b i none) _ rfl b i).trans (getEntry_setMeta g b i _ b i)
    · cases h
  | update b i v =>
    simp only [wstep] at h
    split at h
    · next hp =>
      split at h
      · next m p hm he =>
        split at h
        · next k v0 hh =>
          cases h
          have hb := getMeta_lt_len g b i m hm
          have hi := getMeta_lt_S g hI.sizes b i m hm
          refine .update b i v m p k v0 ⟨hm, he, hh, ⟨?_, ?_, ?_, ?_⟩, ?_, ?_, ?_, ?_, rfl, hp⟩
          · intro b' i' _
            exact (getMeta_congr (setEntry g b i (some g.nextPtr)) _ rfl b' i').trans (getMeta_setEntry g b i _ b' i')
          · intro b' i' hne
            exact (getEntry_congr (setEntry g b i (some g.nextPtr)) _ rfl b' i').trans
              (getEntry_setEntry_ne g b i _ b' i' hne)
          · intro q hq
            show (if q = g.nextPtr then _ else _) = _
            rw [if_neg (Nat.ne_of_lt hq)]
          · exact Nat.le_succ _
          · exact sizes_setEntry g hI.sizes b i _
          · exact ((getMeta_congr (setEntry g b i (some g.nextPtr)) _ rfl b i).trans (getMeta_setEntry g b i _ b i)).trans hm
          · exact (getEntry_congr (setEntry g b i (some g.nextPtr)) _ rfl b i).trans
              (getEntry_setEntry_same g hI.sizes b i _ hb hi)
          · show (if g.nextPtr = g.nextPtr then _ else _) = _
            rw [if_pos rfl]
        · cases h
      · cases h
    · cases h
  | append k v =>
    simp only [wstep] at h
    split at h
    · next hc =>
      obtain ⟨hp, habs⟩ := hc
      cases h
      refine .append k v ⟨by simpa using habs, ⟨?_, ?_, ?_, ?_⟩, ?_, ?_, ?_, ?_, rfl, hp⟩
      · intro b' i' hne
        rw [getMeta_append g _ (h2 k) g.nextPtr rfl b' i', if_neg hne]
      · intro b' i' hne
        rw [getEntry_append g _ (h2 k) g.nextPtr rfl b' i', if_neg hne]
      · intro q hq
        show (if q = g.nextPtr then _ else _) = _
        rw [if_neg (Nat.ne_of_lt hq)]
      · exact Nat.le_succ _
      · exact sizes_append g _ hI.sizes (h2 k) g.nextPtr rfl
      · rw [getMeta_append g _ (h2 k) g.nextPtr rfl, if_pos ⟨rfl, rfl⟩]
      · rw [getEntry_append g _ (h2 k) g.nextPtr rfl, if_pos ⟨rfl, rfl⟩]
      · show (if g.nextPtr = g.nextPtr then _ else _) = _
        rw [if_pos rfl]
    · cases h

/-! ### the invariant is preserved -/

theorem inv_insMeta (g g' : G K V) (hI : Inv h2 g) (b i : Nat) (k : K) (v : V) (c : InsMetaC h2 g g' b i k v) :
    Inv h2 g' := by
  refine inv_of_delta h2 g g' b i c.d hI c.sz ?_ ?_ ?_ ?_
  · intro p hp; rw [c.e1] at hp; cases hp
  · intro m p _ hp; rw [c.e1] at hp; cases hp
  · intro k' v' h; rw [slotHolds_none_of_entry h2 g' b i k' c.e1] at h; cases h
  · intro b0 i0 p hp
    rw [c.pnd'] at hp
    cases hp
    refine ⟨getMeta_lt_len g' b i _ c.m1, c.hi, c.e1, by rw [c.nx]; exact Nat.lt_succ_self _, k, v, c.hp, c.m1, ?_⟩
    intro b' i'
    by_cases hne : b' = b ∧ i' = i
    · obtain ⟨rfl, rfl⟩ := hne
      exact slotHolds_none_of_entry h2 g' b' i' k c.e1
    · rw [holds_other h2 g g' b i c.d hI b' i' k hne]
      exact (content_none_iff h2 g hI.sizes k).mp c.absent b' i'

theorem inv_finIns (g g' : G K V) (hI : Inv h2 g) (b i : Nat) (p : Ptr) (c : FinInsC g g' b i p) : Inv h2 g' := by
  obtain ⟨_, _, _, hpn, k, v, hh, hm, hnone⟩ := hI.pend b i p c.pnd
  refine inv_of_delta h2 g g' b i c.d hI c.sz ?_ ?_ ?_ ?_
  · intro p' hp'
    rw [c.e1] at hp'; cases hp'
    rw [c.nx]; exact hpn
  · intro m p' hm' hp'
    rw [c.e1] at hp'; cases hp'
    rw [c.m1, hm] at hm'; cases hm'
    rw [c.hp]
    exact ⟨k, v, hh, rfl⟩
  · intro k' v' h b' i' _
    obtain ⟨p', _, he', hh'⟩ := (slotHolds_some_iff h2 g' b i k' v').mp h
    rw [c.e1] at he'; cases he'
    rw [c.hp, hh] at hh'; cases hh'
    exact hnone b' i'
  · intro b0 i0 p0 hp0
    rw [c.pnd'] at hp0; cases hp0

theorem inv_finDel (g g' : G K V) (hI : Inv h2 g) (b i : Nat) (c : FinDelC g g' b i) : Inv h2 g' := by
  refine inv_of_delta h2 g g' b i c.d hI c.sz ?_ ?_ ?_ ?_
  · intro p hp; rw [c.e1] at hp; cases hp
  · intro m p _ hp; rw [c.e1] at hp; cases hp
  · intro k' v' h; rw [slotHolds_none_of_entry h2 g' b i k' c.e1] at h; cases h
  · intro b0 i0 p0 hp0
    rw [c.pnd'] at hp0; cases hp0

theorem inv_delMeta (g g' : G K V) (hI : Inv h2 g) (b i : Nat) (c : DelMetaC g g' b i) : Inv h2 g' := by
  refine inv_of_delta h2 g g' b i c.d hI c.sz ?_ ?_ ?_ ?_
  · intro p hp
    rw [c.e1] at hp
    exact Nat.lt_of_lt_of_le (hI.alloc b i p hp) c.d.next_le
  · intro m p hm _; rw [c.m1] at hm; cases hm
  · intro k' v' h; rw [slotHolds_none_of_meta h2 g' b i k' c.m1] at h; cases h
  · intro b0 i0 p0 hp0
    rw [c.pnd'] at hp0; cases hp0

theorem inv_update (g g' : G K V) (hI : Inv h2 g) (b i : Nat) (v : V) (m : Nat) (p : Ptr) (k : K) (v0 : V)
    (c : UpdateC g g' b i v m p k v0) : Inv h2 g' := by
  have hold := holds_of_entry h2 g hI b i m p k v0 c.m0 c.e0 c.h0
  obtain ⟨k1, v1, hh1, hmk⟩ := hI.cons b i m p c.m0 c.e0
  rw [c.h0] at hh1; cases hh1
  refine inv_of_delta h2 g g' b i c.d hI c.sz ?_ ?_ ?_ ?_
  · intro p' hp'
    rw [c.e1] at hp'; cases hp'
    rw [c.nx]; exact Nat.lt_succ_self _
  · intro m' p' hm' hp'
    rw [c.e1] at hp'; cases hp'
    rw [c.m1] at hm'; cases hm'
    exact ⟨k, v, c.hp, hmk⟩
  · intro k' v' h b' i' hne
    obtain ⟨p', _, he', hh'⟩ := (slotHolds_some_iff h2 g' b i k' v').mp h
    rw [c.e1] at he'; cases he'
    rw [c.hp] at hh'; cases hh'
    cases hx : slotHolds h2 g b' i' k with
    | none => rfl
    | some v'' => exact absurd (hI.uniq b' i' b i k v'' v0 hx hold) hne
  · intro b0 i0 p0 hp0
    rw [c.pnd'] at hp0; cases hp0

theorem inv_append (g g' : G K V) (hI : Inv h2 g) (k : K) (v : V) (c : AppendC h2 g g' k v) : Inv h2 g' := by
  refine inv_of_delta h2 g g' _ _ c.d hI c.sz ?_ ?_ ?_ ?_
  · intro p' hp'
    rw [c.e1] at hp'; cases hp'
    rw [c.nx]; exact Nat.lt_succ_self _
  · intro m' p' hm' hp'
    rw [c.e1] at hp'; cases hp'
    rw [c.m1] at hm'; cases hm'
    exact ⟨k, v, c.hp, rfl⟩
  · intro k' v' h b' i' _
    obtain ⟨p', _, he', hh'⟩ := (slotHolds_some_iff h2 g' _ _ k' v').mp h
    rw [c.e1] at he'; cases he'
    rw [c.hp] at hh'; cases hh'
    exact (content_none_iff h2 g hI.sizes k).mp c.absent b' i'
  · intro b0 i0 p0 hp0
    rw [c.pnd'] at hp0; cases hp0

/-- **The representation invariant is preserved by every legal writer step.** -/
theorem inv_wstep (g g' : G K V) (hI : Inv h2 g) (ws : WStep K V) (h : wstep h2 g ws = some g') : Inv h2 g' := by
  cases wstep_case h2 g g' hI ws h with
  | insMeta b i k v c => exact inv_insMeta h2 g g' hI b i k v c
  | finIns b i p c => exact inv_finIns h2 g g' hI b i p c
  | finDel b i c => exact inv_finDel h2 g g' hI b i c
  | delMeta b i c => exact inv_delMeta h2 g g' hI b i c
  | update b i v m p k v0 c => exact inv_update h2 g g' hI b i v m p k v0 c
  | append k v c => exact inv_append h2 g g' hI k v c

/-! ### what a writer step can do to a slot that holds a key / to an entry pointer -/

theorem holds_or_none_of_delta (g g' : G K V) (b i : Nat) (hd : Delta g g' b i) (hI : Inv h2 g)
    (b0 i0 : Nat) (k : K) (v : V) (h : slotHolds h2 g b0 i0 k = some v)
    (hsame : slotHolds h2 g b i k = some v → (∃ v', slotHolds h2 g' b i k = some v') ∨ content h2 g' k = none) :
    (∃ v', slotHolds h2 g' b0 i0 k = some v') ∨ content h2 g' k = none := by
  by_cases hne : b0 = b ∧ i0 = i
  · obtain ⟨rfl, rfl⟩ := hne; exact hsame h
  · left
    exact ⟨v, by rw [holds_other h2 g g' b i hd hI b0 i0 k hne]; exact h⟩

/-- a slot that logically holds `k` keeps holding `k` (possibly with a new value) across a writer step, or the
step makes `k` logically absent -/
theorem holds_or_none (g g' : G K V) (hI : Inv h2 g) (ws : WStep K V) (hw : wstep h2 g ws = some g')
    (b0 i0 : Nat) (k : K) (v : V) (h : slotHolds h2 g b0 i0 k = some v) :
    (∃ v', slotHolds h2 g' b0 i0 k = some v') ∨ content h2 g' k = none := by
  cases wstep_case h2 g g' hI ws hw with
  | insMeta b i k1 v1 c =>
    refine holds_or_none_of_delta h2 g g' b i c.d hI b0 i0 k v h ?_
    intro hh; rw [slotHolds_none_of_entry h2 g b i k c.e0] at hh; cases hh
  | finIns b i p c =>
    refine holds_or_none_of_delta h2 g g' b i c.d hI b0 i0 k v h ?_
    intro hh; rw [slotHolds_none_of_entry h2 g b i k (hI.pend b i p c.pnd).2.2.1] at hh; cases hh
  | finDel b i c =>
    refine holds_or_none_of_delta h2 g g' b i c.d hI b0 i0 k v h ?_
    intro hh
    right
    have hI' := inv_finDel h2 g g' hI b i c
    rw [content_none_iff h2 g' hI'.sizes]
    intro b' i'
    by_cases hne : b' = b ∧ i' = i
    · obtain ⟨rfl, rfl⟩ := hne
      exact slotHolds_none_of_entry h2 g' b' i' k c.e1
    · rw [holds_other h2 g g' b i c.d hI b' i' k hne]
      cases hx : slotHolds h2 g b' i' k with
      | none => rfl
      | some v'' => exact absurd (hI.uniq b' i' b i k v'' v hx hh) hne
  | delMeta b i c =>
    refine holds_or_none_of_delta h2 g g' b i c.d hI b0 i0 k v h ?_
    intro hh
    right
    have hI' := inv_delMeta h2 g g' hI b i c
    rw [content_none_iff h2 g' hI'.sizes]
    intro b' i'
    by_cases hne : b' = b ∧ i' = i
    · obtain ⟨rfl, rfl⟩ := hne
      exact slotHolds_none_of_meta h2 g' b' i' k c.m1
    · rw [holds_other h2 g g' b i c.d hI b' i' k hne]
      cases hx : slotHolds h2 g b' i' k with
      | none => rfl
      | some v'' => exact absurd (hI.uniq b' i' b i k v'' v hx hh) hne
  | update b i v1 m p k1 v0 c =>
    refine holds_or_none_of_delta h2 g g' b i c.d hI b0 i0 k v h ?_
    intro hh
    left
    obtain ⟨p', hm', he', hh'⟩ := (slotHolds_some_iff h2 g b i k v).mp hh
    rw [c.e0] at he'; cases he'
    rw [c.h0] at hh'; cases hh'
    rw [c.m0] at hm'
    exact ⟨v1, (slotHolds_some_iff h2 g' b i k v1).mpr ⟨g.nextPtr, c.m1.trans hm', c.e1, c.hp⟩⟩
  | append k1 v1 c =>
    refine holds_or_none_of_delta h2 g g' _ _ c.d hI b0 i0 k v h ?_
    intro hh
    rw [slotHolds_none_of_meta h2 g _ _ k (getMeta_none_of_ge g _ _ (Nat.le_refl _))] at hh; cases hh

theorem entry_new_of_delta (g g' : G K V) (b i : Nat) (hd : Delta g g' b i) (hI : Inv h2 g)
    (b1 i1 : Nat) (p' : Ptr) (k : K) (v : V) (he : getEntry g' b1 i1 = some p') (hh : g'.heap p' = some (k, v))
    (hsame : getEntry g' b i = some p' →
      (getEntry g b i = some p' ∧ g.heap p' = some (k, v)) ∨ slotHolds h2 g' b i k = some v) :
    (getEntry g b1 i1 = some p' ∧ g.heap p' = some (k, v)) ∨ slotHolds h2 g' b1 i1 k = some v := by
  by_cases hne : b1 = b ∧ i1 = i
  · obtain ⟨rfl, rfl⟩ := hne; exact hsame he
  · left
    rw [hd.entry_other b1 i1 hne] at he
    exact ⟨he, by rw [← hd.heap_old p' (hI.alloc b1 i1 p' he)]; exact hh⟩

/-- an entry for `k` seen in a slot after a writer step was already there before the step, or the slot logically
holds `k` with that value right after the step -/
theorem entry_new (g g' : G K V) (hI : Inv h2 g) (ws : WStep K V) (hw : wstep h2 g ws = some g')
    (b1 i1 : Nat) (p' : Ptr) (k : K) (v : V) (he : getEntry g' b1 i1 = some p') (hh : g'.heap p' = some (k, v)) :
    (getEntry g b1 i1 = some p' ∧ g.heap p' = some (k, v)) ∨ slotHolds h2 g' b1 i1 k = some v := by
  have hI' := inv_wstep h2 g g' hI ws hw
  cases wstep_case h2 g g' hI ws hw with
  | insMeta b i k1 v1 c =>
    refine entry_new_of_delta h2 g g' b i c.d hI b1 i1 p' k v he hh ?_
    intro he'; rw [c.e1] at he'; cases he'
  | finIns b i p c =>
    refine entry_new_of_delta h2 g g' b i c.d hI b1 i1 p' k v he hh ?_
    intro he'
    right
    obtain ⟨_, _, _, _, k2, v2, _, hm, _⟩ := hI.pend b i p c.pnd
    exact holds_of_entry h2 g' hI' b i _ p' k v (c.m1.trans hm) he' hh
  | finDel b i c =>
    refine entry_new_of_delta h2 g g' b i c.d hI b1 i1 p' k v he hh ?_
    intro he'; rw [c.e1] at he'; cases he'
  | delMeta b i c =>
    refine entry_new_of_delta h2 g g' b i c.d hI b1 i1 p' k v he hh ?_
    intro he'
    left
    rw [c.e1] at he'
    exact ⟨he', by rw [← c.d.heap_old p' (hI.alloc b i p' he')]; exact hh⟩
  | update b i v1 m p k1 v0 c =>
    refine entry_new_of_delta h2 g g' b i c.d hI b1 i1 p' k v he hh ?_
    intro he'
    right
    exact holds_of_entry h2 g' hI' b i _ p' k v c.m1 he' hh
  | append k1 v1 c =>
    refine entry_new_of_delta h2 g g' _ _ c.d hI b1 i1 p' k v he hh ?_
    intro he'
    right
    exact holds_of_entry h2 g' hI' _ _ _ p' k v c.m1 he' hh

end Proofs.SlotMapOfInv
