import CacheVerif.Proofs.ProtoLocks
import CacheVerif.Proofs.AMapFilter
/-!
# M4a invariants, bundle 2: table contents, counters, resize preserves the bindings

On top of the lock invariants (`ProtoLocks`): every table generation holds a duplicate-free association list;
the striped counter plus the deltas writers have not added yet equals the number of entries (per generation);
while a grow/shrink copies bucket by bucket the new table holds exactly the entries of the buckets copied so
far, no writer can touch a copied bucket, and therefore publishing the new table does not change the abstract
content `abs` (= what `Load` sees in the current table); `abs` changes only at the commit step of a writer
working on the current table and at the publish step of `Clear`.
-/
set_option linter.unusedSectionVars false
set_option linter.unusedVariables false
namespace Proofs.ProtoData
open Spec Model.Proto Proofs.ProtoLocks

variable {K V : Type} [DecidableEq K]

/-- the abstract content: what a lookup sees -/
def absGet (g : G K V) (k : K) : Option V := (g.tables g.cur).data.get k

/-- a writer whose size delta has not reached the counter yet -/
def pendingOn (l : L K V) (T : Nat) : Bool := (l.pc = .dcUnlock || l.pc = .dcAddSize) && l.tbl = T

/-- sum of the pending deltas on table `T` over the threads `< N` -/
def pendSum (s : St K V) (T : Nat) : Nat → Int
  | 0 => 0
  | n + 1 => pendSum s T n + (if pendingOn (s.l n) T then (s.l n).delta else 0)

/-! ## part: association lists -/

/-- what `rzCopyDo` does to the data of the new table -/
def copyInto (d : AMap K V) (es : List (K × V)) : AMap K V := es.foldl (fun d e => d.set e.1 e.2) d

theorem copyInto_nil (d : AMap K V) : copyInto d [] = d := rfl
theorem copyInto_cons (d : AMap K V) (e : K × V) (es : List (K × V)) :
    copyInto d (e :: es) = copyInto (d.set e.1 e.2) es := rfl

theorem get_filter_key (m : AMap K V) (P : K → Bool) (k : K) :
    AMap.get (m.filter fun e => P e.1) k = if P k then AMap.get m k else none := by
  induction m with
  | nil => simp
  | cons e m ih =>
    obtain ⟨k', v⟩ := e
    by_cases hp : P k' = true
    · rw [List.filter_cons_of_pos (by simpa using hp)]
      by_cases hk : k' = k
      · subst hk; simp [hp]
      · simp only [AMap.get_cons, if_neg hk]; exact ih
    · rw [List.filter_cons_of_neg (by simpa using hp)]
      by_cases hk : k' = k
      · subst hk; rw [ih]; simp [hp]
      · simp only [AMap.get_cons, if_neg hk]; exact ih

theorem WF_filter (m : AMap K V) (P : K × V → Bool) (h : AMap.WF m) : AMap.WF (m.filter P) :=
  List.Nodup.sublist (List.Sublist.map _ List.filter_sublist) h

theorem WF_cons (k : K) (v : V) (m : AMap K V) : AMap.WF ((k, v) :: m) ↔ AMap.get m k = none ∧ AMap.WF m := by
  rw [AMap.get_eq_none_iff]
  simp only [AMap.WF, AMap.keys, List.map_cons, List.nodup_cons]

theorem WF_copyInto (d : AMap K V) (es : List (K × V)) (h : AMap.WF d) : AMap.WF (copyInto d es) := by
  induction es generalizing d with
  | nil => exact h
  | cons e es ih => rw [copyInto_cons]; exact ih _ (AMap.WF_set d e.1 e.2 h)

theorem get_copyInto (d : AMap K V) (es : List (K × V)) (hw : AMap.WF es) (k : K) :
    AMap.get (copyInto d es) k = match AMap.get es k with
      | some v => some v
      | none => AMap.get d k := by
  induction es generalizing d with
  | nil => rfl
  | cons e es ih =>
    obtain ⟨k', v⟩ := e
    obtain ⟨hn, hw'⟩ := (WF_cons k' v es).mp hw
    rw [copyInto_cons, ih _ hw', AMap.get_cons, AMap.get_set]
    by_cases hk : k' = k
    · subst hk; simp [hn]
    · simp [hk]

theorem length_set_none (d : AMap K V) (k : K) (v : V) (h : AMap.get d k = none) :
    (AMap.set d k v).length = d.length + 1 := by
  unfold AMap.set; rw [AMap.erase_of_get_none d k h]; rfl

theorem length_set_some (d : AMap K V) (hw : AMap.WF d) (k : K) (v v' : V) (h : AMap.get d k = some v') :
    (AMap.set d k v).length = d.length := by
  have := AMap.length_erase_of_get_some d hw k v' h
  unfold AMap.set; simp only [List.length_cons]; omega

theorem length_copyInto (d : AMap K V) (es : List (K × V)) (hw : AMap.WF es)
    (hnew : ∀ k v, AMap.get es k = some v → AMap.get d k = none) :
    (copyInto d es).length = d.length + es.length := by
  induction es generalizing d with
  | nil => rfl
  | cons e es ih =>
    obtain ⟨k', v⟩ := e
    obtain ⟨hn, hw'⟩ := (WF_cons k' v es).mp hw
    rw [copyInto_cons, ih _ hw', length_set_none d k' v (hnew k' v (by simp))]
    · simp only [List.length_cons]; omega
    · intro k v' hk
      have hne : k' ≠ k := by intro e; subst e; rw [hn] at hk; cases hk
      rw [AMap.get_set, if_neg hne]
      exact hnew k v' (by rw [AMap.get_cons, if_neg hne]; exact hk)

/-! ## part: Defs -/

/-- pcs at which `l.bi` is the bucket of the key in table `l.tbl` -/
def hasBi : Pc → Bool
  | .dcLock | .dcChkResizing | .dcChkTable | .dcScan | .dcSum | .dcFn | .dcCommit => true
  | _ => false

/-- a writer that has passed both checks (`resizing`, `cur`) and not committed yet -/
def pastChk : Pc → Bool
  | .dcChkTable | .dcScan | .dcSum | .dcFn | .dcCommit => true
  | _ => false

/-- copy progress of a resizer: the buckets `< c` of the old table have been copied -/
def copyC (l : L K V) : Option Nat :=
  match l.pc with
  | .rzCopyLock | .rzCopyDo => some l.ci
  | .rzCopyUnlock => some (l.ci + 1)
  | .rzPublish => if l.hint = .clear then none else some l.ci
  | _ => none

/-- the new table `n` holds exactly the entries of the buckets `< c` of the old table `o` -/
def Copied (p : Params K) (g : G K V) (o n c : Nat) : Prop :=
  ∀ k, (g.tables n).data.get k = if bucketOf p g o k < c then (g.tables o).data.get k else none

structure GD (g : G K V) : Prop where
  wf : ∀ T, AMap.WF (g.tables T).data
  lenPos : ∀ T, 0 < (g.tables T).len

structure LD (p : Params K) (g : G K V) (l : L K V) : Prop where
  tblLe : l.tbl ≤ g.cur
  framesLe : ∀ f ∈ l.frames, f.tbl ≤ g.cur
  bkt : hasBi l.pc = true → ∀ k, opKey l = some k → l.bi = bucketOf p g l.tbl k
  old : (l.pc = .dcSum ∨ l.pc = .dcFn ∨ l.pc = .dcCommit) → ∀ k, opKey l = some k → l.old = (g.tables l.tbl).data.get k
  rcur : (usesRtbl l.pc = true ∨ l.pc = .rzPublish) → l.rtbl = g.cur
  newGt : usesNewT l.pc = true → g.cur < l.newT
  noclr : (l.pc = .rzDecideSum ∨ l.pc = .rzCopyLock ∨ l.pc = .rzCopyDo ∨ l.pc = .rzCopyUnlock) → l.hint ≠ .clear
  copy : ∀ c, copyC l = some c → Copied p g l.rtbl l.newT c
  full : l.pc = .rzPublish → l.hint ≠ .clear → (g.tables l.rtbl).len ≤ l.ci
  clr : l.pc = .rzPublish → l.hint = .clear → (g.tables l.newT).data = []
  /-- the length check of a shrink (`rzDecide`) still holds while the counter is summed -/
  shr : l.pc = .rzDecideSum → p.minLen < (g.tables l.rtbl).len

/-- relation between a resizer `r` and a writer `u`: a writer past its checks on the table being copied holds
a bucket that has not been copied yet -/
def Pair (r u : L K V) : Prop :=
  ∀ c, copyC r = some c → pastChk u.pc = true → u.tbl = r.rtbl → c ≤ u.bi

/-- the globals agree on everything the data invariants look at -/
def SameD (g g' : G K V) : Prop :=
  g'.cur = g.cur ∧ ∀ T, (g'.tables T).len = (g.tables T).len ∧ (g'.tables T).data = (g.tables T).data

theorem bucketOf_congr (p : Params K) (g g' : G K V) (T : Nat) (k : K)
    (h : (g'.tables T).len = (g.tables T).len) : bucketOf p g' T k = bucketOf p g T k := by
  unfold bucketOf; rw [h]

theorem Copied_congr (p : Params K) (g g' : G K V) (o n c : Nat)
    (ho : (g'.tables o).len = (g.tables o).len) (hod : (g'.tables o).data = (g.tables o).data)
    (hn : (g'.tables n).data = (g.tables n).data) (h : Copied p g o n c) : Copied p g' o n c := by
  intro k; rw [hn, hod, bucketOf_congr p g g' o k ho]; exact h k

theorem GD_same (g g' : G K V) (h : SameD g g') (hd : GD g) : GD g' :=
  ⟨fun T => by rw [(h.2 T).2]; exact hd.wf T, fun T => by rw [(h.2 T).1]; exact hd.lenPos T⟩

theorem LD_same (p : Params K) (g g' : G K V) (l : L K V) (h : SameD g g') (hd : LD p g l) : LD p g' l := by
  obtain ⟨hc, ht⟩ := h
  refine ⟨by rw [hc]; exact hd.tblLe, fun f hf => by rw [hc]; exact hd.framesLe f hf, ?_, ?_, ?_, ?_, hd.noclr, ?_, ?_, ?_,
    fun h1 => by rw [(ht _).1]; exact hd.shr h1⟩
  · intro h1 k hk; rw [bucketOf_congr p g g' _ k (ht _).1]; exact hd.bkt h1 k hk
  · intro h1 k hk; rw [(ht _).2]; exact hd.old h1 k hk
  · intro h1; rw [hc]; exact hd.rcur h1
  · intro h1; rw [hc]; exact hd.newGt h1
  · intro c h1; exact Copied_congr p g g' _ _ c (ht _).1 (ht _).2 (ht _).2 (hd.copy c h1)
  · intro h1 h2; rw [(ht _).1]; exact hd.full h1 h2
  · intro h1 h2; rw [(ht _).2]; exact hd.clr h1 h2

theorem ite_len_app (c : Prop) [Decidable c] (a b : PTbl K V) :
    (if c then a else b).len = if c then a.len else b.len := by split <;> rfl
theorem ite_data_app (c : Prop) [Decidable c] (a b : PTbl K V) :
    (if c then a else b).data = if c then a.data else b.data := by split <;> rfl

theorem sameD_refl (g : G K V) : SameD g g := ⟨rfl, fun _ => ⟨rfl, rfl⟩⟩

theorem sameD_setLock (g : G K V) (T i : Nat) (o : Option Tid) : SameD g (setTbl g T ((g.tables T).setLock i o)) := by
  refine ⟨rfl, fun T' => ?_⟩
  simp only [setTbl, PTbl.setLock]
  split
  · rename_i h; subst h; exact ⟨rfl, rfl⟩
  · exact ⟨rfl, rfl⟩

theorem sameD_addCtr (g : G K V) (T n bi : Nat) (d : Int) : SameD g (setTbl g T ((g.tables T).addCtr n bi d)) := by
  refine ⟨rfl, fun T' => ?_⟩
  simp only [setTbl, PTbl.addCtr]
  split
  · rename_i h; subst h; exact ⟨rfl, rfl⟩
  · exact ⟨rfl, rfl⟩

/-- every step except the commit, the allocation (`rzDecide`, or `rzDecideSum` for a shrink), the copy and the
publish leaves `cur`, the lengths and the data alone -/
theorem quiet_sameD (p : Params K) (t : Tid) (g : G K V) (l : L K V) (c : Choice K V) (g' : G K V) (l' : L K V)
    (h1 : l.pc ≠ .dcCommit) (h2 : ¬ (l.pc = .rzDecide ∨ l.pc = .rzDecideSum)) (h3 : l.pc ≠ .rzCopyDo) (h4 : l.pc ≠ .rzPublish)
    (hs : tstep p t g l c = some (g', l')) : SameD g g' := by
  cases hpc : l.pc <;>
    simp only [hpc, ne_eq, not_true_eq_false, reduceCtorEq, not_false_eq_true, or_self, or_false, false_or] at h1 h2 h3 h4 <;>
    simp only [tstep, hpc] at hs <;> (repeat' split at hs) <;>
    simp only [Option.some.injEq, reduceCtorEq, Prod.mk.injEq] at hs <;> obtain ⟨rfl, -⟩ := hs <;>
    first | exact sameD_refl _ | exact sameD_setLock _ _ _ _ | exact sameD_addCtr _ _ _ _ _ | exact ⟨rfl, fun _ => ⟨rfl, rfl⟩⟩

theorem LD_of_quiet (p : Params K) (g : G K V) (l : L K V)
    (hpc : l.pc = .ret ∨ l.pc = .dcLoadTable ∨ l.pc = .rzCas ∨ l.pc = .ldTable ∨ l.pc = .dcFast ∨ l.pc = .szTable
      ∨ l.pc = .clTable ∨ l.pc = .rgTable)
    (ht : l.tbl ≤ g.cur) (hf : ∀ f ∈ l.frames, f.tbl ≤ g.cur) : LD p g l := by
  rcases hpc with h | h | h | h | h | h | h | h <;> (refine ⟨ht, hf, ?_, ?_, ?_, ?_, ?_, ?_, ?_, ?_, ?_⟩) <;>
    simp [h, hasBi, usesRtbl, usesNewT, copyC]

theorem popContAux_tbl (l : L K V) : (popCont.popContAux l).tbl = l.tbl := by
  unfold popCont.popContAux; split <;> rfl

theorem popCont_tbl (l : L K V) : (popCont l).tbl = l.tbl := by
  unfold popCont; split <;> (try split) <;> (try rfl)
  exact popContAux_tbl _

theorem startOp_tbl (l : L K V) (op : POp K V) : (startOp l op).tbl = l.tbl := by
  rcases op with _ | ⟨_, _, _ | _, _⟩ | _ | _ | _ <;> rfl

theorem LD_popCont (p : Params K) (g : G K V) (l : L K V) (hd : LD p g l) : LD p g (popCont l) := by
  obtain ⟨hp, hf⟩ := popCont_pc l
  exact LD_of_quiet p g _ (by grind) (by rw [popCont_tbl]; exact hd.tblLe) (by rw [hf]; exact hd.framesLe)

set_option hygiene false in
local macro "selfq_tac" : tactic => `(tactic| (
      repeat' split at hs
      all_goals simp only [Option.some.injEq, reduceCtorEq, Prod.mk.injEq] at hs
      all_goals obtain ⟨-, rfl⟩ := hs
      all_goals (refine ⟨?_, ?_, ?_, ?_, ?_, ?_, ?_, ?_, ?_, ?_, ?_⟩)
      all_goals simp_all [hasBi, usesRtbl, usesNewT, copyC, opKey_eq, callResize, callWait]))

set_option hygiene false in
local macro "selfq_case" n:ident pc:term : command =>
  `(theorem $n {K V : Type} [DecidableEq K] (p : Params K) (t : Tid) (g : G K V) (l : L K V) (c : Choice K V) (g' : G K V) (l' : L K V)
    (hd : LD p g l) (hpc : l.pc = $pc) (hs : tstep p t g l c = some (g', l')) : LD p g l' := by
  obtain ⟨d1, d2, d3, d4, d5, d6, d7, d8, d9, d10, d11⟩ := hd
  simp only [tstep, hpc, opKey_eq] at hs
  selfq_tac)

selfq_case selfq_ldTable Pc.ldTable
selfq_case selfq_ldRead Pc.ldRead
selfq_case selfq_szTable Pc.szTable
selfq_case selfq_szSum Pc.szSum
selfq_case selfq_dcFast Pc.dcFast
selfq_case selfq_dcLoadTable Pc.dcLoadTable
selfq_case selfq_dcLock Pc.dcLock
selfq_case selfq_dcChkResizing Pc.dcChkResizing
selfq_case selfq_dcChkTable Pc.dcChkTable
selfq_case selfq_dcScan Pc.dcScan
selfq_case selfq_dcSum Pc.dcSum
selfq_case selfq_dcFn Pc.dcFn
selfq_case selfq_dcUnlock Pc.dcUnlock
selfq_case selfq_dcAddSize Pc.dcAddSize
selfq_case selfq_dcMaybeShrink Pc.dcMaybeShrink
selfq_case selfq_dcUnlockWait Pc.dcUnlockWait
selfq_case selfq_dcUnlockRetry Pc.dcUnlockRetry
selfq_case selfq_dcUnlockGrow Pc.dcUnlockGrow
selfq_case selfq_rzCas Pc.rzCas
selfq_case selfq_rzLoadTable Pc.rzLoadTable
selfq_case selfq_rzCopyLock Pc.rzCopyLock
selfq_case selfq_rzCopyUnlock Pc.rzCopyUnlock
selfq_case selfq_rzMuLock Pc.rzMuLock
selfq_case selfq_rzClearFlag Pc.rzClearFlag
selfq_case selfq_rzBroadcast Pc.rzBroadcast
selfq_case selfq_wfMuLock Pc.wfMuLock
selfq_case selfq_wfChk Pc.wfChk
selfq_case selfq_wfPark Pc.wfPark
selfq_case selfq_wfRelock Pc.wfRelock
selfq_case selfq_clTable Pc.clTable
selfq_case selfq_rgTable Pc.rgTable
selfq_case selfq_rgLock Pc.rgLock
selfq_case selfq_rgCopy Pc.rgCopy
selfq_case selfq_rgUnlock Pc.rgUnlock
selfq_case selfq_ret Pc.ret

/-- pcs at which every guarded clause of `LD` is vacuous -/
def quietPc : Pc → Bool
  | .dcLock | .dcChkResizing | .dcChkTable | .dcScan | .dcSum | .dcFn | .dcCommit
  | .rzDecide | .rzDecideSum | .rzCopyLock | .rzCopyDo | .rzCopyUnlock | .rzPublish => false
  | _ => true

theorem LD_of_quietPc (p : Params K) (g : G K V) (l : L K V) (hpc : quietPc l.pc = true)
    (ht : l.tbl ≤ g.cur) (hf : ∀ f ∈ l.frames, f.tbl ≤ g.cur) : LD p g l := by
  cases h : l.pc <;> simp [h, quietPc] at hpc <;> (refine ⟨ht, hf, ?_, ?_, ?_, ?_, ?_, ?_, ?_, ?_, ?_⟩) <;>
    simp [h, hasBi, usesRtbl, usesNewT, copyC]

/-- a step of somebody else that only touches tables above `cur` (allocation, copy) or moves `cur` forward
(publish) does not disturb a thread that is not the resizer -/
theorem LD_other_nonres (p : Params K) (g g' : G K V) (m : L K V) (hm : LD p g m) (hr : isResizer m.pc = false)
    (hc : g.cur ≤ g'.cur)
    (ht : ∀ T, T ≤ g.cur → (g'.tables T).len = (g.tables T).len ∧ (g'.tables T).data = (g.tables T).data) :
    LD p g' m := by
  have h1 := ht _ hm.tblLe
  refine ⟨Nat.le_trans hm.tblLe hc, fun f hf => Nat.le_trans (hm.framesLe f hf) hc, ?_, ?_, ?_, ?_, ?_, ?_, ?_, ?_, ?_⟩
  · intro h k hk; rw [bucketOf_congr p g g' _ k h1.1]; exact hm.bkt h k hk
  · intro h k hk; rw [h1.2]; exact hm.old h k hk
  all_goals (revert hr; cases h : m.pc <;> simp [h, isResizer, usesRtbl, usesNewT, copyC])

theorem copyC_pcs (l : L K V) (c : Nat) (h : copyC l = some c) :
    usesNewT l.pc = true ∧ isResizer l.pc = true ∧ pastChk l.pc = false ∧ hasBi l.pc = false := by
  revert h; cases hp : l.pc <;> simp [copyC, hp, usesNewT, isResizer, pastChk, hasBi]

/-- a commit of somebody else: the data of one table `T0 ≤ cur` changes at one key `k` -/
theorem LD_other_key (p : Params K) (g g' : G K V) (m : L K V) (T0 : Nat) (k : K) (hm : LD p g m)
    (hc : g'.cur = g.cur) (hT0 : T0 ≤ g.cur)
    (hlen : ∀ T, (g'.tables T).len = (g.tables T).len)
    (hoth : ∀ T, T ≠ T0 → (g'.tables T).data = (g.tables T).data)
    (hkey : ∀ k2, k2 ≠ k → (g'.tables T0).data.get k2 = (g.tables T0).data.get k2)
    (hex : (m.pc = .dcSum ∨ m.pc = .dcFn ∨ m.pc = .dcCommit) → m.tbl = T0 → opKey m ≠ some k)
    (hpair : ∀ c, copyC m = some c → m.rtbl = T0 → c ≤ bucketOf p g T0 k) : LD p g' m := by
  have hng : ∀ c, copyC m = some c → g.cur < m.newT := by
    intro c hcc; exact hm.newGt (copyC_pcs m c hcc).1
  refine ⟨by rw [hc]; exact hm.tblLe, fun f hf => by rw [hc]; exact hm.framesLe f hf, ?_, ?_, ?_, ?_, hm.noclr, ?_, ?_, ?_,
    fun h1 => by rw [hlen]; exact hm.shr h1⟩
  · intro h k hk; rw [bucketOf_congr p g g' _ k (hlen _)]; exact hm.bkt h k hk
  · intro h k2 hk
    rw [hm.old h k2 hk]
    by_cases hT : m.tbl = T0
    · have hne : k2 ≠ k := by intro e; subst e; exact hex h hT hk
      rw [hT, hkey k2 hne]
    · rw [hoth _ hT]
  · intro h; rw [hc]; exact hm.rcur h
  · intro h; rw [hc]; exact hm.newGt h
  · intro c hcc
    have hn := hng c hcc
    have hnT : m.newT ≠ T0 := by omega
    have hcp := hm.copy c hcc
    by_cases hT : m.rtbl = T0
    · intro k2
      rw [hoth _ hnT, bucketOf_congr p g g' _ k2 (hlen _)]
      by_cases hk : k2 = k
      · subst hk
        have := hpair c hcc hT
        have h2 := hcp k2
        rw [hT] at h2 ⊢
        rw [if_neg (by omega)] at h2 ⊢
        exact h2
      · rw [hT, hkey k2 hk, ← hT]; exact hcp k2
    · exact Copied_congr p g g' _ _ c (hlen _) (hoth _ hT) (hoth _ hnT) hcp
  · intro h1 h2; rw [hlen]; exact hm.full h1 h2
  · intro h1 h2
    have hn := hm.newGt (by rw [h1]; rfl)
    rw [hoth _ (by omega)]; exact hm.clr h1 h2

theorem LD_startOp (p : Params K) (g : G K V) (l : L K V) (op : POp K V)
    (ht : l.tbl ≤ g.cur) (hf : ∀ f ∈ l.frames, f.tbl ≤ g.cur) : LD p g (startOp l op) := by
  obtain ⟨hp, hfr⟩ := startOp_pc l op
  exact LD_of_quiet p g _ (by grind) (by rw [startOp_tbl]; exact ht) (by rw [hfr]; exact hf)

theorem selfq_idle (p : Params K) (t : Tid) (g : G K V) (l : L K V) (c : Choice K V) (g' : G K V) (l' : L K V)
    (hd : LD p g l) (hpc : l.pc = .idle) (hs : tstep p t g l c = some (g', l')) : LD p g l' := by
  simp only [tstep, hpc] at hs
  split at hs
  · simp only [Option.some.injEq, Prod.mk.injEq] at hs
    obtain ⟨-, rfl⟩ := hs
    exact LD_startOp p g l _ hd.tblLe hd.framesLe
  · simp at hs

theorem selfq_rgVisit (p : Params K) (t : Tid) (g : G K V) (l : L K V) (c : Choice K V) (g' : G K V) (l' : L K V)
    (hd : LD p g l) (hpc : l.pc = .rgVisit) (hs : tstep p t g l c = some (g', l')) : LD p g l' := by
  simp only [tstep, hpc] at hs
  split at hs
  · simp only [Option.some.injEq, Prod.mk.injEq] at hs
    obtain ⟨-, rfl⟩ := hs
    refine LD_startOp p g _ _ hd.tblLe ?_
    intro f hf
    simp only [List.mem_cons] at hf
    rcases hf with rfl | hf
    · exact hd.tblLe
    · exact hd.framesLe f hf
  · (repeat' split at hs) <;> simp only [Option.some.injEq, Prod.mk.injEq] at hs <;> obtain ⟨-, rfl⟩ := hs <;>
      exact LD_of_quietPc p g _ (by simp [quietPc]) hd.tblLe hd.framesLe

theorem selfq_rzFast (p : Params K) (t : Tid) (g : G K V) (l : L K V) (c : Choice K V) (g' : G K V) (l' : L K V)
    (hd : LD p g l) (hpc : l.pc = .rzFast) (hs : tstep p t g l c = some (g', l')) : LD p g l' := by
  simp only [tstep, hpc] at hs
  (repeat' split at hs) <;> simp only [Option.some.injEq, Prod.mk.injEq] at hs <;> obtain ⟨-, rfl⟩ := hs
  · exact LD_popCont p g l hd
  · exact LD_of_quietPc p g _ (by simp [quietPc]) hd.tblLe hd.framesLe
  · exact LD_of_quietPc p g _ (by simp [quietPc]) hd.tblLe hd.framesLe

theorem selfq_rzFastSum (p : Params K) (t : Tid) (g : G K V) (l : L K V) (c : Choice K V) (g' : G K V) (l' : L K V)
    (hd : LD p g l) (hpc : l.pc = .rzFastSum) (hs : tstep p t g l c = some (g', l')) : LD p g l' := by
  simp only [tstep, hpc] at hs
  (repeat' split at hs) <;> simp only [Option.some.injEq, Prod.mk.injEq] at hs <;> obtain ⟨-, rfl⟩ := hs
  · exact LD_of_quietPc p g _ (by simp [quietPc]) hd.tblLe hd.framesLe
  · exact LD_popCont p g l hd
  · exact LD_of_quietPc p g _ (by simp [quietPc]) hd.tblLe hd.framesLe

theorem selfq_rzMuUnlock (p : Params K) (t : Tid) (g : G K V) (l : L K V) (c : Choice K V) (g' : G K V) (l' : L K V)
    (hd : LD p g l) (hpc : l.pc = .rzMuUnlock) (hs : tstep p t g l c = some (g', l')) : LD p g l' := by
  simp only [tstep, hpc, Option.some.injEq, Prod.mk.injEq] at hs
  obtain ⟨-, rfl⟩ := hs
  exact LD_popCont p g l hd

theorem selfq_wfMuUnlock (p : Params K) (t : Tid) (g : G K V) (l : L K V) (c : Choice K V) (g' : G K V) (l' : L K V)
    (hd : LD p g l) (hpc : l.pc = .wfMuUnlock) (hs : tstep p t g l c = some (g', l')) : LD p g l' := by
  simp only [tstep, hpc, Option.some.injEq, Prod.mk.injEq] at hs
  obtain ⟨-, rfl⟩ := hs
  exact LD_popCont p g l hd

/-- the stepping thread, quiet steps: its new locals satisfy `LD` (w.r.t. the old globals) -/
theorem selfq (p : Params K) (t : Tid) (g : G K V) (l : L K V) (c : Choice K V) (g' : G K V) (l' : L K V)
    (hd : LD p g l) (h1 : l.pc ≠ .dcCommit) (h2 : ¬ (l.pc = .rzDecide ∨ l.pc = .rzDecideSum)) (h3 : l.pc ≠ .rzCopyDo) (h4 : l.pc ≠ .rzPublish)
    (hs : tstep p t g l c = some (g', l')) : LD p g l' := by
  cases hpc : l.pc
  · exact selfq_idle p t g l c g' l' hd hpc hs
  · exact selfq_ldTable p t g l c g' l' hd hpc hs
  · exact selfq_ldRead p t g l c g' l' hd hpc hs
  · exact selfq_szTable p t g l c g' l' hd hpc hs
  · exact selfq_szSum p t g l c g' l' hd hpc hs
  · exact selfq_dcFast p t g l c g' l' hd hpc hs
  · exact selfq_dcLoadTable p t g l c g' l' hd hpc hs
  · exact selfq_dcLock p t g l c g' l' hd hpc hs
  · exact selfq_dcChkResizing p t g l c g' l' hd hpc hs
  · exact selfq_dcChkTable p t g l c g' l' hd hpc hs
  · exact selfq_dcScan p t g l c g' l' hd hpc hs
  · exact selfq_dcSum p t g l c g' l' hd hpc hs
  · exact selfq_dcFn p t g l c g' l' hd hpc hs
  · exact absurd hpc h1
  · exact selfq_dcUnlock p t g l c g' l' hd hpc hs
  · exact selfq_dcAddSize p t g l c g' l' hd hpc hs
  · exact selfq_dcMaybeShrink p t g l c g' l' hd hpc hs
  · exact selfq_dcUnlockWait p t g l c g' l' hd hpc hs
  · exact selfq_dcUnlockRetry p t g l c g' l' hd hpc hs
  · exact selfq_dcUnlockGrow p t g l c g' l' hd hpc hs
  · exact selfq_rzFast p t g l c g' l' hd hpc hs
  · exact selfq_rzFastSum p t g l c g' l' hd hpc hs
  · exact selfq_rzCas p t g l c g' l' hd hpc hs
  · exact selfq_rzLoadTable p t g l c g' l' hd hpc hs
  · exact absurd (Or.inl hpc) h2
  · exact absurd (Or.inr hpc) h2
  · exact selfq_rzCopyLock p t g l c g' l' hd hpc hs
  · exact absurd hpc h3
  · exact selfq_rzCopyUnlock p t g l c g' l' hd hpc hs
  · exact absurd hpc h4
  · exact selfq_rzMuLock p t g l c g' l' hd hpc hs
  · exact selfq_rzClearFlag p t g l c g' l' hd hpc hs
  · exact selfq_rzBroadcast p t g l c g' l' hd hpc hs
  · exact selfq_rzMuUnlock p t g l c g' l' hd hpc hs
  · exact selfq_wfMuLock p t g l c g' l' hd hpc hs
  · exact selfq_wfChk p t g l c g' l' hd hpc hs
  · exact selfq_wfPark p t g l c g' l' hd hpc hs
  · exact selfq_wfRelock p t g l c g' l' hd hpc hs
  · exact selfq_wfMuUnlock p t g l c g' l' hd hpc hs
  · exact selfq_clTable p t g l c g' l' hd hpc hs
  · exact selfq_rgTable p t g l c g' l' hd hpc hs
  · exact selfq_rgLock p t g l c g' l' hd hpc hs
  · exact selfq_rgCopy p t g l c g' l' hd hpc hs
  · exact selfq_rgUnlock p t g l c g' l' hd hpc hs
  · exact selfq_rgVisit p t g l c g' l' hd hpc hs
  · exact selfq_ret p t g l c g' l' hd hpc hs

/-! ### the four steps that change `cur` or some `data` -/

/-- shape of the commit step -/
theorem commit_shape (p : Params K) (t : Tid) (g : G K V) (l : L K V) (c : Choice K V) (g' : G K V) (l' : L K V)
    (hpc : l.pc = .dcCommit) (hs : tstep p t g l c = some (g', l')) :
    ∃ k nv del, opKey l = some k ∧ l.fnres = some (nv, del) ∧ l'.pc = .dcUnlock ∧ l'.tbl = l.tbl ∧ l'.frames = l.frames ∧
      ((∃ ov, l.old = some ov ∧ del = true ∧ l'.delta = -1 ∧
          g' = setTbl g l.tbl { g.tables l.tbl with data := (g.tables l.tbl).data.erase k }) ∨
       (∃ ov, l.old = some ov ∧ del = false ∧ l'.delta = 0 ∧
          g' = setTbl g l.tbl { g.tables l.tbl with data := (g.tables l.tbl).data.set k nv }) ∨
       (l.old = none ∧ del = true ∧ l'.delta = 0 ∧ g' = g) ∨
       (l.old = none ∧ del = false ∧ l'.delta = 1 ∧
          g' = setTbl g l.tbl { g.tables l.tbl with data := (g.tables l.tbl).data.set k nv })) := by
  simp only [tstep, hpc] at hs
  split at hs
  · rename_i k nv del hk hf
    refine ⟨k, nv, del, hk, hf, ?_⟩
    (repeat' split at hs) <;> simp only [Option.some.injEq, Prod.mk.injEq] at hs <;> obtain ⟨rfl, rfl⟩ := hs <;>
      simp_all
  · simp at hs

/-- what a step does to the tables when it changes the data of one table at one key -/
def KeyFrame (g g' : G K V) (T0 : Nat) (k : K) : Prop :=
    g'.cur = g.cur ∧ g'.ntables = g.ntables ∧ (∀ T, (g'.tables T).len = (g.tables T).len ∧ (g'.tables T).ctr = (g.tables T).ctr) ∧
    (∀ T, T ≠ T0 → (g'.tables T).data = (g.tables T).data) ∧
    (∀ k2, k2 ≠ k → (g'.tables T0).data.get k2 = (g.tables T0).data.get k2) ∧
    (AMap.WF (g.tables T0).data → AMap.WF (g'.tables T0).data)

theorem keyFrame_set (g : G K V) (T0 : Nat) (k : K) (d : AMap K V)
    (hd : ∀ k2, k2 ≠ k → d.get k2 = (g.tables T0).data.get k2)
    (hw : AMap.WF (g.tables T0).data → AMap.WF d) :
    KeyFrame g (setTbl g T0 { g.tables T0 with data := d }) T0 k := by
  refine ⟨rfl, rfl, fun T => ?_, fun T hT => ?_, fun k2 h2 => ?_, ?_⟩
  · simp only [setTbl]; split
    · rename_i h; subst h; exact ⟨rfl, rfl⟩
    · exact ⟨rfl, rfl⟩
  · simp only [setTbl, if_neg hT]
  · simp only [setTbl, if_true]; exact hd k2 h2
  · simp only [setTbl, if_true]; exact hw

/-- the commit, seen from the tables: lengths and `cur` stay, the data of `l.tbl` changes at the key only -/
theorem commit_frame (p : Params K) (t : Tid) (g : G K V) (l : L K V) (c : Choice K V) (g' : G K V) (l' : L K V)
    (hpc : l.pc = .dcCommit) (hs : tstep p t g l c = some (g', l')) :
    ∀ k, opKey l = some k → KeyFrame g g' l.tbl k := by
  obtain ⟨k, nv, del, hk, hf, -, -, -, hcase⟩ := commit_shape p t g l c g' l' hpc hs
  intro k' hk'
  rw [hk] at hk'; cases hk'
  rcases hcase with ⟨ov, -, -, -, e⟩ | ⟨ov, -, -, -, e⟩ | ⟨-, -, -, e⟩ | ⟨-, -, -, e⟩
  · rw [e]; exact keyFrame_set g _ k _ (fun k2 h2 => by rw [AMap.get_erase, if_neg (Ne.symm h2)]) (AMap.WF_erase _ _)
  · rw [e]; exact keyFrame_set g _ k _ (fun k2 h2 => by rw [AMap.get_set, if_neg (Ne.symm h2)]) (AMap.WF_set _ _ _)
  · subst e; exact ⟨rfl, rfl, fun _ => ⟨rfl, rfl⟩, fun _ _ => rfl, fun _ _ => rfl, id⟩
  · rw [e]; exact keyFrame_set g _ k _ (fun k2 h2 => by rw [AMap.get_set, if_neg (Ne.symm h2)]) (AMap.WF_set _ _ _)

theorem self_dcCommit (p : Params K) (t : Tid) (g : G K V) (l : L K V) (c : Choice K V) (g' : G K V) (l' : L K V)
    (hgd : GD g) (hd : LD p g l) (hpc : l.pc = .dcCommit) (hs : tstep p t g l c = some (g', l')) :
    GD g' ∧ LD p g' l' := by
  obtain ⟨k, nv, del, hk, hf, hpc', htbl, hfr, -⟩ := commit_shape p t g l c g' l' hpc hs
  obtain ⟨hc, -, hlen, hoth, hkey, hwf⟩ := commit_frame p t g l c g' l' hpc hs k hk
  refine ⟨⟨fun T => ?_, fun T => by rw [(hlen T).1]; exact hgd.lenPos T⟩, ?_⟩
  · by_cases hT : T = l.tbl
    · subst hT; exact hwf (hgd.wf _)
    · rw [hoth T hT]; exact hgd.wf T
  · exact LD_of_quietPc p g' l' (by rw [hpc']; rfl) (by rw [htbl, hc]; exact hd.tblLe)
      (by rw [hfr, hc]; exact hd.framesLe)

/-- a resizer that sums the counter to decide about a shrink -/
theorem LD_decideSum (p : Params K) (g : G K V) (l : L K V) (hpc : l.pc = .rzDecideSum)
    (ht : l.tbl ≤ g.cur) (hf : ∀ f ∈ l.frames, f.tbl ≤ g.cur) (hr : l.rtbl = g.cur) (hn : l.hint ≠ .clear)
    (hl : p.minLen < (g.tables l.rtbl).len) : LD p g l := by
  refine ⟨ht, hf, ?_, ?_, fun _ => hr, ?_, fun _ => hn, ?_, ?_, ?_, fun _ => hl⟩ <;>
    simp [hpc, hasBi, usesNewT, copyC]

/-- shape of the allocation step (`rzDecide`, and `rzDecideSum` at the end of the counter sum of a shrink): either
nothing shared changes (abandoned, or the sum goes on), or a fresh empty table appears at index `ntables` -/
theorem decide_shape (p : Params K) (t : Tid) (g : G K V) (l : L K V) (c : Choice K V) (g' : G K V) (l' : L K V)
    (hmin : 0 < p.minLen) (hlen : 0 < (g.tables l.rtbl).len)
    (hshr : l.pc = .rzDecideSum → p.minLen < (g.tables l.rtbl).len)
    (hpc : l.pc = .rzDecide ∨ l.pc = .rzDecideSum) (hs : tstep p t g l c = some (g', l')) :
    l'.tbl = l.tbl ∧ l'.frames = l.frames ∧ l'.rtbl = l.rtbl ∧ l'.hint = l.hint ∧ l'.delta = l.delta ∧
    ((g' = g ∧ (l'.pc = .rzMuLock ∨
        (l'.pc = .rzDecideSum ∧ (l.pc = .rzDecide → l.hint ≠ .clear) ∧ p.minLen < (g.tables l.rtbl).len))) ∨
     (∃ len, 0 < len ∧ g'.cur = g.cur ∧ g'.ntables = g.ntables + 1 ∧ g'.tables g.ntables = emptyTbl len ∧
        (∀ T, T ≠ g.ntables → g'.tables T = g.tables T) ∧ l'.newT = g.ntables ∧
        ((l'.pc = .rzCopyLock ∧ l'.ci = 0 ∧ (l.pc = .rzDecide → l.hint ≠ .clear)) ∨
         (l.hint = .clear ∧ l'.pc = .rzPublish)))) := by
  rcases hpc with hpc | hpc
  · simp only [tstep, hpc] at hs
    split at hs
    · rename_i hh
      simp only [Option.some.injEq, Prod.mk.injEq] at hs; obtain ⟨rfl, rfl⟩ := hs
      refine ⟨rfl, rfl, rfl, rfl, rfl, Or.inr ⟨(g.tables l.rtbl).len * 2, by omega, rfl, rfl, ?_, ?_, rfl,
        Or.inl ⟨rfl, rfl, fun _ => by simp [hh]⟩⟩⟩
      · simp [setTbl]
      · intro T hT; simp [setTbl, hT]
    · rename_i hh
      split at hs
      · rename_i hcond
        simp only [Option.some.injEq, Prod.mk.injEq] at hs; obtain ⟨rfl, rfl⟩ := hs
        exact ⟨rfl, rfl, rfl, rfl, rfl, Or.inl ⟨rfl, Or.inr ⟨rfl, fun _ => by simp [hh], hcond⟩⟩⟩
      · simp only [Option.some.injEq, Prod.mk.injEq] at hs; obtain ⟨rfl, rfl⟩ := hs
        exact ⟨rfl, rfl, rfl, rfl, rfl, Or.inl ⟨rfl, Or.inl rfl⟩⟩
    · rename_i hh
      simp only [Option.some.injEq, Prod.mk.injEq] at hs; obtain ⟨rfl, rfl⟩ := hs
      refine ⟨rfl, rfl, rfl, rfl, rfl, Or.inr ⟨p.minLen, hmin, rfl, rfl, ?_, ?_, rfl, Or.inr ⟨hh, rfl⟩⟩⟩
      · simp [setTbl]
      · intro T hT; simp [setTbl, hT]
  · have hl := hshr hpc
    have hnd : l.pc = .rzDecide → l.hint ≠ .clear := fun h => by rw [hpc] at h; cases h
    simp only [tstep, hpc] at hs
    split at hs
    · simp only [Option.some.injEq, Prod.mk.injEq] at hs; obtain ⟨rfl, rfl⟩ := hs
      exact ⟨rfl, rfl, rfl, rfl, rfl, Or.inl ⟨rfl, Or.inr ⟨rfl, hnd, hl⟩⟩⟩
    · split at hs
      · simp only [Option.some.injEq, Prod.mk.injEq] at hs; obtain ⟨rfl, rfl⟩ := hs
        refine ⟨rfl, rfl, rfl, rfl, rfl, Or.inr ⟨(g.tables l.rtbl).len / 2, by omega, rfl, rfl, ?_, ?_, rfl,
          Or.inl ⟨rfl, rfl, hnd⟩⟩⟩
        · simp [setTbl]
        · intro T hT; simp [setTbl, hT]
      · simp only [Option.some.injEq, Prod.mk.injEq] at hs; obtain ⟨rfl, rfl⟩ := hs
        exact ⟨rfl, rfl, rfl, rfl, rfl, Or.inl ⟨rfl, Or.inl rfl⟩⟩

theorem self_rzDecide (p : Params K) (t : Tid) (g : G K V) (l : L K V) (c : Choice K V) (g' : G K V) (l' : L K V)
    (hmin : 0 < p.minLen) (hg : GI g) (hgd : GD g) (hd : LD p g l) (hpc : l.pc = .rzDecide ∨ l.pc = .rzDecideSum)
    (hs : tstep p t g l c = some (g', l')) : GD g' ∧ LD p g' l' := by
  obtain ⟨htbl, hfr, hrt, hhint, -, hcase⟩ := decide_shape p t g l c g' l' hmin (hgd.lenPos _) hd.shr hpc hs
  have hrc : l.rtbl = g.cur := hd.rcur (Or.inl (by rcases hpc with e | e <;> rw [e] <;> rfl))
  have hnc : (l.pc = .rzDecide → l.hint ≠ .clear) → l.hint ≠ .clear := by
    intro h
    rcases hpc with e | e
    · exact h e
    · exact hd.noclr (Or.inl e)
  rcases hcase with ⟨e, hpc' | ⟨hpc', hh, hl⟩⟩ | ⟨len, hlen, hc, hnt, hnew, hoth, hnT, hcase⟩
  · rw [e]; exact ⟨hgd, LD_of_quietPc p g l' (by rw [hpc']; rfl) (by rw [htbl]; exact hd.tblLe) (by rw [hfr]; exact hd.framesLe)⟩
  · rw [e]
    exact ⟨hgd, LD_decideSum p g l' hpc' (by rw [htbl]; exact hd.tblLe) (by rw [hfr]; exact hd.framesLe)
      (by rw [hrt]; exact hrc) (by rw [hhint]; exact hnc hh) (by rw [hrt]; exact hl)⟩
  · have hcur : g.cur < g.ntables := hg.2
    refine ⟨⟨fun T => ?_, fun T => ?_⟩, ?_⟩
    · by_cases hT : T = g.ntables
      · subst hT; rw [hnew]; exact AMap.WF_nil
      · rw [hoth T hT]; exact hgd.wf T
    · by_cases hT : T = g.ntables
      · subst hT; rw [hnew]; exact hlen
      · rw [hoth T hT]; exact hgd.lenPos T
    · have hdn : (g'.tables l'.newT).data = [] := by rw [hnT, hnew]; rfl
      refine ⟨by rw [htbl, hc]; exact hd.tblLe, by rw [hfr, hc]; exact hd.framesLe, ?_, ?_, ?_, ?_, ?_, ?_, ?_, ?_, ?_⟩
      · rcases hcase with ⟨h, -, -⟩ | ⟨-, h⟩ <;> simp [h, hasBi]
      · rcases hcase with ⟨h, -, -⟩ | ⟨-, h⟩ <;> simp [h]
      · intro _; rw [hrt, hc]; exact hrc
      · intro _; rw [hnT, hc]; exact hcur
      · intro _; rw [hhint]
        rcases hcase with ⟨-, -, h⟩ | ⟨-, h⟩
        · exact hnc h
        · simp_all
      · intro c hcc
        rcases hcase with ⟨h, hci, hh⟩ | ⟨hh, h⟩
        · simp only [copyC, h, hci, Option.some.injEq] at hcc
          subst hcc
          intro k; rw [hdn]; simp
        · simp [copyC, h, hhint, hh] at hcc
      · intro h1 h2
        rcases hcase with ⟨h, hci, hh⟩ | ⟨hh, h⟩
        · rw [h] at h1; cases h1
        · rw [hhint] at h2; exact absurd hh h2
      · intro _ _; exact hdn
      · rcases hcase with ⟨h, -, -⟩ | ⟨-, h⟩ <;> simp [h]

/-- the copy of one bucket -/
theorem Copied_copyDo (p : Params K) (g : G K V) (o n c : Nat) (nt' : PTbl K V) (hne : o ≠ n)
    (hw : AMap.WF (g.tables o).data) (h : Copied p g o n c)
    (hd : nt'.data = copyInto (g.tables n).data (bucketEntries p g o c)) :
    Copied p (setTbl g n nt') o n (c + 1) := by
  intro k
  have ho : (setTbl g n nt').tables o = g.tables o := by simp [setTbl, hne]
  have hb : bucketOf p (setTbl g n nt') o k = bucketOf p g o k := bucketOf_congr p g _ o k (by rw [ho])
  have hn : (setTbl g n nt').tables n = nt' := by simp [setTbl]
  rw [ho, hb, hn, hd]
  have hwe : AMap.WF (bucketEntries p g o c) := WF_filter _ _ hw
  rw [get_copyInto _ _ hwe]
  have hge : AMap.get (bucketEntries p g o c) k = if (bucketOf p g o k == c) = true then (g.tables o).data.get k else none :=
    get_filter_key (g.tables o).data (fun k => bucketOf p g o k == c) k
  rw [hge, h k]
  by_cases h1 : bucketOf p g o k = c
  · simp only [h1, beq_self_eq_true, if_true, Nat.lt_irrefl, if_false, Nat.lt_add_one]
    cases (g.tables o).data.get k <;> rfl
  · have h1' : (bucketOf p g o k == c) = false := by simpa using h1
    simp only [h1', Bool.false_eq_true, if_false]
    by_cases h2 : bucketOf p g o k < c
    · rw [if_pos h2, if_pos (by omega)]
    · rw [if_neg h2, if_neg (by omega)]

theorem length_copyDo (p : Params K) (g : G K V) (o n c : Nat)
    (hw : AMap.WF (g.tables o).data) (h : Copied p g o n c) :
    (copyInto (g.tables n).data (bucketEntries p g o c)).length = (g.tables n).data.length + (bucketEntries p g o c).length := by
  apply length_copyInto _ _ (WF_filter _ _ hw)
  intro k v hk
  have hge : AMap.get (bucketEntries p g o c) k = if (bucketOf p g o k == c) = true then (g.tables o).data.get k else none :=
    get_filter_key (g.tables o).data (fun k => bucketOf p g o k == c) k
  have hk' : AMap.get (bucketEntries p g o c) k = some v := hk
  rw [hge] at hk'
  by_cases h1 : (bucketOf p g o k == c) = true
  · have : bucketOf p g o k = c := by simpa using h1
    rw [h k, if_neg (by omega)]
  · rw [if_neg h1] at hk'; cases hk'

theorem self_rzCopyDo (p : Params K) (t : Tid) (g : G K V) (l : L K V) (c : Choice K V) (g' : G K V) (l' : L K V)
    (hgd : GD g) (hd : LD p g l) (hpc : l.pc = .rzCopyDo)
    (hs : tstep p t g l c = some (g', l')) : GD g' ∧ LD p g' l' := by
  simp only [tstep, hpc, Option.some.injEq, Prod.mk.injEq] at hs
  obtain ⟨rfl, rfl⟩ := hs
  have hrc : l.rtbl = g.cur := hd.rcur (Or.inl (by rw [hpc]; rfl))
  have hgt : g.cur < l.newT := hd.newGt (by rw [hpc]; rfl)
  have hcp := hd.copy l.ci (by simp [copyC, hpc])
  have hne : l.rtbl ≠ l.newT := by omega
  refine ⟨⟨fun T => ?_, fun T => ?_⟩, ?_⟩
  · simp only [setTbl]; split
    · exact WF_copyInto _ _ (hgd.wf _)
    · exact hgd.wf T
  · simp only [setTbl]; split
    · rename_i h; subst h; exact hgd.lenPos _
    · exact hgd.lenPos T
  · refine ⟨hd.tblLe, hd.framesLe, ?_, ?_, ?_, ?_, ?_, ?_, ?_, ?_, fun h => by cases h⟩
    · simp [hasBi]
    · simp
    · intro _; exact hrc
    · intro _; exact hgt
    · intro _; exact hd.noclr (Or.inr (Or.inr (Or.inl hpc)))
    · intro c hcc
      simp only [copyC, Option.some.injEq] at hcc
      subst hcc
      exact Copied_copyDo p g l.rtbl l.newT l.ci _ hne (hgd.wf _) hcp rfl
    · intro h; cases h
    · intro h; cases h

theorem self_rzPublish (p : Params K) (t : Tid) (g : G K V) (l : L K V) (c : Choice K V) (g' : G K V) (l' : L K V)
    (hgd : GD g) (hd : LD p g l) (hpc : l.pc = .rzPublish)
    (hs : tstep p t g l c = some (g', l')) : GD g' ∧ LD p g' l' := by
  simp only [tstep, hpc, Option.some.injEq, Prod.mk.injEq] at hs
  obtain ⟨rfl, rfl⟩ := hs
  have hgt : g.cur < l.newT := hd.newGt (by rw [hpc]; rfl)
  refine ⟨⟨hgd.wf, hgd.lenPos⟩, LD_of_quietPc p _ _ rfl ?_ ?_⟩
  · have := hd.tblLe; dsimp only; omega
  · intro f hf; have := hd.framesLe f hf; dsimp only; omega

theorem lock_excl (t u : Tid) (g : G K V) (l m : L K V) (hne : u ≠ t) (hlt : LI t g l) (hlu : LI u g m) (T i : Nat)
    (h1 : holdsBucket l = some (T, i)) (h2 : holdsBucket m = some (T, i)) : False := by
  have a := (hlt.lock T i).mpr h1
  have b := (hlu.lock T i).mpr h2
  rw [a] at b; exact hne (Option.some.inj b).symm

theorem not_resizer_of (t u : Tid) (g : G K V) (l m : L K V) (hne : u ≠ t) (hlt : LI t g l) (hlu : LI u g m)
    (h : isResizer l.pc = true) : isResizer m.pc = false := by
  cases hm : isResizer m.pc with
  | false => rfl
  | true =>
    have a := hlt.rsz.mpr h
    have b := hlu.rsz.mpr hm
    rw [a] at b; exact absurd (Option.some.inj b).symm hne

theorem holds_pastChk (l : L K V) (h : pastChk l.pc = true) : holdsBucket l = some (l.tbl, l.bi) := by
  revert h; cases hp : l.pc <;> simp [pastChk, holdsBucket, hp]

/-- a step of thread `t` preserves the data invariant of every other thread -/
theorem other_LD (p : Params K) (t u : Tid) (g : G K V) (l m : L K V) (c : Choice K V) (g' : G K V) (l' : L K V)
    (hmin : 0 < p.minLen) (hne : u ≠ t) (hg : GI g) (hgd : GD g) (hlt : LI t g l) (hlu : LI u g m)
    (hdt : LD p g l) (hdm : LD p g m) (hpair : Pair m l)
    (hs : tstep p t g l c = some (g', l')) : LD p g' m := by
  by_cases h1 : l.pc = .dcCommit
  · obtain ⟨k, nv, del, hk, -⟩ := commit_shape p t g l c g' l' h1 hs
    obtain ⟨hc, -, hlen, hoth, hkey, -⟩ := commit_frame p t g l c g' l' h1 hs k hk
    have hbi : l.bi = bucketOf p g l.tbl k := hdt.bkt (by rw [h1]; rfl) k hk
    refine LD_other_key p g g' m l.tbl k hdm hc hdt.tblLe (fun T => (hlen T).1) hoth hkey ?_ ?_
    · intro hpc hT hmk
      have hmb : m.bi = bucketOf p g m.tbl k := hdm.bkt (by rcases hpc with e | e | e <;> rw [e] <;> rfl) k hmk
      refine lock_excl t u g l m hne hlt hlu l.tbl l.bi (holds_pastChk l (by rw [h1]; rfl)) ?_
      rw [holds_pastChk m (by rcases hpc with e | e | e <;> rw [e] <;> rfl), hmb, hT, hbi]
    · intro c hcc hT
      rw [← hbi]
      exact hpair c hcc (by rw [h1]; rfl) hT.symm
  by_cases h2 : l.pc = .rzDecide ∨ l.pc = .rzDecideSum
  · have hnr := not_resizer_of t u g l m hne hlt hlu (by rcases h2 with e | e <;> rw [e] <;> rfl)
    obtain ⟨-, -, -, -, -, hcase⟩ := decide_shape p t g l c g' l' hmin (hgd.lenPos _) hdt.shr h2 hs
    rcases hcase with ⟨e, -⟩ | ⟨len, -, hc, -, -, hoth, -, -⟩
    · rw [e]; exact hdm
    · refine LD_other_nonres p g g' m hdm hnr (by omega) (fun T hT => ?_)
      have := hg.2
      rw [hoth T (by omega)]; exact ⟨rfl, rfl⟩
  by_cases h3 : l.pc = .rzCopyDo
  · have hnr := not_resizer_of t u g l m hne hlt hlu (by rw [h3]; rfl)
    have hgt : g.cur < l.newT := hdt.newGt (by rw [h3]; rfl)
    simp only [tstep, h3, Option.some.injEq, Prod.mk.injEq] at hs
    obtain ⟨rfl, -⟩ := hs
    refine LD_other_nonres p g _ m hdm hnr (Nat.le_refl _) (fun T hT => ?_)
    simp only [setTbl, if_neg (show T ≠ l.newT by omega)]; exact ⟨trivial, trivial⟩
  by_cases h4 : l.pc = .rzPublish
  · have hnr := not_resizer_of t u g l m hne hlt hlu (by rw [h4]; rfl)
    have hgt : g.cur < l.newT := hdt.newGt (by rw [h4]; rfl)
    simp only [tstep, h4, Option.some.injEq, Prod.mk.injEq] at hs
    obtain ⟨rfl, -⟩ := hs
    exact LD_other_nonres p g _ m hdm hnr (by dsimp only; omega) (fun T hT => ⟨rfl, rfl⟩)
  exact LD_same p g g' m (quiet_sameD p t g l c g' l' h1 h2 h3 h4 hs) hdm

/-- a step of thread `t` re-establishes the global data invariant and the data invariant of `t` -/
theorem self_LD (p : Params K) (t : Tid) (g : G K V) (l : L K V) (c : Choice K V) (g' : G K V) (l' : L K V)
    (hmin : 0 < p.minLen) (hg : GI g) (hgd : GD g) (hd : LD p g l)
    (hs : tstep p t g l c = some (g', l')) : GD g' ∧ LD p g' l' := by
  by_cases h1 : l.pc = .dcCommit
  · exact self_dcCommit p t g l c g' l' hgd hd h1 hs
  by_cases h2 : l.pc = .rzDecide ∨ l.pc = .rzDecideSum
  · exact self_rzDecide p t g l c g' l' hmin hg hgd hd h2 hs
  by_cases h3 : l.pc = .rzCopyDo
  · exact self_rzCopyDo p t g l c g' l' hgd hd h3 hs
  by_cases h4 : l.pc = .rzPublish
  · exact self_rzPublish p t g l c g' l' hgd hd h4 hs
  have hsd := quiet_sameD p t g l c g' l' h1 h2 h3 h4 hs
  exact ⟨GD_same g g' hsd hgd, LD_same p g g' l' hsd (selfq p t g l c g' l' hd h1 h2 h3 h4 hs)⟩

/-- the pending delta of a thread on table `T` -/
def contrib (l : L K V) (T : Nat) : Int := if pendingOn l T then l.delta else 0

theorem quietPc_facts (l : L K V) (h : l.pc = .ret ∨ l.pc = .dcLoadTable ∨ l.pc = .rzCas ∨ l.pc = .ldTable ∨ l.pc = .dcFast ∨ l.pc = .szTable
      ∨ l.pc = .clTable ∨ l.pc = .rgTable) :
    copyC l = none ∧ pastChk l.pc = false ∧ ∀ T, contrib l T = 0 := by
  rcases h with h | h | h | h | h | h | h | h <;> simp [copyC, pastChk, contrib, pendingOn, h]

theorem popCont_facts (l : L K V) :
    copyC (popCont l) = none ∧ pastChk (popCont l).pc = false ∧ ∀ T, contrib (popCont l) T = 0 :=
  quietPc_facts _ (by have := (popCont_pc l).1; grind)

theorem startOp_facts (l : L K V) (op : POp K V) :
    copyC (startOp l op) = none ∧ pastChk (startOp l op).pc = false ∧ ∀ T, contrib (startOp l op) T = 0 :=
  quietPc_facts _ (by have := (startOp_pc l op).1; grind)

/-- how a step of the thread changes its copy progress -/
theorem copyC_step (p : Params K) (t : Tid) (g : G K V) (l : L K V) (c : Choice K V) (g' : G K V) (l' : L K V)
    (hs : tstep p t g l c = some (g', l')) :
    copyC l' = none ∨ copyC l' = some 0 ∨
      (l'.rtbl = l.rtbl ∧ (copyC l' = copyC l ∨ (l.pc = .rzCopyDo ∧ copyC l = some l.ci ∧ copyC l' = some (l.ci + 1)))) := by
  have hP := popCont_facts l
  have hS := fun l op => (startOp_facts (K := K) (V := V) l op).1
  cases hpc : l.pc <;> simp only [tstep, hpc] at hs <;> (repeat' split at hs) <;>
    simp only [Option.some.injEq, reduceCtorEq, Prod.mk.injEq] at hs <;> obtain ⟨-, rfl⟩ := hs <;>
    simp_all [copyC, callResize, callWait] <;> (by_cases hh : l.hint = Hint.clear <;> simp [hh])

/-- how a step of the thread gets it past the two checks of a writer -/
theorem pastChk_step (p : Params K) (t : Tid) (g : G K V) (l : L K V) (c : Choice K V) (g' : G K V) (l' : L K V)
    (hs : tstep p t g l c = some (g', l')) (h : pastChk l'.pc = true) :
    l'.tbl = l.tbl ∧ l'.bi = l.bi ∧ (pastChk l.pc = true ∨ (l.pc = .dcChkResizing ∧ g.resizing = false)) := by
  have hP := popCont_facts l
  have hS := fun l op => (startOp_facts (K := K) (V := V) l op).2.1
  cases hpc : l.pc <;> simp only [tstep, hpc] at hs <;> (repeat' split at hs) <;>
    simp only [Option.some.injEq, reduceCtorEq, Prod.mk.injEq] at hs <;> obtain ⟨-, rfl⟩ := hs <;>
    simp_all [pastChk, callResize, callWait]

/-- only the commit and the counter update change the pending delta of the thread -/
theorem contrib_step (p : Params K) (t : Tid) (g : G K V) (l : L K V) (c : Choice K V) (g' : G K V) (l' : L K V)
    (hs : tstep p t g l c = some (g', l')) (h1 : l.pc ≠ .dcCommit) (h2 : l.pc ≠ .dcAddSize) (T : Nat) :
    contrib l' T = contrib l T := by
  have hP := popCont_facts l
  have hS := fun l op => (startOp_facts (K := K) (V := V) l op).2.2
  cases hpc : l.pc <;> simp only [tstep, hpc] at hs <;> (repeat' split at hs) <;>
    simp only [Option.some.injEq, reduceCtorEq, Prod.mk.injEq] at hs <;> obtain ⟨-, rfl⟩ := hs <;>
    simp_all [contrib, pendingOn, callResize, callWait]


theorem pair_refl (l : L K V) : Pair l l := by
  intro c hc hp; rw [(copyC_pcs l c hc).2.2.1] at hp; cases hp

/-- the stepping thread as resizer against another thread as writer -/
theorem pair_self_r (p : Params K) (t u : Tid) (g : G K V) (l m : L K V) (c : Choice K V) (g' : G K V) (l' : L K V)
    (hne : u ≠ t) (hlt : LI t g l) (hlu : LI u g m) (hp : Pair l m)
    (hs : tstep p t g l c = some (g', l')) : Pair l' m := by
  intro c' hc' hpm htb
  rcases copyC_step p t g l c g' l' hs with h | h | ⟨hr, h | ⟨hpc, h1, h2⟩⟩
  · rw [h] at hc'; cases hc'
  · rw [h] at hc'; cases hc'; exact Nat.zero_le _
  · rw [h] at hc'; rw [hr] at htb; exact hp c' hc' hpm htb
  · rw [h2] at hc'; cases hc'
    rw [hr] at htb
    have := hp _ h1 hpm htb
    have hne' : m.bi ≠ l.ci := by
      intro e
      refine lock_excl t u g l m hne hlt hlu l.rtbl l.ci (by simp [holdsBucket, hpc]) ?_
      rw [holds_pastChk m hpm, htb, e]
    omega

/-- the stepping thread as writer against another thread as resizer -/
theorem pair_self_u (p : Params K) (t u : Tid) (g : G K V) (l m : L K V) (c : Choice K V) (g' : G K V) (l' : L K V)
    (hg : GI g) (hlu : LI u g m) (hp : Pair m l)
    (hs : tstep p t g l c = some (g', l')) : Pair m l' := by
  intro c' hc' hpl htb
  obtain ⟨ht, hb, hcase⟩ := pastChk_step p t g l c g' l' hs hpl
  rw [ht] at htb; rw [hb]
  rcases hcase with h | ⟨-, hrz⟩
  · exact hp c' hc' h htb
  · have hr := hlu.rsz.mpr (copyC_pcs m c' hc').2.1
    have := hg.1.mpr (by rw [hr]; rfl)
    rw [hrz] at this; cases this

/-! ## part: Counter -/

/-- partial sum of the stripes: `psum c n = c 0 + … + c (n-1)` -/
def psum (c : Nat → Int) (n : Nat) : Int := ((List.range n).map c).sum

theorem total_eq (t : PTbl K V) (n : Nat) : t.total n = psum t.ctr n := rfl

theorem psum_zero (c : Nat → Int) : psum c 0 = 0 := rfl

theorem psum_succ (c : Nat → Int) (n : Nat) : psum c (n + 1) = psum c n + c n := by
  simp [psum, List.range_succ, List.map_append, List.sum_append]

theorem psum_const_zero (n : Nat) : psum (fun _ => 0) n = 0 := by
  induction n with
  | zero => rfl
  | succ n ih => rw [psum_succ, ih]; rfl

/-- adding `d` to stripe `j` adds `d` to every partial sum that covers stripe `j` -/
theorem psum_update (c : Nat → Int) (j : Nat) (d : Int) (m : Nat) :
    psum (fun i => if i = j then c i + d else c i) m = psum c m + (if j < m then d else 0) := by
  induction m with
  | zero => simp [psum_zero]
  | succ m ih =>
    rw [psum_succ, psum_succ, ih]
    by_cases h1 : m = j
    · subst h1; simp
      omega
    · rw [if_neg h1]
      by_cases h2 : j < m
      · rw [if_pos h2, if_pos (show j < m + 1 by omega)]; omega
      · rw [if_neg h2, if_neg (show ¬ j < m + 1 by omega)]; omega

/-- `addSize` changes the (atomic) sum of the stripes by exactly `d` -/
theorem total_addCtr (t : PTbl K V) (n bi : Nat) (d : Int) (hn : 0 < n) :
    (t.addCtr n bi d).total n = t.total n + d := by
  rw [total_eq, total_eq]
  show psum (fun j => if j = bi % n then t.ctr j + d else t.ctr j) n = _
  rw [psum_update, if_pos (Nat.mod_lt _ hn)]

theorem total_emptyTbl (len n : Nat) : (emptyTbl (K := K) (V := V) len).total n = 0 := psum_const_zero n

theorem total_congr (a b : PTbl K V) (n m : Nat) (h1 : a.ctr = b.ctr) (h2 : n = m) : a.total n = b.total m := by
  rw [total_eq, total_eq, h1, h2]

/-- the globals agree on what the counter invariant looks at -/
def SameC (g g' : G K V) : Prop :=
  g'.ntables = g.ntables ∧ ∀ T, (g'.tables T).ctr = (g.tables T).ctr ∧ (g'.tables T).len = (g.tables T).len ∧
    (g'.tables T).data = (g.tables T).data

theorem sameC_setLock (g : G K V) (T i : Nat) (o : Option Tid) : SameC g (setTbl g T ((g.tables T).setLock i o)) := by
  refine ⟨rfl, fun T' => ?_⟩
  simp only [setTbl, PTbl.setLock]
  split
  · rename_i h; subst h; exact ⟨rfl, rfl, rfl⟩
  · exact ⟨rfl, rfl, rfl⟩

theorem quiet_sameC (p : Params K) (t : Tid) (g : G K V) (l : L K V) (c : Choice K V) (g' : G K V) (l' : L K V)
    (h1 : l.pc ≠ .dcCommit) (h2 : ¬ (l.pc = .rzDecide ∨ l.pc = .rzDecideSum)) (h3 : l.pc ≠ .rzCopyDo) (h4 : l.pc ≠ .dcAddSize)
    (hs : tstep p t g l c = some (g', l')) : SameC g g' := by
  cases hpc : l.pc <;>
    simp only [hpc, ne_eq, not_true_eq_false, reduceCtorEq, not_false_eq_true, or_self, or_false, false_or] at h1 h2 h3 h4 <;>
    simp only [tstep, hpc] at hs <;> (repeat' split at hs) <;>
    simp only [Option.some.injEq, reduceCtorEq, Prod.mk.injEq] at hs <;> obtain ⟨rfl, -⟩ := hs <;>
    first | exact sameC_setLock _ _ _ _ | exact ⟨rfl, fun _ => ⟨rfl, rfl, rfl⟩⟩

theorem pendSum_succ (s : St K V) (T n : Nat) : pendSum s T (n + 1) = pendSum s T n + contrib (s.l n) T := rfl

theorem pendSum_ext (s : St K V) (T N : Nat) (h : ∀ u : Nat, N ≤ u → pendingOn (s.l u) T = false) (M : Nat) (hM : N ≤ M) :
    pendSum s T M = pendSum s T N := by
  induction M with
  | zero => have : N = 0 := by omega
            subst this; rfl
  | succ M ih =>
    by_cases hN : N = M + 1
    · subst hN; rfl
    · rw [pendSum_succ, ih (by omega)]
      simp [contrib, h M (by omega)]

theorem pendSum_zero (s : St K V) (T N : Nat) (h : ∀ u : Nat, pendingOn (s.l u) T = false) : pendSum s T N = 0 := by
  induction N with
  | zero => rfl
  | succ N ih => rw [pendSum_succ, ih]; simp [contrib, h N]

/-- a step of thread `t` changes the sum by the change of `t`'s own contribution -/
theorem pendSum_update (s : St K V) (g' : G K V) (t : Nat) (l' : L K V) (T N : Nat) :
    pendSum { g := g', l := fun x => if x = t then l' else s.l x } T N =
      pendSum s T N + (if t < N then contrib l' T - contrib (s.l t) T else 0) := by
  induction N with
  | zero => simp [pendSum]
  | succ N ih =>
    rw [pendSum_succ, pendSum_succ, ih]
    by_cases h1 : N = t
    · subst h1; simp; omega
    · dsimp only
      rw [if_neg h1]
      by_cases h2 : t < N
      · have h3 : t < N + 1 := by omega
        rw [if_pos h2, if_pos h3]; omega
      · have h3 : ¬ t < N + 1 := by omega
        rw [if_neg h2, if_neg h3]; omega

/-- counter invariant of table `T`: (atomic) sum of the counter stripes + pending deltas = number of entries.
(Every table has at least one stripe — `hst`; with zero stripes `addSize` would add to a stripe that is never summed.) -/
def CntT (p : Params K) (s : St K V) (T : Nat) : Prop :=
  (∀ n, 0 < p.stripes n) → ∀ N, (∀ u : Nat, N ≤ u → pendingOn (s.l u) T = false) →
    (s.g.tables T).total (p.stripes (s.g.tables T).len) + pendSum s T N = ((s.g.tables T).data.length : Int)

theorem cntT_step (p : Params K) (s : St K V) (g' : G K V) (t : Nat) (l' : L K V) (T : Nat) (h : CntT p s T)
    (heq : (∀ n, 0 < p.stripes n) →
      (g'.tables T).total (p.stripes (g'.tables T).len) + contrib l' T + ((s.g.tables T).data.length : Int)
         = (s.g.tables T).total (p.stripes (s.g.tables T).len) + contrib (s.l t) T + ((g'.tables T).data.length : Int)) :
    CntT p { g := g', l := fun x => if x = t then l' else s.l x } T := by
  intro hst N hN
  have heq := heq hst
  have hM : ∀ u : Nat, N + t + 1 ≤ u → pendingOn (s.l u) T = false := by
    intro u hu
    have hu1 : N ≤ u := by omega
    have hu2 : ¬ u = t := by omega
    have := hN u hu1
    dsimp only at this
    rwa [if_neg hu2] at this
  have h1 := h hst _ hM
  have h2 := pendSum_ext _ T N hN (N + t + 1) (by omega)
  have h3 := pendSum_update s g' t l' T (N + t + 1)
  have h4 : t < N + t + 1 := by omega
  rw [if_pos h4] at h3
  dsimp only at h2 h3 ⊢
  omega

theorem contrib_of_pc (l : L K V) (T : Nat) (h1 : l.pc ≠ .dcUnlock) (h2 : l.pc ≠ .dcAddSize) : contrib l T = 0 := by
  simp [contrib, pendingOn, h1, h2]

theorem contrib_of_tbl (l : L K V) (T : Nat) (h : l.tbl ≠ T) : contrib l T = 0 := by
  simp [contrib, pendingOn, h]

theorem contrib_pending (l : L K V) (T : Nat) (h1 : l.pc = .dcUnlock ∨ l.pc = .dcAddSize) (h : l.tbl = T) :
    contrib l T = l.delta := by
  rcases h1 with h1 | h1 <;> simp [contrib, pendingOn, h1, h]

theorem pendingOn_of_tbl (l : L K V) (T : Nat) (h : l.tbl ≠ T) : pendingOn l T = false := by
  simp [pendingOn, h]

/-- the counter invariant is preserved by every step -/
theorem cnt_step (p : Params K) (s : St K V) (t : Nat) (c : Choice K V) (g' : G K V) (l' : L K V)
    (hmin : 0 < p.minLen) (hg : GI s.g) (hgd : GD s.g) (hld : ∀ u, LD p s.g (s.l u))
    (hcnt : ∀ T, T < s.g.ntables → CntT p s T)
    (hs : tstep p t s.g (s.l t) c = some (g', l')) :
    ∀ T, T < g'.ntables → CntT p { g := g', l := fun x => if x = t then l' else s.l x } T := by
  have hd := hld t
  by_cases h1 : (s.l t).pc = .dcCommit
  · obtain ⟨k, nv, del, hk, hf, hpc', htbl, hfr, hcase⟩ := commit_shape p t s.g (s.l t) c g' l' h1 hs
    obtain ⟨hc, hnt, hlen, hoth, hkey, hwf⟩ := commit_frame p t s.g (s.l t) c g' l' h1 hs k hk
    have hold := hd.old (Or.inr (Or.inr h1)) k hk
    have hw := hgd.wf (s.l t).tbl
    intro T hT
    rw [hnt] at hT
    refine cntT_step p s g' t l' T (hcnt T hT) (fun hst => ?_)
    have hc0 : contrib (s.l t) T = 0 := contrib_of_pc _ T (by rw [h1]; simp) (by rw [h1]; simp)
    have htot : (g'.tables T).total (p.stripes (g'.tables T).len) = (s.g.tables T).total (p.stripes (s.g.tables T).len) :=
      total_congr _ _ _ _ (hlen T).2 (by rw [(hlen T).1])
    rw [hc0, htot]
    by_cases hTe : (s.l t).tbl = T
    · rw [contrib_pending l' T (Or.inl hpc') (by rw [htbl]; exact hTe)]
      subst hTe
      rcases hcase with ⟨ov, ho, -, hdl, e⟩ | ⟨ov, ho, -, hdl, e⟩ | ⟨ho, -, hdl, e⟩ | ⟨ho, -, hdl, e⟩
      · rw [ho] at hold
        have := AMap.length_erase_of_get_some _ hw k ov hold.symm
        rw [hdl, e]; simp only [setTbl, if_true]; omega
      · rw [ho] at hold
        have := length_set_some _ hw k nv ov hold.symm
        rw [hdl, e]; simp only [setTbl, if_true]; omega
      · rw [hdl, e] <;> omega
      · rw [ho] at hold
        have := length_set_none _ k nv hold.symm
        rw [hdl, e]; simp only [setTbl, if_true]; omega
    · rw [contrib_of_tbl l' T (by rw [htbl]; exact hTe), hoth T (Ne.symm hTe)]
  by_cases h4 : (s.l t).pc = .dcAddSize
  · simp only [tstep, h4, Option.some.injEq, Prod.mk.injEq] at hs
    obtain ⟨rfl, rfl⟩ := hs
    intro T hT
    refine cntT_step p s _ t _ T (hcnt T hT) (fun hst => ?_)
    rw [contrib_of_pc _ T (by simp) (by simp)]
    by_cases hTe : (s.l t).tbl = T
    · rw [contrib_pending _ T (Or.inr h4) hTe]
      subst hTe
      simp only [setTbl, if_true]
      have h5 := total_addCtr (s.g.tables (s.l t).tbl) (p.stripes (s.g.tables (s.l t).tbl).len) (s.l t).bi (s.l t).delta (hst _)
      have h6 : ((s.g.tables (s.l t).tbl).addCtr (p.stripes (s.g.tables (s.l t).tbl).len) (s.l t).bi (s.l t).delta).len
          = (s.g.tables (s.l t).tbl).len := rfl
      have h7 : ((s.g.tables (s.l t).tbl).addCtr (p.stripes (s.g.tables (s.l t).tbl).len) (s.l t).bi (s.l t).delta).data
          = (s.g.tables (s.l t).tbl).data := rfl
      rw [h6, h5, h7]; omega
    · rw [contrib_of_tbl _ T hTe]
      simp only [setTbl, if_neg (Ne.symm hTe)]
  by_cases h2 : (s.l t).pc = .rzDecide ∨ (s.l t).pc = .rzDecideSum
  · obtain ⟨htbl, -, -, -, -, hcase⟩ := decide_shape p t s.g (s.l t) c g' l' hmin (hgd.lenPos _) hd.shr h2 hs
    have hcb := contrib_step p t s.g (s.l t) c g' l' hs h1 h4
    rcases hcase with ⟨e, -⟩ | ⟨len, -, hc, hnt, hnew, hoth, -, -⟩
    · intro T hT
      rw [e] at hT ⊢
      exact cntT_step p s _ t l' T (hcnt T hT) (fun _ => by rw [hcb T])
    · intro T hT
      by_cases hTe : T = s.g.ntables
      · subst hTe
        intro _ N _
        have hcur : s.g.cur < s.g.ntables := hg.2
        have hz : ∀ u : Nat, pendingOn ((fun x => if x = t then l' else s.l x) u) s.g.ntables = false := by
          intro u
          dsimp only
          split
          · exact pendingOn_of_tbl _ _ (by rw [htbl]; have := hd.tblLe; omega)
          · exact pendingOn_of_tbl _ _ (by have := (hld u).tblLe; omega)
        rw [pendSum_zero _ _ N hz]
        dsimp only
        rw [hnew, total_emptyTbl]; simp [emptyTbl]
      · refine cntT_step p s _ t l' T (hcnt T (by omega)) (fun _ => ?_)
        rw [hcb T, hoth T hTe]
  by_cases h3 : (s.l t).pc = .rzCopyDo
  · have hcb := contrib_step p t s.g (s.l t) c g' l' hs h1 h4
    have hrc : (s.l t).rtbl = s.g.cur := hd.rcur (Or.inl (by rw [h3]; rfl))
    have hgt : s.g.cur < (s.l t).newT := hd.newGt (by rw [h3]; rfl)
    have hcp := hd.copy (s.l t).ci (by simp [copyC, h3])
    have hlen := length_copyDo p s.g _ _ _ (hgd.wf _) hcp
    simp only [tstep, h3, Option.some.injEq, Prod.mk.injEq] at hs
    obtain ⟨rfl, rfl⟩ := hs
    intro T hT
    refine cntT_step p s _ t _ T (hcnt T hT) (fun hst => ?_)
    rw [hcb T]
    by_cases hTe : T = (s.l t).newT
    · subst hTe
      simp only [setTbl, if_true]
      have hlen' : (List.foldl (fun d e => AMap.set d e.1 e.2) (s.g.tables (s.l t).newT).data
          (bucketEntries p s.g (s.l t).rtbl (s.l t).ci)).length =
          (s.g.tables (s.l t).newT).data.length + (bucketEntries p s.g (s.l t).rtbl (s.l t).ci).length := hlen
      have h5 := total_addCtr (s.g.tables (s.l t).newT) (p.stripes (s.g.tables (s.l t).newT).len) (s.l t).ci
        ((bucketEntries p s.g (s.l t).rtbl (s.l t).ci).length : Int) (hst _)
      rw [hlen']
      show PTbl.total ((s.g.tables (s.l t).newT).addCtr _ _ _) (p.stripes (s.g.tables (s.l t).newT).len) + _ + _ = _
      rw [h5]; simp only [Int.natCast_add]; omega
    · simp only [setTbl, if_neg hTe]
  · obtain ⟨hnt, hsame⟩ := quiet_sameC p t s.g (s.l t) c g' l' h1 h2 h3 h4 hs
    have hcb := contrib_step p t s.g (s.l t) c g' l' hs h1 h4
    intro T hT
    rw [hnt] at hT
    refine cntT_step p s _ t l' T (hcnt T hT) (fun _ => ?_)
    rw [hcb T, total_congr _ _ _ _ (hsame T).1 (by rw [(hsame T).2.1]), (hsame T).2.2]

/-! ## part: Main -/

/-- the data invariant of a state: global part, per-thread part, resizer/writer pairs, counters -/
structure DInv (p : Params K) (s : St K V) : Prop where
  gd : GD s.g
  ld : ∀ u, LD p s.g (s.l u)
  pair : ∀ r u, Pair (s.l r) (s.l u)
  cnt : ∀ T, T < s.g.ntables → CntT p s T

theorem dinv_init (p : Params K) (hmin : 0 < p.minLen) : DInv (V := V) p (init p) := by
  refine ⟨⟨fun T => AMap.WF_nil, fun T => hmin⟩, fun u => ?_, fun r u => ?_, fun T hT => ?_⟩
  · exact LD_of_quietPc p _ _ rfl (Nat.le_refl _) (fun f hf => by cases hf)
  · intro c hc; cases hc
  · intro _ N _
    rw [pendSum_zero _ _ N (fun u => rfl)]
    show PTbl.total (emptyTbl p.minLen) _ + 0 = _
    rw [total_emptyTbl]; rfl

theorem dinv_step (p : Params K) (hmin : 0 < p.minLen) (s s' : St K V) (t : Tid) (c : Choice K V)
    (hi : Inv s) (hd : DInv p s) (hs : step p s t c = some s') : DInv p s' := by
  unfold step at hs
  split at hs
  · simp at hs
  · rename_i g' l' heq
    simp only [Option.some.injEq] at hs; subst hs
    have hself := self_LD p t s.g (s.l t) c g' l' hmin hi.1 hd.gd (hd.ld t) heq
    refine ⟨hself.1, fun u => ?_, fun r u => ?_, ?_⟩
    · dsimp only
      by_cases hu : u = t
      · rw [if_pos hu]; exact hself.2
      · rw [if_neg hu]
        exact other_LD p t u s.g (s.l t) (s.l u) c g' l' hmin hu hi.1 hd.gd (hi.2 t) (hi.2 u) (hd.ld t) (hd.ld u)
          (hd.pair u t) heq
    · dsimp only
      by_cases hr : r = t <;> by_cases hu : u = t
      · rw [if_pos hr, if_pos hu]; exact pair_refl l'
      · rw [if_pos hr, if_neg hu]
        exact pair_self_r p t u s.g (s.l t) (s.l u) c g' l' hu (hi.2 t) (hi.2 u) (hd.pair t u) heq
      · rw [if_neg hr, if_pos hu]
        exact pair_self_u p t r s.g (s.l t) (s.l r) c g' l' hi.1 (hi.2 r) (hd.pair r t) heq
      · rw [if_neg hr, if_neg hu]; exact hd.pair r u
    · exact cnt_step p s t c g' l' hmin hi.1 hd.gd hd.ld hd.cnt heq

theorem dinv_run (p : Params K) (hmin : 0 < p.minLen) (sched : List (Tid × Choice K V)) (s s' : St K V)
    (hi : Inv s) (hd : DInv p s) (hr : run p s sched = some s') : DInv p s' := by
  induction sched generalizing s with
  | nil => simp only [run, Option.some.injEq] at hr; subst hr; exact hd
  | cons a rest ih =>
    obtain ⟨t, c⟩ := a
    simp only [run] at hr
    split at hr
    · rename_i s1 heq
      exact ih s1 (inv_step p s s1 t c hi heq) (dinv_step p hmin s s1 t c hi hd heq) hr
    · simp at hr

/-- every reachable state satisfies the data invariant -/
theorem dinv_reach (p : Params K) (hmin : 0 < p.minLen) (s : St K V) (h : Reach p s) : DInv p s := by
  obtain ⟨sched, hr⟩ := h
  exact dinv_run p hmin sched _ s (inv_init p) (dinv_init p hmin) hr

/-! ### D1 -/

/-- **D1**: no key is bound twice in any table generation -/
theorem data_wf (p : Params K) (hmin : 0 < p.minLen) (s : St K V) (h : Reach p s) (T : Nat) (hT : T < s.g.ntables) :
    AMap.WF (s.g.tables T).data :=
  (dinv_reach p hmin s h).gd.wf T

/-- every table generation has at least one root bucket -/
theorem len_pos (p : Params K) (hmin : 0 < p.minLen) (s : St K V) (h : Reach p s) (T : Nat) :
    0 < (s.g.tables T).len :=
  (dinv_reach p hmin s h).gd.lenPos T

/-! ### D2 -/

/-- **D2, copy progress**: while a grow/shrink copies, its source is the current table, the destination is a
younger, unpublished generation, and the destination holds exactly the entries of the source buckets `< c` -/
theorem copy_progress (p : Params K) (hmin : 0 < p.minLen) (s : St K V) (h : Reach p s) (r : Tid) (c : Nat)
    (hc : copyC (s.l r) = some c) :
    (s.l r).rtbl = s.g.cur ∧ s.g.cur < (s.l r).newT ∧ (s.l r).newT < s.g.ntables ∧
    ∀ k, (s.g.tables (s.l r).newT).data.get k =
      if bucketOf p s.g (s.l r).rtbl k < c then (s.g.tables (s.l r).rtbl).data.get k else none := by
  have hd := (dinv_reach p hmin s h).ld r
  have hi := (inv_reach p s h).2 r
  have hpcs := copyC_pcs (s.l r) c hc
  refine ⟨hd.rcur ?_, hd.newGt hpcs.1, hi.newTLt hpcs.1, hd.copy c hc⟩
  revert hc; cases hp : (s.l r).pc <;> simp [copyC, hp, usesRtbl]

/-- **D2, frozen buckets**: a writer that has passed its checks (`resizing`, `cur`) on the table being copied
holds a bucket that has not been copied yet; so the data of the copied buckets cannot change -/
theorem no_writer_in_copied_bucket (p : Params K) (hmin : 0 < p.minLen) (s : St K V) (h : Reach p s) (r u : Tid) (c : Nat)
    (hc : copyC (s.l r) = some c) (hu : pastChk (s.l u).pc = true) (ht : (s.l u).tbl = (s.l r).rtbl) :
    c ≤ (s.l u).bi ∧ ∀ k, opKey (s.l u) = some k → c ≤ bucketOf p s.g (s.l r).rtbl k := by
  have hd := dinv_reach p hmin s h
  have h1 := hd.pair r u c hc hu ht
  refine ⟨h1, fun k hk => ?_⟩
  rw [← ht, ← (hd.ld u).bkt (by revert hu; cases hp : (s.l u).pc <;> simp [pastChk, hasBi]) k hk]
  exact h1

/-- when the resizer is about to publish a grown/shrunk table, the new table has the bindings of the old one -/
theorem copy_complete (p : Params K) (hmin : 0 < p.minLen) (s : St K V) (h : Reach p s) (r : Tid)
    (hpc : (s.l r).pc = .rzPublish) (hh : (s.l r).hint ≠ .clear) :
    ∀ k, (s.g.tables (s.l r).newT).data.get k = absGet s.g k := by
  have hdi := dinv_reach p hmin s h
  have hd := hdi.ld r
  have hcp := hd.copy (s.l r).ci (by simp [copyC, hpc, hh])
  have hfull := hd.full hpc hh
  have hrc := hd.rcur (Or.inr hpc)
  intro k
  have hb : bucketOf p s.g (s.l r).rtbl k < (s.g.tables (s.l r).rtbl).len := Nat.mod_lt _ (hdi.gd.lenPos _)
  rw [hcp k, if_pos (by omega), hrc]; rfl

/-- **D2**: publishing the table built by a grow/shrink does not change the abstract content -/
theorem publish_preserves_abs (p : Params K) (hmin : 0 < p.minLen) (s : St K V) (h : Reach p s) (t : Tid)
    (c : Choice K V) (g' : G K V) (l' : L K V) (hpc : (s.l t).pc = .rzPublish) (hh : (s.l t).hint ≠ .clear)
    (hs : tstep p t s.g (s.l t) c = some (g', l')) : ∀ k, absGet g' k = absGet s.g k := by
  have hcc := copy_complete p hmin s h t hpc hh
  simp only [tstep, hpc, Option.some.injEq, Prod.mk.injEq] at hs
  obtain ⟨rfl, -⟩ := hs
  intro k; exact hcc k

/-! ### D3 -/

/-- **D3**: the abstract content changes only at the commit of a writer working on the current table, and at the
publish step of `Clear` -/
theorem abs_changes_only_at_commit_or_clear (p : Params K) (hmin : 0 < p.minLen) (s : St K V) (h : Reach p s) (t : Tid)
    (c : Choice K V) (g' : G K V) (l' : L K V) (hs : tstep p t s.g (s.l t) c = some (g', l'))
    (hne : ∃ k, absGet g' k ≠ absGet s.g k) :
    ((s.l t).pc = .dcCommit ∧ (s.l t).tbl = s.g.cur) ∨ ((s.l t).pc = .rzPublish ∧ (s.l t).hint = .clear) := by
  obtain ⟨k, hk⟩ := hne
  have hdi := dinv_reach p hmin s h
  have hd := hdi.ld t
  have hg := (inv_reach p s h).1
  by_cases h1 : (s.l t).pc = .dcCommit
  · by_cases hT : (s.l t).tbl = s.g.cur
    · exact Or.inl ⟨h1, hT⟩
    · exfalso; apply hk
      obtain ⟨k0, nv, del, hk0, -⟩ := commit_shape p t s.g (s.l t) c g' l' h1 hs
      obtain ⟨hc, -, -, hoth, -, -⟩ := commit_frame p t s.g (s.l t) c g' l' h1 hs k0 hk0
      unfold absGet; rw [hc, hoth _ (Ne.symm hT)]
  by_cases h2 : (s.l t).pc = .rzDecide ∨ (s.l t).pc = .rzDecideSum
  · exfalso; apply hk
    obtain ⟨-, -, -, -, -, hcase⟩ := decide_shape p t s.g (s.l t) c g' l' hmin (hdi.gd.lenPos _) hd.shr h2 hs
    rcases hcase with ⟨e, -⟩ | ⟨len, -, hc, -, -, hoth, -, -⟩
    · rw [e]
    · have := hg.2
      unfold absGet; rw [hc, hoth _ (by omega)]
  by_cases h3 : (s.l t).pc = .rzCopyDo
  · exfalso; apply hk
    have hgt : s.g.cur < (s.l t).newT := hd.newGt (by rw [h3]; rfl)
    simp only [tstep, h3, Option.some.injEq, Prod.mk.injEq] at hs
    obtain ⟨rfl, -⟩ := hs
    unfold absGet
    simp only [setTbl, if_neg (show s.g.cur ≠ (s.l t).newT by omega)]
  by_cases h4 : (s.l t).pc = .rzPublish
  · by_cases hh : (s.l t).hint = .clear
    · exact Or.inr ⟨h4, hh⟩
    · exact absurd (publish_preserves_abs p hmin s h t c g' l' h4 hh hs k) hk
  · exfalso; apply hk
    obtain ⟨hc, hsame⟩ := quiet_sameD p t s.g (s.l t) c g' l' h1 h2 h3 h4 hs
    unfold absGet; rw [hc, (hsame _).2]

/-- **D3, commit**: a commit changes the abstract content at most at the key of the call -/
theorem commit_changes_only_key (p : Params K) (t : Tid) (g : G K V) (l : L K V)
    (c : Choice K V) (g' : G K V) (l' : L K V) (hpc : l.pc = .dcCommit)
    (hs : tstep p t g l c = some (g', l')) :
    ∀ k', some k' ≠ opKey l → absGet g' k' = absGet g k' := by
  obtain ⟨k0, nv, del, hk0, -⟩ := commit_shape p t g l c g' l' hpc hs
  obtain ⟨hc, -, -, hoth, hkey, -⟩ := commit_frame p t g l c g' l' hpc hs k0 hk0
  intro k' hk'
  have hne : k' ≠ k0 := by intro e; subst e; exact hk' hk0.symm
  unfold absGet; rw [hc]
  by_cases hT : g.cur = l.tbl
  · rw [hT]; exact hkey k' hne
  · rw [hoth _ hT]

/-- **D3, clear**: the publish step of `Clear` empties the abstract content -/
theorem clear_publish_empties (p : Params K) (hmin : 0 < p.minLen) (s : St K V) (h : Reach p s) (t : Tid)
    (c : Choice K V) (g' : G K V) (l' : L K V) (hpc : (s.l t).pc = .rzPublish) (hh : (s.l t).hint = .clear)
    (hs : tstep p t s.g (s.l t) c = some (g', l')) : ∀ k, absGet g' k = none := by
  have hclr := ((dinv_reach p hmin s h).ld t).clr hpc hh
  simp only [tstep, hpc, Option.some.injEq, Prod.mk.injEq] at hs
  obtain ⟨rfl, -⟩ := hs
  intro k; unfold absGet; dsimp only; rw [hclr]; rfl

/-! ### D4 -/

/-- **D4 (C08)**: in every table generation (published, retired or under construction) the sum of the counter
stripes plus the deltas of the writers between their commit and their counter update equals the number of entries.
(`total` is the ghost *atomic* sum of the stripes; `hst`: every table has at least one stripe.) -/
theorem counter_invariant (p : Params K) (hmin : 0 < p.minLen) (hst : ∀ n, 0 < p.stripes n) (s : St K V) (h : Reach p s) (T : Nat)
    (hT : T < s.g.ntables) (N : Nat) (hN : ∀ u : Nat, N ≤ u → (s.l u).pc = .idle) :
    (s.g.tables T).total (p.stripes (s.g.tables T).len) + pendSum s T N = ((s.g.tables T).data.length : Int) :=
  (dinv_reach p hmin s h).cnt T hT hst N (fun u hu => by simp [pendingOn, hN u hu])

/-- the same, for every bound `N` above the writers with a pending delta on `T` -/
theorem counter_invariant' (p : Params K) (hmin : 0 < p.minLen) (hst : ∀ n, 0 < p.stripes n) (s : St K V) (h : Reach p s) (T : Nat)
    (hT : T < s.g.ntables) (N : Nat) (hN : ∀ u : Nat, N ≤ u → pendingOn (s.l u) T = false) :
    (s.g.tables T).total (p.stripes (s.g.tables T).len) + pendSum s T N = ((s.g.tables T).data.length : Int) :=
  (dinv_reach p hmin s h).cnt T hT hst N hN

/-- the counter of the current table is exact when no call is in progress -/
theorem size_exact_when_quiescent (p : Params K) (hmin : 0 < p.minLen) (hst : ∀ n, 0 < p.stripes n) (s : St K V) (h : Reach p s)
    (hq : ∀ u, (s.l u).pc = .idle) :
    (s.g.tables s.g.cur).total (p.stripes (s.g.tables s.g.cur).len) = ((s.g.tables s.g.cur).data.length : Int) := by
  have := counter_invariant p hmin hst s h s.g.cur (inv_reach p s h).1.2 0 (fun u _ => hq u)
  simpa [pendSum] using this

/-- the counter of the current table is exact when no writer is between its commit and its counter update -/
theorem total_exact_no_pending (p : Params K) (hmin : 0 < p.minLen) (hst : ∀ n, 0 < p.stripes n) (s : St K V) (h : Reach p s)
    (hq : ∀ u, pendingOn (s.l u) s.g.cur = false) :
    (s.g.tables s.g.cur).total (p.stripes (s.g.tables s.g.cur).len) = ((s.g.tables s.g.cur).data.length : Int) := by
  have := counter_invariant' p hmin hst s h s.g.cur (inv_reach p s h).1.2 0 (fun u _ => hq u)
  simpa [pendSum] using this

/-! ### the `Size()` call: `sumSize` reads the stripes one atomic load at a time -/

/-- pcs whose step only reads shared state (or touches nothing shared): starting a call, `Load`, the lock-free
fast path of LoadOrStore/LoadOrCompute, `Size`, returning to the caller -/
def roPc : Pc → Bool
  | .idle | .ldTable | .ldRead | .szTable | .szSum | .dcFast | .ret => true
  | _ => false

/-- a step at a read-only pc changes nothing shared -/
theorem ro_step_g (p : Params K) (t : Tid) (g : G K V) (l : L K V) (c : Choice K V) (g' : G K V) (l' : L K V)
    (h : roPc l.pc = true) (hs : tstep p t g l c = some (g', l')) : g' = g := by
  cases hpc : l.pc <;> simp [roPc, hpc] at h <;> simp only [tstep, hpc] at hs <;> (repeat' split at hs) <;>
    simp only [Option.some.injEq, reduceCtorEq, Prod.mk.injEq] at hs <;> exact hs.1.symm

/-- a thread at a read-only pc has no pending counter delta -/
theorem ro_not_pending (l : L K V) (T : Nat) (h : roPc l.pc = true) : pendingOn l T = false := by
  cases hpc : l.pc <;> simp [roPc, hpc] at h <;> simp [pendingOn, hpc]

/-- loop invariant of `sumSize` inside a `Size` call on table `T`, whose `n` counter stripes are `c0`:
before the table is loaded; or `acc` is the sum of the stripes `< si`; or the call has its result, the full sum -/
def SzL (T : Nat) (c0 : Nat → Int) (n : Nat) (l : L K V) : Prop :=
  l.pc = .szTable ∨ (l.pc = .szSum ∧ l.tbl = T ∧ l.si < n ∧ l.acc = psum c0 l.si) ∨
  (l.pc = .ret ∧ l.result = some (.size (psum c0 n)))

/-- a step of the `Size` call (not its return step) keeps the loop invariant and changes nothing shared, as long as
the current table is `T` and its stripes are `c0` -/
theorem szL_step (p : Params K) (t : Tid) (g : G K V) (l : L K V) (c : Choice K V) (g' : G K V) (l' : L K V)
    (T : Nat) (c0 : Nat → Int) (n : Nat) (hn : 0 < n) (hT : g.cur = T) (hc : (g.tables T).ctr = c0)
    (hnn : p.stripes (g.tables T).len = n) (h : SzL T c0 n l) (hret : l.pc ≠ .ret)
    (hs : tstep p t g l c = some (g', l')) : g' = g ∧ SzL T c0 n l' := by
  rcases h with hpc | ⟨hpc, htb, hsi, hacc⟩ | ⟨hpc, -⟩
  · simp only [tstep, hpc, Option.some.injEq, Prod.mk.injEq] at hs
    obtain ⟨rfl, rfl⟩ := hs
    exact ⟨rfl, Or.inr (Or.inl ⟨rfl, hT, hn, rfl⟩)⟩
  · simp only [tstep, hpc, htb, hnn, hc] at hs
    split at hs <;> simp only [Option.some.injEq, Prod.mk.injEq] at hs <;> obtain ⟨rfl, rfl⟩ := hs
    · rename_i hlt
      exact ⟨rfl, Or.inr (Or.inl ⟨rfl, rfl, hlt, by rw [psum_succ, ← hacc]⟩)⟩
    · rename_i hlt
      have : l.si + 1 = n := by omega
      exact ⟨rfl, Or.inr (Or.inr ⟨rfl, by rw [← this, psum_succ, ← hacc]⟩)⟩
  · exact absurd hpc hret

/-! ## part: Range (D5) -/

/-- the number of root buckets of an allocated table generation never changes -/
theorem step_len (p : Params K) (t : Tid) (g : G K V) (l : L K V) (c : Choice K V) (g' : G K V) (l' : L K V)
    (hs : tstep p t g l c = some (g', l')) : ∀ T, T < g.ntables → (g'.tables T).len = (g.tables T).len := by
  by_cases h1 : l.pc = .dcCommit
  · obtain ⟨k0, nv, del, hk0, -⟩ := commit_shape p t g l c g' l' h1 hs
    obtain ⟨-, -, hlen, -⟩ := commit_frame p t g l c g' l' h1 hs k0 hk0
    exact fun T _ => (hlen T).1
  by_cases h2 : l.pc = .rzDecide ∨ l.pc = .rzDecideSum
  · rcases h2 with h2 | h2 <;> simp only [tstep, h2] at hs <;>
    (repeat' split at hs) <;> simp only [Option.some.injEq, Prod.mk.injEq] at hs <;> obtain ⟨rfl, -⟩ := hs <;>
      intro T hT <;> simp only [setTbl] <;> (try rw [if_neg (show T ≠ g.ntables by omega)])
  by_cases h3 : l.pc = .rzCopyDo
  · simp only [tstep, h3, Option.some.injEq, Prod.mk.injEq] at hs
    obtain ⟨rfl, -⟩ := hs
    intro T _; simp only [setTbl]; split
    · rename_i h; subst h; rfl
    · rfl
  by_cases h4 : l.pc = .rzPublish
  · simp only [tstep, h4, Option.some.injEq, Prod.mk.injEq] at hs
    obtain ⟨rfl, -⟩ := hs
    exact fun T _ => rfl
  · exact fun T _ => ((quiet_sameD p t g l c g' l' h1 h2 h3 h4 hs).2 T).1

/-- the table index and the suspended traversals of the stepping thread stay at or below `cur` -/
theorem tblLe_step (p : Params K) (t : Tid) (g : G K V) (l : L K V) (c : Choice K V) (g' : G K V) (l' : L K V)
    (hd : LD p g l) (hs : tstep p t g l c = some (g', l')) :
    l'.tbl ≤ g.cur ∧ ∀ f ∈ l'.frames, f.tbl ≤ g.cur := by
  by_cases h1 : l.pc = .dcCommit
  · obtain ⟨_, _, _, _, _, _, htbl, hfr, -⟩ := commit_shape p t g l c g' l' h1 hs
    rw [htbl, hfr]; exact ⟨hd.tblLe, hd.framesLe⟩
  by_cases h2 : l.pc = .rzDecide ∨ l.pc = .rzDecideSum
  · rcases h2 with h2 | h2 <;> simp only [tstep, h2] at hs <;>
    (repeat' split at hs) <;> simp only [Option.some.injEq, Prod.mk.injEq] at hs <;> obtain ⟨-, rfl⟩ := hs <;>
      exact ⟨hd.tblLe, hd.framesLe⟩
  by_cases h3 : l.pc = .rzCopyDo
  · simp only [tstep, h3, Option.some.injEq, Prod.mk.injEq] at hs
    obtain ⟨-, rfl⟩ := hs; exact ⟨hd.tblLe, hd.framesLe⟩
  by_cases h4 : l.pc = .rzPublish
  · simp only [tstep, h4, Option.some.injEq, Prod.mk.injEq] at hs
    obtain ⟨-, rfl⟩ := hs; exact ⟨hd.tblLe, hd.framesLe⟩
  · have := selfq p t g l c g' l' hd h1 h2 h3 h4 hs
    exact ⟨this.tblLe, this.framesLe⟩

def rgPc : Pc → Bool
  | .rgLock | .rgCopy | .rgUnlock | .rgVisit => true
  | _ => false

/-- a traversal state: no key twice among the entries visited and the entries still in the snapshot, all of them
from the root buckets `≤ ri` of the traversed table -/
def TravOK (p : Params K) (g : G K V) (tbl ri : Nat) (visited snap : List (K × V)) : Prop :=
  (AMap.keys (visited ++ snap)).Nodup ∧ ∀ e ∈ visited ++ snap, bucketOf p g tbl e.1 ≤ ri

structure RD (p : Params K) (g : G K V) (l : L K V) : Prop where
  rg : rgPc l.pc = true → TravOK p g l.tbl l.ri l.visited l.snap
  rgl : (l.pc = .rgLock ∨ l.pc = .rgCopy) → l.snap = [] ∧ ∀ e ∈ l.visited, bucketOf p g l.tbl e.1 < l.ri
  rgt : l.pc = .rgTable → l.snap = []
  fr : ∀ f ∈ l.frames, TravOK p g f.tbl f.ri f.visited f.snap

theorem TravOK_congr (p : Params K) (g g' : G K V) (tbl ri : Nat) (vs sn : List (K × V))
    (h : (g'.tables tbl).len = (g.tables tbl).len) (ht : TravOK p g tbl ri vs sn) : TravOK p g' tbl ri vs sn :=
  ⟨ht.1, fun e he => by rw [bucketOf_congr p g g' tbl e.1 h]; exact ht.2 e he⟩

theorem RD_congr (p : Params K) (g g' : G K V) (l : L K V) (hcur : g.cur < g.ntables)
    (hlen : ∀ T, T < g.ntables → (g'.tables T).len = (g.tables T).len)
    (ht : l.tbl ≤ g.cur) (hf : ∀ f ∈ l.frames, f.tbl ≤ g.cur) (hr : RD p g l) : RD p g' l := by
  have h1 := hlen l.tbl (by omega)
  refine ⟨fun h => TravOK_congr p g g' _ _ _ _ h1 (hr.rg h), fun h => ⟨(hr.rgl h).1, fun e he => ?_⟩, hr.rgt,
    fun f hf' => TravOK_congr p g g' _ _ _ _ (hlen f.tbl (by have := hf f hf'; omega)) (hr.fr f hf')⟩
  rw [bucketOf_congr p g g' _ e.1 h1]; exact (hr.rgl h).2 e he

theorem RD_of_quiet (p : Params K) (g : G K V) (l : L K V)
    (hpc : rgPc l.pc = false) (hpc' : l.pc ≠ .rgTable)
    (hf : ∀ f ∈ l.frames, TravOK p g f.tbl f.ri f.visited f.snap) : RD p g l := by
  refine ⟨fun h => (by rw [hpc] at h; cases h), fun h => ?_, fun h => absurd h hpc', hf⟩
  rcases h with h | h <;> rw [h] at hpc <;> cases hpc

theorem RD_startOp (p : Params K) (g : G K V) (l : L K V) (op : POp K V)
    (hf : ∀ f ∈ l.frames, TravOK p g f.tbl f.ri f.visited f.snap) : RD p g (startOp l op) := by
  rcases op with _ | ⟨_, _, _ | _, _⟩ | _ | _ | _ <;> (refine ⟨?_, ?_, ?_, ?_⟩) <;> simp [startOp, rgPc] <;> exact hf

theorem RD_popCont (p : Params K) (g : G K V) (l : L K V) (hr : RD p g l) : RD p g (popCont l) := by
  obtain ⟨hp, hf⟩ := popCont_pc l
  refine RD_of_quiet p g _ ?_ ?_ (by rw [hf]; exact hr.fr)
  · rcases hp with h | h | h <;> rw [h] <;> rfl
  · rcases hp with h | h | h <;> rw [h] <;> simp

@[simp] theorem TravOK_nil (p : Params K) (g : G K V) (tbl ri : Nat) : TravOK p g tbl ri [] [] :=
  ⟨List.nodup_nil, fun e he => by cases he⟩

set_option hygiene false in
local macro "selfr_tac" : tactic => `(tactic| (
      repeat' split at hs
      all_goals simp only [Option.some.injEq, reduceCtorEq, Prod.mk.injEq] at hs
      all_goals obtain ⟨-, rfl⟩ := hs
      all_goals (refine ⟨?_, ?_, ?_, ?_⟩)
      all_goals simp_all [rgPc, callResize, callWait]))

set_option hygiene false in
local macro "selfr_case" n:ident pc:term : command =>
  `(theorem $n {K V : Type} [DecidableEq K] (p : Params K) (t : Tid) (g : G K V) (l : L K V) (c : Choice K V) (g' : G K V) (l' : L K V)
    (hr : RD p g l) (hpc : l.pc = $pc) (hs : tstep p t g l c = some (g', l')) : RD p g l' := by
  obtain ⟨r1, r2, r3, r4⟩ := hr
  simp only [tstep, hpc] at hs
  selfr_tac)

selfr_case selfr_ldTable Pc.ldTable
selfr_case selfr_ldRead Pc.ldRead
selfr_case selfr_szTable Pc.szTable
selfr_case selfr_szSum Pc.szSum
selfr_case selfr_dcFast Pc.dcFast
selfr_case selfr_dcLoadTable Pc.dcLoadTable
selfr_case selfr_dcLock Pc.dcLock
selfr_case selfr_dcChkResizing Pc.dcChkResizing
selfr_case selfr_dcChkTable Pc.dcChkTable
selfr_case selfr_dcScan Pc.dcScan
selfr_case selfr_dcSum Pc.dcSum
selfr_case selfr_dcFn Pc.dcFn
selfr_case selfr_dcCommit Pc.dcCommit
selfr_case selfr_dcUnlock Pc.dcUnlock
selfr_case selfr_dcAddSize Pc.dcAddSize
selfr_case selfr_dcMaybeShrink Pc.dcMaybeShrink
selfr_case selfr_dcUnlockWait Pc.dcUnlockWait
selfr_case selfr_dcUnlockRetry Pc.dcUnlockRetry
selfr_case selfr_dcUnlockGrow Pc.dcUnlockGrow
selfr_case selfr_rzCas Pc.rzCas
selfr_case selfr_rzLoadTable Pc.rzLoadTable
selfr_case selfr_rzDecide Pc.rzDecide
selfr_case selfr_rzDecideSum Pc.rzDecideSum
selfr_case selfr_rzCopyLock Pc.rzCopyLock
selfr_case selfr_rzCopyDo Pc.rzCopyDo
selfr_case selfr_rzCopyUnlock Pc.rzCopyUnlock
selfr_case selfr_rzPublish Pc.rzPublish
selfr_case selfr_rzMuLock Pc.rzMuLock
selfr_case selfr_rzClearFlag Pc.rzClearFlag
selfr_case selfr_rzBroadcast Pc.rzBroadcast
selfr_case selfr_wfMuLock Pc.wfMuLock
selfr_case selfr_wfChk Pc.wfChk
selfr_case selfr_wfPark Pc.wfPark
selfr_case selfr_wfRelock Pc.wfRelock
selfr_case selfr_clTable Pc.clTable
selfr_case selfr_rgTable Pc.rgTable
theorem selfr_rgLock (p : Params K) (t : Tid) (g : G K V) (l : L K V) (c : Choice K V) (g' : G K V) (l' : L K V)
    (hr : RD p g l) (hpc : l.pc = .rgLock) (hs : tstep p t g l c = some (g', l')) : RD p g l' := by
  obtain ⟨r1, r2, r3, r4⟩ := hr
  simp only [tstep, hpc] at hs
  selfr_tac
  exact r2.2
selfr_case selfr_rgUnlock Pc.rgUnlock
selfr_case selfr_ret Pc.ret

theorem selfr_idle (p : Params K) (t : Tid) (g : G K V) (l : L K V) (c : Choice K V) (g' : G K V) (l' : L K V)
    (hr : RD p g l) (hpc : l.pc = .idle) (hs : tstep p t g l c = some (g', l')) : RD p g l' := by
  simp only [tstep, hpc] at hs
  split at hs
  · simp only [Option.some.injEq, Prod.mk.injEq] at hs
    obtain ⟨-, rfl⟩ := hs
    exact RD_startOp p g l _ hr.fr
  · simp at hs

theorem selfr_rzFast (p : Params K) (t : Tid) (g : G K V) (l : L K V) (c : Choice K V) (g' : G K V) (l' : L K V)
    (hr : RD p g l) (hpc : l.pc = .rzFast) (hs : tstep p t g l c = some (g', l')) : RD p g l' := by
  simp only [tstep, hpc] at hs
  (repeat' split at hs) <;> simp only [Option.some.injEq, Prod.mk.injEq] at hs <;> obtain ⟨-, rfl⟩ := hs
  · exact RD_popCont p g l hr
  · exact RD_of_quiet p g _ rfl (by simp) hr.fr
  · exact RD_of_quiet p g _ rfl (by simp) hr.fr

theorem selfr_rzFastSum (p : Params K) (t : Tid) (g : G K V) (l : L K V) (c : Choice K V) (g' : G K V) (l' : L K V)
    (hr : RD p g l) (hpc : l.pc = .rzFastSum) (hs : tstep p t g l c = some (g', l')) : RD p g l' := by
  simp only [tstep, hpc] at hs
  (repeat' split at hs) <;> simp only [Option.some.injEq, Prod.mk.injEq] at hs <;> obtain ⟨-, rfl⟩ := hs
  · exact RD_of_quiet p g _ (by simp [rgPc]) (by simp) hr.fr
  · exact RD_popCont p g l hr
  · exact RD_of_quiet p g _ rfl (by simp) hr.fr

theorem selfr_rzMuUnlock (p : Params K) (t : Tid) (g : G K V) (l : L K V) (c : Choice K V) (g' : G K V) (l' : L K V)
    (hr : RD p g l) (hpc : l.pc = .rzMuUnlock) (hs : tstep p t g l c = some (g', l')) : RD p g l' := by
  simp only [tstep, hpc, Option.some.injEq, Prod.mk.injEq] at hs
  obtain ⟨-, rfl⟩ := hs
  exact RD_popCont p g l hr

theorem selfr_wfMuUnlock (p : Params K) (t : Tid) (g : G K V) (l : L K V) (c : Choice K V) (g' : G K V) (l' : L K V)
    (hr : RD p g l) (hpc : l.pc = .wfMuUnlock) (hs : tstep p t g l c = some (g', l')) : RD p g l' := by
  simp only [tstep, hpc, Option.some.injEq, Prod.mk.injEq] at hs
  obtain ⟨-, rfl⟩ := hs
  exact RD_popCont p g l hr

theorem keys_append (a b : List (K × V)) : AMap.keys (a ++ b) = AMap.keys a ++ AMap.keys b := by
  simp [AMap.keys]

theorem mem_keys (a : List (K × V)) (k : K) : k ∈ AMap.keys a ↔ ∃ v, (k, v) ∈ a := by
  simp [AMap.keys]

/-- the snapshot step: the snapshot is the content of bucket `ri`, whose keys are new -/
theorem selfr_rgCopy (p : Params K) (t : Tid) (g : G K V) (l : L K V) (c : Choice K V) (g' : G K V) (l' : L K V)
    (hgd : GD g) (hr : RD p g l) (hpc : l.pc = .rgCopy) (hs : tstep p t g l c = some (g', l')) : RD p g l' := by
  simp only [tstep, hpc, Option.some.injEq, Prod.mk.injEq] at hs
  obtain ⟨-, rfl⟩ := hs
  obtain ⟨hsn, hlt⟩ := hr.rgl (Or.inr hpc)
  have h1 := hr.rg (by rw [hpc]; rfl)
  unfold TravOK at h1
  rw [hsn, List.append_nil] at h1
  have hes : ∀ e ∈ bucketEntries p g l.tbl l.ri, bucketOf p g l.tbl e.1 = l.ri := by
    intro e he
    have := (List.mem_filter.mp he).2
    simpa using this
  refine ⟨fun _ => ⟨?_, ?_⟩, ?_, ?_, hr.fr⟩
  · dsimp only
    rw [keys_append]
    refine List.nodup_append.mpr ⟨h1.1, WF_filter _ _ (hgd.wf _), ?_⟩
    intro a ha b hb hab
    subst hab
    obtain ⟨v, hv⟩ := (mem_keys _ _).mp ha
    obtain ⟨w, hw⟩ := (mem_keys _ _).mp hb
    have e1 := hlt _ hv
    have e2 := hes _ hw
    dsimp only at e1 e2
    omega
  · intro e he
    rcases List.mem_append.mp he with he | he
    · exact Nat.le_of_lt (hlt e he)
    · exact Nat.le_of_eq (hes e he)
  · intro h; rcases h with h | h <;> cases h
  · intro h; cases h

theorem selfr_rgVisit (p : Params K) (t : Tid) (g : G K V) (l : L K V) (c : Choice K V) (g' : G K V) (l' : L K V)
    (hr : RD p g l) (hpc : l.pc = .rgVisit) (hs : tstep p t g l c = some (g', l')) : RD p g l' := by
  have h1 := hr.rg (by rw [hpc]; rfl)
  simp only [tstep, hpc] at hs
  split at hs
  · simp only [Option.some.injEq, Prod.mk.injEq] at hs
    obtain ⟨-, rfl⟩ := hs
    refine RD_startOp p g _ _ ?_
    intro f hf
    simp only [List.mem_cons] at hf
    rcases hf with rfl | hf
    · exact h1
    · exact hr.fr f hf
  · split at hs
    · rename_i hsn
      simp only [Option.some.injEq, Prod.mk.injEq] at hs
      obtain ⟨-, rfl⟩ := hs
      rw [hsn] at h1
      refine ⟨fun _ => ?_, fun _ => ⟨hsn, fun e he => ?_⟩, ?_, hr.fr⟩
      · dsimp only; rw [hsn]
        exact ⟨h1.1, fun e he => Nat.le_succ_of_le (h1.2 e he)⟩
      · exact Nat.lt_succ_of_le (h1.2 e (by simpa using he))
      · intro h; simp at h
    · rename_i e rest hsn
      rw [hsn] at h1
      have h2 : TravOK p g l.tbl l.ri (l.visited ++ [e]) rest := by
        unfold TravOK at h1 ⊢
        rw [List.append_assoc]; exact h1
      split at hs <;> simp only [Option.some.injEq, Prod.mk.injEq] at hs <;> obtain ⟨-, rfl⟩ := hs
      · refine ⟨fun _ => h2, fun h => ?_, fun h => ?_, hr.fr⟩
        · rcases h with h | h <;> simp at h
        · simp at h
      · exact RD_of_quiet p g _ rfl (by simp) hr.fr

/-- the stepping thread: its new locals satisfy `RD` (w.r.t. the old globals) -/
theorem selfr (p : Params K) (t : Tid) (g : G K V) (l : L K V) (c : Choice K V) (g' : G K V) (l' : L K V)
    (hgd : GD g) (hr : RD p g l) (hs : tstep p t g l c = some (g', l')) : RD p g l' := by
  cases hpc : l.pc
  · exact selfr_idle p t g l c g' l' hr hpc hs
  · exact selfr_ldTable p t g l c g' l' hr hpc hs
  · exact selfr_ldRead p t g l c g' l' hr hpc hs
  · exact selfr_szTable p t g l c g' l' hr hpc hs
  · exact selfr_szSum p t g l c g' l' hr hpc hs
  · exact selfr_dcFast p t g l c g' l' hr hpc hs
  · exact selfr_dcLoadTable p t g l c g' l' hr hpc hs
  · exact selfr_dcLock p t g l c g' l' hr hpc hs
  · exact selfr_dcChkResizing p t g l c g' l' hr hpc hs
  · exact selfr_dcChkTable p t g l c g' l' hr hpc hs
  · exact selfr_dcScan p t g l c g' l' hr hpc hs
  · exact selfr_dcSum p t g l c g' l' hr hpc hs
  · exact selfr_dcFn p t g l c g' l' hr hpc hs
  · exact selfr_dcCommit p t g l c g' l' hr hpc hs
  · exact selfr_dcUnlock p t g l c g' l' hr hpc hs
  · exact selfr_dcAddSize p t g l c g' l' hr hpc hs
  · exact selfr_dcMaybeShrink p t g l c g' l' hr hpc hs
  · exact selfr_dcUnlockWait p t g l c g' l' hr hpc hs
  · exact selfr_dcUnlockRetry p t g l c g' l' hr hpc hs
  · exact selfr_dcUnlockGrow p t g l c g' l' hr hpc hs
  · exact selfr_rzFast p t g l c g' l' hr hpc hs
  · exact selfr_rzFastSum p t g l c g' l' hr hpc hs
  · exact selfr_rzCas p t g l c g' l' hr hpc hs
  · exact selfr_rzLoadTable p t g l c g' l' hr hpc hs
  · exact selfr_rzDecide p t g l c g' l' hr hpc hs
  · exact selfr_rzDecideSum p t g l c g' l' hr hpc hs
  · exact selfr_rzCopyLock p t g l c g' l' hr hpc hs
  · exact selfr_rzCopyDo p t g l c g' l' hr hpc hs
  · exact selfr_rzCopyUnlock p t g l c g' l' hr hpc hs
  · exact selfr_rzPublish p t g l c g' l' hr hpc hs
  · exact selfr_rzMuLock p t g l c g' l' hr hpc hs
  · exact selfr_rzClearFlag p t g l c g' l' hr hpc hs
  · exact selfr_rzBroadcast p t g l c g' l' hr hpc hs
  · exact selfr_rzMuUnlock p t g l c g' l' hr hpc hs
  · exact selfr_wfMuLock p t g l c g' l' hr hpc hs
  · exact selfr_wfChk p t g l c g' l' hr hpc hs
  · exact selfr_wfPark p t g l c g' l' hr hpc hs
  · exact selfr_wfRelock p t g l c g' l' hr hpc hs
  · exact selfr_wfMuUnlock p t g l c g' l' hr hpc hs
  · exact selfr_clTable p t g l c g' l' hr hpc hs
  · exact selfr_rgTable p t g l c g' l' hr hpc hs
  · exact selfr_rgLock p t g l c g' l' hr hpc hs
  · exact selfr_rgCopy p t g l c g' l' hgd hr hpc hs
  · exact selfr_rgUnlock p t g l c g' l' hr hpc hs
  · exact selfr_rgVisit p t g l c g' l' hr hpc hs
  · exact selfr_ret p t g l c g' l' hr hpc hs

/-- the Range invariant of a state -/
def RInv (p : Params K) (s : St K V) : Prop := ∀ u, RD p s.g (s.l u)

theorem rinv_init (p : Params K) : RInv (V := V) p (init p) :=
  fun u => RD_of_quiet p _ _ rfl (by simp [init, L.init]) (fun f hf => by cases hf)

theorem rinv_step (p : Params K) (s s' : St K V) (t : Tid) (c : Choice K V)
    (hi : Inv s) (hd : DInv p s) (hr : RInv p s) (hs : step p s t c = some s') : RInv p s' := by
  unfold step at hs
  split at hs
  · simp at hs
  · rename_i g' l' heq
    simp only [Option.some.injEq] at hs; subst hs
    have hlen := step_len p t s.g (s.l t) c g' l' heq
    intro u
    dsimp only
    by_cases hu : u = t
    · rw [if_pos hu]
      obtain ⟨h1, h2⟩ := tblLe_step p t s.g (s.l t) c g' l' (hd.ld t) heq
      exact RD_congr p s.g g' l' hi.1.2 hlen h1 h2 (selfr p t s.g (s.l t) c g' l' hd.gd (hr t) heq)
    · rw [if_neg hu]
      exact RD_congr p s.g g' _ hi.1.2 hlen (hd.ld u).tblLe (hd.ld u).framesLe (hr u)

theorem rinv_run (p : Params K) (hmin : 0 < p.minLen) (sched : List (Tid × Choice K V)) (s s' : St K V)
    (hi : Inv s) (hd : DInv p s) (hr : RInv p s) (hrun : run p s sched = some s') : RInv p s' := by
  induction sched generalizing s with
  | nil => simp only [run, Option.some.injEq] at hrun; subst hrun; exact hr
  | cons a rest ih =>
    obtain ⟨t, c⟩ := a
    simp only [run] at hrun
    split at hrun
    · rename_i s1 heq
      exact ih s1 (inv_step p s s1 t c hi heq) (dinv_step p hmin s s1 t c hi hd heq) (rinv_step p s s1 t c hi hd hr heq) hrun
    · simp at hrun

theorem rinv_reach (p : Params K) (hmin : 0 < p.minLen) (s : St K V) (h : Reach p s) : RInv p s := by
  obtain ⟨sched, hr⟩ := h
  exact rinv_run p hmin sched _ s (inv_init p) (dinv_init p hmin) (rinv_init p) hr

/-- **D5**: during a traversal no key occurs twice among the entries already visited and the entries still in
the snapshot; all of them come from the root buckets `≤ ri` of the traversed table -/
theorem range_keys_nodup (p : Params K) (hmin : 0 < p.minLen) (s : St K V) (h : Reach p s) (u : Tid)
    (hpc : (s.l u).pc = .rgVisit ∨ (s.l u).pc = .rgLock ∨ (s.l u).pc = .rgCopy ∨ (s.l u).pc = .rgUnlock) :
    (AMap.keys ((s.l u).visited ++ (s.l u).snap)).Nodup ∧
      ∀ e ∈ (s.l u).visited ++ (s.l u).snap, bucketOf p s.g (s.l u).tbl e.1 ≤ (s.l u).ri :=
  (rinv_reach p hmin s h u).rg (by rcases hpc with e | e | e | e <;> rw [e] <;> rfl)

/-- the same for every suspended traversal (the visitor is running a nested call) -/
theorem range_frames_nodup (p : Params K) (hmin : 0 < p.minLen) (s : St K V) (h : Reach p s) (u : Tid)
    (f : Frame K V) (hf : f ∈ (s.l u).frames) : (AMap.keys (f.visited ++ f.snap)).Nodup :=
  ((rinv_reach p hmin s h u).fr f hf).1

/-- **D5**: the snapshot step copies exactly the current content of the root bucket, under its lock, and
changes nothing shared -/
theorem rgCopy_snapshot (p : Params K) (s : St K V) (h : Reach p s) (t : Tid) (c : Choice K V) (g' : G K V) (l' : L K V)
    (hpc : (s.l t).pc = .rgCopy) (hs : tstep p t s.g (s.l t) c = some (g', l')) :
    g' = s.g ∧ l'.snap = bucketEntries p s.g (s.l t).tbl (s.l t).ri ∧ l'.visited = (s.l t).visited ∧
      (s.g.tables (s.l t).tbl).lock (s.l t).ri = some t := by
  have hl := ((inv_reach p s h).2 t).lock (s.l t).tbl (s.l t).ri
  simp only [tstep, hpc, Option.some.injEq, Prod.mk.injEq] at hs
  obtain ⟨rfl, rfl⟩ := hs
  exact ⟨rfl, rfl, rfl, hl.mpr (by simp [holdsBucket, hpc])⟩

end Proofs.ProtoData
