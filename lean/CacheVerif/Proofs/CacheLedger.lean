import CacheVerif.Proofs.CacheRefine
import CacheVerif.Model.Table
/-!
# Physical facts about M2: the callback ledger (C06) and Count (C08), sequential histories
-/
set_option linter.unusedSectionVars false
namespace Proofs.CacheLedger
open Spec Spec.AMap Model Model.Cache Proofs.LeafCache Proofs.CacheRefine

variable {K V : Type} [DecidableEq K] [Inhabited V]

/-- the entries of `m` that are expired at `now` -/
def deadAt (now : Int) (m : AMap K (Item V)) : List (K × Item V) := m.filter fun p => TTL.expired p.2.e now

theorem deadAt_cons (now : Int) (k : K) (i : Item V) (m : AMap K (Item V)) :
    deadAt now ((k, i) :: m) = if TTL.expired i.e now then (k, i) :: deadAt now m else deadAt now m := by
  simp [deadAt, List.filter_cons]

/-- one conditional delete of `DeleteExpired` on a key that still holds an item expired at `now` -/
theorem compute_sweepFn_dead (now : Int) (m : AMap K (Item V)) (k : K) (c : Item V) (hg : m.get k = some c)
    (hc : TTL.expired c.e now = true) : (m.compute k (sweepFn now)).1 = m.erase k := by
  simp [AMap.compute, hg, sweepFn, item_expiredWithNow_eq, hc]

/-- the sweep over an arbitrary duplicate-free snapshot whose entries are all still in the accumulator,
unchanged -/
theorem sweep_gen (now : Int) (hasCb : Bool) (snap : List (K × Item V)) :
    ∀ (acc : AMap K (Item V) × List (K × V)), AMap.WF acc.1 → AMap.WF snap →
      (∀ p ∈ snap, acc.1.get p.1 = some p.2) →
      (∀ k, ((sweep now hasCb snap acc).1).get k =
          match AMap.get snap k with
          | some i => if TTL.expired i.e now then none else acc.1.get k
          | none => acc.1.get k) ∧
      (sweep now hasCb snap acc).2 =
        acc.2 ++ (if hasCb then (deadAt now snap).map (fun p => (p.1, p.2.v)) else []) ∧
      AMap.WF (sweep now hasCb snap acc).1 := by
  induction snap with
  | nil =>
    intro acc hw _ _
    refine ⟨fun k => rfl, ?_, hw⟩
    cases hasCb <;> simp [sweep, deadAt]
  | cons p rest ih =>
    obtain ⟨k, i⟩ := p
    intro acc hw hs hin
    have hs' := hs
    simp only [AMap.WF, keys, List.map_cons, List.nodup_cons] at hs'
    have hkr : AMap.get rest k = none := (get_eq_none_iff rest k).mpr hs'.1
    have hwr : AMap.WF rest := hs'.2
    have hgk : acc.1.get k = some i := hin (k, i) (List.mem_cons_self ..)
    have hne : ∀ p ∈ rest, k ≠ p.1 := by
      intro p hp e
      exact hs'.1 (e ▸ List.mem_map.mpr ⟨p, hp, rfl⟩)
    unfold sweep
    rw [item_expiredWithNow_eq]
    by_cases hx : TTL.expired i.e now = true
    · simp only [hx, if_true]
      rw [compute_sweepFn_dead now acc.1 k i hgk hx, hgk]
      simp only [item_expiredWithNow_eq, hx, Bool.true_and]
      obtain ⟨h1, h2, h3⟩ := ih (acc.1.erase k, acc.2 ++ if hasCb = true then [(k, i.v)] else [])
        (AMap.WF_erase _ _ hw) hwr (by
          intro p hp
          show (acc.1.erase k).get p.1 = some p.2
          rw [get_erase_ne _ _ _ (hne p hp)]
          exact hin p (List.mem_cons_of_mem _ hp))
      refine ⟨?_, ?_, h3⟩
      · intro k'
        rw [h1 k', get_cons]
        by_cases hk : k = k'
        · subst hk
          simp [hkr, hx, get_erase_self]
        · simp only [if_neg hk]
          show (match AMap.get rest k' with
            | some i => if TTL.expired i.e now = true then none else (acc.1.erase k).get k'
            | none => (acc.1.erase k).get k') = _
          rw [get_erase_ne _ _ _ hk]
      · rw [h2, deadAt_cons, if_pos hx]
        cases hasCb <;> simp
    · simp only [hx, Bool.false_eq_true, if_false]
      obtain ⟨h1, h2, h3⟩ := ih acc hw hwr (fun p hp => hin p (List.mem_cons_of_mem _ hp))
      refine ⟨?_, ?_, h3⟩
      · intro k'
        rw [h1 k', get_cons]
        by_cases hk : k = k'
        · subst hk
          simp [hkr, hx]
        · simp only [if_neg hk]
      · rw [h2, deadAt_cons, if_neg hx]

/-- `DeleteExpired`'s sweep over the full snapshot of a well-formed map: afterwards exactly the entries that
were expired at `now` are gone, and the collected list is exactly those entries (key and removed value), in
snapshot order, when a callback is installed -/
theorem sweep_spec (now : Int) (hasCb : Bool) (m : AMap K (Item V)) (hw : AMap.WF m) :
    (∀ k, ((sweep now hasCb m (m, [])).1).get k =
        match m.get k with
        | some i => if TTL.expired i.e now then none else some i
        | none => none) ∧
    (sweep now hasCb m (m, [])).2 = (if hasCb then (deadAt now m).map (fun p => (p.1, p.2.v)) else []) ∧
    AMap.WF (sweep now hasCb m (m, [])).1 := by
  obtain ⟨h1, h2, h3⟩ := sweep_gen now hasCb m (m, []) hw hw (fun p hp => get_of_mem m hw p.1 p.2 hp)
  refine ⟨?_, by simpa using h2, h3⟩
  intro k
  rw [h1 k]
  cases hg : m.get k with
  | none => rfl
  | some i => rfl

/-! ### the callback ledger of one `DeleteExpired` call -/

theorem mem_deadAt (now : Int) (m : AMap K (Item V)) (p : K × Item V) :
    p ∈ deadAt now m ↔ p ∈ m ∧ TTL.expired p.2.e now = true := by
  simp [deadAt]

theorem keys_deadAt_sublist (now : Int) (m : AMap K (Item V)) : ((deadAt now m).map (·.1)).Sublist (keys m) := by
  unfold keys deadAt
  exact List.Sublist.map _ List.filter_sublist

/-- what `DeleteExpired` fires: one callback per entry expired at the call's clock, in snapshot order, with
the callback id in force -/
theorem deleteExpired_cbs (s : St K V) (hw : AMap.WF s.items) :
    (step s .deleteExpired).2.cbs =
      match s.cb with
      | some c => (deadAt s.now s.items).map (fun p => (c, p.1, p.2.v))
      | none => [] := by
  obtain ⟨_, h2, _⟩ := sweep_spec s.now s.cb.isSome s.items hw
  simp only [step]
  cases hc : s.cb with
  | none => rfl
  | some c =>
    rw [hc] at h2
    simp only [Option.isSome_some, if_true] at h2 ⊢
    rw [h2, List.map_map]
    rfl

/-- the map content after `DeleteExpired` -/
theorem deleteExpired_get (s : St K V) (hw : AMap.WF s.items) (k : K) :
    (step s .deleteExpired).1.items.get k =
      match s.items.get k with
      | some i => if TTL.expired i.e s.now then none else some i
      | none => none :=
  (sweep_spec s.now s.cb.isSome s.items hw).1 k

theorem deleteExpired_WF (s : St K V) (hw : AMap.WF s.items) : AMap.WF (step s .deleteExpired).1.items :=
  (sweep_spec s.now s.cb.isSome s.items hw).2.2

/-! ### `GetAndDelete` / `Delete` -/

/-- what `GetAndDelete` / `Delete` do to the stored content: the key is gone, nothing else changes -/
theorem getAndDelete_items (s : St K V) (k : K) :
    (getAndDelete s k).1.items.get k = none ∧
    ∀ k', k' ≠ k → (getAndDelete s k).1.items.get k' = s.items.get k' := by
  cases hg : s.items.get k with
  | none =>
    have e : (getAndDelete s k).1.items = s.items := by
      simp only [getAndDelete, AMap.compute, hg, if_true]
    rw [e]
    exact ⟨hg, fun _ _ => rfl⟩
  | some i =>
    have e : (getAndDelete s k).1.items = s.items.erase k := by
      simp only [getAndDelete, AMap.compute, hg, if_true]
    rw [e]
    exact ⟨AMap.get_erase_self _ _, fun k' hk => AMap.get_erase_ne _ _ _ (Ne.symm hk)⟩

/-- the ledger of `GetAndDelete` / `Delete` -/
theorem getAndDelete_cbs (s : St K V) (k : K) :
    (getAndDelete s k).2.cbs =
      (match s.items.get k, s.cb with
       | some i, some c => [(c, k, i.v)]
       | _, _ => []) := by
  cases hg : s.items.get k with
  | none => simp only [getAndDelete, hg]
  | some i =>
    simp only [getAndDelete, hg]
    cases s.cb <;> rfl

/-! ### tables -/

omit [DecidableEq K] [Inhabited V] in
/-- a visitor that never stops sees every pair -/
theorem table_walk_true (l : List (K × V)) : Model.Table.walk (fun _ _ => true) l = l := by
  induction l with
  | nil => rfl
  | cons p rest ih => obtain ⟨k, v⟩ := p; simp [Model.Table.walk, ih]

end Proofs.CacheLedger
