import CacheVerif.Model.SlotMap
/-!
# M4b (Map): representation invariant of one bucket chain and its preservation by the writer's micro-steps
-/
set_option linter.unusedSectionVars false
set_option linter.unusedVariables false
set_option linter.unusedSimpArgs false
namespace Proofs.SlotMapHindsight
open Model.SlotMap

variable {K V : Type} [DecidableEq K] (top : K → Nat)

/-- `omega` that sees through the abbreviation `Ptr := Nat` -/
macro "pomega" : tactic => `(tactic| ((try simp only [Ptr] at *); omega))

/-! ## list level -/

def slotOf (bs : List (List Slot)) (b i : Nat) : Slot := (bs.getD b []).getD i Slot.free

theorem getSlot_eq (g : G K V) (b i : Nat) : getSlot g b i = slotOf g.buckets b i := rfl

theorem slotOf_modify_ne (bs : List (List Slot)) (b i b' i' : Nat) (f : Slot → Slot) (h : ¬(b' = b ∧ i' = i)) :
    slotOf (bs.modify b fun bk => bk.modify i f) b' i' = slotOf bs b' i' := by
  unfold slotOf
  simp only [List.getD_eq_getElem?_getD, List.getElem?_modify]
  by_cases hb : b = b'
  · subst hb
    have hi : ¬ i = i' := fun e => h ⟨rfl, e.symm⟩
    cases hbs : bs[b]? with
    | none => simp
    | some bk => simp [List.getElem?_modify, hi]
  · simp [hb]

theorem slotOf_modify_eq (bs : List (List Slot)) (b i : Nat) (f : Slot → Slot)
    (hb : b < bs.length) (hi : i < (bs.getD b []).length) :
    slotOf (bs.modify b fun bk => bk.modify i f) b i = f (slotOf bs b i) := by
  unfold slotOf at *
  simp only [List.getD_eq_getElem?_getD, List.getElem?_modify] at *
  have : bs[b]? = some bs[b] := by simp [hb]
  rw [this] at hi ⊢
  simp only [Option.getD_some, Option.map_eq_map, Option.map_some, if_true] at hi ⊢
  simp [List.getElem?_modify, hi]

theorem slotOf_ge_len (bs : List (List Slot)) (b i : Nat) (h : bs.length ≤ b) : slotOf bs b i = Slot.free := by
  unfold slotOf
  simp [List.getD_eq_getElem?_getD, List.getElem?_eq_none h]

theorem slotOf_ge_S (bs : List (List Slot)) (b i : Nat) (hS : ∀ bk ∈ bs, bk.length = S) (h : S ≤ i) :
    slotOf bs b i = Slot.free := by
  unfold slotOf
  simp only [List.getD_eq_getElem?_getD]
  cases hbs : bs[b]? with
  | none => simp
  | some bk =>
    have : bk.length = S := hS bk (List.mem_of_getElem? hbs)
    simp [List.getElem?_eq_none (show bk.length ≤ i by omega)]

theorem slotOf_append (bs : List (List Slot)) (nb : List Slot) (b i : Nat) :
    slotOf (bs ++ [nb]) b i = if b = bs.length then nb.getD i Slot.free else slotOf bs b i := by
  unfold slotOf
  simp only [List.getD_eq_getElem?_getD, List.getElem?_append]
  by_cases h1 : b < bs.length
  · simp [h1, Nat.ne_of_lt h1]
  · by_cases h2 : b = bs.length
    · subst h2; simp
    · have : bs.length ≤ b := by omega
      have h3 : bs[b]? = none := List.getElem?_eq_none this
      have h4 : [nb][b - bs.length]? = none := List.getElem?_eq_none (by simp; omega)
      simp [h1, h2, h3, h4]

theorem lenS_modify (bs : List (List Slot)) (b i : Nat) (f : Slot → Slot) (hS : ∀ bk ∈ bs, bk.length = S) :
    ∀ bk ∈ (bs.modify b fun bk => bk.modify i f), bk.length = S := by
  intro bk hbk
  obtain ⟨j, hj⟩ := List.mem_iff_getElem?.mp hbk
  rw [List.getElem?_modify] at hj
  cases hbs : bs[j]? with
  | none => simp [hbs] at hj
  | some bk0 =>
    have := hS bk0 (List.mem_of_getElem? hbs)
    simp only [hbs, Option.map_eq_map, Option.map_some, Option.some.injEq] at hj
    subst hj
    split <;> simp [this]

/-! ## slot level view of a state change -/

/-- `g'` differs from `g` at most in slot `(b,i)`, whose new value is `s'`; the chain did not shrink. -/
structure SlotUpd (g g' : G K V) (b i : Nat) (s' : Slot) : Prop where
  at_ : getSlot g' b i = s'
  other : ∀ b' i', ¬(b' = b ∧ i' = i) → getSlot g' b' i' = getSlot g b' i'
  len : g.buckets.length ≤ g'.buckets.length
  lenS : (∀ bk ∈ g.buckets, bk.length = S) → ∀ bk ∈ g'.buckets, bk.length = S

theorem slotUpd_setSlot (g g' : G K V) (b i : Nat) (f : Slot → Slot) (s' : Slot)
    (hg' : g'.buckets = (setSlot g b i f).buckets) (hs' : s' = f (getSlot g b i))
    (hb : b < g.buckets.length) (hi : i < S) (hS : ∀ bk ∈ g.buckets, bk.length = S) :
    SlotUpd g g' b i s' := by
  subst hs'
  have hbk : (g.buckets.getD b []).length = S := by
    apply hS
    rw [List.getD_eq_getElem?_getD]
    have : g.buckets[b]? = some g.buckets[b] := by simp [hb]
    rw [this]; simp
  refine ⟨?_, ?_, ?_, ?_⟩
  · rw [getSlot_eq, hg']; exact slotOf_modify_eq _ _ _ _ hb (by omega)
  · intro b' i' h; rw [getSlot_eq, hg']; exact slotOf_modify_ne _ _ _ _ _ _ h
  · rw [hg']; simp [setSlot]
  · intro _; rw [hg']; exact lenS_modify _ _ _ _ hS

theorem getSlot_ge_len (g : G K V) (b i : Nat) (h : g.buckets.length ≤ b) : getSlot g b i = Slot.free :=
  slotOf_ge_len _ _ _ h

theorem getSlot_ge_S (g : G K V) (b i : Nat) (hS : ∀ bk ∈ g.buckets, bk.length = S) (h : S ≤ i) :
    getSlot g b i = Slot.free := slotOf_ge_S _ _ _ hS h

/-! ## `slotHolds` and `content` -/

theorem slotHolds_eq_some_iff (g : G K V) (b i : Nat) (k : K) (v : V) :
    slotHolds top g b i k = some v ↔
      ∃ kp vp, (getSlot g b i).keyp = some kp ∧ (getSlot g b i).valp = some vp ∧ g.keyHeap kp = some k ∧
        g.valHeap vp = some v ∧ (getSlot g b i).present = true ∧ (getSlot g b i).top = top k := by
  unfold slotHolds
  constructor
  · intro h
    dsimp only at h
    split at h
    · rename_i kp vp hk hv
      split at h
      · rename_i k' v' hk' hv'
        split at h
        · rename_i hc
          obtain ⟨h1, h2, h3⟩ := hc
          simp only [Option.some.injEq] at h
          subst h3; subst h
          exact ⟨kp, vp, hk, hv, hk', hv', h1, h2⟩
        · cases h
      · cases h
    · cases h
  · rintro ⟨kp, vp, hk, hv, hk', hv', h1, h2⟩
    simp [hk, hv, hk', hv', h1, h2]

theorem slotHolds_ne_none_iff (g : G K V) (b i : Nat) (k : K) :
    slotHolds top g b i k ≠ none ↔
      ∃ kp vp v, (getSlot g b i).keyp = some kp ∧ (getSlot g b i).valp = some vp ∧ g.keyHeap kp = some k ∧
        g.valHeap vp = some v ∧ (getSlot g b i).present = true ∧ (getSlot g b i).top = top k := by
  constructor
  · intro h
    cases hv : slotHolds top g b i k with
    | none => exact absurd hv h
    | some v =>
      obtain ⟨kp, vp, h⟩ := (slotHolds_eq_some_iff top g b i k v).mp hv
      exact ⟨kp, vp, v, h⟩
  · rintro ⟨kp, vp, v, h⟩
    rw [(slotHolds_eq_some_iff top g b i k v).mpr ⟨kp, vp, h⟩]; simp

theorem slotHolds_free (g : G K V) (b i : Nat) (k : K) (h : getSlot g b i = Slot.free) :
    slotHolds top g b i k = none := by
  cases hv : slotHolds top g b i k with
  | none => rfl
  | some v =>
    obtain ⟨kp, vp, h1, _⟩ := (slotHolds_eq_some_iff top g b i k v).mp hv
    rw [h] at h1; cases h1

theorem mem_slots (g : G K V) (b i : Nat) : (b, i) ∈ slots g ↔ b < g.buckets.length ∧ i < S := by
  unfold slots
  simp only [List.mem_flatMap, List.mem_range, List.mem_map, Prod.mk.injEq]
  constructor
  · rintro ⟨b', hb', i', hi', rfl, rfl⟩; exact ⟨hb', hi'⟩
  · rintro ⟨hb, hi⟩; exact ⟨b, hb, i, hi, rfl, rfl⟩

/-- no slot logically holds `k` -/
def absent (g : G K V) (k : K) : Prop := ∀ b i, slotHolds top g b i k = none

theorem content_none_iff (g : G K V) (k : K) (hS : ∀ bk ∈ g.buckets, bk.length = S) :
    content top g k = none ↔ absent top g k := by
  unfold content absent
  rw [List.findSome?_eq_none_iff]
  constructor
  · intro h b i
    by_cases hb : b < g.buckets.length
    · by_cases hi : i < S
      · exact h (b, i) ((mem_slots g b i).mpr ⟨hb, hi⟩)
      · exact slotHolds_free top g b i k (getSlot_ge_S g b i hS (by omega))
    · exact slotHolds_free top g b i k (getSlot_ge_len g b i (by omega))
  · intro h x _; exact h x.1 x.2

theorem content_some_exists (g : G K V) (k : K) (v : V) (h : content top g k = some v) :
    ∃ b i, slotHolds top g b i k = some v := by
  obtain ⟨x, _, hx⟩ := List.exists_of_findSome?_eq_some h
  exact ⟨x.1, x.2, hx⟩

/-- at most one slot logically holds a key -/
def uniqHolder (g : G K V) : Prop :=
  ∀ k b i b' i', slotHolds top g b i k ≠ none → slotHolds top g b' i' k ≠ none → b = b' ∧ i = i'

theorem content_eq_of_holds (g : G K V) (k : K) (b i : Nat) (hS : ∀ bk ∈ g.buckets, bk.length = S)
    (hu : uniqHolder top g) : slotHolds top g b i k ≠ none → content top g k = slotHolds top g b i k := by
  intro h
  cases hc : content top g k with
  | none => exact absurd ((content_none_iff top g k hS).mp hc b i) h
  | some v =>
    obtain ⟨b', i', h'⟩ := content_some_exists top g k v hc
    obtain ⟨rfl, rfl⟩ := hu k b i b' i' h (by rw [h']; simp)
    exact h'.symm

/-! ## the representation invariant -/

/-- a value pointer that has been (or is) stored in a slot: allocated, and not the not-yet-stored cell of a
pending insert -/
def vpOK (g : G K V) (vp : Ptr) : Prop := vp < g.nextPtr ∧ ∀ b i kp, g.pending ≠ .insVal b i kp vp

/-- the exact partial states allowed for the slot of the writer's half-done operation -/
def PendOK (g : G K V) : Prop :=
  match g.pending with
  | .none => True
  | .insVal b i kp vp =>
    b < g.buckets.length ∧ i < S ∧ (getSlot g b i).keyp = none ∧ (getSlot g b i).valp = none ∧
      (getSlot g b i).present = true ∧ kp < g.nextPtr ∧ vp < g.nextPtr ∧
      ∃ k v, g.keyHeap kp = some k ∧ g.valHeap vp = some v ∧ (getSlot g b i).top = top k ∧ absent top g k
  | .insKey b i kp =>
    b < g.buckets.length ∧ i < S ∧ (getSlot g b i).keyp = none ∧ (getSlot g b i).valp.isSome ∧
      (getSlot g b i).present = true ∧ kp < g.nextPtr ∧
      ∃ k, g.keyHeap kp = some k ∧ (getSlot g b i).top = top k ∧ absent top g k
  | .delVal b i =>
    b < g.buckets.length ∧ i < S ∧ (getSlot g b i).present = false ∧ (getSlot g b i).keyp.isSome ∧
      (getSlot g b i).valp.isSome
  | .delKey b i =>
    b < g.buckets.length ∧ i < S ∧ (getSlot g b i).present = false ∧ (getSlot g b i).keyp.isSome ∧
      (getSlot g b i).valp = none

/-- representation invariant of a chain -/
structure RI (g : G K V) : Prop where
  /-- every bucket has exactly `S` slots -/
  lenS : ∀ bk ∈ g.buckets, bk.length = S
  /-- key pointers stored in slots are allocated -/
  kptr : ∀ b i p, (getSlot g b i).keyp = some p → p < g.nextPtr ∧ (g.keyHeap p).isSome
  /-- value pointers stored in slots are allocated and are not the pending insert's unpublished cell -/
  vptr : ∀ b i p, (getSlot g b i).valp = some p → vpOK g p ∧ (g.valHeap p).isSome
  /-- a key is logically held by at most one slot -/
  uniq : uniqHolder top g
  /-- the top-hash bits of a present slot with a key are those of its key -/
  topOK : ∀ b i kp k, (getSlot g b i).present = true → (getSlot g b i).keyp = some kp → g.keyHeap kp = some k →
    (getSlot g b i).top = top k
  /-- the pending slot is in one of the partial states of the store orders -/
  pend : PendOK top g

/-- allocated cells are immutable, the allocation pointer only grows -/
def HeapMono (g g' : G K V) : Prop :=
  g.nextPtr ≤ g'.nextPtr ∧ ∀ p, p < g.nextPtr → g'.keyHeap p = g.keyHeap p ∧ g'.valHeap p = g.valHeap p

/-- slot-level description of the writer's micro-steps -/
inductive WR (g g' : G K V) : Prop
  | insWord (b i : Nat) (k : K) (v : V)
      (hp : g.pending = .none) (hb : b < g.buckets.length) (hi : i < S)
      (hk : (getSlot g b i).keyp = none) (hv : (getSlot g b i).valp = none)
      (hpr : (getSlot g b i).present = false) (hc : content top g k = none)
      (upd : SlotUpd g g' b i { getSlot g b i with present := true, top := top k })
      (kh : g'.keyHeap = fun p => if p = g.nextPtr then some k else g.keyHeap p)
      (vh : g'.valHeap = fun p => if p = g.nextPtr + 1 then some v else g.valHeap p)
      (np : g'.nextPtr = g.nextPtr + 2) (pd : g'.pending = .insVal b i g.nextPtr (g.nextPtr + 1))
  | finInsVal (b i : Nat) (kp vp : Ptr) (hp : g.pending = .insVal b i kp vp)
      (upd : SlotUpd g g' b i { getSlot g b i with valp := some vp })
      (kh : g'.keyHeap = g.keyHeap) (vh : g'.valHeap = g.valHeap) (np : g'.nextPtr = g.nextPtr)
      (pd : g'.pending = .insKey b i kp)
  | finInsKey (b i : Nat) (kp : Ptr) (hp : g.pending = .insKey b i kp)
      (upd : SlotUpd g g' b i { getSlot g b i with keyp := some kp })
      (kh : g'.keyHeap = g.keyHeap) (vh : g'.valHeap = g.valHeap) (np : g'.nextPtr = g.nextPtr)
      (pd : g'.pending = .none)
  | finDelVal (b i : Nat) (hp : g.pending = .delVal b i)
      (upd : SlotUpd g g' b i { getSlot g b i with valp := none })
      (kh : g'.keyHeap = g.keyHeap) (vh : g'.valHeap = g.valHeap) (np : g'.nextPtr = g.nextPtr)
      (pd : g'.pending = .delKey b i)
  | finDelKey (b i : Nat) (hp : g.pending = .delKey b i)
      (upd : SlotUpd g g' b i { getSlot g b i with keyp := none })
      (kh : g'.keyHeap = g.keyHeap) (vh : g'.valHeap = g.valHeap) (np : g'.nextPtr = g.nextPtr)
      (pd : g'.pending = .none)
  | delWord (b i : Nat) (hp : g.pending = .none) (hb : b < g.buckets.length) (hi : i < S)
      (hpr : (getSlot g b i).present = true) (hk : (getSlot g b i).keyp.isSome) (hv : (getSlot g b i).valp.isSome)
      (upd : SlotUpd g g' b i { getSlot g b i with present := false })
      (kh : g'.keyHeap = g.keyHeap) (vh : g'.valHeap = g.valHeap) (np : g'.nextPtr = g.nextPtr)
      (pd : g'.pending = .delVal b i)
  | update (b i : Nat) (v : V) (hp : g.pending = .none) (hb : b < g.buckets.length) (hi : i < S)
      (hpr : (getSlot g b i).present = true) (hk : (getSlot g b i).keyp.isSome) (hv : (getSlot g b i).valp.isSome)
      (upd : SlotUpd g g' b i { getSlot g b i with valp := some g.nextPtr })
      (kh : g'.keyHeap = g.keyHeap)
      (vh : g'.valHeap = fun p => if p = g.nextPtr then some v else g.valHeap p)
      (np : g'.nextPtr = g.nextPtr + 1) (pd : g'.pending = .none)
  | append (k : K) (v : V) (hp : g.pending = .none) (hc : content top g k = none)
      (upd : SlotUpd g g' g.buckets.length 0
        { present := true, top := top k, keyp := some g.nextPtr, valp := some (g.nextPtr + 1) })
      (len : g'.buckets.length = g.buckets.length + 1)
      (kh : g'.keyHeap = fun p => if p = g.nextPtr then some k else g.keyHeap p)
      (vh : g'.valHeap = fun p => if p = g.nextPtr + 1 then some v else g.valHeap p)
      (np : g'.nextPtr = g.nextPtr + 2) (pd : g'.pending = .none)

theorem present_inRange (g : G K V) (b i : Nat) (hS : ∀ bk ∈ g.buckets, bk.length = S)
    (h : (getSlot g b i).present = true) : b < g.buckets.length ∧ i < S := by
  refine ⟨?_, ?_⟩
  · apply Classical.byContradiction; intro hb
    rw [getSlot_ge_len g b i (by omega)] at h; cases h
  · apply Classical.byContradiction; intro hi
    rw [getSlot_ge_S g b i hS (by omega)] at h; cases h

theorem wstep_WR (g g' : G K V) (ws : WStep K V) (ri : RI top g) (h : wstep top g ws = some g') : WR top g g' := by
  cases ws with
  | insWord b i k v =>
    simp only [wstep] at h
    split at h
    · rename_i hc
      obtain ⟨hp, hb, hi, hk, hv, hpr, hcn⟩ := hc
      injection h with h; subst h
      exact .insWord b i k v hp hb hi hk hv hpr (by simpa using hcn)
        (slotUpd_setSlot g _ b i _ _ (by rfl) (by rfl) hb hi ri.lenS) rfl rfl rfl rfl
    · cases h
  | finish =>
    have hpend := ri.pend
    unfold PendOK at hpend
    simp only [wstep] at h
    split at h
    · rename_i b i kp vp hp
      rw [hp] at hpend
      injection h with h; subst h
      exact .finInsVal b i kp vp hp (slotUpd_setSlot g _ b i _ _ (by rfl) (by rfl) hpend.1 hpend.2.1 ri.lenS) rfl rfl rfl rfl
    · rename_i b i kp hp
      rw [hp] at hpend
      injection h with h; subst h
      exact .finInsKey b i kp hp (slotUpd_setSlot g _ b i _ _ (by rfl) (by rfl) hpend.1 hpend.2.1 ri.lenS) rfl rfl rfl rfl
    · rename_i b i hp
      rw [hp] at hpend
      injection h with h; subst h
      exact .finDelVal b i hp (slotUpd_setSlot g _ b i _ _ (by rfl) (by rfl) hpend.1 hpend.2.1 ri.lenS) rfl rfl rfl rfl
    · rename_i b i hp
      rw [hp] at hpend
      injection h with h; subst h
      exact .finDelKey b i hp (slotUpd_setSlot g _ b i _ _ (by rfl) (by rfl) hpend.1 hpend.2.1 ri.lenS) rfl rfl rfl rfl
    · cases h
  | delWord b i =>
    simp only [wstep] at h
    split at h
    · rename_i hc
      obtain ⟨hp, hpr, hk, hv⟩ := hc
      obtain ⟨hb, hi⟩ := present_inRange g b i ri.lenS hpr
      injection h with h; subst h
      exact .delWord b i hp hb hi hpr hk hv (slotUpd_setSlot g _ b i _ _ (by rfl) (by rfl) hb hi ri.lenS) rfl rfl rfl rfl
    · cases h
  | update b i v =>
    simp only [wstep] at h
    split at h
    · rename_i hc
      obtain ⟨hp, hpr, hk, hv⟩ := hc
      obtain ⟨hb, hi⟩ := present_inRange g b i ri.lenS hpr
      injection h with h; subst h
      exact .update b i v hp hb hi hpr hk hv (slotUpd_setSlot g _ b i _ _ (by rfl) (by rfl) hb hi ri.lenS) rfl rfl rfl hp
    · cases h
  | append k v =>
    simp only [wstep] at h
    split at h
    · rename_i hc
      obtain ⟨hp, hcn⟩ := hc
      injection h with h; subst h
      refine .append k v hp (by simpa using hcn) ⟨?_, ?_, ?_, ?_⟩ (by simp) rfl rfl rfl hp
      · rw [getSlot_eq]; dsimp only; rw [slotOf_append]; simp
      · intro b' i' hne
        rw [getSlot_eq, getSlot_eq]; dsimp only; rw [slotOf_append]
        split
        · rename_i hb'
          subst hb'
          have hi' : i' ≠ 0 := fun e => hne ⟨rfl, e⟩
          rw [slotOf_ge_len _ _ _ (Nat.le_refl _)]
          obtain ⟨j, rfl⟩ := Nat.exists_eq_succ_of_ne_zero hi'
          simp only [List.getD_eq_getElem?_getD, List.getElem?_cons_succ]
          cases hj : (List.replicate (S - 1) Slot.free)[j]? with
          | none => rfl
          | some x =>
            have := List.mem_of_getElem? hj
            rw [List.mem_replicate] at this
            simp [this.2]
        · rfl
      · simp
      · intro hS bk hbk
        simp only [List.mem_append, List.mem_singleton] at hbk
        rcases hbk with hbk | rfl
        · exact hS bk hbk
        · simp [S]
    · cases h

/-! ## preservation -/

theorem WR.heapMono {g g' : G K V} (h : WR top g g') : HeapMono g g' := by
  unfold HeapMono
  cases h with
  | insWord b i k v hp hb hi hk hv hpr hc upd kh vh np pd =>
    refine ⟨by pomega, fun p hlt => ?_⟩
    rw [kh, vh]; simp [Nat.ne_of_lt hlt, show p ≠ g.nextPtr + 1 by pomega]
  | finInsVal b i kp vp hp upd kh vh np pd => rw [kh, vh, np]; exact ⟨Nat.le_refl _, fun _ _ => ⟨rfl, rfl⟩⟩
  | finInsKey b i kp hp upd kh vh np pd => rw [kh, vh, np]; exact ⟨Nat.le_refl _, fun _ _ => ⟨rfl, rfl⟩⟩
  | finDelVal b i hp upd kh vh np pd => rw [kh, vh, np]; exact ⟨Nat.le_refl _, fun _ _ => ⟨rfl, rfl⟩⟩
  | finDelKey b i hp upd kh vh np pd => rw [kh, vh, np]; exact ⟨Nat.le_refl _, fun _ _ => ⟨rfl, rfl⟩⟩
  | delWord b i hp hb hi hpr hk hv upd kh vh np pd => rw [kh, vh, np]; exact ⟨Nat.le_refl _, fun _ _ => ⟨rfl, rfl⟩⟩
  | update b i v hp hb hi hpr hk hv upd kh vh np pd =>
    refine ⟨by pomega, fun p hlt => ?_⟩
    rw [kh, vh]; simp [Nat.ne_of_lt hlt]
  | append k v hp hc upd len kh vh np pd =>
    refine ⟨by pomega, fun p hlt => ?_⟩
    rw [kh, vh]; simp [Nat.ne_of_lt hlt, show p ≠ g.nextPtr + 1 by pomega]

theorem WR.slotUpd {g g' : G K V} (h : WR top g g') : ∃ b i s', SlotUpd g g' b i s' := by
  cases h with
  | insWord b i k v hp hb hi hk hv hpr hc upd kh vh np pd => exact ⟨_, _, _, upd⟩
  | finInsVal b i kp vp hp upd kh vh np pd => exact ⟨_, _, _, upd⟩
  | finInsKey b i kp hp upd kh vh np pd => exact ⟨_, _, _, upd⟩
  | finDelVal b i hp upd kh vh np pd => exact ⟨_, _, _, upd⟩
  | finDelKey b i hp upd kh vh np pd => exact ⟨_, _, _, upd⟩
  | delWord b i hp hb hi hpr hk hv upd kh vh np pd => exact ⟨_, _, _, upd⟩
  | update b i v hp hb hi hpr hk hv upd kh vh np pd => exact ⟨_, _, _, upd⟩
  | append k v hp hc upd len kh vh np pd => exact ⟨_, _, _, upd⟩

/-- F3: a used value pointer stays used -/
theorem vpOK_step {g g' : G K V} (h : WR top g g') (p : Ptr) (hv : vpOK g p) : vpOK g' p := by
  obtain ⟨h1, h2⟩ := hv
  have hm := (h.heapMono).1
  refine ⟨by pomega, ?_⟩
  cases h with
  | insWord b i k v hp hb hi hk hv hpr hc upd kh vh np pd =>
    intro b' i' kp'; rw [pd]; intro e; injection e; pomega
  | finInsVal b i kp vp hp upd kh vh np pd => intro b' i' kp'; rw [pd]; intro e; cases e
  | finInsKey b i kp hp upd kh vh np pd => intro b' i' kp'; rw [pd]; intro e; cases e
  | finDelVal b i hp upd kh vh np pd => intro b' i' kp'; rw [pd]; intro e; cases e
  | finDelKey b i hp upd kh vh np pd => intro b' i' kp'; rw [pd]; intro e; cases e
  | delWord b i hp hb hi hpr hk hv upd kh vh np pd => intro b' i' kp'; rw [pd]; intro e; cases e
  | update b i v hp hb hi hpr hk hv upd kh vh np pd => intro b' i' kp'; rw [pd]; intro e; cases e
  | append k v hp hc upd len kh vh np pd => intro b' i' kp'; rw [pd]; intro e; cases e

theorem slotHolds_other {g g' : G K V} {b i : Nat} {s' : Slot} (upd : SlotUpd g g' b i s') (hm : HeapMono g g')
    (ri : RI top g) (k : K) (b' i' : Nat) (hne : ¬(b' = b ∧ i' = i)) :
    slotHolds top g' b' i' k = slotHolds top g b' i' k := by
  unfold slotHolds
  simp only [upd.other b' i' hne]
  cases hk : (getSlot g b' i').keyp with
  | none => rfl
  | some kp =>
    cases hv : (getSlot g b' i').valp with
    | none => rfl
    | some vp =>
      dsimp only
      rw [(hm.2 kp (ri.kptr b' i' kp hk).1).1, (hm.2 vp (ri.vptr b' i' vp hv).1.1).2]

/-- F2: a slot that logically holds `k` after a writer step did so before, or it is the updated slot and `k` was
absent before the step. -/
theorem holder_step {g g' : G K V} (h : WR top g g') (ri : RI top g) :
    ∃ b i, ∀ k b' i', slotHolds top g' b' i' k ≠ none →
      slotHolds top g b' i' k ≠ none ∨ (b' = b ∧ i' = i ∧ absent top g k) := by
  have hm := h.heapMono
  have hpend := ri.pend
  unfold PendOK at hpend
  cases h with
  | insWord b i k v hp hb hi hk hv hpr hc upd kh vh np pd =>
    refine ⟨b, i, fun k' b' i' hh => ?_⟩
    by_cases he : b' = b ∧ i' = i
    · obtain ⟨rfl, rfl⟩ := he
      rw [slotHolds_ne_none_iff] at hh
      obtain ⟨kp, vp, v', h1, h2, h3, h4, h5, h6⟩ := hh
      rw [upd.at_] at h1; simp [hk] at h1
    · left; rwa [slotHolds_other top upd hm ri k' b' i' he] at hh
  | finInsVal b i kp vp hp upd kh vh np pd =>
    rw [hp] at hpend
    refine ⟨b, i, fun k' b' i' hh => ?_⟩
    by_cases he : b' = b ∧ i' = i
    · obtain ⟨rfl, rfl⟩ := he
      rw [slotHolds_ne_none_iff] at hh
      obtain ⟨kp, vp, v', h1, h2, h3, h4, h5, h6⟩ := hh
      rw [upd.at_] at h1; simp [hpend.2.2.1] at h1
    · left; rwa [slotHolds_other top upd hm ri k' b' i' he] at hh
  | finInsKey b i kp hp upd kh vh np pd =>
    rw [hp] at hpend
    refine ⟨b, i, fun k' b' i' hh => ?_⟩
    by_cases he : b' = b ∧ i' = i
    · obtain ⟨rfl, rfl⟩ := he
      rw [slotHolds_ne_none_iff] at hh
      obtain ⟨kp', vp, v', h1, h2, h3, h4, h5, h6⟩ := hh
      rw [upd.at_] at h1; simp only [Option.some.injEq] at h1; subst h1
      obtain ⟨_, _, _, _, _, _, k1, hk1, _, hab⟩ := hpend
      rw [kh, hk1] at h3; injection h3 with h3; subst h3
      exact Or.inr ⟨rfl, rfl, hab⟩
    · left; rwa [slotHolds_other top upd hm ri k' b' i' he] at hh
  | finDelVal b i hp upd kh vh np pd =>
    refine ⟨b, i, fun k' b' i' hh => ?_⟩
    by_cases he : b' = b ∧ i' = i
    · obtain ⟨rfl, rfl⟩ := he
      rw [slotHolds_ne_none_iff] at hh
      obtain ⟨kp, vp, v', h1, h2, h3, h4, h5, h6⟩ := hh
      rw [upd.at_] at h2; simp at h2
    · left; rwa [slotHolds_other top upd hm ri k' b' i' he] at hh
  | finDelKey b i hp upd kh vh np pd =>
    refine ⟨b, i, fun k' b' i' hh => ?_⟩
    by_cases he : b' = b ∧ i' = i
    · obtain ⟨rfl, rfl⟩ := he
      rw [slotHolds_ne_none_iff] at hh
      obtain ⟨kp, vp, v', h1, h2, h3, h4, h5, h6⟩ := hh
      rw [upd.at_] at h1; simp at h1
    · left; rwa [slotHolds_other top upd hm ri k' b' i' he] at hh
  | delWord b i hp hb hi hpr hk hv upd kh vh np pd =>
    refine ⟨b, i, fun k' b' i' hh => ?_⟩
    by_cases he : b' = b ∧ i' = i
    · obtain ⟨rfl, rfl⟩ := he
      rw [slotHolds_ne_none_iff] at hh
      obtain ⟨kp, vp, v', h1, h2, h3, h4, h5, h6⟩ := hh
      rw [upd.at_] at h5; simp at h5
    · left; rwa [slotHolds_other top upd hm ri k' b' i' he] at hh
  | update b i v hp hb hi hpr hk hv upd kh vh np pd =>
    refine ⟨b, i, fun k' b' i' hh => ?_⟩
    by_cases he : b' = b ∧ i' = i
    · obtain ⟨rfl, rfl⟩ := he
      left
      rw [slotHolds_ne_none_iff] at hh ⊢
      obtain ⟨kp, vp, v', h1, h2, h3, h4, h5, h6⟩ := hh
      rw [upd.at_] at h1 h5 h6
      obtain ⟨vp0, hvp0⟩ := Option.isSome_iff_exists.mp hv
      obtain ⟨v0, hv0⟩ := Option.isSome_iff_exists.mp (ri.vptr b' i' vp0 hvp0).2
      rw [kh] at h3
      exact ⟨kp, vp0, v0, h1, hvp0, h3, hv0, h5, h6⟩
    · left; rwa [slotHolds_other top upd hm ri k' b' i' he] at hh
  | append k v hp hc upd len kh vh np pd =>
    refine ⟨g.buckets.length, 0, fun k' b' i' hh => ?_⟩
    by_cases he : b' = g.buckets.length ∧ i' = 0
    · obtain ⟨rfl, rfl⟩ := he
      rw [slotHolds_ne_none_iff] at hh
      obtain ⟨kp', vp, v', h1, h2, h3, h4, h5, h6⟩ := hh
      rw [upd.at_] at h1; simp only [Option.some.injEq] at h1; subst h1
      rw [kh] at h3; simp only [if_true, Option.some.injEq] at h3; subst h3
      exact Or.inr ⟨rfl, rfl, (content_none_iff top g k ri.lenS).mp hc⟩
    · left; rwa [slotHolds_other top upd hm ri k' b' i' he] at hh

theorem uniq_step {g g' : G K V} (h : WR top g g') (ri : RI top g) : uniqHolder top g' := by
  obtain ⟨b, i, hs⟩ := holder_step top h ri
  intro k b1 i1 b2 i2 h1 h2
  rcases hs k b1 i1 h1 with o1 | ⟨rfl, rfl, a1⟩
  · rcases hs k b2 i2 h2 with o2 | ⟨rfl, rfl, a2⟩
    · exact ri.uniq k b1 i1 b2 i2 o1 o2
    · exact absurd (a2 b1 i1) o1
  · rcases hs k b2 i2 h2 with o2 | ⟨rfl, rfl, a2⟩
    · exact absurd (a1 b2 i2) o2
    · exact ⟨rfl, rfl⟩

theorem absent_step {g g' : G K V} {b i : Nat} {s' : Slot} (upd : SlotUpd g g' b i s') (hm : HeapMono g g')
    (ri : RI top g) (k : K) (ha : absent top g k) (hn : slotHolds top g' b i k = none) : absent top g' k := by
  intro b' i'
  by_cases he : b' = b ∧ i' = i
  · obtain ⟨rfl, rfl⟩ := he; exact hn
  · rw [slotHolds_other top upd hm ri k b' i' he]; exact ha b' i'

theorem slotHolds_none_of_keyp {g : G K V} {b i : Nat} (k : K) (h : (getSlot g b i).keyp = none) :
    slotHolds top g b i k = none := by
  unfold slotHolds; simp [h]

theorem kptr_step {g g' : G K V} {b i : Nat} {s' : Slot} (upd : SlotUpd g g' b i s') (hm : HeapMono g g')
    (ri : RI top g) (hs : ∀ p, s'.keyp = some p → p < g'.nextPtr ∧ (g'.keyHeap p).isSome) :
    ∀ b' i' p, (getSlot g' b' i').keyp = some p → p < g'.nextPtr ∧ (g'.keyHeap p).isSome := by
  intro b' i' p hp
  by_cases he : b' = b ∧ i' = i
  · obtain ⟨rfl, rfl⟩ := he; rw [upd.at_] at hp; exact hs p hp
  · rw [upd.other b' i' he] at hp
    have := ri.kptr b' i' p hp
    exact ⟨Nat.lt_of_lt_of_le this.1 hm.1, by rw [(hm.2 p this.1).1]; exact this.2⟩

theorem vptr_step {g g' : G K V} {b i : Nat} {s' : Slot} (hw : WR top g g') (upd : SlotUpd g g' b i s')
    (ri : RI top g) (hs : ∀ p, s'.valp = some p → vpOK g' p ∧ (g'.valHeap p).isSome) :
    ∀ b' i' p, (getSlot g' b' i').valp = some p → vpOK g' p ∧ (g'.valHeap p).isSome := by
  intro b' i' p hp
  by_cases he : b' = b ∧ i' = i
  · obtain ⟨rfl, rfl⟩ := he; rw [upd.at_] at hp; exact hs p hp
  · rw [upd.other b' i' he] at hp
    have := ri.vptr b' i' p hp
    exact ⟨vpOK_step top hw p this.1, by rw [(hw.heapMono.2 p this.1.1).2]; exact this.2⟩

theorem topOK_step {g g' : G K V} {b i : Nat} {s' : Slot} (upd : SlotUpd g g' b i s') (hm : HeapMono g g')
    (ri : RI top g)
    (hs : ∀ kp k, s'.present = true → s'.keyp = some kp → g'.keyHeap kp = some k → s'.top = top k) :
    ∀ b' i' kp k, (getSlot g' b' i').present = true → (getSlot g' b' i').keyp = some kp → g'.keyHeap kp = some k →
      (getSlot g' b' i').top = top k := by
  intro b' i' kp k h1 h2 h3
  by_cases he : b' = b ∧ i' = i
  · obtain ⟨rfl, rfl⟩ := he; rw [upd.at_] at h1 h2 ⊢; exact hs kp k h1 h2 h3
  · rw [upd.other b' i' he] at h1 h2 ⊢
    rw [(hm.2 kp (ri.kptr b' i' kp h2).1).1] at h3
    exact ri.topOK b' i' kp k h1 h2 h3

theorem old_kptr {g g' : G K V} (hm : HeapMono g g') (ri : RI top g) (b i : Nat) (p : Ptr)
    (h : (getSlot g b i).keyp = some p) : p < g'.nextPtr ∧ (g'.keyHeap p).isSome := by
  have := ri.kptr b i p h
  exact ⟨Nat.lt_of_lt_of_le this.1 hm.1, by rw [(hm.2 p this.1).1]; exact this.2⟩

theorem old_vptr {g g' : G K V} (hw : WR top g g') (ri : RI top g) (b i : Nat) (p : Ptr)
    (h : (getSlot g b i).valp = some p) : vpOK g' p ∧ (g'.valHeap p).isSome := by
  have := ri.vptr b i p h
  exact ⟨vpOK_step top hw p this.1, by rw [(hw.heapMono.2 p this.1.1).2]; exact this.2⟩

/-- the representation invariant is preserved by every writer micro-step -/
theorem ri_WR {g g' : G K V} (h : WR top g g') (ri : RI top g) : RI top g' := by
  have hw := h
  have hm := h.heapMono
  have hpend := ri.pend
  unfold PendOK at hpend
  cases h with
  | insWord b i k v hp hb hi hk hv hpr hc upd kh vh np pd =>
    refine ⟨upd.lenS ri.lenS, kptr_step top upd hm ri ?_, vptr_step top hw upd ri ?_, uniq_step top hw ri,
      topOK_step top upd hm ri ?_, ?_⟩
    · intro p hp'; simp [hk] at hp'
    · intro p hp'; simp [hv] at hp'
    · intro kp' k' h1 h2 h3; simp [hk] at h2
    · unfold PendOK; simp only [pd]
      refine ⟨Nat.lt_of_lt_of_le hb upd.len, hi, by rw [upd.at_]; exact hk, by rw [upd.at_]; exact hv,
        by rw [upd.at_], by pomega, by pomega, k, v, by rw [kh]; simp, by rw [vh]; simp, by rw [upd.at_], ?_⟩
      exact absent_step top upd hm ri k ((content_none_iff top g k ri.lenS).mp hc)
        (slotHolds_none_of_keyp top k (by rw [upd.at_]; exact hk))
  | finInsVal b i kp vp hp upd kh vh np pd =>
    rw [hp] at hpend
    obtain ⟨hb, hi, hk, hv, hpr, hkp, hvp, k, v, hkk, hvv, htop, hab⟩ := hpend
    refine ⟨upd.lenS ri.lenS, kptr_step top upd hm ri ?_, vptr_step top hw upd ri ?_, uniq_step top hw ri,
      topOK_step top upd hm ri ?_, ?_⟩
    · intro p hp'; simp [hk] at hp'
    · intro p hp'
      simp only [Option.some.injEq] at hp'; subst hp'
      refine ⟨⟨by pomega, ?_⟩, by rw [vh, hvv]; rfl⟩
      intro b' i' kp'; rw [pd]; intro e; cases e
    · intro kp' k' h1 h2 h3; simp [hk] at h2
    · unfold PendOK; simp only [pd]
      refine ⟨Nat.lt_of_lt_of_le hb upd.len, hi, by rw [upd.at_]; exact hk, by rw [upd.at_]; rfl,
        by rw [upd.at_]; exact hpr, by pomega, k, by rw [kh]; exact hkk, by rw [upd.at_]; exact htop, ?_⟩
      exact absent_step top upd hm ri k hab (slotHolds_none_of_keyp top k (by rw [upd.at_]; exact hk))
  | finInsKey b i kp hp upd kh vh np pd =>
    rw [hp] at hpend
    obtain ⟨hb, hi, hk, hv, hpr, hkp, k, hkk, htop, hab⟩ := hpend
    refine ⟨upd.lenS ri.lenS, kptr_step top upd hm ri ?_, vptr_step top hw upd ri ?_, uniq_step top hw ri,
      topOK_step top upd hm ri ?_, ?_⟩
    · intro p hp'
      simp only [Option.some.injEq] at hp'; subst hp'
      exact ⟨by pomega, by rw [kh, hkk]; rfl⟩
    · intro p hp'; exact old_vptr top hw ri b i p hp'
    · intro kp' k' h1 h2 h3
      simp only [Option.some.injEq] at h2; subst h2
      rw [kh, hkk] at h3; injection h3 with h3; subst h3; exact htop
    · unfold PendOK; simp only [pd]
  | finDelVal b i hp upd kh vh np pd =>
    rw [hp] at hpend
    obtain ⟨hb, hi, hpr, hk, hv⟩ := hpend
    refine ⟨upd.lenS ri.lenS, kptr_step top upd hm ri ?_, vptr_step top hw upd ri ?_, uniq_step top hw ri,
      topOK_step top upd hm ri ?_, ?_⟩
    · intro p hp'; exact old_kptr top hm ri b i p hp'
    · intro p hp'; simp at hp'
    · intro kp' k' h1 h2 h3; simp [hpr] at h1
    · unfold PendOK; simp only [pd]
      exact ⟨Nat.lt_of_lt_of_le hb upd.len, hi, by rw [upd.at_]; exact hpr, by rw [upd.at_]; exact hk,
        by rw [upd.at_]⟩
  | finDelKey b i hp upd kh vh np pd =>
    rw [hp] at hpend
    obtain ⟨hb, hi, hpr, hk, hv⟩ := hpend
    refine ⟨upd.lenS ri.lenS, kptr_step top upd hm ri ?_, vptr_step top hw upd ri ?_, uniq_step top hw ri,
      topOK_step top upd hm ri ?_, ?_⟩
    · intro p hp'; simp at hp'
    · intro p hp'; exact old_vptr top hw ri b i p hp'
    · intro kp' k' h1 h2 h3; simp at h2
    · unfold PendOK; simp only [pd]
  | delWord b i hp hb hi hpr hk hv upd kh vh np pd =>
    refine ⟨upd.lenS ri.lenS, kptr_step top upd hm ri ?_, vptr_step top hw upd ri ?_, uniq_step top hw ri,
      topOK_step top upd hm ri ?_, ?_⟩
    · intro p hp'; exact old_kptr top hm ri b i p hp'
    · intro p hp'; exact old_vptr top hw ri b i p hp'
    · intro kp' k' h1 h2 h3; simp at h1
    · unfold PendOK; simp only [pd]
      exact ⟨Nat.lt_of_lt_of_le hb upd.len, hi, by rw [upd.at_], by rw [upd.at_]; exact hk,
        by rw [upd.at_]; exact hv⟩
  | update b i v hp hb hi hpr hk hv upd kh vh np pd =>
    refine ⟨upd.lenS ri.lenS, kptr_step top upd hm ri ?_, vptr_step top hw upd ri ?_, uniq_step top hw ri,
      topOK_step top upd hm ri ?_, ?_⟩
    · intro p hp'; exact old_kptr top hm ri b i p hp'
    · intro p hp'
      simp only [Option.some.injEq] at hp'; subst hp'
      refine ⟨⟨by pomega, ?_⟩, by rw [vh]; simp⟩
      intro b' i' kp'; rw [pd]; intro e; cases e
    · intro kp' k' h1 h2 h3; rw [kh] at h3; exact ri.topOK b i kp' k' h1 h2 h3
    · unfold PendOK; simp only [pd]
  | append k v hp hc upd len kh vh np pd =>
    refine ⟨upd.lenS ri.lenS, kptr_step top upd hm ri ?_, vptr_step top hw upd ri ?_, uniq_step top hw ri,
      topOK_step top upd hm ri ?_, ?_⟩
    · intro p hp'
      simp only [Option.some.injEq] at hp'; subst hp'
      exact ⟨by pomega, by rw [kh]; simp⟩
    · intro p hp'
      simp only [Option.some.injEq] at hp'; subst hp'
      refine ⟨⟨by pomega, ?_⟩, by rw [vh]; simp⟩
      intro b' i' kp'; rw [pd]; intro e; cases e
    · intro kp' k' h1 h2 h3
      simp only [Option.some.injEq] at h2; subst h2
      rw [kh] at h3; simp only [if_true, Option.some.injEq] at h3; subst h3; rfl
    · unfold PendOK; simp only [pd]

theorem ri_wstep (g g' : G K V) (ws : WStep K V) (ri : RI top g) (h : wstep top g ws = some g') : RI top g' :=
  ri_WR top (wstep_WR top g g' ws ri h) ri

theorem ri_init (k0 : K) : RI top (init (V := V) k0).g := by
  have hfree : ∀ b i, getSlot (init (V := V) k0).g b i = Slot.free := by
    intro b i
    rw [getSlot_eq]; unfold slotOf
    simp only [init, List.getD_eq_getElem?_getD]
    cases b with
    | zero =>
      simp only [List.getElem?_cons_zero, Option.getD_some]
      cases hj : (List.replicate S Slot.free)[i]? with
      | none => rfl
      | some x =>
        have := List.mem_of_getElem? hj
        rw [List.mem_replicate] at this
        simp [this.2]
    | succ b => simp
  refine ⟨?_, ?_, ?_, ?_, ?_, ?_⟩
  · intro bk hbk; simp [init] at hbk; subst hbk; simp
  · intro b i p hp; rw [hfree] at hp; cases hp
  · intro b i p hp; rw [hfree] at hp; cases hp
  · intro k b i b' i' h; exact absurd (slotHolds_free top _ b i k (hfree b i)) h
  · intro b i kp k h; rw [hfree] at h; cases h
  · unfold PendOK; simp [init]

theorem ri_step (s s' : St K V) (a : Act K V) (ri : RI top s.g) (h : step top s a = some s') : RI top s'.g := by
  cases a with
  | w ws =>
    simp only [step, Option.map_eq_some_iff] at h
    obtain ⟨g', hg', rfl⟩ := h
    exact ri_wstep top _ _ ws ri hg'
  | r t => simp only [step, Option.some.injEq] at h; subst h; exact ri
  | start t k => simp only [step, Option.some.injEq] at h; subst h; exact ri

theorem ri_run (as : List (Act K V)) : ∀ (s s' : St K V), RI top s.g → run top s as = some s' → RI top s'.g := by
  induction as with
  | nil => intro s s' ri h; simp only [run, Option.some.injEq] at h; subst h; exact ri
  | cons a as ih =>
    intro s s' ri h
    simp only [run] at h
    split at h
    · rename_i s1 hs1; exact ih s1 s' (ri_step top s s1 a ri hs1) h
    · cases h

/-! ## word/key/value consistency outside the pending slot (not needed for hindsight; part of the
representation invariant) -/

def pendSlot : Pending → Option (Nat × Nat)
  | .none => none
  | .insVal b i _ _ => some (b, i)
  | .insKey b i _ => some (b, i)
  | .delVal b i => some (b, i)
  | .delKey b i => some (b, i)

/-- presence bit, key pointer and value pointer are all set or all clear -/
def consSlot (s : Slot) : Prop := s.present = s.keyp.isSome ∧ s.keyp.isSome = s.valp.isSome

/-- every slot other than the writer's pending slot is consistent -/
def SlotCons (g : G K V) : Prop := ∀ b i, pendSlot g.pending ≠ some (b, i) → consSlot (getSlot g b i)

theorem cons_WR {g g' : G K V} (h : WR top g g') (ri : RI top g) (hc : SlotCons g) : SlotCons g' := by
  have hpend := ri.pend
  unfold PendOK at hpend
  have hother : ∀ {b i s'}, SlotUpd g g' b i s' → (g.pending = .none ∨ pendSlot g.pending = some (b, i)) →
      ∀ b' i', ¬(b' = b ∧ i' = i) → consSlot (getSlot g' b' i') := by
    intro b i s' upd hp b' i' hne
    rw [upd.other b' i' hne]
    apply hc
    rcases hp with hp | hp
    · rw [hp]; simp [pendSlot]
    · rw [hp]; intro e; injection e with e; injection e with e1 e2; exact hne ⟨e1.symm, e2.symm⟩
  intro b' i' hnp
  cases h with
  | insWord b i k v hp hb hi hk hv hpr hc' upd kh vh np pd =>
    by_cases he : b' = b ∧ i' = i
    · obtain ⟨rfl, rfl⟩ := he; rw [pd] at hnp; exact absurd rfl hnp
    · exact hother upd (Or.inl hp) b' i' he
  | finInsVal b i kp vp hp upd kh vh np pd =>
    by_cases he : b' = b ∧ i' = i
    · obtain ⟨rfl, rfl⟩ := he; rw [pd] at hnp; exact absurd rfl hnp
    · exact hother upd (Or.inr (by rw [hp]; rfl)) b' i' he
  | finInsKey b i kp hp upd kh vh np pd =>
    rw [hp] at hpend
    by_cases he : b' = b ∧ i' = i
    · obtain ⟨rfl, rfl⟩ := he
      rw [upd.at_]; unfold consSlot
      simp [hpend.2.2.2.1, hpend.2.2.2.2.1]
    · exact hother upd (Or.inr (by rw [hp]; rfl)) b' i' he
  | finDelVal b i hp upd kh vh np pd =>
    by_cases he : b' = b ∧ i' = i
    · obtain ⟨rfl, rfl⟩ := he; rw [pd] at hnp; exact absurd rfl hnp
    · exact hother upd (Or.inr (by rw [hp]; rfl)) b' i' he
  | finDelKey b i hp upd kh vh np pd =>
    rw [hp] at hpend
    by_cases he : b' = b ∧ i' = i
    · obtain ⟨rfl, rfl⟩ := he
      rw [upd.at_]; unfold consSlot
      simp [hpend.2.2.1, hpend.2.2.2.2]
    · exact hother upd (Or.inr (by rw [hp]; rfl)) b' i' he
  | delWord b i hp hb hi hpr hk hv upd kh vh np pd =>
    by_cases he : b' = b ∧ i' = i
    · obtain ⟨rfl, rfl⟩ := he; rw [pd] at hnp; exact absurd rfl hnp
    · exact hother upd (Or.inl hp) b' i' he
  | update b i v hp hb hi hpr hk hv upd kh vh np pd =>
    by_cases he : b' = b ∧ i' = i
    · obtain ⟨rfl, rfl⟩ := he
      rw [upd.at_]; unfold consSlot
      simp [hpr, hk]
    · exact hother upd (Or.inl hp) b' i' he
  | append k v hp hc' upd len kh vh np pd =>
    by_cases he : b' = g.buckets.length ∧ i' = 0
    · obtain ⟨rfl, rfl⟩ := he
      rw [upd.at_]; unfold consSlot; simp
    · exact hother upd (Or.inl hp) b' i' he

/-- the full representation invariant: `RI` plus consistency of the non-pending slots -/
def RIfull (g : G K V) : Prop := RI top g ∧ SlotCons g

theorem rifull_wstep (g g' : G K V) (ws : WStep K V) (h : RIfull top g) (hs : wstep top g ws = some g') :
    RIfull top g' :=
  ⟨ri_wstep top g g' ws h.1 hs, cons_WR top (wstep_WR top g g' ws h.1 hs) h.1 h.2⟩

theorem rifull_init (k0 : K) : RIfull top (init (V := V) k0).g := by
  refine ⟨ri_init top k0, ?_⟩
  intro b i _
  have hfree : getSlot (init (V := V) k0).g b i = Slot.free := by
    cases hk : (getSlot (init (V := V) k0).g b i).keyp with
    | none =>
      rw [getSlot_eq]; unfold slotOf
      simp only [init, List.getD_eq_getElem?_getD]
      cases b with
      | zero =>
        simp only [List.getElem?_cons_zero, Option.getD_some]
        cases hj : (List.replicate S Slot.free)[i]? with
        | none => rfl
        | some x =>
          have := List.mem_of_getElem? hj
          rw [List.mem_replicate] at this
          simp [this.2]
      | succ b => simp
    | some p => exact absurd ((ri_init (V := V) top k0).kptr b i p hk).1 (Nat.not_lt_zero _)
  rw [hfree]; simp [consSlot, Slot.free]

theorem rifull_run (as : List (Act K V)) : ∀ (s s' : St K V), RIfull top s.g → run top s as = some s' →
    RIfull top s'.g := by
  induction as with
  | nil => intro s s' ri h; simp only [run, Option.some.injEq] at h; subst h; exact ri
  | cons a as ih =>
    intro s s' ri h
    simp only [run] at h
    split at h
    · rename_i s1 hs1
      refine ih s1 s' ?_ h
      cases a with
      | w ws =>
        simp only [step, Option.map_eq_some_iff] at hs1
        obtain ⟨g', hg', rfl⟩ := hs1
        exact rifull_wstep top _ _ ws ri hg'
      | r t => simp only [step, Option.some.injEq] at hs1; subst hs1; exact ri
      | start t k => simp only [step, Option.some.injEq] at hs1; subst hs1; exact ri
    · cases h

end Proofs.SlotMapHindsight
