import CacheVerif.Proofs.ProtoLin
/-!
# M4a ⊕ M4b: the one-step chain read of M4a may be any instant of the real multi-load scan

M4a reads a bucket chain in one step (`ldRead`).  The real lookup scans the chain with several atomic loads; M4b
(`SlotMap.reader_hindsight`, `SlotMapOf…`) proves that such a scan returns the logical content the chain had at *some
instant during the scan*.  The scan begins after the table pointer has been loaded, i.e. while the M4a thread sits at the
read pc.  This file proves the M4a half of the composition: the binding of the key in the loaded generation at **any**
instant at which the thread is at the read pc - not only at the instant it finally takes the step - is a legal answer
for a lookup whose call covers the whole interval (it was the abstract binding at some state of the interval, or is what
a writer helped by a `Clear` in the interval left).  So replacing M4a's atomic chain read by M4b's scan preserves the
hindsight theorems C03/C04 rest on.  (What stays unmechanised: one combined transition system.)
-/
set_option linter.unusedSectionVars false
set_option linter.unusedVariables false
namespace Proofs.ProtoCompose
open Spec Model.Proto Proofs.ProtoLocks Proofs.ProtoData Proofs.ProtoLin

variable {K V : Type} [DecidableEq K]

theorem trace_append_left (p : Params K) (m1 m2 : List (Tid × Choice K V)) (s0 s1 : St K V)
    (h1 : run p s0 m1 = some s1) (x : St K V) (hx : x ∈ trace p s0 m1) : x ∈ trace p s0 (m1 ++ m2) := by
  unfold trace at hx ⊢
  rw [events_append p m1 m2 s0 s1 h1, List.map_append]
  rcases List.mem_cons.mp hx with h | h
  · exact List.mem_cons.mpr (Or.inl h)
  · exact List.mem_cons.mpr (Or.inr (List.mem_append_left _ h))

/-- **any instant of the scan**: `mid1` ends at a state `s1` in which thread `t` is at the read pc (it arrived there during
`mid1`); whatever happens afterwards (`mid2`), the binding of `k` in the generation `t` loaded, as it is in `s1`, is a
legal answer for a lookup whose call covers `mid1 ++ mid2` -/
theorem read_any_instant (p : Params K) (hmin : 0 < p.minLen) (pre mid1 mid2 : List (Tid × Choice K V)) (s0 s1 s' : St K V)
    (h0 : run p (init p) pre = some s0) (h1 : run p s0 mid1 = some s1) (h2 : run p s1 mid2 = some s') (t : Tid) (k : K)
    (hstart : (s0.l t).pc ≠ .ldRead) (hpc : (s1.l t).pc = .ldRead) :
    let v := (s1.g.tables (s1.l t).tbl).data.get k
    (∃ x ∈ trace p s0 (mid1 ++ mid2), absGet x.g k = v) ∨
    (∃ e ∈ events p s0 (mid1 ++ mid2), ∃ u f lie co, HelpAt e u k f lie co ∧ v = (specDc f lie co (absGet e.pre.g k)).1) := by
  intro v
  rcases read_hindsight p hmin pre mid1 s0 s1 h0 h1 t k hstart hpc with ⟨x, hx, h⟩ | ⟨e, he, h⟩
  · exact Or.inl ⟨x, trace_append_left p mid1 mid2 s0 s1 h1 x hx, h⟩
  · refine Or.inr ⟨e, ?_, h⟩
    rw [events_append p mid1 mid2 s0 s1 h1]
    exact List.mem_append_left _ he

end Proofs.ProtoCompose
