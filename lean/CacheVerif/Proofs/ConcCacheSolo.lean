import CacheVerif.Model.ConcCache
/-!
# M5 run by one thread with a frozen clock is M2

The concurrent cache model M5 (`Model.ConcCache`) splits every call into its atomic steps (one per call on the
underlying map, per clock read outside a closure, per setting access, per traversal visit, per callback).  Here:
a thread that runs a call alone, from `idle` to `ret`, with no clock advance and (for `DeleteExpired`) the
traversal handing it the entries of the map in order, ends in exactly the state, result and callback ledger of
the sequential model `Model.Cache.step` — which `Proofs/DeepCache.lean` proves equal to the interpreter run on the
method bodies printed from the working tree.  So the *data* half of M5 (what each step computes and what the
locals carry from step to step) is tied to the source text; the *granularity* half (where a call may be
interrupted) is tied by the step-level trace acceptance of the scheduler harness.
-/
namespace Proofs.ConcCacheSolo
open Spec Model Model.ConcCache

variable {K V : Type} [DecidableEq K] [Inhabited V]

/-- run thread 0 alone through the given environment choices -/
def soloSteps (g : G K V) (l : L K V) : List (Choice K V) → Option (G K V × L K V)
  | [] => some (g, l)
  | c :: cs =>
    match tstep 0 g l c with
    | some (g', l') => soloSteps g' l' cs
    | none => none

/-- what is compared with the sequential step: the M2 view of the globals, the callbacks fired by the call, and
the thread's pc and result -/
def obs (g0 : G K V) (r : Option (G K V × L K V)) : Option (CSt K V × List (Nat × K × V) × Pc × Option (Out K V)) :=
  r.map fun (g, l) => (view g, g.ledger.drop g0.ledger.length, l.pc, l.result)

def expect (g : G K V) (op : COp K V) : Option (CSt K V × List (Nat × K × V) × Pc × Option (Out K V)) :=
  let r := Cache.step (view g) (toSpec op)
  some (r.1, r.2.cbs, .ret, some r.2.out)

def start (op : COp K V) : Choice K V := { op := some op }

theorem solo_set (g : G K V) (k : K) (v : V) (d : Int) :
    ∃ n, obs g (soloSteps g L.init (start (.set k v d) :: List.replicate n {})) = expect g (.set k v d) := by
  by_cases h1 : d = Gen.DefaultExpiration
  · refine ⟨3, ?_⟩
    by_cases h3 : g.dflt > 0 <;>
    simp [soloSteps, List.replicate, tstep, startOp, start, L.init, obs, expect, view, toSpec, Cache.step, Cache.set,
      Cache.expiration, Gen.expiration, AMap.store, h1, h3]
  · refine ⟨2, ?_⟩
    by_cases h2 : d > 0 <;>
    simp [soloSteps, List.replicate, tstep, startOp, start, L.init, obs, expect, view, toSpec, Cache.step, Cache.set,
      Cache.expiration, Gen.expiration, AMap.store, h1, h2]

macro "solo_simp" : tactic =>
  `(tactic| simp [soloSteps, List.replicate, tstep, startOp, start, L.init, obs, expect, view, toSpec, opKey, afterHit,
      hitResult, missResult, linearize, Cache.step, Cache.get, Cache.getAndDelete, Cache.expired, AMap.load, AMap.compute,
      AMap.size, *])

theorem solo_get (g : G K V) (k : K) :
    ∃ n, obs g (soloSteps g L.init (start (.get k) :: List.replicate n {})) = expect g (.get k) := by
  cases hg : g.items.get k with
  | none => exact ⟨1, by solo_simp⟩
  | some i =>
    by_cases he : Gen.item_expired i.e g.now
    · exact ⟨3, by solo_simp⟩
    · exact ⟨2, by solo_simp⟩

theorem solo_getWithExpiration (g : G K V) (k : K) :
    ∃ n, obs g (soloSteps g L.init (start (.getWithExpiration k) :: List.replicate n {})) = expect g (.getWithExpiration k) := by
  cases hg : g.items.get k with
  | none => exact ⟨1, by solo_simp⟩
  | some i =>
    by_cases he : Gen.item_expired i.e g.now
    · exact ⟨3, by solo_simp⟩
    · exact ⟨2, by by_cases hp : i.e > 0 <;> solo_simp⟩

theorem solo_getWithTTL (g : G K V) (k : K) :
    ∃ n, obs g (soloSteps g L.init (start (.getWithTTL k) :: List.replicate n {})) = expect g (.getWithTTL k) := by
  cases hg : g.items.get k with
  | none => exact ⟨1, by solo_simp⟩
  | some i =>
    by_cases he : Gen.item_expired i.e g.now
    · exact ⟨3, by solo_simp⟩
    · by_cases hp : i.e > 0
      · exact ⟨3, by solo_simp⟩
      · exact ⟨2, by solo_simp⟩

/-- the read-modify-write calls are one `Compute` step, which is the sequential step itself -/
theorem solo_getOrSet (g : G K V) (k : K) (v : V) (d : Int) :
    obs g (soloSteps g L.init [start (.getOrSet k v d), {}]) = expect g (.getOrSet k v d) := by
  simp [soloSteps, tstep, startOp, start, L.init, obs, expect, view, toSpec, linearize, Cache.step]

theorem solo_getAndSet (g : G K V) (k : K) (v : V) (d : Int) :
    obs g (soloSteps g L.init [start (.getAndSet k v d), {}]) = expect g (.getAndSet k v d) := by
  simp only [soloSteps, tstep, startOp, start, L.init, obs, expect, view, toSpec, linearize, Cache.step, Option.map]
  cases g.items.get k with
  | none => simp
  | some i => by_cases he : Cache.expired ⟨g.items, g.now, g.dflt, g.cb⟩ i <;> simp [he]

theorem solo_getAndRefresh (g : G K V) (k : K) (d : Int) :
    obs g (soloSteps g L.init [start (.getAndRefresh k d), {}]) = expect g (.getAndRefresh k d) := by
  simp only [soloSteps, tstep, startOp, start, L.init, obs, expect, view, toSpec, linearize, Cache.step, Option.map]
  by_cases hb : (g.items.compute k (Cache.refreshFn ⟨g.items, g.now, g.dflt, g.cb⟩ d)).2.2 = true <;> simp [hb]

theorem solo_getOrCompute (g : G K V) (k : K) (f : V) (d : Int) :
    obs g (soloSteps g L.init [start (.getOrCompute k f d), {}]) = expect g (.getOrCompute k f d) := by
  simp [soloSteps, tstep, startOp, start, L.init, obs, expect, view, toSpec, linearize, Cache.step]

theorem solo_compute (g : G K V) (k : K) (f : Option V → V × Bool) (d : Int) :
    obs g (soloSteps g L.init [start (.compute k f d), {}]) = expect g (.compute k f d) := by
  simp only [soloSteps, tstep, startOp, start, L.init, obs, expect, view, toSpec, linearize, Cache.step, Option.map]
  by_cases hb : (g.items.compute k (Cache.computeFn ⟨g.items, g.now, g.dflt, g.cb⟩ f d)).2.2 = true <;> simp [hb]

theorem solo_getAndDelete (g : G K V) (k : K) :
    ∃ n, obs g (soloSteps g L.init (start (.getAndDelete k) :: List.replicate n {})) = expect g (.getAndDelete k) := by
  cases hg : g.items.get k with
  | none => exact ⟨1, by solo_simp⟩
  | some i =>
    refine ⟨3, ?_⟩
    cases hc : g.cb <;> by_cases he : Gen.item_expired i.e g.now <;> solo_simp

theorem solo_delete (g : G K V) (k : K) :
    ∃ n, obs g (soloSteps g L.init (start (.delete k) :: List.replicate n {})) = expect g (.delete k) := by
  cases hg : g.items.get k with
  | none => exact ⟨1, by solo_simp⟩
  | some i =>
    refine ⟨3, ?_⟩
    cases hc : g.cb <;> by_cases he : Gen.item_expired i.e g.now <;> solo_simp

theorem solo_misc (g : G K V) (d : Int) (c : Option Nat) :
    obs g (soloSteps g L.init [start .clear, {}]) = expect g .clear ∧
    obs g (soloSteps g L.init [start .count, {}]) = expect g .count ∧
    obs g (soloSteps g L.init [start (.setDefaultExpiration d), {}]) = expect g (.setDefaultExpiration d) ∧
    obs g (soloSteps g L.init [start (.setEvictedCallback c), {}]) = expect g (.setEvictedCallback c) := by
  refine ⟨?_, ?_, ?_, ?_⟩ <;> solo_simp

/-! ### DeleteExpired: the traversal hands the thread the entries of the map in order -/

/-- environment choices of a solo pass over the snapshot `snap`: each entry is handed to the visitor; an expired
one takes one more step (its conditional delete) -/
def visitChoices (now : Int) : List (K × Item V) → List (Choice K V)
  | [] => []
  | (k, i) :: rest =>
    if Gen.item_expiredWithNow i.e now then { key := some k, seen := some i } :: {} :: visitChoices now rest
    else { key := some k, seen := some i } :: visitChoices now rest

theorem soloSteps_append (g : G K V) (l : L K V) (a b : List (Choice K V)) :
    soloSteps g l (a ++ b) = (soloSteps g l a).bind fun r => soloSteps r.1 r.2 b := by
  induction a generalizing g l with
  | nil => rfl
  | cons c a ih =>
    simp only [List.cons_append, soloSteps]
    cases tstep 0 g l c with
    | none => rfl
    | some r => exact ih r.1 r.2

theorem solo_visits (snap : List (K × Item V)) (g : G K V) (l : L K V) (hpc : l.pc = .deVisit) (hcur : l.cur = none) :
    ∃ er, soloSteps g l (visitChoices l.passNow snap) =
      some ({ g with items := (Cache.sweep l.passNow l.ec.isSome snap (g.items, l.queue)).1 },
            { l with pc := .deVisit, cur := none, queue := (Cache.sweep l.passNow l.ec.isSome snap (g.items, l.queue)).2,
                     erased := er }) := by
  induction snap generalizing g l with
  | nil => exact ⟨l.erased, by simp [visitChoices, soloSteps, Cache.sweep, ← hpc, ← hcur]⟩
  | cons p snap ih =>
    obtain ⟨k, i⟩ := p
    by_cases he : Gen.item_expiredWithNow i.e l.passNow
    · simp only [visitChoices, he, if_true, soloSteps, tstep, hpc]
      have := ih { g with items := (g.items.compute k (Cache.sweepFn l.passNow)).1 }
        { l with pc := .deVisit, cur := none,
                 queue := l.queue ++ (match g.items.get k with
                   | some cur => if Gen.item_expiredWithNow cur.e l.passNow && l.ec.isSome then [(k, cur.v)] else []
                   | none => []),
                 erased := l.erased ++ (match g.items.get k with
                   | some cur => if Gen.item_expiredWithNow cur.e l.passNow then [(k, cur.v)] else []
                   | none => []) } rfl rfl
      obtain ⟨er, hr⟩ := this
      refine ⟨er, ?_⟩
      simp only [Cache.sweep, he, if_true]
      exact hr
    · simp only [visitChoices, he, soloSteps, tstep, hpc, Bool.false_eq_true, if_false]
      obtain ⟨er, hr⟩ := ih g l hpc hcur
      exact ⟨er, by simpa [Cache.sweep, he] using hr⟩

theorem solo_fire (q : List (K × V)) (c : Nat) (g : G K V) (l : L K V) (hpc : l.pc = .deFire) (hq : l.queue = q)
    (hec : l.ec = some c) :
    ∃ f, soloSteps g l (List.replicate (q.length + 1) {}) =
      some ({ g with ledger := g.ledger ++ q.map fun p => (c, p.1, p.2) },
            { l with pc := .ret, queue := [], result := some .unit, fired := f }) := by
  induction q generalizing g l with
  | nil => exact ⟨l.fired, by simp [List.replicate, soloSteps, tstep, hpc, hq]⟩
  | cons p q ih =>
    obtain ⟨k, v⟩ := p
    obtain ⟨f, hf⟩ := ih { g with ledger := g.ledger ++ [(c, k, v)] } { l with queue := q, fired := l.fired ++ [(k, v)] } hpc rfl hec
    refine ⟨f, ?_⟩
    simp only [List.length_cons, List.replicate_succ (n := q.length + 1), soloSteps, tstep, hpc, hq, hec]
    simpa [hpc, hec] using hf

theorem sweep_noCb (now : Int) (l : List (K × Item V)) (acc : AMap K (Item V) × List (K × V)) :
    (Cache.sweep now false l acc).2 = acc.2 := by
  induction l generalizing acc with
  | nil => rfl
  | cons p l ih =>
    obtain ⟨k, i⟩ := p
    by_cases he : Gen.item_expiredWithNow i.e now
    · simp only [Cache.sweep, he, if_true, ih]
      cases acc.1.get k <;> simp
    · simp only [Cache.sweep, he]; exact ih acc

def nop : Choice K V := {}

theorem solo_deleteExpired (g : G K V) :
    ∃ cs, obs g (soloSteps g L.init (start .deleteExpired :: cs)) = expect g .deleteExpired := by
  obtain ⟨items, now, dflt, cb, ledger, abs⟩ := g
  cases cb with
  | none =>
    let g : G K V := ⟨items, now, dflt, none, ledger, abs⟩
    -- after the three opening steps the thread is at `deVisit` with the pass's clock and callback
    let l0 : L K V := { (startOp L.init .deleteExpired) with pc := .deVisit, ec := none, passNow := now, queue := [] }
    obtain ⟨er, hv⟩ := solo_visits items g l0 rfl rfl
    refine ⟨nop :: nop :: (visitChoices now items ++ [{ key := none }, nop]), ?_⟩
    have hq : (Cache.sweep now false items (items, [])).2 = [] := sweep_noCb _ _ _
    simp only [soloSteps, tstep, start, startOp, L.init, nop]
    rw [soloSteps_append]
    simp only [g, l0, startOp, L.init, Option.isSome] at hv
    rw [hv]
    simp [soloSteps, tstep, obs, expect, view, toSpec, Cache.step, hq]
  | some c =>
    let g : G K V := ⟨items, now, dflt, some c, ledger, abs⟩
    let l0 : L K V := { (startOp L.init .deleteExpired) with pc := .deVisit, ec := some c, passNow := now, queue := [] }
    obtain ⟨er, hv⟩ := solo_visits items g l0 rfl rfl
    refine ⟨nop :: nop :: (visitChoices now items ++ ({ key := none } :: List.replicate ((Cache.sweep now true items (items, [])).2.length + 1) nop)), ?_⟩
    simp only [soloSteps, tstep, start, startOp, L.init, nop]
    rw [soloSteps_append]
    simp only [g, l0, startOp, L.init, Option.isSome] at hv
    rw [hv]
    simp only [Option.bind, soloSteps, tstep]
    obtain ⟨f, hf⟩ := solo_fire (Cache.sweep now true items (items, [])).2 c
      ⟨(Cache.sweep now true items (items, [])).1, now, dflt, some c, ledger, abs⟩
      { pc := .deFire, op := some .deleteExpired, d := 0, e := 0, loaded := none, passNow := now, ec := some c, cur := none,
        queue := (Cache.sweep now true items (items, [])).2, removed := none, result := none, absAtLoad := none,
        nowAtLoad := 0, erased := er, fired := [] } rfl rfl rfl
    rw [hf]
    simp [obs, expect, view, toSpec, Cache.step]

/-- **every call of M5, run alone with the clock standing still, is the sequential step**: same final map,
settings and clock, same result, and the callbacks it appended to the ledger are the ones the sequential step fires -/
theorem solo_eq_m2 (g : G K V) (op : COp K V) :
    ∃ cs, obs g (soloSteps g L.init (start op :: cs)) = expect g op := by
  cases op with
  | set k v d => obtain ⟨n, h⟩ := solo_set g k v d; exact ⟨_, h⟩
  | get k => obtain ⟨n, h⟩ := solo_get g k; exact ⟨_, h⟩
  | getWithExpiration k => obtain ⟨n, h⟩ := solo_getWithExpiration g k; exact ⟨_, h⟩
  | getWithTTL k => obtain ⟨n, h⟩ := solo_getWithTTL g k; exact ⟨_, h⟩
  | getOrSet k v d => exact ⟨_, solo_getOrSet g k v d⟩
  | getAndSet k v d => exact ⟨_, solo_getAndSet g k v d⟩
  | getAndRefresh k d => exact ⟨_, solo_getAndRefresh g k d⟩
  | getOrCompute k f d => exact ⟨_, solo_getOrCompute g k f d⟩
  | compute k f d => exact ⟨_, solo_compute g k f d⟩
  | getAndDelete k => obtain ⟨n, h⟩ := solo_getAndDelete g k; exact ⟨_, h⟩
  | delete k => obtain ⟨n, h⟩ := solo_delete g k; exact ⟨_, h⟩
  | deleteExpired => exact solo_deleteExpired g
  | clear => exact ⟨_, (solo_misc g 0 none).1⟩
  | count => exact ⟨_, (solo_misc g 0 none).2.1⟩
  | setDefaultExpiration d => exact ⟨_, (solo_misc g d none).2.2.1⟩
  | setEvictedCallback c => exact ⟨_, (solo_misc g 0 c).2.2.2⟩

end Proofs.ConcCacheSolo
