import CacheVerif.Proofs.SlotMapRep
/-!
# M4b (Map): the per-reader invariant of the three-read snapshot (ghost: the set `W` of logical contents of the
reader's key witnessed since the start of its lookup)
-/
set_option linter.unusedSectionVars false
set_option linter.unusedVariables false
set_option linter.unusedSimpArgs false
namespace Proofs.SlotMapHindsight
open Model.SlotMap

variable {K V : Type} [DecidableEq K] (top : K → Nat)

/-- if slot `(b,i)` now carries a key cell holding `k` and a value cell, that value was the logical content of
`k` at some instant of the lookup -/
def Q (W : Option V → Prop) (g : G K V) (k : K) (b i : Nat) : Prop :=
  ∀ kp vp, (getSlot g b i).keyp = some kp → (getSlot g b i).valp = some vp → g.keyHeap kp = some k →
    W (g.valHeap vp)

/-- the scan position has not yet gone past slot `(b0,i0)` -/
def notPassed : RPc → Nat → Nat → Prop
  | .rdWord b, b0, _ => b ≤ b0
  | .rdVal b cs, b0, i0 => b < b0 ∨ (b = b0 ∧ i0 ∈ cs)
  | .rdKey b cs vp, b0, i0 => b < b0 ∨ (b = b0 ∧ (i0 ∈ cs.tail ∨ (cs.head? = some i0 ∧ vp.isSome)))
  | .rdVal2 b cs _, b0, i0 => b < b0 ∨ (b = b0 ∧ i0 ∈ cs)
  | .rdNext b, b0, _ => b < b0
  | .done, _, _ => True

def PcInv (W : Option V → Prop) (g : G K V) (k : K) : RPc → Option V → Prop
  | .rdWord _, _ => True
  | .rdVal b cs, _ => ∀ i ∈ cs, Q W g k b i
  | .rdKey b cs vp, _ => (∀ i ∈ cs, Q W g k b i) ∧ ∀ p, vp = some p → vpOK g p
  | .rdVal2 b cs vp, _ =>
    (∀ i ∈ cs, Q W g k b i) ∧ vpOK g vp ∧
      ∀ i, cs.head? = some i → (getSlot g b i).valp = some vp → W (g.valHeap vp)
  | .rdNext _, _ => True
  | .done, r => W r

/-- invariant of one reader; `W` = the logical contents of its key seen since the lookup started -/
structure RdInv (W : Option V → Prop) (g : G K V) (l : RL K V) : Prop where
  cur : W (content top g l.key)
  phase : W none ∨ ∀ b0 i0, slotHolds top g b0 i0 l.key ≠ none → notPassed l.pc b0 i0
  pcinv : PcInv W g l.key l.pc l.result

theorem Q_of_present {W : Option V → Prop} {g : G K V} {k : K} {b i : Nat} (ri : RI top g)
    (hW : W (content top g k)) (hp : (getSlot g b i).present = true) : Q W g k b i := by
  intro kp vp h1 h2 h3
  obtain ⟨v, hv⟩ := Option.isSome_iff_exists.mp (ri.vptr b i vp h2).2
  have htop := ri.topOK b i kp k hp h1 h3
  have hs : slotHolds top g b i k = some v := (slotHolds_eq_some_iff top g b i k v).mpr ⟨kp, vp, h1, h2, h3, hv, hp, htop⟩
  have := content_eq_of_holds top g k b i ri.lenS ri.uniq (by rw [hs]; simp)
  rw [this, hs, ← hv] at hW
  exact hW

theorem holds_present {g : G K V} {k : K} {b i : Nat} (h : slotHolds top g b i k ≠ none) :
    (getSlot g b i).present = true ∧ (getSlot g b i).top = top k ∧ (getSlot g b i).valp.isSome ∧
      ∃ kp, (getSlot g b i).keyp = some kp ∧ g.keyHeap kp = some k := by
  rw [slotHolds_ne_none_iff] at h
  obtain ⟨kp, vp, v, h1, h2, h3, h4, h5, h6⟩ := h
  exact ⟨h5, h6, by rw [h2]; rfl, kp, h1, h3⟩

/-- F1 -/
theorem Q_step {g g' : G K V} (hw : WR top g g') (ri : RI top g) (ri' : RI top g') {W W' : Option V → Prop}
    (hsub : ∀ v, W v → W' v) (k : K) (hc' : W' (content top g' k)) (b0 i0 : Nat) (hq : Q W g k b0 i0) :
    Q W' g' k b0 i0 := by
  have hm := hw.heapMono
  -- a slot that is unchanged
  have hother : ∀ {b i s'}, SlotUpd g g' b i s' → ¬(b0 = b ∧ i0 = i) → Q W' g' k b0 i0 := by
    intro b i s' upd hne kp vp h1 h2 h3
    rw [upd.other b0 i0 hne] at h1 h2
    have hkp := (ri.kptr b0 i0 kp h1).1
    have hvp := (ri.vptr b0 i0 vp h2).1.1
    rw [(hm.2 kp hkp).1] at h3
    rw [(hm.2 vp hvp).2]
    exact hsub _ (hq kp vp h1 h2 h3)
  have hsame : ∀ {s'}, SlotUpd g g' b0 i0 s' → s'.keyp = (getSlot g b0 i0).keyp →
      s'.valp = (getSlot g b0 i0).valp → Q W' g' k b0 i0 := by
    intro s' upd e1 e2 kp vp h1 h2 h3
    rw [upd.at_] at h1 h2
    rw [e1] at h1; rw [e2] at h2
    have hkp := (ri.kptr b0 i0 kp h1).1
    have hvp := (ri.vptr b0 i0 vp h2).1.1
    rw [(hm.2 kp hkp).1] at h3
    rw [(hm.2 vp hvp).2]
    exact hsub _ (hq kp vp h1 h2 h3)
  have hpend := ri.pend
  unfold PendOK at hpend
  cases hw with
  | insWord b i k1 v hp hb hi hk hv hpr hc upd kh vh np pd =>
    by_cases he : b0 = b ∧ i0 = i
    · obtain ⟨rfl, rfl⟩ := he
      intro kp vp h1 h2 h3; rw [upd.at_] at h1; simp [hk] at h1
    · exact hother upd he
  | finInsVal b i kp vp hp upd kh vh np pd =>
    rw [hp] at hpend
    by_cases he : b0 = b ∧ i0 = i
    · obtain ⟨rfl, rfl⟩ := he
      intro kp vp h1 h2 h3; rw [upd.at_] at h1; simp [hpend.2.2.1] at h1
    · exact hother upd he
  | finInsKey b i kp hp upd kh vh np pd =>
    rw [hp] at hpend
    by_cases he : b0 = b ∧ i0 = i
    · obtain ⟨rfl, rfl⟩ := he
      exact Q_of_present top ri' hc' (by rw [upd.at_]; exact hpend.2.2.2.2.1)
    · exact hother upd he
  | finDelVal b i hp upd kh vh np pd =>
    by_cases he : b0 = b ∧ i0 = i
    · obtain ⟨rfl, rfl⟩ := he
      intro kp vp h1 h2 h3; rw [upd.at_] at h2; simp at h2
    · exact hother upd he
  | finDelKey b i hp upd kh vh np pd =>
    by_cases he : b0 = b ∧ i0 = i
    · obtain ⟨rfl, rfl⟩ := he
      intro kp vp h1 h2 h3; rw [upd.at_] at h1; simp at h1
    · exact hother upd he
  | delWord b i hp hb hi hpr hk hv upd kh vh np pd =>
    by_cases he : b0 = b ∧ i0 = i
    · obtain ⟨rfl, rfl⟩ := he
      exact hsame upd rfl rfl
    · exact hother upd he
  | update b i v hp hb hi hpr hk hv upd kh vh np pd =>
    by_cases he : b0 = b ∧ i0 = i
    · obtain ⟨rfl, rfl⟩ := he
      exact Q_of_present top ri' hc' (by rw [upd.at_]; exact hpr)
    · exact hother upd he
  | append k1 v hp hc upd len kh vh np pd =>
    by_cases he : b0 = g.buckets.length ∧ i0 = 0
    · obtain ⟨rfl, rfl⟩ := he
      exact Q_of_present top ri' hc' (by rw [upd.at_])
    · exact hother upd he

/-- F4: a used value pointer that a slot does not hold never comes back to it -/
theorem valp_back {g g' : G K V} (hw : WR top g g') (vp : Ptr) (hv : vpOK g vp) (b0 i0 : Nat)
    (h : (getSlot g' b0 i0).valp = some vp) : (getSlot g b0 i0).valp = some vp := by
  have hother : ∀ {b i s'}, SlotUpd g g' b i s' → ¬(b0 = b ∧ i0 = i) → (getSlot g b0 i0).valp = some vp := by
    intro b i s' upd hne; rw [upd.other b0 i0 hne] at h; exact h
  cases hw with
  | insWord b i k1 v hp hb hi hk hv' hpr hc upd kh vh np pd =>
    by_cases he : b0 = b ∧ i0 = i
    · obtain ⟨rfl, rfl⟩ := he; rw [upd.at_] at h; exact h
    · exact hother upd he
  | finInsVal b i kp vp' hp upd kh vh np pd =>
    by_cases he : b0 = b ∧ i0 = i
    · obtain ⟨rfl, rfl⟩ := he; rw [upd.at_] at h
      simp only [Option.some.injEq] at h; subst h
      exact absurd hp (hv.2 _ _ _)
    · exact hother upd he
  | finInsKey b i kp hp upd kh vh np pd =>
    by_cases he : b0 = b ∧ i0 = i
    · obtain ⟨rfl, rfl⟩ := he; rw [upd.at_] at h; exact h
    · exact hother upd he
  | finDelVal b i hp upd kh vh np pd =>
    by_cases he : b0 = b ∧ i0 = i
    · obtain ⟨rfl, rfl⟩ := he; rw [upd.at_] at h; simp at h
    · exact hother upd he
  | finDelKey b i hp upd kh vh np pd =>
    by_cases he : b0 = b ∧ i0 = i
    · obtain ⟨rfl, rfl⟩ := he; rw [upd.at_] at h; exact h
    · exact hother upd he
  | delWord b i hp hb hi hpr hk hv' upd kh vh np pd =>
    by_cases he : b0 = b ∧ i0 = i
    · obtain ⟨rfl, rfl⟩ := he; rw [upd.at_] at h; exact h
    · exact hother upd he
  | update b i v hp hb hi hpr hk hv' upd kh vh np pd =>
    by_cases he : b0 = b ∧ i0 = i
    · obtain ⟨rfl, rfl⟩ := he; rw [upd.at_] at h
      simp only [Option.some.injEq] at h
      have := hv.1; pomega
    · exact hother upd he
  | append k1 v hp hc upd len kh vh np pd =>
    by_cases he : b0 = g.buckets.length ∧ i0 = 0
    · obtain ⟨rfl, rfl⟩ := he; rw [upd.at_] at h
      simp only [Option.some.injEq] at h
      have := hv.1; pomega
    · exact hother upd he

theorem PcInv_wstep {g g' : G K V} (hw : WR top g g') (ri : RI top g) (ri' : RI top g')
    {W W' : Option V → Prop} (hsub : ∀ v, W v → W' v) (k : K) (hc' : W' (content top g' k))
    (pc : RPc) (res : Option V) (h : PcInv W g k pc res) : PcInv W' g' k pc res := by
  cases pc with
  | rdWord b => trivial
  | rdNext b => trivial
  | done => exact hsub _ h
  | rdVal b cs => exact fun i hi => Q_step top hw ri ri' hsub k hc' b i (h i hi)
  | rdKey b cs vp =>
    exact ⟨fun i hi => Q_step top hw ri ri' hsub k hc' b i (h.1 i hi), fun p hp => vpOK_step top hw p (h.2 p hp)⟩
  | rdVal2 b cs vp =>
    obtain ⟨h1, h2, h3⟩ := h
    refine ⟨fun i hi => Q_step top hw ri ri' hsub k hc' b i (h1 i hi), vpOK_step top hw vp h2, ?_⟩
    intro i hi hv
    rw [(hw.heapMono.2 vp h2.1).2]
    exact hsub _ (h3 i hi (valp_back top hw vp h2 b i hv))

/-- the reader invariant is preserved by a writer micro-step (with the new content added to the witnesses) -/
theorem rdInv_wstep {g g' : G K V} (hw : WR top g g') (ri : RI top g) (ri' : RI top g')
    {W W' : Option V → Prop} (hsub : ∀ v, W v → W' v) (l : RL K V) (hc' : W' (content top g' l.key))
    (h : RdInv top W g l) : RdInv top W' g' l := by
  refine ⟨hc', ?_, PcInv_wstep top hw ri ri' hsub l.key hc' l.pc l.result h.pcinv⟩
  rcases h.phase with hn | hph
  · exact Or.inl (hsub _ hn)
  · by_cases hcn : content top g l.key = none
    · exact Or.inl (hsub _ (hcn ▸ h.cur))
    · right
      obtain ⟨b, i, hs⟩ := holder_step top hw ri
      intro b0 i0 hh
      rcases hs l.key b0 i0 hh with o | ⟨_, _, ab⟩
      · exact hph b0 i0 o
      · exact absurd ((content_none_iff top g l.key ri.lenS).mpr ab) hcn

/-! ## reader steps -/

theorem mem_candidates (g : G K V) (b i h : Nat) :
    i ∈ candidates (g.buckets.getD b []) h ↔
      i < S ∧ (getSlot g b i).present = true ∧ (getSlot g b i).top = h := by
  unfold candidates getSlot
  simp [List.mem_filter, List.mem_range]

theorem rstep_rdKey (g : G K V) (k : K) (res : Option V) (b i : Nat) (rest : List Nat) (vp : Option Ptr) :
    (∃ kp vp', (getSlot g b i).keyp = some kp ∧ vp = some vp' ∧ g.keyHeap kp = some k ∧
        rstep top g ⟨k, .rdKey b (i :: rest) vp, res⟩ = ⟨k, .rdVal2 b (i :: rest) vp', res⟩) ∨
    ((∀ kp vp', (getSlot g b i).keyp = some kp → vp = some vp' → g.keyHeap kp ≠ some k) ∧
        rstep top g ⟨k, .rdKey b (i :: rest) vp, res⟩ = ⟨k, .rdVal b rest, res⟩) := by
  cases hk : (getSlot g b i).keyp with
  | none => right; exact ⟨fun _ _ h => (by cases h), by simp only [rstep, hk]⟩
  | some kp =>
    cases vp with
    | none => right; exact ⟨fun _ _ _ h => (by cases h), by simp only [rstep, hk]⟩
    | some vp' =>
      by_cases hkey : g.keyHeap kp = some k
      · left; exact ⟨kp, vp', rfl, rfl, hkey, by simp only [rstep, hk, hkey, if_true]⟩
      · right
        refine ⟨fun kp' _ h _ => by injection h with h; subst h; exact hkey, by simp only [rstep, hk, hkey, if_false]⟩

/-- the reader invariant is preserved by the reader's own steps -/
theorem rdInv_rstep {W : Option V → Prop} (g : G K V) (l : RL K V) (ri : RI top g) (h : RdInv top W g l) :
    RdInv top W g (rstep top g l) := by
  obtain ⟨k, pc, res⟩ := l
  obtain ⟨hcur, hph, hpc⟩ := h
  dsimp only at hcur hph hpc
  cases pc with
  | rdWord b =>
    simp only [rstep]
    refine ⟨hcur, ?_, ?_⟩
    · rcases hph with hn | hph
      · exact Or.inl hn
      · right; intro b0 i0 hh
        have hle : b ≤ b0 := hph b0 i0 hh
        show b < b0 ∨ (b = b0 ∧ i0 ∈ candidates (g.buckets.getD b []) (top k))
        by_cases hb : b = b0
        · subst hb; right; refine ⟨rfl, ?_⟩
          obtain ⟨hp, ht, _, _⟩ := holds_present top hh
          exact (mem_candidates g b i0 _).mpr ⟨(present_inRange g b i0 ri.lenS hp).2, hp, ht⟩
        · left; omega
    · show ∀ i ∈ candidates (g.buckets.getD b []) (top k), Q W g k b i
      intro i hi; exact Q_of_present top ri hcur ((mem_candidates g b i _).mp hi).2.1
  | rdVal b cs =>
    cases cs with
    | nil =>
      simp only [rstep]
      refine ⟨hcur, ?_, trivial⟩
      rcases hph with hn | hph
      · exact Or.inl hn
      · right; intro b0 i0 hh
        have := hph b0 i0 hh
        simp only [notPassed, List.not_mem_nil, and_false, or_false] at this
        exact this
    | cons i rest =>
      simp only [rstep]
      refine ⟨hcur, ?_, ⟨hpc, fun p hp => (ri.vptr b i p hp).1⟩⟩
      rcases hph with hn | hph
      · exact Or.inl hn
      · right; intro b0 i0 hh
        have : b < b0 ∨ (b = b0 ∧ i0 ∈ i :: rest) := hph b0 i0 hh
        show b < b0 ∨ (b = b0 ∧ (i0 ∈ rest ∨ (some i = some i0 ∧ (getSlot g b i).valp.isSome)))
        rcases this with hlt | ⟨rfl, hm⟩
        · exact Or.inl hlt
        · right; refine ⟨rfl, ?_⟩
          rcases List.mem_cons.mp hm with rfl | hm
          · exact Or.inr ⟨rfl, (holds_present top hh).2.2.1⟩
          · exact Or.inl hm
  | rdKey b cs vp =>
    cases cs with
    | nil =>
      simp only [rstep]
      refine ⟨hcur, ?_, trivial⟩
      rcases hph with hn | hph
      · exact Or.inl hn
      · right; intro b0 i0 hh
        have := hph b0 i0 hh
        simp only [notPassed, List.tail_nil, List.not_mem_nil, List.head?_nil, reduceCtorEq, false_and, or_false,
          and_false] at this
        exact this
    | cons i rest =>
      rcases rstep_rdKey top g k res b i rest vp with ⟨kp, vp', hk, rfl, hkey, hr⟩ | ⟨hno, hr⟩
      · rw [hr]
        refine ⟨hcur, ?_, ⟨hpc.1, hpc.2 vp' rfl, ?_⟩⟩
        · rcases hph with hn | hph
          · exact Or.inl hn
          · right; intro b0 i0 hh
            have : b < b0 ∨ (b = b0 ∧ (i0 ∈ rest ∨ (some i = some i0 ∧ _))) := hph b0 i0 hh
            show b < b0 ∨ (b = b0 ∧ i0 ∈ i :: rest)
            rcases this with hlt | ⟨rfl, hm | ⟨he, _⟩⟩
            · exact Or.inl hlt
            · exact Or.inr ⟨rfl, List.mem_cons_of_mem _ hm⟩
            · injection he with he; subst he; exact Or.inr ⟨rfl, List.mem_cons_self⟩
        · intro i' hi' hv
          simp only [List.head?_cons, Option.some.injEq] at hi'; subst hi'
          exact hpc.1 i List.mem_cons_self kp vp' hk hv hkey
      · rw [hr]
        refine ⟨hcur, ?_, fun i' hi' => hpc.1 i' (List.mem_cons_of_mem _ hi')⟩
        rcases hph with hn | hph
        · exact Or.inl hn
        · right; intro b0 i0 hh
          have : b < b0 ∨ (b = b0 ∧ (i0 ∈ rest ∨ (some i = some i0 ∧ vp.isSome))) := hph b0 i0 hh
          show b < b0 ∨ (b = b0 ∧ i0 ∈ rest)
          rcases this with hlt | ⟨rfl, hm | ⟨he, hs⟩⟩
          · exact Or.inl hlt
          · exact Or.inr ⟨rfl, hm⟩
          · injection he with he; subst he
            obtain ⟨vp', rfl⟩ := Option.isSome_iff_exists.mp hs
            obtain ⟨_, _, _, kp, hk, hkey⟩ := holds_present top hh
            exact absurd hkey (hno kp vp' hk rfl)
  | rdVal2 b cs vp =>
    cases cs with
    | nil =>
      simp only [rstep]
      refine ⟨hcur, ?_, trivial⟩
      rcases hph with hn | hph
      · exact Or.inl hn
      · right; intro b0 i0 hh
        have := hph b0 i0 hh
        simp only [notPassed, List.not_mem_nil, and_false, or_false] at this
        exact this
    | cons i rest =>
      by_cases hv : (getSlot g b i).valp = some vp
      · simp only [rstep, hv, if_true]
        exact ⟨hcur, hph.imp id (fun _ _ _ _ => trivial), hpc.2.2 i rfl hv⟩
      · simp only [rstep, hv, if_false]
        exact ⟨hcur, hph, hpc.1⟩
  | rdNext b =>
    by_cases hb : b + 1 < g.buckets.length
    · simp only [rstep, hb, if_true]
      refine ⟨hcur, ?_, trivial⟩
      rcases hph with hn | hph
      · exact Or.inl hn
      · right; intro b0 i0 hh
        have : b < b0 := hph b0 i0 hh
        exact this
    · simp only [rstep, hb, if_false]
      refine ⟨hcur, hph.imp id (fun _ _ _ _ => trivial), ?_⟩
      show W none
      rcases hph with hn | hph
      · exact hn
      · cases hc : content top g k with
        | none => exact hc ▸ hcur
        | some v =>
          obtain ⟨b0, i0, hs⟩ := content_some_exists top g k v hc
          have hh : slotHolds top g b0 i0 k ≠ none := by rw [hs]; simp
          have h1 : b < b0 := hph b0 i0 hh
          have h2 := (present_inRange g b0 i0 ri.lenS (holds_present top hh).1).1
          omega
  | done => exact ⟨hcur, hph, hpc⟩

theorem rstep_key (g : G K V) (l : RL K V) : (rstep top g l).key = l.key := by
  unfold rstep
  split <;> (try rfl)
  · split <;> (try rfl)
    split <;> rfl
  · split <;> rfl
  · split <;> rfl

end Proofs.SlotMapHindsight
