import CacheVerif.Proofs.DeepLoad
/-!
# The printed body of `Map.Load` (string keys) computes the top-hash-filtered search, which is M3's key search

Same structure as `Proofs/DeepLoad.lean`, for `Gen.Deep.T_Map_Load` (printed from `internal/xsync/map.go` on every run):
the three-clause `for` over the three slots with `continue` on a top-hash mismatch, the labelled three-read snapshot
(`vp`, `kp`, `vp` again; sequentially the second read of the value pointer returns the same cell, so the `goto` is never
taken), the walk along `next`.  `mload_eq_search`: the interpreter returns what `Model.Words.searchChainM` finds;
`mload_eq_lookup`: that is `Model.Table.lookup` on the slots whenever the stored top hashes match their keys
(`RepM`); `mload_is_model_load`: it is the `load` step of M3 (Map variant).
-/
set_option linter.unusedSimpArgs false
set_option maxRecDepth 8192
namespace Proofs.DeepLoadM
open Deep.T Model.Words Model.Table Proofs.Words Proofs.DeepLoad

variable {K V : Type} [DecidableEq K]

def outerLoopM : Stmt := nth Gen.Deep.T_Map_Load.body 4
def obodyM : Stmt := unblock (loopBody outerLoopM)
def sAM : Stmt := nth obodyM 0
def forS : Stmt := nth obodyM 1
def sCM : Stmt := restFrom obodyM 2
def resNamesM : List String := Gen.Deep.T_Map_Load.results.map (·.1)

def forInit : Stmt → Stmt | .for3 i _ _ _ => i | s => s
def forCond : Stmt → Expr | .for3 _ c _ _ => c | _ => .bool false
def forPost : Stmt → Stmt | .for3 _ _ p _ => p | s => s
def forBody : Stmt → Stmt | .for3 _ _ _ b => b | s => s

theorem for_shape : forS = .for3 (forInit forS) (forCond forS) (forPost forS) (forBody forS) := rfl
theorem bodyM_shape : loopBody outerLoopM = .block (.seq sAM (.seq forS sCM)) := rfl
theorem outerM_shape : outerLoopM = .forever (loopBody outerLoopM) := rfl

def envOutM (key : K) (ci j : Nat) (bidx hash : BitVec 64) : Env K V :=
  [("b", .mbucketRef ci j), ("bidx", .w64 bidx), ("hash", .w64 hash), ("table", .mtablePtr), ("key", .key key),
   ("value", .zeroV), ("ok", .bool false)]

def envInM (key : K) (ci j : Nat) (th bidx hash : BitVec 64) : Env K V :=
  ("topHashes", .w64 th) :: envOutM key ci j bidx hash

/-- what one pass of the loop body does with slot `n` -/
def slotRes (key : K) (hash : BitVec 64) (b : BucketM K V) (n : Nat) : Option V :=
  if Gen.topHashMatch hash b.word n then testSlot key b.slots n else none

/-- one iteration of the `for i` loop on slot `n < 3` -/
theorem for_step (f : Nat) (h : Heap K V) (key : K) (ci j : Nat) (b : BucketM K V)
    (hb : mbucketAt h ci j = some b) (bidx hash : BitVec 64) (n : Nat) (hn : n < 3)
    (e : Option (K × V)) (he : b.slots[n]? = some e) :
    iter3 (fun env => eval h env (forCond forS)) (fun env => exec (f + 4) h resNamesM (forBody forS) env)
        (fun env => exec (f + 4) h resNamesM (forPost forS) env)
        (("i", .int n) :: envInM key ci j b.word bidx hash) =
      (match slotRes key hash b n with
       | some v => some (.ret [.val v, .bool true])
       | none => some (.normal (("i", .int ((n : Int) + 1)) :: envInM key ci j b.word bidx hash))) := by
  have hlt : (n : Int) < 3 := by omega
  have hge : 0 ≤ (n : Int) := by omega
  unfold slotRes
  rw [testSlot_eq, he]
  cases htm : Gen.topHashMatch hash b.word n
  · rcases e with _ | ⟨k, v⟩ <;>
      simp [iter3, forS, forCond, forBody, forPost, obodyM, outerLoopM, loopBody, unblock, nth, Gen.Deep.T_Map_Load, eval, exec,
        envInM, envOutM, binop, List.lookup, leaf3, constOf, Gen.entriesPerMapBucket, hlt, hge, htm, leave, setVar]
  · rcases e with _ | ⟨k, v⟩
    · simp [iter3, forS, forCond, forBody, forPost, obodyM, outerLoopM, loopBody, unblock, nth, Gen.Deep.T_Map_Load, eval, exec,
        envInM, envOutM, binop, List.lookup, leaf3, leaf1, constOf, Gen.entriesPerMapBucket, hlt, hge, htm, leave, setVar, labelN,
        selField, atomicLoad, hb, he, isPtr, conv, evalList, resNamesM]
    · by_cases hk : k = key
      · subst hk
        simp [iter3, forS, forCond, forBody, forPost, obodyM, outerLoopM, loopBody, unblock, nth, Gen.Deep.T_Map_Load, eval,
          exec, envInM, envOutM, binop, List.lookup, leaf3, leaf1, constOf, Gen.entriesPerMapBucket, hlt, hge, htm, leave, setVar,
          labelN, selField, atomicLoad, hb, he, isPtr, conv, evalList, resNamesM]
      · have hk' : ¬ key = k := fun x => hk x.symm
        simp [iter3, forS, forCond, forBody, forPost, obodyM, outerLoopM, loopBody, unblock, nth, Gen.Deep.T_Map_Load, eval,
          exec, envInM, envOutM, binop, List.lookup, leaf3, leaf1, constOf, Gen.entriesPerMapBucket, hlt, hge, htm, leave, setVar,
          labelN, selField, atomicLoad, hb, he, isPtr, conv, evalList, resNamesM, hk, hk']

/-- the loop condition is false at `i = 3` -/
theorem for_exit (f : Nat) (h : Heap K V) (env : Env K V) :
    iter3 (fun env => eval h env (forCond forS)) (fun env => exec (f + 4) h resNamesM (forBody forS) env)
        (fun env => exec (f + 4) h resNamesM (forPost forS) env) (("i", .int 3) :: env) =
      some (.brk (("i", .int 3) :: env)) := by
  simp [iter3, forS, forCond, obodyM, outerLoopM, loopBody, unblock, nth, Gen.Deep.T_Map_Load, eval, binop, List.lookup,
    constOf, Gen.entriesPerMapBucket]

/-- **the `for i` loop** over the three slots of one bucket is `searchBucketM` -/
theorem for_loop (f : Nat) (h : Heap K V) (key : K) (ci j : Nat) (b : BucketM K V)
    (hb : mbucketAt h ci j = some b) (hlen : b.slots.length = 3) (bidx hash : BitVec 64) :
    exec (f + 4) h resNamesM forS (envInM key ci j b.word bidx hash) =
      some (match searchBucketM key hash b with
        | some v => .ret [.val v, .bool true]
        | none => .normal (envInM key ci j b.word bidx hash)) := by
  have he : ∀ n, n < 3 → ∃ e, b.slots[n]? = some e := by
    intro n hn; rw [List.getElem?_eq_getElem (by omega)]; exact ⟨_, rfl⟩
  obtain ⟨e0, he0⟩ := he 0 (by omega)
  obtain ⟨e1, he1⟩ := he 1 (by omega)
  obtain ⟨e2, he2⟩ := he 2 (by omega)
  have s0 := for_step f h key ci j b hb bidx hash 0 (by omega) e0 he0
  have s1 := for_step f h key ci j b hb bidx hash 1 (by omega) e1 he1
  have s2 := for_step f h key ci j b hb bidx hash 2 (by omega) e2 he2
  have s3 := for_exit f h (envInM key ci j b.word bidx hash)
  have hinit : exec (f + 4) h resNamesM (forInit forS) (envInM key ci j b.word bidx hash) =
      some (.normal (("i", .int 0) :: envInM key ci j b.word bidx hash)) := by
    simp [forInit, forS, obodyM, outerLoopM, loopBody, unblock, nth, Gen.Deep.T_Map_Load, exec, eval]
  rw [for_shape]
  simp only [exec, hinit]
  have e01 : ((0 : Nat) : Int) = 0 := rfl
  have e11 : ((0 : Nat) : Int) + 1 = ((1 : Nat) : Int) := rfl
  have e21 : ((1 : Nat) : Int) + 1 = ((2 : Nat) : Int) := rfl
  have e31 : ((2 : Nat) : Int) + 1 = 3 := rfl
  rw [e11] at s0
  rw [e21] at s1
  rw [e31] at s2
  have hsb : searchBucketM key hash b = orE (slotRes key hash b 0) (orE (slotRes key hash b 1) (slotRes key hash b 2)) := rfl
  rw [hsb]
  have l3 : loopN (iter3 (fun env => eval h env (forCond forS)) (fun env => exec (f + 4) h resNamesM (forBody forS) env)
      (fun env => exec (f + 4) h resNamesM (forPost forS) env)) (f + 1) (("i", .int 3) :: envInM key ci j b.word bidx hash) =
      some (.normal (("i", .int 3) :: envInM key ci j b.word bidx hash)) := by
    rw [loopN, s3]
  rw [show f + 4 = (f + 3) + 1 from rfl, loopN, ← e01, s0]
  cases r0 : slotRes key hash b 0 with
  | some v => simp [leave, orE]
  | none =>
    simp only [orE_none_left]
    rw [show f + 3 = (f + 2) + 1 from rfl, loopN, s1]
    cases r1 : slotRes key hash b 1 with
    | some v => simp [leave, orE]
    | none =>
      simp only [orE_none_left]
      rw [show f + 2 = (f + 1) + 1 from rfl, loopN, s2]
      cases r2 : slotRes key hash b 2 with
      | some v => simp [leave]
      | none =>
        simp only [l3]
        simp [leave, envInM, envOutM]

/-! ### one iteration of the outer loop, the outer loop, the whole call -/

theorem outerM_step (f : Nat) (h : Heap K V) (key : K) (ci j : Nat) (c : List (BucketM K V))
    (hc : h.mchains[ci]? = some c) (b : BucketM K V) (hb : c[j]? = some b) (hlen : b.slots.length = 3)
    (bidx hash : BitVec 64) :
    exec (f + 4) h resNamesM (loopBody outerLoopM) (envOutM key ci j bidx hash) =
      (match searchBucketM key hash b with
       | some v => some (.ret [.val v, .bool true])
       | none =>
         if j + 1 < c.length then some (.normal (envOutM key ci (j + 1) bidx hash))
         else some (.ret [.zeroV, .bool false])) := by
  have hb' : mbucketAt h ci j = some b := by simp [mbucketAt, hc, hb]
  have hjlt : j < c.length := by
    rcases Nat.lt_or_ge j c.length with hlt | hge
    · exact hlt
    · rw [List.getElem?_eq_none hge] at hb; cases hb
  have hA : exec (f + 4) h resNamesM sAM (envOutM key ci j bidx hash) =
      some (.normal (envInM key ci j b.word bidx hash)) := by
    simp [sAM, obodyM, outerLoopM, loopBody, unblock, nth, Gen.Deep.T_Map_Load, exec, eval, envOutM, envInM, List.lookup,
      addrOf, atomicLoad, hb']
  have hC : exec (f + 4) h resNamesM sCM (envInM key ci j b.word bidx hash) =
      (if j + 1 < c.length then
        some (.normal (("bptr", .mbucketRef ci (j + 1)) :: ("topHashes", .w64 b.word) :: envOutM key ci (j + 1) bidx hash))
       else some (.ret [.zeroV, .bool false])) := by
    by_cases hj : j + 1 < c.length
    · simp [sCM, obodyM, outerLoopM, loopBody, unblock, nth, restFrom, Gen.Deep.T_Map_Load, exec, eval, envOutM, envInM,
        List.lookup, binop, addrOf, atomicLoad, hc, hj, isPtr, leave, conv, setVar, resNamesM, readAll]
    · simp [sCM, obodyM, outerLoopM, loopBody, unblock, nth, restFrom, Gen.Deep.T_Map_Load, exec, eval, envOutM, envInM,
        List.lookup, binop, addrOf, atomicLoad, hc, hj, hjlt, isPtr, leave, conv, setVar, resNamesM, readAll]
  rw [bodyM_shape]
  simp only [exec, hA, for_loop f h key ci j b hb' hlen bidx hash]
  cases hs : searchBucketM key hash b with
  | some v => simp [leave]
  | none =>
    simp only [hC]
    by_cases hj : j + 1 < c.length
    · simp [hj, leave, envOutM]
    · simp [hj, leave]

theorem outerM_loop (f : Nat) (h : Heap K V) (key : K) (ci : Nat) (c : List (BucketM K V))
    (hc : h.mchains[ci]? = some c) (hlen : ∀ b ∈ c, b.slots.length = 3) (bidx hash : BitVec 64) :
    ∀ (rem j n : Nat), j + rem = c.length → 0 < rem → rem ≤ n →
      loopN (fun env => exec (f + 4) h resNamesM (loopBody outerLoopM) env) n (envOutM key ci j bidx hash) =
        some (match searchChainM key hash (c.drop j) with
          | some v => .ret [.val v, .bool true]
          | none => .ret [.zeroV, .bool false]) := by
  intro rem
  induction rem with
  | zero => intro j n _ h0; omega
  | succ rem ih =>
    intro j n hj _ hn
    obtain ⟨n', rfl⟩ : ∃ n', n = n' + 1 := ⟨n - 1, by omega⟩
    have hjlt : j < c.length := by omega
    have hb : c[j]? = some c[j] := List.getElem?_eq_getElem hjlt
    rw [loopN, outerM_step f h key ci j c hc c[j] hb (hlen _ (List.getElem_mem hjlt)) bidx hash,
      List.drop_eq_getElem_cons hjlt, searchChainM]
    cases hs : searchBucketM key hash c[j] with
    | some v => simp [orE]
    | none =>
      by_cases hj1 : j + 1 < c.length
      · simp only [hj1, if_true, orE_none_left]
        exact ih (j + 1) n' (by omega) (by omega) (by omega)
      · have : c.drop (j + 1) = [] := List.drop_eq_nil_of_le (by omega)
        simp [hj1, this, searchChainM]

def mhashOf (h : Heap K V) (key : K) : BitVec 64 := h.hasher key h.seed
def mbidxOf (h : Heap K V) (key : K) : BitVec 64 :=
  BitVec.ofInt 64 ((h.mchains.length : Int) - 1) &&& mhashOf h key

theorem bodyM_eq : Gen.Deep.T_Map_Load.body =
    .seq (nth Gen.Deep.T_Map_Load.body 0) (.seq (nth Gen.Deep.T_Map_Load.body 1)
      (.seq (nth Gen.Deep.T_Map_Load.body 2) (.seq (nth Gen.Deep.T_Map_Load.body 3) outerLoopM))) := rfl

/-- **the printed `Map.Load` computes the top-hash-filtered search** of the chain of the key's root bucket -/
theorem mload_eq_search (fuel : Nat) (hf : 4 ≤ fuel) (h : Heap K V) (key : K) (c : List (BucketM K V))
    (hc : h.mchains[(mbidxOf h key).toNat]? = some c) (hne : c ≠ []) (hfuel : c.length ≤ fuel)
    (hlen : ∀ b ∈ c, b.slots.length = 3) :
    call fuel h Gen.Deep.T_Map_Load [.key key] =
      some (match searchChainM key (mhashOf h key) c with
        | some v => [.val v, .bool true]
        | none => [.zeroV, .bool false]) := by
  obtain ⟨f, rfl⟩ : ∃ f, fuel = f + 4 := ⟨fuel - 4, by omega⟩
  have hlt : (mbidxOf h key).toNat < h.mchains.length := by
    rcases Nat.lt_or_ge (mbidxOf h key).toNat h.mchains.length with hl | hg
    · exact hl
    · rw [List.getElem?_eq_none hg] at hc; cases hc
  have hpos : 0 < c.length := List.length_pos_iff.2 hne
  have hloop := outerM_loop f h key (mbidxOf h key).toNat c hc hlen (mbidxOf h key) (mhashOf h key) c.length 0 (f + 4)
    (by omega) hpos hfuel
  have hrun : exec (f + 4) h resNamesM Gen.Deep.T_Map_Load.body
      [("key", .key key), ("value", .zeroV), ("ok", .bool false)] =
      some (match searchChainM key (mhashOf h key) c with
        | some v => .ret [.val v, .bool true]
        | none => .ret [.zeroV, .bool false]) := by
    have p0 : exec (f + 4) h resNamesM (nth Gen.Deep.T_Map_Load.body 0)
        [("key", .key key), ("value", .zeroV), ("ok", .bool false)] =
        some (.normal [("table", .mtablePtr), ("key", .key key), ("value", .zeroV), ("ok", .bool false)]) := by
      simp [nth, Gen.Deep.T_Map_Load, exec, eval, List.lookup, atomicLoad, conv]
    have p1 : exec (f + 4) h resNamesM (nth Gen.Deep.T_Map_Load.body 1)
        [("table", .mtablePtr), ("key", .key key), ("value", .zeroV), ("ok", .bool false)] =
        some (.normal [("hash", .w64 (mhashOf h key)), ("table", .mtablePtr), ("key", .key key), ("value", .zeroV),
          ("ok", .bool false)]) := by
      simp [nth, Gen.Deep.T_Map_Load, exec, eval, List.lookup, selField, mhashOf]
    have p2 : exec (f + 4) h resNamesM (nth Gen.Deep.T_Map_Load.body 2)
        [("hash", .w64 (mhashOf h key)), ("table", .mtablePtr), ("key", .key key), ("value", .zeroV), ("ok", .bool false)] =
        some (.normal [("bidx", .w64 (mbidxOf h key)), ("hash", .w64 (mhashOf h key)), ("table", .mtablePtr),
          ("key", .key key), ("value", .zeroV), ("ok", .bool false)]) := by
      simp [nth, Gen.Deep.T_Map_Load, exec, eval, List.lookup, selField, binop, conv, mbidxOf]
    have p3 : ∀ X : BitVec 64, X.toNat < h.mchains.length →
        exec (f + 4) h resNamesM (nth Gen.Deep.T_Map_Load.body 3)
          [("bidx", .w64 X), ("hash", .w64 (mhashOf h key)), ("table", .mtablePtr), ("key", .key key), ("value", .zeroV),
          ("ok", .bool false)] =
        some (.normal (envOutM key X.toNat 0 X (mhashOf h key))) := by
      intro X hX
      simp [nth, Gen.Deep.T_Map_Load, exec, eval, List.lookup, selField, hX, envOutM]
    rw [bodyM_eq]
    simp only [exec, p0, p1, p2, p3 _ hlt]
    rw [outerM_shape]
    simp only [exec]
    exact hloop
  have hcall : call (f + 4) h Gen.Deep.T_Map_Load [.key key] =
      (match exec (f + 4) h resNamesM Gen.Deep.T_Map_Load.body
          [("key", .key key), ("value", .zeroV), ("ok", .bool false)] with
        | some (.ret vs) => some vs
        | _ => none) := rfl
  rw [hcall, hrun]
  cases searchChainM key (mhashOf h key) c <;> rfl

/-- … which is the key search of M3 when the stored top hashes match their keys -/
theorem mload_eq_lookup (fuel : Nat) (hf : 4 ≤ fuel) (h : Heap K V) (key : K) (c : List (BucketM K V))
    (hc : h.mchains[(mbidxOf h key).toNat]? = some c) (hne : c ≠ []) (hfuel : c.length ≤ fuel)
    (hrep : ∀ b ∈ c, RepM (mhashOf h) b) :
    call fuel h Gen.Deep.T_Map_Load [.key key] =
      some (match lookup key (flatM c) with
        | some v => [.val v, .bool true]
        | none => [.zeroV, .bool false]) := by
  rw [mload_eq_search fuel hf h key c hc hne hfuel (fun b hb => (hrep b hb).1), searchChainM_eq (mhashOf h) key c hrep]

/-- **the printed `Map.Load` is the `load` step of the sequential table model M3** (Map variant) -/
theorem mload_is_model_load [Inhabited V] (fuel : Nat) (hf : 4 ≤ fuel) (h : Heap K V) (m : St K V)
    (env : Model.Table.Env K) (key : K) (p : Nat) (hp : p < 64) (hlen : h.mchains.length = 2 ^ p)
    (htbl : m.tbl.chains = h.mchains.map flatM) (hseed : m.tbl.seed = h.seed) (hhash : env.hash = h.hasher)
    (hne : ∀ c ∈ h.mchains, c ≠ []) (hfuel : ∀ c ∈ h.mchains, c.length ≤ fuel)
    (hrep : ∀ c ∈ h.mchains, ∀ b ∈ c, RepM (mhashOf h) b) :
    call fuel h Gen.Deep.T_Map_Load [.key key] =
      some (match (step mapVariant env m (.load key)).2.out with
        | .val v true => [.val v, .bool true]
        | _ => [.zeroV, .bool false]) := by
  have hb : (mbidxOf h key).toNat = (h.hasher key h.seed).toNat % 2 ^ p := by
    unfold mbidxOf mhashOf
    rw [hlen]
    exact mask_mod p hp _
  have hlt : (mbidxOf h key).toNat < h.mchains.length := by
    rw [hb, hlen]; exact Nat.mod_lt _ (Nat.two_pow_pos p)
  have hc : h.mchains[(mbidxOf h key).toNat]? = some h.mchains[(mbidxOf h key).toNat] := List.getElem?_eq_getElem hlt
  have hmem := List.getElem_mem hlt
  rw [mload_eq_lookup fuel hf h key _ hc (hne _ hmem) (hfuel _ hmem) (hrep _ hmem)]
  have hchain : m.tbl.chain (m.tbl.bucketOf mapVariant env key) = flatM h.mchains[(mbidxOf h key).toNat] := by
    unfold Tbl.chain Tbl.bucketOf Tbl.len
    simp only [mapVariant, htbl, hseed, hhash, List.length_map, hlen]
    rw [← hb, List.getD_eq_getElem?_getD, List.getElem?_map, hc]
    rfl
  simp only [step, hchain]
  cases lookup key (flatM h.mchains[(mbidxOf h key).toNat]) <;> rfl

end Proofs.DeepLoadM
