import CacheVerif.Proofs.ProtoRange
import CacheVerif.Proofs.ProtoLin
/-!
# M4a: every completed `Clear` empties the map at an instant inside its interval

`Clear` is `resize(table, mapClearHint)`.  It may lose the CAS on the `resizing` flag to a grow or a shrink; it then
waits and **tries again** (the repair of F4 - before it, the call returned without clearing).  This file proves, for
every schedule: between the moment a thread enters `Clear` and the moment that call returns, the thread itself executes
the publish step of a `Clear`, and in the state right after that step the current table is empty.  So no entry stored
before the call began survives it (what is there afterwards was committed after that instant).
-/
set_option linter.unusedSectionVars false
set_option linter.unusedVariables false
namespace Proofs.ProtoClear
open Spec Model.Proto Proofs.ProtoLocks Proofs.ProtoData Proofs.ProtoRange Proofs.ProtoLin

variable {K V : Type} [DecidableEq K]

/-- pcs a `Clear` request is never at before it has published -/
def latePc : Pc → Bool
  | .rzMuLock | .rzClearFlag | .rzBroadcast | .rzMuUnlock | .rzFastSum | .rzDecideSum => true
  | _ => false

/-- inside the resize request of a `Clear`, not past the publish step -/
def Pre (l : L K V) : Prop := l.hint = .clear ∧ .clDone ∈ l.conts ∧ latePc l.pc = false

theorem popCont_pre (l : L K V) (hw : WF l) (hpc : l.pc = .wfMuUnlock) (h : Pre l) : Pre (popCont l) := by
  obtain ⟨hh, hc, -⟩ := h
  rcases conts_cases l hw (Or.inr (by rw [hpc]; rfl)) with e | e | e | e | e | e <;> rw [e] at hc <;>
    simp at hc
  · have := hw.cshape.2.2 (by rw [hpc]; rfl)
    rw [e] at this; simp at this
  · simp [popCont, e, hh, Pre, latePc]

/-- a step of the thread other than the publish step keeps it inside the request -/
theorem pre_step (p : Params K) (t : Tid) (g : G K V) (l : L K V) (c : Choice K V) (g' : G K V) (l' : L K V)
    (hw : WF l) (h : Pre l) (hne : l.pc ≠ .rzPublish) (hs : tstep p t g l c = some (g', l')) : Pre l' := by
  have hcs := hw.cshape
  have hpop := popCont_pre l hw
  obtain ⟨hh, hc, hl⟩ := h
  cases hpc : l.pc <;> simp only [tstep, hpc] at hs <;> (repeat' split at hs) <;>
    simp only [Option.some.injEq, reduceCtorEq, Prod.mk.injEq] at hs <;> obtain ⟨-, rfl⟩ := hs <;>
    simp_all [Pre, latePc, contsOK, inRz, inWf, callResize, callWait]

/-- where a thread is with respect to the `Clear` it entered -/
def Stage (l : L K V) : Prop := l.pc = .clTable ∨ Pre l

theorem trace_cons (p : Params K) (s s2 : St K V) (t : Tid) (c : Choice K V) (rest : List (Tid × Choice K V))
    (hs : step p s t c = some s2) : trace p s ((t, c) :: rest) = s :: trace p s2 rest := by
  simp [trace, events, hs]

theorem head_mem_trace (p : Params K) (s : St K V) (sched : List (Tid × Choice K V)) : s ∈ trace p s sched := by
  simp [trace]

/-- the publish step of a `Clear` leaves the current table empty -/
theorem publish_empties (p : Params K) (t : Tid) (g : G K V) (l : L K V) (c : Choice K V) (g' : G K V) (l' : L K V)
    (hd : LD p g l) (hpc : l.pc = .rzPublish) (hh : l.hint = .clear) (hs : tstep p t g l c = some (g', l')) :
    ∀ k, absGet g' k = none := by
  have hclr := hd.clr hpc hh
  simp only [tstep, hpc, Option.some.injEq, Prod.mk.injEq] at hs
  obtain ⟨rfl, -⟩ := hs
  intro k; unfold absGet; dsimp only; rw [hclr]; rfl

/-- from a state in which thread `u` is entering `Clear` or is inside its request: along any run, either `u` still is,
or one of the states gone through has an empty current table -/
theorem clear_run (p : Params K) (hmin : 0 < p.minLen) (u : Tid) (sched : List (Tid × Choice K V)) (s s' : St K V)
    (hi : Inv s) (hd : DInv p s) (hst : Stage (s.l u)) (hrun : run p s sched = some s') :
    Stage (s'.l u) ∨ ∃ σ ∈ trace p s sched, ∀ k, absGet σ.g k = none := by
  induction sched generalizing s with
  | nil => simp only [run, Option.some.injEq] at hrun; subst hrun; exact Or.inl hst
  | cons a rest ih =>
    obtain ⟨t, c⟩ := a
    simp only [run] at hrun
    split at hrun
    · rename_i s2 heq
      rw [trace_cons p s s2 t c rest heq]
      obtain ⟨g', l', hts, rfl⟩ := step_cases p s s2 t c heq
      have hi2 := inv_step p s _ t c hi heq
      have hd2 := dinv_step p hmin s _ t c hi hd heq
      by_cases hpub : t = u ∧ (s.l u).pc = .rzPublish ∧ (s.l u).hint = .clear
      · -- the publish step of this `Clear`
        obtain ⟨rfl, hpc, hh⟩ := hpub
        right
        refine ⟨_, List.mem_cons_of_mem _ (head_mem_trace p _ rest), ?_⟩
        exact publish_empties p t s.g (s.l t) c g' l' (hd.ld t) hpc hh hts
      · have hst2 : Stage (({ g := g', l := fun x => if x = t then l' else s.l x } : St K V).l u) := by
          dsimp only
          by_cases htu : u = t
          · subst htu
            rw [if_pos rfl]
            rcases hst with hpc | hpre
            · right
              simp only [tstep, hpc, Option.some.injEq, Prod.mk.injEq] at hts
              obtain ⟨-, rfl⟩ := hts
              simp [Pre, callResize, latePc]
            · right
              refine pre_step p u s.g (s.l u) c g' l' (hi.2 u).wf hpre ?_ hts
              intro hpc
              exact hpub ⟨rfl, hpc, hpre.1⟩
          · rw [if_neg htu]; exact hst
        rcases ih _ hi2 hd2 hst2 hrun with h | ⟨σ, hσ, h⟩
        · exact Or.inl h
        · exact Or.inr ⟨σ, List.mem_cons_of_mem _ hσ, h⟩
    · simp at hrun

/-- **every completed `Clear` takes effect inside its interval** (every schedule; the call may lose the CAS to other
resizes any number of times): if thread `u` is entering `Clear` in `s0` and is at its return point in `s1`, one of the
states gone through has an empty current table -/
theorem clear_takes_effect (p : Params K) (hmin : 0 < p.minLen) (u : Tid) (pre mid : List (Tid × Choice K V))
    (s0 s1 : St K V) (h0 : run p (init p) pre = some s0) (h1 : run p s0 mid = some s1)
    (hstart : (s0.l u).pc = .clTable) (hret : (s1.l u).pc = .ret) :
    ∃ σ ∈ trace p s0 mid, ∀ k, absGet σ.g k = none := by
  have hreach : Reach p s0 := ⟨pre, h0⟩
  rcases clear_run p hmin u mid s0 s1 (inv_reach p s0 hreach) (dinv_reach p hmin s0 hreach) (Or.inl hstart) h1 with h | h
  · exfalso
    rcases h with h | ⟨-, hc, -⟩
    · rw [hret] at h; cases h
    · have hw := ((inv_reach p s1 (reach_run p mid s0 s1 hreach h1)).2 u).wf
      have := hw.cshape.1 (by rw [hret]; rfl) (by rw [hret]; rfl)
      rw [this] at hc; cases hc
  · exact h

end Proofs.ProtoClear
