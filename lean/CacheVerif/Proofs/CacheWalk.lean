import CacheVerif.Model.Cache
/-! Facts about `Model.Cache.walk`, the visitor loop of the cache-level `Range` (over any list of handed pairs). -/
namespace Proofs.CacheWalk
open Spec Model
variable {K V : Type} [DecidableEq K] [Inhabited V]

theorem mem_walk (now : Int) (f : K → V → Bool) (l : List (K × Item V)) (k : K) (v : V)
    (h : (k, v) ∈ Cache.walk now f l) : ∃ i, (k, i) ∈ l ∧ v = i.v ∧ Gen.item_expiredWithNow i.e now = false := by
  induction l with
  | nil => simp [Cache.walk] at h
  | cons p l ih =>
    obtain ⟨k', i'⟩ := p
    unfold Cache.walk at h
    by_cases he : Gen.item_expiredWithNow i'.e now = true
    · rw [if_pos he] at h
      obtain ⟨i, hi, hv, hx⟩ := ih h
      exact ⟨i, List.mem_cons_of_mem _ hi, hv, hx⟩
    · rw [if_neg he] at h
      by_cases hf : f k' i'.v = true
      · rw [if_pos hf] at h
        rcases List.mem_cons.mp h with h1 | h1
        · injection h1 with a b
          subst a; subst b
          exact ⟨i', List.mem_cons_self, rfl, by simpa using he⟩
        · obtain ⟨i, hi, hv, hx⟩ := ih h1
          exact ⟨i, List.mem_cons_of_mem _ hi, hv, hx⟩
      · rw [if_neg hf] at h
        rcases List.mem_singleton.mp h with h1
        injection h1 with a b
        subst a; subst b
        exact ⟨i', List.mem_cons_self, rfl, by simpa using he⟩

theorem walk_keys_sublist (now : Int) (f : K → V → Bool) (l : List (K × Item V)) :
    ((Cache.walk now f l).map (·.1)).Sublist (l.map (·.1)) := by
  induction l with
  | nil => simp [Cache.walk]
  | cons p l ih =>
    obtain ⟨k', i'⟩ := p
    unfold Cache.walk
    by_cases he : Gen.item_expiredWithNow i'.e now = true
    · rw [if_pos he]; exact List.Sublist.cons _ ih
    · rw [if_neg he]
      by_cases hf : f k' i'.v = true
      · rw [if_pos hf]; exact List.Sublist.cons_cons _ ih
      · rw [if_neg hf]
        simp only [List.map_cons, List.map_nil]
        exact List.Sublist.cons_cons _ (List.nil_sublist _)

/-- a visitor that never stops sees every unexpired handed pair -/
theorem walk_complete (now : Int) (f : K → V → Bool) (hf : ∀ k v, f k v = true) (l : List (K × Item V)) (k : K) (i : Item V)
    (h : (k, i) ∈ l) (hx : Gen.item_expiredWithNow i.e now = false) : (k, i.v) ∈ Cache.walk now f l := by
  induction l with
  | nil => cases h
  | cons p l ih =>
    obtain ⟨k', i'⟩ := p
    unfold Cache.walk
    rcases List.mem_cons.mp h with h1 | h1
    · injection h1 with a b
      subst a; subst b
      simp [hx, hf]
    · by_cases he : Gen.item_expiredWithNow i'.e now = true
      · rw [if_pos he]; exact ih h1
      · rw [if_neg he, if_pos (hf _ _)]; exact List.mem_cons_of_mem _ (ih h1)

end Proofs.CacheWalk
