import CacheVerif.Proofs.DeepAppend
import CacheVerif.Proofs.TableRefine
import CacheVerif.Proofs.StoreSpec
/-!
# Copying entries bucket-wise with `appendToBucketOf` is M3's `copyAll`

`Proofs/DeepAppend.lean` proves what one call of the printed `appendToBucketOf` does to one chain (`appendSpec` = `place`,
representation kept).  This file folds that over the entries a resize moves: applying `appendSpec` to the destination chain
of every entry, in order, yields a heap whose slots are exactly the table M3's `copyAll` builds (MapOf variant), every chain
stays non-empty and representative - for every hash function, seed and destination table.  (That `copyBucketOf` calls
`appendToBucketOf` once per entry with the entry's `h2` byte and destination root bucket is the pinned skeleton
`Expect.Resize`.)
-/
set_option linter.unusedSectionVars false
namespace Proofs.CopyRep
open Deep.T Model.Words Model.Table Proofs.DeepAppend

variable {K V : Type} [DecidableEq K]

/-- one entry moved: `appendSpec` on the chain of its destination bucket -/
def moveOne (hk : K → BitVec 8) (bidx : K → Nat) (cs : List (List (BucketOf K V))) (e : K × V) : List (List (BucketOf K V)) :=
  cs.set (bidx e.1) (appendSpec (hk e.1) e.1 e.2 (cs.getD (bidx e.1) []))

/-- all entries moved, in order -/
def moveAll (hk : K → BitVec 8) (bidx : K → Nat) (es : List (K × V)) (cs : List (List (BucketOf K V))) :
    List (List (BucketOf K V)) := es.foldl (moveOne hk bidx) cs

/-- the invariant of a destination table: chains non-empty and representative -/
def Good (hk : K → BitVec 8) (cs : List (List (BucketOf K V))) : Prop := ∀ c ∈ cs, c ≠ [] ∧ ∀ b ∈ c, RepB hk b

theorem appendSpec_ne (hb8 : BitVec 8) (k : K) (v : V) (c : List (BucketOf K V)) (hne : c ≠ []) :
    appendSpec hb8 k v c ≠ [] := by
  cases c with
  | nil => exact absurd rfl hne
  | cons b r =>
    cases r with
    | nil => cases hf : firstFree b.entries <;> simp [appendSpec, hf]
    | cons r0 rs => cases hf : firstFree b.entries <;> simp [appendSpec, hf]

theorem moveOne_good (hk : K → BitVec 8) (bidx : K → Nat) (cs : List (List (BucketOf K V))) (e : K × V)
    (hg : Good hk cs) (hi : bidx e.1 < cs.length) : Good hk (moveOne hk bidx cs e) := by
  intro c hc
  rcases List.mem_or_eq_of_mem_set hc with hmem | heq
  · exact hg c hmem
  · have hcm : cs.getD (bidx e.1) [] ∈ cs := by
      rw [List.getD_eq_getElem?_getD, List.getElem?_eq_getElem hi]; exact List.getElem_mem hi
    have := hg _ hcm
    subst heq
    exact ⟨appendSpec_ne _ _ _ _ this.1, appendSpec_rep hk e.1 e.2 _ this.2⟩

/-- **one entry**: the slots of the moved heap are M3's step of `copyAll` -/
theorem moveOne_flat (hk : K → BitVec 8) (bidx : K → Nat) (cs : List (List (BucketOf K V))) (e : K × V)
    (hg : Good hk cs) (hi : bidx e.1 < cs.length) :
    (moveOne hk bidx cs e).map flat = (cs.map flat).set (bidx e.1) (place 5 e.1 e.2 ((cs.map flat).getD (bidx e.1) [])) := by
  have hcm : cs.getD (bidx e.1) [] ∈ cs := by
    rw [List.getD_eq_getElem?_getD, List.getElem?_eq_getElem hi]; exact List.getElem_mem hi
  have hgc := hg _ hcm
  unfold moveOne
  rw [List.map_set, appendSpec_flat (hk e.1) e.1 e.2 _ hgc.1 (fun b hb => (hgc.2 b hb).1)]
  congr 2
  rw [List.getD_eq_getElem?_getD, List.getD_eq_getElem?_getD, List.getElem?_map, List.getElem?_eq_getElem hi]
  rfl

/-- **all entries: `copyAll`** (MapOf variant) - chains of the model table = slots of the heap, before and after -/
theorem moveAll_is_copyAll (env : Model.Table.Env K) (es : List (K × V)) :
    ∀ (cs : List (List (BucketOf K V))) (d : Tbl K V),
      d.chains = cs.map flat → Good (fun k => Gen.h2 (env.hash k d.seed)) cs → 0 < cs.length →
      let hk := fun k => Gen.h2 (env.hash k d.seed)
      let bidx := fun k => (Gen.h1 (env.hash k d.seed)).toNat % cs.length
      (copyAll mapOfVariant env es d).chains = (moveAll hk bidx es cs).map flat ∧
      Good hk (moveAll hk bidx es cs) ∧ (copyAll mapOfVariant env es d).seed = d.seed ∧
      (copyAll mapOfVariant env es d).size = d.size + es.length := by
  induction es with
  | nil => intro cs d hd hg _; exact ⟨hd, hg, rfl, by simp [copyAll]⟩
  | cons e r ih =>
    intro cs d hd hg hpos
    simp only
    have hi : (Gen.h1 (env.hash e.1 d.seed)).toNat % cs.length < cs.length := Nat.mod_lt _ hpos
    -- one step of the fold on the model side
    let d1 : Tbl K V :=
      { (d.setChain (d.bucketOf mapOfVariant env e.1) (place mapOfVariant.S e.1 e.2 (d.chain (d.bucketOf mapOfVariant env e.1)))) with
        size := d.size + 1 }
    have hstep : copyAll mapOfVariant env (e :: r) d = copyAll mapOfVariant env r d1 := by
      simp [copyAll, List.foldl, d1]
    have hb : d.bucketOf mapOfVariant env e.1 = (Gen.h1 (env.hash e.1 d.seed)).toNat % cs.length := by
      simp [Tbl.bucketOf, Tbl.len, mapOfVariant, hd]
    let cs1 := moveOne (fun k => Gen.h2 (env.hash k d.seed)) (fun k => (Gen.h1 (env.hash k d.seed)).toNat % cs.length) cs e
    have hd1 : d1.chains = cs1.map flat := by
      have := moveOne_flat (fun k => Gen.h2 (env.hash k d.seed)) (fun k => (Gen.h1 (env.hash k d.seed)).toNat % cs.length) cs e hg hi
      simp only [cs1]
      rw [this]
      show d.chains.set (d.bucketOf mapOfVariant env e.1)
        (place mapOfVariant.S e.1 e.2 (d.chains.getD (d.bucketOf mapOfVariant env e.1) [])) = _
      rw [hb, hd]
      rfl
    have hg1 : Good (fun k => Gen.h2 (env.hash k d1.seed)) cs1 :=
      moveOne_good _ _ cs e hg hi
    have hlen1 : cs1.length = cs.length := by simp [cs1, moveOne]
    have hpos1 : 0 < cs1.length := by rw [hlen1]; exact hpos
    have := ih cs1 d1 hd1 hg1 hpos1
    simp only [hlen1] at this
    rw [hstep]
    refine ⟨this.1, this.2.1, this.2.2.1, ?_⟩
    rw [this.2.2.2]
    simp [d1]
    omega

end Proofs.CopyRep

/-! ### read-your-write on the printed texts: after `appendToBucketOf`, `Load` finds the entry -/
namespace Proofs.CopyRep
open Deep.T Model.Words Model.Table Proofs.DeepAppend Proofs.DeepLoad Proofs.TableRefine

variable {K V : Type} [DecidableEq K]

theorem appendSpec_length_le (hb8 : BitVec 8) (k : K) (v : V) (c : List (BucketOf K V)) :
    (appendSpec hb8 k v c).length ≤ c.length + 1 := by
  induction c with
  | nil => simp [appendSpec]
  | cons b r ih =>
    cases r with
    | nil => cases hf : firstFree b.entries <;> simp [appendSpec, hf]
    | cons r0 rs =>
      cases hf : firstFree b.entries with
      | some i => simp [appendSpec, hf]
      | none =>
        simp only [appendSpec, hf, List.length_cons] at ih ⊢
        omega

/-- **append, then load**: run the printed `appendToBucketOf` for `(k, v)` on the chain of `k`'s root bucket (where `k` is
not yet present), then the printed `MapOf.Load` on the resulting heap: `Load k` returns `(v, true)`, and `Load x` for any other
key of that bucket returns what the key search found before -/
theorem append_then_load [Inhabited V] (fuel : Nat) (hf : 8 ≤ fuel) (h : Heap K V) (k : K) (v : V) (c : List (BucketOf K V))
    (hc : h.chains[(bidxOf h k).toNat]? = some c) (hne : c ≠ []) (hfuel : c.length + 1 ≤ fuel)
    (hrep : ∀ b ∈ c, RepB (hkOf h) b) (hnd : (chainKeys (flat c)).Nodup) (habs : lookup k (flat c) = none) :
    ∃ h', callW fuel h Gen.Deep.T_appendToBucketOf [.w8 (hkOf h k), .entry k v, .bucketRef (bidxOf h k).toNat 0] = some (h', []) ∧
      call fuel h' Gen.Deep.T_MapOf_Load [.key k] = some [.val v, .bool true] ∧
      ∀ x, bidxOf h x = bidxOf h k → x ≠ k →
        call fuel h' Gen.Deep.T_MapOf_Load [.key x] =
          some (match lookup x (flat c) with
            | some w => [.val w, .bool true]
            | none => [.zeroV, .bool false]) := by
  let ci := (bidxOf h k).toNat
  let c' := appendSpec (hkOf h k) k v c
  let h' : Heap K V := { h with chains := h.chains.set ci c' }
  have hci : ci < h.chains.length := by
    rcases Nat.lt_or_ge ci h.chains.length with hl | hg
    · exact hl
    · rw [List.getElem?_eq_none hg] at hc; cases hc
  have happ := append_eq_spec fuel (by omega) h (hkOf h k) k v ci c hc hne (by omega) (fun b hb => (hrep b hb).1)
  have hbidx : ∀ x, bidxOf h' x = bidxOf h x := by
    intro x; simp [bidxOf, hashOf, h']
  have hhk : hkOf h' = hkOf h := rfl
  have hc' : ∀ x, bidxOf h x = bidxOf h k → h'.chains[(bidxOf h' x).toNat]? = some c' := by
    intro x hx
    rw [hbidx, hx]
    simp [h', ci, hci]
  have hne' : c' ≠ [] := appendSpec_ne _ _ _ _ hne
  have hlen' : c'.length ≤ fuel := Nat.le_trans (appendSpec_length_le _ _ _ _) hfuel
  have hrep' : ∀ b ∈ c', RepB (hkOf h') b := by
    rw [hhk]; exact appendSpec_rep (hkOf h) k v c hrep
  have hflat : flat c' = place 5 k v (flat c) := appendSpec_flat _ _ _ _ hne (fun b hb => (hrep b hb).1)
  have hlook := (chainMod_place 5 k v (flat c) hnd habs).look
  refine ⟨h', happ, ?_, ?_⟩
  · rw [load_eq_lookup fuel hf h' k c' (hc' k rfl) hne' hlen' hrep', hflat, hlook k]
    simp
  · intro x hx hxk
    rw [load_eq_lookup fuel hf h' x c' (hc' x hx) hne' hlen' hrep', hflat, hlook x]
    simp only [hxk, if_false]
    cases lookup x (flat c) <;> rfl

end Proofs.CopyRep

/-! ### update / delete, then load, on the printed `Load` -/
namespace Proofs.CopyRep
open Deep.T Model.Words Model.Table Proofs.DeepLoad Proofs.TableRefine Proofs.StoreSpec

variable {K V : Type} [DecidableEq K]

theorem lookup_first (k : K) (old : V) : ∀ (s : Slots K V) (p : Nat), s[p]? = some (some (k, old)) → FirstAt k s p →
    lookup k s = some old := by
  intro s
  induction s with
  | nil => intro p h; simp at h
  | cons a r ih =>
    intro p h hfirst
    cases p with
    | zero => simp at h; subst h; simp [lookup]
    | succ p =>
      have hr : r[p]? = some (some (k, old)) := by simpa using h
      have hf : FirstAt k r p := fun q hq x w hx => hfirst (q + 1) (by omega) x w (by simpa using hx)
      rcases a with _ | ⟨k', v'⟩
      · simpa [lookup] using ih p hr hf
      · have hne : k' ≠ k := hfirst 0 (by omega) k' v' (by simp)
        simpa [lookup, hne] using ih p hr hf

/-- **in-place update / delete of the slot the search found, then the printed `MapOf.Load`** on the resulting heap: after
the update `Load k` returns the new value, after the delete it reports absence, and in both cases every other key of that root
bucket reads as before (keys of the chain pairwise distinct) -/
theorem store_then_load [Inhabited V] (fuel : Nat) (hf : 8 ≤ fuel) (h : Heap K V) (k : K) (c : List (BucketOf K V))
    (hc : h.chains[(bidxOf h k).toNat]? = some c) (hne : c ≠ []) (hfuel : c.length ≤ fuel)
    (hrep : ∀ b ∈ c, RepB (hkOf h) b) (hnd : (chainKeys (flat c)).Nodup)
    (j i : Nat) (b : BucketOf K V) (hb : c[j]? = some b) (hi : i < 5) (old v : V)
    (hs : b.entries[i]? = some (some (k, old))) (hfirst : FirstAt k (flat c) (5 * j + i)) :
    let hu : Heap K V := { h with chains := (h.chains.set (bidxOf h k).toNat (c.set j ⟨b.metaw, b.entries.set i (some (k, v))⟩)) }
    let hd : Heap K V := { h with chains := (h.chains.set (bidxOf h k).toNat
      (c.set j ⟨Gen.setByte b.metaw Gen.emptyMetaSlot i, b.entries.set i none⟩)) }
    call fuel hu Gen.Deep.T_MapOf_Load [.key k] = some [.val v, .bool true] ∧
    call fuel hd Gen.Deep.T_MapOf_Load [.key k] = some [.zeroV, .bool false] ∧
    ∀ x, bidxOf h x = bidxOf h k → x ≠ k →
      call fuel hu Gen.Deep.T_MapOf_Load [.key x] = call fuel h Gen.Deep.T_MapOf_Load [.key x] ∧
      call fuel hd Gen.Deep.T_MapOf_Load [.key x] = call fuel h Gen.Deep.T_MapOf_Load [.key x] := by
  intro hu hd
  have hci : (bidxOf h k).toNat < h.chains.length := by
    rcases Nat.lt_or_ge (bidxOf h k).toNat h.chains.length with hl | hg
    · exact hl
    · rw [List.getElem?_eq_none hg] at hc; cases hc
  have hU := update_is_upd (hkOf h) c hrep j i b hb hi k old v hs hfirst
  have hD := delete_is_del (hkOf h) c hrep j i b hb hi k old hs hfirst
  have hjl : j < c.length := by
    rcases Nat.lt_or_ge j c.length with hl | hg
    · exact hl
    · rw [List.getElem?_eq_none hg] at hb; cases hb
  have hlenset : ∀ b' : BucketOf K V, (c.set j b').length = c.length := fun b' => by simp
  have hrepset : ∀ b' : BucketOf K V, RepB (hkOf h) b' → ∀ y ∈ c.set j b', RepB (hkOf h) y := by
    intro b' hb' y hy
    rcases List.mem_or_eq_of_mem_set hy with hm | he
    · exact hrep y hm
    · subst he; exact hb'
  have hneset : ∀ b' : BucketOf K V, c.set j b' ≠ [] := fun b' hcon => by
    have hl := congrArg List.length hcon
    rw [List.length_set, List.length_nil] at hl
    omega
  have hold : lookup k (flat c) = some old :=
    lookup_first k old (flat c) (5 * j + i)
      (by rw [flat_get c j i b (fun b hb => (hrep b hb).1) hb hi, hs]) hfirst
  have hlu := fun x => lookup_upd k x v (flat c) (by simp [hold])
  have hld := fun x => lookup_del k x (flat c) hnd
  -- generic: Load on a heap whose chain ci was replaced by c'
  have key : ∀ (c' : List (BucketOf K V)), c' ≠ [] → c'.length ≤ fuel → (∀ y ∈ c', RepB (hkOf h) y) → ∀ x,
      bidxOf h x = bidxOf h k →
      call fuel ({ h with chains := (h.chains.set (bidxOf h k).toNat c') } : Heap K V) Gen.Deep.T_MapOf_Load [.key x] =
        some (match lookup x (flat c') with
          | some w => [.val w, .bool true]
          | none => [.zeroV, .bool false]) := by
    intro c' hne' hlen' hrep' x hx
    have hb1 : bidxOf ({ h with chains := (h.chains.set (bidxOf h k).toNat c') } : Heap K V) x = bidxOf h k := by
      rw [← hx]; simp [bidxOf, hashOf]
    exact load_eq_lookup fuel hf _ x c' (by rw [hb1]; simp [hci]) hne' hlen' hrep'
  have orig : ∀ x, bidxOf h x = bidxOf h k →
      call fuel h Gen.Deep.T_MapOf_Load [.key x] =
        some (match lookup x (flat c) with
          | some w => [.val w, .bool true]
          | none => [.zeroV, .bool false]) := by
    intro x hx
    exact load_eq_lookup fuel hf h x c (by rw [hx]; exact hc) hne hfuel hrep
  refine ⟨?_, ?_, ?_⟩
  · rw [key _ (hneset _) (by rw [hlenset]; exact hfuel) (hrepset _ hU.2) k rfl, hU.1, hlu k]
    simp
  · rw [key _ (hneset _) (by rw [hlenset]; exact hfuel) (hrepset _ hD.2) k rfl, hD.1, hld k]
    simp
  · intro x hx hxk
    refine ⟨?_, ?_⟩
    · rw [key _ (hneset _) (by rw [hlenset]; exact hfuel) (hrepset _ hU.2) x hx, hU.1, hlu x, orig x hx]
      simp [hxk]
    · rw [key _ (hneset _) (by rw [hlenset]; exact hfuel) (hrepset _ hD.2) x hx, hD.1, hld x, orig x hx]
      simp [hxk]

end Proofs.CopyRep
