import CacheVerif.Generated.Leaf
import CacheVerif.Spec.TTL
/-!
Lemmas about the machine-translated decision code of package `cache` (`Gen.*`), re-proved against the
current source on every run: the generated predicates are the spec's.
-/
namespace Proofs.LeafCache
open Spec.TTL

theorem DefaultExpiration_eq : Gen.DefaultExpiration = DefaultExpiration := rfl
theorem NoExpiration_eq : Gen.NoExpiration = NoExpiration := rfl

theorem item_expired_eq (e now : Int) : Gen.item_expired e now = expired e now := by
  simp [Gen.item_expired, expired]

theorem item_expiredWithNow_eq (e now : Int) : Gen.item_expiredWithNow e now = expired e now := by
  simp [Gen.item_expiredWithNow, expired]

theorem itemOf_expired_eq (e now : Int) : Gen.itemOf_expired e now = expired e now := by
  simp [Gen.itemOf_expired, expired]

theorem itemOf_expiredWithNow_eq (e now : Int) : Gen.itemOf_expiredWithNow e now = expired e now := by
  simp [Gen.itemOf_expiredWithNow, expired]

theorem expiration_eq (d dflt now : Int) : Gen.expiration d dflt now = expiration d dflt now := by
  simp only [Gen.expiration, expiration, Gen.DefaultExpiration, DefaultExpiration]
  by_cases h : d = -1000000000 <;> simp [h]

theorem expirationOf_eq (d dflt now : Int) : Gen.expirationOf d dflt now = expiration d dflt now := by
  simp only [Gen.expirationOf, expiration, Gen.DefaultExpiration, DefaultExpiration]
  by_cases h : d = -1000000000 <;> simp [h]

/-- an expiration instant computed at a non-negative clock is never negative, and positive iff armed -/
theorem expiration_nonneg (d dflt now : Int) (h : 0 ≤ now) : 0 ≤ expiration d dflt now := by
  simp only [expiration]
  split <;> omega

theorem expired_mono (e now now' : Int) (h : now ≤ now') (he : expired e now = true) : expired e now' = true := by
  simp [expired] at *; omega

theorem not_expired_zero (now : Int) : expired 0 now = false := by simp [expired]

/-- `configDefault` (both twins): defaults below 1 ns become NoExpiration, negative intervals 0,
capacities below 96 become 96 -/
theorem configDefault_spec (c : Gen.Config) :
    Gen.configDefault (some c) =
      { defaultExpiration := if c.defaultExpiration < 1 then NoExpiration else c.defaultExpiration,
        cleanupInterval := if c.cleanupInterval < 0 then 0 else c.cleanupInterval,
        minCapacity := if c.minCapacity < 96 then 96 else c.minCapacity,
        hasCallback := c.hasCallback } := by
  simp [Gen.configDefault, Gen.NoExpiration, NoExpiration, Gen.DefaultMinCapacity]
  by_cases h : c.minCapacity < 96 <;> simp [h]

theorem configDefaultOf_eq (c : Option Gen.Config) : Gen.configDefaultOf c = Gen.configDefault c := by
  cases c <;> rfl

theorem configDefault_none :
    Gen.configDefault none = { defaultExpiration := NoExpiration, cleanupInterval := 10000000000, minCapacity := 96, hasCallback := false } := rfl

theorem configDefault_idem (c : Option Gen.Config) :
    Gen.configDefault (some (Gen.configDefault c)) = Gen.configDefault c := by
  cases c with
  | none => rfl
  | some c =>
    rw [configDefault_spec, configDefault_spec]
    simp only [NoExpiration]
    congr 1 <;> (split <;> simp_all <;> omega)

end Proofs.LeafCache
