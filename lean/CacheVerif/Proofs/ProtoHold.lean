import CacheVerif.Proofs.ProtoLocks
/-!
# M4a: a bucket lock is held for a bounded number of the holder's own steps, none of which can block

Whoever holds the lock of a root bucket - a writer between `lockBucket` and `unlockBucket`, the resizer while it copies
one bucket, `Range` while it snapshots one bucket - is enabled whatever the other threads do (it waits for nothing while
holding it), and a measure bounded by the number of counter stripes + 7 strictly decreases with each of its steps until
the lock is released.  (The user function of `Compute` / `LoadOrCompute` is one model step: the property's own
exclusion for functions that block.)  With `deadlock_free_strong` this is the progress argument of C13 short of
scheduler fairness: every thread that waits for a bucket lock waits for a thread that needs only finitely many of its
own steps, each always enabled.
-/
set_option linter.unusedSectionVars false
set_option linter.unusedVariables false
namespace Proofs.ProtoHold
open Model.Proto Proofs.ProtoLocks

variable {K V : Type} [DecidableEq K]

/-- how many more of its own steps the holder needs, at most, before it releases the bucket lock it holds -/
def holdMeasure (p : Params K) (g : G K V) (l : L K V) : Nat :=
  let S := p.stripes (g.tables l.tbl).len
  match l.pc with
  | .dcChkResizing => S + 7
  | .dcChkTable => S + 6
  | .dcScan => S + 5
  | .dcSum => (S - l.si) + 4
  | .dcFn => 3
  | .dcCommit => 2
  | .dcUnlock | .dcUnlockWait | .dcUnlockRetry | .dcUnlockGrow => 1
  | .rzCopyDo => 2
  | .rzCopyUnlock => 1
  | .rgCopy => 2
  | .rgUnlock => 1
  | _ => 0

/-- the holder of a bucket lock is never blocked -/
theorem holder_enabled (p : Params K) (t : Tid) (g : G K V) (l : L K V) (c : Choice K V) (hw : WF l) (T i : Nat)
    (hh : holdsBucket l = some (T, i)) : (tstep p t g l c).isSome = true := by
  refine tstep_isSome p t g l c hw ?_ ?_ ?_ ?_ ?_ ?_
  · intro hpc; simp [holdsBucket, hpc] at hh
  · intro hpc; simp [holdsBucket, hpc] at hh
  · intro hpc; simp [holdsBucket, hpc] at hh
  · intro hpc; simp [holdsBucket, hpc] at hh
  · intro hpc; rcases hpc with hpc | hpc | hpc <;> simp [holdsBucket, hpc] at hh
  · intro hpc; simp [holdsBucket, hpc] at hh

/-- each step of the holder releases the lock or keeps it with a smaller measure (the table lengths do not change) -/
theorem hold_step (p : Params K) (t : Tid) (g : G K V) (l : L K V) (c : Choice K V) (g' : G K V) (l' : L K V) (T i : Nat)
    (hh : holdsBucket l = some (T, i)) (hs : tstep p t g l c = some (g', l'))
    (hlen : (g'.tables l.tbl).len = (g.tables l.tbl).len) :
    holdsBucket l' = none ∨ (holdsBucket l' = some (T, i) ∧ holdMeasure p g' l' < holdMeasure p g l) := by
  cases hpc : l.pc <;> simp only [holdsBucket, hpc, reduceCtorEq] at hh <;>
    simp only [tstep, hpc] at hs <;> (repeat' split at hs) <;>
    simp only [Option.some.injEq, reduceCtorEq, Prod.mk.injEq] at hs <;> obtain ⟨rfl, rfl⟩ := hs <;>
    simp_all [holdsBucket, holdMeasure, callWait, callResize] <;> omega

/-! ### `resizeMu` -/

def muMeasure (l : L K V) : Nat :=
  match l.pc with
  | .rzClearFlag => 3
  | .rzBroadcast => 2
  | .wfChk => 2
  | .rzMuUnlock | .wfMuUnlock => 1
  | _ => 0

/-- the holder of `resizeMu` is never blocked -/
theorem mu_holder_enabled (p : Params K) (t : Tid) (g : G K V) (l : L K V) (c : Choice K V) (hw : WF l)
    (hh : holdsMu l.pc = true) : (tstep p t g l c).isSome = true := by
  refine tstep_isSome p t g l c hw ?_ ?_ ?_ ?_ ?_ ?_
  · intro hpc; simp [holdsMu, hpc] at hh
  · intro hpc; simp [holdsMu, hpc] at hh
  · intro hpc; simp [holdsMu, hpc] at hh
  · intro hpc; simp [holdsMu, hpc] at hh
  · intro hpc; rcases hpc with hpc | hpc | hpc <;> simp [holdsMu, hpc] at hh
  · intro hpc; simp [holdsMu, hpc] at hh

/-- each step of the holder of `resizeMu` releases it (unlock, or the wait of the condition variable) or keeps it with
a smaller measure -/
theorem mu_hold_step (p : Params K) (t : Tid) (g : G K V) (l : L K V) (c : Choice K V) (g' : G K V) (l' : L K V)
    (hh : holdsMu l.pc = true) (hs : tstep p t g l c = some (g', l')) :
    holdsMu l'.pc = false ∨ (holdsMu l'.pc = true ∧ muMeasure l' < muMeasure l) := by
  have hP := (popCont_pc l).1
  cases hpc : l.pc <;> simp only [holdsMu, hpc, reduceCtorEq] at hh <;>
    simp only [tstep, hpc] at hs <;> (repeat' split at hs) <;>
    simp only [Option.some.injEq, reduceCtorEq, Prod.mk.injEq] at hs <;> obtain ⟨rfl, rfl⟩ := hs <;>
    first
    | (left; rcases hP with h | h | h <;> rw [h] <;> rfl)
    | simp_all [holdsMu, muMeasure]

/-! ### the `resizing` flag -/

/-- how many more of its own steps the resizer needs, at most, before it lowers the flag: three per root bucket still to
copy, one per counter stripe still to sum, and a constant -/
def flagMeasure (p : Params K) (g : G K V) (l : L K V) : Nat :=
  match l.pc with
  | .rzLoadTable => 3 * (g.tables g.cur).len + p.stripes (g.tables g.cur).len + 9
  | .rzDecide => 3 * (g.tables l.rtbl).len + p.stripes (g.tables l.rtbl).len + 8
  | .rzDecideSum => 3 * (g.tables l.rtbl).len + (p.stripes (g.tables l.rtbl).len - l.si) + 7
  | .rzCopyLock => 3 * ((g.tables l.rtbl).len - l.ci) + 5
  | .rzCopyDo => 3 * ((g.tables l.rtbl).len - l.ci - 1) + 7
  | .rzCopyUnlock => 3 * ((g.tables l.rtbl).len - l.ci - 1) + 6
  | .rzPublish => 4
  | .rzMuLock => 3
  | .rzClearFlag => 2
  | _ => 0

/-- each step of the resizer lowers the flag or decreases the measure (the lengths of allocated tables do not change).
The resizer can be blocked only at `rzCopyLock` (a bucket lock: `hold_step`) and at `rzMuLock` (`mu_hold_step`). -/
theorem flag_hold_step (p : Params K) (t : Tid) (g : G K V) (l : L K V) (c : Choice K V) (g' : G K V) (l' : L K V)
    (hr : isResizer l.pc = true) (hs : tstep p t g l c = some (g', l'))
    (hlen : usesRtbl l.pc = true → (g'.tables l.rtbl).len = (g.tables l.rtbl).len)
    (hcur : (g'.tables g.cur).len = (g.tables g.cur).len) :
    isResizer l'.pc = false ∨ (isResizer l'.pc = true ∧ flagMeasure p g' l' < flagMeasure p g l) := by
  cases hpc : l.pc <;> simp only [isResizer, hpc, reduceCtorEq] at hr <;>
    simp only [tstep, hpc] at hs <;> (repeat' split at hs) <;>
    simp only [Option.some.injEq, reduceCtorEq, Prod.mk.injEq] at hs <;> obtain ⟨rfl, rfl⟩ := hs <;>
    simp_all [isResizer, flagMeasure, usesRtbl] <;> omega

end Proofs.ProtoHold
