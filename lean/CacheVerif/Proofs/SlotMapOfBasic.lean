import CacheVerif.Model.SlotMapOf
/-!
# M4b (MapOf): pointwise lemmas about the slot accessors of one bucket chain
-/
set_option linter.unusedSectionVars false
namespace Proofs.SlotMapOfBasic
open Model.SlotMapOf

variable {K V : Type} [DecidableEq K] (h2 : K → Nat)

/-- all buckets have exactly `S` meta bytes and `S` entry pointers -/
def Sizes (g : G K V) : Prop := ∀ bk ∈ g.buckets, bk.mbytes.length = S ∧ bk.entries.length = S

theorem getD_modify (bs : List Bucket) (f : Bucket → Bucket) (b b' : Nat) :
    (bs.modify b f).getD b' Bucket.empty =
      if b = b' ∧ b' < bs.length then f (bs.getD b' Bucket.empty) else bs.getD b' Bucket.empty := by
  rw [List.getD_eq_getElem?_getD, List.getD_eq_getElem?_getD, List.getElem?_modify]
  by_cases hb : b' < bs.length
  · rw [List.getElem?_eq_getElem hb]
    by_cases h : b = b' <;> simp [h, hb]
  · rw [List.getElem?_eq_none (by omega)]
    simp [hb]

theorem getD_set {α} (l : List α) (i j : Nat) (a d : α) :
    (l.set i a).getD j d = if i = j ∧ i < l.length then a else l.getD j d := by
  rw [List.getD_eq_getElem?_getD, List.getD_eq_getElem?_getD, List.getElem?_set]
  by_cases h : i = j
  · subst h
    by_cases hi : i < l.length
    · simp [hi]
    · simp [hi]
  · simp [h]

theorem getD_of_ge (g : G K V) (b : Nat) (h : g.buckets.length ≤ b) : g.buckets.getD b Bucket.empty = Bucket.empty := by
  rw [List.getD_eq_getElem?_getD, List.getElem?_eq_none h]; rfl

theorem getD_mem (g : G K V) (b : Nat) (h : b < g.buckets.length) : g.buckets.getD b Bucket.empty ∈ g.buckets := by
  rw [List.getD_eq_getElem?_getD, List.getElem?_eq_getElem h]; exact List.getElem_mem h

theorem getD_replicate_none {α} (n i : Nat) : (List.replicate n (none : Option α)).getD i none = none := by
  rw [List.getD_eq_getElem?_getD, List.getElem?_replicate]; split <;> rfl

theorem getMeta_none_of_ge (g : G K V) (b i : Nat) (h : g.buckets.length ≤ b) : getMeta g b i = none := by
  unfold getMeta
  rw [getD_of_ge g b h]
  exact getD_replicate_none _ _

theorem getEntry_none_of_ge (g : G K V) (b i : Nat) (h : g.buckets.length ≤ b) : getEntry g b i = none := by
  unfold getEntry
  rw [getD_of_ge g b h]
  exact getD_replicate_none _ _

theorem getMeta_lt_len (g : G K V) (b i : Nat) (m : Nat) (h : getMeta g b i = some m) : b < g.buckets.length := by
  apply Nat.lt_of_not_le
  intro hle
  rw [getMeta_none_of_ge g b i hle] at h
  cases h

theorem getEntry_lt_len (g : G K V) (b i : Nat) (p : Ptr) (h : getEntry g b i = some p) : b < g.buckets.length := by
  apply Nat.lt_of_not_le
  intro hle
  rw [getEntry_none_of_ge g b i hle] at h
  cases h

theorem getD_some_lt {α} (l : List (Option α)) (i : Nat) (a : α) (h : l.getD i none = some a) : i < l.length := by
  apply Nat.lt_of_not_le
  intro hle
  rw [List.getD_eq_getElem?_getD, List.getElem?_eq_none hle] at h
  cases h

theorem getMeta_lt_S (g : G K V) (hs : Sizes g) (b i : Nat) (m : Nat) (h : getMeta g b i = some m) : i < S := by
  have hb := getMeta_lt_len g b i m h
  have := (hs _ (getD_mem g b hb)).1
  have h' := getD_some_lt _ _ _ h
  omega

/-! ### `setMeta` / `setEntry` -/

theorem length_setMeta (g : G K V) (b i : Nat) (m : Option Nat) : (setMeta g b i m).buckets.length = g.buckets.length := by
  simp [setMeta]

theorem length_setEntry (g : G K V) (b i : Nat) (e : Option Ptr) : (setEntry g b i e).buckets.length = g.buckets.length := by
  simp [setEntry]

theorem getEntry_setMeta (g : G K V) (b i : Nat) (m : Option Nat) (b' i' : Nat) :
    getEntry (setMeta g b i m) b' i' = getEntry g b' i' := by
  unfold getEntry setMeta
  simp only [getD_modify]
  split <;> rfl

theorem getMeta_setEntry (g : G K V) (b i : Nat) (e : Option Ptr) (b' i' : Nat) :
    getMeta (setEntry g b i e) b' i' = getMeta g b' i' := by
  unfold getMeta setEntry
  simp only [getD_modify]
  split <;> rfl

theorem getMeta_setMeta_ne (g : G K V) (b i : Nat) (m : Option Nat) (b' i' : Nat) (h : ¬ (b' = b ∧ i' = i)) :
    getMeta (setMeta g b i m) b' i' = getMeta g b' i' := by
  unfold getMeta setMeta
  simp only [getD_modify]
  split
  · next hc =>
    simp only [getD_set]
    rw [if_neg]
    intro hh
    exact h ⟨hc.1.symm, hh.1.symm⟩
  · rfl

theorem getEntry_setEntry_ne (g : G K V) (b i : Nat) (e : Option Ptr) (b' i' : Nat) (h : ¬ (b' = b ∧ i' = i)) :
    getEntry (setEntry g b i e) b' i' = getEntry g b' i' := by
  unfold getEntry setEntry
  simp only [getD_modify]
  split
  · next hc =>
    simp only [getD_set]
    rw [if_neg]
    intro hh
    exact h ⟨hc.1.symm, hh.1.symm⟩
  · rfl

theorem getMeta_setMeta_same (g : G K V) (hs : Sizes g) (b i : Nat) (m : Option Nat)
    (hb : b < g.buckets.length) (hi : i < S) : getMeta (setMeta g b i m) b i = m := by
  unfold getMeta setMeta
  rw [getD_modify, if_pos ⟨rfl, hb⟩]
  show ((g.buckets.getD b Bucket.empty).mbytes.set i m).getD i none = m
  rw [getD_set, if_pos]
  have := (hs _ (getD_mem g b hb)).1
  exact ⟨rfl, by omega⟩

theorem getEntry_setEntry_same (g : G K V) (hs : Sizes g) (b i : Nat) (e : Option Ptr)
    (hb : b < g.buckets.length) (hi : i < S) : getEntry (setEntry g b i e) b i = e := by
  unfold getEntry setEntry
  rw [getD_modify, if_pos ⟨rfl, hb⟩]
  show ((g.buckets.getD b Bucket.empty).entries.set i e).getD i none = e
  rw [getD_set, if_pos]
  have := (hs _ (getD_mem g b hb)).2
  exact ⟨rfl, by omega⟩

/-- clearing an entry pointer: the slot reads `none` afterwards, in range or not -/
theorem getEntry_setEntry_none (g : G K V) (b i : Nat) : getEntry (setEntry g b i none) b i = none := by
  by_cases hb : b < g.buckets.length
  · unfold getEntry setEntry
    rw [getD_modify, if_pos ⟨rfl, hb⟩]
    show ((g.buckets.getD b Bucket.empty).entries.set i none).getD i none = none
    rw [getD_set]
    split
    · rfl
    · next hc =>
      rw [List.getD_eq_getElem?_getD, List.getElem?_eq_none (by simpa using hc)]; rfl
  · rw [getEntry_none_of_ge _ b i (by rw [length_setEntry]; omega)]

theorem sizes_setMeta (g : G K V) (hs : Sizes g) (b i : Nat) (m : Option Nat) : Sizes (setMeta g b i m) := by
  intro bk hbk
  obtain ⟨j, hj⟩ := List.mem_iff_getElem?.mp hbk
  simp only [setMeta, List.getElem?_modify] at hj
  cases hg : g.buckets[j]? with
  | none => simp [hg] at hj
  | some bk0 =>
    have h0 := hs bk0 (List.mem_iff_getElem?.mpr ⟨j, hg⟩)
    simp only [hg, Option.map_eq_map, Option.map_some, Option.some.injEq] at hj
    subst hj
    split <;> simp [h0.1, h0.2]

theorem sizes_setEntry (g : G K V) (hs : Sizes g) (b i : Nat) (e : Option Ptr) : Sizes (setEntry g b i e) := by
  intro bk hbk
  obtain ⟨j, hj⟩ := List.mem_iff_getElem?.mp hbk
  simp only [setEntry, List.getElem?_modify] at hj
  cases hg : g.buckets[j]? with
  | none => simp [hg] at hj
  | some bk0 =>
    have h0 := hs bk0 (List.mem_iff_getElem?.mpr ⟨j, hg⟩)
    simp only [hg, Option.map_eq_map, Option.map_some, Option.some.injEq] at hj
    subst hj
    split <;> simp [h0.1, h0.2]

/-! ### accessors only depend on `buckets` -/

theorem getMeta_congr (g g' : G K V) (h : g'.buckets = g.buckets) (b i : Nat) : getMeta g' b i = getMeta g b i := by
  unfold getMeta; rw [h]

theorem getEntry_congr (g g' : G K V) (h : g'.buckets = g.buckets) (b i : Nat) : getEntry g' b i = getEntry g b i := by
  unfold getEntry; rw [h]

/-! ### appended bucket -/

def newBucket (h : Nat) (p : Ptr) : Bucket :=
  { mbytes := (some h) :: List.replicate (S - 1) none, entries := (some p) :: List.replicate (S - 1) none }

theorem getD_append_one (bs : List Bucket) (nb : Bucket) (b : Nat) :
    (bs ++ [nb]).getD b Bucket.empty = if b = bs.length then nb else bs.getD b Bucket.empty := by
  rw [List.getD_eq_getElem?_getD, List.getD_eq_getElem?_getD, List.getElem?_append]
  by_cases hb : b < bs.length
  · rw [if_pos hb, if_neg (by omega)]
  · rw [if_neg hb]
    by_cases he : b = bs.length
    · subst he; simp
    · rw [if_neg he, List.getElem?_eq_none (by simp; omega), List.getElem?_eq_none (by omega)]

theorem getMeta_append (g g' : G K V) (h : Nat) (p : Ptr) (hb : g'.buckets = g.buckets ++ [newBucket h p]) (b i : Nat) :
    getMeta g' b i = if b = g.buckets.length ∧ i = 0 then some h else getMeta g b i := by
  unfold getMeta
  rw [hb, getD_append_one]
  by_cases he : b = g.buckets.length
  · rw [if_pos he]
    have : getMeta g b i = none := getMeta_none_of_ge g b i (by omega)
    unfold getMeta at this
    rw [this]
    cases i with
    | zero => simp [he, newBucket]
    | succ i =>
      rw [if_neg (by simp)]
      simp only [newBucket, List.getD_cons_succ]; exact getD_replicate_none _ _
  · rw [if_neg he, if_neg (by simp [he])]

theorem getEntry_append (g g' : G K V) (h : Nat) (p : Ptr) (hb : g'.buckets = g.buckets ++ [newBucket h p]) (b i : Nat) :
    getEntry g' b i = if b = g.buckets.length ∧ i = 0 then some p else getEntry g b i := by
  unfold getEntry
  rw [hb, getD_append_one]
  by_cases he : b = g.buckets.length
  · rw [if_pos he]
    have : getEntry g b i = none := getEntry_none_of_ge g b i (by omega)
    unfold getEntry at this
    rw [this]
    cases i with
    | zero => simp [he, newBucket]
    | succ i =>
      rw [if_neg (by simp)]
      simp only [newBucket, List.getD_cons_succ]; exact getD_replicate_none _ _
  · rw [if_neg he, if_neg (by simp [he])]

theorem sizes_append (g g' : G K V) (hs : Sizes g) (h : Nat) (p : Ptr) (hb : g'.buckets = g.buckets ++ [newBucket h p]) :
    Sizes g' := by
  intro bk hbk
  rw [hb, List.mem_append] at hbk
  rcases hbk with hbk | hbk
  · exact hs bk hbk
  · simp only [List.mem_singleton] at hbk
    subst hbk
    simp [newBucket, S]

/-! ### `slotHolds`, `slots`, `candidates` -/

theorem slotHolds_some_iff (g : G K V) (b i : Nat) (k : K) (v : V) :
    slotHolds h2 g b i k = some v ↔
      ∃ p, getMeta g b i = some (h2 k) ∧ getEntry g b i = some p ∧ g.heap p = some (k, v) := by
  unfold slotHolds
  constructor
  · intro h
    split at h
    · next m p hm he =>
      split at h
      · next k' v' hh =>
        split at h
        · next hc =>
          obtain ⟨rfl, rfl⟩ := hc
          cases h
          exact ⟨p, hm, he, hh⟩
        · cases h
      · cases h
    · cases h
  · rintro ⟨p, hm, he, hh⟩
    simp [hm, he, hh]

theorem slotHolds_congr (g g' : G K V) (b i : Nat) (k : K)
    (hm : getMeta g' b i = getMeta g b i) (he : getEntry g' b i = getEntry g b i)
    (hh : ∀ p, getEntry g b i = some p → g'.heap p = g.heap p) :
    slotHolds h2 g' b i k = slotHolds h2 g b i k := by
  unfold slotHolds
  rw [hm, he]
  split
  · next m p _ hep => rw [hh p hep]
  · rfl

theorem slotHolds_none_of_meta (g : G K V) (b i : Nat) (k : K) (h : getMeta g b i = none) :
    slotHolds h2 g b i k = none := by
  unfold slotHolds; rw [h]

theorem slotHolds_none_of_entry (g : G K V) (b i : Nat) (k : K) (h : getEntry g b i = none) :
    slotHolds h2 g b i k = none := by
  unfold slotHolds; rw [h]; split <;> simp_all

theorem mem_slots (g : G K V) (b i : Nat) : (b, i) ∈ slots g ↔ b < g.buckets.length ∧ i < S := by
  unfold slots
  simp only [List.mem_flatMap, List.mem_range, List.mem_map, Prod.mk.injEq]
  constructor
  · rintro ⟨b', hb', i', hi', rfl, rfl⟩; exact ⟨hb', hi'⟩
  · rintro ⟨hb, hi⟩; exact ⟨b, hb, i, hi, rfl, rfl⟩

theorem mem_candidates (g : G K V) (b i h : Nat) :
    i ∈ candidates (g.buckets.getD b Bucket.empty) h ↔ i < S ∧ getMeta g b i = some h := by
  unfold candidates getMeta
  simp [List.mem_filter, List.mem_range]

theorem candidates_length_le (bk : Bucket) (h : Nat) : (candidates bk h).length ≤ S := by
  unfold candidates
  have := List.length_filter_le (fun i => decide (bk.mbytes.getD i none = some h)) (List.range S)
  simpa using this

end Proofs.SlotMapOfBasic
