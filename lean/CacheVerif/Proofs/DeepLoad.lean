import CacheVerif.Deep.TInterp
import CacheVerif.Generated.TableLoad
import CacheVerif.Proofs.Words
/-!
# The printed body of `MapOf.Load` computes the word-filtered search, which is M3's key search

`Gen.Deep.T_MapOf_Load` is printed from `internal/xsync/mapof.go` on every run.  For every heap (any number of
chains of any length, any contents), every key and every sufficient loop budget, the interpreter `Deep.T.call` on that
syntax returns `(v, true)` if `Model.Words.searchChain` finds `v` in the chain of the key's root bucket and the zero
value and `false` otherwise (`load_eq_search`); with `Proofs.Words.searchChain_eq` that is `Model.Table.lookup` on the
slots of the chain whenever the `meta` words say what their entries demand (`load_eq_lookup`).
-/
set_option linter.unusedSimpArgs false
namespace Proofs.DeepLoad
open Deep.T Model.Words Model.Table Proofs.Words Proofs.LeafBits

variable {K V : Type} [DecidableEq K]

/-! ### pieces of the printed syntax (by position, whatever they are) -/

def nth : Stmt → Nat → Stmt
  | .seq a _, 0 => a
  | .seq _ b, n + 1 => nth b n
  | s, 0 => s
  | _, _ + 1 => .skip

def unblock : Stmt → Stmt
  | .block s => s
  | s => s

def loopBody : Stmt → Stmt
  | .forever b => b
  | .while _ b => b
  | s => s

def loopCond : Stmt → Expr
  | .while c _ => c
  | _ => .bool true

/-- the `for { … }` over the chain -/
def outerLoop : Stmt := nth Gen.Deep.T_MapOf_Load.body 6
/-- the `for markedw != 0 { … }` over the candidate slots of one bucket -/
def innerLoop : Stmt := nth (unblock (loopBody outerLoop)) 2

def resNames : List String := Gen.Deep.T_MapOf_Load.results.map (·.1)

/-- only marker bits of bytes 0-4 -/
def Markers (w : BitVec 64) : Prop := ∀ j, w.getLsbD j = true → j % 8 = 7 ∧ j < 40

theorem markers_and (w x : BitVec 64) (h : Markers w) : Markers (w &&& x) := by
  intro j hj
  rw [BitVec.getLsbD_and, Bool.and_eq_true] at hj
  exact h j hj.1

theorem markers_fmbi (w : BitVec 64) (h : Markers w) (hw : w ≠ 0#64) : Gen.firstMarkedByteIndex w < 5 := by
  rw [eq_mk5 w h] at hw ⊢
  generalize w.getLsbD 7 = b0 at *
  generalize w.getLsbD 15 = b1 at *
  generalize w.getLsbD 23 = b2 at *
  generalize w.getLsbD 31 = b3 at *
  generalize w.getLsbD 39 = b4 at *
  cases b0 <;> cases b1 <;> cases b2 <;> cases b3 <;> cases b4 <;>
    simp [mk5, fmbi_1, fmbi_2, fmbi_3, fmbi_4, fmbi_5, fmbi_6, fmbi_7, fmbi_8, fmbi_9, fmbi_10, fmbi_11, fmbi_12, fmbi_13,
      fmbi_14, fmbi_15, fmbi_16, fmbi_17, fmbi_18, fmbi_19, fmbi_20, fmbi_21, fmbi_22, fmbi_23, fmbi_24, fmbi_25, fmbi_26,
      fmbi_27, fmbi_28, fmbi_29, fmbi_30, fmbi_31] at hw ⊢

/-- the environment at the head of an iteration of the outer loop -/
def envOut (key : K) (ci j : Nat) (h2w bidx h1 hash : BitVec 64) : Env K V :=
  [("b", .bucketRef ci j), ("bidx", .w64 bidx), ("h2w", .w64 h2w), ("h1", .w64 h1),
   ("hash", .w64 hash), ("table", .tablePtr), ("key", .key key), ("value", .zeroV), ("ok", .bool false)]

/-- the environment below `markedw` inside one iteration of the outer loop -/
def envIn (key : K) (ci j : Nat) (m h2w bidx h1 hash : BitVec 64) : Env K V :=
  ("metaw", .w64 m) :: envOut key ci j h2w bidx h1 hash

theorem testSlot_eq (key : K) (es : List (Option (K × V))) (i : Nat) :
    testSlot key es i = (match es[i]? with
      | some (some (k, v)) => if k = key then some v else none
      | _ => none) := by
  unfold testSlot
  rw [List.getD_eq_getElem?_getD]
  cases h : es[i]? with
  | none => simp
  | some e => cases e <;> simp

/-- one iteration of the inner loop on a non-zero candidate word -/
theorem inner_step (fuel : Nat) (h : Heap K V) (key : K) (ci j : Nat) (b : BucketOf K V)
    (hb : bucketAt h ci j = some b) (m h2w bidx h1 hash : BitVec 64) (w : BitVec 64) (hz : w ≠ 0#64)
    (e : Option (K × V)) (he : b.entries[Gen.firstMarkedByteIndex w]? = some e) :
    iter (fun env => eval h env (loopCond innerLoop)) (fun env => exec fuel h resNames (loopBody innerLoop) env)
        (("markedw", .w64 w) :: envIn key ci j m h2w bidx h1 hash) =
      (match e with
       | some (k, v) =>
         if k = key then some (.ret [.val v, .bool true])
         else some (.normal (("markedw", .w64 (w &&& (w - 1#64))) :: envIn key ci j m h2w bidx h1 hash))
       | none => some (.normal (("markedw", .w64 (w &&& (w - 1#64))) :: envIn key ci j m h2w bidx h1 hash))) := by
  have hz' : (w != 0#64) = true := by simp [hz]
  rcases e with _ | ⟨k, v⟩
  · simp [iter, innerLoop, outerLoop, loopCond, loopBody, unblock, nth, Gen.Deep.T_MapOf_Load, eval, exec, envIn, envOut,
      binop, List.lookup, leaf1, selField, addrOf, atomicLoad, hb, he, conv, isPtr, leave, setVar, evalList, resNames,
      hz', constOf]
  · by_cases hk : k = key
    · simp [iter, innerLoop, outerLoop, loopCond, loopBody, unblock, nth, Gen.Deep.T_MapOf_Load, eval, exec, envIn, envOut,
        binop, List.lookup, leaf1, selField, addrOf, atomicLoad, hb, he, conv, isPtr, leave, setVar, evalList, resNames,
        hz', constOf, hk]
    · simp [iter, innerLoop, outerLoop, loopCond, loopBody, unblock, nth, Gen.Deep.T_MapOf_Load, eval, exec, envIn, envOut,
        binop, List.lookup, leaf1, selField, addrOf, atomicLoad, hb, he, conv, isPtr, leave, setVar, evalList, resNames,
        hz', constOf, hk]

/-- **the inner loop** of the printed `Load`, for any number of iterations: it is `scanMarked` -/
theorem inner_loop (fuel : Nat) (h : Heap K V) (key : K) (ci j : Nat) (b : BucketOf K V)
    (hb : bucketAt h ci j = some b) (hlen : b.entries.length = 5) (m h2w bidx h1 hash : BitVec 64) :
    ∀ (n : Nat) (w : BitVec 64), Markers w →
      loopN (iter (fun env => eval h env (loopCond innerLoop))
          (fun env => exec fuel h resNames (loopBody innerLoop) env)) n
        (("markedw", .w64 w) :: envIn key ci j m h2w bidx h1 hash) =
      (scanMarked (testSlot key b.entries) n w).map fun r =>
        match r with
        | some v => .ret [.val v, .bool true]
        | none => .normal (("markedw", .w64 0#64) :: envIn key ci j m h2w bidx h1 hash) := by
  intro n
  induction n with
  | zero => intro w _; simp [loopN, scanMarked]
  | succ n ih =>
    intro w hw
    by_cases hz : w = 0#64
    · subst hz
      simp [loopN, scanMarked, iter, innerLoop, outerLoop, loopCond, loopBody, unblock, nth, Gen.Deep.T_MapOf_Load, eval,
        envIn, envOut, binop, List.lookup]
    · have hlt := markers_fmbi w hw hz
      have ih' := ih (w &&& (w - 1#64)) (markers_and _ _ hw)
      obtain ⟨e, he⟩ : ∃ e, b.entries[Gen.firstMarkedByteIndex w]? = some e := by
        rw [List.getElem?_eq_getElem (by omega)]; exact ⟨_, rfl⟩
      rw [loopN, scanMarked, testSlot_eq, he]
      simp only [hz, if_false]
      rw [inner_step fuel h key ci j b hb m h2w bidx h1 hash w hz e he]
      rcases e with _ | ⟨k, v⟩
      · simpa using ih'
      · by_cases hk : k = key
        · simp [hk]
        · simpa [hk] using ih'

/-! ### one iteration of the outer loop -/

def restFrom : Stmt → Nat → Stmt
  | s, 0 => s
  | .seq _ b, n + 1 => restFrom b n
  | _, _ + 1 => .skip

def obody : Stmt := unblock (loopBody outerLoop)
def sA : Stmt := nth obody 0
def sB : Stmt := nth obody 1
def sC : Stmt := restFrom obody 3

theorem body_shape : loopBody outerLoop = .block (.seq sA (.seq sB (.seq innerLoop sC))) := rfl
theorem inner_shape : innerLoop = .while (loopCond innerLoop) (loopBody innerLoop) := rfl

theorem outer_step (fuel : Nat) (hf : 8 ≤ fuel) (h : Heap K V) (key : K) (ci j : Nat) (c : List (BucketOf K V))
    (hc : h.chains[ci]? = some c) (b : BucketOf K V) (hb : c[j]? = some b) (hlen : b.entries.length = 5)
    (h2w bidx h1 hash : BitVec 64) :
    exec fuel h resNames (loopBody outerLoop) (envOut key ci j h2w bidx h1 hash) =
      (match searchBucket key h2w b with
       | some v => some (.ret [.val v, .bool true])
       | none =>
         if j + 1 < c.length then some (.normal (envOut key ci (j + 1) h2w bidx h1 hash))
         else some (.ret [.zeroV, .bool false])) := by
  have hb' : bucketAt h ci j = some b := by simp [bucketAt, hc, hb]
  have hjlt : j < c.length := by
    rcases Nat.lt_or_ge j c.length with hlt | hge
    · exact hlt
    · rw [List.getElem?_eq_none hge] at hb; cases hb
  have hA : exec fuel h resNames sA (envOut key ci j h2w bidx h1 hash) =
      some (.normal (envIn key ci j b.metaw h2w bidx h1 hash)) := by
    simp [sA, obody, outerLoop, loopBody, unblock, nth, Gen.Deep.T_MapOf_Load, exec, eval, envOut, envIn, List.lookup,
      addrOf, atomicLoad, hb']
  have hB : exec fuel h resNames sB (envIn key ci j b.metaw h2w bidx h1 hash) =
      some (.normal (("markedw", .w64 (candidates h2w b.metaw)) :: envIn key ci j b.metaw h2w bidx h1 hash)) := by
    simp [sB, obody, outerLoop, loopBody, unblock, nth, Gen.Deep.T_MapOf_Load, exec, eval, envOut, envIn, List.lookup,
      binop, leaf1, constOf, candidates]
  have hI : exec fuel h resNames innerLoop
      (("markedw", .w64 (candidates h2w b.metaw)) :: envIn key ci j b.metaw h2w bidx h1 hash) =
      some (match searchBucket key h2w b with
        | some v => .ret [.val v, .bool true]
        | none => .normal (("markedw", .w64 0#64) :: envIn key ci j b.metaw h2w bidx h1 hash)) := by
    rw [inner_shape]
    simp only [exec]
    rw [inner_loop fuel h key ci j b hb' hlen b.metaw h2w bidx h1 hash fuel _ (candidates_bits h2w b.metaw),
      scan_candidates key h2w b fuel hf]
    rfl
  have hC : exec fuel h resNames sC (("markedw", .w64 0#64) :: envIn key ci j b.metaw h2w bidx h1 hash) =
      (if j + 1 < c.length then
        some (.normal (("bptr", .bucketRef ci (j + 1)) :: ("markedw", .w64 0#64) :: ("metaw", .w64 b.metaw) ::
          envOut key ci (j + 1) h2w bidx h1 hash))
       else some (.ret [.zeroV, .bool false])) := by
    by_cases hj : j + 1 < c.length
    · simp [sC, obody, outerLoop, loopBody, unblock, nth, restFrom, Gen.Deep.T_MapOf_Load, exec, eval, envOut, envIn,
        List.lookup, binop, addrOf, atomicLoad, hc, hj, isPtr, leave, conv, setVar, resNames, readAll]
    · simp [sC, obody, outerLoop, loopBody, unblock, nth, restFrom, Gen.Deep.T_MapOf_Load, exec, eval, envOut, envIn,
        List.lookup, binop, addrOf, atomicLoad, hc, hj, hjlt, isPtr, leave, conv, setVar, resNames, readAll]
  rw [body_shape]
  simp only [exec, hA, hB, hI]
  cases hs : searchBucket key h2w b with
  | some v => simp [leave]
  | none =>
    simp only [hC]
    by_cases hj : j + 1 < c.length
    · simp [hj, leave, envOut]
    · simp [hj, leave]

/-! ### the outer loop, and the whole call -/

theorem outer_shape : outerLoop = .forever (loopBody outerLoop) := rfl

theorem outer_loop (fuel : Nat) (hf : 8 ≤ fuel) (h : Heap K V) (key : K) (ci : Nat) (c : List (BucketOf K V))
    (hc : h.chains[ci]? = some c) (hlen : ∀ b ∈ c, b.entries.length = 5) (h2w bidx h1 hash : BitVec 64) :
    ∀ (rem j n : Nat), j + rem = c.length → 0 < rem → rem ≤ n →
      loopN (fun env => exec fuel h resNames (loopBody outerLoop) env) n (envOut key ci j h2w bidx h1 hash) =
        some (match searchChain key h2w (c.drop j) with
          | some v => .ret [.val v, .bool true]
          | none => .ret [.zeroV, .bool false]) := by
  intro rem
  induction rem with
  | zero => intro j n _ h0; omega
  | succ rem ih =>
    intro j n hj _ hn
    obtain ⟨n', rfl⟩ : ∃ n', n = n' + 1 := ⟨n - 1, by omega⟩
    have hjlt : j < c.length := by omega
    have hb : c[j]? = some c[j] := List.getElem?_eq_getElem hjlt
    rw [loopN, outer_step fuel hf h key ci j c hc c[j] hb (hlen _ (List.getElem_mem hjlt)) h2w bidx h1 hash,
      List.drop_eq_getElem_cons hjlt, searchChain]
    cases hs : searchBucket key h2w c[j] with
    | some v => simp [orE]
    | none =>
      by_cases hj1 : j + 1 < c.length
      · simp only [hj1, if_true, orE_none_left]
        exact ih (j + 1) n' (by omega) (by omega) (by omega)
      · have : c.drop (j + 1) = [] := List.drop_eq_nil_of_le (by omega)
        simp [hj1, this, searchChain]

/-- the hash of a key, the broadcast `h2` byte, the index of its root bucket, as `Load` computes them -/
def hashOf (h : Heap K V) (key : K) : BitVec 64 := h.hasher key h.seed
def h2wOf (h : Heap K V) (key : K) : BitVec 64 := Gen.broadcast (Gen.h2 (hashOf h key))
def bidxOf (h : Heap K V) (key : K) : BitVec 64 :=
  BitVec.ofInt 64 ((h.chains.length : Int) - 1) &&& Gen.h1 (hashOf h key)

theorem body_eq : Gen.Deep.T_MapOf_Load.body =
    .seq (nth Gen.Deep.T_MapOf_Load.body 0) (.seq (nth Gen.Deep.T_MapOf_Load.body 1)
      (.seq (nth Gen.Deep.T_MapOf_Load.body 2) (.seq (nth Gen.Deep.T_MapOf_Load.body 3)
        (.seq (nth Gen.Deep.T_MapOf_Load.body 4) (.seq (nth Gen.Deep.T_MapOf_Load.body 5) outerLoop))))) := rfl

/-- **the printed `MapOf.Load` computes the word-filtered search** of the chain of the key's root bucket: for every heap
in which that chain exists and its buckets have five entry slots, every key, every loop budget that covers the chain -/
theorem load_eq_search (fuel : Nat) (hf : 8 ≤ fuel) (h : Heap K V) (key : K) (c : List (BucketOf K V))
    (hc : h.chains[(bidxOf h key).toNat]? = some c) (hne : c ≠ []) (hfuel : c.length ≤ fuel)
    (hlen : ∀ b ∈ c, b.entries.length = 5) :
    call fuel h Gen.Deep.T_MapOf_Load [.key key] =
      some (match searchChain key (h2wOf h key) c with
        | some v => [.val v, .bool true]
        | none => [.zeroV, .bool false]) := by
  have hlt : (bidxOf h key).toNat < h.chains.length := by
    rcases Nat.lt_or_ge (bidxOf h key).toNat h.chains.length with hl | hg
    · exact hl
    · rw [List.getElem?_eq_none hg] at hc; cases hc
  have hpos : 0 < c.length := List.length_pos_iff.2 hne
  have hloop := outer_loop fuel hf h key (bidxOf h key).toNat c hc hlen (h2wOf h key) (bidxOf h key)
    (Gen.h1 (hashOf h key)) (hashOf h key) c.length 0 fuel (by omega) hpos hfuel
  have hrun : exec fuel h resNames Gen.Deep.T_MapOf_Load.body
      [("key", .key key), ("value", .zeroV), ("ok", .bool false)] =
      some (match searchChain key (h2wOf h key) c with
        | some v => .ret [.val v, .bool true]
        | none => .ret [.zeroV, .bool false]) := by
    have p0 : exec fuel h resNames (nth Gen.Deep.T_MapOf_Load.body 0)
        [("key", .key key), ("value", .zeroV), ("ok", .bool false)] =
        some (.normal [("table", .tablePtr), ("key", .key key), ("value", .zeroV), ("ok", .bool false)]) := by
      simp [nth, Gen.Deep.T_MapOf_Load, exec, eval, List.lookup, atomicLoad, conv]
    have p1 : exec fuel h resNames (nth Gen.Deep.T_MapOf_Load.body 1)
        [("table", .tablePtr), ("key", .key key), ("value", .zeroV), ("ok", .bool false)] =
        some (.normal [("hash", .w64 (hashOf h key)), ("table", .tablePtr), ("key", .key key), ("value", .zeroV),
          ("ok", .bool false)]) := by
      simp [nth, Gen.Deep.T_MapOf_Load, exec, eval, List.lookup, selField, hashOf]
    have p2 : exec fuel h resNames (nth Gen.Deep.T_MapOf_Load.body 2)
        [("hash", .w64 (hashOf h key)), ("table", .tablePtr), ("key", .key key), ("value", .zeroV), ("ok", .bool false)] =
        some (.normal [("h1", .w64 (Gen.h1 (hashOf h key))), ("hash", .w64 (hashOf h key)), ("table", .tablePtr),
          ("key", .key key), ("value", .zeroV), ("ok", .bool false)]) := by
      simp [nth, Gen.Deep.T_MapOf_Load, exec, eval, List.lookup, leaf1]
    have p3 : exec fuel h resNames (nth Gen.Deep.T_MapOf_Load.body 3)
        [("h1", .w64 (Gen.h1 (hashOf h key))), ("hash", .w64 (hashOf h key)), ("table", .tablePtr),
          ("key", .key key), ("value", .zeroV), ("ok", .bool false)] =
        some (.normal [("h2w", .w64 (h2wOf h key)), ("h1", .w64 (Gen.h1 (hashOf h key))), ("hash", .w64 (hashOf h key)),
          ("table", .tablePtr), ("key", .key key), ("value", .zeroV), ("ok", .bool false)]) := by
      simp [nth, Gen.Deep.T_MapOf_Load, exec, eval, List.lookup, leaf1, h2wOf]
    have p4 : exec fuel h resNames (nth Gen.Deep.T_MapOf_Load.body 4)
        [("h2w", .w64 (h2wOf h key)), ("h1", .w64 (Gen.h1 (hashOf h key))), ("hash", .w64 (hashOf h key)),
          ("table", .tablePtr), ("key", .key key), ("value", .zeroV), ("ok", .bool false)] =
        some (.normal [("bidx", .w64 (bidxOf h key)), ("h2w", .w64 (h2wOf h key)), ("h1", .w64 (Gen.h1 (hashOf h key))),
          ("hash", .w64 (hashOf h key)), ("table", .tablePtr), ("key", .key key), ("value", .zeroV),
          ("ok", .bool false)]) := by
      simp [nth, Gen.Deep.T_MapOf_Load, exec, eval, List.lookup, selField, binop, conv, bidxOf]
    have p5 : ∀ X : BitVec 64, X.toNat < h.chains.length →
        exec fuel h resNames (nth Gen.Deep.T_MapOf_Load.body 5)
          [("bidx", .w64 X), ("h2w", .w64 (h2wOf h key)), ("h1", .w64 (Gen.h1 (hashOf h key))),
          ("hash", .w64 (hashOf h key)), ("table", .tablePtr), ("key", .key key), ("value", .zeroV),
          ("ok", .bool false)] =
        some (.normal (envOut key X.toNat 0 (h2wOf h key) X (Gen.h1 (hashOf h key)) (hashOf h key))) := by
      intro X hX
      simp [nth, Gen.Deep.T_MapOf_Load, exec, eval, List.lookup, selField, hX, envOut]
    rw [body_eq]
    simp only [exec, p0, p1, p2, p3, p4, p5 _ hlt]
    rw [outer_shape]
    simp only [exec]
    exact hloop
  have hcall : call fuel h Gen.Deep.T_MapOf_Load [.key key] =
      (match exec fuel h resNames Gen.Deep.T_MapOf_Load.body
          [("key", .key key), ("value", .zeroV), ("ok", .bool false)] with
        | some (.ret vs) => some vs
        | _ => none) := rfl
  rw [hcall, hrun]
  cases searchChain key (h2wOf h key) c <;> rfl

/-- the hash byte of a key in the table of the heap -/
def hkOf (h : Heap K V) (k : K) : BitVec 8 := Gen.h2 (h.hasher k h.seed)

/-- **… which is the key search of M3**: when the `meta` words of the chain say what their entries demand, the printed
`Load` returns `(v, true)` if `Model.Table.lookup` finds `v` among the slots of the chain, else `(zero, false)` -/
theorem load_eq_lookup (fuel : Nat) (hf : 8 ≤ fuel) (h : Heap K V) (key : K) (c : List (BucketOf K V))
    (hc : h.chains[(bidxOf h key).toNat]? = some c) (hne : c ≠ []) (hfuel : c.length ≤ fuel)
    (hrep : ∀ b ∈ c, RepB (hkOf h) b) :
    call fuel h Gen.Deep.T_MapOf_Load [.key key] =
      some (match lookup key (flat c) with
        | some v => [.val v, .bool true]
        | none => [.zeroV, .bool false]) := by
  rw [load_eq_search fuel hf h key c hc hne hfuel (fun b hb => (hrep b hb).1)]
  have := searchChain_eq (hkOf h) key c hrep
  rw [show h2wOf h key = Gen.broadcast (hkOf h key) from rfl, this]

/-- `uint64(len - 1) & x` is `x mod len` for a power-of-two length -/
theorem mask_mod (p : Nat) (hp : p < 64) (x : BitVec 64) :
    (BitVec.ofInt 64 (((2 ^ p : Nat) : Int) - 1) &&& x).toNat = x.toNat % 2 ^ p := by
  have h1 : (1 : Nat) ≤ 2 ^ p := Nat.one_le_two_pow
  have h2 : 2 ^ p < 2 ^ 64 := Nat.pow_lt_pow_right (by omega) hp
  have e : (((2 ^ p : Nat) : Int) - 1) = ((2 ^ p - 1 : Nat) : Int) := by omega
  rw [BitVec.toNat_and, e, BitVec.toNat_ofInt]
  have : ((((2 ^ p - 1 : Nat) : Int) % ((2 ^ 64 : Nat) : Int)).toNat) = 2 ^ p - 1 := by
    rw [Int.emod_eq_of_lt (by omega) (by omega)]; simp
  rw [this, Nat.and_comm, Nat.and_two_pow_sub_one_eq_mod]

/-- the table of M3 a heap represents: the slots of every chain, the seed; `size` is not part of the lookup path -/
def tblOf (h : Heap K V) (size : Int) : Tbl K V := { chains := h.chains.map flat, seed := h.seed, size := size }

/-- **the printed `MapOf.Load` is the `load` step of the sequential table model M3** (MapOf variant), on every heap
whose table has a power-of-two number of non-empty chains and whose `meta` words represent their entries -/
theorem load_is_model_load [Inhabited V] (fuel : Nat) (hf : 8 ≤ fuel) (h : Heap K V) (m : St K V) (env : Model.Table.Env K)
    (key : K) (p : Nat) (hp : p < 64) (hlen : h.chains.length = 2 ^ p)
    (htbl : m.tbl.chains = h.chains.map flat) (hseed : m.tbl.seed = h.seed) (hhash : env.hash = h.hasher)
    (hne : ∀ c ∈ h.chains, c ≠ []) (hfuel : ∀ c ∈ h.chains, c.length ≤ fuel)
    (hrep : ∀ c ∈ h.chains, ∀ b ∈ c, RepB (hkOf h) b) :
    call fuel h Gen.Deep.T_MapOf_Load [.key key] =
      some (match (step mapOfVariant env m (.load key)).2.out with
        | .val v true => [.val v, .bool true]
        | _ => [.zeroV, .bool false]) := by
  have hb : (bidxOf h key).toNat = (Gen.h1 (h.hasher key h.seed)).toNat % 2 ^ p := by
    unfold bidxOf hashOf
    rw [hlen]
    exact mask_mod p hp _
  have hlt : (bidxOf h key).toNat < h.chains.length := by
    rw [hb, hlen]; exact Nat.mod_lt _ (Nat.two_pow_pos p)
  have hc : h.chains[(bidxOf h key).toNat]? = some h.chains[(bidxOf h key).toNat] := List.getElem?_eq_getElem hlt
  have hmem := List.getElem_mem hlt
  rw [load_eq_lookup fuel hf h key _ hc (hne _ hmem) (hfuel _ hmem) (hrep _ hmem)]
  have hchain : m.tbl.chain (m.tbl.bucketOf mapOfVariant env key) = flat h.chains[(bidxOf h key).toNat] := by
    unfold Tbl.chain Tbl.bucketOf Tbl.len
    simp only [mapOfVariant, htbl, hseed, hhash, List.length_map, hlen]
    rw [← hb, List.getD_eq_getElem?_getD, List.getElem?_map, hc]
    rfl
  simp only [step, hchain]
  cases lookup key (flat h.chains[(bidxOf h key).toNat]) <;> rfl

end Proofs.DeepLoad
