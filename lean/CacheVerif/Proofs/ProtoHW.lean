import CacheVerif.Proofs.ProtoLin
/-!
# M4a: the global linearization of a run (`Map` / `MapOf` against the builtin map)

`ProtoLin` shows, call by call, that every completed call has a linearization step inside its interval.  This file
assembles those steps into ONE sequential history per run — the *linearization log* `wlog` — and proves that

* (`wlog_legal`)  the log is a legal history of the builtin map `K → Option V` started empty: every entry's
  recorded result is what the builtin map returns at that position;
* (`wlog_state`)  running the log on the empty map gives exactly the abstract content of the final state
  (in particular: a completed write is never lost, a deleted key never reappears, after `Clear` nothing stored
  before it is left);
* (`writer_once`) every completed writing call contributes exactly one entry, produced by a step inside the call's
  interval (its own commit / lock-protected hit, or the publish step of the `Clear` that helped it), carrying the
  result the call returns; a lock-free fast-path hit contributes none (it is a read);
* (`reader_point`) every completed lookup (`Load`, fast-path hit of `LoadOrStore`/`LoadOrCompute`) returns the binding
  of its key in the map obtained by running a prefix of the log that ends inside the call's interval.

Together: each call takes effect atomically at one instant between its invocation and its return — the
linearization-point form of Herlihy–Wing linearizability.  `Size` and `Range` are not part of the linearizable
interface (their guarantees are C08 / C07).
-/
set_option linter.unusedSectionVars false
set_option linter.unusedVariables false
namespace Proofs.ProtoHW
open Model.Proto Proofs.ProtoLocks Proofs.ProtoData Proofs.ProtoLin Spec

variable {K V : Type} [DecidableEq K]

/-- one entry of the sequential history: who, which call, with which result -/
structure LinE (K V : Type) where
  tid : Tid
  op : POp K V
  res : Ret K V

/-- the builtin map: state `K → Option V`; effect and result of one call -/
def specStep (m : K → Option V) : POp K V → (K → Option V) × Ret K V
  | .load k => (m, .val (m k) (m k).isSome)
  | .dc k f lie co =>
    let r := specDc f lie co (m k)
    (fun k' => if k' = k then r.1 else m k', .val r.2.1 r.2.2)
  | .clear => (fun _ => none, .unit)
  | .size => (m, .unit)
  | .range => (m, .unit)

def specFold (m : K → Option V) : List (LinE K V) → (K → Option V)
  | [] => m
  | e :: rest => specFold (specStep m e.op).1 rest

/-- every entry's result is the builtin map's result at its position -/
def Legal (m : K → Option V) : List (LinE K V) → Prop
  | [] => True
  | e :: rest => (specStep m e.op).2 = e.res ∧ Legal (specStep m e.op).1 rest

/-- prophecy over the rest of the run: does writer `u`, now past its checks, go on to take effect on the table it
holds (own commit or lock-protected hit) rather than give up and retry (the chain is full and over the grow
threshold: unlock, `resize`, new attempt)?  A call still pending at the end of the run counts as not taking effect. -/
def willCommit (u : Tid) : List (Ev K V) → Bool
  | [] => false
  | e :: rest =>
    if e.tid = u then
      match (e.pre.l u).pc with
      | .dcCommit => true
      | .dcScan => if (e.post.l u).pc = .dcUnlock then true else willCommit u rest
      | .dcSum => if (e.post.l u).pc = .dcUnlockGrow then false else willCommit u rest
      | .dcFn => willCommit u rest
      | _ => false
    else willCommit u rest

/-- the entry a writer `u` helped by the `Clear` publish step `e` contributes (immediately before the `Clear`):
`u` is past both its checks on the table being retired and goes on (`future`) to take effect on it -/
def helpedEntry (e : Ev K V) (future : List (Ev K V)) (u : Tid) : Option (LinE K V) :=
  match (e.pre.l u).op with
  | some (.dc k f lie co) =>
    if past2 (e.pre.l u).pc = true ∧ (e.pre.l u).tbl = e.pre.g.cur ∧ willCommit u future = true then
      some ⟨u, .dc k f lie co, .val (specDc f lie co (absGet e.pre.g k)).2.1 (specDc f lie co (absGet e.pre.g k)).2.2⟩
    else none
  | _ => none

/-- the linearization entries one step contributes; `ts` lists the thread ids in use (any superset), `future` are
the steps after `e` -/
def linOf (ts : List Tid) (e : Ev K V) (future : List (Ev K V)) : List (LinE K V) :=
  let l := e.pre.l e.tid
  match l.pc, l.op with
  | .dcCommit, some (.dc k f lie co) =>
    if l.tbl = e.pre.g.cur then [⟨e.tid, .dc k f lie co, ((e.post.l e.tid).result).getD .unit⟩] else []
  | .dcScan, some (.dc k f lie co) =>
    -- the lock-protected hit of LoadOrStore / LoadOrCompute
    if l.tbl = e.pre.g.cur ∧ (e.post.l e.tid).pc = .dcUnlock then
      [⟨e.tid, .dc k f lie co, ((e.post.l e.tid).result).getD .unit⟩] else []
  | .rzPublish, _ =>
    if l.hint = .clear then (ts.eraseDups.filterMap (helpedEntry e future)) ++ [⟨e.tid, .clear, .unit⟩] else []
  | _, _ => []

/-- per step of the run, the entries it contributes (aligned with the event list) -/
def contrib (ts : List Tid) : List (Ev K V) → List (List (LinE K V))
  | [] => []
  | e :: rest => linOf ts e rest :: contrib ts rest

/-- the linearization log of a run -/
def wlog (ts : List Tid) (H : List (Ev K V)) : List (LinE K V) := (contrib ts H).flatten

variable (p : Params K)

/-! ## part: list algebra -/

theorem specFold_append (m : K → Option V) (a b : List (LinE K V)) :
    specFold m (a ++ b) = specFold (specFold m a) b := by
  induction a generalizing m with
  | nil => rfl
  | cons e rest ih => simp only [List.cons_append, specFold]; exact ih _

theorem Legal_append (m : K → Option V) (a b : List (LinE K V)) :
    Legal m (a ++ b) ↔ Legal m a ∧ Legal (specFold m a) b := by
  induction a generalizing m with
  | nil => simp [Legal, specFold]
  | cons e rest ih => simp only [List.cons_append, Legal, specFold, ih, and_assoc]

/-- the contributions of the steps `H` when the run continues with the steps `F` -/
def contribF (ts : List Tid) : List (Ev K V) → List (Ev K V) → List (List (LinE K V))
  | [], _ => []
  | e :: rest, F => linOf ts e (rest ++ F) :: contribF ts rest F

theorem contrib_eq (ts : List Tid) (H : List (Ev K V)) : contrib ts H = contribF ts H [] := by
  induction H with
  | nil => rfl
  | cons e rest ih => simp only [contrib, contribF, List.append_nil, ih]

theorem contribF_append (ts : List Tid) (H1 H2 F : List (Ev K V)) :
    contribF ts (H1 ++ H2) F = contribF ts H1 (H2 ++ F) ++ contribF ts H2 F := by
  induction H1 with
  | nil => rfl
  | cons e rest ih => simp only [List.cons_append, contribF, ih, List.append_assoc]

theorem contribF_length (ts : List Tid) (H F : List (Ev K V)) : (contribF ts H F).length = H.length := by
  induction H with
  | nil => rfl
  | cons e rest ih => simp only [contribF, List.length_cons, ih]

theorem contribF_snoc (ts : List Tid) (H : List (Ev K V)) (ev : Ev K V) (R : List (Ev K V)) :
    (contribF ts (H ++ [ev]) R).flatten = (contribF ts H (ev :: R)).flatten ++ linOf ts ev R := by
  rw [contribF_append]
  simp [contribF, List.flatten_append]

theorem nodup_eraseDups (l : List Tid) : l.eraseDups.Nodup := by
  suffices h : ∀ n (l : List Tid), l.length ≤ n → l.eraseDups.Nodup from h _ l (Nat.le_refl _)
  intro n
  induction n with
  | zero =>
    intro l hl
    have : l = [] := List.length_eq_zero_iff.mp (Nat.le_zero.mp hl)
    subst this; simp
  | succ n ih =>
    intro l hl
    cases l with
    | nil => simp
    | cons a as =>
      rw [List.eraseDups_cons, List.nodup_cons]
      refine ⟨?_, ih _ ?_⟩
      · intro hm
        rw [List.mem_eraseDups, List.mem_filter] at hm
        simp at hm
      · have := List.length_filter_le (fun b => !b == a) as
        simp only [List.length_cons] at hl
        omega

/-! ## part: the helped writers of one `Clear` publish step -/

theorem helpedEntry_some (e : Ev K V) (fut : List (Ev K V)) (u : Tid) (x : LinE K V)
    (h : helpedEntry e fut u = some x) :
    ∃ k f lie co, (e.pre.l u).op = some (.dc k f lie co) ∧ past2 (e.pre.l u).pc = true ∧
      (e.pre.l u).tbl = e.pre.g.cur ∧ willCommit u fut = true ∧
      x = ⟨u, .dc k f lie co, .val (specDc f lie co (absGet e.pre.g k)).2.1 (specDc f lie co (absGet e.pre.g k)).2.2⟩ := by
  unfold helpedEntry at h
  split at h
  · rename_i k f lie co hop
    split at h
    · rename_i hc
      simp only [Option.some.injEq] at h
      exact ⟨k, f, lie, co, hop, hc.1, hc.2.1, hc.2.2, h.symm⟩
    · cases h
  · cases h

theorem helpedEntry_of (e : Ev K V) (fut : List (Ev K V)) (u : Tid) (k : K) (f : Option V → V × Bool) (lie co : Bool)
    (hop : (e.pre.l u).op = some (.dc k f lie co)) (hp : past2 (e.pre.l u).pc = true)
    (ht : (e.pre.l u).tbl = e.pre.g.cur) (hw : willCommit u fut = true) :
    helpedEntry e fut u =
      some ⟨u, .dc k f lie co, .val (specDc f lie co (absGet e.pre.g k)).2.1 (specDc f lie co (absGet e.pre.g k)).2.2⟩ := by
  unfold helpedEntry
  simp only [hop, hp, ht, hw, and_self, if_true]

theorem helpedEntry_tid (e : Ev K V) (fut : List (Ev K V)) (u : Tid) (x : LinE K V)
    (h : helpedEntry e fut u = some x) : x.tid = u := by
  obtain ⟨k, f, lie, co, -, -, -, -, rfl⟩ := helpedEntry_some e fut u x h
  rfl

/-- two writers helped by the same `Clear` have different keys -/
theorem helped_distinct (hmin : 0 < p.minLen) (s : St K V) (hreach : Reach p s) (u u' : Tid) (hne : u ≠ u')
    (k : K) (f f' : Option V → V × Bool) (lie co lie' co' : Bool) (k' : K)
    (hop : (s.l u).op = some (.dc k f lie co)) (hp : past2 (s.l u).pc = true) (ht : (s.l u).tbl = s.g.cur)
    (hop' : (s.l u').op = some (.dc k' f' lie' co')) (hp' : past2 (s.l u').pc = true) (ht' : (s.l u').tbl = s.g.cur) :
    k ≠ k' :=
  (helped_keys_distinct p hmin s hreach u u' hne (past2_pastChk _ hp) (past2_pastChk _ hp') (by rw [ht, ht'])).2 k k'
    (by simp [opKey, hop]) (by simp [opKey, hop'])

/-- the helped entries of the threads `us` do not touch a key none of them works on -/
theorem helped_fold_other (e : Ev K V) (fut : List (Ev K V)) (us : List Tid) (m : K → Option V) (k : K)
    (hk : ∀ u ∈ us, ∀ f lie co, (e.pre.l u).op = some (.dc k f lie co) → past2 (e.pre.l u).pc = true →
      (e.pre.l u).tbl = e.pre.g.cur → False) :
    specFold m (us.filterMap (helpedEntry e fut)) k = m k := by
  induction us generalizing m with
  | nil => rfl
  | cons u us ih =>
    have ih' := fun m => ih m (fun u' hu' => hk u' (List.mem_cons_of_mem _ hu'))
    simp only [List.filterMap_cons]
    cases hx : helpedEntry e fut u with
    | none => exact ih' m
    | some x =>
      obtain ⟨k0, f, lie, co, hop, hp, ht, -, rfl⟩ := helpedEntry_some e fut u x hx
      simp only [specFold, specStep]
      rw [ih']
      have : k ≠ k0 := by
        intro h; subst h; exact hk u (by simp) f lie co hop hp ht
      simp [this]

/-- the helped entries, in any order without repetition, are legal on any map that agrees with the abstract content
right before the `Clear` on the keys of the helped writers -/
theorem helped_legal (hmin : 0 < p.minLen) (e : Ev K V) (hreach : Reach p e.pre) (fut : List (Ev K V)) (us : List Tid)
    (hnd : us.Nodup) (m : K → Option V)
    (hm : ∀ u ∈ us, ∀ k f lie co, (e.pre.l u).op = some (.dc k f lie co) → past2 (e.pre.l u).pc = true →
      (e.pre.l u).tbl = e.pre.g.cur → m k = absGet e.pre.g k) :
    Legal m (us.filterMap (helpedEntry e fut)) := by
  induction us generalizing m with
  | nil => trivial
  | cons u us ih =>
    rw [List.nodup_cons] at hnd
    simp only [List.filterMap_cons]
    cases hx : helpedEntry e fut u with
    | none => exact ih hnd.2 m (fun u' hu' => hm u' (List.mem_cons_of_mem _ hu'))
    | some x =>
      obtain ⟨k0, f, lie, co, hop, hp, ht, -, rfl⟩ := helpedEntry_some e fut u x hx
      simp only [Legal, specStep]
      refine ⟨by rw [hm u (by simp) k0 f lie co hop hp ht], ih hnd.2 _ ?_⟩
      intro u' hu' k' f' lie' co' hop' hp' ht'
      have hne : u ≠ u' := by intro h; subst h; exact hnd.1 hu'
      have := helped_distinct p hmin e.pre hreach u u' hne k0 f f' lie co lie' co' k' hop hp ht hop' hp' ht'
      simp only [if_neg (Ne.symm this)]
      exact hm u' (List.mem_cons_of_mem _ hu') k' f' lie' co' hop' hp' ht'

/-! ## part: one step of the run against the builtin map -/

theorem abs_same (hmin : 0 < p.minLen) (s : St K V) (h : Reach p s) (t : Tid)
    (c : Choice K V) (g' : G K V) (l' : L K V) (hs : tstep p t s.g (s.l t) c = some (g', l'))
    (hn : ¬ (((s.l t).pc = .dcCommit ∧ (s.l t).tbl = s.g.cur) ∨ ((s.l t).pc = .rzPublish ∧ (s.l t).hint = .clear))) :
    absGet g' = absGet s.g := by
  funext k
  refine Classical.byContradiction fun hk => hn ?_
  exact abs_changes_only_at_commit_or_clear p hmin s h t c g' l' hs ⟨k, hk⟩

/-- **one step**: the entries contributed by a step are legal on the abstract content before the step and lead to
the abstract content after it (whatever the prophecy says) -/
theorem linOf_step (hmin : 0 < p.minLen) (ts : List Tid) (s s' : St K V) (t : Tid) (c : Choice K V)
    (hreach : Reach p s) (hs : step p s t c = some s') (fut : List (Ev K V)) :
    Legal (absGet s.g) (linOf ts ⟨s, t, c, s'⟩ fut) ∧
    specFold (absGet s.g) (linOf ts ⟨s, t, c, s'⟩ fut) = absGet s'.g := by
  obtain ⟨hts, hoth⟩ := step_def p s s' t c hs
  have hwf := ((inv_reach p s hreach).2 t).wf
  unfold linOf
  dsimp only
  split
  · -- commit
    rename_i k f lie co hpc hop
    by_cases htbl : (s.l t).tbl = s.g.cur
    · rw [if_pos htbl]
      obtain ⟨e1, e2, e3⟩ := commit_is_spec_step p hmin s hreach t k f lie co hop hpc htbl c _ _ hts
      simp only [Legal, specFold, specStep, e2, Option.getD_some, and_true, true_and]
      funext k'
      by_cases hk : k' = k
      · subst hk; simp [e1]
      · simp [hk, e3 k' hk]
    · rw [if_neg htbl]
      simp only [Legal, specFold, true_and]
      funext k'
      exact (commit_on_retired_invisible p t s.g (s.l t) c _ _ hpc htbl hts k').symm
  · -- scan
    rename_i k f lie co hpc hop
    by_cases hc : (s.l t).tbl = s.g.cur ∧ (s'.l t).pc = .dcUnlock
    · rw [if_pos hc]
      obtain ⟨-, e1, e2, e3⟩ := scan_hit_is_spec_step p s t k f lie co hop hpc hc.1 c _ _ hts hc.2
      simp only [Legal, specFold, specStep, e3, Option.getD_some, and_true, true_and]
      funext k'
      by_cases hk : k' = k
      · subst hk; simp [← e2, e1]
      · simp [hk, e1]
    · rw [if_neg hc]
      simp only [Legal, specFold, true_and]
      exact (abs_same p hmin s hreach t c _ _ hts (by simp [hpc])).symm
  · -- publish
    rename_i hpc
    by_cases hh : (s.l t).hint = .clear
    · rw [if_pos hh]
      have hemp := clear_publish_empties p hmin s hreach t c _ _ hpc hh hts
      refine ⟨?_, ?_⟩
      · rw [Legal_append]
        refine ⟨helped_legal p hmin ⟨s, t, c, s'⟩ hreach fut _ (nodup_eraseDups _) _ (fun _ _ _ _ _ _ _ _ _ => rfl), ?_⟩
        simp [Legal, specStep]
      · rw [specFold_append]
        simp only [specFold, specStep]
        funext k'; exact (hemp k').symm
    · rw [if_neg hh]
      simp only [Legal, specFold, true_and]
      funext k'
      exact (publish_preserves_abs p hmin s hreach t c _ _ hpc hh hts k').symm
  · -- every other step
    rename_i h3 h1 h2
    simp only [Legal, specFold, true_and]
    refine (abs_same p hmin s hreach t c _ _ hts ?_).symm
    rintro (⟨hpc, -⟩ | ⟨hpc, -⟩)
    · obtain ⟨k, f, lie, co, hop⟩ := isDcOp_cases _ (hwf.dcop (by rw [hpc]; rfl))
      exact h1 k f lie co hpc hop
    · exact h3 hpc

/-- **the generalised prefix lemma**: the entries contributed by the steps of any run segment (whatever steps `F`
follow) are legal on the abstract content of its first state and lead to the abstract content of its last state -/
theorem contribF_run (hmin : 0 < p.minLen) (ts : List Tid) (sched : List (Tid × Choice K V)) (s s' : St K V)
    (F : List (Ev K V)) (hreach : Reach p s) (hr : run p s sched = some s') :
    Legal (absGet s.g) (contribF ts (events p s sched) F).flatten ∧
    specFold (absGet s.g) (contribF ts (events p s sched) F).flatten = absGet s'.g := by
  induction sched generalizing s with
  | nil =>
    simp only [run, Option.some.injEq] at hr; subst hr
    simp [events, contribF, Legal, specFold]
  | cons a rest ih =>
    obtain ⟨t, c⟩ := a
    simp only [run] at hr
    split at hr
    · rename_i s1 heq
      obtain ⟨h1, h2⟩ := linOf_step p hmin ts s s1 t c hreach heq (events p s1 rest ++ F)
      obtain ⟨h3, h4⟩ := ih s1 (reach_step p s s1 t c hreach heq) hr
      simp only [events, heq, contribF, List.flatten_cons]
      rw [Legal_append, specFold_append, h2]
      exact ⟨⟨h1, h3⟩, h4⟩
    · simp at hr

theorem absGet_init : absGet (init (V := V) p).g = fun _ => none := by
  funext k; rfl

/-- **the log is a legal builtin-map history and reproduces the abstract content** -/
theorem wlog_legal_state (hmin : 0 < p.minLen) (ts : List Tid) (sched : List (Tid × Choice K V)) (s : St K V)
    (hr : run p (init p) sched = some s) (hts : ∀ x ∈ sched, x.1 ∈ ts) :
    Legal (fun _ => none) (wlog ts (events p (init p) sched)) ∧
    ∀ k, specFold (fun _ => none) (wlog ts (events p (init p) sched)) k = absGet s.g k := by
  have := contribF_run p hmin ts sched (init p) s [] ⟨[], rfl⟩ hr
  rw [absGet_init, ← contrib_eq] at this
  exact ⟨this.1, fun k => by unfold wlog; rw [this.2]⟩

/-! ## part: local facts about one thread -/

/-- a `resize` with hint `clear` was called by `Clear` -/
def HC (l : L K V) : Prop :=
  WF l ∧ (l.hint = .clear → (inRz l.pc = true ∨ .rzAfterWait ∈ l.conts) → .clDone ∈ l.conts)

theorem startOp_hc (l : L K V) (op : POp K V) :
    (startOp l op).hint = l.hint ∧ (startOp l op).conts = l.conts ∧ inRz (startOp l op).pc = false := by
  rcases op with _ | ⟨_, _, _ | _, _⟩ | _ | _ | _ <;> simp [startOp, inRz]

theorem popCont_hc (l : L K V) (hw : WF l) (h : inRz l.pc = true ∨ inWf l.pc = true)
    (hc : l.hint = .clear → (inRz l.pc = true ∨ .rzAfterWait ∈ l.conts) → .clDone ∈ l.conts) :
    (popCont l).hint = .clear → (inRz (popCont l).pc = true ∨ .rzAfterWait ∈ (popCont l).conts) →
      .clDone ∈ (popCont l).conts := by
  rcases popCont_cases l hw h with ⟨e, -⟩ | ⟨e, -⟩ | ⟨e, -⟩ | ⟨c, e, hcs, hne⟩ <;> rw [e] <;> simp [inRz]
  intro hh
  have := hc hh (Or.inr (by rw [hcs]; simp))
  rw [hcs] at this
  simpa using this

theorem hc_step (t : Tid) (g : G K V) (l : L K V) (c : Choice K V) (g' : G K V) (l' : L K V)
    (h : HC l) (hs : tstep p t g l c = some (g', l')) : HC l' := by
  obtain ⟨hw, hc⟩ := h
  refine ⟨wf_step p t g l c g' l' hw hs, ?_⟩
  have hpop := popCont_hc l hw
  have hS := fun l op => startOp_hc (K := K) (V := V) l op
  have hcs := hw.cshape
  cases hpc : l.pc <;> simp only [tstep, hpc] at hs <;> (repeat' split at hs) <;>
    simp only [Option.some.injEq, reduceCtorEq, Prod.mk.injEq] at hs <;> obtain ⟨-, rfl⟩ := hs <;>
    simp_all [contsOK, inRz, inWf, callResize, callWait]

theorem hc_reach (s : St K V) (h : Reach p s) (u : Tid) : HC (s.l u) := by
  refine local_reach p HC ⟨wf_init, ?_⟩ (hc_step p) s h u
  intro _ h; simp [L.init, inRz] at h

/-- a `doCompute` call never executes the publish step of a `Clear` -/
theorem dc_not_clear (s : St K V) (h : Reach p s) (u : Tid) (hop : isDcOp (s.l u).op = true)
    (hpc : (s.l u).pc = .rzPublish) : (s.l u).hint ≠ .clear := by
  intro hh
  obtain ⟨hw, hc⟩ := hc_reach p s h u
  have := hw.cl (hc hh (Or.inl (by rw [hpc]; rfl)))
  rw [hop] at this; cases this

/-! ## part: the phases of a `doCompute` call -/

def srchPc : Pc → Bool
  | .dcFast | .ldRead | .dcLoadTable | .dcLock | .dcChkResizing | .dcChkTable | .dcUnlockWait | .dcUnlockRetry
  | .dcUnlockGrow => true
  | _ => false

/-- the call has not passed its checks in the current attempt (and is not done) -/
def Srch (l : L K V) : Prop :=
  srchPc l.pc = true ∨ ((inRz l.pc = true ∨ inWf l.pc = true) ∧ .dcRetry ∈ l.conts)

theorem srch_not_past2 (l : L K V) (h : Srch l) : past2 l.pc = false := by
  rcases h with h | ⟨h | h, -⟩ <;> revert h <;> cases l.pc <;> simp [srchPc, past2, inRz, inWf]

theorem fixed_not_past2 (l : L K V) (hw : WF l) (h : fixedPc l ∨ l.pc = .ret) : past2 l.pc = false := by
  have hc := hw.cshape
  rcases h with (h | h | h | h) | h
  · rw [h]; rfl
  · rw [h]; rfl
  · rw [h]; rfl
  · cases hpc : l.pc <;> simp_all [past2, contsOK, inRz, inWf]
  · rw [h]; rfl

theorem srch_popCont (l : L K V) (hw : WF l) (h : inRz l.pc = true ∨ inWf l.pc = true) (hd : .dcRetry ∈ l.conts) :
    Srch (popCont l) := by
  by_cases hh : l.hint = .clear <;> rcases conts_cases l hw h with hc | hc | hc | hc | hc | hc <;>
    simp [popCont, popCont.popContAux, hc, hh, Srch, srchPc, inRz, inWf] at hd ⊢

/-- the steps of a thread in the search phase -/
theorem srch_step (t : Tid) (g : G K V) (l : L K V) (c : Choice K V) (g' : G K V) (l' : L K V)
    (hw : WF l) (hdc : isDcOp l.op = true) (h : Srch l) (hs : tstep p t g l c = some (g', l')) :
    l'.op = l.op ∧ (Srch l' ∨ past2 l'.pc = true ∨ (l.pc = .ldRead ∧ l'.pc = .ret)) := by
  have hc := hw.cshape
  have hpop := srch_popCont l hw
  have hpo := popCont_op l
  unfold Srch at h
  cases hpc : l.pc <;> simp only [tstep, hpc] at hs <;> (repeat' split at hs) <;>
    simp only [Option.some.injEq, reduceCtorEq, Prod.mk.injEq] at hs <;> obtain ⟨-, rfl⟩ := hs <;>
    simp_all [Srch, srchPc, past2, contsOK, inRz, inWf, callResize, callWait]

theorem srch_pcs (l : L K V) (h : Srch l) : l.pc ≠ .dcCommit ∧ l.pc ≠ .dcScan ∧ l.pc ≠ .ret := by
  rcases h with h | ⟨h | h, -⟩ <;> revert h <;> cases l.pc <;> simp [srchPc, inRz, inWf]

theorem fixed_pcs (l : L K V) (hw : WF l) (h : fixedPc l) : l.pc ≠ .dcCommit ∧ l.pc ≠ .dcScan := by
  have := fixed_not_past2 l hw (Or.inl h)
  revert this; cases l.pc <;> simp [past2]

/-- shape of the step at `dcSum` -/
theorem sum_step (t : Tid) (g : G K V) (l : L K V) (c : Choice K V) (g' : G K V) (l' : L K V)
    (hpc : l.pc = .dcSum) (hs : tstep p t g l c = some (g', l')) :
    g' = g ∧ l'.op = l.op ∧ l'.tbl = l.tbl ∧ l'.old = l.old ∧ l'.conts = l.conts ∧
      (l'.pc = .dcSum ∨ l'.pc = .dcFn ∨ l'.pc = .dcUnlockGrow) := by
  simp only [tstep, hpc] at hs
  (repeat' split at hs) <;> simp only [Option.some.injEq, Prod.mk.injEq] at hs <;>
    obtain ⟨rfl, rfl⟩ := hs <;> simp

/-! ## part: the entries of one thread -/

def isT (t : Tid) (x : LinE K V) : Bool := decide (x.tid = t)

theorem tl_helped (t : Tid) (e : Ev K V) (fut : List (Ev K V)) (us : List Tid) (hnd : us.Nodup) :
    (us.filterMap (helpedEntry e fut)).filter (isT t) = if t ∈ us then (helpedEntry e fut t).toList else [] := by
  induction us with
  | nil => simp
  | cons u us ih =>
    rw [List.nodup_cons] at hnd
    have ih := ih hnd.2
    simp only [List.filterMap_cons]
    cases hx : helpedEntry e fut u with
    | none =>
      simp only [ih, List.mem_cons]
      by_cases htu : t = u
      · subst htu; simp [hnd.1, hx]
      · simp [htu]
    | some x =>
      have hxt := helpedEntry_tid e fut u x hx
      simp only [List.filter_cons, isT, hxt, ih, List.mem_cons]
      by_cases htu : u = t
      · subst htu; simp [hnd.1, hx]
      · simp [htu, Ne.symm htu]

theorem linOf_nil_of (ts : List Tid) (e : Ev K V) (fut : List (Ev K V))
    (h1 : (e.pre.l e.tid).pc ≠ .dcCommit) (h2 : (e.pre.l e.tid).pc ≠ .dcScan)
    (h3 : (e.pre.l e.tid).pc = .rzPublish → (e.pre.l e.tid).hint ≠ .clear) : linOf ts e fut = [] := by
  unfold linOf
  dsimp only
  split
  · rename_i h _; exact absurd h h1
  · rename_i h _; exact absurd h h2
  · rename_i h; rw [if_neg (h3 h)]
  · rfl

/-- the entries of `t` contributed by a step of another thread: only a `Clear` publish contributes one, the helped
entry of `t` -/
theorem tl_linOf_other (ts : List Tid) (t : Tid) (e : Ev K V) (fut : List (Ev K V)) (hx : e.tid ≠ t) :
    (linOf ts e fut).filter (isT t) =
      if (e.pre.l e.tid).pc = .rzPublish ∧ (e.pre.l e.tid).hint = .clear ∧ t ∈ ts then (helpedEntry e fut t).toList
      else [] := by
  unfold linOf
  dsimp only
  split
  · rename_i h _
    have hr : ¬ ((e.pre.l e.tid).pc = .rzPublish ∧ (e.pre.l e.tid).hint = .clear ∧ t ∈ ts) := by rw [h]; simp
    rw [if_neg hr]
    split <;> simp [isT, hx]
  · rename_i h _
    have hr : ¬ ((e.pre.l e.tid).pc = .rzPublish ∧ (e.pre.l e.tid).hint = .clear ∧ t ∈ ts) := by rw [h]; simp
    rw [if_neg hr]
    split <;> simp [isT, hx]
  · rename_i h
    by_cases hh : (e.pre.l e.tid).hint = .clear
    · rw [if_pos hh, List.filter_append, tl_helped t e fut _ (nodup_eraseDups _)]
      simp [isT, hx, h, hh, List.mem_eraseDups]
    · simp [hh]
  · rename_i h3 h1 h2
    have hr : ¬ ((e.pre.l e.tid).pc = .rzPublish ∧ (e.pre.l e.tid).hint = .clear ∧ t ∈ ts) := fun h => h3 h.1
    rw [if_neg hr]
    rfl

theorem helpedEntry_none_of (e : Ev K V) (fut : List (Ev K V)) (u : Tid)
    (h : past2 (e.pre.l u).pc = false ∨ (e.pre.l u).tbl ≠ e.pre.g.cur ∨ willCommit u fut = false) :
    helpedEntry e fut u = none := by
  unfold helpedEntry
  split
  · rw [if_neg]
    rintro ⟨h1, h2, h3⟩
    rcases h with h | h | h
    · rw [h1] at h; cases h
    · exact h h2
    · rw [h3] at h; cases h
  · rfl

theorem willCommit_other (u : Tid) (e : Ev K V) (rest : List (Ev K V)) (h : e.tid ≠ u) :
    willCommit u (e :: rest) = willCommit u rest := by
  simp [willCommit, h]

theorem willCommit_mem (u : Tid) (R : List (Ev K V)) (h : willCommit u R = true) : ∃ e ∈ R, e.tid = u := by
  induction R with
  | nil => simp [willCommit] at h
  | cons e rest ih =>
    by_cases he : e.tid = u
    · exact ⟨e, by simp, he⟩
    · rw [willCommit_other u e rest he] at h
      obtain ⟨e', h1, h2⟩ := ih h
      exact ⟨e', List.mem_cons_of_mem _ h1, h2⟩

theorem events_tid (sched : List (Tid × Choice K V)) (s : St K V) :
    ∀ e ∈ events p s sched, ∃ x ∈ sched, x.1 = e.tid := by
  induction sched generalizing s with
  | nil => intro e he; simp [events] at he
  | cons a rest ih =>
    obtain ⟨t, c⟩ := a
    intro e he
    simp only [events] at he
    split at he
    · rename_i s1 heq
      rcases List.mem_cons.mp he with rfl | he
      · exact ⟨(t, c), by simp, rfl⟩
      · obtain ⟨x, hx, h⟩ := ih s1 e he
        exact ⟨x, List.mem_cons_of_mem _ hx, h⟩
    · simp at he

/-! ## part: `writer_once` — the entries of one writing call, phase by phase -/

/-- the entries of `t` among the contributions of the steps `H` (the run continues with `R`) -/
def TL (ts : List Tid) (t : Tid) (H R : List (Ev K V)) : List (LinE K V) :=
  ((contribF ts H R).flatten).filter (isT t)

theorem TL_snoc (ts : List Tid) (t : Tid) (H : List (Ev K V)) (ev : Ev K V) (R : List (Ev K V)) :
    TL ts t (H ++ [ev]) R = TL ts t H (ev :: R) ++ (linOf ts ev R).filter (isT t) := by
  unfold TL; rw [contribF_snoc, List.filter_append]

/-- the result entry of a `doCompute k f lie co` call on the binding `d` -/
def entryOf (t : Tid) (k : K) (f : Option V → V × Bool) (lie co : Bool) (d : Option V) : LinE K V :=
  ⟨t, .dc k f lie co, .val (specDc f lie co d).2.1 (specDc f lie co d).2.2⟩

/-- the phases of the call `doCompute k f lie co` of thread `t`, with the entries of `t` contributed so far -/
def WPh (ts : List Tid) (t : Tid) (k : K) (f : Option V → V × Bool) (lie co : Bool)
    (Q : List (Ev K V) → List (Ev K V) → V → Prop) (H R : List (Ev K V)) (s : St K V) : Prop :=
  (Srch (s.l t) ∧ TL ts t H R = []) ∨
  (past2 (s.l t).pc = true ∧ (s.l t).tbl = s.g.cur ∧ TL ts t H R = []) ∨
  (past2 (s.l t).pc = true ∧ (s.l t).tbl ≠ s.g.cur ∧
    (willCommit t R = true → TL ts t H R = [entryOf t k f lie co ((s.g.tables (s.l t).tbl).data.get k)]) ∧
    (willCommit t R = false → TL ts t H R = [])) ∨
  ((fixedPc (s.l t) ∨ (s.l t).pc = .ret) ∧
    ((∃ r, (s.l t).result = some r ∧ TL ts t H R = [⟨t, .dc k f lie co, r⟩]) ∨
     (TL ts t H R = [] ∧ lie = true ∧ ∃ x, (s.l t).result = some (.val (some x) (!co)) ∧ Q H R x)))

def WInv2 (ts : List Tid) (t : Tid) (k : K) (f : Option V → V × Bool) (lie co : Bool)
    (Q : List (Ev K V) → List (Ev K V) → V → Prop) (H R : List (Ev K V)) (s : St K V) : Prop :=
  (s.l t).op = some (.dc k f lie co) ∧ WPh ts t k f lie co Q H R s

theorem publish_step (t : Tid) (g : G K V) (l : L K V) (c : Choice K V) (g' : G K V) (l' : L K V)
    (hpc : l.pc = .rzPublish) (hs : tstep p t g l c = some (g', l')) : g'.cur = l.newT ∧ g'.tables = g.tables := by
  simp only [tstep, hpc, Option.some.injEq, Prod.mk.injEq] at hs
  obtain ⟨rfl, -⟩ := hs
  exact ⟨rfl, rfl⟩

theorem winv2_other (hmin : 0 < p.minLen) (ts : List Tid) (t : Tid) (k : K) (f : Option V → V × Bool) (lie co : Bool)
    (Q : List (Ev K V) → List (Ev K V) → V → Prop) (H R' : List (Ev K V)) (s s' : St K V) (x : Tid) (c : Choice K V) (hreach : Reach p s)
    (hs : step p s x c = some s') (hx : x ≠ t) (htsR : ∀ e ∈ R', e.tid ∈ ts)
    (hQ : ∀ y, Q H (⟨s, x, c, s'⟩ :: R') y → Q (H ++ [⟨s, x, c, s'⟩]) R' y)
    (hJ : WInv2 ts t k f lie co Q H (⟨s, x, c, s'⟩ :: R') s) :
    WInv2 ts t k f lie co Q (H ++ [⟨s, x, c, s'⟩]) R' s' := by
  obtain ⟨hts, hoth⟩ := step_def p s s' x c hs
  have hl : s'.l t = s.l t := hoth t (Ne.symm hx)
  obtain ⟨hop, hph⟩ := hJ
  have hwf := ((inv_reach p s hreach).2 t).wf
  have hd := dinv_reach p hmin s hreach
  refine ⟨by rw [hl]; exact hop, ?_⟩
  have hTL := TL_snoc ts t H ⟨s, x, c, s'⟩ R'
  rw [tl_linOf_other ts t _ R' hx] at hTL
  dsimp only at hTL
  unfold WPh
  rw [hl, hTL]
  rcases hph with ⟨h1, h2⟩ | ⟨h1, h2, h3⟩ | ⟨h1, h2, h3, h4⟩ | ⟨h1, h2⟩
  · left
    rw [helpedEntry_none_of _ R' t (Or.inl (srch_not_past2 _ h1))]
    simp [h1, h2]
  · by_cases hpub : (s.l x).pc = .rzPublish ∧ (s.l x).hint = .clear
    · right; right; left
      obtain ⟨hc1, hc2⟩ := publish_step p x s.g (s.l x) c _ _ hpub.1 hts
      have hgt := (hd.ld x).newGt (by rw [hpub.1]; rfl)
      have hne : (s.l t).tbl ≠ s'.g.cur := by rw [hc1, h2]; omega
      refine ⟨h1, hne, fun hw => ?_, fun hw => ?_⟩
      · obtain ⟨e, he, het⟩ := willCommit_mem t R' hw
        have htm : t ∈ ts := by rw [← het]; exact htsR e he
        rw [if_pos ⟨hpub.1, hpub.2, htm⟩, h3, helpedEntry_of ⟨s, x, c, s'⟩ R' t k f lie co hop h1 h2 hw, hc2]
        simp [entryOf, absGet, h2]
      · rw [helpedEntry_none_of _ R' t (Or.inr (Or.inr hw)), h3]; simp
    · right; left
      have hc : s'.g.cur = s.g.cur := by
        rcases cur_step p x s.g (s.l x) c _ _ hts with e | ⟨e, -⟩
        · exact e
        · have hh : (s.l x).hint ≠ .clear := fun hh => hpub ⟨e, hh⟩
          exact absurd h2 (no_writer_past_checks_at_resize_publish p hmin s hreach x t e hh (past2_pastChk _ h1)).2
      refine ⟨h1, by rw [hc]; exact h2, ?_⟩
      rw [if_neg (fun h => hpub ⟨h.1, h.2.1⟩), h3]; rfl
  · right; right; left
    have hle := (hd.ld t).tblLe
    have hcle := cur_le_step p hmin s hreach x c _ _ hts
    have hstab := locked_key_stable p hmin s hreach x t hx c _ _ hts (past2_pastChk _ h1) k (by simp [opKey, hop])
    rw [helpedEntry_none_of _ R' t (Or.inr (Or.inl h2)), hstab]
    rw [willCommit_other t _ R' hx] at h3 h4
    refine ⟨h1, by omega, fun hw => ?_, fun hw => ?_⟩
    · rw [h3 hw]; simp
    · rw [h4 hw]; simp
  · right; right; right
    rw [helpedEntry_none_of _ R' t (Or.inl (fixed_not_past2 _ hwf h1))]
    refine ⟨h1, ?_⟩
    rcases h2 with ⟨r, h3, h4⟩ | ⟨h3, h4, y, h5, h6⟩
    · left; exact ⟨r, h3, by rw [h4]; simp⟩
    · right; exact ⟨by rw [h3]; simp, h4, y, h5, hQ y h6⟩

theorem linOf_commit (ts : List Tid) (e : Ev K V) (fut : List (Ev K V)) (k : K) (f : Option V → V × Bool)
    (lie co : Bool) (hpc : (e.pre.l e.tid).pc = .dcCommit) (hop : (e.pre.l e.tid).op = some (.dc k f lie co)) :
    linOf ts e fut =
      if (e.pre.l e.tid).tbl = e.pre.g.cur then [⟨e.tid, .dc k f lie co, ((e.post.l e.tid).result).getD .unit⟩]
      else [] := by
  unfold linOf; simp only [hpc, hop]

theorem linOf_scan (ts : List Tid) (e : Ev K V) (fut : List (Ev K V)) (k : K) (f : Option V → V × Bool)
    (lie co : Bool) (hpc : (e.pre.l e.tid).pc = .dcScan) (hop : (e.pre.l e.tid).op = some (.dc k f lie co)) :
    linOf ts e fut =
      if (e.pre.l e.tid).tbl = e.pre.g.cur ∧ (e.post.l e.tid).pc = .dcUnlock then
        [⟨e.tid, .dc k f lie co, ((e.post.l e.tid).result).getD .unit⟩]
      else [] := by
  unfold linOf; simp only [hpc, hop]

theorem willCommit_commit (u : Tid) (e : Ev K V) (rest : List (Ev K V)) (h : e.tid = u)
    (hpc : (e.pre.l u).pc = .dcCommit) : willCommit u (e :: rest) = true := by
  simp [willCommit, h, hpc]

theorem willCommit_scan (u : Tid) (e : Ev K V) (rest : List (Ev K V)) (h : e.tid = u)
    (hpc : (e.pre.l u).pc = .dcScan) :
    willCommit u (e :: rest) = if (e.post.l u).pc = .dcUnlock then true else willCommit u rest := by
  simp [willCommit, h, hpc]

theorem willCommit_sum (u : Tid) (e : Ev K V) (rest : List (Ev K V)) (h : e.tid = u)
    (hpc : (e.pre.l u).pc = .dcSum) :
    willCommit u (e :: rest) = if (e.post.l u).pc = .dcUnlockGrow then false else willCommit u rest := by
  simp [willCommit, h, hpc]

theorem willCommit_fn (u : Tid) (e : Ev K V) (rest : List (Ev K V)) (h : e.tid = u)
    (hpc : (e.pre.l u).pc = .dcFn) : willCommit u (e :: rest) = willCommit u rest := by
  simp [willCommit, h, hpc]

theorem past2_cases (pc : Pc) (h : past2 pc = true) : pc = .dcScan ∨ pc = .dcSum ∨ pc = .dcFn ∨ pc = .dcCommit := by
  revert h; cases pc <;> simp [past2]

/-- own step in the search phase -/
theorem winv2_self_srch (hmin : 0 < p.minLen) (ts : List Tid) (t : Tid) (k : K) (f : Option V → V × Bool) (lie co : Bool)
    (Q : List (Ev K V) → List (Ev K V) → V → Prop) (H R' : List (Ev K V)) (s s' : St K V) (c : Choice K V) (hreach : Reach p s)
    (hs : step p s t c = some s') (hop : (s.l t).op = some (.dc k f lie co))
    (h1 : Srch (s.l t)) (h2 : TL ts t H (⟨s, t, c, s'⟩ :: R') = [])
    (hQ : (s.l t).pc = .ldRead → ∀ y, (s.g.tables (s.l t).tbl).data.get k = some y → Q (H ++ [⟨s, t, c, s'⟩]) R' y) :
    WInv2 ts t k f lie co Q (H ++ [⟨s, t, c, s'⟩]) R' s' := by
  obtain ⟨hts, -⟩ := step_def p s s' t c hs
  have hwf := ((inv_reach p s hreach).2 t).wf
  have hdc : isDcOp (s.l t).op = true := by rw [hop]; rfl
  obtain ⟨e1, e2⟩ := srch_step p t s.g (s.l t) c _ _ hwf hdc h1 hts
  have hpcs := srch_pcs _ h1
  have hTL := TL_snoc ts t H ⟨s, t, c, s'⟩ R'
  rw [linOf_nil_of ts _ R' hpcs.1 hpcs.2.1 (dc_not_clear p s hreach t hdc), h2] at hTL
  refine ⟨by rw [e1]; exact hop, ?_⟩
  unfold WPh
  rw [hTL]
  rcases e2 with e2 | e2 | ⟨e2, e3⟩
  · left; exact ⟨e2, rfl⟩
  · right; left
    obtain ⟨f1, -, -, f4, hcase⟩ := past2_step p t s.g (s.l t) c _ _ hts e2
    rcases hcase with ⟨f5, -⟩ | ⟨-, f5⟩
    · rw [srch_not_past2 _ h1] at f5; cases f5
    · exact ⟨e2, by rw [f1, f4, f5], rfl⟩
  · right; right; right
    obtain ⟨hl, -, x, hx, hr, -⟩ := fastpath_hit p s hreach t k f lie co hop e2 c _ _ hts e3
    exact ⟨Or.inr e3, Or.inr ⟨rfl, hl, x, hr, hQ e2 x hx⟩⟩

/-- own step after the linearization point -/
theorem winv2_self_fixed (hmin : 0 < p.minLen) (ts : List Tid) (t : Tid) (k : K) (f : Option V → V × Bool) (lie co : Bool)
    (Q : List (Ev K V) → List (Ev K V) → V → Prop) (H R' : List (Ev K V)) (s s' : St K V) (c : Choice K V) (hreach : Reach p s)
    (hs : step p s t c = some s') (hop : (s.l t).op = some (.dc k f lie co))
    (h1 : fixedPc (s.l t))
    (h2 : (∃ r, (s.l t).result = some r ∧ TL ts t H (⟨s, t, c, s'⟩ :: R') = [⟨t, .dc k f lie co, r⟩]) ∨
     (TL ts t H (⟨s, t, c, s'⟩ :: R') = [] ∧ lie = true ∧
        ∃ x, (s.l t).result = some (.val (some x) (!co)) ∧ Q H (⟨s, t, c, s'⟩ :: R') x))
    (hQ : ∀ y, Q H (⟨s, t, c, s'⟩ :: R') y → Q (H ++ [⟨s, t, c, s'⟩]) R' y) :
    WInv2 ts t k f lie co Q (H ++ [⟨s, t, c, s'⟩]) R' s' := by
  obtain ⟨hts, -⟩ := step_def p s s' t c hs
  have hwf := ((inv_reach p s hreach).2 t).wf
  have hdc : isDcOp (s.l t).op = true := by rw [hop]; rfl
  obtain ⟨e1, e2, e3⟩ := fixed_step p t s.g (s.l t) c _ _ hwf h1 hts
  have hpcs := fixed_pcs _ hwf h1
  have hTL := TL_snoc ts t H ⟨s, t, c, s'⟩ R'
  rw [linOf_nil_of ts _ R' hpcs.1 hpcs.2 (dc_not_clear p s hreach t hdc), List.filter_nil, List.append_nil] at hTL
  refine ⟨by rw [e2]; exact hop, ?_⟩
  unfold WPh
  rw [hTL, e1]
  right; right; right
  refine ⟨e3, ?_⟩
  rcases h2 with h2 | ⟨h3, h4, y, h5, h6⟩
  · exact Or.inl h2
  · exact Or.inr ⟨h3, h4, y, h5, hQ y h6⟩

/-- the two sub-phases of a writer past its checks: on the current table (not yet in the log), or on a table retired
by a `Clear` (in the log, immediately before that `Clear`, iff it goes on to take effect on that table) -/
def PastPh (ts : List Tid) (t : Tid) (k : K) (f : Option V → V × Bool) (lie co : Bool) (H R : List (Ev K V))
    (s : St K V) : Prop :=
  ((s.l t).tbl = s.g.cur ∧ TL ts t H R = []) ∨
  ((s.l t).tbl ≠ s.g.cur ∧
    (willCommit t R = true → TL ts t H R = [entryOf t k f lie co ((s.g.tables (s.l t).tbl).data.get k)]) ∧
    (willCommit t R = false → TL ts t H R = []))

theorem wph_of_past (ts : List Tid) (t : Tid) (k : K) (f : Option V → V × Bool) (lie co : Bool)
    (Q : List (Ev K V) → List (Ev K V) → V → Prop) (H R : List (Ev K V))
    (s : St K V) (h1 : past2 (s.l t).pc = true) (h : PastPh ts t k f lie co H R s) : WPh ts t k f lie co Q H R s := by
  rcases h with ⟨a, b⟩ | ⟨a, b, c⟩
  · exact Or.inr (Or.inl ⟨h1, a, b⟩)
  · exact Or.inr (Or.inr (Or.inl ⟨h1, a, b, c⟩))

/-- an own step past the checks that neither takes effect nor gives up -/
theorem winv2_stay (ts : List Tid) (t : Tid) (k : K) (f : Option V → V × Bool) (lie co : Bool)
    (H R' : List (Ev K V)) (s s' : St K V) (c : Choice K V)
    (hg : s'.g = s.g) (htbl : (s'.l t).tbl = (s.l t).tbl)
    (hlin : linOf ts ⟨s, t, c, s'⟩ R' = [])
    (hwc : willCommit t (⟨s, t, c, s'⟩ :: R') = willCommit t R')
    (hBC : PastPh ts t k f lie co H (⟨s, t, c, s'⟩ :: R') s) :
    PastPh ts t k f lie co (H ++ [⟨s, t, c, s'⟩]) R' s' := by
  have hTL := TL_snoc ts t H ⟨s, t, c, s'⟩ R'
  rw [hlin, List.filter_nil, List.append_nil] at hTL
  unfold PastPh at hBC ⊢
  rw [hTL, hg, htbl, ← hwc]
  exact hBC

/-- own step past the checks -/
theorem winv2_self_past (hmin : 0 < p.minLen) (ts : List Tid) (t : Tid) (k : K) (f : Option V → V × Bool) (lie co : Bool)
    (Q : List (Ev K V) → List (Ev K V) → V → Prop) (H R' : List (Ev K V)) (s s' : St K V) (c : Choice K V) (hreach : Reach p s)
    (hs : step p s t c = some s') (hop : (s.l t).op = some (.dc k f lie co))
    (h1 : past2 (s.l t).pc = true) (hBC : PastPh ts t k f lie co H (⟨s, t, c, s'⟩ :: R') s) :
    WInv2 ts t k f lie co Q (H ++ [⟨s, t, c, s'⟩]) R' s' := by
  obtain ⟨hts, -⟩ := step_def p s s' t c hs
  have hwf := ((inv_reach p s hreach).2 t).wf
  have hdc : isDcOp (s.l t).op = true := by rw [hop]; rfl
  have hTL := TL_snoc ts t H ⟨s, t, c, s'⟩ R'
  rcases past2_cases _ h1 with hpc | hpc | hpc | hpc
  · -- scan
    obtain ⟨g1, g2, g3, -, hcase⟩ := scan_step p t s.g (s.l t) c _ _ k f lie co hop hpc hts
    have hlin := linOf_scan ts ⟨s, t, c, s'⟩ R' k f lie co hpc hop
    have hwc := willCommit_scan t ⟨s, t, c, s'⟩ R' rfl hpc
    dsimp only at hlin hwc
    refine ⟨by rw [g2]; exact hop, ?_⟩
    rcases hcase with ⟨hu, hl, x, hx, hr⟩ | ⟨hf, -, -⟩ | ⟨hf, -, -⟩
    · right; right; right
      refine ⟨Or.inl (Or.inl hu), Or.inl ⟨_, hr, ?_⟩⟩
      rw [hTL, hlin]
      rcases hBC with ⟨b1, b2⟩ | ⟨c1, c2, -⟩
      · rw [if_pos ⟨b1, hu⟩, b2, hr]; simp [isT]
      · rw [if_neg (fun h => c1 h.1), c2 (by rw [hwc, if_pos hu]), hx, hl]
        simp [entryOf, specDc]
    · refine wph_of_past ts t k f lie co Q _ _ s' (by rw [hf]; rfl) ?_
      refine winv2_stay ts t k f lie co H R' s s' c g1 g3 ?_ ?_ hBC
      · rw [hlin, if_neg]; rw [hf]; simp
      · rw [hwc, if_neg]; rw [hf]; simp
    · refine wph_of_past ts t k f lie co Q _ _ s' (by rw [hf]; rfl) ?_
      refine winv2_stay ts t k f lie co H R' s s' c g1 g3 ?_ ?_ hBC
      · rw [hlin, if_neg]; rw [hf]; simp
      · rw [hwc, if_neg]; rw [hf]; simp
  · -- sum
    obtain ⟨g1, g2, g3, -, -, hcase⟩ := sum_step p t s.g (s.l t) c _ _ hpc hts
    have hlin : linOf ts ⟨s, t, c, s'⟩ R' = [] :=
      linOf_nil_of ts _ R' (by dsimp only; rw [hpc]; simp) (by dsimp only; rw [hpc]; simp)
        (by dsimp only; rw [hpc]; simp)
    have hwc := willCommit_sum t ⟨s, t, c, s'⟩ R' rfl hpc
    dsimp only at hwc
    refine ⟨by rw [g2]; exact hop, ?_⟩
    rcases hcase with hf | hf | hf
    · refine wph_of_past ts t k f lie co Q _ _ s' (by rw [hf]; rfl) ?_
      refine winv2_stay ts t k f lie co H R' s s' c g1 g3 hlin ?_ hBC
      rw [hwc, if_neg]; rw [hf]; simp
    · refine wph_of_past ts t k f lie co Q _ _ s' (by rw [hf]; rfl) ?_
      refine winv2_stay ts t k f lie co H R' s s' c g1 g3 hlin ?_ hBC
      rw [hwc, if_neg]; rw [hf]; simp
    · left
      refine ⟨Or.inl (by rw [hf]; rfl), ?_⟩
      rw [hTL, hlin]
      rcases hBC with ⟨-, b2⟩ | ⟨-, -, c3⟩
      · rw [b2]; rfl
      · rw [c3 (by rw [hwc, if_pos hf])]; rfl
  · -- fn
    obtain ⟨g1, g2, -, g3, g4, -⟩ := fn_step p t s.g (s.l t) c _ _ hpc hts
    have hlin : linOf ts ⟨s, t, c, s'⟩ R' = [] :=
      linOf_nil_of ts _ R' (by dsimp only; rw [hpc]; simp) (by dsimp only; rw [hpc]; simp)
        (by dsimp only; rw [hpc]; simp)
    refine ⟨by rw [g4]; exact hop, ?_⟩
    refine wph_of_past ts t k f lie co Q _ _ s' (by rw [g2]; rfl) ?_
    exact winv2_stay ts t k f lie co H R' s s' c g1 g3 hlin (willCommit_fn t _ R' rfl hpc) hBC
  · -- commit
    obtain ⟨f1, f2, f3⟩ := commit_facts p hmin s hreach t k f lie co hop hpc
    obtain ⟨-, e2, e3, e4, -, -⟩ := commit_step_spec p t s.g (s.l t) c _ _ k f lie co hop hpc f1 f2 f3 hts
    have hlin := linOf_commit ts ⟨s, t, c, s'⟩ R' k f lie co hpc hop
    have hwc := willCommit_commit t ⟨s, t, c, s'⟩ R' rfl hpc
    dsimp only at hlin
    refine ⟨by rw [e4]; exact hop, ?_⟩
    right; right; right
    refine ⟨Or.inl (Or.inl e3), Or.inl ⟨_, e2, ?_⟩⟩
    rw [hTL, hlin]
    rcases hBC with ⟨b1, b2⟩ | ⟨c1, c2, -⟩
    · rw [if_pos b1, b2, e2]; simp [isT]
    · rw [if_neg c1, c2 hwc, ← f2]
      simp [entryOf]

theorem winv2_step (hmin : 0 < p.minLen) (ts : List Tid) (t : Tid) (k : K) (f : Option V → V × Bool) (lie co : Bool)
    (Q : List (Ev K V) → List (Ev K V) → V → Prop) (H R' : List (Ev K V)) (s s' : St K V) (x : Tid) (c : Choice K V) (hreach : Reach p s)
    (hs : step p s x c = some s') (htsR : ∀ e ∈ R', e.tid ∈ ts) (hnr : x = t → (s.l t).pc ≠ .ret)
    (hQ : ∀ y, Q H (⟨s, x, c, s'⟩ :: R') y → Q (H ++ [⟨s, x, c, s'⟩]) R' y)
    (hQn : x = t → (s.l t).pc = .ldRead → ∀ y, (s.g.tables (s.l t).tbl).data.get k = some y →
      Q (H ++ [⟨s, x, c, s'⟩]) R' y)
    (hJ : WInv2 ts t k f lie co Q H (⟨s, x, c, s'⟩ :: R') s) :
    WInv2 ts t k f lie co Q (H ++ [⟨s, x, c, s'⟩]) R' s' := by
  by_cases hx : x = t
  · subst hx
    obtain ⟨hop, hph⟩ := hJ
    rcases hph with ⟨h1, h2⟩ | ⟨h1, h2, h3⟩ | ⟨h1, h2, h3, h4⟩ | ⟨h1, h2⟩
    · exact winv2_self_srch p hmin ts x k f lie co Q H R' s s' c hreach hs hop h1 h2 (hQn rfl)
    · exact winv2_self_past p hmin ts x k f lie co Q H R' s s' c hreach hs hop h1 (Or.inl ⟨h2, h3⟩)
    · exact winv2_self_past p hmin ts x k f lie co Q H R' s s' c hreach hs hop h1 (Or.inr ⟨h2, h3, h4⟩)
    · rcases h1 with h1 | h1
      · exact winv2_self_fixed p hmin ts x k f lie co Q H R' s s' c hreach hs hop h1 h2 hQ
      · exact absurd h1 (hnr rfl)
  · exact winv2_other p hmin ts t k f lie co Q H R' s s' x c hreach hs hx htsR hQ hJ

theorem filter_singleton_split {α : Type} (q : α → Bool) (l : List α) (x : α) (h : l.filter q = [x]) :
    ∃ before after, l = before ++ [x] ++ after ∧ ∀ y ∈ before ++ after, q y = false := by
  induction l with
  | nil => simp at h
  | cons a l ih =>
    by_cases hq : q a = true
    · rw [List.filter_cons_of_pos hq] at h
      simp only [List.cons.injEq] at h
      obtain ⟨rfl, h⟩ := h
      refine ⟨[], l, rfl, ?_⟩
      intro y hy
      rw [List.filter_eq_nil_iff] at h
      simpa using h y (by simpa using hy)
    · rw [List.filter_cons_of_neg hq] at h
      obtain ⟨b, a', e, hall⟩ := ih h
      refine ⟨a :: b, a', by rw [e]; simp, ?_⟩
      intro y hy
      simp only [List.cons_append, List.mem_cons] at hy
      rcases hy with rfl | hy
      · simpa using hq
      · exact hall y hy

/-- the contributions of the three parts of a run -/
theorem contrib_split (ts : List Tid) (A B C : List (Ev K V)) (n m : Nat) (hn : A.length = n) (hm : B.length = m) :
    (contrib ts (A ++ B ++ C)).take n = contribF ts A (B ++ C) ∧
    ((contrib ts (A ++ B ++ C)).drop n).take m = contribF ts B C := by
  rw [contrib_eq, contribF_append, contribF_append, List.append_nil, List.append_assoc]
  have h1 : (contribF ts A (B ++ C)).length = n := by rw [contribF_length, hn]
  have h2 : (contribF ts B C).length = m := by rw [contribF_length, hm]
  rw [List.take_left' h1, List.drop_left' h1, List.take_left' h2]
  exact ⟨rfl, rfl⟩

/-- the events of a run in three parts -/
theorem events_three (pre mid post : List (Tid × Choice K V)) (s s0 s1 : St K V)
    (h0 : run p s pre = some s0) (h1 : run p s0 mid = some s1) :
    events p s (pre ++ mid ++ post) = events p s pre ++ events p s0 mid ++ events p s1 post := by
  have h01 : run p s (pre ++ mid) = some s1 := by rw [run_append p pre mid s s0 h0]; exact h1
  rw [events_append p (pre ++ mid) post s s1 h01, events_append p pre mid s s0 h0]

/-- **every completed writing call is in the log exactly once, inside its interval, with its result**.
The run is `pre ++ mid ++ post`: `pre` leads to the state `s0` right after the call started, `mid` to its return
point `s'`, thread `t` does not return in between (it is the same call), `post` is any continuation.  Among the
entries contributed by the steps of `mid`, exactly one belongs to `t`, and it is this call with the result it
returns; or the call is a lock-free fast-path hit and contributes nothing (it is a read: `fastpath_point`). -/
theorem writer_once (hmin : 0 < p.minLen) (ts : List Tid) (pre mid post : List (Tid × Choice K V)) (s0 s' s'' : St K V)
    (h0 : run p (init p) pre = some s0) (h1 : run p s0 mid = some s') (h2 : run p s' post = some s'')
    (hts : ∀ x ∈ pre ++ mid ++ post, x.1 ∈ ts) (t : Tid)
    (k : K) (f : Option V → V × Bool) (lie co : Bool) (a : Option V) (b : Bool)
    (hstart : (s0.l t).pc = .dcFast ∨ (s0.l t).pc = .dcLoadTable)
    (hn : NoRet t (events p s0 mid))
    (hop : (s'.l t).op = some (.dc k f lie co)) (hret : (s'.l t).pc = .ret)
    (hres : (s'.l t).result = some (.val a b)) :
    let C := contrib ts (events p (init p) (pre ++ mid ++ post))
    let inside := ((C.drop pre.length).take mid.length).flatten
    (∃ before after, inside = before ++ [⟨t, .dc k f lie co, .val a b⟩] ++ after ∧
        (∀ x ∈ before ++ after, x.tid ≠ t)) ∨
    (lie = true ∧ (∀ x ∈ inside, x.tid ≠ t) ∧ ∃ x, a = some x ∧ b = (!co)) := by
  intro C inside
  have hreach : Reach p s0 := ⟨pre, h0⟩
  have hev := events_three p pre mid post (init p) s0 s' h0 h1
  have hins : inside = (contribF ts (events p s0 mid) (events p s' post)).flatten := by
    show (((contrib ts (events p (init p) (pre ++ mid ++ post))).drop pre.length).take mid.length).flatten = _
    rw [hev, (contrib_split ts _ _ _ pre.length mid.length (events_length p pre _ _ h0) (events_length p mid _ _ h1)).2]
  have htsE : ∀ e ∈ events p s0 mid ++ events p s' post, e.tid ∈ ts := by
    intro e he
    have : e ∈ events p (init p) (pre ++ mid ++ post) := by
      rw [hev, List.append_assoc]; exact List.mem_append_right _ he
    obtain ⟨x, hx, hxe⟩ := events_tid p _ _ e this
    rw [← hxe]; exact hts x hx
  have hwf0 := ((inv_reach p s0 hreach).2 t).wf
  obtain ⟨k0, f0, lie0, co0, hop0⟩ := isDcOp_cases _ (hwf0.dcop (by rcases hstart with e | e <;> rw [e] <;> rfl))
  have key := hist_run p
    (fun H s => ∀ R, H ++ R = events p s0 mid ++ events p s' post → NoRet t H →
      WInv2 ts t k0 f0 lie0 co0 (fun _ _ _ => True) H R s)
    ?_ mid s0 s' [] hreach ?_ h1
  · have hW := key (events p s' post) (by simp) (by simpa using hn)
    simp only [List.nil_append] at hW
    obtain ⟨hopW, hph⟩ := hW
    rw [hop] at hopW
    simp only [Option.some.injEq, POp.dc.injEq] at hopW
    obtain ⟨rfl, rfl, rfl, rfl⟩ := hopW
    have hTL : TL ts t (events p s0 mid) (events p s' post) = inside.filter (isT t) := by rw [hins]; rfl
    rcases hph with ⟨h1, -⟩ | ⟨h1, -⟩ | ⟨h1, -⟩ | ⟨-, hD⟩
    · exact absurd hret (srch_pcs _ h1).2.2
    · rw [hret] at h1; cases h1
    · rw [hret] at h1; cases h1
    · rcases hD with ⟨r, hr, hl⟩ | ⟨hl, hlie, x, hr, -⟩
      · left
        rw [hres] at hr
        simp only [Option.some.injEq] at hr
        subst hr
        rw [hTL] at hl
        obtain ⟨before, after, e, hall⟩ := filter_singleton_split _ _ _ hl
        refine ⟨before, after, e, fun y hy => ?_⟩
        have := hall y hy
        simpa [isT] using this
      · right
        rw [hres] at hr
        simp only [Option.some.injEq, Ret.val.injEq] at hr
        rw [hTL, List.filter_eq_nil_iff] at hl
        refine ⟨hlie, fun y hy => ?_, x, hr.1, hr.2⟩
        have := hl y hy
        simpa [isT] using this
  · intro H s x c s2 hr hJ hs R hR hnr
    have hR' : H ++ (⟨s, x, c, s2⟩ :: R) = events p s0 mid ++ events p s' post := by rw [← hR]; simp
    have hnH : NoRet t H := fun e he => hnr e (List.mem_append_left _ he)
    refine winv2_step p hmin ts t k0 f0 lie0 co0 _ H R s s2 x c hr hs ?_ ?_ (fun _ _ => trivial)
      (fun _ _ _ _ => trivial) (hJ _ hR' hnH)
    · intro e he
      exact htsE e (by rw [← hR]; exact List.mem_append_right _ he)
    · intro hx; subst hx
      exact hnr ⟨s, x, c, s2⟩ (by simp) rfl
  · intro R _ _
    refine ⟨hop0, Or.inl ⟨Or.inl ?_, rfl⟩⟩
    rcases hstart with e | e <;> rw [e] <;> rfl

/-! ## part: hindsight against the log — the bindings of retired table generations are bindings of log prefixes -/

/-- `v` is the binding of `k` after some prefix of the entries contributed by the steps `H` (run continuing with
`R`), started from the abstract content of `s0` -/
def Pt (ts : List Tid) (s0 : St K V) (H R : List (Ev K V)) (k : K) (v : Option V) : Prop :=
  ∃ n, n ≤ (contribF ts H R).flatten.length ∧
    specFold (absGet s0.g) ((contribF ts H R).flatten.take n) k = v

theorem pt_mono (ts : List Tid) (s0 : St K V) (H : List (Ev K V)) (ev : Ev K V) (R : List (Ev K V)) (k : K)
    (v : Option V) (h : Pt ts s0 H (ev :: R) k v) : Pt ts s0 (H ++ [ev]) R k v := by
  obtain ⟨n, hn, h⟩ := h
  refine ⟨n, ?_, ?_⟩
  · rw [contribF_snoc, List.length_append]; omega
  · rw [contribF_snoc, List.take_append_of_le_length hn]; exact h

theorem pt_full (ts : List Tid) (s0 s : St K V) (H R : List (Ev K V)) (k : K)
    (h : specFold (absGet s0.g) (contribF ts H R).flatten = absGet s.g) : Pt ts s0 H R k (absGet s.g k) :=
  ⟨_, Nat.le_refl _, by rw [List.take_length, h]⟩

theorem linOf_publish_clear (ts : List Tid) (e : Ev K V) (fut : List (Ev K V))
    (hpc : (e.pre.l e.tid).pc = .rzPublish) (hh : (e.pre.l e.tid).hint = .clear) :
    linOf ts e fut = (ts.eraseDups.filterMap (helpedEntry e fut)) ++ [⟨e.tid, .clear, .unit⟩] := by
  unfold linOf; simp only [hpc, hh, if_true]

/-- at the publish step of a `Clear`, the prefix of the log that ends right after the entry of a helped writer `u`
(which goes on to take effect) binds the key of `u` to what `u` installs -/
theorem pt_helped (hmin : 0 < p.minLen) (ts : List Tid) (s0 s s' : St K V) (H R' : List (Ev K V)) (x : Tid) (c : Choice K V)
    (hreach : Reach p s) (hpc : (s.l x).pc = .rzPublish) (hh : (s.l x).hint = .clear)
    (hfull : specFold (absGet s0.g) (contribF ts H (⟨s, x, c, s'⟩ :: R')).flatten = absGet s.g)
    (u : Tid) (k : K) (f : Option V → V × Bool) (lie co : Bool) (hu : u ∈ ts)
    (hop : (s.l u).op = some (.dc k f lie co)) (hp : past2 (s.l u).pc = true) (ht : (s.l u).tbl = s.g.cur)
    (hw : willCommit u R' = true) :
    Pt ts s0 (H ++ [⟨s, x, c, s'⟩]) R' k (specDc f lie co (absGet s.g k)).1 := by
  have hmem : u ∈ ts.eraseDups := List.mem_eraseDups.mpr hu
  obtain ⟨us1, us2, hsplit⟩ := List.append_of_mem hmem
  have hnd := nodup_eraseDups ts
  rw [hsplit] at hnd
  have hnot : u ∉ us1 := by
    intro hm
    have := (List.nodup_append.mp hnd).2.2 u hm u (by simp)
    exact this rfl
  let ev : Ev K V := ⟨s, x, c, s'⟩
  have hent := helpedEntry_of ev R' u k f lie co hop hp ht hw
  let A := (contribF ts H (ev :: R')).flatten
  let B := us1.filterMap (helpedEntry ev R')
  let entry : LinE K V :=
    ⟨u, .dc k f lie co, .val (specDc f lie co (absGet s.g k)).2.1 (specDc f lie co (absGet s.g k)).2.2⟩
  have hflat : (contribF ts (H ++ [ev]) R').flatten =
      (A ++ B ++ [entry]) ++ (us2.filterMap (helpedEntry ev R') ++ [⟨x, .clear, .unit⟩]) := by
    rw [contribF_snoc, linOf_publish_clear ts ev R' hpc hh, hsplit, List.filterMap_append, List.filterMap_cons, hent]
    simp [A, B, entry, ev]
  refine ⟨(A ++ B ++ [entry]).length, ?_, ?_⟩
  · rw [hflat]; simp only [List.length_append]; omega
  · rw [hflat, List.take_left' rfl, specFold_append, specFold_append]
    show specFold (specFold (specFold (absGet s0.g) A) B) [entry] k = _
    rw [hfull]
    simp only [specFold, specStep, entry, if_true]
    rw [helped_fold_other ev R' us1 (absGet s.g) k]
    intro u' hu' f' lie' co' hop' hp' ht'
    have hne : u' ≠ u := by intro e; subst e; exact hnot hu'
    exact helped_distinct p hmin s hreach u' u hne k f' f lie' co' lie co k hop' hp' ht' hop hp ht rfl

theorem willCommit_stay (u : Tid) (e : Ev K V) (rest : List (Ev K V)) (h : e.tid = u)
    (h1 : past2 (e.pre.l u).pc = true) (h2 : (e.pre.l u).pc ≠ .dcCommit) (h3 : past2 (e.post.l u).pc = true) :
    willCommit u (e :: rest) = willCommit u rest := by
  rcases past2_cases _ h1 with hpc | hpc | hpc | hpc
  · rw [willCommit_scan u e rest h hpc, if_neg]
    intro h'; rw [h'] at h3; cases h3
  · rw [willCommit_sum u e rest h hpc, if_neg]
    intro h'; rw [h'] at h3; cases h3
  · exact willCommit_fn u e rest h hpc
  · exact absurd hpc h2

/-- **the history invariant against the log**, for one key `k`, over the steps `H` taken since `s0` (the run
continues with `R`):
* `full`: the entries contributed so far lead from the abstract content of `s0` to the current abstract content;
* `r1`: the binding of `k` in a retired table generation that was current at a recorded step is the binding of `k`
  after some prefix of the entries contributed so far;
* `r3`: so is what a writer of `k` past its checks on such a retired generation installs, if it goes on to commit
  there. -/
structure HInv (ts : List Tid) (s0 : St K V) (k : K) (H R : List (Ev K V)) (s : St K V) : Prop where
  full : specFold (absGet s0.g) (contribF ts H R).flatten = absGet s.g
  mono : ∀ e ∈ H, e.pre.g.cur ≤ s.g.cur
  r1 : ∀ T, T ≠ s.g.cur → WasCurH H T → Pt ts s0 H R k ((s.g.tables T).data.get k)
  r3 : ∀ u f lie co, past2 (s.l u).pc = true → (s.l u).tbl ≠ s.g.cur → WasCurH H (s.l u).tbl →
    (s.l u).op = some (.dc k f lie co) → willCommit u R = true → Pt ts s0 H R k (specDc f lie co ((s.g.tables (s.l u).tbl).data.get k)).1

theorem hinv_nil (ts : List Tid) (s0 : St K V) (k : K) (R : List (Ev K V)) : HInv ts s0 k [] R s0 :=
  ⟨rfl, fun e he => (by cases he), fun T _ hw => (by obtain ⟨e, he, -⟩ := hw; cases he),
   fun u f lie co _ _ hw => (by obtain ⟨e, he, -⟩ := hw; cases he)⟩

theorem hinv_step (hmin : 0 < p.minLen) (ts : List Tid) (s0 : St K V) (k : K) (H R' : List (Ev K V)) (s s' : St K V)
    (x : Tid) (c : Choice K V) (hreach : Reach p s) (hs : step p s x c = some s') (htsR : ∀ e ∈ R', e.tid ∈ ts)
    (hJ : HInv ts s0 k H (⟨s, x, c, s'⟩ :: R') s) : HInv ts s0 k (H ++ [⟨s, x, c, s'⟩]) R' s' := by
  obtain ⟨hts, hoth⟩ := step_def p s s' x c hs
  have hcle := cur_le_step p hmin s hreach x c _ _ hts
  have hi := inv_reach p s hreach
  have hd := dinv_reach p hmin s hreach
  have hfull' : specFold (absGet s0.g) (contribF ts (H ++ [⟨s, x, c, s'⟩]) R').flatten = absGet s'.g := by
    rw [contribF_snoc, specFold_append, hJ.full]
    exact (linOf_step p hmin ts s s' x c hreach hs R').2
  have hmem : ∀ e, e ∈ H ++ [(⟨s, x, c, s'⟩ : Ev K V)] → e ∈ H ∨ e = ⟨s, x, c, s'⟩ := by
    intro e he; simpa using he
  have hwas : ∀ T, T ≠ s.g.cur → WasCurH (H ++ [(⟨s, x, c, s'⟩ : Ev K V)]) T → WasCurH H T := by
    intro T hT hw
    obtain ⟨e, he, hc⟩ := hw
    rcases hmem e he with h | rfl
    · exact ⟨e, h, hc⟩
    · exact absurd hc.symm hT
  have hle : ∀ T, WasCurH (H ++ [(⟨s, x, c, s'⟩ : Ev K V)]) T → T ≤ s.g.cur := by
    intro T hw
    obtain ⟨e, he, hc⟩ := hw
    rcases hmem e he with h | rfl
    · rw [← hc]; exact hJ.mono e h
    · rw [← hc]; exact Nat.le_refl _
  refine ⟨hfull', ?_, ?_, ?_⟩
  · intro e he
    rcases hmem e he with h | rfl
    · exact Nat.le_trans (hJ.mono e h) hcle
    · exact hcle
  · intro T hT hw
    have hTle := hle T hw
    apply pt_mono
    rcases data_key_step p hmin s hreach x c s'.g (s'.l x) hts T hTle k with hsame | ⟨hpc, htbl, hkey⟩
    · rw [hsame]
      by_cases hTc : T = s.g.cur
      · subst hTc
        exact pt_full ts s0 s H _ k hJ.full
      · exact hJ.r1 T hTc (hwas T hTc hw)
    · have hcur : s'.g.cur = s.g.cur := by
        rcases cur_step p x s.g (s.l x) c _ _ hts with e | ⟨e, -⟩
        · exact e
        · rw [hpc] at e; cases e
      have hTc : T ≠ s.g.cur := by rw [← hcur]; exact hT
      obtain ⟨f, lie, co, hop⟩ := dc_op_of_key _ (hi.2 x).wf (by rw [hpc]; rfl) k hkey
      obtain ⟨f1, f2, f3⟩ := commit_facts p hmin s hreach x k f lie co hop hpc
      obtain ⟨e1, -⟩ := commit_step_spec p x s.g (s.l x) c _ _ k f lie co hop hpc f1 f2 f3 hts
      have := hJ.r3 x f lie co (by rw [hpc]; rfl) (by rw [htbl]; exact hTc) (by rw [htbl]; exact hwas T hTc hw) hop
        (willCommit_commit x ⟨s, x, c, s'⟩ R' rfl hpc)
      rw [← htbl, e1, f2]
      exact this
  · intro u f lie co hp hne hwc' hop hw
    by_cases hux : u = x
    · subst hux
      obtain ⟨e1, e2, -, e4, hcase⟩ := past2_step p u s.g (s.l u) c s'.g (s'.l u) hts hp
      rcases hcase with ⟨hp2, hnc⟩ | ⟨-, hcur⟩
      · apply pt_mono
        have hwc := willCommit_stay u ⟨s, u, c, s'⟩ R' rfl hp2 hnc hp
        have hne0 : (s.l u).tbl ≠ s.g.cur := by rw [← e1, ← e4]; exact hne
        have := hJ.r3 u f lie co hp2 hne0 (hwas _ hne0 (by rw [← e1]; exact hwc')) (by rw [← e2]; exact hop)
          (by rw [hwc]; exact hw)
        rw [e1, e4]; exact this
      · exact absurd (by rw [e1, e4, hcur]) hne
    · have hl := hoth u hux
      rw [hl] at hp hne hop hwc' ⊢
      by_cases hTc : (s.l u).tbl = s.g.cur
      · have hcne : s'.g.cur ≠ s.g.cur := by rw [← hTc]; exact fun e => hne e.symm
        obtain ⟨hpc, hh, -⟩ := retire_step_is_clear p hmin s hreach x u c _ _ hts (past2_pastChk _ hp) hTc hcne
        obtain ⟨-, htab⟩ := publish_step p x s.g (s.l x) c _ _ hpc hts
        obtain ⟨e, he, het⟩ := willCommit_mem u R' hw
        have hum : u ∈ ts := by rw [← het]; exact htsR e he
        have := pt_helped p hmin ts s0 s s' H R' x c hreach hpc hh hJ.full u k f lie co hum hop hp hTc hw
        rw [htab, hTc]
        exact this
      · apply pt_mono
        have hstab := locked_key_stable p hmin s hreach x u (Ne.symm hux) c _ _ hts (past2_pastChk _ hp) k
          (by simp [opKey, hop])
        rw [hstab]
        exact hJ.r3 u f lie co hp hTc (hwas _ hTc hwc') hop (by rw [willCommit_other u _ R' (Ne.symm hux)]; exact hw)

/-- the binding of `k` in a table generation that is, or was at a recorded step, the current one is the binding of `k`
after a prefix of the log -/
theorem rd_pt (ts : List Tid) (s0 : St K V) (k : K) (H R : List (Ev K V)) (s : St K V) (hJ : HInv ts s0 k H R s)
    (T : Nat) (hw : WasCur H s T) : Pt ts s0 H R k ((s.g.tables T).data.get k) := by
  by_cases hT : T = s.g.cur
  · subst hT; exact pt_full ts s0 s H R k hJ.full
  · rcases hw with h | h
    · exact absurd h hT
    · exact hJ.r1 T hT h

/-- the history invariant of a lookup by thread `t`, against the log -/
structure RdInv2 (ts : List Tid) (s0 : St K V) (k : K) (t : Tid) (H R : List (Ev K V)) (s : St K V) : Prop where
  rd : (s.l t).pc = .ldRead → WasCur H s (s.l t).tbl
  rt : (s.l t).pc = .ret → (s.l t).op = some (.load k) → ∀ v b, (s.l t).result = some (.val v b) →
    Pt ts s0 H R k v ∧ b = v.isSome

theorem rdinv2_step (ts : List Tid) (s0 : St K V) (k : K) (t : Tid) (H R' : List (Ev K V)) (s s' : St K V)
    (x : Tid) (c : Choice K V) (hreach : Reach p s) (hs : step p s x c = some s')
    (hT : HInv ts s0 k H (⟨s, x, c, s'⟩ :: R') s) (hJ : RdInv2 ts s0 k t H (⟨s, x, c, s'⟩ :: R') s) :
    RdInv2 ts s0 k t (H ++ [⟨s, x, c, s'⟩]) R' s' := by
  obtain ⟨hts, hoth⟩ := step_def p s s' x c hs
  by_cases hx : t = x
  · subst hx
    refine ⟨fun hpc => ?_, fun hpc hop v b hres => ?_⟩
    · obtain ⟨e1, e2⟩ := read_entry p t s.g (s.l t) c _ _ hts hpc
      exact Or.inl (by rw [e1, e2])
    · obtain ⟨h1, h2⟩ := ret_entry_load p t s.g (s.l t) c _ _ (loadPc_reach p s hreach t) hts hpc k hop
      obtain ⟨e1, -, hcase⟩ := read_step p t s.g (s.l t) c _ _ k (by simp [opKey, h2]) h1 hts
      have hw := rd_pt ts s0 k H _ s hT _ (hJ.rd h1)
      rcases hcase with ⟨-, -, hr⟩ | ⟨k0, f, lie, co, y, h3, -⟩ | ⟨h3, -⟩
      · rw [hr] at hres
        simp only [Option.some.injEq, Ret.val.injEq] at hres
        obtain ⟨rfl, rfl⟩ := hres
        exact ⟨pt_mono ts s0 H _ R' k _ hw, rfl⟩
      · rw [h2] at h3; cases h3
      · rw [h2] at h3; cases h3
  · have hl := hoth t hx
    refine ⟨fun hpc => ?_, fun hpc hop v b hres => ?_⟩
    · rw [hl] at hpc ⊢; exact wasCur_mono H s s' _ _ rfl (hJ.rd hpc)
    · rw [hl] at hpc hop hres
      obtain ⟨h1, h2⟩ := hJ.rt hpc hop v b hres
      exact ⟨pt_mono ts s0 H _ R' k v h1, h2⟩

/-- the entries of `pre` lead from the empty map to the abstract content at the start of the interval -/
theorem before_fold (hmin : 0 < p.minLen) (ts : List Tid) (pre mid post : List (Tid × Choice K V)) (s0 s' : St K V)
    (h0 : run p (init p) pre = some s0) (h1 : run p s0 mid = some s') (X : List (LinE K V)) :
    specFold (fun _ => none)
      (((contrib ts (events p (init p) (pre ++ mid ++ post))).take pre.length).flatten ++ X) =
    specFold (absGet s0.g) X := by
  rw [events_three p pre mid post (init p) s0 s' h0 h1,
    (contrib_split ts _ _ _ pre.length mid.length (events_length p pre _ _ h0) (events_length p mid _ _ h1)).1,
    specFold_append]
  have := (contribF_run p hmin ts pre (init p) s0 (events p s0 mid ++ events p s' post) ⟨[], rfl⟩ h0).2
  rw [absGet_init] at this
  rw [this]

/-- **every completed lookup reads the map of a log prefix that ends inside its interval**: for `Load k` returning
`(v, ok)` there is a number `n` of entries contributed by the steps of `mid` such that the builtin map after the
entries of `pre` followed by those `n` entries binds `k` to `v` -/
theorem reader_point (hmin : 0 < p.minLen) (ts : List Tid) (pre mid post : List (Tid × Choice K V)) (s0 s' s'' : St K V)
    (h0 : run p (init p) pre = some s0) (h1 : run p s0 mid = some s') (h2 : run p s' post = some s'')
    (hts : ∀ x ∈ pre ++ mid ++ post, x.1 ∈ ts) (t : Tid) (k : K) (v : Option V) (b : Bool)
    (hstart : (s0.l t).pc = .ldTable)
    (hn : NoRet t (events p s0 mid))
    (hop : (s'.l t).op = some (.load k)) (hret : (s'.l t).pc = .ret) (hres : (s'.l t).result = some (.val v b)) :
    let C := contrib ts (events p (init p) (pre ++ mid ++ post))
    let before := (C.take pre.length).flatten
    let inside := ((C.drop pre.length).take mid.length).flatten
    b = v.isSome ∧ ∃ n, n ≤ inside.length ∧ specFold (fun _ => none) (before ++ inside.take n) k = v := by
  intro C before inside
  have hreach : Reach p s0 := ⟨pre, h0⟩
  have hev := events_three p pre mid post (init p) s0 s' h0 h1
  have hins : inside = (contribF ts (events p s0 mid) (events p s' post)).flatten := by
    show (((contrib ts (events p (init p) (pre ++ mid ++ post))).drop pre.length).take mid.length).flatten = _
    rw [hev, (contrib_split ts _ _ _ pre.length mid.length (events_length p pre _ _ h0) (events_length p mid _ _ h1)).2]
  have htsE : ∀ e ∈ events p s0 mid ++ events p s' post, e.tid ∈ ts := by
    intro e he
    have : e ∈ events p (init p) (pre ++ mid ++ post) := by
      rw [hev, List.append_assoc]; exact List.mem_append_right _ he
    obtain ⟨x, hx, hxe⟩ := events_tid p _ _ e this
    rw [← hxe]; exact hts x hx
  have key := hist_run p
    (fun H s => ∀ R, H ++ R = events p s0 mid ++ events p s' post → HInv ts s0 k H R s ∧ RdInv2 ts s0 k t H R s)
    ?_ mid s0 s' [] hreach ?_ h1
  · obtain ⟨-, hR⟩ := key (events p s' post) (by simp)
    simp only [List.nil_append] at hR
    obtain ⟨⟨n, hn1, hn2⟩, hb⟩ := hR.rt hret hop v b hres
    refine ⟨hb, n, by rw [hins]; exact hn1, ?_⟩
    show specFold (fun _ => none) ((C.take pre.length).flatten ++ inside.take n) k = v
    rw [before_fold p hmin ts pre mid post s0 s' h0 h1, hins]
    exact hn2
  · intro H s x c s2 hr hJ hs R hR
    have hR' : H ++ (⟨s, x, c, s2⟩ :: R) = events p s0 mid ++ events p s' post := by rw [← hR]; simp
    obtain ⟨hT, hRd⟩ := hJ _ hR'
    refine ⟨hinv_step p hmin ts s0 k H R s s2 x c hr hs ?_ hT, rdinv2_step p ts s0 k t H R s s2 x c hr hs hT hRd⟩
    intro e he
    exact htsE e (by rw [← hR]; exact List.mem_append_right _ he)
  · intro R _
    refine ⟨hinv_nil ts s0 k R, fun h => ?_, fun h => ?_⟩
    · rw [hstart] at h; cases h
    · rw [hstart] at h; cases h

/-- the same for the lock-free fast-path hit of `LoadOrStore` / `LoadOrCompute` (the second case of `writer_once`) -/
theorem fastpath_point (hmin : 0 < p.minLen) (ts : List Tid) (pre mid post : List (Tid × Choice K V)) (s0 s' s'' : St K V)
    (h0 : run p (init p) pre = some s0) (h1 : run p s0 mid = some s') (h2 : run p s' post = some s'')
    (hts : ∀ x ∈ pre ++ mid ++ post, x.1 ∈ ts) (t : Tid)
    (k : K) (f : Option V → V × Bool) (co : Bool) (x : V)
    (hstart : (s0.l t).pc = .dcFast)
    (hn : NoRet t (events p s0 mid))
    (hop : (s'.l t).op = some (.dc k f true co)) (hret : (s'.l t).pc = .ret)
    (hres : (s'.l t).result = some (.val (some x) (!co))) :
    let C := contrib ts (events p (init p) (pre ++ mid ++ post))
    let before := (C.take pre.length).flatten
    let inside := ((C.drop pre.length).take mid.length).flatten
    (∀ y ∈ inside, y.tid ≠ t) →
    ∃ n, n ≤ inside.length ∧ specFold (fun _ => none) (before ++ inside.take n) k = some x := by
  intro C before inside hnone
  have hreach : Reach p s0 := ⟨pre, h0⟩
  have hev := events_three p pre mid post (init p) s0 s' h0 h1
  have hins : inside = (contribF ts (events p s0 mid) (events p s' post)).flatten := by
    show (((contrib ts (events p (init p) (pre ++ mid ++ post))).drop pre.length).take mid.length).flatten = _
    rw [hev, (contrib_split ts _ _ _ pre.length mid.length (events_length p pre _ _ h0) (events_length p mid _ _ h1)).2]
  have htsE : ∀ e ∈ events p s0 mid ++ events p s' post, e.tid ∈ ts := by
    intro e he
    have : e ∈ events p (init p) (pre ++ mid ++ post) := by
      rw [hev, List.append_assoc]; exact List.mem_append_right _ he
    obtain ⟨x, hx, hxe⟩ := events_tid p _ _ e this
    rw [← hxe]; exact hts x hx
  have hwf0 := ((inv_reach p s0 hreach).2 t).wf
  obtain ⟨k0, f0, lie0, co0, hop0⟩ := isDcOp_cases _ (hwf0.dcop (by rw [hstart]; rfl))
  have key := hist_run p
    (fun H s => ∀ R, H ++ R = events p s0 mid ++ events p s' post → NoRet t H →
      HInv ts s0 k0 H R s ∧
      WInv2 ts t k0 f0 lie0 co0 (fun H R y => Pt ts s0 H R k0 (some y)) H R s ∧
      ((s.l t).pc = .ldRead → WasCur H s (s.l t).tbl))
    ?_ mid s0 s' [] hreach ?_ h1
  · obtain ⟨-, hW, -⟩ := key (events p s' post) (by simp) (by simpa using hn)
    simp only [List.nil_append] at hW
    obtain ⟨hopW, hph⟩ := hW
    rw [hop] at hopW
    simp only [Option.some.injEq, POp.dc.injEq] at hopW
    obtain ⟨rfl, rfl, rfl, rfl⟩ := hopW
    have hTL : TL ts t (events p s0 mid) (events p s' post) = [] := by
      unfold TL
      rw [← hins, List.filter_eq_nil_iff]
      intro y hy
      simpa [isT] using hnone y hy
    rcases hph with ⟨h1, -⟩ | ⟨h1, -⟩ | ⟨h1, -⟩ | ⟨-, hD⟩
    · exact absurd hret (srch_pcs _ h1).2.2
    · rw [hret] at h1; cases h1
    · rw [hret] at h1; cases h1
    · rcases hD with ⟨r, -, hl⟩ | ⟨-, -, y, hr, n, hn1, hn2⟩
      · rw [hTL] at hl; cases hl
      · rw [hres] at hr
        simp only [Option.some.injEq, Ret.val.injEq] at hr
        obtain ⟨rfl, -⟩ := hr
        refine ⟨n, by rw [hins]; exact hn1, ?_⟩
        show specFold (fun _ => none) ((C.take pre.length).flatten ++ inside.take n) k = some x
        rw [before_fold p hmin ts pre mid post s0 s' h0 h1, hins]
        exact hn2
  · intro H s y c s2 hr hJ hs R hR hnr
    have hR' : H ++ (⟨s, y, c, s2⟩ :: R) = events p s0 mid ++ events p s' post := by rw [← hR]; simp
    have hnH : NoRet t H := fun e he => hnr e (List.mem_append_left _ he)
    obtain ⟨hT, hW, hRd⟩ := hJ _ hR' hnH
    have htsR : ∀ e ∈ R, e.tid ∈ ts := fun e he => htsE e (by rw [← hR]; exact List.mem_append_right _ he)
    obtain ⟨hts', hoth⟩ := step_def p s s2 y c hs
    refine ⟨hinv_step p hmin ts s0 k0 H R s s2 y c hr hs htsR hT, ?_, ?_⟩
    · refine winv2_step p hmin ts t k0 f0 lie0 co0 _ H R s s2 y c hr hs htsR ?_ ?_ ?_ hW
      · intro hy; subst hy
        exact hnr ⟨s, y, c, s2⟩ (by simp) rfl
      · intro z hz; exact pt_mono ts s0 H _ R k0 _ hz
      · intro _ hpc z hz
        have := rd_pt ts s0 k0 H _ s hT _ (hRd hpc)
        rw [hz] at this
        exact pt_mono ts s0 H _ R k0 _ this
    · intro hpc
      by_cases hy : t = y
      · subst hy
        obtain ⟨e1, e2⟩ := read_entry p t s.g (s.l t) c _ _ hts' hpc
        exact Or.inl (by rw [e1, e2])
      · rw [hoth t hy] at hpc ⊢; exact wasCur_mono H s s2 _ _ rfl (hRd hpc)
  · intro R _ _
    refine ⟨hinv_nil ts s0 k0 R, ⟨hop0, Or.inl ⟨Or.inl (by rw [hstart]; rfl), rfl⟩⟩, fun h => ?_⟩
    rw [hstart] at h; cases h

/-! ## part: non-vacuity -/

section example_run
open Model.Proto

/-- the parameters of `Props/C03.lean`'s `exP` -/
def exP : Params Nat :=
  { growThr := fun n => n * 9 / 4, shrinkThr := fun n => n * 3 / 128, bkt := fun _ k => k, minLen := 2,
    growOnly := false, stripes := fun _ => 8 }

/-- thread 0 runs `Store(1, 5)` up to its scan (past both checks on table 0); thread 1 runs a whole `Clear` (its
publish step retires table 0); then thread 0 commits into the retired table and returns -/
def exSched : List (Tid × Choice Nat Nat) :=
  let nc : Choice Nat Nat := {}
  [(0, { op := some (.dc 1 (fun _ => (5, false)) false false) })] ++ List.replicate 4 (0, nc) ++
  [(1, { op := some .clear })] ++ List.replicate 11 (1, nc) ++
  List.replicate 7 (0, nc)

/-- what we look at in an entry: thread, kind of call, returned value/flag -/
def exView (e : LinE Nat Nat) : Tid × Bool × Option (Option Nat × Bool) :=
  (e.tid, match e.op with | .clear => true | _ => false, match e.res with | .val v b => some (v, b) | _ => none)
end example_run

section example_run
open Model.Proto

/-- the run completes: both calls have returned, `Store(1, 5)` reports "stored" (`(some 5, false)`), and — the `Clear`
being linearized after it — key `1` is unbound at the end -/
example : ∃ s, run exP (init exP) exSched = some s ∧ (s.l 0).pc = .idle ∧ (s.l 1).pc = .idle ∧
    (s.l 0).result = some (.val (some 5) false) ∧ absGet s.g 1 = none ∧ s.g.cur = 1 :=
  ⟨_, rfl, rfl, rfl, rfl, rfl, rfl⟩

/-- its log: the helped `Store(1, 5)` of thread 0 (result `(some 5, false)`) immediately before the `Clear` of
thread 1 — both contributed by the publish step of the `Clear` (step 11); the later commit of thread 0 into the
retired table (step 19) contributes nothing -/
example : (wlog [0, 1] (events exP (init exP) exSched)).map exView =
    [(0, false, some (some 5, false)), (1, true, none)] := by decide

example : (contrib [0, 1] (events exP (init exP) exSched)).map (·.length) =
    [0, 0, 0, 0, 0, 0, 0, 0, 0, 0, 0, 2, 0, 0, 0, 0, 0, 0, 0, 0, 0, 0, 0, 0] := by decide

/-- the hypotheses of `writer_once` are met by this run (`pre` = the step that starts the `Store`, `mid` = up to its
return point, `post` = the return step) -/
example : ∃ s0 s' s'', run exP (init exP) (exSched.take 1) = some s0 ∧
    run exP s0 ((exSched.drop 1).take 22) = some s' ∧ run exP s' (exSched.drop 23) = some s'' ∧
    (s0.l 0).pc = .dcLoadTable ∧ (s'.l 0).pc = .ret ∧ (s'.l 0).result = some (.val (some 5) false) ∧
    NoRet 0 (events exP s0 ((exSched.drop 1).take 22)) ∧
    exSched = exSched.take 1 ++ (exSched.drop 1).take 22 ++ exSched.drop 23 :=
  ⟨_, _, _, rfl, rfl, rfl, rfl, rfl, rfl, by unfold NoRet; decide, rfl⟩
end example_run

end Proofs.ProtoHW
