import CacheVerif.Generated.Wrappers
import CacheVerif.Model.Table
import CacheVerif.Model.ProtoApi
import CacheVerif.Proofs.ProtoLin
/-!
# The writing methods of `Map` / `MapOf`, as printed from the working tree, are the calls of `doCompute` the models make

`tools/go2deep -wrappers` prints what `Store`, `LoadOrStore`, `LoadAndStore`, `LoadOrCompute`, `Compute`,
`LoadAndDelete`, `Delete` of both files pass to `doCompute` (`Generated/Wrappers.lean`).  Here:
* the sequential table model M3 (`Model.Table.step`) makes exactly those calls (function, `loadIfExists`,
  `computeOnly`, result dropped or returned) - for the wrappers of both files;
* with `doCompute` meaning `specDc` (what the commit step of M4a implements, `ProtoLin.commit_is_spec_step`), the printed
  arguments of each method give the builtin-map meaning of that method (`Spec.AMap`): new binding of the key, returned
  value, returned flag.
-/
namespace Proofs.Wrappers
open Spec Deep Model.Table Proofs.ProtoLin

variable {K V : Type} [DecidableEq K] [Inhabited V]

/-! ## M3 makes the calls the wrappers make -/
section m3
variable (var : Variant) (env : Env K) (m : St K V) (k : K) (v : V) (g : Option V → V × Bool)

/-- one wrapper applied to the table model -/
def viaWrapper (w : Wrapper) (value : V) (calls : Nat) : St K V × MRes K V :=
  wrap m (doCompute var env m k (w.fnOf value g) w.lie w.co (fuelFor m)) calls (!w.returns)

theorem table_store : step var env m (.store k v) = viaWrapper var env m k g Gen.Deep.Map_Store v 0 ∧
    step var env m (.store k v) = viaWrapper var env m k g Gen.Deep.MapOf_Store v 0 := ⟨rfl, rfl⟩
theorem table_loadOrStore : step var env m (.loadOrStore k v) = viaWrapper var env m k g Gen.Deep.Map_LoadOrStore v 0 ∧
    step var env m (.loadOrStore k v) = viaWrapper var env m k g Gen.Deep.MapOf_LoadOrStore v 0 := ⟨rfl, rfl⟩
theorem table_loadAndStore : step var env m (.loadAndStore k v) = viaWrapper var env m k g Gen.Deep.Map_LoadAndStore v 0 ∧
    step var env m (.loadAndStore k v) = viaWrapper var env m k g Gen.Deep.MapOf_LoadAndStore v 0 := ⟨rfl, rfl⟩
theorem table_loadOrCompute (calls : Nat)
    (hc : calls = if (lookup k (m.tbl.chain (m.tbl.bucketOf var env k))).isSome then 0 else 1) :
    step var env m (.loadOrCompute k v) = viaWrapper var env m k g Gen.Deep.Map_LoadOrCompute v calls ∧
    step var env m (.loadOrCompute k v) = viaWrapper var env m k g Gen.Deep.MapOf_LoadOrCompute v calls := by
  subst hc; exact ⟨rfl, rfl⟩
theorem table_compute : step var env m (.compute k g) = viaWrapper var env m k g Gen.Deep.Map_Compute v 1 ∧
    step var env m (.compute k g) = viaWrapper var env m k g Gen.Deep.MapOf_Compute v 1 := ⟨rfl, rfl⟩
theorem table_loadAndDelete : step var env m (.loadAndDelete k) = viaWrapper var env m k g Gen.Deep.Map_LoadAndDelete v 0 ∧
    step var env m (.loadAndDelete k) = viaWrapper var env m k g Gen.Deep.MapOf_LoadAndDelete v 0 := ⟨rfl, rfl⟩
theorem table_delete : step var env m (.delete k) = viaWrapper var env m k g Gen.Deep.Map_Delete v 0 ∧
    step var env m (.delete k) = viaWrapper var env m k g Gen.Deep.MapOf_Delete v 0 := ⟨rfl, rfl⟩
end m3

/-! ## with `doCompute = specDc`, each wrapper is the builtin-map method of its name -/
section spec
variable (m : AMap K V) (k : K) (v : V) (g : Option V → V × Bool)

/-- what a wrapper does to the binding of the key and what it returns, given the meaning `specDc` of `doCompute` -/
def viaSpec (w : Wrapper) (value : V) : Option V × V × Bool :=
  let r := specDc (w.fnOf value g) w.lie w.co (m.get k)
  (r.1, r.2.1.getD default, r.2.2)

/-- `Store`: the key is bound to the value (both files) -/
theorem store_spec (w : Wrapper) (hw : w = Gen.Deep.Map_Store ∨ w = Gen.Deep.MapOf_Store) :
    (viaSpec m k g w v).1 = (AMap.store m k v).get k ∧ w.returns = false := by
  rcases hw with rfl | rfl <;> refine ⟨?_, rfl⟩ <;>
    (simp only [viaSpec, specDc, Wrapper.fnOf, Gen.Deep.Map_Store, Gen.Deep.MapOf_Store, AMap.store, AMap.get_set]
     cases m.get k <;> simp)

/-- `LoadOrStore` (both files) -/
theorem loadOrStore_spec (w : Wrapper) (hw : w = Gen.Deep.Map_LoadOrStore ∨ w = Gen.Deep.MapOf_LoadOrStore) :
    (viaSpec m k g w v).1 = (AMap.loadOrStore m k v).1.get k ∧ (viaSpec m k g w v).2 = (AMap.loadOrStore m k v).2 ∧
    w.returns = true := by
  rcases hw with rfl | rfl <;>
    (simp only [viaSpec, specDc, Wrapper.fnOf, Gen.Deep.Map_LoadOrStore, Gen.Deep.MapOf_LoadOrStore, AMap.loadOrStore]
     cases hg : m.get k <;> simp [hg, AMap.get_set])

/-- `LoadAndStore` (both files) -/
theorem loadAndStore_spec (w : Wrapper) (hw : w = Gen.Deep.Map_LoadAndStore ∨ w = Gen.Deep.MapOf_LoadAndStore) :
    (viaSpec m k g w v).1 = (AMap.loadAndStore m k v).1.get k ∧ (viaSpec m k g w v).2 = (AMap.loadAndStore m k v).2 ∧
    w.returns = true := by
  rcases hw with rfl | rfl <;>
    (simp only [viaSpec, specDc, Wrapper.fnOf, Gen.Deep.Map_LoadAndStore, Gen.Deep.MapOf_LoadAndStore, AMap.loadAndStore]
     cases hg : m.get k <;> simp [hg, AMap.get_set])

/-- `LoadOrCompute` (both files): `v` is what the user function returns; it is used only when the key is absent -/
theorem loadOrCompute_spec (w : Wrapper) (hw : w = Gen.Deep.Map_LoadOrCompute ∨ w = Gen.Deep.MapOf_LoadOrCompute) :
    (viaSpec m k g w v).1 = (AMap.loadOrStore m k v).1.get k ∧ (viaSpec m k g w v).2 = (AMap.loadOrStore m k v).2 ∧
    w.returns = true := by
  rcases hw with rfl | rfl <;>
    (simp only [viaSpec, specDc, Wrapper.fnOf, Gen.Deep.Map_LoadOrCompute, Gen.Deep.MapOf_LoadOrCompute, AMap.loadOrStore]
     cases hg : m.get k <;> simp [hg, AMap.get_set])

/-- `Compute` (both files) -/
theorem compute_spec (w : Wrapper) (hw : w = Gen.Deep.Map_Compute ∨ w = Gen.Deep.MapOf_Compute) :
    (viaSpec m k g w v).1 = (AMap.compute m k g).1.get k ∧ (viaSpec m k g w v).2 = (AMap.compute m k g).2 ∧
    w.returns = true := by
  rcases hw with rfl | rfl <;>
    (simp only [viaSpec, specDc, Wrapper.fnOf, Gen.Deep.Map_Compute, Gen.Deep.MapOf_Compute, AMap.compute]
     cases hg : m.get k with
     | none => by_cases hd : (g none).2 = true <;> simp [hd, hg, AMap.get_set]
     | some old => by_cases hd : (g (some old)).2 = true <;> simp [hd, hg, AMap.get_set, AMap.get_erase])

/-- `LoadAndDelete` (both files) -/
theorem loadAndDelete_spec (w : Wrapper) (hw : w = Gen.Deep.Map_LoadAndDelete ∨ w = Gen.Deep.MapOf_LoadAndDelete) :
    (viaSpec m k g w v).1 = (AMap.loadAndDelete m k).1.get k ∧ (viaSpec m k g w v).2 = (AMap.loadAndDelete m k).2 ∧
    w.returns = true := by
  rcases hw with rfl | rfl <;>
    (simp only [viaSpec, specDc, Wrapper.fnOf, Gen.Deep.Map_LoadAndDelete, Gen.Deep.MapOf_LoadAndDelete, AMap.loadAndDelete]
     cases hg : m.get k <;> simp [hg, AMap.get_erase])

/-- `Delete` (both files): the key is unbound afterwards; nothing is returned -/
theorem delete_spec (w : Wrapper) (hw : w = Gen.Deep.Map_Delete ∨ w = Gen.Deep.MapOf_Delete) :
    (viaSpec m k g w v).1 = (AMap.loadAndDelete m k).1.get k ∧ w.returns = false := by
  rcases hw with rfl | rfl <;> refine ⟨?_, rfl⟩ <;>
    (simp only [viaSpec, specDc, Wrapper.fnOf, Gen.Deep.Map_Delete, Gen.Deep.MapOf_Delete, AMap.loadAndDelete]
     cases hg : m.get k <;> simp [hg, AMap.get_erase])

end spec
/-- **the operations the trace acceptor of M4a starts** (`Model.Proto.api`, hand-written) **are the calls of `doCompute` the
methods printed from the working tree make** -/
theorem api_is_wrappers (k : K) (x : V) (g : Option V → V × Bool) :
    Model.Proto.api "store" k x g = some (.dc k (Gen.Deep.Map_Store.fnOf x g) Gen.Deep.Map_Store.lie Gen.Deep.Map_Store.co) ∧
    Model.Proto.api "loadorstore" k x g = some (.dc k (Gen.Deep.Map_LoadOrStore.fnOf x g) Gen.Deep.Map_LoadOrStore.lie Gen.Deep.Map_LoadOrStore.co) ∧
    Model.Proto.api "loadandstore" k x g = some (.dc k (Gen.Deep.Map_LoadAndStore.fnOf x g) Gen.Deep.Map_LoadAndStore.lie Gen.Deep.Map_LoadAndStore.co) ∧
    Model.Proto.api "loadorcompute" k x g = some (.dc k (Gen.Deep.Map_LoadOrCompute.fnOf x g) Gen.Deep.Map_LoadOrCompute.lie Gen.Deep.Map_LoadOrCompute.co) ∧
    Model.Proto.api "compute" k x g = some (.dc k (Gen.Deep.Map_Compute.fnOf x g) Gen.Deep.Map_Compute.lie Gen.Deep.Map_Compute.co) ∧
    Model.Proto.api "loadanddelete" k x g = some (.dc k (Gen.Deep.Map_LoadAndDelete.fnOf x g) Gen.Deep.Map_LoadAndDelete.lie Gen.Deep.Map_LoadAndDelete.co) ∧
    Model.Proto.api "delete" k x g = some (.dc k (Gen.Deep.Map_Delete.fnOf x g) Gen.Deep.Map_Delete.lie Gen.Deep.Map_Delete.co) :=
  ⟨rfl, rfl, rfl, rfl, rfl, rfl, rfl⟩

/-- the wrappers of `map.go` and `mapof.go` pass the same things to `doCompute` (the trace acceptor of M4a uses one table
for both files) -/
theorem twins : Gen.Deep.Map_Store = Gen.Deep.MapOf_Store ∧ Gen.Deep.Map_LoadOrStore = Gen.Deep.MapOf_LoadOrStore ∧
    Gen.Deep.Map_LoadAndStore = Gen.Deep.MapOf_LoadAndStore ∧ Gen.Deep.Map_LoadOrCompute = Gen.Deep.MapOf_LoadOrCompute ∧
    Gen.Deep.Map_Compute = Gen.Deep.MapOf_Compute ∧ Gen.Deep.Map_LoadAndDelete = Gen.Deep.MapOf_LoadAndDelete ∧
    Gen.Deep.Map_Delete = Gen.Deep.MapOf_Delete := by decide

end Proofs.Wrappers
